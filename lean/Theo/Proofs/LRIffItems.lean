/-
  "No conflict ⇒ LR(1) in Knuth's sense", part 2: completeness of the collection for spines.
  With conflict-free tables and an unexhausted state budget, the item set reached along the
  viable prefix `α` of a right sentential form `α A w` is a state of the collection and contains
  `[A → . μ, FIRST₁(w·eof)]` for every rule of `A`; moving the dot along a right-hand side stays
  inside the collection.
-/
import Theo.Proofs.LRIffSpine

namespace Theo
namespace LRIff
open LRSound LRComplete FirstProofs LRConverse

/-! ## the item set reached along a string of symbols -/

theorem hull_nil (g : Grammar) (fi : FirstInfo) : hull g fi [] = [] := by
  simp only [hull, List.foldl_nil, List.length_nil, Nat.add_zero]
  cases g.itemBound <;> rfl

theorem jump_nonempty (g : Grammar) (fi : FirstInfo) (I : ItemSet) (X : Sym) (it : Item)
    (h : it ∈ jump g fi I X) : ∃ it0 ∈ I, g.afterDot it0 = X := by
  rcases Classical.em (∃ it0 ∈ I, g.afterDot it0 = X) with h' | h'
  · exact h'
  · exfalso
    have hf : I.filter (fun it => g.afterDot it = X) = [] := by
      rw [List.filter_eq_nil_iff]
      intro a ha hX
      exact h' ⟨a, ha, by simpa using hX⟩
    simp only [jump, hf, List.map_nil, hull_nil] at h
    cases h

theorem foldl_jump_nil (g : Grammar) (fi : FirstInfo) : ∀ δ : List Sym, δ.foldl (jump g fi) [] = [] := by
  intro δ
  induction δ with
  | nil => rfl
  | cons X δ ih =>
    rw [List.foldl_cons]
    have : jump g fi [] X = [] := by simp [jump, hull_nil]
    rw [this, ih]

/-- if the path continues with `X` to a non-empty item set, `X` follows a dot -/
theorem path_through (g : Grammar) (fi : FirstInfo) (I : ItemSet) (X : Sym) (δ : List Sym) (it : Item)
    (h : it ∈ (X :: δ).foldl (jump g fi) I) : ∃ it0 ∈ I, g.afterDot it0 = X := by
  rw [List.foldl_cons] at h
  cases hj : jump g fi I X with
  | nil => rw [hj, foldl_jump_nil] at h; cases h
  | cons x xs => exact jump_nonempty g fi I X x (by rw [hj]; simp)

theorem getElem?_mid {α : Type} (μ₁ : List α) (X : α) (rest : List α) :
    (μ₁ ++ X :: rest)[μ₁.length]? = some X := by
  induction μ₁ with
  | nil => rfl
  | cons a μ₁ _ => simp

theorem drop_mid {α : Type} (μ₁ : List α) (X : α) (rest : List α) :
    (μ₁ ++ X :: rest).drop (μ₁.length + 1) = rest := by
  induction μ₁ with
  | nil => rfl
  | cons a μ₁ _ => simp

section Run
variable {g : Grammar} {start eof : Nat} {pm : Bool} {S : List LRState} {T : Tables}

variable (g start eof) in
/-- the item set reached from the initial state along `γ` -/
def pathItems (γ : List Sym) : ItemSet :=
  γ.foldl (jump (g.augment start eof) (firstSets (g.augment start eof)))
    (hull (g.augment start eof) (firstSets (g.augment start eof)) [⟨g.numNT, 0, 0, .t eof⟩])

theorem pathItems_append (γ δ : List Sym) :
    pathItems g start eof (γ ++ δ) =
      δ.foldl (jump (g.augment start eof) (firstSets (g.augment start eof))) (pathItems g start eof γ) := by
  simp [pathItems, List.foldl_append]

/-- `I` is the item set of a reachable state of the collection -/
def Real (S : List LRState) (I : ItemSet) : Prop :=
  ∃ (q : Nat) (st : LRState), RS S q ∧ S[q]? = some st ∧ st.items = I

/-- moving the dot along part of a right-hand side -/
theorem walk (C : Ctx g start eof pm S T) : ∀ (ν μ₁ μ₂ : List Sym) (I : ItemSet) (A k : Nat) (f : Sym),
    ((g.augment start eof).alts A)[k]? = some (μ₁ ++ ν ++ μ₂) → (∀ s ∈ ν, s ≠ .eps) → Real S I →
    (⟨A, k, μ₁.length, f⟩ : Item) ∈ I →
    Real S (ν.foldl (jump (g.augment start eof) (firstSets (g.augment start eof))) I) ∧
      (⟨A, k, μ₁.length + ν.length, f⟩ : Item) ∈
        ν.foldl (jump (g.augment start eof) (firstSets (g.augment start eof))) I := by
  intro ν
  induction ν with
  | nil => intro μ₁ μ₂ I A k f _ _ hr hit; exact ⟨hr, hit⟩
  | cons X ν ih =>
    intro μ₁ μ₂ I A k f hk hν hr hit
    obtain ⟨q, st, hq, hst, hI⟩ := hr
    subst hI
    have hX : X ≠ .eps := hν X (by simp)
    have hget : ((g.augment start eof).rhs ⟨A, k, μ₁.length, f⟩)[(⟨A, k, μ₁.length, f⟩ : Item).dot]? = some X := by
      simp only [Grammar.rhs, hk, Option.getD_some, List.append_assoc, List.cons_append]
      exact getElem?_mid μ₁ X _
    have ha := afterDot_of_get _ _ X hget
    obtain ⟨j, hj⟩ := C.has_trans hst hit hX ha
    obtain ⟨_, st', hst', hitems⟩ := C.inv.1 q st hst X j hj
    have hadv := (jump_ok g start eof C.hg C.hs st.items X hX (C.ok hq hst)).2 _ hit ha
    have hr' : Real S (jump (g.augment start eof) (firstSets (g.augment start eof)) st.items X) :=
      ⟨j, st', RS.step hq hst hj, hst', hitems⟩
    have := ih (μ₁ ++ [X]) μ₂ _ A k f (by rw [hk]; simp [List.append_assoc])
      (fun s hs => hν s (by simp [hs])) hr' (by simpa [adv] using hadv)
    rw [List.foldl_cons]
    refine ⟨this.1, ?_⟩
    have h2 := this.2
    simp only [List.length_append, List.length_cons, List.length_nil] at h2 ⊢
    have e : μ₁.length + (0 + 1) + ν.length = μ₁.length + (ν.length + 1) := by omega
    rw [e] at h2
    exact h2

theorem initial_mem (C : Ctx g start eof pm S T) :
    (⟨g.numNT, 0, 0, .t eof⟩ : Item) ∈ pathItems g start eof [] := by
  have hinitU : InU (g.augment start eof) ⟨g.numNT, 0, 0, .t eof⟩ ∧ Good g start eof ⟨g.numNT, 0, 0, .t eof⟩ :=
    ⟨⟨by simp [augment_alts_S g start eof C.hg], by simp, eof, rfl, eof_mem_terminals g start eof C.hg⟩,
      ⟨by simp [augment_alts_S g start eof C.hg], Or.inr ⟨rfl, rfl⟩⟩⟩
  exact (hull_ok g start eof C.hg C.hs [⟨g.numNT, 0, 0, .t eof⟩]
    (by intro x hx; simp only [List.mem_singleton] at hx; subst hx; exact hinitU)).2 _ (by simp)

/-- the lookahead of a completed right context is in the computed FIRST set -/
theorem la_mem_first (C : Ctx g start eof pm S T) (ts : List Tree)
    (hv : ∀ t ∈ ts, t.Valid (g.augment start eof)) (w : List Nat) :
    Sym.t (laOf eof (yields ts ++ w)) ∈
      firstSyms (firstSets (g.augment start eof)) (ts.map Tree.root ++ [Sym.t (laOf eof w)]) := by
  have hf := forest_first (g.augment start eof) (g.augment start eof)
    (fun A k r h => ⟨h, aug_lhs_lt g start eof C.hg h⟩) _ (Forest.ofList ts) (Nat.le_refl _)
    (valid_ofList _ ts hv)
  rw [roots_ofList, yield_ofList] at hf
  rw [mem_firstSyms_t, mem_fos_append]
  cases hy : yields ts with
  | nil =>
    right
    exact ⟨hf.1 hy, by simp [fos_t]⟩
  | cons a z =>
    left
    exact hf.2 a z hy

/-- completeness of the collection along a spine -/
theorem spine_items (C : Ctx g start eof pm S T) {α : List Sym} {A : Nat} {w : List Nat}
    (h : Spine (g.augment start eof) g.numNT α A w) :
    Real S (pathItems g start eof α) ∧
      ∀ (k : Nat) (μ : List Sym), ((g.augment start eof).alts A)[k]? = some μ →
        (⟨A, k, 0, .t (laOf eof w)⟩ : Item) ∈ pathItems g start eof α := by
  induction h with
  | base =>
    obtain ⟨_, st0, hst0, hh0⟩ := C.inv
    refine ⟨⟨0, st0, RS.zero, hst0, hh0⟩, ?_⟩
    intro k μ hk
    rw [augment_alts_S g start eof C.hg] at hk
    have hk0 : k = 0 := by
      cases k with
      | zero => rfl
      | succ k => simp at hk
    subst hk0
    exact initial_mem C
  | @down δ A₀ w₀ k ν₁ B ν₂ ts h0 hk hroots hvalid ih =>
    obtain ⟨hreal, hitems⟩ := ih
    have hν₁ : ∀ s ∈ ν₁, s ≠ .eps :=
      fun s hs => aug_no_eps g start eof C.hg A₀ k _ hk s (by simp [hs])
    have hw := walk C ν₁ [] (Sym.n B :: ν₂) _ A₀ k (.t (laOf eof w₀)) (by rw [hk]; simp) hν₁ hreal
      (hitems k _ hk)
    rw [← pathItems_append] at hw
    refine ⟨hw.1, ?_⟩
    intro k' μ' hk'
    obtain ⟨q, st, hq, hst, hI⟩ := hw.1
    have hit₁ := hw.2
    simp only [List.length_nil, Nat.zero_add] at hit₁
    rw [← hI] at hit₁ ⊢
    have hrhs : (g.augment start eof).rhs ⟨A₀, k, ν₁.length, .t (laOf eof w₀)⟩ = ν₁ ++ Sym.n B :: ν₂ := by
      simp [Grammar.rhs, hk]
    have ha : (g.augment start eof).afterDot ⟨A₀, k, ν₁.length, .t (laOf eof w₀)⟩ = .n B := by
      apply afterDot_of_get
      rw [hrhs]; exact getElem?_mid ν₁ _ _
    have hk'lt : k' < ((g.augment start eof).alts B).length := by
      rcases Nat.lt_or_ge k' ((g.augment start eof).alts B).length with h | h
      · exact h
      · rw [List.getElem?_eq_none h] at hk'; cases hk'
    apply (C.ok hq hst).closed _ hit₁
    apply mem_closeItem _ _ _ B k' _ ha hk'lt
    rw [hrhs]
    simp only [drop_mid]
    rw [← hroots]
    exact la_mem_first C ts hvalid w₀

end Run

end LRIff
end Theo
