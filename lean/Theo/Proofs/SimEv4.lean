/-
  C07, part 4: what `siteCheck` establishes — from the equality between the breakpoint sites of
  a routine's code region and the expected sites to the exact site-aware position relations.
-/
import Theo.Proofs.SimEv3

set_option linter.unusedSimpArgs false
set_option linter.unusedSectionVars false

namespace Theo
namespace Sim
open Sem

/-! ### site positions of a region -/

theorem mem_sitePositions {code : List Instr} {lo hi x : Nat} :
    x ∈ sitePositions code lo hi ↔ lo ≤ x ∧ x < hi ∧ code[x]? = some Instr.potBreak := by
  unfold sitePositions
  rw [List.mem_filterMap]
  constructor
  · rintro ⟨k, hk, h⟩
    rw [List.mem_range] at hk
    split at h
    · rename_i hc
      cases h
      exact ⟨by omega, by omega, hc⟩
    · cases h
  · rintro ⟨h1, h2, h3⟩
    refine ⟨x - lo, by rw [List.mem_range]; omega, ?_⟩
    rw [show lo + (x - lo) = x by omega, if_pos h3]

theorem sitePositions_split (code : List Instr) {lo mid hi : Nat} (h1 : lo ≤ mid) (h2 : mid ≤ hi) :
    sitePositions code lo hi = sitePositions code lo mid ++ sitePositions code mid hi := by
  unfold sitePositions
  have e : hi - lo = (mid - lo) + (hi - mid) := by omega
  rw [e, List.range_add, List.filterMap_append, List.filterMap_map]
  congr 1
  have : ((fun k => if code[lo + k]? = some Instr.potBreak then some (lo + k) else none) ∘
      fun x => mid - lo + x) =
      (fun k => if code[mid + k]? = some Instr.potBreak then some (mid + k) else none) := by
    funext k
    simp only [Function.comp]
    rw [show lo + (mid - lo + k) = mid + k by omega]
  rw [this]

theorem sitePositions_nil {code : List Instr} {lo hi : Nat} (h : Clean code lo hi) :
    sitePositions code lo hi = [] := by
  rw [List.eq_nil_iff_forall_not_mem]
  intro x hx
  obtain ⟨h1, h2, h3⟩ := mem_sitePositions.1 hx
  exact h x h1 h2 h3

theorem sitePositions_cons_self (code : List Instr) {lo hi : Nat} (h : code[lo]? = some Instr.potBreak)
    (hlt : lo < hi) : sitePositions code lo hi = lo :: sitePositions code (lo + 1) hi := by
  rw [sitePositions_split code (Nat.le_succ lo) (by omega)]
  congr 1
  unfold sitePositions
  rw [show lo + 1 - lo = 1 by omega]
  simp [h]

/-- the first expected site is the first site of the region -/
theorem sitePositions_head {code : List Instr} {lo hi a : Nat} {t : List Nat}
    (h : sitePositions code lo hi = a :: t) (hlo : code[lo]? = some Instr.potBreak) :
    a = lo ∧ lo < hi ∧ sitePositions code (lo + 1) hi = t := by
  have hmem : a ∈ sitePositions code lo hi := by rw [h]; exact List.mem_cons_self
  obtain ⟨h1, h2, _⟩ := mem_sitePositions.1 hmem
  have hlt : lo < hi := by omega
  rw [sitePositions_cons_self code hlo hlt] at h
  cases h
  exact ⟨rfl, hlt, rfl⟩

/-- no site before the smallest expected position -/
theorem clean_of_sites {code : List Instr} {lo mid hi : Nat} {Rl : List Nat}
    (h : sitePositions code lo hi = Rl) (hb : ∀ y ∈ Rl, mid ≤ y) (hm : mid ≤ hi) :
    Clean code lo mid := by
  intro x h1 h2 h3
  have : x ∈ sitePositions code lo hi := mem_sitePositions.2 ⟨h1, by omega, h3⟩
  rw [h] at this
  have := hb x this
  omega

theorem sites_after {code : List Instr} {lo mid hi : Nat} {Rl : List Nat}
    (h : sitePositions code lo hi = Rl) (hb : ∀ y ∈ Rl, mid ≤ y) (h1 : lo ≤ mid) (hm : mid ≤ hi) :
    sitePositions code mid hi = Rl := by
  have hc := clean_of_sites h hb hm
  rw [sitePositions_split code h1 hm, sitePositions_nil hc] at h
  exact h

/-! ### `skipc` over a run of sites -/

theorem skipPB_fuel (code : List Instr) : ∀ f pc, code.length ≤ pc + f →
    skipPB code (f + 1) pc = skipPB code f pc := by
  intro f
  induction f with
  | zero =>
    intro pc h
    simp only [skipPB]
    rw [List.getElem?_eq_none (by omega)]
  | succ f ih =>
    intro pc h
    rw [skipPB.eq_def code (f + 1 + 1) pc, skipPB.eq_def code (f + 1) pc]
    simp only
    split
    · exact ih (pc + 1) (by omega)
    · rfl

theorem skipc_succ_of_pb {code : List Instr} {pc : Nat} (h : code[pc]? = some Instr.potBreak) :
    skipc code pc = skipc code (pc + 1) := by
  have hlt : pc < code.length := by
    rcases Nat.lt_or_ge pc code.length with h' | h'
    · exact h'
    · rw [List.getElem?_eq_none h'] at h; cases h
  unfold skipc
  obtain ⟨f, hf⟩ : ∃ f, code.length = f + 1 := ⟨code.length - 1, by omega⟩
  rw [hf]
  rw [skipPB.eq_def code (f + 1) pc]
  simp only [h]
  exact (skipPB_fuel code f (pc + 1) (by omega)).symm

theorem skipc_run {code : List Instr} : ∀ (k pc : Nat),
    (∀ i, i < k → code[pc + i]? = some Instr.potBreak) → skipc code pc = skipc code (pc + k) := by
  intro k
  induction k with
  | zero => intro pc _; rfl
  | succ k ih =>
    intro pc h
    rw [skipc_succ_of_pb (by simpa using h 0 (by omega)), ih (pc + 1)
      (fun i hi => by rw [show pc + 1 + i = pc + (i + 1) by omega]; exact h (i + 1) (by omega))]
    congr 1
    omega

theorem skipc_eq_of_run {code : List Instr} {k pc : Nat}
    (h : ∀ i, i < k → code[pc + i]? = some Instr.potBreak)
    (hn : code[pc + k]? ≠ some Instr.potBreak) : skipc code pc = pc + k := by
  rw [skipc_run k pc h, skipc_of_not_pb hn]

theorem skipc_ge_of_run {code : List Instr} {k pc : Nat}
    (h : ∀ i, i < k → code[pc + i]? = some Instr.potBreak) : pc + k ≤ skipc code pc := by
  rw [skipc_run k pc h]
  exact le_skipc _ _

theorem VEnv.at_skipc (e : VEnv) (pc : Nat) : e.at (skipc e.code pc) = e.at pc := by
  unfold VEnv.at
  rw [skipc_idem]

theorem VEnv.next_skipc (e : VEnv) (pc : Nat) : e.next (skipc e.code pc) = e.next pc := by
  unfold VEnv.next
  rw [skipc_idem]

/-! ### value code only depends on the anchor of its start -/

mutual
theorem checkValue_skipc (e : VEnv) : ∀ (v : Value) (live : List Int) (pc : Nat),
    checkValue e v live (skipc e.code pc) = checkValue e v live pc
  | .var y, live, pc => by simp only [checkValue, VEnv.at_skipc, VEnv.next_skipc]
  | .num n, live, pc => by simp only [checkValue, VEnv.at_skipc, VEnv.next_skipc]
  | .inc y k, live, pc => by
    simp only [checkValue]; unfold checkIncDec; simp only [VEnv.at_skipc, VEnv.next_skipc]
  | .dec y k, live, pc => by
    simp only [checkValue]; unfold checkIncDec; simp only [VEnv.at_skipc, VEnv.next_skipc]
  | .call f .nil, live, pc => by
    simp only [checkValue, checkArgs]
    cases lookupProg e.src f e.routine with
    | none => rfl
    | some jp =>
      obtain ⟨j, pd⟩ := jp
      simp only []
      cases e.infos[j]? with
      | none => rfl
      | some ri => simp only [VEnv.at_skipc, VEnv.next_skipc]
  | .call f (.cons a as), live, pc => by
    simp only [checkValue]
    rw [checkArgs_skipc e a as live [] pc]
theorem checkArgs_skipc (e : VEnv) : ∀ (a : Value) (as : Values) (live acc : List Int) (pc : Nat),
    checkArgs e (.cons a as) live acc (skipc e.code pc) = checkArgs e (.cons a as) live acc pc
  | a, as, live, acc, pc => by
    simp only [checkArgs]
    rw [checkValue_skipc e a]
end

end Sim
end Theo
