/-
  C07, part 4: what `siteCheck` establishes — from the equality between the breakpoint sites of
  a routine's code region and the expected sites to the exact site-aware position relations.
-/
import Theo.Proofs.SimEv3

set_option linter.unusedSimpArgs false
set_option linter.unusedSectionVars false

namespace Theo
namespace Sim
open Sem

/-! ### site positions of a region -/

theorem mem_sitePositions {code : List Instr} {lo hi x : Nat} :
    x ∈ sitePositions code lo hi ↔ lo ≤ x ∧ x < hi ∧ code[x]? = some Instr.potBreak := by
  unfold sitePositions
  rw [List.mem_filterMap]
  constructor
  · rintro ⟨k, hk, h⟩
    rw [List.mem_range] at hk
    split at h
    · rename_i hc
      cases h
      exact ⟨by omega, by omega, hc⟩
    · cases h
  · rintro ⟨h1, h2, h3⟩
    refine ⟨x - lo, by rw [List.mem_range]; omega, ?_⟩
    rw [show lo + (x - lo) = x by omega, if_pos h3]

theorem sitePositions_split (code : List Instr) {lo mid hi : Nat} (h1 : lo ≤ mid) (h2 : mid ≤ hi) :
    sitePositions code lo hi = sitePositions code lo mid ++ sitePositions code mid hi := by
  unfold sitePositions
  have e : hi - lo = (mid - lo) + (hi - mid) := by omega
  rw [e, List.range_add, List.filterMap_append, List.filterMap_map]
  congr 1
  have : ((fun k => if code[lo + k]? = some Instr.potBreak then some (lo + k) else none) ∘
      fun x => mid - lo + x) =
      (fun k => if code[mid + k]? = some Instr.potBreak then some (mid + k) else none) := by
    funext k
    simp only [Function.comp]
    rw [show lo + (mid - lo + k) = mid + k by omega]
  rw [this]

theorem sitePositions_nil {code : List Instr} {lo hi : Nat} (h : Clean code lo hi) :
    sitePositions code lo hi = [] := by
  rw [List.eq_nil_iff_forall_not_mem]
  intro x hx
  obtain ⟨h1, h2, h3⟩ := mem_sitePositions.1 hx
  exact h x h1 h2 h3

theorem sitePositions_cons_self (code : List Instr) {lo hi : Nat} (h : code[lo]? = some Instr.potBreak)
    (hlt : lo < hi) : sitePositions code lo hi = lo :: sitePositions code (lo + 1) hi := by
  rw [sitePositions_split code (Nat.le_succ lo) (by omega)]
  congr 1
  unfold sitePositions
  rw [show lo + 1 - lo = 1 by omega]
  simp [h]

/-- the first expected site is the first site of the region -/
theorem sitePositions_head {code : List Instr} {lo hi a : Nat} {t : List Nat}
    (h : sitePositions code lo hi = a :: t) (hlo : code[lo]? = some Instr.potBreak) :
    a = lo ∧ lo < hi ∧ sitePositions code (lo + 1) hi = t := by
  have hmem : a ∈ sitePositions code lo hi := by rw [h]; exact List.mem_cons_self
  obtain ⟨h1, h2, _⟩ := mem_sitePositions.1 hmem
  have hlt : lo < hi := by omega
  rw [sitePositions_cons_self code hlo hlt] at h
  cases h
  exact ⟨rfl, hlt, rfl⟩

/-- no site before the smallest expected position -/
theorem clean_of_sites {code : List Instr} {lo mid hi : Nat} {Rl : List Nat}
    (h : sitePositions code lo hi = Rl) (hb : ∀ y ∈ Rl, mid ≤ y) (hm : mid ≤ hi) :
    Clean code lo mid := by
  intro x h1 h2 h3
  have : x ∈ sitePositions code lo hi := mem_sitePositions.2 ⟨h1, by omega, h3⟩
  rw [h] at this
  have := hb x this
  omega

theorem sites_after {code : List Instr} {lo mid hi : Nat} {Rl : List Nat}
    (h : sitePositions code lo hi = Rl) (hb : ∀ y ∈ Rl, mid ≤ y) (h1 : lo ≤ mid) (hm : mid ≤ hi) :
    sitePositions code mid hi = Rl := by
  have hc := clean_of_sites h hb hm
  rw [sitePositions_split code h1 hm, sitePositions_nil hc] at h
  exact h

/-! ### `skipc` over a run of sites -/

theorem skipPB_fuel (code : List Instr) : ∀ f pc, code.length ≤ pc + f →
    skipPB code (f + 1) pc = skipPB code f pc := by
  intro f
  induction f with
  | zero =>
    intro pc h
    simp only [skipPB]
    rw [List.getElem?_eq_none (by omega)]
  | succ f ih =>
    intro pc h
    rw [skipPB.eq_def code (f + 1 + 1) pc, skipPB.eq_def code (f + 1) pc]
    simp only
    split
    · exact ih (pc + 1) (by omega)
    · rfl

theorem skipc_succ_of_pb {code : List Instr} {pc : Nat} (h : code[pc]? = some Instr.potBreak) :
    skipc code pc = skipc code (pc + 1) := by
  have hlt : pc < code.length := by
    rcases Nat.lt_or_ge pc code.length with h' | h'
    · exact h'
    · rw [List.getElem?_eq_none h'] at h; cases h
  unfold skipc
  obtain ⟨f, hf⟩ : ∃ f, code.length = f + 1 := ⟨code.length - 1, by omega⟩
  rw [hf]
  rw [skipPB.eq_def code (f + 1) pc]
  simp only [h]
  exact (skipPB_fuel code f (pc + 1) (by omega)).symm

theorem skipc_run {code : List Instr} : ∀ (k pc : Nat),
    (∀ i, i < k → code[pc + i]? = some Instr.potBreak) → skipc code pc = skipc code (pc + k) := by
  intro k
  induction k with
  | zero => intro pc _; rfl
  | succ k ih =>
    intro pc h
    rw [skipc_succ_of_pb (by simpa using h 0 (by omega)), ih (pc + 1)
      (fun i hi => by rw [show pc + 1 + i = pc + (i + 1) by omega]; exact h (i + 1) (by omega))]
    congr 1
    omega

theorem skipc_eq_of_run {code : List Instr} {k pc : Nat}
    (h : ∀ i, i < k → code[pc + i]? = some Instr.potBreak)
    (hn : code[pc + k]? ≠ some Instr.potBreak) : skipc code pc = pc + k := by
  rw [skipc_run k pc h, skipc_of_not_pb hn]

theorem skipc_ge_of_run {code : List Instr} {k pc : Nat}
    (h : ∀ i, i < k → code[pc + i]? = some Instr.potBreak) : pc + k ≤ skipc code pc := by
  rw [skipc_run k pc h]
  exact le_skipc _ _

theorem VEnv.at_skipc (e : VEnv) (pc : Nat) : e.at (skipc e.code pc) = e.at pc := by
  unfold VEnv.at
  rw [skipc_idem]

theorem VEnv.next_skipc (e : VEnv) (pc : Nat) : e.next (skipc e.code pc) = e.next pc := by
  unfold VEnv.next
  rw [skipc_idem]

/-! ### value code only depends on the anchor of its start -/

mutual
theorem checkValue_skipc (e : VEnv) : ∀ (v : Value) (live : List Int) (pc : Nat),
    checkValue e v live (skipc e.code pc) = checkValue e v live pc
  | .var y, live, pc => by simp only [checkValue, VEnv.at_skipc, VEnv.next_skipc]
  | .num n, live, pc => by simp only [checkValue, VEnv.at_skipc, VEnv.next_skipc]
  | .inc y k, live, pc => by
    simp only [checkValue]; unfold checkIncDec; simp only [VEnv.at_skipc, VEnv.next_skipc]
  | .dec y k, live, pc => by
    simp only [checkValue]; unfold checkIncDec; simp only [VEnv.at_skipc, VEnv.next_skipc]
  | .call f .nil, live, pc => by
    simp only [checkValue, checkArgs]
    cases lookupProg e.src f e.routine with
    | none => rfl
    | some jp =>
      obtain ⟨j, pd⟩ := jp
      simp only []
      cases e.infos[j]? with
      | none => rfl
      | some ri => simp only [VEnv.at_skipc, VEnv.next_skipc]
  | .call f (.cons a as), live, pc => by
    simp only [checkValue]
    rw [checkArgs_skipc e a as live [] pc]
theorem checkArgs_skipc (e : VEnv) : ∀ (a : Value) (as : Values) (live acc : List Int) (pc : Nat),
    checkArgs e (.cons a as) live acc (skipc e.code pc) = checkArgs e (.cons a as) live acc pc
  | a, as, live, acc, pc => by
    simp only [checkArgs]
    rw [checkValue_skipc e a]
end

/-! ### the walker moves forward -/

mutual
theorem checkStmt_pc_le (e : VEnv) : ∀ (s : Stmt) (w w' : Walk), checkStmt e s w = some w' →
    w.pc ≤ w'.pc
  | .assign x v pos, w, w', h => by
    obtain ⟨rx, pc1, h1, _, rfl⟩ := checkStmt_assign_inv h
    exact Nat.le_of_lt (checkValue_lt h1)
  | .mark m pos, w, w', h => by
    rw [checkStmt_mark_inv h]; exact Nat.le_refl _
  | .loop id x body pos, w, w', h => by
    obtain ⟨ctr, rx, offE, offL, w1, _, _, _, _, hb, _, _, _, _, rfl⟩ := checkStmt_loop_inv h
    have := checkStmts_pc_le e body _ _ hb
    have l1 := lt_next e w.pc
    have l2 := lt_next e (e.next w.pc)
    have l3 := le_skipc e.code (e.next w1.pc)
    have l4 := lt_next e w1.pc
    show w.pc ≤ skipc e.code (e.next w1.pc) + 1
    have : e.next (e.next w.pc) ≤ w1.pc := this
    omega
  | .while_ x body pos, w, w', h => by
    obtain ⟨rx, tmp, offE, offL, w1, _, _, _, _, hb, _, _, _, rfl⟩ := checkStmt_while_inv h
    have := checkStmts_pc_le e body _ _ hb
    have l1 := lt_next e w.pc
    have l2 := lt_next e (e.next w.pc)
    have l3 := le_skipc e.code w1.pc
    show w.pc ≤ skipc e.code w1.pc + 1
    have : e.next (e.next w.pc) ≤ w1.pc := this
    omega
  | .goto m pos, w, w', h => by
    obtain ⟨off, _, rfl⟩ := checkStmt_goto_inv h
    exact Nat.le_of_lt (lt_next e w.pc)
  | .ifGoto x cst m pos, w, w', h => by
    obtain ⟨rx, t1, t2, t0, off, _, _, _, _, _, _, _, _, _, _, rfl⟩ := checkStmt_ifGoto_inv h
    have l1 := lt_next e w.pc
    have l2 := lt_next e (e.next w.pc)
    have l3 := lt_next e (e.next (e.next w.pc))
    have l4 := lt_next e (e.next (e.next (e.next w.pc)))
    show w.pc ≤ e.next (e.next (e.next (e.next w.pc)))
    omega
  | .stop pos, w, w', h => by
    obtain ⟨_, rfl⟩ := checkStmt_stop_inv h
    exact Nat.le_of_lt (lt_next e w.pc)
theorem checkStmts_pc_le (e : VEnv) : ∀ (ss : Stmts) (w w' : Walk), checkStmts e ss w = some w' →
    w.pc ≤ w'.pc
  | .nil, w, w', h => by rw [checkStmts_nil_inv h]; exact Nat.le_refl _
  | .cons s ss, w, w', h => by
    obtain ⟨w1, h1, h2⟩ := checkStmts_cons_inv h
    exact Nat.le_trans (checkStmt_pc_le e s _ _ h1) (checkStmts_pc_le e ss _ _ h2)
end

/-! ### inversion of the site walk -/

def sameLine (prev : Prev) (s : Stmt) : Bool :=
  match prev with | some (q, _) => q == s.pos | none => false
def afterMk (prev : Prev) : Bool :=
  match prev with | some (_, m) => m | none => false
def hereOf (w : Walk) (k : Nat) (prev : Prev) (s : Stmt) : List ESite :=
  if sameLine prev s then [] else [(w.pc + k, s.pos, markName s)]
def kOf (k : Nat) (prev : Prev) (s : Stmt) : Nat := if sameLine prev s then k else k + 1

def isSimple : Stmt → Bool
  | .assign _ _ _ => true
  | .goto _ _ => true
  | .ifGoto _ _ _ _ => true
  | .stop _ => true
  | _ => false

theorem sitesStmt_unfold (e : VEnv) (s : Stmt) (w : Walk) (k : Nat) (prev : Prev) :
    sitesStmt e s w k prev =
      if (sameLine prev s && (!afterMk prev || isMark s)) = true then none else
      match s with
      | .loop _ _ body _ =>
        (match sitesStmts e body { w with pc := w.pc + kOf k prev s + 2 } 0 (some (s.pos, false)),
            checkStmt e s w with
         | some (lb, _, _, _), some w' =>
           if loopJumpsExact e.code (w.pc + kOf k prev s + 1) (w.pc + kOf k prev s + 1) w'.pc then
             some (hereOf w k prev s ++ lb, w', 0, none) else none
         | _, _ => none)
      | .while_ _ body _ =>
        (match sitesStmts e body { w with pc := w.pc + kOf k prev s + 2 } 0 (some (s.pos, false)),
            checkStmt e s w with
         | some (lb, _, _, _), some w' =>
           if loopJumpsExact e.code (w.pc + kOf k prev s + 1) (w.pc + kOf k prev s) w'.pc then
             some (hereOf w k prev s ++ lb, w', 0, none) else none
         | _, _ => none)
      | .mark _ _ =>
        (match checkStmt e s w with
         | some w' => some (hereOf w k prev s, w', kOf k prev s, some (s.pos, true))
         | none => none)
      | _ =>
        (match checkStmt e s w with
         | some w' => some (hereOf w k prev s, w', 0, some (s.pos, false))
         | none => none) := by
  rw [sitesStmt.eq_def]
  rfl

theorem sitesStmt_simple_inv {e : VEnv} {s : Stmt} (hs : isSimple s = true) {w : Walk} {k : Nat}
    {prev : Prev} {l : List ESite} {w1 : Walk} {k1 : Nat} {prev1 : Prev}
    (h : sitesStmt e s w k prev = some (l, w1, k1, prev1)) :
    (sameLine prev s && (!afterMk prev || isMark s)) = false ∧ checkStmt e s w = some w1 ∧
      l = hereOf w k prev s ∧ k1 = 0 ∧ prev1 = some (s.pos, false) := by
  rw [sitesStmt_unfold] at h
  by_cases hc : (sameLine prev s && (!afterMk prev || isMark s)) = true
  · rw [if_pos hc] at h; cases h
  · rw [if_neg hc] at h
    cases s <;> simp only [isSimple] at hs <;> try (cases hs)
    all_goals
      simp only [] at h
      cases hchk : checkStmt e _ w with
      | none => rw [hchk] at h; cases h
      | some w' =>
        rw [hchk] at h
        cases h
        exact ⟨Bool.eq_false_iff.2 hc, rfl, rfl, rfl, rfl⟩

theorem sitesStmt_mark_inv {e : VEnv} {m : Name} {q : Pos} {w : Walk} {k : Nat}
    {prev : Prev} {l : List ESite} {w1 : Walk} {k1 : Nat} {prev1 : Prev}
    (h : sitesStmt e (.mark m q) w k prev = some (l, w1, k1, prev1)) :
    sameLine prev (.mark m q) = false ∧ checkStmt e (.mark m q) w = some w1 ∧
      l = [(w.pc + k, q, some m)] ∧ k1 = k + 1 ∧ prev1 = some (q, true) := by
  rw [sitesStmt_unfold] at h
  by_cases hc : (sameLine prev (.mark m q) && (!afterMk prev || isMark (.mark m q))) = true
  · rw [if_pos hc] at h; cases h
  · rw [if_neg hc] at h
    have hsl : sameLine prev (.mark m q) = false := by
      simpa [isMark] using Bool.eq_false_iff.2 hc
    simp only [] at h
    cases hchk : checkStmt e (.mark m q) w with
    | none => rw [hchk] at h; cases h
    | some w' =>
      rw [hchk] at h
      cases h
      refine ⟨hsl, rfl, ?_, ?_, rfl⟩
      · unfold hereOf
        rw [hsl]
        rfl
      · unfold kOf
        rw [hsl]
        rfl

theorem sitesStmt_loop_inv {e : VEnv} {id : Nat} {x : Name} {body : Stmts} {q : Pos} {w : Walk}
    {k : Nat} {prev : Prev} {l : List ESite} {w1 : Walk} {k1 : Nat} {prev1 : Prev}
    (h : sitesStmt e (.loop id x body q) w k prev = some (l, w1, k1, prev1)) :
    (sameLine prev (.loop id x body q) && !afterMk prev) = false ∧
    ∃ lb wb kb pb, sitesStmts e body { w with pc := w.pc + kOf k prev (.loop id x body q) + 2 } 0
        (some (q, false)) = some (lb, wb, kb, pb) ∧
      checkStmt e (.loop id x body q) w = some w1 ∧
      loopJumpsExact e.code (w.pc + kOf k prev (.loop id x body q) + 1)
        (w.pc + kOf k prev (.loop id x body q) + 1) w1.pc = true ∧
      l = hereOf w k prev (.loop id x body q) ++ lb ∧ k1 = 0 ∧ prev1 = none := by
  rw [sitesStmt_unfold] at h
  by_cases hc : (sameLine prev (.loop id x body q) && (!afterMk prev || isMark (.loop id x body q)))
      = true
  · rw [if_pos hc] at h; cases h
  · rw [if_neg hc] at h
    simp only [] at h
    split at h
    · rename_i lb wb kb pb w' hb hchk
      split at h
      · rename_i hj
        cases h
        exact ⟨by simpa [isMark] using Bool.eq_false_iff.2 hc, lb, wb, kb, pb, hb, hchk, hj, rfl, rfl,
          rfl⟩
      · cases h
    · cases h

theorem sitesStmt_while_inv {e : VEnv} {x : Name} {body : Stmts} {q : Pos} {w : Walk}
    {k : Nat} {prev : Prev} {l : List ESite} {w1 : Walk} {k1 : Nat} {prev1 : Prev}
    (h : sitesStmt e (.while_ x body q) w k prev = some (l, w1, k1, prev1)) :
    (sameLine prev (.while_ x body q) && !afterMk prev) = false ∧
    ∃ lb wb kb pb, sitesStmts e body { w with pc := w.pc + kOf k prev (.while_ x body q) + 2 } 0
        (some (q, false)) = some (lb, wb, kb, pb) ∧
      checkStmt e (.while_ x body q) w = some w1 ∧
      loopJumpsExact e.code (w.pc + kOf k prev (.while_ x body q) + 1)
        (w.pc + kOf k prev (.while_ x body q)) w1.pc = true ∧
      l = hereOf w k prev (.while_ x body q) ++ lb ∧ k1 = 0 ∧ prev1 = none := by
  rw [sitesStmt_unfold] at h
  by_cases hc : (sameLine prev (.while_ x body q) && (!afterMk prev || isMark (.while_ x body q)))
      = true
  · rw [if_pos hc] at h; cases h
  · rw [if_neg hc] at h
    simp only [] at h
    split at h
    · rename_i lb wb kb pb w' hb hchk
      split at h
      · rename_i hj
        cases h
        exact ⟨by simpa [isMark] using Bool.eq_false_iff.2 hc, lb, wb, kb, pb, hb, hchk, hj, rfl, rfl,
          rfl⟩
      · cases h
    · cases h

theorem sitesStmts_cons_inv {e : VEnv} {s : Stmt} {ss : Stmts} {w : Walk} {k : Nat} {prev : Prev}
    {l : List ESite} {w2 : Walk} {k2 : Nat} {prev2 : Prev}
    (h : sitesStmts e (.cons s ss) w k prev = some (l, w2, k2, prev2)) :
    ∃ l1 w1 k1 prev1 l2, sitesStmt e s w k prev = some (l1, w1, k1, prev1) ∧
      sitesStmts e ss w1 k1 prev1 = some (l2, w2, k2, prev2) ∧ l = l1 ++ l2 := by
  rw [sitesStmts.eq_def] at h
  simp only [] at h
  split at h
  · rename_i l1 w1 k1 prev1 h1
    split at h
    · rename_i l2 w2' k2' prev2' h2
      cases h
      exact ⟨l1, w1, k1, prev1, l2, h1, h2, rfl⟩
    · cases h
  · cases h

theorem sitesStmts_nil_inv {e : VEnv} {w : Walk} {k : Nat} {prev : Prev}
    {l : List ESite} {w2 : Walk} {k2 : Nat} {prev2 : Prev}
    (h : sitesStmts e .nil w k prev = some (l, w2, k2, prev2)) :
    l = [] ∧ w2 = w ∧ k2 = k ∧ prev2 = prev := by
  rw [sitesStmts.eq_def] at h
  simp only [] at h
  cases h
  exact ⟨rfl, rfl, rfl, rfl⟩

/-! ### the site walk follows the shape walk -/

theorem sitesStmt_walk {e : VEnv} {s : Stmt} {w : Walk} {k : Nat} {prev : Prev} {l : List ESite}
    {w1 : Walk} {k1 : Nat} {prev1 : Prev} (h : sitesStmt e s w k prev = some (l, w1, k1, prev1)) :
    checkStmt e s w = some w1 := by
  cases s with
  | assign x v pos => exact (sitesStmt_simple_inv rfl h).2.1
  | goto m pos => exact (sitesStmt_simple_inv rfl h).2.1
  | ifGoto x cst m pos => exact (sitesStmt_simple_inv rfl h).2.1
  | stop pos => exact (sitesStmt_simple_inv rfl h).2.1
  | mark m q => exact (sitesStmt_mark_inv h).2.1
  | loop id x body q =>
    obtain ⟨_, lb, wb, kb, pb, _, h2, _⟩ := sitesStmt_loop_inv h
    exact h2
  | while_ x body q =>
    obtain ⟨_, lb, wb, kb, pb, _, h2, _⟩ := sitesStmt_while_inv h
    exact h2

theorem sitesStmts_walk {e : VEnv} : ∀ {ss : Stmts} {w : Walk} {k : Nat} {prev : Prev}
    {l : List ESite} {w' : Walk} {k' : Nat} {prev' : Prev},
    sitesStmts e ss w k prev = some (l, w', k', prev') → checkStmts e ss w = some w'
  | .nil, w, k, prev, l, w', k', prev', h => by
    obtain ⟨_, rfl, _, _⟩ := sitesStmts_nil_inv h
    simp only [checkStmts]
  | .cons s ss, w, k, prev, l, w', k', prev', h => by
    obtain ⟨l1, w1, k1, prev1, l2, h1, h2, _⟩ := sitesStmts_cons_inv h
    simp only [checkStmts, sitesStmt_walk h1]
    exact sitesStmts_walk h2

/-- every expected site lies at or behind the walker position -/
theorem hereOf_ge {w : Walk} {k : Nat} {prev : Prev} {s : Stmt} : ∀ x ∈ hereOf w k prev s, w.pc ≤ x.1 := by
  intro x hx
  unfold hereOf at hx
  split at hx
  · cases hx
  · rw [List.mem_singleton] at hx
    subst hx
    exact Nat.le_add_right _ _

mutual
theorem sitesStmt_ge {e : VEnv} : ∀ (s : Stmt) {w : Walk} {k : Nat} {prev : Prev} {l : List ESite}
    {w1 : Walk} {k1 : Nat} {prev1 : Prev}, sitesStmt e s w k prev = some (l, w1, k1, prev1) →
    ∀ x ∈ l, w.pc ≤ x.1
  | .assign x v pos, w, k, prev, l, w1, k1, prev1, h => by
    rw [(sitesStmt_simple_inv rfl h).2.2.1]; exact hereOf_ge
  | .goto m pos, w, k, prev, l, w1, k1, prev1, h => by
    rw [(sitesStmt_simple_inv rfl h).2.2.1]; exact hereOf_ge
  | .ifGoto x cst m pos, w, k, prev, l, w1, k1, prev1, h => by
    rw [(sitesStmt_simple_inv rfl h).2.2.1]; exact hereOf_ge
  | .stop pos, w, k, prev, l, w1, k1, prev1, h => by
    rw [(sitesStmt_simple_inv rfl h).2.2.1]; exact hereOf_ge
  | .mark m q, w, k, prev, l, w1, k1, prev1, h => by
    rw [(sitesStmt_mark_inv h).2.2.1]
    intro x hx
    rw [List.mem_singleton] at hx
    subst hx
    exact Nat.le_add_right _ _
  | .loop id x body q, w, k, prev, l, w1, k1, prev1, h => by
    obtain ⟨_, lb, wb, kb, pb, hb, _, _, rfl, _, _⟩ := sitesStmt_loop_inv h
    intro y hy
    rcases List.mem_append.1 hy with hy | hy
    · exact hereOf_ge y hy
    · have := sitesStmts_ge body hb y hy
      have e1 : ({ w with pc := w.pc + kOf k prev (.loop id x body q) + 2 } : Walk).pc =
        w.pc + kOf k prev (.loop id x body q) + 2 := rfl
      omega
  | .while_ x body q, w, k, prev, l, w1, k1, prev1, h => by
    obtain ⟨_, lb, wb, kb, pb, hb, _, _, rfl, _, _⟩ := sitesStmt_while_inv h
    intro y hy
    rcases List.mem_append.1 hy with hy | hy
    · exact hereOf_ge y hy
    · have := sitesStmts_ge body hb y hy
      have e1 : ({ w with pc := w.pc + kOf k prev (.while_ x body q) + 2 } : Walk).pc =
        w.pc + kOf k prev (.while_ x body q) + 2 := rfl
      omega
theorem sitesStmts_ge {e : VEnv} : ∀ (ss : Stmts) {w : Walk} {k : Nat} {prev : Prev} {l : List ESite}
    {w' : Walk} {k' : Nat} {prev' : Prev}, sitesStmts e ss w k prev = some (l, w', k', prev') →
    ∀ x ∈ l, w.pc ≤ x.1
  | .nil, w, k, prev, l, w', k', prev', h => by
    obtain ⟨rfl, _, _, _⟩ := sitesStmts_nil_inv h
    intro x hx; cases hx
  | .cons s ss, w, k, prev, l, w', k', prev', h => by
    obtain ⟨l1, w1, k1, prev1, l2, h1, h2, rfl⟩ := sitesStmts_cons_inv h
    intro x hx
    rcases List.mem_append.1 hx with hx | hx
    · exact sitesStmt_ge s h1 x hx
    · have := sitesStmts_ge ss h2 x hx
      have := checkStmt_pc_le e s _ _ (sitesStmt_walk h1)
      omega
end

end Sim
end Theo
