/-
  C01 for the generator model, part 14: the pieces of a PROGRAM definition as equations —
  `removeTopPotBreak`, `progPre`, `dispatchArgs`, `popSymbols`, `progPost`.
-/
import Theo.Proofs.GenShapeStmtF
import Theo.Proofs.GenShapeJT

set_option linter.unusedSimpArgs false
set_option linter.unusedVariables false

namespace Theo
namespace GenShape
open GS Sem Static

/-- the code ends with an instruction that is not a site -/
def LastNS (c : List Instr) : Prop := ∃ i, c.getLast? = some i ∧ i ≠ Instr.potBreak

theorem LastNS.snoc (c : List Instr) {i : Instr} (h : i ≠ Instr.potBreak) : LastNS (c ++ [i]) :=
  ⟨i, by simp, h⟩

/-- all fields but code and tables -/
structure SameBut (a b : GS) : Prop where
  stackMaps : b.stackMaps = a.stackMaps
  errors : b.errors = a.errors
  symbols : b.symbols = a.symbols
  funcAddrs : b.funcAddrs = a.funcAddrs
  labels : b.labels = a.labels
  todo : b.todo = a.todo
  loops : b.loops = a.loops

theorem removeTop_spec (gs : GS) (c : List Instr) (k : Nat)
    (hc : gs.code = c ++ List.replicate k Instr.potBreak) (hl : LastNS c) :
    gs.removeTopPotBreak.code = c ++ List.replicate (k - 1) Instr.potBreak ∧ SameBut gs gs.removeTopPotBreak := by
  unfold removeTopPotBreak
  cases k with
  | zero =>
    simp only [List.replicate_zero, List.append_nil] at hc
    have : gs.lastIsSite = false := by
      unfold lastIsSite
      obtain ⟨i, h1, h2⟩ := hl
      rw [hc, h1]
      simp
      exact h2
    rw [this]
    simp only [Bool.false_eq_true, if_false]
    exact ⟨by rw [hc]; simp, ⟨rfl, rfl, rfl, rfl, rfl, rfl, rfl⟩⟩
  | succ k =>
    have hc' : gs.code = (c ++ List.replicate k Instr.potBreak) ++ [Instr.potBreak] := by
      rw [hc, List.replicate_succ', List.append_assoc]
    have : gs.lastIsSite = true := by
      unfold lastIsSite
      rw [hc']; simp
    rw [this]
    simp only [if_true]
    have hd : gs.code.dropLast = c ++ List.replicate k Instr.potBreak := by rw [hc']; simp
    split
    · exact ⟨by simpa using hd, ⟨rfl, rfl, rfl, rfl, rfl, rfl, rfl⟩⟩
    · exact ⟨by simpa using hd, ⟨rfl, rfl, rfl, rfl, rfl, rfl, rfl⟩⟩

/-! ### `progPre` -/

structure ProgPre (gs00 : GS) (nm : Bytes) (g : GS) (after : Nat) : Prop where
  afterEq : after = gs00.labels.length
  code : g.code = gs00.removeTopPotBreak.code ++ [.jmp (after : Int)]
  labels : g.labels = gs00.labels ++ [-1]
  symbols : g.symbols = ⟨nm, [], 0, []⟩ :: gs00.symbols
  stackMaps : g.stackMaps = gs00.stackMaps
  funcAddrs : g.funcAddrs = gs00.funcAddrs
  loops : g.loops = gs00.loops

theorem progPre_full (gs00 : GS) (nm : Bytes) (c : List Instr) (k : Nat)
    (hc : gs00.code = c ++ List.replicate k Instr.potBreak) (hl : LastNS c) :
    ProgPre gs00 nm (progPre gs00 nm).1 (progPre gs00 nm).2 := by
  obtain ⟨_, sb⟩ := removeTop_spec gs00 c k hc hl
  unfold progPre
  dsimp only
  refine ⟨?_, ?_, ?_, ?_, ?_, ?_, ?_⟩
  · show gs00.removeTopPotBreak.labels.length = _; rw [sb.labels]
  · rfl
  · show gs00.removeTopPotBreak.labels ++ [-1] = _; rw [sb.labels]
  · show _ :: gs00.removeTopPotBreak.symbols = _; rw [sb.symbols]
  · exact sb.stackMaps
  · exact sb.funcAddrs
  · exact sb.loops

/-! ### parameters -/

structure ArgsSpec (gs g : GS) (names : List Bytes) : Prop where
  regs : g.top.regs = gs.top.regs ++ names.map (fun x => (⟨true, false, x⟩ : VReg))
  marks : g.top.marks = gs.top.marks
  name : g.top.name = gs.top.name
  argnum : g.top.argnum = gs.top.argnum + names.length
  outer : g.symbols.drop 1 = gs.symbols.drop 1
  code : g.code = gs.code
  labels : g.labels = gs.labels
  stackMaps : g.stackMaps = gs.stackMaps
  funcAddrs : g.funcAddrs = gs.funcAddrs
  loops : g.loops = gs.loops

theorem ArgsSpec.refl (gs : GS) : ArgsSpec gs gs [] :=
  ⟨by simp, rfl, rfl, rfl, rfl, rfl, rfl, rfl, rfl, rfl⟩

theorem ArgsSpec.trans {a b c : GS} {n1 n2 : List Bytes} (h1 : ArgsSpec a b n1) (h2 : ArgsSpec b c n2) :
    ArgsSpec a c (n1 ++ n2) :=
  ⟨by rw [h2.regs, h1.regs, List.map_append, List.append_assoc], h2.marks.trans h1.marks, h2.name.trans h1.name,
   by rw [h2.argnum, h1.argnum, List.length_append, Nat.add_assoc], h2.outer.trans h1.outer,
   h2.code.trans h1.code, h2.labels.trans h1.labels, h2.stackMaps.trans h1.stackMaps,
   h2.funcAddrs.trans h1.funcAddrs, h2.loops.trans h1.loops⟩

theorem args_spec : ∀ (f : Nat) (gs : GS) (n : Node), nodeSize n ≤ f → (namesOf n).Nodup →
    (∀ x ∈ namesOf n, x ∉ regNames gs) → ArgsSpec gs (dispatchArgs f gs n) (namesOf n) := by
  intro f
  induction f with
  | zero => intro gs n h; have := nodeSize_pos n; omega
  | succ f ih =>
    intro gs n hf hnd hfresh
    cases n with
    | nil => rw [dispatchArgs_nil]; simp only [namesOf]; exact ArgsSpec.refl gs
    | mk t tok file line l r =>
      rw [dispatchArgs_succ]
      simp only [nodeSize] at hf
      by_cases h1 : t = NodeT.SPLIT
      · subst h1
        rw [if_pos rfl]
        have hn : namesOf (.mk NodeT.SPLIT tok file line l r) = namesOf l ++ namesOf r := by simp [namesOf]
        rw [hn] at hnd hfresh ⊢
        rw [List.nodup_append] at hnd
        have s1 := ih gs l (by omega) hnd.1 (fun x hx => hfresh x (List.mem_append_left _ hx))
        have hr : ∀ x ∈ namesOf r, x ∉ regNames (dispatchArgs f gs l) := by
          intro x hx hin
          unfold regNames at hin
          rw [s1.regs, List.map_append, List.mem_append] at hin
          rcases hin with hin | hin
          · exact hfresh x (List.mem_append_right _ hx) hin
          · simp at hin
            exact hnd.2.2 x hin x hx rfl
        exact s1.trans (ih _ r (by omega) hnd.2.1 hr)
      · rw [if_neg h1]
        dsimp only
        have hn : namesOf (.mk t tok file line l r) = [tok] := by simp [namesOf, h1]
        rw [hn] at hfresh ⊢
        have hnr : tok ∉ regNames gs := hfresh tok (List.mem_singleton.2 rfl)
        have hnone : findReg gs.top.regs tok 0 = none := by
          cases hf' : findReg gs.top.regs tok 0 with
          | none => rfl
          | some j =>
            exfalso
            exact hnr ((findReg_isSome tok _ 0).1 (by rw [hf']; rfl))
        rw [hnone]
        simp only [Option.isSome_none, Bool.false_eq_true, if_false]
        unfold fetchVar
        dsimp only
        have : findReg (GS.top { gs with symbols := { gs.top with argnum := gs.top.argnum + 1 } :: gs.symbols.drop 1 }).regs tok 0 = none := hnone
        rw [this]
        dsimp only
        exact ⟨rfl, rfl, rfl, rfl, rfl, rfl, rfl, rfl, rfl, rfl⟩

/-! ### `popSymbols` -/

theorem popFold_errors (marks : List (Bytes × Nat)) : ∀ (g : GS), ∃ es,
    marks.foldl (fun g e => if (g.labels[e.2]?).getD (-1) = -1 then g.err GErrT.UNKNOWN_MARK else g) g =
      { g with errors := es } := by
  induction marks with
  | nil => intro g; exact ⟨g.errors, rfl⟩
  | cons e es ih =>
    intro g
    simp only [List.foldl_cons]
    split
    · obtain ⟨x, hx⟩ := ih (g.err GErrT.UNKNOWN_MARK)
      exact ⟨x, by rw [hx]; rfl⟩
    · exact ih g

structure PopFull (gs : GS) (a : Int) (g : GS) : Prop where
  stackMaps : g.stackMaps = gs.stackMaps ++ [⟨gs.top.name, smap gs.top.regs⟩]
  funcAddrs : g.funcAddrs = (gs.top.name, ⟨a, (gs.stackMaps.length : Int), gs.top.argnum, gs.top.regs.length⟩) ::
    gs.funcAddrs.filter (fun e => e.1 ≠ gs.top.name)
  symbols : g.symbols = gs.symbols.drop 1
  code : g.code = gs.code
  labels : g.labels = gs.labels
  loops : g.loops = gs.loops
  todo : g.todo = gs.todo

theorem popSymbols_full (gs : GS) (a : Int) : PopFull gs a (gs.popSymbols a) := by
  unfold popSymbols
  dsimp only
  obtain ⟨es, hes⟩ := popFold_errors gs.top.marks gs
  rw [hes]
  refine ⟨rfl, ?_, rfl, rfl, rfl, rfl, rfl⟩
  show (_, (⟨a, ((gs.stackMaps ++ [_]).length : Int) - 1, _, _⟩ : ProgRec)) :: _ = _
  congr 3
  simp

/-! ### `progPost` -/

structure ProgPost (b : GS) (out : Bytes) (entry : Int) (after : Nat) (res : GS) : Prop where
  code : res.code = b.code ++ [.ret (b.fetchVar out).2]
  labels : res.labels = b.labels.set after ((b.code.length + 1 : Nat) : Int)
  stackMaps : res.stackMaps = b.stackMaps ++ [⟨b.top.name, smap (b.fetchVar out).1.top.regs⟩]
  funcAddrs : res.funcAddrs =
    (b.top.name, ⟨entry, (b.stackMaps.length : Int), b.top.argnum, (b.fetchVar out).1.top.regs.length⟩) ::
      b.funcAddrs.filter (fun e => e.1 ≠ b.top.name)
  symbols : res.symbols = b.symbols.drop 1
  loops : res.loops = b.loops

theorem progPost_full (b : GS) (out : Bytes) (entry : Int) (after : Nat) :
    ProgPost b out entry after (progPost b out entry after) := by
  unfold progPost
  dsimp only
  have fv := fetchVar_spec (fun _ => True) b out trivial
  have q := quiet_fetchVar b out
  have pf := popSymbols_full ((b.fetchVar out).1.emit (.ret (b.fetchVar out).2)) entry
  generalize ((b.fetchVar out).1.emit (.ret (b.fetchVar out).2)).popSymbols entry = c at pf
  have h1 : ((b.fetchVar out).1.emit (.ret (b.fetchVar out).2)).top = (b.fetchVar out).1.top := rfl
  refine ⟨?_, ?_, ?_, ?_, ?_, ?_⟩
  · show c.code = _
    rw [pf.code, emit_code, fv.code]
  · show c.labels.set after c.nextPos = _
    unfold nextPos
    rw [pf.labels, pf.code, emit_code, fv.code]
    show (b.fetchVar out).1.labels.set _ _ = _
    rw [q.labels]; simp
  · show c.stackMaps = _
    rw [pf.stackMaps, h1, q.name]
    show (b.fetchVar out).1.stackMaps ++ _ = _
    rw [fv.vq.stackMaps]
  · show c.funcAddrs = _
    rw [pf.funcAddrs, h1, q.name, q.argnum]
    show (_, (⟨entry, ((b.fetchVar out).1.stackMaps.length : Int), _, _⟩ : ProgRec)) :: (b.fetchVar out).1.funcAddrs.filter _ = _
    rw [fv.vq.stackMaps, fv.vq.funcAddrs]
  · show c.symbols = _
    rw [pf.symbols]
    show (b.fetchVar out).1.symbols.drop 1 = _
    exact q.outer
  · show c.loops = _
    rw [pf.loops]
    show (b.fetchVar out).1.loops = _
    exact fv.vq.loops

end GenShape
end Theo
