/-
  Completeness of conflict-free canonical LR(1) tables (C13; used by C09 / C12).
-/
import Theo.Proofs.LRSound
import Theo.Proofs.FirstProofs
import Theo.Props.C13

namespace Theo
namespace LRComplete
open LRSound FirstProofs

/-! ## 0. the driver: one-step lemmas, composition of runs, fuel monotonicity -/

/-- the driver with trees as values, on an arbitrary configuration -/
abbrev run (T : Tables) (fuel : Nat) (inp : List Nat) (sts : List Nat) (vals : List Tree) :
    ParseOut Tree :=
  lrParse T (fun (t : Nat) => t) Tree.leaf nodeAct fuel inp sts vals

theorem run_fuel_mono (T : Tables) (k : Nat) : ∀ (fuel : Nat) (inp sts : List Nat) (vals : List Tree)
    (r : ParseOut Tree), run T fuel inp sts vals = r → r ≠ .fuelOut →
    run T (fuel + k) inp sts vals = r := by
  intro fuel
  induction fuel with
  | zero => intro inp sts vals r h hr; simp [run, lrParse] at h; exact absurd h.symm hr
  | succ fuel ih =>
    intro inp sts vals r h hr
    rw [show fuel + 1 + k = (fuel + k) + 1 by omega]
    cases sts with
    | nil => simpa [run, lrParse] using h
    | cons s srest =>
      cases inp with
      | nil => simpa [run, lrParse] using h
      | cons x xs =>
        simp only [run, lrParse] at h ⊢
        cases hrow : T.action[s]? with
        | none => rw [hrow] at h; exact h
        | some row =>
          rw [hrow] at h
          simp only [] at h ⊢
          by_cases hlen : row.length ≤ x
          · simp only [hlen, if_true] at h ⊢; exact h
          · simp only [hlen, if_false] at h ⊢
            cases hc : (row[x]?).getD .err with
            | err => rw [hc] at h; exact h
            | shift s' => rw [hc] at h; exact ih _ _ _ _ h hr
            | accept => rw [hc] at h; exact h
            | reduce left alt beta =>
              rw [hc] at h
              simp only [] at h ⊢
              by_cases hb : vals.length < beta ∨ (s :: srest).length ≤ beta
              · simp only [hb, if_true] at h ⊢; exact h
              · simp only [hb, if_false] at h ⊢
                cases hd : (s :: srest).drop beta with
                | nil => rw [hd] at h; exact h
                | cons sp rest' =>
                  rw [hd] at h
                  simp only [] at h ⊢
                  cases hg : ((T.goto[sp]?).bind (·[left]?)) with
                  | none => rw [hg] at h; exact h
                  | some j =>
                    rw [hg] at h
                    simp only [] at h ⊢
                    by_cases hj : j < 0
                    · simp only [hj, if_true] at h ⊢; exact h
                    · simp only [hj, if_false] at h ⊢
                      exact ih _ _ _ _ h hr

/-- driver configurations -/
structure Cfg where
  inp : List Nat
  sts : List Nat
  vals : List Tree

/-- from configuration `c` the driver arrives at `c'` (whatever the remaining fuel) -/
def Reach (T : Tables) (c c' : Cfg) : Prop :=
  ∃ n, ∀ fuel, run T (n + fuel) c.inp c.sts c.vals = run T fuel c'.inp c'.sts c'.vals

theorem Reach.refl (T : Tables) (c : Cfg) : Reach T c c := ⟨0, fun fuel => by simp⟩

theorem Reach.trans {T : Tables} {a b c : Cfg} (h1 : Reach T a b) (h2 : Reach T b c) : Reach T a c := by
  obtain ⟨n1, h1⟩ := h1
  obtain ⟨n2, h2⟩ := h2
  refine ⟨n1 + n2, fun fuel => ?_⟩
  rw [Nat.add_assoc, h1, h2]

theorem reach_shift (T : Tables) (s : Nat) (srest : List Nat) (x : Nat) (xs : List Nat) (vals : List Tree)
    (row : List Action) (s' : Nat) (hrow : T.action[s]? = some row) (hx : x < row.length)
    (hc : (row[x]?).getD .err = .shift s') :
    Reach T ⟨x :: xs, s :: srest, vals⟩ ⟨xs, s' :: s :: srest, Tree.leaf x :: vals⟩ := by
  refine ⟨1, fun fuel => ?_⟩
  rw [Nat.add_comm]
  simp only [run, lrParse, hrow, hc]
  simp [Nat.not_le.mpr hx]

theorem reach_reduce (T : Tables) (s : Nat) (srest : List Nat) (x : Nat) (xs : List Nat) (vals : List Tree)
    (row : List Action) (l al beta : Nat) (sp : Nat) (rest' : List Nat) (grow : List Int) (j : Int)
    (hrow : T.action[s]? = some row) (hx : x < row.length)
    (hc : (row[x]?).getD .err = .reduce l al beta) (hv : beta ≤ vals.length)
    (hd : (s :: srest).drop beta = sp :: rest') (hg : T.goto[sp]? = some grow)
    (hj : grow[l]? = some j) (hj0 : 0 ≤ j) :
    Reach T ⟨x :: xs, s :: srest, vals⟩
      ⟨x :: xs, j.toNat :: sp :: rest', nodeAct l al (vals.take beta) :: vals.drop beta⟩ := by
  refine ⟨1, fun fuel => ?_⟩
  rw [Nat.add_comm]
  have hlen : ¬ (s :: srest).length ≤ beta := by
    intro h
    rw [List.drop_eq_nil_of_le h] at hd
    cases hd
  have hcond : ¬ (vals.length < beta ∨ (s :: srest).length ≤ beta) := by
    intro h; rcases h with h | h
    · omega
    · exact hlen h
  simp only [run, lrParse, hrow, hc]
  simp only [Nat.not_le.mpr hx, if_false, hcond, hd, hg, Option.bind_some, hj, Int.not_lt.mpr hj0]

theorem run_accept (T : Tables) (s : Nat) (srest : List Nat) (x : Nat) (xs : List Nat) (v : Tree)
    (vals : List Tree) (row : List Action) (hrow : T.action[s]? = some row) (hx : x < row.length)
    (hc : (row[x]?).getD .err = .accept) (fuel : Nat) :
    run T (fuel + 1) (x :: xs) (s :: srest) (v :: vals) = .accept v := by
  simp only [run, lrParse, hrow, hc]
  simp [Nat.not_le.mpr hx]

theorem reach_accept {T : Tables} {c : Cfg} {s : Nat} {srest : List Nat} {x : Nat} {xs : List Nat}
    {v : Tree} {vals : List Tree} (h : Reach T c ⟨x :: xs, s :: srest, v :: vals⟩)
    (row : List Action) (hrow : T.action[s]? = some row) (hx : x < row.length)
    (hc : (row[x]?).getD .err = .accept) :
    ∃ fuel, run T fuel c.inp c.sts c.vals = .accept v := by
  obtain ⟨n, h⟩ := h
  exact ⟨n + 1, by rw [h 1]; exact run_accept T s srest x xs v vals row hrow hx hc 0⟩

/-! ## 1. ordered insertion: nothing is lost -/

theorem Sym.lt_tri (a b : Sym) (h1 : Sym.lt a b = false) (h2 : Sym.lt b a = false) : a = b := by
  cases a <;> cases b <;> simp [Sym.lt, Sym.rank, Sym.index] at h1 h2 <;>
    first | rfl | (have h1' := of_decide_eq_false h1; have h2' := of_decide_eq_false h2; congr 1; omega)

theorem Item.lt_tri (a b : Item) (h1 : Item.lt a b = false) (h2 : Item.lt b a = false) : a = b := by
  obtain ⟨l1, a1, d1, f1⟩ := a
  obtain ⟨l2, a2, d2, f2⟩ := b
  simp only [Item.lt] at h1 h2
  by_cases hl : l1 < l2
  · simp [hl] at h1
  · by_cases hl' : l2 < l1
    · simp [hl'] at h2
    · have : l1 = l2 := by omega
      subst this
      simp only [Nat.lt_irrefl, if_false] at h1 h2
      by_cases ha : a1 < a2
      · simp [ha] at h1
      · by_cases ha' : a2 < a1
        · simp [ha'] at h2
        · have : a1 = a2 := by omega
          subst this
          simp only [Nat.lt_irrefl, if_false] at h1 h2
          by_cases hd : d1 < d2
          · simp [hd] at h1
          · by_cases hd' : d2 < d1
            · simp [hd'] at h2
            · have : d1 = d2 := by omega
              subst this
              simp only [Nat.lt_irrefl, if_false] at h1 h2
              rw [Sym.lt_tri f1 f2 h1 h2]

theorem Nat.lt_tri (a b : Nat) (h1 : decide (a < b) = false) (h2 : decide (b < a) = false) : a = b := by
  have h1' := of_decide_eq_false h1
  have h2' := of_decide_eq_false h2
  omega

theorem mem_sortedInsert_of_mem {α : Type} (lt : α → α → Bool) (x y : α) (l : List α)
    (h : y ∈ l) : y ∈ sortedInsert lt false x l := by
  induction l with
  | nil => cases h
  | cons z zs ih =>
    simp only [sortedInsert]
    split
    · simp only [List.mem_cons] at h ⊢; exact Or.inr h
    · split
      · simp only [List.mem_cons] at h ⊢
        rcases h with h | h
        · exact Or.inl h
        · exact Or.inr (ih h)
      · simpa using h

theorem mem_sortedInsert_self {α : Type} (lt : α → α → Bool)
    (htri : ∀ a b, lt a b = false → lt b a = false → a = b) (x : α) (l : List α) :
    x ∈ sortedInsert lt false x l := by
  induction l with
  | nil => simp [sortedInsert]
  | cons z zs ih =>
    simp only [sortedInsert]
    split
    · simp
    · split
      · simp [ih]
      · rename_i h1 h2
        have := htri x z (by simpa using h1) (by simpa using h2)
        simp [this]

theorem mem_sortedInsert_iff {α : Type} (lt : α → α → Bool)
    (htri : ∀ a b, lt a b = false → lt b a = false → a = b) (x y : α) (l : List α) :
    y ∈ sortedInsert lt false x l ↔ y = x ∨ y ∈ l := by
  constructor
  · exact mem_sortedInsert lt false y x l
  · rintro (h | h)
    · subst h; exact mem_sortedInsert_self lt htri _ l
    · exact mem_sortedInsert_of_mem lt x y l h

theorem length_sortedInsert_le {α : Type} (lt : α → α → Bool) (x : α) (l : List α) :
    (sortedInsert lt false x l).length ≤ l.length + 1 := by
  induction l with
  | nil => simp [sortedInsert]
  | cons z zs ih =>
    simp only [sortedInsert]
    split
    · simp
    · split
      · simp only [List.length_cons]; omega
      · simp

theorem mem_insert_iff (x y : Item) (l : ItemSet) : y ∈ ItemSet.insert l x ↔ y = x ∨ y ∈ l :=
  mem_sortedInsert_iff Item.lt Item.lt_tri x y l

theorem mem_foldl_insert_iff (l : List Item) : ∀ (acc : ItemSet) (x : Item),
    x ∈ l.foldl ItemSet.insert acc ↔ x ∈ acc ∨ x ∈ l := by
  induction l with
  | nil => intro acc x; simp
  | cons y ys ih =>
    intro acc x
    rw [List.foldl_cons, ih, mem_insert_iff]
    simp only [List.mem_cons]
    constructor
    · rintro ((h | h) | h)
      · exact Or.inr (Or.inl h)
      · exact Or.inl h
      · exact Or.inr (Or.inr h)
    · rintro (h | h | h)
      · exact Or.inl (Or.inr h)
      · exact Or.inl (Or.inl h)
      · exact Or.inr h

theorem length_foldl_insert_le (l : List Item) : ∀ (acc : ItemSet),
    (l.foldl ItemSet.insert acc).length ≤ acc.length + l.length := by
  induction l with
  | nil => intro acc; simp
  | cons y ys ih =>
    intro acc
    rw [List.foldl_cons]
    have h1 := ih (ItemSet.insert acc y)
    have h2 := length_sortedInsert_le Item.lt y acc
    simp only [ItemSet.insert, List.length_cons] at h1 h2 ⊢
    omega

theorem mem_befores (g : Grammar) (I : ItemSet) (it : Item) (hit : it ∈ I) (hne : g.afterDot it ≠ .eps) :
    g.afterDot it ∈ befores g I := by
  have key : ∀ (l : List Sym) (acc : List Sym) (X : Sym), X ≠ .eps → (X ∈ acc ∨ X ∈ l) →
      X ∈ l.foldl (fun acc s => if s = .eps then acc else sortedInsert Sym.lt false s acc) acc := by
    intro l
    induction l with
    | nil => intro acc X _ h; simpa using h
    | cons s ss ih =>
      intro acc X hX h
      rw [List.foldl_cons]
      apply ih _ X hX
      simp only [List.mem_cons] at h
      rcases h with h | h | h
      · left
        split
        · exact h
        · exact mem_sortedInsert_of_mem _ _ _ _ h
      · left
        subst h
        simp only [hX, if_false]
        exact mem_sortedInsert_self Sym.lt Sym.lt_tri _ _
      · exact Or.inr h
  exact key _ [] _ hne (Or.inr (List.mem_map.mpr ⟨it, hit, rfl⟩))

theorem mem_insertionSort (l : List Nat) (a : Nat) :
    a ∈ insertionSort (fun a b => decide (a < b)) l ↔ a ∈ l := by
  have key : ∀ (l acc : List Nat), a ∈ l.foldl (fun acc x => sortedInsert (fun a b => decide (a < b)) false x acc) acc ↔
      a ∈ acc ∨ a ∈ l := by
    intro l
    induction l with
    | nil => intro acc; simp
    | cons y ys ih =>
      intro acc
      rw [List.foldl_cons, ih, mem_sortedInsert_iff _ Nat.lt_tri]
      simp only [List.mem_cons]
      constructor
      · rintro ((h | h) | h)
        · exact Or.inr (Or.inl h)
        · exact Or.inl h
        · exact Or.inr (Or.inr h)
      · rintro (h | h | h)
        · exact Or.inl (Or.inr h)
        · exact Or.inl (Or.inl h)
        · exact Or.inr h
  simpa [insertionSort] using key l []

theorem mem_firstSyms_t (fi : FirstInfo) (s : List Sym) (a : Nat) :
    Sym.t a ∈ firstSyms fi s ↔ a ∈ (firstOfString fi s).1 := by
  simp only [firstSyms]
  split <;> simp [mem_insertionSort]

theorem mem_firstSyms (fi : FirstInfo) (s : List Sym) (x : Sym) (h : x ∈ firstSyms fi s) :
    (x = .eps ∧ (firstOfString fi s).2 = true) ∨ ∃ a, x = .t a ∧ a ∈ (firstOfString fi s).1 := by
  simp only [firstSyms] at h
  split at h
  · rename_i hn
    simp only [List.mem_cons, List.mem_map, mem_insertionSort] at h
    rcases h with h | ⟨a, ha, rfl⟩
    · exact Or.inl ⟨h, hn⟩
    · exact Or.inr ⟨a, rfl, ha⟩
  · simp only [List.mem_map, mem_insertionSort] at h
    obtain ⟨a, ha, rfl⟩ := h
    exact Or.inr ⟨a, rfl, ha⟩

/-! ## 2. the closure really is closed (its fuel suffices) -/

theorem nodup_eraseDups {α : Type} [BEq α] [LawfulBEq α] :
    ∀ (n : Nat) (l : List α), l.length ≤ n → l.eraseDups.Nodup := by
  intro n
  induction n with
  | zero =>
    intro l hl
    have : l = [] := List.eq_nil_of_length_eq_zero (by omega)
    subst this; simp
  | succ n ih =>
    intro l hl
    cases l with
    | nil => simp
    | cons a as =>
      rw [List.eraseDups_cons, List.nodup_cons]
      refine ⟨?_, ih _ ?_⟩
      · simp
      · have := List.length_filter_le (fun b => !b == a) as
        simp only [List.length_cons] at hl
        omega

/-- number of elements of the universe `U` not yet in `acc` -/
def cnt (U : List Item) (acc : ItemSet) : Nat := U.countP (fun u => decide (u ∉ acc))

theorem cnt_insert (U : List Item) (acc acc1 : ItemSet) (x : Item) (hxU : x ∈ U) (hx : x ∉ acc)
    (h1 : ∀ y, y ∈ acc1 ↔ y = x ∨ y ∈ acc) : cnt U acc1 + 1 ≤ cnt U acc := by
  have hmono : ∀ V : List Item, cnt V acc1 ≤ cnt V acc := by
    intro V
    apply List.countP_mono_left
    intro u _ hu
    simp only [decide_eq_true_eq] at hu ⊢
    intro hh; exact hu ((h1 u).mpr (Or.inr hh))
  induction U with
  | nil => cases hxU
  | cons u U' ih =>
    simp only [cnt, List.countP_cons] at ih ⊢
    by_cases hux : u = x
    · subst hux
      have ha : (decide (u ∉ acc)) = true := by simpa using hx
      have hb : (decide (u ∉ acc1)) = false := by simpa using (h1 u).mpr (Or.inl rfl)
      have := hmono U'
      simp only [cnt] at this
      simp only [ha, hb, if_true]
      simp only [Bool.false_eq_true, if_false]
      omega
    · have hxU' : x ∈ U' := by
        simp only [List.mem_cons] at hxU
        rcases hxU with h | h
        · exact absurd h.symm hux
        · exact h
      have hiff : (decide (u ∉ acc1)) = (decide (u ∉ acc)) := by
        have : u ∈ acc1 ↔ u ∈ acc := by rw [h1]; simp [hux]
        simp [this]
      rw [hiff]
      have := ih hxU'
      omega

theorem cnt_foldl_insert (U : List Item) : ∀ (news : List Item) (acc : ItemSet), news.Nodup →
    (∀ x ∈ news, x ∈ U ∧ x ∉ acc) → cnt U (news.foldl ItemSet.insert acc) + news.length ≤ cnt U acc := by
  intro news
  induction news with
  | nil => intro acc _ _; simp
  | cons x xs ih =>
    intro acc hnd h
    rw [List.nodup_cons] at hnd
    rw [List.foldl_cons]
    have h1 := cnt_insert U acc (ItemSet.insert acc x) x (h x (by simp)).1 (h x (by simp)).2
      (fun y => mem_insert_iff x y acc)
    have h2 := ih (ItemSet.insert acc x) hnd.2 (by
      intro y hy
      refine ⟨(h y (by simp [hy])).1, ?_⟩
      rw [mem_insert_iff]
      rintro (h' | h')
      · subst h'; exact hnd.1 hy
      · exact (h y (by simp [hy])).2 h')
    simp only [List.length_cons]
    omega

theorem hullAux_closed (g : Grammar) (fi : FirstInfo) (U : List Item) (P : Item → Prop)
    (hPU : ∀ x, P x → x ∈ U) (hU : ∀ it, P it → ∀ x ∈ closeItem g fi it, P x) :
    ∀ (fuel : Nat) (work : List Item) (acc : ItemSet),
      (∀ x ∈ work, x ∈ acc) → (∀ x ∈ acc, P x) →
      (∀ x ∈ acc, x ∈ work ∨ ∀ y ∈ closeItem g fi x, y ∈ acc) →
      work.length + cnt U acc ≤ fuel →
      (∀ x ∈ acc, x ∈ hullAux g fi fuel work acc) ∧
        (∀ x ∈ hullAux g fi fuel work acc, ∀ y ∈ closeItem g fi x, y ∈ hullAux g fi fuel work acc) := by
  intro fuel
  induction fuel with
  | zero =>
    intro work acc hw hau hcl hm
    have : work = [] := List.eq_nil_of_length_eq_zero (by omega)
    subst this
    simp only [hullAux]
    refine ⟨fun x hx => hx, ?_⟩
    intro x hx
    rcases hcl x hx with h | h
    · cases h
    · exact h
  | succ fuel ih =>
    intro work acc hw hau hcl hm
    cases work with
    | nil =>
      simp only [hullAux]
      refine ⟨fun x hx => hx, ?_⟩
      intro x hx
      rcases hcl x hx with h | h
      · cases h
      · exact h
    | cons it work =>
      simp only [hullAux]
      have hnews : ∀ x, x ∈ ((closeItem g fi it).filter (fun x => !acc.contains x)).eraseDups ↔
          x ∈ closeItem g fi it ∧ x ∉ acc := by
        intro x
        rw [List.mem_eraseDups, List.mem_filter]
        simp
      generalize hN : ((closeItem g fi it).filter (fun x => !acc.contains x)).eraseDups = news at hnews
      have hnd : news.Nodup := by rw [← hN]; exact nodup_eraseDups _ _ (Nat.le_refl _)
      have hitU : P it := hau it (hw it (by simp))
      have hacc' : ∀ x, x ∈ news.foldl ItemSet.insert acc ↔ x ∈ acc ∨ x ∈ news :=
        mem_foldl_insert_iff news acc
      have hc := cnt_foldl_insert U news acc hnd (fun x hx =>
        ⟨hPU _ (hU it hitU x ((hnews x).mp hx).1), ((hnews x).mp hx).2⟩)
      have := ih (work ++ news) (news.foldl ItemSet.insert acc) ?_ ?_ ?_ ?_
      · refine ⟨fun x hx => this.1 x ((hacc' x).mpr (Or.inl hx)), this.2⟩
      · intro x hx
        rw [hacc']
        rcases List.mem_append.mp hx with h | h
        · exact Or.inl (hw x (by simp [h]))
        · exact Or.inr h
      · intro x hx
        rcases (hacc' x).mp hx with h | h
        · exact hau x h
        · exact hU it hitU x ((hnews x).mp h).1
      · intro x hx
        rcases (hacc' x).mp hx with h | h
        · rcases hcl x h with h' | h'
          · simp only [List.mem_cons] at h'
            rcases h' with h' | h'
            · subst h'
              right
              intro y hy
              rw [hacc']
              by_cases hya : y ∈ acc
              · exact Or.inl hya
              · exact Or.inr ((hnews y).mpr ⟨hy, hya⟩)
            · left; exact List.mem_append.mpr (Or.inl h')
          · right
            intro y hy
            exact (hacc' y).mpr (Or.inl (h' y hy))
        · left; exact List.mem_append.mpr (Or.inr h)
      · simp only [List.length_cons, List.length_append] at hm ⊢
        omega

theorem hull_closed (g : Grammar) (fi : FirstInfo) (U : List Item) (P : Item → Prop)
    (hPU : ∀ x, P x → x ∈ U) (hU : ∀ it, P it → ∀ x ∈ closeItem g fi it, P x)
    (hlen : U.length ≤ g.itemBound) (I : List Item) (hI : ∀ x ∈ I, P x) :
    (∀ x ∈ I, x ∈ hull g fi I) ∧ (∀ x ∈ hull g fi I, ∀ y ∈ closeItem g fi x, y ∈ hull g fi I) := by
  simp only [hull]
  have hstart : ∀ x, x ∈ I.foldl ItemSet.insert [] ↔ x ∈ I := by
    intro x; rw [mem_foldl_insert_iff]; simp
  have := hullAux_closed g fi U P hPU hU (g.itemBound + I.length) (I.foldl ItemSet.insert [])
    (I.foldl ItemSet.insert []) (fun x hx => hx) (fun x hx => hI x ((hstart x).mp hx))
    (fun x hx => Or.inl hx) (by
      have h1 := length_foldl_insert_le I []
      have h2 : cnt U (I.foldl ItemSet.insert []) ≤ U.length := List.countP_le_length
      simp only [List.length_nil] at h1
      omega)
  exact ⟨fun x hx => this.1 x ((hstart x).mpr hx), this.2⟩

/-! ### the item universe and its size -/

def slotsOf (e : Nat × List (List Sym)) (k : Nat) : List (Nat × Nat × Nat) :=
  (e.2.zipIdx k).flatMap (fun p => (List.range (p.1.length + 1)).map (fun d => (e.1, p.2, d)))

def slots (g : Grammar) : List (Nat × Nat × Nat) := g.prods.flatMap (fun e => slotsOf e 0)

def itemU (g : Grammar) : List Item :=
  (slots g).flatMap (fun s => g.terminals.eraseDups.map (fun a => ⟨s.1, s.2.1, s.2.2, .t a⟩))

theorem length_flatMap_const {α β : Type} (f : α → List β) (c : Nat) (l : List α)
    (h : ∀ x ∈ l, (f x).length = c) : (l.flatMap f).length = l.length * c := by
  induction l with
  | nil => simp
  | cons x xs ih =>
    rw [List.flatMap_cons, List.length_append, h x (by simp), ih (fun y hy => h y (by simp [hy]))]
    simp only [List.length_cons, Nat.succ_mul]
    omega

theorem length_slotsOf (n : Nat) : ∀ (alts : List (List Sym)) (k a0 : Nat),
    a0 + (slotsOf (n, alts) k).length = alts.foldl (fun a r => a + r.length + 1) a0 := by
  intro alts
  induction alts with
  | nil => intro k a0; simp [slotsOf]
  | cons r rs ih =>
    intro k a0
    have := ih (k + 1) (a0 + r.length + 1)
    simp only [slotsOf, List.zipIdx_cons, List.flatMap_cons, List.length_append, List.length_map,
      List.length_range, List.foldl_cons] at this ⊢
    omega

theorem length_slots_aux : ∀ (prods : List (Nat × List (List Sym))) (a0 : Nat),
    a0 + (prods.flatMap (fun e => slotsOf e 0)).length =
      prods.foldl (fun acc e => acc + e.2.foldl (fun a r => a + r.length + 1) 0) a0 := by
  intro prods
  induction prods with
  | nil => intro a0; simp
  | cons e es ih =>
    intro a0
    obtain ⟨n, alts⟩ := e
    have h1 := length_slotsOf n alts 0 0
    have h2 := ih (a0 + alts.foldl (fun a r => a + r.length + 1) 0)
    simp only [List.flatMap_cons, List.length_append, List.foldl_cons] at h2 ⊢
    rw [← h2, ← h1]
    omega

theorem length_itemU (g : Grammar) : (itemU g).length ≤ g.itemBound := by
  have h1 : (itemU g).length = (slots g).length * g.terminals.eraseDups.length :=
    length_flatMap_const _ _ _ (fun x _ => by simp)
  have h2 := length_slots_aux g.prods 0
  simp only [Nat.zero_add] at h2
  rw [h1, Grammar.itemBound, ← h2, slots]
  have : (g.prods.flatMap (fun e => slotsOf e 0)).length * g.terminals.eraseDups.length ≤
      (g.prods.flatMap (fun e => slotsOf e 0)).length * (g.terminals.eraseDups.length + 2) :=
    Nat.mul_le_mul_left _ (by omega)
  omega

/-- items of the universe -/
def InU (g : Grammar) (it : Item) : Prop :=
  it.alt < (g.alts it.left).length ∧ it.dot ≤ (g.rhs it).length ∧ ∃ a, it.follow = .t a ∧ a ∈ g.terminals

theorem alts_get {g : Grammar} {n k : Nat} {r : List Sym} (h : (g.alts n)[k]? = some r) :
    ∃ e ∈ g.prods, e.1 = n ∧ e.2[k]? = some r := by
  unfold Grammar.alts at h
  cases hf : g.prods.find? (fun e => e.1 = n) with
  | none => simp [hf] at h
  | some e =>
    simp [hf] at h
    have h1 := List.mem_of_find?_eq_some hf
    have h2 := List.find?_some hf
    exact ⟨e, h1, by simpa using h2, h⟩

theorem mem_itemU (g : Grammar) (it : Item) (h : InU g it) : it ∈ itemU g := by
  obtain ⟨h1, h2, a, h3, h4⟩ := h
  have hget : (g.alts it.left)[it.alt]? = some (g.rhs it) := by
    simp [Grammar.rhs, List.getElem?_eq_getElem h1]
  obtain ⟨e, he, hl, hr⟩ := alts_get hget
  simp only [itemU, slots, slotsOf, List.mem_flatMap, List.mem_map, List.mem_range]
  refine ⟨(it.left, it.alt, it.dot), ⟨e, he, (g.rhs it, it.alt), ?_, it.dot, by simp; omega, by simp [hl]⟩,
    a, List.mem_eraseDups.mpr h4, ?_⟩
  · rw [List.mem_zipIdx_iff_getElem?]; exact hr
  · cases it; simp_all

theorem inv_iter {g : Grammar} (k : Nat) {fi : FirstInfo} (h : Inv g fi) : Inv g (firstIter g k fi) := by
  induction k generalizing fi with
  | zero => exact h
  | succ k ih =>
    simp only [firstIter]
    split
    · exact h
    · exact ih (inv_round h)

theorem firstSets_terminals (g : Grammar) (n a : Nat) (h : a ∈ (firstSets g).firstOf n) :
    a ∈ g.terminals := by
  have := inv_iter (g := g) (g.numNT * (g.terminals.eraseDups.length + 1) + 1) (inv_init g)
  rw [← firstSets_eq] at this
  exact (this.2.2 n).2 a h

theorem rhs_get {g : Grammar} {it : Item} (h : it.alt < (g.alts it.left).length) :
    (g.alts it.left)[it.alt]? = some (g.rhs it) := by
  simp [Grammar.rhs, List.getElem?_eq_getElem h]

/-- the lookaheads of closure items are terminals (never ε) when the source's is -/
theorem close_follow (g : Grammar) (it : Item) (a : Nat) (hf : it.follow = .t a) (la : Sym)
    (hla : la ∈ firstSyms (firstSets g) (((g.rhs it).drop (it.dot + 1)) ++ [it.follow])) :
    ∃ c, la = .t c ∧ c ∈ (firstOfString (firstSets g) (((g.rhs it).drop (it.dot + 1)) ++ [it.follow])).1 := by
  rcases mem_firstSyms _ _ _ hla with ⟨_, h⟩ | h
  · rw [null_fos_append, hf] at h
    simp [fos_t] at h
  · exact h

theorem inU_close (g : Grammar) (it : Item) (h : InU g it) :
    ∀ x ∈ closeItem g (firstSets g) it, InU g x := by
  intro x hx
  obtain ⟨h1, h2, a, h3, h4⟩ := h
  simp only [closeItem] at hx
  split at hx
  · rename_i b hb
    simp only [List.mem_flatMap, List.mem_range, List.mem_map] at hx
    obtain ⟨ri, hri, la, hla, rfl⟩ := hx
    obtain ⟨c, rfl, hc⟩ := close_follow g it a h3 la hla
    refine ⟨hri, Nat.zero_le _, c, rfl, ?_⟩
    refine fos_terminals (firstSets_terminals g) _ ?_ c hc
    intro i hi
    rcases List.mem_append.mp hi with hi | hi
    · exact alts_terminal (List.mem_of_getElem? (rhs_get h1)) (List.mem_of_mem_drop hi)
    · simp only [List.mem_singleton] at hi
      rw [h3] at hi; cases hi; exact h4
  · simp at hx

theorem hull_closed' (g : Grammar) (I : List Item) (hI : ∀ x ∈ I, InU g x) :
    (∀ x ∈ I, x ∈ hull g (firstSets g) I) ∧
      (∀ x ∈ hull g (firstSets g) I, ∀ y ∈ closeItem g (firstSets g) x, y ∈ hull g (firstSets g) I) :=
  hull_closed g (firstSets g) (itemU g) (InU g) (mem_itemU g) (inU_close g) (length_itemU g) I hI

theorem hull_inU (g : Grammar) (I : List Item) (hI : ∀ x ∈ I, InU g x) :
    ∀ x ∈ hull g (firstSets g) I, InU g x :=
  hull_mem g (firstSets g) (InU g) (InU g) (fun _ h => h) (inU_close g) I hI

/-! ## 3. the collection is complete: every state has been expanded -/

def Expanded (g : Grammar) (st : LRState) : Prop :=
  ∀ X ∈ befores g st.items, ∃ j, (X, j) ∈ st.trans

def expF (g : Grammar) (fi : FirstInfo) (items : ItemSet)
    (acc : List LRState × List (Sym × Nat)) (x : Sym) : List LRState × List (Sym × Nat) :=
  match acc.1.findIdx? (fun s => s.items = jump g fi items x) with
  | some j => (acc.1, acc.2 ++ [(x, j)])
  | none => (acc.1 ++ [⟨jump g fi items x, []⟩], acc.2 ++ [(x, acc.1.length)])

theorem expandState_eq (g : Grammar) (fi : FirstInfo) (states : List LRState) (i : Nat) :
    expandState g fi states i =
      match states[i]? with
      | none => states
      | some st =>
        ((befores g st.items).foldl (expF g fi st.items) (states, [])).1.set i
          { st with trans := ((befores g st.items).foldl (expF g fi st.items) (states, [])).2 } := rfl

theorem expF_fold (g : Grammar) (fi : FirstInfo) (items : ItemSet) :
    ∀ (l : List Sym) (acc : List LRState × List (Sym × Nat)),
      (∃ ext, (l.foldl (expF g fi items) acc).1 = acc.1 ++ ext) ∧
      (∀ p ∈ acc.2, p ∈ (l.foldl (expF g fi items) acc).2) ∧
      (∀ x ∈ l, ∃ j, (x, j) ∈ (l.foldl (expF g fi items) acc).2) := by
  intro l
  induction l with
  | nil => intro acc; exact ⟨⟨[], by simp⟩, fun p hp => hp, fun x hx => by cases hx⟩
  | cons y ys ih =>
    intro acc
    rw [List.foldl_cons]
    obtain ⟨⟨ext, h1⟩, h2, h3⟩ := ih (expF g fi items acc y)
    have hstep : (∃ e, (expF g fi items acc y).1 = acc.1 ++ e) ∧
        (∀ p ∈ acc.2, p ∈ (expF g fi items acc y).2) ∧ ∃ j, (y, j) ∈ (expF g fi items acc y).2 := by
      simp only [expF]
      split
      · rename_i j _
        exact ⟨⟨[], by simp⟩, fun p hp => by simp [hp], j, by simp⟩
      · exact ⟨⟨_, rfl⟩, fun p hp => by simp [hp], acc.1.length, by simp⟩
    obtain ⟨⟨e, he⟩, hs2, j, hj⟩ := hstep
    refine ⟨⟨e ++ ext, by rw [h1, he, List.append_assoc]⟩, fun p hp => h2 p (hs2 p hp), ?_⟩
    intro x hx
    simp only [List.mem_cons] at hx
    rcases hx with hx | hx
    · subst hx; exact ⟨j, h2 _ hj⟩
    · exact h3 x hx

/-- all states below `n` have been expanded -/
def AllExp (g : Grammar) (n : Nat) (states : List LRState) : Prop :=
  ∀ k, k < n → ∀ st, states[k]? = some st → Expanded g st

theorem expandState_exp (g : Grammar) (fi : FirstInfo) (states : List LRState) (i : Nat)
    (hi : i < states.length) (h : AllExp g i states) :
    states.length ≤ (expandState g fi states i).length ∧ AllExp g (i + 1) (expandState g fi states i) := by
  rw [expandState_eq]
  have hst : states[i]? = some states[i] := List.getElem?_eq_getElem hi
  rw [hst]
  simp only []
  obtain ⟨⟨ext, h1⟩, _, h3⟩ := expF_fold g fi states[i].items (befores g states[i].items) (states, [])
  simp only [] at h1
  rw [h1]
  refine ⟨by simp, ?_⟩
  intro k hk st hkst
  rw [List.getElem?_set] at hkst
  by_cases hik : i = k
  · subst hik
    simp only [if_true] at hkst
    split at hkst
    · cases hkst
      intro X hX
      exact h3 X hX
    · cases hkst
  · simp only [hik, if_false] at hkst
    have hklt : k < states.length := by omega
    rw [List.getElem?_append_left hklt] at hkst
    exact h k (by omega) st hkst

theorem collectAux_exp (g : Grammar) (fi : FirstInfo) : ∀ (fuel i : Nat) (states : List LRState),
    i ≤ states.length → AllExp g i states → (collectAux g fi fuel i states).length < fuel + i →
    AllExp g (collectAux g fi fuel i states).length (collectAux g fi fuel i states) := by
  intro fuel
  induction fuel with
  | zero =>
    intro i states hi _ hlen
    simp only [collectAux] at hlen
    omega
  | succ fuel ih =>
    intro i states hi h hlen
    simp only [collectAux] at hlen ⊢
    split
    · rename_i hlt
      rw [if_pos hlt] at hlen
      obtain ⟨h1, h2⟩ := expandState_exp g fi states i hlt h
      exact ih (i + 1) _ (by omega) h2 (by omega)
    · have : i = states.length := by omega
      subst this
      exact h

theorem collection_exp (ga : Grammar) (fi : FirstInfo) (sPrime eof fuel : Nat)
    (hlen : (collection ga fi sPrime eof fuel).length < fuel) :
    ∀ (q : Nat) (st : LRState), (collection ga fi sPrime eof fuel)[q]? = some st → Expanded ga st := by
  intro q st hq
  have := collectAux_exp ga fi fuel 0 [⟨hull ga fi [⟨sPrime, 0, 0, .t eof⟩], []⟩] (by simp)
    (fun k hk => by omega) (by simpa [collection] using hlen)
  refine this q ?_ st hq
  rcases Nat.lt_or_ge q (collection ga fi sPrime eof fuel).length with h | h
  · exact h
  · rw [List.getElem?_eq_none h] at hq; cases hq

/-! ## 4. conflict-free tables contain every action -/

/-- cells that `placeRA` never overwrites -/
def isHard : Action → Bool
  | .shift _ => true
  | .reduce _ _ _ => true
  | _ => false

def cell (row : List Action) (t : Nat) : Action := (row[t]?).getD .err

theorem cell_set (row : List Action) (t t' : Nat) (a : Action) :
    cell (row.set t a) t' = if t = t' ∧ t < row.length then a else cell row t' := by
  simp only [cell, List.getElem?_set]
  by_cases h : t = t'
  · subst h
    by_cases h2 : t < row.length
    · simp [h2]
    · simp [h2]
  · simp [h]

/-- one placement of a reduce / accept entry -/
def plF (state : Nat) (acc : List Action × List Conflict) (p : Nat × Action) :
    List Action × List Conflict := placeRA state acc.1 acc.2 p.1 p.2

theorem plF_cases (state : Nat) (acc : List Action × List Conflict) (p : Nat × Action) :
    (isHard (cell acc.1 p.1) = true ∧ (plF state acc p).1 = acc.1 ∧ (plF state acc p).2 ≠ []) ∨
    (isHard (cell acc.1 p.1) = false ∧ (plF state acc p).1 = acc.1.set p.1 p.2 ∧ (plF state acc p).2 = acc.2) := by
  simp only [plF, placeRA, cell]
  cases h : (acc.1[p.1]?).getD Action.err <;> simp [isHard, setCell]

theorem plF_mono (state : Nat) (acc : List Action × List Conflict) (p : Nat × Action)
    (h : (plF state acc p).2 = []) : acc.2 = [] := by
  simp only [plF, placeRA] at h
  split at h
  · simp at h
  · simp at h
  · exact h

theorem pl_mono (state : Nat) : ∀ (pl : List (Nat × Action)) (acc : List Action × List Conflict),
    (pl.foldl (plF state) acc).2 = [] → acc.2 = [] := by
  intro pl
  induction pl with
  | nil => intro acc h; exact h
  | cons p ps ih => intro acc h; exact plF_mono state acc p (ih _ h)

theorem plF_length (state : Nat) (acc : List Action × List Conflict) (p : Nat × Action) :
    (plF state acc p).1.length = acc.1.length := by
  rcases plF_cases state acc p with ⟨_, h, _⟩ | ⟨_, h, _⟩ <;> rw [h] <;> simp

theorem pl_length (state : Nat) : ∀ (pl : List (Nat × Action)) (acc : List Action × List Conflict),
    (pl.foldl (plF state) acc).1.length = acc.1.length := by
  intro pl
  induction pl with
  | nil => intro acc; rfl
  | cons p ps ih => intro acc; rw [List.foldl_cons, ih, plF_length]

/-- a shift / reduce cell survives conflict-free placements -/
theorem pl_stable (state : Nat) (t : Nat) : ∀ (pl : List (Nat × Action)) (acc : List Action × List Conflict),
    isHard (cell acc.1 t) = true → (pl.foldl (plF state) acc).2 = [] →
    cell (pl.foldl (plF state) acc).1 t = cell acc.1 t := by
  intro pl
  induction pl with
  | nil => intro acc _ _; rfl
  | cons p ps ih =>
    intro acc hh hc
    rw [List.foldl_cons] at hc ⊢
    have hm := pl_mono state ps _ hc
    rcases plF_cases state acc p with ⟨_, h1, h2⟩ | ⟨h0, h1, _⟩
    · exact absurd hm h2
    · have hne : p.1 ≠ t := by
        intro h; rw [h] at h0; rw [h0] at hh; cases hh
      have hcell : cell (plF state acc p).1 t = cell acc.1 t := by
        rw [h1, cell_set]; simp [hne]
      rw [ih _ (by rw [hcell]; exact hh) hc, hcell]

theorem pl_reduce (state : Nat) (t : Nat) (a : Action) (ha : isHard a = true) :
    ∀ (pl : List (Nat × Action)) (acc : List Action × List Conflict),
    (t, a) ∈ pl → t < acc.1.length → (pl.foldl (plF state) acc).2 = [] →
    cell (pl.foldl (plF state) acc).1 t = a := by
  intro pl
  induction pl with
  | nil => intro acc h; cases h
  | cons p ps ih =>
    intro acc hmem ht hc
    rw [List.foldl_cons] at hc ⊢
    have hm := pl_mono state ps _ hc
    simp only [List.mem_cons] at hmem
    rcases hmem with hmem | hmem
    · subst hmem
      rcases plF_cases state acc (t, a) with ⟨_, _, h2⟩ | ⟨_, h1, _⟩
      · exact absurd hm h2
      · have hcell : cell (plF state acc (t, a)).1 t = a := by
          rw [h1, cell_set]; simp [ht]
        rw [pl_stable state t ps _ (by rw [hcell]; exact ha) hc, hcell]
    · exact ih _ hmem (by rw [plF_length]; exact ht) hc

theorem pl_accept_stable (state : Nat) (t : Nat) : ∀ (pl : List (Nat × Action))
    (acc : List Action × List Conflict), (∀ p ∈ pl, p.2 = .accept) → cell acc.1 t = .accept →
    cell (pl.foldl (plF state) acc).1 t = .accept := by
  intro pl
  induction pl with
  | nil => intro acc _ h; exact h
  | cons p ps ih =>
    intro acc hp h
    rw [List.foldl_cons]
    apply ih _ (fun q hq => hp q (by simp [hq]))
    rcases plF_cases state acc p with ⟨_, h1, _⟩ | ⟨_, h1, _⟩
    · rw [h1]; exact h
    · rw [h1, cell_set, hp p (by simp)]
      split
      · rfl
      · exact h

theorem pl_accept (state : Nat) (t : Nat) (pl1 pl2 : List (Nat × Action))
    (acc : List Action × List Conflict) (h2 : ∀ p ∈ pl2, p.2 = .accept) (ht : t < acc.1.length)
    (hc : ((pl1 ++ (t, .accept) :: pl2).foldl (plF state) acc).2 = []) :
    cell ((pl1 ++ (t, .accept) :: pl2).foldl (plF state) acc).1 t = .accept := by
  rw [List.foldl_append, List.foldl_cons] at hc ⊢
  have hm := pl_mono state pl2 _ hc
  apply pl_accept_stable state t pl2 _ h2
  rcases plF_cases state (pl1.foldl (plF state) acc) (t, .accept) with ⟨_, _, h⟩ | ⟨_, h1, _⟩
  · exact absurd hm h
  · rw [h1, cell_set]
    simp [pl_length, ht]

/-- the action of a complete item -/
def actOf (ga : Grammar) (it : Item) : Action :=
  if it.left = ga.numNT - 2 then .accept else .reduce it.left it.alt (ga.rhs it).length

/-- the placements caused by one item -/
def itemPl (ga : Grammar) (pm : Bool) (eof width : Nat) (it : Item) : List (Nat × Action) :=
  if it.dot ≠ (ga.rhs it).length then [] else
  if it.follow.index = eof ∧ pm then (List.range width).map (fun t => (t, actOf ga it))
  else [(it.follow.index, actOf ga it)]

theorem row2F_eq (ga : Grammar) (pm : Bool) (eof width state : Nat)
    (acc : List Action × List Conflict) (it : Item) :
    row2F ga pm eof width state acc it = (itemPl ga pm eof width it).foldl (plF state) acc := by
  simp only [row2F, itemPl, actOf]
  split
  · rfl
  · split
    · rw [List.foldl_map]; rfl
    · rfl

theorem items_fold_eq (ga : Grammar) (pm : Bool) (eof width state : Nat) :
    ∀ (items : List Item) (acc : List Action × List Conflict),
    items.foldl (row2F ga pm eof width state) acc =
      (items.flatMap (itemPl ga pm eof width)).foldl (plF state) acc := by
  intro items
  induction items with
  | nil => intro acc; rfl
  | cons it its ih =>
    intro acc
    rw [List.foldl_cons, List.flatMap_cons, List.foldl_append, ih, row2F_eq]

/-- the item acts on column `c` -/
def ActsOn (pm : Bool) (eof : Nat) (it : Item) (c : Nat) : Prop :=
  it.follow.index = c ∨ (it.follow.index = eof ∧ pm = true)

theorem mem_itemPl (ga : Grammar) (pm : Bool) (eof width : Nat) (it : Item) (c : Nat)
    (hd : it.dot = (ga.rhs it).length) (hc : c < width) (ha : ActsOn pm eof it c) :
    (c, actOf ga it) ∈ itemPl ga pm eof width it := by
  simp only [itemPl, hd, ne_eq, not_true_eq_false, if_false]
  split
  · simp [hc]
  · rename_i hn
    rcases ha with ha | ha
    · simp [ha]
    · exact absurd ha hn

theorem itemPl_act (ga : Grammar) (pm : Bool) (eof width : Nat) (it : Item) :
    ∀ p ∈ itemPl ga pm eof width it, p.2 = actOf ga it := by
  intro p hp
  simp only [itemPl] at hp
  split at hp
  · cases hp
  · split at hp
    · simp only [List.mem_map] at hp
      obtain ⟨t, _, rfl⟩ := hp; rfl
    · simp only [List.mem_singleton] at hp
      subst hp; rfl

/-! ### phase 1: shifts and gotos -/

def isShift : Action → Bool
  | .shift _ => true
  | _ => false

def isSE : Action → Bool
  | .shift _ => true
  | .err => true
  | _ => false

theorem row1_mono (state : Nat) : ∀ (tr : List (Sym × Nat)) (acc : List Action × List Int × List Conflict),
    (tr.foldl (row1F state) acc).2.2 = [] → acc.2.2 = [] := by
  intro tr
  induction tr with
  | nil => intro acc h; exact h
  | cons p ps ih =>
    intro acc h
    have := ih _ h
    obtain ⟨X, j⟩ := p
    cases X with
    | eps => exact this
    | n k => exact this
    | t i =>
      simp only [row1F, placeShift] at this
      split at this
      · simp at this
      · exact this

theorem row1_shift (state : Nat) : ∀ (tr : List (Sym × Nat)) (acc : List Action × List Int × List Conflict),
    (∀ t, isSE (cell acc.1 t) = true) →
    (∀ t, isSE (cell (tr.foldl (row1F state) acc).1 t) = true) ∧
    (tr.foldl (row1F state) acc).1.length = acc.1.length ∧
    (∀ t, isShift (cell acc.1 t) = true → isShift (cell (tr.foldl (row1F state) acc).1 t) = true) ∧
    (∀ a j, (Sym.t a, j) ∈ tr → a < acc.1.length →
      isShift (cell (tr.foldl (row1F state) acc).1 a) = true) := by
  intro tr
  induction tr with
  | nil => intro acc h; exact ⟨h, rfl, fun _ h => h, fun a j hm => by cases hm⟩
  | cons p ps ih =>
    intro acc h
    rw [List.foldl_cons]
    obtain ⟨X, j⟩ := p
    have hstep : (∀ t, isSE (cell (row1F state acc (X, j)).1 t) = true) ∧
        (row1F state acc (X, j)).1.length = acc.1.length ∧
        (∀ t, isShift (cell acc.1 t) = true → isShift (cell (row1F state acc (X, j)).1 t) = true) ∧
        (∀ a, X = .t a → a < acc.1.length → isShift (cell (row1F state acc (X, j)).1 a) = true) := by
      cases X with
      | eps => exact ⟨h, rfl, fun _ h => h, fun a ha => by cases ha⟩
      | n k => exact ⟨h, rfl, fun _ h => h, fun a ha => by cases ha⟩
      | t i =>
        have hi := h i
        have hrow : (row1F state acc (Sym.t i, j)).1 = acc.1.set i (.shift j) := by
          simp only [row1F, placeShift]
          simp only [cell] at hi
          cases hc : (acc.1[i]?).getD Action.err <;> rw [hc] at hi <;> simp [isSE, setCell] at hi ⊢
        rw [hrow]
        refine ⟨?_, by simp, ?_, ?_⟩
        · intro t; rw [cell_set]; split
          · rfl
          · exact h t
        · intro t ht; rw [cell_set]; split
          · rfl
          · exact ht
        · intro a ha hlt
          cases ha
          rw [cell_set]; simp [hlt, isShift]
    obtain ⟨s1, s2, s3, s4⟩ := hstep
    obtain ⟨i1, i2, i3, i4⟩ := ih (row1F state acc (X, j)) s1
    refine ⟨i1, by rw [i2, s2], fun t ht => i3 t (s3 t ht), ?_⟩
    intro a j' hm hlt
    simp only [List.mem_cons, Prod.mk.injEq] at hm
    rcases hm with ⟨hX, _⟩ | hm
    · exact i3 a (s4 a hX.symm hlt)
    · exact i4 a j' hm (by rw [s2]; exact hlt)

def isNN (o : Option Int) : Prop := ∃ j : Nat, o = some (j : Int)

theorem row1_goto (state : Nat) : ∀ (tr : List (Sym × Nat)) (acc : List Action × List Int × List Conflict),
    (tr.foldl (row1F state) acc).2.1.length = acc.2.1.length ∧
    (∀ A : Nat, isNN (acc.2.1[A]?) → isNN ((tr.foldl (row1F state) acc).2.1[A]?)) ∧
    (∀ (A : Nat) j, (Sym.n A, j) ∈ tr → A < acc.2.1.length → isNN ((tr.foldl (row1F state) acc).2.1[A]?)) := by
  intro tr
  induction tr with
  | nil => intro acc; exact ⟨rfl, fun _ h => h, fun A j hm => by cases hm⟩
  | cons p ps ih =>
    intro acc
    rw [List.foldl_cons]
    obtain ⟨X, j⟩ := p
    have hstep : (row1F state acc (X, j)).2.1.length = acc.2.1.length ∧
        (∀ A : Nat, isNN (acc.2.1[A]?) → isNN ((row1F state acc (X, j)).2.1[A]?)) ∧
        (∀ A : Nat, X = .n A → A < acc.2.1.length → isNN ((row1F state acc (X, j)).2.1[A]?)) := by
      cases X with
      | eps => exact ⟨rfl, fun _ h => h, fun A hA => by cases hA⟩
      | t i =>
        refine ⟨rfl, fun _ h => h, fun A hA => by cases hA⟩
      | n k =>
        simp only [row1F]
        refine ⟨by simp, ?_, ?_⟩
        · intro A hA
          rw [List.getElem?_set]
          split
          · split
            · exact ⟨j, rfl⟩
            · rename_i h1 h2
              subst h1
              rw [List.getElem?_eq_none (by omega)] at hA
              exact hA
          · exact hA
        · intro A hA hlt
          cases hA
          rw [List.getElem?_set]
          simp only [if_true, hlt]
          exact ⟨j, rfl⟩
    obtain ⟨s1, s2, s3⟩ := hstep
    obtain ⟨i1, i2, i3⟩ := ih (row1F state acc (X, j))
    refine ⟨by rw [i1, s1], fun A hA => i2 A (s2 A hA), ?_⟩
    intro A j' hm hlt
    simp only [List.mem_cons, Prod.mk.injEq] at hm
    rcases hm with ⟨hX, _⟩ | hm
    · exact i2 A (s3 A hX.symm hlt)
    · exact i3 A j' hm (by rw [s1]; exact hlt)

/-! ### one row -/

structure RowComplete (ga : Grammar) (pm : Bool) (eof width : Nat) (st : LRState)
    (row : List Action) (grow : List Int) : Prop where
  len : row.length = width
  shift : ∀ a j, (Sym.t a, j) ∈ st.trans → a < width → isShift (cell row a) = true
  goto : ∀ (A : Nat) j, (Sym.n A, j) ∈ st.trans → A < ga.numNT → isNN (grow[A]?)
  reduce : ∀ it ∈ st.items, it.dot = (ga.rhs it).length → it.left ≠ ga.numNT - 2 →
    ∀ c, c < width → ActsOn pm eof it c → cell row c = .reduce it.left it.alt (ga.rhs it).length
  accept : ∀ l1 it l2, st.items = l1 ++ it :: l2 → it.dot = (ga.rhs it).length →
    it.left = ga.numNT - 2 → (∀ y ∈ l2, y.left = ga.numNT - 2) →
    ∀ c, c < width → ActsOn pm eof it c → cell row c = .accept

theorem cell_replicate (w t : Nat) : cell (List.replicate w Action.err) t = .err := by
  simp only [cell, List.getElem?_replicate]
  split <;> rfl

theorem fillRow_complete (ga : Grammar) (pm : Bool) (eof width state : Nat) (st : LRState)
    (hc : (fillRow ga pm eof width state st []).2.2 = []) :
    RowComplete ga pm eof width st (fillRow ga pm eof width state st []).1
      (fillRow ga pm eof width state st []).2.1 := by
  rw [fillRow_eq] at hc ⊢
  simp only [] at hc ⊢
  generalize hr1 : st.trans.foldl (row1F state)
    (List.replicate width Action.err, List.replicate ga.numNT (-1), []) = r1 at hc ⊢
  rw [items_fold_eq] at hc ⊢
  obtain ⟨s1, s2, s3, s4⟩ := row1_shift state st.trans
    (List.replicate width Action.err, List.replicate ga.numNT (-1), [])
    (fun t => by simp only [cell_replicate]; rfl)
  obtain ⟨g1, g2, g3⟩ := row1_goto state st.trans
    (List.replicate width Action.err, List.replicate ga.numNT (-1), [])
  rw [hr1] at s1 s2 s3 s4 g1 g2 g3
  simp only [List.length_replicate] at s2 s4 g1 g3
  have hlen : ((st.items.flatMap (itemPl ga pm eof width)).foldl (plF state) (r1.1, r1.2.2)).1.length
      = width := by rw [pl_length]; exact s2
  refine ⟨hlen, ?_, ?_, ?_, ?_⟩
  · intro a j hm ha
    have h1 := s4 a j hm ha
    have hh : isHard (cell r1.1 a) = true := by
      cases hcell : cell r1.1 a <;> rw [hcell] at h1 <;> simp [isShift, isHard] at h1 ⊢
    rw [pl_stable state a _ (r1.1, r1.2.2) hh hc]
    exact h1
  · intro A j hm hA
    exact g3 A j hm hA
  · intro it hit hd hl c hcw ha
    have hact : actOf ga it = .reduce it.left it.alt (ga.rhs it).length := by
      simp [actOf, hl]
    rw [← hact]
    apply pl_reduce state c _ (by rw [hact]; rfl) _ (r1.1, r1.2.2) _ (by simpa [s2] using hcw) hc
    exact List.mem_flatMap.mpr ⟨it, hit, mem_itemPl ga pm eof width it c hd hcw ha⟩
  · intro l1 it l2 hitems hd hl hl2 c hcw ha
    have hact : actOf ga it = .accept := by simp [actOf, hl]
    have hmem := mem_itemPl ga pm eof width it c hd hcw ha
    rw [hact] at hmem
    obtain ⟨p1, p2, hp⟩ := List.append_of_mem hmem
    have hp2 : ∀ p ∈ p2, p.2 = Action.accept := by
      intro p hpm
      rw [itemPl_act ga pm eof width it p (by rw [hp]; simp [hpm]), hact]
    have hsplit : st.items.flatMap (itemPl ga pm eof width) =
        (l1.flatMap (itemPl ga pm eof width) ++ p1) ++ (c, Action.accept) ::
          (p2 ++ l2.flatMap (itemPl ga pm eof width)) := by
      rw [hitems, List.flatMap_append, List.flatMap_cons, hp]
      simp
    rw [hsplit] at hc ⊢
    apply pl_accept state c _ _ (r1.1, r1.2.2) _ (by simpa [s2] using hcw) hc
    intro p hpm
    rcases List.mem_append.mp hpm with hpm | hpm
    · exact hp2 p hpm
    · obtain ⟨y, hy, hpy⟩ := List.mem_flatMap.mp hpm
      rw [itemPl_act ga pm eof width y p hpy]
      simp [actOf, hl2 y hy]

/-! ### all rows -/

theorem fillRow_mono (ga : Grammar) (pm : Bool) (eof width state : Nat) (st : LRState)
    (confs : List Conflict) (hc : (fillRow ga pm eof width state st confs).2.2 = []) : confs = [] := by
  rw [fillRow_eq] at hc
  simp only [] at hc
  rw [items_fold_eq] at hc
  have h1 := pl_mono state _ _ hc
  exact row1_mono state _ _ h1

theorem rows_complete (ga : Grammar) (pm : Bool) (eof width : Nat) :
    ∀ (l : List LRState) (k : Nat) (acc : List (List Action) × List (List Int) × List Conflict),
      ((l.zipIdx k).foldl (rowsF ga pm eof width) acc).2.2 = [] →
      acc.2.2 = [] ∧
      ((l.zipIdx k).foldl (rowsF ga pm eof width) acc).1 =
        acc.1 ++ (l.zipIdx k).map (fun p => (fillRow ga pm eof width p.2 p.1 []).1) ∧
      ((l.zipIdx k).foldl (rowsF ga pm eof width) acc).2.1 =
        acc.2.1 ++ (l.zipIdx k).map (fun p => (fillRow ga pm eof width p.2 p.1 []).2.1) ∧
      ∀ p ∈ l.zipIdx k, (fillRow ga pm eof width p.2 p.1 []).2.2 = [] := by
  intro l
  induction l with
  | nil => intro k acc h; exact ⟨h, by simp, by simp, fun p hp => by cases hp⟩
  | cons x xs ih =>
    intro k acc h
    simp only [List.zipIdx_cons, List.foldl_cons] at h ⊢
    obtain ⟨h1, h2, h3, h4⟩ := ih (k + 1) _ h
    have hacc : acc.2.2 = [] := fillRow_mono ga pm eof width k x acc.2.2 h1
    rw [h2, h3]
    simp only [rowsF, hacc] at h1 ⊢
    refine ⟨trivial, by simp, by simp, ?_⟩
    intro p hp
    simp only [List.mem_cons] at hp
    rcases hp with hp | hp
    · subst hp; exact h1
    · exact h4 p hp

theorem genTables_complete (g : Grammar) (start eof : Nat) (pm : Bool) (fuel : Nat)
    (hc : (genTables g start eof pm fuel).1.conflicts = []) (q : Nat) (st : LRState)
    (hq : (collection (g.augment start eof) (firstSets (g.augment start eof)) g.numNT eof fuel)[q]? = some st) :
    ∃ row grow, (genTables g start eof pm fuel).1.action[q]? = some row ∧
      (genTables g start eof pm fuel).1.goto[q]? = some grow ∧
      RowComplete (g.augment start eof) pm eof ((g.augment start eof).maxTerminal + 1) st row grow := by
  rw [genTables_eq] at hc ⊢
  simp only [] at hc ⊢
  obtain ⟨_, h2, h3, h4⟩ := rows_complete (g.augment start eof) pm eof ((g.augment start eof).maxTerminal + 1)
    _ 0 ([], [], []) hc
  have hz : (collection (g.augment start eof) (firstSets (g.augment start eof)) g.numNT eof fuel).zipIdx[q]?
      = some (st, q) := by
    rw [List.getElem?_zipIdx, hq]; simp
  refine ⟨_, _, ?_, ?_, fillRow_complete _ pm eof _ q st (h4 (st, q) (List.mem_of_getElem? hz))⟩
  · rw [h2]; simp [List.getElem?_map, hz]
  · rw [h3]; simp [List.getElem?_map, hz]

/-! ## 5. the states of the collection -/

/-- item sets are ordered by left-hand side (so the item of `S′` comes last) -/
def LeftSorted (l : List Item) : Prop := l.Pairwise (fun x y => x.left ≤ y.left)

theorem Item.lt_left (a b : Item) (h : Item.lt a b = true) : a.left ≤ b.left := by
  simp only [Item.lt] at h
  by_cases h1 : a.left < b.left
  · omega
  · by_cases h2 : b.left < a.left
    · simp [h1, h2] at h
    · omega

theorem leftSorted_insert (x : Item) (l : ItemSet) (h : LeftSorted l) : LeftSorted (ItemSet.insert l x) := by
  induction l with
  | nil => simp [ItemSet.insert, sortedInsert, LeftSorted]
  | cons y ys ih =>
    simp only [LeftSorted, List.pairwise_cons] at h
    simp only [ItemSet.insert, sortedInsert]
    split
    · rename_i hlt
      have hxy := Item.lt_left x y hlt
      simp only [LeftSorted, List.pairwise_cons]
      refine ⟨?_, h⟩
      intro z hz
      simp only [List.mem_cons] at hz
      rcases hz with hz | hz
      · subst hz; exact hxy
      · exact Nat.le_trans hxy (h.1 z hz)
    · split
      · rename_i hlt
        have hyx := Item.lt_left y x hlt
        simp only [LeftSorted, List.pairwise_cons]
        refine ⟨?_, ih h.2⟩
        intro z hz
        rcases mem_sortedInsert _ _ _ _ _ hz with hz | hz
        · subst hz; exact hyx
        · exact h.1 z hz
      · simpa [LeftSorted] using h

theorem leftSorted_foldl (l : List Item) (acc : ItemSet) (h : LeftSorted acc) :
    LeftSorted (l.foldl ItemSet.insert acc) :=
  foldl_inv LeftSorted ItemSet.insert l acc h (fun b a _ hb => leftSorted_insert a b hb)

theorem leftSorted_hullAux (g : Grammar) (fi : FirstInfo) : ∀ (fuel : Nat) (work : List Item)
    (acc : ItemSet), LeftSorted acc → LeftSorted (hullAux g fi fuel work acc) := by
  intro fuel
  induction fuel with
  | zero => intro work acc h; simpa [hullAux] using h
  | succ fuel ih =>
    intro work acc h
    cases work with
    | nil => simpa [hullAux] using h
    | cons it work =>
      simp only [hullAux]
      exact ih _ _ (leftSorted_foldl _ _ h)

theorem leftSorted_hull (g : Grammar) (fi : FirstInfo) (I : List Item) : LeftSorted (hull g fi I) := by
  simp only [hull]
  apply leftSorted_hullAux
  exact leftSorted_foldl _ _ (by simp [LeftSorted])

/-! ### the augmented grammar, once more -/

theorem foldl_max_le : ∀ (l : List Nat) (init : Nat),
    init ≤ l.foldl max init ∧ ∀ a ∈ l, a ≤ l.foldl max init := by
  intro l
  induction l with
  | nil => intro init; exact ⟨Nat.le_refl _, fun a ha => by cases ha⟩
  | cons x xs ih =>
    intro init
    rw [List.foldl_cons]
    obtain ⟨h1, h2⟩ := ih (max init x)
    refine ⟨by omega, ?_⟩
    intro a ha
    simp only [List.mem_cons] at ha
    rcases ha with ha | ha
    · subst ha; omega
    · exact h2 a ha

theorem le_maxTerminal (g : Grammar) (a : Nat) (h : a ∈ g.terminals) : a ≤ g.maxTerminal :=
  (foldl_max_le g.terminals 0).2 a h

theorem augment_alts_E (g : Grammar) (start eof : Nat) (hg : g.Closed) :
    (g.augment start eof).alts (g.numNT + 1) = [[.t eof]] := by
  simp only [Grammar.alts, Grammar.augment, Grammar.add]
  rw [find_ins_eq]
  · simp
  · intro e he
    rcases keys_ins _ _ _ e he with h | ⟨e', he', h⟩
    · omega
    · have := (hg e' he').1
      omega

theorem eof_mem_terminals (g : Grammar) (start eof : Nat) (hg : g.Closed) :
    eof ∈ (g.augment start eof).terminals :=
  alts_terminal (g := g.augment start eof) (n := g.numNT + 1) (rhs := [.t eof])
    (by rw [augment_alts_E g start eof hg]; simp) (by simp)

/-! ### reachable states -/

section States
variable (g : Grammar) (start eof : Nat)

/-- what we know about the item set of a reachable state -/
structure StOK (I : ItemSet) : Prop where
  inU : ∀ it ∈ I, InU (g.augment start eof) it
  good : ∀ it ∈ I, Good g start eof it
  closed : ∀ it ∈ I, ∀ x ∈ closeItem (g.augment start eof) (firstSets (g.augment start eof)) it, x ∈ I
  sorted : LeftSorted I

theorem hull_ok (hg : g.Closed) (hs : start < g.numNT) (I : List Item)
    (hI : ∀ x ∈ I, InU (g.augment start eof) x ∧ Good g start eof x) :
    StOK g start eof (hull (g.augment start eof) (firstSets (g.augment start eof)) I) ∧
      ∀ x ∈ I, x ∈ hull (g.augment start eof) (firstSets (g.augment start eof)) I := by
  have hc := hull_closed' (g.augment start eof) I (fun x hx => (hI x hx).1)
  have hm := hull_mem (g.augment start eof) (firstSets (g.augment start eof))
    (fun x => InU (g.augment start eof) x ∧ Good g start eof x)
    (fun x => InU (g.augment start eof) x ∧ Good g start eof x) (fun _ h => h)
    (fun it hit x hx => ⟨inU_close _ it hit.1 x hx, (good_close g start eof _ hg hs hit.2 x hx).1⟩) I hI
  exact ⟨⟨fun it hit => (hm it hit).1, fun it hit => (hm it hit).2, hc.2, leftSorted_hull _ _ _⟩, hc.1⟩

/-- states reachable from state 0 along recorded transitions -/
inductive RS (S : List LRState) : Nat → Prop
  | zero : RS S 0
  | step {q q' : Nat} {st : LRState} {X : Sym} : RS S q → S[q]? = some st → (X, q') ∈ st.trans → RS S q'

theorem inU_adv {ga : Grammar} {it : Item} {X : Sym} (h : InU ga it) (hX : X ≠ .eps)
    (ha : ga.afterDot it = X) : InU ga (adv it) := by
  obtain ⟨h1, h2, h3⟩ := h
  have hget := afterDot_some ga it X hX ha
  have hlt : it.dot < (ga.rhs it).length := by
    rcases Nat.lt_or_ge it.dot (ga.rhs it).length with h | h
    · exact h
    · rw [List.getElem?_eq_none h] at hget; cases hget
  exact ⟨h1, by simp only [adv] at *; exact hlt, h3⟩

theorem jump_ok (hg : g.Closed) (hs : start < g.numNT) (I : ItemSet) (X : Sym) (hX : X ≠ .eps)
    (hI : StOK g start eof I) :
    StOK g start eof (jump (g.augment start eof) (firstSets (g.augment start eof)) I X) ∧
      ∀ it ∈ I, (g.augment start eof).afterDot it = X →
        adv it ∈ jump (g.augment start eof) (firstSets (g.augment start eof)) I X := by
  simp only [jump]
  have := hull_ok g start eof hg hs
    ((I.filter (fun it => (g.augment start eof).afterDot it = X)).map (fun it => { it with dot := it.dot + 1 }))
    (by
      intro x hx
      rcases List.mem_map.mp hx with ⟨it, hit, rfl⟩
      have hf := List.mem_filter.mp hit
      have ha : (g.augment start eof).afterDot it = X := by simpa using hf.2
      exact ⟨inU_adv (hI.inU it hf.1) hX ha, good_adv g start eof (hI.good it hf.1)⟩)
  refine ⟨this.1, ?_⟩
  intro it hit ha
  apply this.2
  exact List.mem_map.mpr ⟨it, List.mem_filter.mpr ⟨hit, by simpa using ha⟩, rfl⟩

theorem rs_ok (S : List LRState) (hg : g.Closed) (hs : start < g.numNT)
    (hS : CInv (g.augment start eof) (firstSets (g.augment start eof))
      (hull (g.augment start eof) (firstSets (g.augment start eof)) [⟨g.numNT, 0, 0, .t eof⟩]) S)
    {q : Nat} (hq : RS S q) : ∀ st, S[q]? = some st → StOK g start eof st.items := by
  induction hq with
  | zero =>
    intro st hst
    obtain ⟨_, st0, hst0, hh0⟩ := hS
    rw [hst0] at hst; cases hst
    rw [hh0]
    refine (hull_ok g start eof hg hs _ ?_).1
    intro x hx
    simp only [List.mem_singleton] at hx
    subst hx
    refine ⟨⟨by simp [augment_alts_S g start eof hg], by simp, eof, rfl, eof_mem_terminals g start eof hg⟩,
      ⟨by simp [augment_alts_S g start eof hg], Or.inr ⟨rfl, rfl⟩⟩⟩
  | @step q q' st X _ hq hX ih =>
    intro st' hst'
    obtain ⟨hXne, st'', hst'', hitems⟩ := hS.1 q st hq X q' hX
    rw [hst''] at hst'; cases hst'
    rw [hitems]
    exact (jump_ok g start eof hg hs st.items X hXne (ih st hq)).1

end States

/-! ## 6. forests, their yields and FIRST -/

mutual
def tsize : Tree → Nat
  | .leaf _ => 1
  | .node _ _ cs => fsize cs + 1
def fsize : Forest → Nat
  | .nil => 0
  | .cons t f => tsize t + fsize f + 1
end

theorem ofList_toList : ∀ f : Forest, Forest.ofList f.toList = f
  | .nil => rfl
  | .cons t f => by simp [Forest.toList, Forest.ofList, ofList_toList f]

theorem roots_length : ∀ f : Forest, f.roots.length = f.toList.length
  | .nil => rfl
  | .cons t f => by simp [Forest.toList, Forest.roots, roots_length f]

theorem fix_alt (G : Grammar) {n k : Nat} {rhs : List Sym} (hk : (G.alts n)[k]? = some rhs)
    (hn : n < G.numNT) :
    (∀ a ∈ (firstOfString (firstSets G) rhs).1, a ∈ (firstSets G).firstOf n) ∧
    ((firstOfString (firstSets G) rhs).2 = true → (firstSets G).nullOf n = true) := by
  have hmem : rhs ∈ G.alts n := List.mem_of_getElem? hk
  have hfix := firstSets_fix G
  constructor
  · intro a ha
    have : a ∈ (firstRound G (firstSets G)).firstOf n := by
      rw [round_firstOf hn, roundAcc, mem_foldl_stepF]
      exact Or.inr ⟨rhs, hmem, ha⟩
    rwa [hfix] at this
  · intro hr
    have : (firstRound G (firstSets G)).nullOf n = true := by
      rw [round_nullOf hn, roundAcc, null_foldl_stepF]
      exact Or.inr ⟨rhs, hmem, hr⟩
    rwa [hfix] at this

/-- the first terminal of the yield of a valid forest is in the computed FIRST of its roots,
    and an empty yield means the roots are computed nullable -/
theorem forest_first (g G : Grammar)
    (halts : ∀ (A k : Nat) (r : List Sym), (g.alts A)[k]? = some r → (G.alts A)[k]? = some r ∧ A < G.numNT) :
    ∀ (n : Nat) (cs : Forest), fsize cs ≤ n → cs.Valid g →
      (cs.yield = [] → (firstOfString (firstSets G) cs.roots).2 = true) ∧
      (∀ a w, cs.yield = a :: w → a ∈ (firstOfString (firstSets G) cs.roots).1) := by
  intro n
  induction n with
  | zero =>
    intro cs hsz _
    cases cs with
    | nil => simp [Forest.roots, Forest.yield, fos_nil]
    | cons t f => simp [fsize] at hsz
  | succ n ih =>
    intro cs hsz hv
    cases cs with
    | nil => simp [Forest.roots, Forest.yield, fos_nil]
    | cons t f =>
      simp only [fsize] at hsz
      simp only [Forest.Valid] at hv
      obtain ⟨ih1, ih2⟩ := ih f (by omega) hv.2
      cases t with
      | leaf a =>
        simp only [Forest.roots, Forest.yield, Tree.root, Tree.yield, fos_t]
        refine ⟨by simp, ?_⟩
        intro a' w h
        simp at h
        simp [h.1]
      | node A k cs1 =>
        simp only [tsize] at hsz
        simp only [Tree.Valid] at hv
        obtain ⟨hk, hA⟩ := halts A k _ hv.1.1
        obtain ⟨j1, j2⟩ := ih cs1 (by omega) hv.1.2
        obtain ⟨f1, f2⟩ := fix_alt G hk hA
        simp only [Forest.roots, Forest.yield, Tree.root, Tree.yield, fos_n]
        cases hy : cs1.yield with
        | nil =>
          have hnull := f2 (j1 hy)
          simp only [hnull, if_true, List.nil_append, mem_unionNat]
          exact ⟨ih1, fun a w h => Or.inr (ih2 a w h)⟩
        | cons a w =>
          have ha := f1 a (j2 a w hy)
          refine ⟨by simp, ?_⟩
          intro a' w' h
          simp only [List.cons_append, List.cons.injEq] at h
          rw [← h.1]
          split
          · rw [mem_unionNat]; exact Or.inl ha
          · exact ha

/-! ## 7. the driver follows any derivation tree -/

theorem drop_cons_get {α : Type} : ∀ (l : List α) (d : Nat) (x : α) (r : List α),
    l.drop d = x :: r → l[d]? = some x ∧ l.drop (d + 1) = r := by
  intro l
  induction l with
  | nil => intro d x r h; simp at h
  | cons y ys ih =>
    intro d x r h
    cases d with
    | zero => simp at h; simp [h.1, h.2]
    | succ d => simpa using ih d x r (by simpa using h)

theorem afterDot_of_get (ga : Grammar) (it : Item) (X : Sym) (h : (ga.rhs it)[it.dot]? = some X) :
    ga.afterDot it = X := by
  simp [Grammar.afterDot, h]

theorem mem_closeItem (ga : Grammar) (fi : FirstInfo) (it : Item) (A k : Nat) (la : Sym)
    (ha : ga.afterDot it = .n A) (hk : k < (ga.alts A).length)
    (hla : la ∈ firstSyms fi (((ga.rhs it).drop (it.dot + 1)) ++ [it.follow])) :
    (⟨A, k, 0, la⟩ : Item) ∈ closeItem ga fi it := by
  simp only [closeItem, ha, List.mem_flatMap, List.mem_range, List.mem_map]
  exact ⟨k, hk, la, hla, rfl⟩

section Run
variable (g : Grammar) (start eof : Nat) (pm : Bool) (S : List LRState) (T : Tables)

/-- everything the run lemma needs to know about the collection and the tables -/
structure Ctx : Prop where
  hg : g.Closed
  hs : start < g.numNT
  inv : CInv (g.augment start eof) (firstSets (g.augment start eof))
    (hull (g.augment start eof) (firstSets (g.augment start eof)) [⟨g.numNT, 0, 0, .t eof⟩]) S
  exp : ∀ (q : Nat) (st : LRState), S[q]? = some st → Expanded (g.augment start eof) st
  tab : ∀ (q : Nat) (st : LRState), S[q]? = some st → ∃ row grow, T.action[q]? = some row ∧
    T.goto[q]? = some grow ∧
    RowComplete (g.augment start eof) pm eof ((g.augment start eof).maxTerminal + 1) st row grow ∧
    RowOK (g.augment start eof) pm st row ∧ GrowOK st grow

variable {g start eof pm S T}

theorem Ctx.ok (C : Ctx g start eof pm S T) {q : Nat} {st : LRState} (hq : RS S q)
    (hst : S[q]? = some st) : StOK g start eof st.items :=
  rs_ok g start eof S C.hg C.hs C.inv hq st hst

theorem Ctx.has_trans (C : Ctx g start eof pm S T) {q : Nat} {st : LRState} {it : Item} {X : Sym}
    (hst : S[q]? = some st) (hit : it ∈ st.items) (hX : X ≠ .eps)
    (ha : (g.augment start eof).afterDot it = X) : ∃ j, (X, j) ∈ st.trans := by
  apply C.exp q st hst
  rw [← ha]
  exact mem_befores _ _ it hit (by rw [ha]; exact hX)

theorem Ctx.trans_step (C : Ctx g start eof pm S T) {q : Nat} {st : LRState} {it : Item} {X : Sym}
    (hq : RS S q) (hst : S[q]? = some st) (hit : it ∈ st.items)
    (ha : (g.augment start eof).afterDot it = X) {j : Nat} (hj : (X, j) ∈ st.trans) :
    ∃ st', S[j]? = some st' ∧ adv it ∈ st'.items ∧ RS S j := by
  obtain ⟨hXne, st', hst', hitems⟩ := C.inv.1 q st hst X j hj
  refine ⟨st', hst', ?_, RS.step hq hst hj⟩
  rw [hitems]
  exact (jump_ok g start eof C.hg C.hs st.items X hXne (C.ok hq hst)).2 it hit ha

theorem Ctx.terminal_lt (C : Ctx g start eof pm S T) {q : Nat} {st : LRState} {it : Item} {a : Nat}
    (hq : RS S q) (hst : S[q]? = some st) (hit : it ∈ st.items)
    (ha : Sym.t a ∈ (g.augment start eof).rhs it) : a < (g.augment start eof).maxTerminal + 1 := by
  have hu := (C.ok hq hst).inU it hit
  have := le_maxTerminal _ a (alts_terminal (List.mem_of_getElem? (rhs_get hu.1)) ha)
  omega

theorem Ctx.do_shift (C : Ctx g start eof pm S T) {q : Nat} {st : LRState} {it : Item} {a : Nat}
    (hq : RS S q) (hst : S[q]? = some st) (hit : it ∈ st.items)
    (ha : (g.augment start eof).afterDot it = .t a) (xs qs : List Nat) (vals : List Tree) :
    ∃ j st', Reach T ⟨a :: xs, q :: qs, vals⟩ ⟨xs, j :: q :: qs, Tree.leaf a :: vals⟩ ∧
      S[j]? = some st' ∧ adv it ∈ st'.items ∧ RS S j := by
  obtain ⟨j0, hj0⟩ := C.has_trans hst hit (by simp) ha
  obtain ⟨row, grow, hrow, _, hrc, hrok, _⟩ := C.tab q st hst
  have hget := afterDot_some _ it _ (by simp) ha
  have halt := C.terminal_lt hq hst hit (List.mem_of_getElem? hget)
  have hsh := hrc.shift a j0 hj0 halt
  cases hcell : cell row a with
  | shift j =>
    have hm : (Sym.t a, j) ∈ st.trans := by
      have := hrok a
      simp only [cell] at hcell
      rw [hcell] at this
      exact this
    obtain ⟨st', hst', hadv, hrs⟩ := C.trans_step hq hst hit ha hm
    exact ⟨j, st', reach_shift T q qs a xs vals row j hrow (by rw [hrc.len]; exact halt) hcell,
      hst', hadv, hrs⟩
  | err => rw [hcell] at hsh; cases hsh
  | reduce _ _ _ => rw [hcell] at hsh; cases hsh
  | accept => rw [hcell] at hsh; cases hsh

theorem Ctx.do_goto (C : Ctx g start eof pm S T) {q : Nat} {st : LRState} {it : Item} {A : Nat}
    (hq : RS S q) (hst : S[q]? = some st) (hit : it ∈ st.items)
    (ha : (g.augment start eof).afterDot it = .n A) :
    ∃ (j : Nat) (grow : List Int) (st' : LRState), T.goto[q]? = some grow ∧ grow[A]? = some (j : Int) ∧
      S[j]? = some st' ∧ adv it ∈ st'.items ∧ RS S j := by
  obtain ⟨j0, hj0⟩ := C.has_trans hst hit (by simp) ha
  obtain ⟨row, grow, _, hgrow, hrc, _, hgok⟩ := C.tab q st hst
  have hget := afterDot_some _ it _ (by simp) ha
  have hA : A < g.numNT :=
    good_rhs_sym g start eof C.hg C.hs ((C.ok hq hst).good it hit) _ (List.mem_of_getElem? hget) A rfl
  obtain ⟨j, hj⟩ := hrc.goto A j0 hj0 (by rw [augment_numNT]; omega)
  have hm : (Sym.n A, j) ∈ st.trans := by
    have := hgok A j hj (by omega)
    simpa using this
  obtain ⟨st', hst', hadv, hrs⟩ := C.trans_step hq hst hit ha hm
  exact ⟨j, grow, st', hgrow, hj, hst', hadv, hrs⟩

theorem Ctx.halts (C : Ctx g start eof pm S T) : ∀ (A k : Nat) (r : List Sym),
    (g.alts A)[k]? = some r →
      ((g.augment start eof).alts A)[k]? = some r ∧ A < (g.augment start eof).numNT := by
  intro A k r h
  have hA : A < g.numNT := alts_lhs_lt C.hg (List.mem_of_getElem? h)
  rw [augment_alts_lt g start eof A hA, augment_numNT]
  exact ⟨h, by omega⟩

/-- the lookahead needed to run a subtree below `it` exists in the closure -/
theorem Ctx.lookahead (C : Ctx g start eof pm S T) {q : Nat} {st : LRState} {it : Item}
    (hq : RS S q) (hst : S[q]? = some st) (hit : it ∈ st.items) (cs' : Forest) (hv : cs'.Valid g)
    (hdrop : ((g.augment start eof).rhs it).drop (it.dot + 1) = cs'.roots)
    (c : Nat) (rest : List Nat) (hc : c < (g.augment start eof).maxTerminal + 1)
    (hacts : ActsOn pm eof it c) :
    ∃ c1 rest1 la, cs'.yield ++ c :: rest = c1 :: rest1 ∧
      la ∈ firstSyms (firstSets (g.augment start eof))
        ((((g.augment start eof).rhs it).drop (it.dot + 1)) ++ [it.follow]) ∧
      (la.index = c1 ∨ (la.index = eof ∧ pm = true)) ∧ c1 < (g.augment start eof).maxTerminal + 1 := by
  obtain ⟨ff1, ff2⟩ := forest_first g (g.augment start eof) C.halts _ cs' (Nat.le_refl _) hv
  obtain ⟨h1, _, b, hb, hbt⟩ := (C.ok hq hst).inU it hit
  rw [hdrop]
  cases hy : cs'.yield with
  | nil =>
    refine ⟨c, rest, it.follow, by simp, ?_, hacts, hc⟩
    rw [hb, mem_firstSyms_t, mem_fos_append]
    exact Or.inr ⟨ff1 hy, by simp [fos_t]⟩
  | cons a w =>
    have ha := ff2 a w hy
    refine ⟨a, w ++ c :: rest, .t a, by simp, ?_, Or.inl rfl, ?_⟩
    · rw [mem_firstSyms_t, mem_fos_append]
      exact Or.inl ha
    · have : a ∈ (g.augment start eof).terminals := by
        refine fos_terminals (firstSets_terminals _) _ ?_ a ha
        intro i hi
        rw [← hdrop] at hi
        exact alts_terminal (List.mem_of_getElem? (rhs_get h1)) (List.mem_of_mem_drop hi)
      have := le_maxTerminal _ a this
      omega

theorem run_forest (C : Ctx g start eof pm S T) : ∀ (n : Nat) (cs : Forest), fsize cs ≤ n → cs.Valid g →
    ∀ (q : Nat) (qs : List Nat) (vals : List Tree) (rest : List Nat) (c : Nat) (st : LRState) (it : Item),
      RS S q → S[q]? = some st → it ∈ st.items →
      ((g.augment start eof).rhs it).drop it.dot = cs.roots →
      c < (g.augment start eof).maxTerminal + 1 → ActsOn pm eof it c →
      ∃ q' stk' st', Reach T ⟨cs.yield ++ c :: rest, q :: qs, vals⟩
          ⟨c :: rest, q' :: stk', cs.toList.reverse ++ vals⟩ ∧
        (q' :: stk').drop cs.toList.length = q :: qs ∧ RS S q' ∧ S[q']? = some st' ∧
        (⟨it.left, it.alt, it.dot + cs.toList.length, it.follow⟩ : Item) ∈ st'.items := by
  intro n
  induction n with
  | zero =>
    intro cs hsz _ q qs vals rest c st it hq hst hit _ _ _
    cases cs with
    | cons t f => simp [fsize] at hsz
    | nil =>
      exact ⟨q, qs, st, by simpa [Forest.yield, Forest.toList] using Reach.refl T _,
        by simp [Forest.toList], hq, hst, by simpa [Forest.toList] using hit⟩
  | succ n ih =>
    intro cs hsz hv q qs vals rest c st it hq hst hit hdrop hc hacts
    cases cs with
    | nil =>
      exact ⟨q, qs, st, by simpa [Forest.yield, Forest.toList] using Reach.refl T _,
        by simp [Forest.toList], hq, hst, by simpa [Forest.toList] using hit⟩
    | cons t cs' =>
      simp only [fsize] at hsz
      simp only [Forest.Valid] at hv
      simp only [Forest.roots] at hdrop
      obtain ⟨hget, hdrop'⟩ := drop_cons_get _ _ _ _ hdrop
      have hafter := afterDot_of_get _ it _ hget
      have hactsAdv : ActsOn pm eof (adv it) c := hacts
      have hfinal : ∀ (j : Nat) (stj : LRState), S[j]? = some stj → adv it ∈ stj.items → RS S j →
          Reach T ⟨(Forest.cons t cs').yield ++ c :: rest, q :: qs, vals⟩
            ⟨cs'.yield ++ c :: rest, j :: q :: qs, t :: vals⟩ →
          ∃ q' stk' st', Reach T ⟨(Forest.cons t cs').yield ++ c :: rest, q :: qs, vals⟩
              ⟨c :: rest, q' :: stk', (Forest.cons t cs').toList.reverse ++ vals⟩ ∧
            (q' :: stk').drop (Forest.cons t cs').toList.length = q :: qs ∧ RS S q' ∧
            S[q']? = some st' ∧
            (⟨it.left, it.alt, it.dot + (Forest.cons t cs').toList.length, it.follow⟩ : Item) ∈ st'.items := by
        intro j stj hstj hadv hrsj hreach
        obtain ⟨q', stk', st', r2, hd2, hrs2, hst2, hit2⟩ :=
          ih cs' (by omega) hv.2 j (q :: qs) (t :: vals) rest c stj (adv it) hrsj hstj hadv
            hdrop' hc hactsAdv
        refine ⟨q', stk', st', ?_, ?_, hrs2, hst2, ?_⟩
        · have := Reach.trans hreach r2
          simpa [Forest.toList] using this
        · simp only [Forest.toList, List.length_cons]
          exact (drop_cons_get _ _ _ _ hd2).2
        · simp only [Forest.toList, List.length_cons]
          have e : it.dot + (cs'.toList.length + 1) = (adv it).dot + cs'.toList.length := by
            simp only [adv]; omega
          rw [e]; exact hit2
      cases t with
      | leaf a =>
        simp only [Tree.root] at hafter
        obtain ⟨j, stj, r1, hstj, hadv, hrsj⟩ :=
          C.do_shift hq hst hit hafter (cs'.yield ++ c :: rest) qs vals
        exact hfinal j stj hstj hadv hrsj (by simpa [Forest.yield, Tree.yield] using r1)
      | node A1 k1 cs1 =>
        simp only [tsize] at hsz
        simp only [Tree.Valid] at hv
        simp only [Tree.root] at hafter
        obtain ⟨hga, hA1'⟩ := C.halts A1 k1 _ hv.1.1
        have hA1 : A1 < g.numNT := alts_lhs_lt C.hg (List.mem_of_getElem? hv.1.1)
        obtain ⟨c1, rest1, la, hsplit, hla, hactsx, hc1⟩ :=
          C.lookahead hq hst hit cs' hv.2 hdrop' c rest hc hacts
        have hk1 : k1 < ((g.augment start eof).alts A1).length := by
          rcases Nat.lt_or_ge k1 ((g.augment start eof).alts A1).length with h | h
          · exact h
          · rw [List.getElem?_eq_none h] at hga; cases hga
        have hx : (⟨A1, k1, 0, la⟩ : Item) ∈ st.items :=
          (C.ok hq hst).closed it hit _ (mem_closeItem _ _ it A1 k1 la hafter hk1 hla)
        have hrhsx : ∀ d f, (g.augment start eof).rhs ⟨A1, k1, d, f⟩ = cs1.roots := by
          intro d f; simp [Grammar.rhs, hga]
        obtain ⟨qn, stkn, stn, r1, hd1, hrsn, hstn, hitn⟩ :=
          ih cs1 (by omega) hv.1.2 q qs vals rest1 c1 st ⟨A1, k1, 0, la⟩ hq hst hx
            (by rw [hrhsx]; rfl) hc1 hactsx
        simp only [Nat.zero_add] at hitn
        -- the reduction
        obtain ⟨rown, _, hrown, _, hrcn, _, _⟩ := C.tab qn stn hstn
        have hlen : cs1.toList.length = cs1.roots.length := (roots_length cs1).symm
        have hcelln := hrcn.reduce _ hitn (by rw [hrhsx]; exact hlen)
          (by simp only [augment_numNT]; omega) c1 hc1 hactsx
        rw [hrhsx] at hcelln
        obtain ⟨j, grow, stj, hgrow, hj, hstj, hadv, hrsj⟩ := C.do_goto hq hst hit hafter
        have r2 := reach_reduce T qn stkn c1 rest1 (cs1.toList.reverse ++ vals) rown A1 k1
          cs1.roots.length q qs grow (j : Int) hrown (by rw [hrcn.len]; exact hc1) hcelln
          (by simp [hlen]) (by rw [← hlen]; exact hd1) hgrow hj (by omega)
        have htake : nodeAct A1 k1 ((cs1.toList.reverse ++ vals).take cs1.roots.length) =
            Tree.node A1 k1 cs1 := by
          rw [← hlen, List.take_left' (by simp)]
          simp [ofList_toList]
        have hdropv : (cs1.toList.reverse ++ vals).drop cs1.roots.length = vals := by
          rw [← hlen, List.drop_left' (by simp)]
        rw [htake, hdropv] at r2
        apply hfinal j stj hstj hadv hrsj
        have e1 : (Forest.cons (Tree.node A1 k1 cs1) cs').yield ++ c :: rest =
            cs1.yield ++ c1 :: rest1 := by
          simp only [Forest.yield, Tree.yield, List.append_assoc, hsplit]
        rw [e1, hsplit]
        simpa using Reach.trans r1 r2

end Run

/-! ## 8. completeness -/

theorem ctx_of (g : Grammar) (start eof : Nat) (pm : Bool) (sfuel : Nat)
    (hg : g.Closed) (hs : start < g.numNT)
    (hc : (genTables g start eof pm sfuel).1.conflicts = [])
    (hf : (genTables g start eof pm sfuel).2 < sfuel) :
    Ctx g start eof pm
      (collection (g.augment start eof) (firstSets (g.augment start eof)) g.numNT eof sfuel)
      (genTables g start eof pm sfuel).1 := by
  refine ⟨hg, hs, collection_inv _ _ _ _ _, ?_, ?_⟩
  · exact collection_exp _ _ _ _ _ hf
  · intro q st hq
    obtain ⟨row, grow, h1, h2, h3⟩ := genTables_complete g start eof pm sfuel hc q st hq
    have hok := genTables_ok g start eof pm sfuel
    obtain ⟨st1, hs1, hr1⟩ := hok.1 q row h1
    obtain ⟨st2, hs2, hr2⟩ := hok.2 q grow h2
    rw [hq] at hs1 hs2
    cases hs1; cases hs2
    exact ⟨row, grow, h1, h2, h3, hr1, hr2⟩

theorem complete_run (g : Grammar) (start eof : Nat) (pm : Bool) (sfuel : Nat) (t : Tree)
    (c : Nat) (rest : List Nat) (hg : g.Closed) (hs : start < g.numNT)
    (ht : t.Valid g) (hr : t.root = .n start)
    (hcw : c < (g.augment start eof).maxTerminal + 1) (hcol : c = eof ∨ pm = true)
    (hc : (genTables g start eof pm sfuel).1.conflicts = [])
    (hf : (genTables g start eof pm sfuel).2 < sfuel) :
    ∃ fuel, run (genTables g start eof pm sfuel).1 fuel (t.yield ++ c :: rest) [0] [] = .accept t := by
  have C := ctx_of g start eof pm sfuel hg hs hc hf
  obtain ⟨_, st0, hst0, hh0⟩ := C.inv
  have hinitU : InU (g.augment start eof) ⟨g.numNT, 0, 0, .t eof⟩ ∧ Good g start eof ⟨g.numNT, 0, 0, .t eof⟩ :=
    ⟨⟨by simp [augment_alts_S g start eof hg], by simp, eof, rfl, eof_mem_terminals g start eof hg⟩,
      ⟨by simp [augment_alts_S g start eof hg], Or.inr ⟨rfl, rfl⟩⟩⟩
  have hinit : (⟨g.numNT, 0, 0, .t eof⟩ : Item) ∈ st0.items := by
    rw [hh0]
    exact (hull_ok g start eof hg hs [⟨g.numNT, 0, 0, .t eof⟩]
      (by intro x hx; simp only [List.mem_singleton] at hx; subst hx; exact hinitU)).2 _ (by simp)
  have hrhs : ∀ d f, (g.augment start eof).rhs ⟨g.numNT, 0, d, f⟩ = [.n start] := by
    intro d f; simp [Grammar.rhs, augment_alts_S g start eof hg]
  obtain ⟨q', stk', st', r1, _, hrs', hst', hit'⟩ :=
    run_forest C _ (Forest.cons t .nil) (Nat.le_refl _) (by simp [Forest.Valid, ht]) 0 [] [] rest c st0
      ⟨g.numNT, 0, 0, .t eof⟩ RS.zero hst0 hinit (by rw [hrhs]; simp [Forest.roots, hr]) hcw
      (by
        rcases hcol with h | h
        · exact Or.inl (by simp [Sym.index, h])
        · exact Or.inr ⟨by simp [Sym.index], h⟩)
  simp only [Forest.toList, List.length_cons, List.length_nil, Nat.zero_add, Forest.yield,
    List.append_nil, List.reverse_cons, List.reverse_nil, List.nil_append] at r1 hit'
  obtain ⟨row, _, hrow, _, hrc, _, _⟩ := C.tab q' st' hst'
  obtain ⟨l1, l2, hsplit⟩ := List.append_of_mem hit'
  have hok := C.ok hrs' hst'
  have hl2 : ∀ y ∈ l2, y.left = (g.augment start eof).numNT - 2 := by
    intro y hy
    have hsorted := hok.sorted
    rw [hsplit] at hsorted
    simp only [LeftSorted, List.pairwise_append, List.pairwise_cons] at hsorted
    have h1 : g.numNT ≤ y.left := hsorted.2.1.1 y hy
    have h2 := (hok.good y (by rw [hsplit]; simp [hy])).left_ok
    rw [augment_numNT]
    omega
  have hcell := hrc.accept l1 _ l2 hsplit (by rw [hrhs]; rfl) (by rw [augment_numNT]; simp) hl2 c hcw
    (by
      rcases hcol with h | h
      · exact Or.inl (by simp [Sym.index, h])
      · exact Or.inr ⟨by simp [Sym.index], h⟩)
  exact reach_accept r1 row hrow (by rw [hrc.len]; exact hcw) hcell

theorem complete_full (g : Grammar) (start eof sfuel : Nat) (t : Tree)
    (hg : g.Closed) (hs : start < g.numNT) (ht : t.Valid g) (hr : t.root = .n start)
    (hc : (tablesOf g start eof false sfuel).conflicts = [])
    (hf : (genTables g start eof false sfuel).2 < sfuel) :
    ∃ fuel, lrParseTree (tablesOf g start eof false sfuel) fuel (t.yield ++ [eof]) = .accept t := by
  have hcw : eof < (g.augment start eof).maxTerminal + 1 := by
    have := le_maxTerminal _ eof (eof_mem_terminals g start eof hg)
    omega
  exact complete_run g start eof false sfuel t eof [] hg hs ht hr hcw (Or.inl rfl) hc hf

theorem complete_prefix (g : Grammar) (start eof sfuel : Nat) (t : Tree) (a : Nat) (rest : List Nat)
    (hg : g.Closed) (hs : start < g.numNT) (ht : t.Valid g) (hr : t.root = .n start)
    (ha : a ≤ (g.augment start eof).maxTerminal)
    (hc : (tablesOf g start eof true sfuel).conflicts = [])
    (hf : (genTables g start eof true sfuel).2 < sfuel) :
    ∃ fuel, lrParseTree (tablesOf g start eof true sfuel) fuel (t.yield ++ a :: rest) = .accept t :=
  complete_run g start eof true sfuel t a rest hg hs ht hr (by omega) (Or.inr rfl) hc hf

theorem fuel_mono (T : Tables) (fuel k : Nat) (inp : List Nat) (r : ParseOut Tree)
    (h : lrParseTree T fuel inp = r) (hr : r ≠ .fuelOut) : lrParseTree T (fuel + k) inp = r :=
  run_fuel_mono T k fuel inp [0] [] r h hr

/-- two accepting runs on the same input return the same tree -/
theorem accept_unique (T : Tables) (inp : List Nat) (f1 f2 : Nat) (t1 t2 : Tree)
    (h1 : lrParseTree T f1 inp = .accept t1) (h2 : lrParseTree T f2 inp = .accept t2) : t1 = t2 := by
  have e1 := fuel_mono T f1 f2 inp _ h1 (by simp)
  have e2 := fuel_mono T f2 f1 inp _ h2 (by simp)
  rw [Nat.add_comm, e1] at e2
  cases e2; rfl

end LRComplete
end Theo
