/-
  Selection and splicing lemmas for `applyMacros` (C09, C12).
-/
import Theo.Proofs.MacroProofs

namespace Theo

/-! ### `detectFrom` / `detect` -/

theorem detectFrom_some (d : Detector) : ∀ (ts : List Token) (i : Nat) (r : Response),
    detectFrom d ts i = some r →
    ∃ k a, k < ts.length ∧ r.location = i + k ∧ detectAt d (ts.drop k) = some a ∧
      checkConstraint d.md a.split = true ∧ r.length = a.total.length ∧ r.matched = a.split ∧
      ∀ j, j < k → ∀ a', detectAt d (ts.drop j) = some a' → checkConstraint d.md a'.split = false := by
  intro ts
  induction ts with
  | nil => intro i r h; simp [detectFrom] at h
  | cons t ts ih =>
    intro i r h
    have step : detectFrom d ts (i + 1) = some r →
        (∀ a', detectAt d (t :: ts) = some a' → checkConstraint d.md a'.split = false) →
        ∃ k a, k < (t :: ts).length ∧ r.location = i + k ∧ detectAt d ((t :: ts).drop k) = some a ∧
          checkConstraint d.md a.split = true ∧ r.length = a.total.length ∧ r.matched = a.split ∧
          ∀ j, j < k → ∀ a', detectAt d ((t :: ts).drop j) = some a' →
            checkConstraint d.md a'.split = false := by
      intro h' h0
      obtain ⟨k, a, hk, hl, ha, hc, hlen, hm, hmin⟩ := ih (i + 1) r h'
      refine ⟨k + 1, a, by simp only [List.length_cons]; omega, by omega, by simpa using ha, hc, hlen, hm, ?_⟩
      intro j hj a' ha'
      cases j with
      | zero => exact h0 a' (by simpa using ha')
      | succ j => exact hmin j (by omega) a' (by simpa using ha')
    rw [detectFrom] at h
    split at h
    · rename_i a ha
      split at h
      · rename_i hc
        cases h
        exact ⟨0, a, by simp, rfl, by simpa using ha, hc, rfl, rfl, by intro j hj; omega⟩
      · rename_i hc
        refine step h ?_
        intro a' ha'
        rw [ha] at ha'
        cases ha'
        simpa using hc
    · rename_i ha
      refine step h ?_
      intro a' ha'
      rw [ha] at ha'
      cases ha'

theorem detectFrom_none (d : Detector) : ∀ (ts : List Token) (i : Nat),
    detectFrom d ts i = none ↔
      ∀ k, k < ts.length → ∀ a, detectAt d (ts.drop k) = some a → checkConstraint d.md a.split = false := by
  intro ts
  induction ts with
  | nil => intro i; simp [detectFrom]
  | cons t ts ih =>
    intro i
    have key : ∀ (P0 : Prop), (P0 ↔ ∀ a, detectAt d (t :: ts) = some a → checkConstraint d.md a.split = false) →
        ((P0 ∧ detectFrom d ts (i + 1) = none) ↔
          ∀ k, k < (t :: ts).length → ∀ a, detectAt d ((t :: ts).drop k) = some a →
            checkConstraint d.md a.split = false) := by
      intro P0 hP0
      rw [ih (i + 1), hP0]
      constructor
      · rintro ⟨h0, hs⟩ k hk a ha
        cases k with
        | zero => exact h0 a (by simpa using ha)
        | succ k => exact hs k (by simp only [List.length_cons] at hk; omega) a (by simpa using ha)
      · intro hall
        refine ⟨fun a ha => hall 0 (by simp) a (by simpa using ha), fun k hk a ha => ?_⟩
        exact hall (k + 1) (by simp only [List.length_cons]; omega) a (by simpa using ha)
    rw [detectFrom]
    split
    · rename_i a ha
      split
      · rename_i hc
        constructor
        · intro h; cases h
        · intro hall
          have := hall 0 (by simp) a (by simpa using ha)
          rw [hc] at this
          cases this
      · rename_i hc
        rw [← key True]
        · simp
        · simp only [true_iff]
          intro a' ha'
          rw [ha] at ha'
          cases ha'
          simpa using hc
    · rename_i ha
      rw [← key True]
      · simp
      · simp only [true_iff]
        intro a' ha'
        rw [ha] at ha'
        cases ha'

theorem detect_leftmost (d : Detector) (inp : List Token) (r : Response) (h : detect d inp = some r) :
    r.location < inp.length ∧
    (∃ a, detectAt d (inp.drop r.location) = some a ∧ checkConstraint d.md a.split = true ∧
          r.length = a.total.length ∧ r.matched = a.split) ∧
    (∀ i, i < r.location → ∀ a, detectAt d (inp.drop i) = some a → checkConstraint d.md a.split = false) := by
  obtain ⟨k, a, hk, hl, ha, hc, hlen, hm, hmin⟩ := detectFrom_some d inp 0 r h
  have hlk : r.location = k := by omega
  rw [hlk]
  exact ⟨hk, ⟨a, ha, hc, hlen, hm⟩, hmin⟩

theorem detect_none (d : Detector) (inp : List Token) :
    detect d inp = none ↔
      ∀ i, i < inp.length → ∀ a, detectAt d (inp.drop i) = some a → checkConstraint d.md a.split = false :=
  detectFrom_none d inp 0

/-! ### `pickBest` -/

/-- `b` is at least as good as `y`: further left, or same start and at least as long -/
def Response.dom (b y : Response) : Prop :=
  b.location < y.location ∨ (b.location = y.location ∧ y.length ≤ b.length)

theorem Response.dom_refl (a : Response) : a.dom a := Or.inr ⟨rfl, Nat.le_refl _⟩

theorem Response.dom_trans {a b c : Response} (h1 : a.dom b) (h2 : b.dom c) : a.dom c := by
  unfold Response.dom at *
  omega

theorem Response.dom_of_better {a b : Response} (h : a.better b = true) : a.dom b := by
  simp only [Response.better, Bool.or_eq_true, Bool.and_eq_true, beq_iff_eq, decide_eq_true_eq] at h
  unfold Response.dom
  omega

theorem Response.dom_of_not_better {a b : Response} (h : ¬ a.better b = true) : b.dom a := by
  simp only [Response.better, Bool.or_eq_true, Bool.and_eq_true, beq_iff_eq, decide_eq_true_eq] at h
  unfold Response.dom
  omega

theorem foldl_best (xs : List (Detector × Response)) : ∀ (x : Detector × Response),
    (xs.foldl (fun best y => if y.2.better best.2 then y else best) x = x ∨
      xs.foldl (fun best y => if y.2.better best.2 then y else best) x ∈ xs) ∧
    (xs.foldl (fun best y => if y.2.better best.2 then y else best) x).2.dom x.2 ∧
    ∀ y ∈ xs, (xs.foldl (fun best y => if y.2.better best.2 then y else best) x).2.dom y.2 := by
  induction xs with
  | nil => intro x; exact ⟨Or.inl rfl, Response.dom_refl _, by simp⟩
  | cons y ys ih =>
    intro x
    simp only [List.foldl_cons]
    by_cases hb : y.2.better x.2 = true
    · rw [if_pos hb]
      obtain ⟨h1, h2, h3⟩ := ih y
      refine ⟨?_, Response.dom_trans h2 (Response.dom_of_better hb), ?_⟩
      · rcases h1 with h1 | h1
        · right; rw [h1]; simp
        · right; exact List.mem_cons_of_mem _ h1
      · intro z hz
        rcases List.mem_cons.mp hz with rfl | hz
        · exact h2
        · exact h3 z hz
    · rw [if_neg hb]
      obtain ⟨h1, h2, h3⟩ := ih x
      refine ⟨?_, h2, ?_⟩
      · rcases h1 with h1 | h1
        · left; exact h1
        · right; exact List.mem_cons_of_mem _ h1
      · intro z hz
        rcases List.mem_cons.mp hz with rfl | hz
        · exact Response.dom_trans h2 (Response.dom_of_not_better hb)
        · exact h3 z hz

theorem pickBest_some {l : List (Detector × Response)} {b : Detector × Response}
    (h : pickBest l = some b) : b ∈ l ∧ ∀ y ∈ l, b.2.dom y.2 := by
  cases l with
  | nil => simp [pickBest] at h
  | cons x xs =>
    simp only [pickBest, Option.some.injEq] at h
    obtain ⟨h1, h2, h3⟩ := foldl_best xs x
    rw [h] at h1 h2 h3
    refine ⟨?_, ?_⟩
    · rcases h1 with h1 | h1
      · rw [h1]; simp
      · exact List.mem_cons_of_mem _ h1
    · intro y hy
      rcases List.mem_cons.mp hy with rfl | hy
      · exact h2
      · exact h3 y hy

theorem pickBest_none {l : List (Detector × Response)} : pickBest l = none ↔ l = [] := by
  cases l <;> simp [pickBest]

/-! ### `applyStep` -/

theorem mem_detections {b : List Detector} {inp : List Token} {d : Detector} {r : Response} :
    (d, r) ∈ b.filterMap (fun d => (detect d inp).map (fun r => (d, r))) ↔ d ∈ b ∧ detect d inp = some r := by
  simp only [List.mem_filterMap, Option.map_eq_some_iff, Prod.mk.injEq]
  constructor
  · rintro ⟨d', hd', r', hr', rfl, rfl⟩
    exact ⟨hd', hr'⟩
  · rintro ⟨hd, hr⟩
    exact ⟨d, hd, r, hr, rfl, rfl⟩

theorem detections_nil {b : List Detector} {inp : List Token} :
    b.filterMap (fun d => (detect d inp).map (fun r => (d, r))) = [] ↔ ∀ d ∈ b, detect d inp = none := by
  simp only [List.filterMap_eq_nil_iff, Option.map_eq_none_iff]

/-- full description of a step: the deciding bin, the silent bins before it, the choice in it -/
theorem applyStep_some (bs : List (List Detector)) (inp : List Token) (p : Nat)
    (d : Detector) (r : Response) (out : List Token) (h : applyStep bs inp p = some (d, r, out)) :
    ∃ pre b post, bs = pre ++ b :: post ∧ (∀ b' ∈ pre, ∀ d' ∈ b', detect d' inp = none) ∧
      d ∈ b ∧ detect d inp = some r ∧
      out = inp.take r.location ++ replacement d.md r p ++ inp.drop (r.location + r.length) ∧
      ∀ d' ∈ b, ∀ r', detect d' inp = some r' → r.dom r' := by
  induction bs with
  | nil => simp [applyStep] at h
  | cons b rest ih =>
    rw [applyStep] at h
    split at h
    · rename_i d0 r0 hpb
      simp only [Option.some.injEq, Prod.mk.injEq] at h
      obtain ⟨rfl, rfl, rfl⟩ := h
      obtain ⟨hmem, hdom⟩ := pickBest_some hpb
      rw [mem_detections] at hmem
      refine ⟨[], b, rest, rfl, by simp, hmem.1, hmem.2, rfl, ?_⟩
      intro d' hd' r' hr'
      exact hdom (d', r') (mem_detections.mpr ⟨hd', hr'⟩)
    · rename_i hpb
      rw [pickBest_none, detections_nil] at hpb
      obtain ⟨pre, b0, post, hbs, hpre, rest'⟩ := ih h
      refine ⟨b :: pre, b0, post, by rw [hbs]; rfl, ?_, rest'⟩
      intro b' hb'
      rcases List.mem_cons.mp hb' with rfl | hb'
      · exact hpb
      · exact hpre b' hb'

theorem applyStep_none (bs : List (List Detector)) (inp : List Token) (p : Nat) :
    applyStep bs inp p = none ↔ ∀ b ∈ bs, ∀ d ∈ b, detect d inp = none := by
  induction bs with
  | nil => simp [applyStep]
  | cons b rest ih =>
    rw [applyStep]
    split
    · rename_i d0 r0 hpb
      obtain ⟨hmem, _⟩ := pickBest_some hpb
      rw [mem_detections] at hmem
      constructor
      · intro h; cases h
      · intro hall
        have := hall b (by simp) d0 hmem.1
        rw [hmem.2] at this
        cases this
    · rename_i hpb
      rw [pickBest_none, detections_nil] at hpb
      rw [ih]
      constructor
      · intro hall b' hb'
        rcases List.mem_cons.mp hb' with rfl | hb'
        · exact hpb
        · exact hall b' hb'
      · intro hall b' hb'
        exact hall b' (List.mem_cons_of_mem _ hb')

/-! ### sorting the priorities -/

theorem sortedInsert_gt (x : Int) : ∀ (l : List Int), l.Pairwise (· > ·) →
    (sortedInsert (fun a b => decide (a > b)) false x l).Pairwise (· > ·) ∧
    ∀ y, y ∈ sortedInsert (fun a b => decide (a > b)) false x l ↔ y = x ∨ y ∈ l := by
  intro l
  induction l with
  | nil => intro _; simp [sortedInsert]
  | cons z zs ih =>
    intro hp
    rw [List.pairwise_cons] at hp
    obtain ⟨hz, hzs⟩ := hp
    obtain ⟨ih1, ih2⟩ := ih hzs
    simp only [sortedInsert, decide_eq_true_eq]
    by_cases h1 : x > z
    · rw [if_pos h1]
      refine ⟨?_, by simp⟩
      rw [List.pairwise_cons]
      refine ⟨?_, List.pairwise_cons.mpr ⟨hz, hzs⟩⟩
      intro a ha
      rcases List.mem_cons.mp ha with rfl | ha
      · exact h1
      · have := hz a ha; omega
    · rw [if_neg h1]
      by_cases h2 : z > x
      · rw [if_pos h2]
        refine ⟨?_, ?_⟩
        · rw [List.pairwise_cons]
          refine ⟨?_, ih1⟩
          intro a ha
          rcases (ih2 a).mp ha with rfl | ha
          · exact h2
          · exact hz a ha
        · intro y
          simp only [List.mem_cons, ih2]
          constructor
          · rintro (h | h | h)
            · exact Or.inr (Or.inl h)
            · exact Or.inl h
            · exact Or.inr (Or.inr h)
          · rintro (h | h | h)
            · exact Or.inr (Or.inl h)
            · exact Or.inl h
            · exact Or.inr (Or.inr h)
      · rw [if_neg h2]
        have hxz : x = z := by omega
        subst hxz
        simp only [Bool.false_eq_true, if_false]
        refine ⟨List.pairwise_cons.mpr ⟨hz, hzs⟩, ?_⟩
        intro y
        simp only [List.mem_cons]
        constructor
        · rintro (h | h)
          · exact Or.inl h
          · exact Or.inr (Or.inr h)
        · rintro (h | h | h)
          · exact Or.inl h
          · exact Or.inl h
          · exact Or.inr h

theorem foldl_sortedInsert_gt (l : List Int) : ∀ (acc : List Int), acc.Pairwise (· > ·) →
    (l.foldl (fun acc x => sortedInsert (fun a b => decide (a > b)) false x acc) acc).Pairwise (· > ·) ∧
    ∀ y, y ∈ l.foldl (fun acc x => sortedInsert (fun a b => decide (a > b)) false x acc) acc ↔
      y ∈ acc ∨ y ∈ l := by
  induction l with
  | nil => intro acc h; simp [h]
  | cons x xs ih =>
    intro acc hacc
    obtain ⟨s1, s2⟩ := sortedInsert_gt x acc hacc
    obtain ⟨i1, i2⟩ := ih _ s1
    simp only [List.foldl_cons]
    refine ⟨i1, ?_⟩
    intro y
    rw [i2, s2, List.mem_cons]
    constructor
    · rintro ((h | h) | h)
      · exact Or.inr (Or.inl h)
      · exact Or.inl h
      · exact Or.inr (Or.inr h)
    · rintro (h | h | h)
      · exact Or.inl (Or.inr h)
      · exact Or.inl (Or.inl h)
      · exact Or.inr h

theorem insertionSort_gt (l : List Int) :
    (insertionSort (fun a b => decide (a > b)) l).Pairwise (· > ·) ∧
    ∀ y, y ∈ insertionSort (fun a b => decide (a > b)) l ↔ y ∈ l := by
  obtain ⟨h1, h2⟩ := foldl_sortedInsert_gt l [] List.Pairwise.nil
  exact ⟨h1, fun y => by rw [insertionSort, h2]; simp⟩

/-! ### `bins` -/

/-- the sorted list of distinct priorities -/
def prios (ds : List Detector) : List Int :=
  insertionSort (fun a b => decide (a > b)) ((ds.map (·.md.priority)).eraseDups)

theorem bins_eq (ds : List Detector) :
    bins ds = (prios ds).map (fun p => ds.filter (fun d => d.md.priority = p)) := rfl

theorem prios_sorted (ds : List Detector) : (prios ds).Pairwise (· > ·) :=
  (insertionSort_gt _).1

theorem mem_prios (ds : List Detector) (p : Int) : p ∈ prios ds ↔ ∃ d ∈ ds, d.md.priority = p := by
  rw [prios, (insertionSort_gt _).2, List.mem_eraseDups, List.mem_map]

theorem mem_bins_mem {ds : List Detector} {b : List Detector} (hb : b ∈ bins ds) {d : Detector}
    (hd : d ∈ b) : d ∈ ds := by
  rw [bins_eq, List.mem_map] at hb
  obtain ⟨p, _, rfl⟩ := hb
  exact (List.mem_filter.mp hd).1

/-- decomposition of `bins ds` around a bin -/
theorem bins_split {ds : List Detector} {pre post : List (List Detector)} {b : List Detector}
    (h : bins ds = pre ++ b :: post) :
    ∃ ppre p ppost, prios ds = ppre ++ p :: ppost ∧
      pre = ppre.map (fun p => ds.filter (fun d => d.md.priority = p)) ∧
      b = ds.filter (fun d => d.md.priority = p) := by
  rw [bins_eq, List.map_eq_append_iff] at h
  obtain ⟨l1, l2, hl, h1, h2⟩ := h
  rw [List.map_eq_cons_iff] at h2
  obtain ⟨p, l3, rfl, hp, _⟩ := h2
  exact ⟨l1, p, l3, hl, h1.symm, hp.symm⟩

theorem applyStep_bins (ds : List Detector) (inp : List Token) (p : Nat)
    (d : Detector) (r : Response) (out : List Token) (h : applyStep (bins ds) inp p = some (d, r, out)) :
    (∀ d' ∈ ds, (detect d' inp).isSome = true → d'.md.priority ≤ d.md.priority) ∧
    (∀ d' ∈ ds, d'.md.priority = d.md.priority → ∀ r', detect d' inp = some r' → r.dom r') := by
  obtain ⟨pre, b, post, hbs, hpre, hdb, _, _, hdom⟩ := applyStep_some _ _ _ _ _ _ h
  obtain ⟨ppre, q, ppost, hpr, rfl, rfl⟩ := bins_split hbs
  have hdq : d.md.priority = q := by
    have := (List.mem_filter.mp hdb).2
    simpa using this
  constructor
  · intro d' hd' hsome
    have hmem : d'.md.priority ∈ prios ds := (mem_prios ds _).mpr ⟨d', hd', rfl⟩
    have hsorted := prios_sorted ds
    rw [hpr] at hmem hsorted
    rw [List.pairwise_append] at hsorted
    obtain ⟨_, hs2, _⟩ := hsorted
    rw [List.pairwise_cons] at hs2
    rcases List.mem_append.mp hmem with hm | hm
    · exfalso
      have := hpre (ds.filter (fun d => d.md.priority = d'.md.priority))
        (List.mem_map.mpr ⟨_, hm, rfl⟩) d' (List.mem_filter.mpr ⟨hd', by simp⟩)
      rw [this] at hsome
      cases hsome
    · rcases List.mem_cons.mp hm with hm | hm
      · omega
      · have := hs2.1 _ hm
        omega
  · intro d' hd' hpq r' hr'
    exact hdom d' (List.mem_filter.mpr ⟨hd', by simp [hpq, hdq]⟩) r' hr'

/-! ### `applyMacros`: errors and independence of rejected definitions -/

/-- the non-linear verdicts, in definition order -/
def nonLRErrs (defs : List MacroDef) : List PErr :=
  (defs.map mkDetector).filterMap (fun d =>
    if d.usable then none
    else some ⟨PErrT.MACRO_COMPILE_NON_LR, (d.md.rule.head?.getD default).file,
               (d.md.rule.head?.getD default).line, []⟩)

theorem applyMacros_errs (inp : List Token) (defs : List MacroDef) (passes : Nat) :
    ∃ tl, (applyMacros inp defs passes).errs = nonLRErrs defs ++ tl ∧
      ∀ e ∈ tl, e.kind = PErrT.MACRO_APPLY_REACHED_MAX_PASSES := by
  have key : ∀ (x : List Token × Nat × Bool),
      ∃ tl, (if x.2.2 = true then nonLRErrs defs ++ [⟨PErrT.MACRO_APPLY_REACHED_MAX_PASSES, bDash, -1, []⟩]
             else nonLRErrs defs) = nonLRErrs defs ++ tl ∧
        ∀ e ∈ tl, e.kind = PErrT.MACRO_APPLY_REACHED_MAX_PASSES := by
    intro x
    cases x.2.2 with
    | false => exact ⟨[], by simp, by simp⟩
    | true => exact ⟨[⟨PErrT.MACRO_APPLY_REACHED_MAX_PASSES, bDash, -1, []⟩], by simp, by simp⟩
  cases passes with
  | zero => exact key (inp, 0, false)
  | succ k => exact key (passLoop (bins ((defs.map mkDetector).filter (·.usable))) (k + 1) 0 inp 0)

theorem mem_nonLRErrs (defs : List MacroDef) (m : MacroDef) (hm : m ∈ defs)
    (hc : (mkDetector m).usable = false) :
    (⟨PErrT.MACRO_COMPILE_NON_LR, (m.rule.head?.getD default).file,
      (m.rule.head?.getD default).line, []⟩ : PErr) ∈ nonLRErrs defs := by
  simp only [nonLRErrs, List.mem_filterMap, List.mem_map]
  exact ⟨mkDetector m, ⟨m, hm, rfl⟩, by rw [hc]; rfl⟩

theorem nonLRErrs_filter (defs : List MacroDef) :
    ((nonLRErrs defs).filter (fun e => decide (e.kind = PErrT.MACRO_COMPILE_NON_LR))).map
        (fun e => (e.file, e.line)) =
      (defs.filter (fun m => !(mkDetector m).usable)).map
        (fun m => ((m.rule.head?.getD default).file, (m.rule.head?.getD default).line)) := by
  induction defs with
  | nil => rfl
  | cons m ms ih =>
    simp only [nonLRErrs, List.map_cons, List.filterMap_cons] at ih ⊢
    cases hu : (mkDetector m).usable with
    | true => simpa [hu] using ih
    | false =>
      simp only [hu, Bool.false_eq_true, if_false, List.filter_cons, decide_true, if_true,
        List.map_cons, Bool.not_false]
      rw [ih]
      rfl

theorem usable_filter_eq (defs : List MacroDef) :
    ((defs.filter (fun m => (mkDetector m).usable)).map mkDetector).filter (·.usable) =
      (defs.map mkDetector).filter (·.usable) := by
  induction defs with
  | nil => rfl
  | cons m ms ih =>
    cases hu : (mkDetector m).usable with
    | true => simp [hu, ih]
    | false => simp [hu, ih]

theorem applyMacros_independent (inp : List Token) (defs : List MacroDef) (passes : Nat) :
    (applyMacros inp defs passes).toks =
      (applyMacros inp (defs.filter (fun m => (mkDetector m).usable)) passes).toks ∧
    (applyMacros inp defs passes).rewrites =
      (applyMacros inp (defs.filter (fun m => (mkDetector m).usable)) passes).rewrites := by
  cases passes with
  | zero => exact ⟨rfl, rfl⟩
  | succ k =>
    rw [applyMacros_succ_toks, applyMacros_succ_toks, applyMacros_succ_rewrites,
      applyMacros_succ_rewrites, usable_filter_eq]
    exact ⟨rfl, rfl⟩

theorem step_usable (defs : List MacroDef) (inp : List Token) (p : Nat)
    (d : Detector) (r : Response) (out : List Token)
    (h : applyStep (bins ((defs.map mkDetector).filter (·.usable))) inp p = some (d, r, out)) :
    d.tables.conflicts = [] ∧ d.md ∈ defs := by
  obtain ⟨pre, b, post, hbs, _, hdb, _⟩ := applyStep_some _ _ _ _ _ _ h
  have hb : b ∈ bins ((defs.map mkDetector).filter (·.usable)) := by rw [hbs]; simp
  have hd := mem_bins_mem hb hdb
  rw [List.mem_filter, List.mem_map] at hd
  obtain ⟨⟨m, hm, rfl⟩, hu⟩ := hd
  refine ⟨?_, hm⟩
  simpa [Detector.usable] using hu

end Theo
