/-
  C03 for the generator, part 7: from the layout of the code before backpatching (`PFacts`: the
  finished routines, the root pieces between them, the main body and the final HALT) to the local
  well-formedness (`LocalWF`) of the backpatched program, with the frame-size and routine-id
  functions read off the routine table.
-/
import Theo.Proofs.GenWFTop
import Theo.Proofs.GenWFPatch

namespace Theo
namespace GenWF

def inR (r : Rt) (pc : Nat) : Bool := decide (r.entry ≤ pc) && decide (pc ≤ r.ret)

def frOf (rts : List Rt) (FR : Nat) (pc : Nat) : Nat :=
  match rts.find? (fun r => inR r pc) with
  | some r => r.frame
  | none => FR

def rdOf (rts : List Rt) (pc : Nat) : Nat :=
  match rts.find? (fun r => inR r pc) with
  | some r => r.id
  | none => rts.length

theorem find_in {rts : List Rt}
    (hord : ∀ (j k : Nat) (rj rk : Rt), j < k → rts[j]? = some rj → rts[k]? = some rk → rj.ret + 1 < rk.entry)
    {k : Nat} {r : Rt} {pc : Nat} (hr : rts[k]? = some r) (h1 : r.entry ≤ pc) (h2 : pc ≤ r.ret) :
    rts.find? (fun r => inR r pc) = some r := by
  cases hf : rts.find? (fun r => inR r pc) with
  | none =>
    have := List.find?_eq_none.1 hf r (List.mem_of_getElem? hr)
    simp [inR, h1, h2] at this
  | some r' =>
    have hp := List.find?_some hf
    have hm := List.mem_of_find?_eq_some hf
    obtain ⟨k', hk'⟩ := List.mem_iff_getElem?.1 hm
    simp only [inR, Bool.and_eq_true, decide_eq_true_eq] at hp
    rcases Nat.lt_trichotomy k' k with h | h | h
    · have := hord k' k r' r h hk' hr; omega
    · subst h; rw [hr] at hk'; exact hk'.symm
    · have := hord k k' r r' h hr hk'; omega

theorem find_out {rts : List Rt} {pc : Nat} (h : ∀ r ∈ rts, ¬ (r.entry ≤ pc ∧ pc ≤ r.ret)) :
    rts.find? (fun r => inR r pc) = none := by
  rw [List.find?_eq_none]
  intro r hr
  simp only [inR, Bool.and_eq_true, decide_eq_true_eq]
  exact h r hr

theorem mapOK_intro (p : Program) (idx : Int) (cnt : Nat) (sm : StackMap) (h0 : 0 ≤ idx)
    (h : p.stackMaps[idx.toNat]? = some sm) (hr : ∀ e ∈ sm.map, RegIn e.1 cnt) : mapOK p idx cnt = true := by
  unfold mapOK
  rw [h]
  simp only [Bool.and_eq_true, decide_eq_true_eq]
  refine ⟨h0, ?_⟩
  rw [List.all_eq_true]
  intro e he
  exact (hr e he).regOK

/-- the layout of the code before backpatching -/
structure PFacts (P : List Instr) (L : List Int) (td : List Nat) (SM : List StackMap) (rts : List Rt)
    (n0 : Nat) (seg : List Instr) (FR lo0 : Nat) : Prop where
  head : P[0]? = some (Instr.prepare (FR : Int) (rts.length : Int) 0)
  rt : ∀ (k : Nat) (r : Rt), rts[k]? = some r → RtOK P L td SM rts k r
  rlt : ∀ (k : Nat) (r : Rt), rts[k]? = some r → r.ret < n0
  ord : ∀ (j k : Nat) (rj rk : Rt), j < k → rts[j]? = some rj → rts[k]? = some rk → rj.ret + 1 < rk.entry
  cnt : ∀ (k : Nat) (r : Rt), rts[k]? = some r → countRet P r.entry = k
  cntAll : countRet P P.length = rts.length
  root : ∀ pc, 1 ≤ pc → pc < n0 → (∀ r ∈ rts, ¬ (r.entry ≤ pc ∧ pc ≤ r.ret)) →
    P[pc]? = some Instr.potBreak ∨ ∃ r ∈ rts, pc + 1 = r.entry
  n0pos : 1 ≤ n0
  len : P.length = n0 + seg.length + 1
  main : ∀ k, k < seg.length → P[n0 + k]? = seg[k]?
  halt : P[n0 + seg.length]? = some Instr.halt
  mgroups : Groups (Callee rts rts.length) FR lo0 L.length seg
  mlabs : ∀ l : Nat, lo0 ≤ l → l < L.length → ∃ k : Nat, k ≤ seg.length ∧
    L[l]? = some (((n0 + k : Nat)) : Int) ∧ ∀ i, seg[k]? = some i → notAE i = true
  rootmap : ∃ sm, SM[rts.length]? = some sm ∧ ∀ e ∈ sm.map, RegIn e.1 FR

section
variable {P F : List Instr} {L : List Int} {td : List Nat} {SM : List StackMap} {rts : List Rt}
  {n0 : Nat} {seg : List Instr} {FR lo0 : Nat} {pb : List (BreakPoint × List Int)} {li : List (Int × BreakPoint)}

/-- what is known about a routine that may be called from routine `K` -/
structure CalleeFacts (P F : List Instr) (SM : List StackMap) (rts : List Rt) (FR : Nat) (j : Nat) (r : Rt) : Prop where
  e1 : 1 ≤ r.entry
  elt : r.entry < F.length
  fr : frOf rts FR r.entry = r.frame
  rd : rdOf rts r.entry = j
  plain : Plain F r.entry
  cnt : countRet F r.entry = j
  smap : ∃ sm, SM[j]? = some sm ∧ ∀ e ∈ sm.map, RegIn e.1 r.frame

/-- the instructions of one `Groups` segment `sg` at `[a, a + sg.length)`, all of activation
    `(Fk, K)`, followed by a plain instruction of the same activation -/
theorem seg_pcwf (hsame : SameCode P F)
    (a : Nat) (sg post : List Instr) (K Fk lo hi R : Nat) (ha : 1 ≤ a)
    (hdec : P = P.take a ++ sg ++ post) (hal : a ≤ P.length)
    (hpost : ∀ i, post[0]? = some i → notAE i = true) (hpne : post ≠ [])
    (hg : Groups (Callee rts K) Fk lo hi sg)
    (hreg : ∀ pc, a ≤ pc → pc ≤ a + sg.length → frOf rts FR pc = Fk ∧ rdOf rts pc = K)
    (hlab : ∀ l : Nat, lo ≤ l → l < hi → ∃ x : Nat, a ≤ x ∧ x ≤ a + sg.length ∧ L[l]? = some ((x : Nat) : Int) ∧ Plain P x)
    (hcal : ∀ (j : Nat) (r : Rt), j < K → rts[j]? = some r → CalleeFacts P F SM rts FR j r) :
    ∀ k ins, sg[k]? = some ins →
      PcWF ⟨F, SM, pb, li⟩ (frOf rts FR) (rdOf rts) R (a + k) (patch L (a + k) ins) := by
  intro k ins hk
  have hklt : k < sg.length := (List.getElem?_eq_some_iff.1 hk).1
  have htl : (P.take a).length = a := by simp; omega
  have hPlen : P.length = a + sg.length + post.length := by
    have := congrArg List.length hdec
    simp only [List.length_append, htl] at this
    exact this
  have hpostlen : 0 < post.length := List.length_pos_iff.2 hpne
  have hFlen : F.length = P.length := hsame.length
  have gf := hg.facts (P.take a) post hpost k ins hk
  rw [← hdec, htl] at gf
  have hnext : Next F (frOf rts FR) (rdOf rts) (a + k) := by
    obtain ⟨f1, f2⟩ := hreg (a + k) (by omega) (by omega)
    obtain ⟨g1, g2⟩ := hreg (a + k + 1) (by omega) (by omega)
    exact ⟨by omega, by rw [f1, g1], by rw [f2, g2]⟩
  have hfr := (hreg (a + k) (by omega) (by omega)).1
  have hrd := (hreg (a + k) (by omega) (by omega)).2
  have hjump : ∀ l : Int, LabIn l lo hi →
      JumpOK F (frOf rts FR) (rdOf rts) (a + k) ((L[l.toNat]?).getD (-1) - ((a + k : Nat) : Int)) := by
    intro l hl
    obtain ⟨n, rfl, n1, n2⟩ := hl
    obtain ⟨x, x1, x2, x3, x4⟩ := hlab n n1 n2
    rw [Int.toNat_natCast, x3]
    obtain ⟨g1, g2⟩ := hreg x x1 x2
    exact ⟨x, by simp; omega, by omega, by omega, by rw [g1, hfr], by rw [g2, hrd], hsame.plain x4⟩
  cases ins with
  | potBreak => exact ⟨hnext, hsame.plain gf⟩
  | brk => exact gf
  | halt => trivial
  | add t s c =>
    obtain ⟨g1, g2, g3⟩ := gf
    exact ⟨by rw [hfr]; exact g1.regOK, by rw [hfr]; exact g2.regOK, hnext, hsame.plain g3⟩
  | const t c =>
    obtain ⟨g1, g3⟩ := gf
    exact ⟨by rw [hfr]; exact g1.regOK, hnext, hsame.plain g3⟩
  | test t x y =>
    obtain ⟨g1, g2, g4, g3⟩ := gf
    exact ⟨by rw [hfr]; exact g1.regOK, by rw [hfr]; exact g2.regOK, by rw [hfr]; exact g4.regOK, hnext,
      hsame.plain g3⟩
  | jmp l => exact hjump l gf
  | jmpc l s =>
    obtain ⟨g1, g2, g3⟩ := gf
    exact ⟨by rw [hfr]; exact g2.regOK, hjump l g1, hnext, hsame.plain g3⟩
  | ret s => exact gf.elim
  | prepare cnt idx tgt =>
    obtain ⟨p, ⟨j, r, j1, j2, j3, j4, j5, j6⟩, rfl, rfl, g1, g2⟩ := gf
    have cf := hcal j r j1 j2
    obtain ⟨sm, s1, s2⟩ := cf.smap
    refine ⟨by omega, by omega, by rw [hfr]; exact g1.regOK, ?_, by rw [hrd, j3]; simpa using j1, hnext,
      hsame.inside g2⟩
    refine mapOK_intro _ _ _ sm (by omega) (by rw [j3]; simpa using s1) ?_
    intro e he
    have := s2 e he
    rw [j5]; simpa using this
  | arg t s =>
    obtain ⟨p, ⟨j, r, j1, j2, j3, j4, j5, j6⟩, g0, g1, g2, g3, g4⟩ := gf
    refine ⟨p.stackSize, p.mi, by rw [hsame.prepBefore]; exact g0, ?_, by rw [hfr]; exact g3.regOK, hnext,
      hsame.inside g4⟩
    have : RegIn t p.stackSize := ⟨g1, by omega⟩
    simpa using this.regOK
  | exec en =>
    obtain ⟨p, ⟨j, r, j1, j2, j3, j4, j5, j6⟩, g0, g1, g2⟩ := gf
    have cf := hcal j r j1 j2
    refine ⟨p.stackSize, p.mi, by rw [hsame.prepBefore]; exact g0, by rw [hrd, j3]; simpa using j1, ?_, hnext,
      hsame.plain g2⟩
    refine ⟨r.entry, by rw [g1, j4], cf.e1, cf.elt, by rw [cf.fr, j5]; simp, by rw [cf.rd, j3]; simp, cf.plain, ?_⟩
    show retsBefore F en = _
    rw [g1, j4, retsBefore_eq, cf.cnt, j3]; simp

theorem hF_sameCode (hF : ∀ pc, F[pc]? = (P[pc]?).map (patch L pc)) : SameCode P F := by
  intro pc
  rw [hF pc]
  cases hc : P[pc]? with
  | none => exact Or.inl ⟨rfl, rfl⟩
  | some i => exact Or.inr ⟨i, _, rfl, rfl, patch_sameKind _ _ _⟩

theorem localWF_of_facts (hf : PFacts P L td SM rts n0 seg FR lo0)
    (hF : ∀ pc, F[pc]? = (P[pc]?).map (patch L pc)) (hsites : sitesOKb ⟨F, SM, pb, li⟩ = true) :
    LocalWF ⟨F, SM, pb, li⟩ (frOf rts FR) (rdOf rts) rts.length := by
  have hsame : SameCode P F := hF_sameCode hF
  have hFlen : F.length = P.length := hsame.length
  have hlen := hf.len
  -- regions
  have hin : ∀ (k : Nat) (r : Rt) (pc : Nat), rts[k]? = some r → r.entry ≤ pc → pc ≤ r.ret →
      frOf rts FR pc = r.frame ∧ rdOf rts pc = k := by
    intro k r pc hr h1 h2
    unfold frOf rdOf
    rw [find_in hf.ord hr h1 h2]
    exact ⟨rfl, (hf.rt k r hr).id⟩
  have hout : ∀ pc, (∀ r ∈ rts, ¬ (r.entry ≤ pc ∧ pc ≤ r.ret)) → frOf rts FR pc = FR ∧ rdOf rts pc = rts.length := by
    intro pc h
    unfold frOf rdOf
    rw [find_out h]
    exact ⟨rfl, rfl⟩
  have hmainroot : ∀ pc, n0 ≤ pc → ∀ r ∈ rts, ¬ (r.entry ≤ pc ∧ pc ≤ r.ret) := by
    intro pc hpc r hr
    obtain ⟨k, hk⟩ := List.mem_iff_getElem?.1 hr
    have := hf.rlt k r hk
    omega
  -- plain positions of the root prefix
  have hsegplain : Plain P n0 := by
    intro i hi
    by_cases h0 : 0 < seg.length
    · have := hf.main 0 h0
      rw [Nat.add_zero] at this
      rw [this] at hi
      exact hf.mgroups.head i hi
    · have : seg.length = 0 := by omega
      have hh := hf.halt
      rw [this, Nat.add_zero, hi] at hh
      rw [Option.some.inj hh]; rfl
  have hrootplain : ∀ x, 1 ≤ x → x ≤ n0 → (∀ r ∈ rts, ¬ (r.entry ≤ x ∧ x ≤ r.ret)) → Plain P x := by
    intro x h1 h2 h3
    by_cases hx : x = n0
    · rw [hx]; exact hsegplain
    · intro i hi
      rcases hf.root x h1 (by omega) h3 with h4 | ⟨r, hr, h4⟩
      · rw [h4] at hi; rw [← Option.some.inj hi]; rfl
      · obtain ⟨k, hk⟩ := List.mem_iff_getElem?.1 hr
        have hj := (hf.rt k r hk).jmp
        have : r.entry - 1 = x := by omega
        rw [this, hi] at hj
        rw [Option.some.inj hj]; rfl
  -- the callee facts
  have hcal : ∀ (j : Nat) (r : Rt), rts[j]? = some r → CalleeFacts P F SM rts FR j r := by
    intro j r hr
    have ok := hf.rt j r hr
    obtain ⟨f1, f2⟩ := hin j r r.entry hr (Nat.le_refl _) ok.er
    refine ⟨by have := ok.e2; omega, by rw [hFlen]; have := ok.rl; have := ok.er; omega, f1, f2, ?_, ?_, ok.smap⟩
    · apply hsame.plain
      intro i hi
      by_cases hlt : r.entry < r.ret
      · have hs : (slice P r.entry r.ret)[0]? = some i := by
          rw [slice_getElem?, if_pos (by omega), Nat.add_zero]; exact hi
        exact ok.groups.head i hs
      · have : r.entry = r.ret := by have := ok.er; omega
        obtain ⟨s, hs1, _⟩ := ok.retI
        rw [← this, hi] at hs1
        rw [Option.some.inj hs1]; rfl
    · rw [hsame.countRet]; exact hf.cnt j r hr
  refine ⟨?_, ?_, ?_, ?_, ?_, hsites⟩
  · -- head
    have h0 : F[0]? = some (Instr.prepare (FR : Int) (rts.length : Int) 0) := by
      rw [hF 0, hf.head]; rfl
    obtain ⟨sm, s1, s2⟩ := hf.rootmap
    have h1root : ∀ r ∈ rts, ¬ (r.entry ≤ 1 ∧ 1 ≤ r.ret) := by
      intro r hr
      obtain ⟨k, hk⟩ := List.mem_iff_getElem?.1 hr
      have := (hf.rt k r hk).e2
      omega
    cases hFc : F with
    | nil => rw [hFc] at h0; simp at h0
    | cons x rest =>
      rw [hFc] at h0
      simp at h0
      subst h0
      refine ⟨(FR : Int), (rts.length : Int), 0, rest, rfl, by omega, ?_, by simp [(hout 1 h1root).1]⟩
      exact mapOK_intro _ _ _ sm (by omega) (by simpa using s1) (by simpa using s2)
  · -- last
    rw [List.getLast?_eq_getElem?, hFlen, hlen]
    have : n0 + seg.length + 1 - 1 = n0 + seg.length := by omega
    rw [this, hF, hf.halt]; rfl
  · -- root id
    have h1root : ∀ r ∈ rts, ¬ (r.entry ≤ 1 ∧ 1 ≤ r.ret) := by
      intro r hr
      obtain ⟨k, hk⟩ := List.mem_iff_getElem?.1 hr
      have := (hf.rt k r hk).e2
      omega
    refine ⟨(hout 1 h1root).2, ?_⟩
    show rts.length = retsBefore F (F.length : Int)
    rw [retsBefore_eq, hsame.countRet, hFlen, hf.cntAll]
  · -- pc 1 is plain
    apply hsame.plain
    refine hrootplain 1 (Nat.le_refl _) hf.n0pos ?_
    intro r hr
    obtain ⟨k, hk⟩ := List.mem_iff_getElem?.1 hr
    have := (hf.rt k r hk).e2
    omega
  · -- every pc
    intro pc ins hpc1 hins
    have hpclt : pc < P.length := by
      have h' : pc < F.length := (List.getElem?_eq_some_iff.1 hins).1
      omega
    show PcWF ⟨F, SM, pb, li⟩ (frOf rts FR) (rdOf rts) rts.length pc ins
    obtain ⟨i0, hi0, rfl⟩ : ∃ i0, P[pc]? = some i0 ∧ ins = patch L pc i0 := by
      have := hF pc
      rw [hins] at this
      cases hp : P[pc]? with
      | none => rw [hp] at this; cases this
      | some i0 => rw [hp] at this; exact ⟨i0, rfl, (Option.some.inj this)⟩
    by_cases hmain : n0 ≤ pc
    · -- main body or the final HALT
      by_cases hlast : pc = n0 + seg.length
      · rw [hlast, hf.halt] at hi0
        rw [← Option.some.inj hi0]
        trivial
      · have hk : pc = n0 + (pc - n0) := by omega
        have hklt : pc - n0 < seg.length := by omega
        have hdec : P = P.take n0 ++ seg ++ [Instr.halt] := by
          apply List.ext_getElem?
          intro i
          by_cases h1 : i < n0
          · rw [List.append_assoc, List.getElem?_append_left (by simp; omega), List.getElem?_take, if_pos h1]
          · have htl : (P.take n0).length = n0 := by simp; omega
            rw [List.append_assoc, List.getElem?_append_right (by omega), htl]
            by_cases h2 : i - n0 < seg.length
            · rw [List.getElem?_append_left h2, ← hf.main _ h2]; congr 1; omega
            · rw [List.getElem?_append_right (by omega)]
              by_cases h3 : i = n0 + seg.length
              · rw [h3, hf.halt]; simp
              · rw [List.getElem?_eq_none (by omega), List.getElem?_eq_none (by simp; omega)]
        rw [hk] at hi0 ⊢
        rw [hf.main _ hklt] at hi0
        refine seg_pcwf hsame n0 seg [Instr.halt] rts.length FR lo0 L.length rts.length hf.n0pos hdec (by omega)
          (by intro i hi; simp at hi; rw [← hi]; rfl) (by simp) hf.mgroups
          (fun x h1 _ => hout x (hmainroot x h1)) ?_ (fun j r _ hr => hcal j r hr) _ _ hi0
        intro l h1 h2
        obtain ⟨k, k1, k2, k3⟩ := hf.mlabs l h1 h2
        refine ⟨n0 + k, by omega, by omega, k2, ?_⟩
        intro i hi
        by_cases hk' : k < seg.length
        · rw [hf.main k hk'] at hi; exact k3 i hi
        · have : k = seg.length := by omega
          rw [this, hf.halt] at hi
          rw [← Option.some.inj hi]; rfl
    · -- before the main body
      have hpcn : pc < n0 := by omega
      by_cases hreg : ∃ r ∈ rts, r.entry ≤ pc ∧ pc ≤ r.ret
      · obtain ⟨r, hr, h1, h2⟩ := hreg
        obtain ⟨k, hk⟩ := List.mem_iff_getElem?.1 hr
        have ok := hf.rt k r hk
        obtain ⟨f1, f2⟩ := hin k r pc hk h1 h2
        by_cases hret : pc = r.ret
        · obtain ⟨s, hs1, hs2⟩ := ok.retI
          rw [hret, hs1] at hi0
          rw [← Option.some.inj hi0]
          show regOK s (frOf rts FR pc) = true ∧ rdOf rts pc < rts.length
          rw [f1, f2]
          exact ⟨hs2.regOK, (List.getElem?_eq_some_iff.1 hk).1⟩
        · have hkk : pc = r.entry + (pc - r.entry) := by omega
          have hdec : P = P.take r.entry ++ slice P r.entry r.ret ++ P.drop r.ret := slice_decomp P _ _ ok.er
          obtain ⟨s, hs1, _⟩ := ok.retI
          have hsl : (slice P r.entry r.ret).length = r.ret - r.entry := slice_length _ _ _ (by have := ok.rl; omega)
          have hsg : (slice P r.entry r.ret)[pc - r.entry]? = some i0 := by
            rw [slice_getElem?, if_pos (by omega), ← hkk]; exact hi0
          rw [hkk]
          refine seg_pcwf hsame r.entry (slice P r.entry r.ret) (P.drop r.ret) k r.frame r.lo r.hi rts.length
            (by have := ok.e2; omega) hdec (by have := ok.rl; omega) ?_ ?_ ok.groups ?_ ?_
            (fun j x _ hx => hcal j x hx) _ _ hsg
          · intro i hi
            rw [List.getElem?_drop, Nat.add_zero, hs1] at hi
            rw [← Option.some.inj hi]; rfl
          · intro h0
            have := congrArg List.length h0
            simp at this
            have := ok.rl
            omega
          · intro x x1 x2
            exact hin k r x hk x1 (by rw [hsl] at x2; omega)
          · intro l l1 l2
            obtain ⟨x, x1, x2, x3, x4⟩ := ok.labs l l1 l2
            exact ⟨x, x1, by rw [hsl]; omega, x3, x4⟩
      · -- a root piece between the routines
        have hroot : ∀ r ∈ rts, ¬ (r.entry ≤ pc ∧ pc ≤ r.ret) := fun r hr hh => hreg ⟨r, hr, hh⟩
        obtain ⟨f1, f2⟩ := hout pc hroot
        rcases hf.root pc hpc1 hpcn hroot with h4 | ⟨r, hr, h4⟩
        · rw [h4] at hi0
          rw [← Option.some.inj hi0]
          show Next F (frOf rts FR) (rdOf rts) pc ∧ Plain F (pc + 1)
          have hroot' : ∀ r ∈ rts, ¬ (r.entry ≤ pc + 1 ∧ pc + 1 ≤ r.ret) := by
            intro r hr hh
            obtain ⟨k, hk⟩ := List.mem_iff_getElem?.1 hr
            have hj := (hf.rt k r hk).jmp
            have he2 := (hf.rt k r hk).e2
            have : r.entry = pc + 1 := by
              have := hroot r hr
              omega
            have e : r.entry - 1 = pc := by omega
            rw [e, h4] at hj
            cases hj
          obtain ⟨g1, g2⟩ := hout (pc + 1) hroot'
          exact ⟨⟨by rw [hFlen]; omega, by rw [g1, f1], by rw [g2, f2]⟩,
            hsame.plain (hrootplain (pc + 1) (by omega) (by omega) hroot')⟩
        · obtain ⟨k, hk⟩ := List.mem_iff_getElem?.1 hr
          have ok := hf.rt k r hk
          have hj := ok.jmp
          have e : r.entry - 1 = pc := by omega
          rw [e, hi0] at hj
          rw [Option.some.inj hj]
          show JumpOK F (frOf rts FR) (rdOf rts) pc _
          rw [Int.toNat_natCast, ok.after]
          have hroot' : ∀ r' ∈ rts, ¬ (r'.entry ≤ r.ret + 1 ∧ r.ret + 1 ≤ r'.ret) := by
            intro r' hr' hh
            obtain ⟨k', hk'⟩ := List.mem_iff_getElem?.1 hr'
            rcases Nat.lt_trichotomy k' k with hlt | heq | hgt
            · have := hf.ord k' k r' r hlt hk' hk
              have := ok.er
              omega
            · subst heq
              rw [hk] at hk'
              have := Option.some.inj hk'
              subst this
              omega
            · have := hf.ord k k' r r' hgt hk hk'
              omega
          obtain ⟨g1, g2⟩ := hout (r.ret + 1) hroot'
          have hrl := hf.rlt k r hk
          exact ⟨r.ret + 1, by simp; omega, by omega, by rw [hFlen]; omega, by rw [g1, f1], by rw [g2, f2],
            hsame.plain (hrootplain (r.ret + 1) (by omega) (by omega) hroot')⟩

end

end GenWF
end Theo
