/-
  C01, part 3: the register assignment of a routine (stack map) against the environments of the
  reference semantics.
-/
import Theo.Proofs.SimShape
import Theo.Proofs.SimDigits

set_option linter.unusedSimpArgs false

namespace Theo
namespace Sim
open Sem

/-! ### environments -/

theorem find_filter_ne {α β : Type} [DecidableEq α] (ρ : List (α × β)) {x y : α} (h : y ≠ x) :
    (ρ.filter (fun e => e.1 ≠ x)).find? (fun e => e.1 = y) = ρ.find? (fun e => e.1 = y) := by
  induction ρ with
  | nil => rfl
  | cons e ρ ih =>
    rw [List.filter_cons]
    by_cases he : e.1 = x
    · have hy : ¬ e.1 = y := by rw [he]; exact fun h' => h h'.symm
      rw [if_neg (by simp [he])]
      simp only [List.find?_cons, hy, decide_false]
      exact ih
    · rw [if_pos (by simp [he])]
      by_cases hy : e.1 = y
      · simp only [List.find?_cons, hy, decide_true]
      · simp only [List.find?_cons, hy, decide_false]
        exact ih

theorem env_get_set_same (ρ : Env) (x : Name) (v : Nat) : (Env.set ρ x v).get x = v := by
  simp [Env.set, Env.get, List.find?_cons]

theorem env_get_set_other (ρ : Env) {x y : Name} (v : Nat) (h : y ≠ x) :
    (Env.set ρ x v).get y = ρ.get y := by
  have hx : ¬ x = y := fun h' => h h'.symm
  simp only [Env.set, Env.get, List.find?_cons, hx, decide_false]
  rw [find_filter_ne ρ h]

theorem ctrs_get_set_same (κ : Ctrs) (i : Nat) (v : Nat) : (Ctrs.set κ i v).get i = v := by
  simp [Ctrs.set, Ctrs.get, List.find?_cons]

theorem ctrs_get_set_other (κ : Ctrs) {i j : Nat} (v : Nat) (h : j ≠ i) :
    (Ctrs.set κ i v).get j = κ.get j := by
  have hx : ¬ i = j := fun h' => h h'.symm
  simp only [Ctrs.set, Ctrs.get, List.find?_cons, hx, decide_false]
  rw [find_filter_ne κ h]

theorem env_get_nil (x : Name) : Env.get [] x = 0 := rfl
theorem ctrs_get_nil (i : Nat) : Ctrs.get [] i = 0 := rfl

/-! ### stack maps -/

theorem regOf_mem {ri : RInfo} {x : Name} {r : Int} (h : ri.regOf x = some r) : (r, x) ∈ ri.regs := by
  unfold RInfo.regOf at h
  split at h
  · cases h
  · cases hf : ri.regs.find? (fun e => e.2 = x) with
    | none => rw [hf] at h; cases h
    | some e =>
      rw [hf] at h
      cases h
      have h1 := List.find?_some hf
      have h2 := List.mem_of_find?_eq_some hf
      simp only [decide_eq_true_eq] at h1
      rw [← h1]
      exact h2

theorem regOf_not_counter {ri : RInfo} {x : Name} {r : Int} (h : ri.regOf x = some r) :
    bLoopVar.isPrefixOf x = false := by
  unfold RInfo.regOf at h
  split at h
  · cases h
  · rename_i hn
    exact Bool.eq_false_iff.2 hn

theorem ctrOf_mem {ri : RInfo} {id : Nat} {r : Int} (h : ri.ctrOf id = some r) :
    ∃ nm, (r, nm) ∈ ri.regs ∧ bLoopVar.isPrefixOf nm = true ∧
      (([91] : Bytes) ++ natDigits id ++ [93]).isSuffixOf nm = true := by
  unfold RInfo.ctrOf at h
  simp only at h
  cases hf : ri.regs.find? (fun e => bLoopVar.isPrefixOf e.2 && ([91] ++ natDigits id ++ [93]).isSuffixOf e.2) with
  | none => rw [hf] at h; cases h
  | some e =>
    rw [hf] at h
    cases h
    have h1 := List.find?_some hf
    have h2 := List.mem_of_find?_eq_some hf
    rw [Bool.and_eq_true] at h1
    exact ⟨e.2, h2, h1.1, h1.2⟩

theorem isNamed_of_mem {ri : RInfo} {r : Int} {nm : Bytes} (h : (r, nm) ∈ ri.regs) :
    ri.isNamed r = true := by
  unfold RInfo.isNamed
  rw [List.any_eq_true]
  exact ⟨(r, nm), h, by simp⟩

theorem nodup_fst_unique {α β : Type} : ∀ {l : List (α × β)}, (l.map (·.1)).Nodup →
    ∀ {a : α} {b1 b2 : β}, (a, b1) ∈ l → (a, b2) ∈ l → b1 = b2 := by
  intro l
  induction l with
  | nil => intro _ _ _ _ h; cases h
  | cons e l ih =>
    intro hn a b1 b2 h1 h2
    rw [List.map_cons, List.nodup_cons] at hn
    rcases List.mem_cons.1 h1 with h1 | h1 <;> rcases List.mem_cons.1 h2 with h2 | h2
    · rw [← h1] at h2; cases h2; rfl
    · exfalso; apply hn.1; rw [← h1]; exact List.mem_map.2 ⟨(a, b2), h2, rfl⟩
    · exfalso; apply hn.1; rw [← h2]; exact List.mem_map.2 ⟨(a, b1), h1, rfl⟩
    · exact ih hn.2 h1 h2

theorem nodup_snd_unique {α β : Type} : ∀ {l : List (α × β)}, (l.map (·.2)).Nodup →
    ∀ {a1 a2 : α} {b : β}, (a1, b) ∈ l → (a2, b) ∈ l → a1 = a2 := by
  intro l
  induction l with
  | nil => intro _ _ _ _ h; cases h
  | cons e l ih =>
    intro hn a1 a2 b h1 h2
    rw [List.map_cons, List.nodup_cons] at hn
    rcases List.mem_cons.1 h1 with h1 | h1 <;> rcases List.mem_cons.1 h2 with h2 | h2
    · rw [← h1] at h2; cases h2; rfl
    · exfalso; apply hn.1; rw [← h1]; exact List.mem_map.2 ⟨(a2, b), h2, rfl⟩
    · exfalso; apply hn.1; rw [← h2]; exact List.mem_map.2 ⟨(a1, b), h1, rfl⟩
    · exact ih hn.2 h1 h2

theorem names_unique {ri : RInfo} (hn : namesNodup ri = true) {r : Int} {n1 n2 : Bytes}
    (h1 : (r, n1) ∈ ri.regs) (h2 : (r, n2) ∈ ri.regs) : n1 = n2 := by
  unfold namesNodup at hn
  rw [Bool.and_eq_true, decide_eq_true_eq, decide_eq_true_eq] at hn
  exact nodup_fst_unique hn.2 h1 h2

theorem regs_unique {ri : RInfo} (hn : namesNodup ri = true) {r1 r2 : Int} {nm : Bytes}
    (h1 : (r1, nm) ∈ ri.regs) (h2 : (r2, nm) ∈ ri.regs) : r1 = r2 := by
  unfold namesNodup at hn
  rw [Bool.and_eq_true, decide_eq_true_eq, decide_eq_true_eq] at hn
  exact nodup_snd_unique hn.1 h1 h2

theorem regOf_of_mem {ri : RInfo} (hn : namesNodup ri = true) {r : Int} {nm : Bytes}
    (h : (r, nm) ∈ ri.regs) (hc : bLoopVar.isPrefixOf nm = false) : ri.regOf nm = some r := by
  unfold RInfo.regOf
  rw [if_neg (by simp [hc])]
  cases hf : ri.regs.find? (fun e => e.2 = nm) with
  | none =>
    have := List.find?_eq_none.1 hf _ h
    simp at this
  | some e =>
    have h1 := List.find?_some hf
    have h2 := List.mem_of_find?_eq_some hf
    simp only [decide_eq_true_eq] at h1
    have : (e.1, nm) ∈ ri.regs := by rw [← h1]; exact h2
    show some e.1 = some r
    rw [regs_unique hn this h]

/-- a user variable and a hidden counter never share a register -/
theorem regOf_ne_ctrOf {ri : RInfo} (hn : namesNodup ri = true) {x : Name} {id : Nat} {r1 r2 : Int}
    (h1 : ri.regOf x = some r1) (h2 : ri.ctrOf id = some r2) : r1 ≠ r2 := by
  intro he
  subst he
  obtain ⟨nm, hm, hp, _⟩ := ctrOf_mem h2
  have := names_unique hn (regOf_mem h1) hm
  subst this
  rw [regOf_not_counter h1] at hp
  cases hp

/-- distinct loop ids have distinct counter registers -/
theorem ctrOf_inj {ri : RInfo} (hn : namesNodup ri = true) {id1 id2 : Nat} {r : Int}
    (h1 : ri.ctrOf id1 = some r) (h2 : ri.ctrOf id2 = some r) : id1 = id2 := by
  obtain ⟨n1, hm1, _, hs1⟩ := ctrOf_mem h1
  obtain ⟨n2, hm2, _, hs2⟩ := ctrOf_mem h2
  have := names_unique hn hm1 hm2
  subst this
  exact ctr_suffix_inj id1 id2 n1 hs1 hs2

theorem ctrOf_named {ri : RInfo} {id : Nat} {r : Int} (h : ri.ctrOf id = some r) :
    ri.isNamed r = true := by
  obtain ⟨nm, hm, _, _⟩ := ctrOf_mem h
  exact isNamed_of_mem hm

theorem regOf_named {ri : RInfo} {x : Name} {r : Int} (h : ri.regOf x = some r) :
    ri.isNamed r = true := isNamed_of_mem (regOf_mem h)

/-! ### an activation's registers against the reference environment -/

/-- every user variable and every hidden counter of the routine sits in its register -/
def FrameOK (d : List Int) (a : Act) (ri : RInfo) (env : Env) (ctrs : Ctrs) : Prop :=
  (∀ r nm, (r, nm) ∈ ri.regs → bLoopVar.isPrefixOf nm = false → Holds d a r (env.get nm)) ∧
  (∀ id r, ri.ctrOf id = some r → Holds d a r (ctrs.get id))

theorem FrameOK.reg {d : List Int} {a : Act} {ri : RInfo} {env : Env} {ctrs : Ctrs}
    (h : FrameOK d a ri env ctrs) {x : Name} {r : Int} (hx : ri.regOf x = some r) :
    Holds d a r (env.get x) := h.1 r x (regOf_mem hx) (regOf_not_counter hx)

/-- all named registers keep their contents -/
theorem FrameOK.pres {d d' : List Int} {a : Act} {ri : RInfo} {env : Env} {ctrs : Ctrs}
    (h : FrameOK d a ri env ctrs)
    (hp : ∀ r v, ri.isNamed r = true → Holds d a r v → Holds d' a r v) :
    FrameOK d' a ri env ctrs :=
  ⟨fun r nm hm hc => hp r _ (isNamed_of_mem hm) (h.1 r nm hm hc),
   fun id r hr => hp r _ (ctrOf_named hr) (h.2 id r hr)⟩

/-- the register of user variable `x` was written, the other named registers kept -/
theorem FrameOK.write_named {d d' : List Int} {a : Act} {ri : RInfo} {env : Env} {ctrs : Ctrs}
    (h : FrameOK d a ri env ctrs) (hn : namesNodup ri = true) {x : Name} {rx : Int} {n : Nat}
    (hx : ri.regOf x = some rx) (hw : Holds d' a rx n)
    (hp : ∀ r v, ri.isNamed r = true → r ≠ rx → Holds d a r v → Holds d' a r v) :
    FrameOK d' a ri (env.set x n) ctrs := by
  refine ⟨fun r nm hm hc => ?_, fun id r hr => ?_⟩
  · by_cases hnm : nm = x
    · subst hnm
      rw [env_get_set_same, regs_unique hn hm (regOf_mem hx)]
      exact hw
    · rw [env_get_set_other _ _ hnm]
      refine hp r _ (isNamed_of_mem hm) ?_ (h.1 r nm hm hc)
      intro he
      subst he
      exact hnm (names_unique hn hm (regOf_mem hx))
  · exact hp r _ (ctrOf_named hr) (regOf_ne_ctrOf hn hx hr).symm (h.2 id r hr)

/-- the counter register of loop `id` was written, the other named registers kept -/
theorem FrameOK.write_ctr {d d' : List Int} {a : Act} {ri : RInfo} {env : Env} {ctrs : Ctrs}
    (h : FrameOK d a ri env ctrs) (hn : namesNodup ri = true) {id : Nat} {ctr : Int} {n : Nat}
    (hx : ri.ctrOf id = some ctr) (hw : Holds d' a ctr n)
    (hp : ∀ r v, ri.isNamed r = true → r ≠ ctr → Holds d a r v → Holds d' a r v) :
    FrameOK d' a ri env (ctrs.set id n) := by
  refine ⟨fun r nm hm hc => ?_, fun id' r hr => ?_⟩
  · refine hp r _ (isNamed_of_mem hm) ?_ (h.1 r nm hm hc)
    exact regOf_ne_ctrOf hn (regOf_of_mem hn hm hc) hx
  · by_cases hid : id' = id
    · subst hid
      rw [ctrs_get_set_same]
      rw [hx] at hr
      cases hr
      exact hw
    · rw [ctrs_get_set_other _ _ hid]
      refine hp r _ (ctrOf_named hr) ?_ (h.2 id' r hr)
      intro he
      subst he
      exact hid (ctrOf_inj hn hr hx)

theorem FrameOK.below {d d' : List Int} {a : Act} {ri : RInfo} {env : Env} {ctrs : Ctrs} {N : Nat}
    (h : FrameOK d a ri env ctrs) (hN : a.dataStart + a.segSize.toNat ≤ N) (hs : SameBelow N d d') :
    FrameOK d' a ri env ctrs :=
  h.pres (fun _ _ _ hh => hh.below hN hs)

/-! ### parameters -/

theorem bindParams_spec : ∀ (params : List Name) (args : List Nat) (ρ : Env),
    params.Nodup → params.length = args.length →
    (∀ (i : Nat) (x : Name), params[i]? = some x → (bindParams params args ρ).get x = (args[i]?).getD 0) ∧
    (∀ x, x ∉ params → (bindParams params args ρ).get x = ρ.get x) := by
  intro params
  induction params with
  | nil =>
    intro args ρ _ _
    refine ⟨fun i x h => by simp at h, fun x _ => ?_⟩
    cases args <;> rfl
  | cons p ps ih =>
    intro args ρ hnd hlen
    cases args with
    | nil => simp at hlen
    | cons a as =>
      rw [List.nodup_cons] at hnd
      have hl : ps.length = as.length := by simpa using hlen
      obtain ⟨ihA, ihB⟩ := ih as (ρ.set p a) hnd.2 hl
      simp only [bindParams]
      refine ⟨fun i x h => ?_, fun x hx => ?_⟩
      · cases i with
        | zero =>
          simp only [List.getElem?_cons_zero, Option.some.injEq] at h
          subst h
          rw [ihB _ hnd.1, env_get_set_same]
          rfl
        | succ i =>
          simp only [List.getElem?_cons_succ] at h ⊢
          exact ihA i x h
      · rw [List.mem_cons, not_or] at hx
        rw [ihB _ hx.2, env_get_set_other _ _ hx.1]

theorem paramsOK_spec {ri : RInfo} {params : List Name} (h : paramsOK ri params = true) :
    params.Nodup ∧ ∀ (i : Nat) (x : Name), params[i]? = some x → ri.regOf x = some (i : Int) := by
  unfold paramsOK at h
  rw [Bool.and_eq_true, decide_eq_true_eq] at h
  refine ⟨h.2, fun i x hx => ?_⟩
  have := List.all_eq_true.1 h.1 (x, i) (by rw [List.mem_zipIdx_iff_getElem?]; exact hx)
  simpa using this

/-- the frame of a freshly called routine: arguments in the parameter registers, zero elsewhere -/
theorem callee_frameOK {ri : RInfo} {params : List Name} {vals : List Nat} {d : List Int} {a : Act}
    (hn : namesNodup ri = true) (hp : paramsOK ri params = true) (hlen : params.length = vals.length)
    (hvals : ∀ v ∈ vals, v ≤ WORD_MAX)
    (hd : ∀ r : Nat, (r : Int) < a.segSize →
      d[a.dataStart + r]? = some ((((vals[r]?).getD 0 : Nat)) : Int))
    (hmap : ∀ r nm, (r, nm) ∈ ri.regs → 0 ≤ r ∧ r < a.segSize) :
    FrameOK d a ri (bindParams params vals []) [] := by
  obtain ⟨hnd, hreg⟩ := paramsOK_spec hp
  obtain ⟨hA, hB⟩ := bindParams_spec params vals [] hnd hlen
  have hle : ∀ i : Nat, (vals[i]?).getD 0 ≤ WORD_MAX := by
    intro i
    cases hv : vals[i]? with
    | none => simp [WORD_MAX]
    | some v => exact hvals v (List.mem_of_getElem? hv)
  have hval : ∀ (r : Int) (nm : Bytes), (r, nm) ∈ ri.regs → ∀ n : Nat,
      (vals[r.toNat]?).getD 0 = n → Holds d a r n := by
    intro r nm hm n hv
    obtain ⟨h0, h1⟩ := hmap r nm hm
    refine ⟨h0, h1, ?_, by rw [← hv]; exact hle _⟩
    rw [hd r.toNat (by omega), hv]
  -- a register below the number of parameters belongs to that parameter
  have hpar : ∀ (r : Int) (nm : Bytes), (r, nm) ∈ ri.regs → 0 ≤ r → r.toNat < params.length →
      params[r.toNat]? = some nm := by
    intro r nm hm h0 hlt
    have hy : params[r.toNat]? = some params[r.toNat] := List.getElem?_eq_getElem hlt
    have h2 := regOf_mem (hreg _ _ hy)
    rw [show ((r.toNat : Nat) : Int) = r by omega] at h2
    rw [hy, names_unique hn h2 hm]
  refine ⟨fun r nm hm hc => ?_, fun id r hr => ?_⟩
  · apply hval r nm hm
    obtain ⟨h0, _⟩ := hmap r nm hm
    by_cases hin : nm ∈ params
    · obtain ⟨i, hi⟩ := List.getElem?_of_mem hin
      have h2 := regOf_mem (hreg _ _ hi)
      have : r = (i : Int) := regs_unique hn hm h2
      subst this
      rw [hA i nm hi]
      simp
    · rw [hB nm hin, env_get_nil]
      by_cases hlt : r.toNat < params.length
      · exact absurd (List.mem_of_getElem? (hpar r nm hm h0 hlt)) hin
      · rw [List.getElem?_eq_none (by omega)]
        rfl
  · obtain ⟨nm, hm, hpre, _⟩ := ctrOf_mem hr
    apply hval r nm hm
    obtain ⟨h0, _⟩ := hmap r nm hm
    rw [ctrs_get_nil]
    by_cases hlt : r.toNat < params.length
    · have h3 := regOf_not_counter (hreg _ _ (hpar r nm hm h0 hlt))
      rw [h3] at hpre
      cases hpre
    · rw [List.getElem?_eq_none (by omega)]
      rfl

/-! ### routine lookup -/

theorem lookupProg_go_spec (f : Name) (upto : Nat) : ∀ (ps : List ProgDef) (i : Nat)
    (acc : Option (Nat × ProgDef)) (j : Nat) (pd : ProgDef),
    lookupProg.go f upto ps i acc = some (j, pd) →
    acc = some (j, pd) ∨ (i ≤ j ∧ j < upto ∧ ps[j - i]? = some pd) := by
  intro ps
  induction ps with
  | nil => intro i acc j pd h; simp only [lookupProg.go] at h; exact Or.inl h
  | cons q ps ih =>
    intro i acc j pd h
    simp only [lookupProg.go] at h
    split at h
    · rename_i hlt
      rcases ih _ _ _ _ h with h1 | ⟨h1, h2, h3⟩
      · split at h1
        · cases h1
          exact Or.inr ⟨Nat.le_refl _, hlt, by simp⟩
        · exact Or.inl h1
      · refine Or.inr ⟨by omega, h2, ?_⟩
        rw [show j - i = (j - (i + 1)) + 1 by omega, List.getElem?_cons_succ]
        exact h3
    · exact Or.inl h

theorem lookupProg_spec {src : Source} {f : Name} {upto j : Nat} {pd : ProgDef}
    (h : lookupProg src f upto = some (j, pd)) : j < upto ∧ src.progs[j]? = some pd := by
  unfold lookupProg at h
  rcases lookupProg_go_spec f upto _ _ _ _ _ h with h1 | ⟨_, h2, h3⟩
  · cases h1
  · exact ⟨h2, by simpa using h3⟩
