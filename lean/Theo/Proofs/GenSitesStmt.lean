/-
  C07 for the generator model, part 3: statements — the exact correspondence between a generator
  state and the site walk (`Ex`, `Ctx`, `SiteOut`), the header of a statement (`Hdr`: the one
  site `advanceLine` emits iff the line changes), the statements without a body, labels, and the
  composition of statement lists.
-/
import Theo.Proofs.GenSitesVal

set_option linter.unusedSimpArgs false
set_option linter.unusedVariables false

namespace Theo
namespace GenSites
open GS Sem Static GenShape Layout

/-- what the validator remembers about the previous statement, for a layout state -/
def prevOf (s : LSt) : Prev :=
  match s.kind with
  | .fresh => none
  | .stmt => some ((s.file, s.line), false)
  | .mark => some ((s.file, s.line), true)

/-- an expected site as an entry of the line table -/
def liOf (e : ESite) : Int × BreakPoint := ((e.1 : Int), ⟨e.2.1.1, e.2.1.2⟩)

/-- the generator's file context is the current line of the layout walk -/
structure Ctx (gs : GS) (s : LSt) : Prop where
  file : gs.fsName = s.file
  line : gs.fsLine = s.line

/-- the validator stands exactly `k` sites before the generator's position -/
structure Ex (gs : GS) (w : Walk) (k : Nat) : Prop where
  len : w.pc + k = gs.code.length
  sites : ∀ p, w.pc ≤ p → p < gs.code.length → gs.code[p]? = some Instr.potBreak
  pos : 0 < w.pc

theorem Ex.at {X : RC} {gs gs' : GS} {w : Walk} {k : Nat} (h : Ex gs w k) (hp : gs.code <+: gs'.code)
    (ha : Agree X.L gs'.code X.C) : At X w.pc gs := by
  refine ⟨?_, by have := h.len; have := h.pos; omega⟩
  rw [← h.len]
  apply skipc_range
  intro p h1 h2
  have := ha p _ (by have := h.pos; omega) (prefix_getElem? hp (h.sites p h1 (by rw [← h.len]; exact h2)))
  rw [this]; rfl

theorem Ex.exact {gs : GS} {w : Walk} (h0 : 0 < w.pc) (h : w.pc = gs.code.length) : Ex gs w 0 :=
  ⟨by omega, fun p h1 h2 => by omega, h0⟩

/-- the result of walking a statement tree: expected sites `l`, emitted code `t` -/
structure SiteOut (X : RC) (gs gs' : GS) (n : Node) (ss : Stmts) (w : Walk) (k : Nat) (s s' : LSt)
    (l : List ESite) (w' : Walk) (k' : Nat) (t : List Instr) : Prop where
  walk : sitesStmts X.e ss w k (prevOf s) = some (l, w', k', prevOf s')
  ex : Ex gs' w' k'
  code : gs'.code = gs.code ++ t
  pbs : pbPos t gs.code.length = l.map (·.1)
  li : gs'.lineInfo = gs.lineInfo ++ l.map liOf
  names : l.filterMap (·.2.2) = defsOf n
  last : ∀ m p, ((l.filter (fun e => decide (e.2.2 = some m))).getLast?).map (·.1) = some p →
    ∃ lab, (m, lab) ∈ gs'.top.marks ∧ gs'.labels[lab]? = some (p : Int)
  ctx : Ctx gs' s'

def SiteCorr (X : RC) (gs gs' : GS) (n : Node) (ss : Stmts) (s s' : LSt) : Prop :=
  ∀ w k, Ex gs w k → ∃ l w' k' t, SiteOut X gs gs' n ss w k s s' l w' k' t

/-! ### the header of a statement -/

/-- `mv` = the line changed: one site was emitted -/
structure Hdr (gs gs0 : GS) (s : LSt) (file : Bytes) (line : Int) (w : Walk) (k : Nat) (mv : Bool) : Prop where
  code : gs0.code = gs.code ++ (if mv then [Instr.potBreak] else [])
  li : gs0.lineInfo = gs.lineInfo ++ (if mv then [((gs.code.length : Int), (⟨file, line⟩ : BreakPoint))] else [])
  fsName : gs0.fsName = file
  fsLine : gs0.fsLine = line
  ex : Ex gs0 w (if mv then k + 1 else k)
  same : ∀ st : Stmt, st.pos = (file, line) → Sim.sameLine (prevOf s) st = !mv
  mvEq : mv = !(decide (file = s.file) && decide (line = s.line))

theorem hdr_of (gs : GS) (s : LSt) (file : Bytes) (line : Int) (hctx : Ctx gs s) (hstd : isStd file = false)
    (ht : TInv (fun _ => True) gs) (w : Walk) (k : Nat) (hex : Ex gs w k)
    (hlay : (decide (file = s.file) && decide (line = s.line) && !decide (s.kind = LKind.mark)) = false) :
    ∃ mv, Hdr gs (gs.advanceLine line file) s file line w k mv := by
  have hstd' : file ≠ ConstGen.genStdFileName := by simpa [isStd] using hstd
  by_cases hsame : file = s.file ∧ line = s.line
  · refine ⟨false, ?_⟩
    have hk : s.kind = LKind.mark := by
      simp only [hsame.1, hsame.2, decide_true, Bool.true_and, Bool.not_eq_eq_eq_not, Bool.not_false, decide_eq_true_eq] at hlay
      exact hlay
    rw [advanceLine_same gs line file (by rw [hctx.file]; exact hsame.1) (by rw [hctx.line]; exact hsame.2)]
    refine ⟨by simp, by simp, by rw [hctx.file, hsame.1], by rw [hctx.line, hsame.2], hex, ?_, by simp [hsame.1, hsame.2]⟩
    intro st hst
    unfold prevOf Sim.sameLine
    rw [hk, hst, hsame.1, hsame.2]
    simp
  · refine ⟨true, ?_⟩
    have hm : ¬ (file = gs.fsName ∧ line = gs.fsLine) := by rw [hctx.file, hctx.line]; exact hsame
    have mv := moved_of gs line file hstd' hm ht
    refine ⟨by simpa using mv.code, by simpa using mv.lineInfo, mv.fsName, mv.fsLine, ?_, ?_, ?_⟩
    · refine ⟨?_, ?_, hex.pos⟩
      · rw [mv.code]; simp; have := hex.len; omega
      · intro p h1 h2
        rw [mv.code] at h2 ⊢
        simp at h2
        by_cases hp : p < gs.code.length
        · rw [List.getElem?_append_left hp]; exact hex.sites p h1 hp
        · have : p = gs.code.length := by omega
          subst this
          exact getElem?_snoc_len _ _
    · intro st hst
      unfold prevOf Sim.sameLine
      rw [hst]
      cases s.kind <;> simp
      all_goals (intro h1 h2; exact hsame ⟨h1.symm, h2.symm⟩)
    · have : (decide (file = s.file) && decide (line = s.line)) = false := by
        simp only [Bool.and_eq_false_iff, decide_eq_false_iff_not]
        by_cases h1 : file = s.file
        · exact Or.inr (fun h2 => hsame ⟨h1, h2⟩)
        · exact Or.inl h1
      rw [this]; rfl

/-- the expected site of the header -/
def hereL (w : Walk) (k : Nat) (file : Bytes) (line : Int) (mn : Option Name) (mv : Bool) : List ESite :=
  if mv then [(w.pc + k, (file, line), mn)] else []

theorem Hdr.hereOf {gs gs0 : GS} {s : LSt} {file : Bytes} {line : Int} {w : Walk} {k : Nat} {mv : Bool}
    (h : Hdr gs gs0 s file line w k mv) (st : Stmt) (hst : st.pos = (file, line)) :
    Sim.hereOf w k (prevOf s) st = hereL w k file line (markName st) mv ∧
    Sim.kOf k (prevOf s) st = (if mv then k + 1 else k) := by
  unfold Sim.hereOf Sim.kOf hereL
  rw [h.same st hst, hst]
  cases mv <;> simp

theorem Hdr.pbs {gs gs0 : GS} {s : LSt} {file : Bytes} {line : Int} {w : Walk} {k : Nat} {mv : Bool}
    (h : Hdr gs gs0 s file line w k mv) (hex : Ex gs w k) (mn : Option Name) :
    pbPos (if mv then [Instr.potBreak] else []) gs.code.length = (hereL w k file line mn mv).map (·.1) ∧
    gs0.lineInfo = gs.lineInfo ++ (hereL w k file line mn mv).map liOf ∧
    gs0.code.length = gs.code.length + (if mv then [Instr.potBreak] else []).length := by
  refine ⟨?_, ?_, by rw [h.code]; simp⟩
  · unfold hereL
    cases mv
    · simp [pbPos]
    · simp [pbPos, hex.len]
  · rw [h.li]
    unfold hereL
    cases mv
    · simp
    · simp [liOf, hex.len]

/-! ### statements without a body -/

theorem filter_none_mark (l0 : List ESite) (x : ESite) (hx : x.2.2 = none) (m : Name) :
    ([x] ++ l0).filter (fun e => decide (e.2.2 = some m)) = l0.filter (fun e => decide (e.2.2 = some m)) := by
  simp [List.filter_cons, hx]

/-- the shape walk of a statement whose code has no site ends exactly at the generator's position -/
theorem simple_walk {X : RC} {gs0 res : GS} {n : Node} {st : Stmt} (hsimple : Sim.isSimple st = true)
    (hns : NoSite gs0 res) (hcorr : SCorr X gs0 res n (.cons st .nil)) (lk : SLinks X res)
    {w : Walk} {k0 : Nat} (hex : Ex gs0 w k0) :
    ∃ w' t', checkStmt X.e st w = some w' ∧ Ex res w' 0 ∧ res.code = gs0.code ++ t' ∧ (∀ i ∈ t', i ≠ Instr.potBreak) := by
  obtain ⟨t', hcode, hclean⟩ := hns.code
  have hpre : gs0.code <+: res.code := by rw [hcode]; exact prefix_append_self _ _
  have hat := hex.at hpre lk.agree
  obtain ⟨w', cw, sr⟩ := hcorr w hat
  rw [checkStmts_single] at cw
  obtain ⟨hlt, hreal⟩ := simple_end (e := X.e) hsimple cw
  have hC : X.e.code = X.C := rfl
  rw [hC] at hlt hreal
  have hlo : gs0.code.length < w'.pc := by
    have h1 := hat.eq
    have h2 := Sim.le_skipc X.C gs0.code.length
    omega
  have hw : w'.pc = res.code.length := by
    refine pc_exact_clean sr.at_.eq hreal hlo ?_
    intro p h1 h2
    have h0 : 0 < p := by have := hat.pos; omega
    intro hc
    have hc2 := (agree_pb_iff lk.agree h0 h2).1 hc
    rw [hcode, List.getElem?_append_right h1] at hc2
    exact hclean _ (List.mem_of_getElem? hc2) rfl
  exact ⟨w', t', cw, Ex.exact (by omega) hw, hcode, hclean⟩

theorem simple_site {X : RC} (gs res : GS) (t : Nat) (tok file : Bytes) (line : Int) (l r : Node) (st : Stmt)
    (hsimple : Sim.isSimple st = true) (hpos : st.pos = (file, line))
    (hdefs : defsOf (.mk t tok file line l r) = [])
    (s : LSt) (hctx : Ctx gs s) (hstd : isStd file = false)
    (hlay : (decide (file = s.file) && decide (line = s.line) && !decide (s.kind = LKind.mark)) = false)
    (ht : TInv (fun _ => True) gs)
    (hns : NoSite (gs.advanceLine line file) res)
    (hcorr : SCorr X (gs.advanceLine line file) res (.mk t tok file line l r) (.cons st .nil))
    (lk : SLinks X res) :
    SiteCorr X gs res (.mk t tok file line l r) (.cons st .nil) s ⟨file, line, .stmt⟩ := by
  intro w k hex
  obtain ⟨mv, hd⟩ := hdr_of gs s file line hctx hstd ht w k hex hlay
  obtain ⟨w', t', cw, ex', hcode, hclean⟩ := simple_walk hsimple hns hcorr lk hd.ex
  obtain ⟨hh, hk⟩ := hd.hereOf st hpos
  have hmn : markName st = none := by cases st <;> simp [Sim.isSimple] at hsimple <;> rfl
  obtain ⟨p1, p2, p3⟩ := hd.pbs hex (markName st)
  have hc : (Sim.sameLine (prevOf s) st && !Sim.afterMk (prevOf s)) = false := by
    rw [hd.same st hpos, hd.mvEq]
    cases hs1 : (decide (file = s.file) && decide (line = s.line))
    · simp
    · rw [hs1] at hlay
      simp only [Bool.true_and, Bool.not_eq_eq_eq_not, Bool.not_false, decide_eq_true_eq] at hlay
      unfold prevOf Sim.afterMk
      rw [hlay]; simp
  have hwalk := sitesStmts_single (sitesStmt_simple_ok (k := k) hsimple hc cw)
  rw [hh, hpos] at hwalk
  refine ⟨hereL w k file line (markName st) mv, w', 0, (if mv then [Instr.potBreak] else []) ++ t', ?_⟩
  refine ⟨hwalk, ex', by rw [hcode, hd.code, List.append_assoc], ?_, ?_, ?_, ?_, ⟨by rw [hns.fsName, hd.fsName], by rw [hns.fsLine, hd.fsLine]⟩⟩
  · rw [pbPos_append, p1, pbPos_clean t' _ hclean, List.append_nil]
  · rw [hns.lineInfo, p2]
  · rw [hdefs, hmn]; unfold hereL; cases mv <;> simp
  · intro m p hp
    rw [hmn] at hp
    unfold hereL at hp
    cases mv <;> simp at hp

/-! ### labels -/

theorem mark_site {X : RC} (gs : GS) (tok file : Bytes) (line : Int) (l r : Node)
    (s : LSt) (hctx : Ctx gs s) (hstd : isStd file = false)
    (hlay : (decide (file = s.file) && decide (line = s.line)) = false)
    (ht : TInv (fun _ => True) gs) (w0 : MarksWF gs) :
    SiteCorr X gs (((gs.advanceLine line file).markLabel l.tok).1.setLabel ((gs.advanceLine line file).markLabel l.tok).2
        ((gs.advanceLine line file).markLabel l.tok).1.markPos)
      (.mk NodeT.MARK tok file line l r) (.cons (.mark l.tok (file, line)) .nil) s ⟨file, line, .mark⟩ := by
  intro w k hex
  obtain ⟨mv, hd⟩ := hdr_of gs s file line hctx hstd ht w k hex (by rw [hlay]; rfl)
  have hmv : mv = true := by rw [hd.mvEq, hlay]; rfl
  subst hmv
  have w0' : MarksWF (gs.advanceLine line file) := (quiet_advanceLine gs line file).wf w0
  generalize gs.advanceLine line file = gs0 at *
  have ms := markLabel_spec gs0 l.tok
  have hlt : (gs0.markLabel l.tok).2 < (gs0.markLabel l.tok).1.labels.length := ms.lt w0'
  have hns : NoSite gs0 ((gs0.markLabel l.tok).1.setLabel (gs0.markLabel l.tok).2 (gs0.markLabel l.tok).1.markPos) :=
    (nosite_markLabel gs0 l.tok).trans (nosite_setLabel _ _ _)
  have hcode0 : gs0.code = gs.code ++ [Instr.potBreak] := by simpa using hd.code
  have hcode : ((gs0.markLabel l.tok).1.setLabel (gs0.markLabel l.tok).2 (gs0.markLabel l.tok).1.markPos).code =
      gs.code ++ [Instr.potBreak] := by rw [← hcode0]; exact ms.code
  have hmp : (gs0.markLabel l.tok).1.markPos = ((w.pc + k : Nat) : Int) := by
    unfold markPos lastIsSite nextPos
    rw [ms.code, hcode0]
    simp
    have := hex.len
    omega
  have hsl : Sim.sameLine (prevOf s) (.mark l.tok (file, line)) = false := by rw [hd.same _ rfl]; rfl
  have hwalk := sitesStmts_single (sitesStmt_mark_ok (e := X.e) (w := w) (k := k) hsl)
  obtain ⟨p1, p2, p3⟩ := hd.pbs hex (some l.tok)
  refine ⟨[(w.pc + k, (file, line), some l.tok)], { w with marks := w.marks ++ [(l.tok, w.pc)] }, k + 1, [Instr.potBreak], ?_⟩
  refine ⟨hwalk, ?_, hcode, ?_, ?_, ?_, ?_, ⟨by rw [hns.fsName, hd.fsName], by rw [hns.fsLine, hd.fsLine]⟩⟩
  · have he := hd.ex
    simp only [if_true] at he
    refine ⟨?_, ?_, hex.pos⟩
    · show w.pc + (k + 1) = _
      rw [hcode, ← hcode0]; exact he.len
    · intro p h1 h2
      rw [hcode] at h2 ⊢
      rw [← hcode0] at h2 ⊢
      exact he.sites p h1 h2
  · simpa [hereL] using p1
  · rw [hns.lineInfo]; simpa [hereL] using p2
  · rw [defsOf_mk]; simp [NodeT.MARK, NodeT.SPLIT, NodeT.LOOP, NodeT.WHILE]
  · intro m p hp
    by_cases hml : l.tok = m
    · subst hml
      simp at hp
      subst hp
      exact ⟨(gs0.markLabel l.tok).2, ms.mem, by rw [setLabel_get_eq _ _ _ hlt, hmp]⟩
    · have : ¬ (some l.tok = some m) := fun h => hml (Option.some.inj h)
      simp [this] at hp

/-! ### statement lists -/

theorem SiteOut.split {X : RC} {gs g1 g2 : GS} {l r : Node} (tok file : Bytes) (line : Int) {ssl ssr : Stmts}
    {w w1 w2 : Walk} {k k1 k2 : Nat} {s s1 s2 : LSt} {l1 l2 : List ESite} {t1 t2 : List Instr}
    (o1 : SiteOut X gs g1 l ssl w k s s1 l1 w1 k1 t1) (o2 : SiteOut X g1 g2 r ssr w1 k1 s1 s2 l2 w2 k2 t2)
    (st2 : Step g1 g2) (sq2 : SQ g1 g2 r) (wf2 : MarksWF g2) :
    SiteOut X gs g2 (.mk NodeT.SPLIT tok file line l r) (ssl.append ssr) w k s s2 (l1 ++ l2) w2 k2 (t1 ++ t2) := by
  refine ⟨sitesStmts_append_ok o1.walk o2.walk, o2.ex, by rw [o2.code, o1.code, List.append_assoc], ?_, ?_, ?_, ?_, o2.ctx⟩
  · rw [pbPos_append, o1.pbs, List.map_append]
    have : gs.code.length + t1.length = g1.code.length := by rw [o1.code]; simp
    rw [this, o2.pbs]
  · rw [o2.li, o1.li, List.map_append, List.append_assoc]
  · rw [List.filterMap_append, o1.names, o2.names, defsOf_mk, if_pos rfl]
  · intro m p h
    rw [List.filter_append, List.getLast?_append] at h
    cases hb : (l2.filter (fun e => decide (e.2.2 = some m))).getLast? with
    | some x =>
      rw [hb] at h
      simp only [Option.some_or] at h
      exact o2.last m p (by rw [hb]; exact h)
    | none =>
      rw [hb] at h
      simp only [Option.none_or] at h
      have hemp : l2.filter (fun e => decide (e.2.2 = some m)) = [] := List.getLast?_eq_none_iff.1 hb
      obtain ⟨lab, k1', k2'⟩ := o1.last m p h
      refine ⟨lab, st2.ext _ k1', ?_⟩
      rw [sq2.frame lab (List.getElem?_eq_some_iff.1 k2').1 ?_]
      · exact k2'
      · intro m' hm' hin
        have hmm : m' = m := nodup_snd wf2.vals hin (st2.ext _ k1')
        subst hmm
        rw [← o2.names] at hm'
        obtain ⟨e, he, hem⟩ := List.mem_filterMap.1 hm'
        have : e ∈ l2.filter (fun e => decide (e.2.2 = some m')) := List.mem_filter.2 ⟨he, by simpa using hem⟩
        rw [hemp] at this
        cases this

end GenSites
end Theo
