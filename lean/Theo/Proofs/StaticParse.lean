/-
  C04 (static rules), part 7: an error-free parse builds a tree of the shape `AstShape`
  (program definitions only on the top spine, statement types only where statements are
  dispatched, value types only where values are dispatched, argument lists as SPLIT spines).
-/
import Theo.Proofs.ParseProofs
import Theo.Spec.Static

set_option linter.unusedSimpArgs false

namespace Theo
namespace Static
open C04

theorem nil_of_le {a b : PS} (h : a.errs.length ≤ b.errs.length) (hb : b.errs = []) : a.errs = [] := by
  rw [hb] at h
  exact List.length_eq_zero_iff.1 (Nat.le_zero.1 h)

theorem mk_le (ps : PS) (k : Nat) (hk : k ≠ Tok.T_EOF) : ps.errs.length ≤ (ps.matchK k).errs.length :=
  (matchK_adv ps k hk).le

theorem err_ne (ps : PS) (k : SynKind) : (ps.err k).errs ≠ [] := by simp [PS.err]

/-! ### shapes of the nodes the parser builds -/

theorem valShape_leaf (a : Bool) (t : Nat) (tok file : Bytes) (line : Int) (ht : t = NodeT.NAME ∨ t = NodeT.NUMBER) :
    valShape a (.mk t tok file line .nil .nil) = true := by
  rw [valShape]
  rcases ht with rfl | rfl <;> simp [NodeT.NAME, NodeT.NUMBER, NodeT.SPLIT]

theorem valShape_call (a : Bool) (n : Node) (tok file : Bytes) (line : Int) (args : Node)
    (h : valShape true args = true) :
    valShape a (mkAt NodeT.CALL n (.mk NodeT.NAME tok file line .nil .nil) args) = true := by
  rw [mkAt, valShape]
  simp [NodeT.CALL, NodeT.SPLIT, NodeT.NAME, NodeT.NUMBER, Node.ty, h]

theorem valShape_split (n a b : Node) : valShape true (mkAt NodeT.SPLIT n a b) = (valShape true a && valShape true b) := by
  rw [mkAt, valShape]; simp

theorem stmtShape_split (n a b : Node) : stmtShape (mkAt NodeT.SPLIT n a b) = (stmtShape a && stmtShape b) := by
  rw [mkAt, stmtShape]; simp
theorem stmtShape_assign (n l v : Node) : stmtShape (mkAt NodeT.ASSIGN n l v) = valShape false v := by
  rw [mkAt, stmtShape]; simp [NodeT.ASSIGN, NodeT.SPLIT]
theorem stmtShape_mark (n a b : Node) : stmtShape (mkAt NodeT.MARK n a b) = true := by
  rw [mkAt, stmtShape]; simp [NodeT.MARK, NodeT.SPLIT, NodeT.ASSIGN, NodeT.LOOP, NodeT.WHILE, NodeT.IF]
theorem stmtShape_goto (n a b : Node) : stmtShape (mkAt NodeT.GOTO n a b) = true := by
  rw [mkAt, stmtShape]; simp [NodeT.GOTO, NodeT.SPLIT, NodeT.ASSIGN, NodeT.LOOP, NodeT.WHILE, NodeT.IF]
theorem stmtShape_stop (tok file : Bytes) (line : Int) : stmtShape (.mk NodeT.STOP tok file line .nil .nil) = true := by
  rw [stmtShape]; simp [NodeT.STOP, NodeT.SPLIT, NodeT.ASSIGN, NodeT.LOOP, NodeT.WHILE, NodeT.IF]
theorem stmtShape_loop (t : Nat) (ht : t = NodeT.LOOP ∨ t = NodeT.WHILE) (n : Node) (tok file : Bytes) (line : Int) (b : Node) :
    stmtShape (mkAt t n (.mk NodeT.NAME tok file line .nil .nil) b) = stmtShape b := by
  rw [mkAt, stmtShape]
  rcases ht with rfl | rfl <;> simp [NodeT.LOOP, NodeT.WHILE, NodeT.SPLIT, NodeT.ASSIGN, nilOr, Node.ty]
theorem stmtShape_if (n : Node) (t1 f1 : Bytes) (l1 : Int) (t2 f2 : Bytes) (l2 : Int) (g : Node) :
    stmtShape (mkAt NodeT.IF n (mkAt NodeT.EQ n (.mk NodeT.NAME t1 f1 l1 .nil .nil) (.mk NodeT.NUMBER t2 f2 l2 .nil .nil)) g) = true := by
  rw [mkAt, stmtShape]
  simp [NodeT.IF, NodeT.SPLIT, NodeT.ASSIGN, NodeT.LOOP, NodeT.WHILE, nilOr, Node.ty, Node.left, Node.right, mkAt]

theorem astShape_of_stmtShape : ∀ n : Node, stmtShape n = true → AstShape n = true
  | .nil, _ => by rw [AstShape]
  | .mk t tok file line l r, h => by
    rw [AstShape]
    split
    · rename_i hc
      obtain ⟨rfl, hl⟩ := hc
      rw [stmtShape, if_pos rfl, Bool.and_eq_true] at h
      cases l with
      | nil => simp [Node.ty, NodeT.PROGRAM] at hl
      | mk t2 tok2 f2 ln2 l2 r2 =>
        have : t2 = NodeT.PROGRAM := hl
        subst this
        have h1 := h.1
        rw [stmtShape] at h1
        simp [NodeT.PROGRAM, NodeT.SPLIT, NodeT.ASSIGN, NodeT.LOOP, NodeT.WHILE, NodeT.IF, NodeT.MARK, NodeT.GOTO, NodeT.STOP] at h1
    · exact h

theorem astShape_prog (n nm hdr body e1 e2 e3 more : Node) (hb : stmtShape body = true) (hm : AstShape more = true) :
    AstShape (mkAt NodeT.SPLIT n (mkAt NodeT.PROGRAM nm hdr (mkAt NodeT.SPLIT nm body (mkAt NodeT.MARK e1 e2 e3))) more) = true := by
  rw [mkAt, AstShape, if_pos ⟨rfl, rfl⟩]
  simp only [Node.right, mkAt]
  rw [Bool.and_eq_true]
  refine ⟨?_, hm⟩
  have := stmtShape_split nm body (mkAt NodeT.MARK e1 e2 e3)
  rw [mkAt] at this
  rw [mkAt] at this
  rw [this, hb]
  have := stmtShape_mark e1 e2 e3
  rw [mkAt] at this
  rw [this]; rfl

/-! ### the induction over the fuel -/

structure SH (f : Nat) : Prop where
  value : ∀ ps, (pVALUE f ps).2.errs = [] → valShape false (pVALUE f ps).1 = true ∧ valShape true (pVALUE f ps).1 = true
  mv : ∀ ps, (pMVARGS f ps).2.errs = [] → valShape true (pMVARGS f ps).1 = true
  p : ∀ ps, (pP f ps).2.errs = [] → stmtShape (pP f ps).1 = true
  morep : ∀ ps, (pMOREP f ps).2.errs = [] → stmtShape (pMOREP f ps).1 = true
  s : ∀ ps, (pS f ps).2.errs = [] → AstShape (pS f ps).1 = true

theorem sh_zero : SH 0 where
  value ps h := by rw [pVALUE_zero] at h; exact absurd h (err_ne _ _)
  mv ps h := by rw [pMVARGS_zero] at h; exact absurd h (err_ne _ _)
  p ps h := by rw [pP_zero] at h; exact absurd h (err_ne _ _)
  morep ps h := by rw [pMOREP_zero] at h; exact absurd h (err_ne _ _)
  s ps h := by rw [pS_zero] at h; exact absurd h (err_ne _ _)

theorem sh_value {f : Nat} (ih : SH f) (ps : PS) (h : (pVALUE (f+1) ps).2.errs = []) :
    valShape false (pVALUE (f+1) ps).1 = true ∧ valShape true (pVALUE (f+1) ps).1 = true := by
  have ab := ab_all f
  rw [pVALUE.eq_def (f+1) ps] at h ⊢
  dsimp only [PS.matchmk] at h ⊢
  by_cases h1 : ps.la = Tok.ID
  · simp only [if_pos h1]
    exact ⟨valShape_leaf _ _ _ _ _ (Or.inl rfl), valShape_leaf _ _ _ _ _ (Or.inl rfl)⟩
  simp only [if_neg h1] at h ⊢
  by_cases h2 : ps.la = Tok.INT
  · simp only [if_pos h2]
    exact ⟨valShape_leaf _ _ _ _ _ (Or.inr rfl), valShape_leaf _ _ _ _ _ (Or.inr rfl)⟩
  simp only [if_neg h2] at h ⊢
  by_cases h3 : ps.la = Tok.RUN
  · simp only [if_pos h3] at h ⊢
    split at h
    · rename_i hc
      simp only [if_pos hc]
      exact ⟨valShape_call _ _ _ _ _ _ (by rw [valShape]), valShape_call _ _ _ _ _ _ (by rw [valShape])⟩
    · rename_i hc
      simp only [if_neg hc]
      dsimp only at h
      have e1 := nil_of_le (mk_le _ Tok.END (by decide)) h
      have e2 := nil_of_le (ab.mv _).le e1
      have s1 := ih.mv _ e1
      have s2 := (ih.value _ e2).2
      have : valShape true (mkAt NodeT.SPLIT (pVALUE f (((ps.matchK Tok.RUN).matchK Tok.ID).matchK Tok.WITH)).1
          (pVALUE f (((ps.matchK Tok.RUN).matchK Tok.ID).matchK Tok.WITH)).1
          (pMVARGS f (pVALUE f (((ps.matchK Tok.RUN).matchK Tok.ID).matchK Tok.WITH)).2).1) = true := by
        rw [valShape_split, s1, s2]; rfl
      exact ⟨valShape_call _ _ _ _ _ _ this, valShape_call _ _ _ _ _ _ this⟩
  · simp only [if_neg h3] at h
    exact absurd h (err_ne _ _)

theorem sh_mv {f : Nat} (ih : SH f) (ps : PS) (h : (pMVARGS (f+1) ps).2.errs = []) :
    valShape true (pMVARGS (f+1) ps).1 = true := by
  have ab := ab_all f
  rw [pMVARGS] at h ⊢
  by_cases h1 : ps.la ≠ Tok.ARGSEP
  · simp only [if_pos h1]; rw [valShape]
  simp only [if_neg h1] at h ⊢
  cases hv : (pVALUE f (ps.matchK Tok.ARGSEP)).1 with
  | nil => simp only [hv]; rw [valShape]
  | mk t tok file line l r =>
    simp only [hv] at h ⊢
    have e1 := nil_of_le (ab.mv _).le h
    have s1 := (ih.value _ e1).2
    have s2 := ih.mv _ h
    rw [hv] at s1
    rw [valShape_split, s1, s2]; rfl

theorem sh_morep {f : Nat} (ih : SH f) (ps : PS) (h : (pMOREP (f+1) ps).2.errs = []) :
    stmtShape (pMOREP (f+1) ps).1 = true := by
  rw [pMOREP] at h ⊢
  by_cases h1 : ps.la ≠ Tok.PROGSEP
  · simp only [if_pos h1]; rw [stmtShape]
  · simp only [if_neg h1] at h ⊢
    exact ih.p _ h

theorem sh_s {f : Nat} (ih : SH f) (ps : PS) (h : (pS (f+1) ps).2.errs = []) :
    AstShape (pS (f+1) ps).1 = true := by
  have ab := ab_all f
  rw [pS] at h ⊢
  by_cases h1 : ps.la = Tok.PROGRAM
  · simp only [if_pos h1] at h ⊢
    dsimp only [PS.matchmk] at h ⊢
    have s1 := ih.s _ h
    have e1 := nil_of_le (ab.s _).le h
    have e2 := nil_of_le (mk_le _ Tok.END (by decide)) e1
    have s2 := ih.p _ e2
    exact astShape_prog _ _ _ _ _ _ _ _ s2 s1
  · simp only [if_neg h1] at h ⊢
    exact astShape_of_stmtShape _ (ih.p _ h)

/-- the tail `MOREP; expected_end_or_semicolon` of every statement: no error means the
    continuation has statement shape -/
theorem tail_shape {f : Nat} (ih : SH f) (ps : PS) (h : (pEEOS f (pMOREP f ps).2).errs = []) :
    (pMOREP f ps).2.errs = [] ∧ ps.errs = [] ∧ stmtShape (pMOREP f ps).1 = true := by
  have ab := ab_all f
  have e1 := nil_of_le (ab.eeos _) h
  exact ⟨e1, nil_of_le (ab.morep _) e1, ih.morep _ e1⟩

theorem sh_p {f : Nat} (ih : SH f) (ps : PS) (h : (pP (f+1) ps).2.errs = []) :
    stmtShape (pP (f+1) ps).1 = true := by
  have ab := ab_all f
  rw [pP] at h ⊢
  dsimp only [PS.matchmk] at h ⊢
  by_cases h1 : ps.la = Tok.ID
  · simp only [if_pos h1] at h ⊢
    by_cases h2 : (ps.matchK Tok.ID).la = Tok.ASSIGN
    · simp only [if_pos h2] at h ⊢
      obtain ⟨_, e2, s1⟩ := tail_shape ih _ h
      rw [stmtShape_split, stmtShape_assign, (ih.value _ e2).1, s1]; rfl
    · simp only [if_neg h2] at h ⊢
      by_cases h3 : (ps.matchK Tok.ID).la = Tok.LABELDEC
      · simp only [if_pos h3] at h ⊢
        obtain ⟨_, e2, s1⟩ := tail_shape ih _ h
        rw [stmtShape_split, stmtShape_split, stmtShape_mark, ih.p _ e2, s1]; rfl
      · simp only [if_neg h3] at h ⊢
        obtain ⟨_, e2, _⟩ := tail_shape ih _ h
        exact absurd e2 (err_ne _ _)
  simp only [if_neg h1] at h ⊢
  by_cases h2 : ps.la = Tok.LOOP ∨ ps.la = Tok.WHILE
  · simp only [if_pos h2] at h ⊢
    obtain ⟨_, e2, s1⟩ := tail_shape ih _ h
    have e3 := nil_of_le (mk_le _ Tok.END (by decide)) e2
    have s2 := ih.p _ e3
    rw [stmtShape_split, stmtShape_split, stmtShape_mark, s1]
    rw [stmtShape_loop _ (by split; exact Or.inl rfl; exact Or.inr rfl), s2]; rfl
  simp only [if_neg h2] at h ⊢
  by_cases h3 : ps.la = Tok.GOTO
  · simp only [if_pos h3] at h ⊢
    obtain ⟨_, _, s1⟩ := tail_shape ih _ h
    rw [stmtShape_split, stmtShape_goto, s1]; rfl
  simp only [if_neg h3] at h ⊢
  by_cases h4 : ps.la = Tok.IF
  · simp only [if_pos h4] at h ⊢
    obtain ⟨_, _, s1⟩ := tail_shape ih _ h
    rw [stmtShape_split, stmtShape_if, s1]; rfl
  simp only [if_neg h4] at h ⊢
  by_cases h5 : ps.la = Tok.STOP
  · simp only [if_pos h5] at h ⊢
    obtain ⟨_, _, s1⟩ := tail_shape ih _ h
    rw [stmtShape_split, stmtShape_stop, s1]; rfl
  · simp only [if_neg h5] at h ⊢
    have e1 := nil_of_le (ab.eeos _) h
    exact absurd e1 (err_ne _ _)

theorem sh_all : ∀ f, SH f
  | 0 => sh_zero
  | f + 1 =>
    have ih := sh_all f
    { value := sh_value ih, mv := sh_mv ih, p := sh_p ih, morep := sh_morep ih, s := sh_s ih }

theorem parseTokens_fst (ts : List Token) : (parseTokens ts).1 = (pS (parseFuel ts.length) ⟨ts, []⟩).1 := by
  simp only [parseTokens]

/-- an error-free parse produces a tree of the shape the generator and `toSource` rely on -/
theorem parser_shape (ts : List Token) (he : (parseTokens ts).2 = []) : AstShape (parseTokens ts).1 = true := by
  rw [parseTokens_snd] at he
  rw [parseTokens_fst]
  have h1 := pTrailing_le (ts.length + 1) (parseFuel ts.length) (pS (parseFuel ts.length) ⟨ts, []⟩).2
  exact (sh_all _).s _ (nil_of_le h1 he)

end Static
end Theo
