/-
  C01 budget, part 2: the simulation with step counts — the VM cannot finish early.

  `sim_step` (SimStep.lean) matches one step of the reference machine by `SP vm vm'` (at least one
  VM instruction) or by a stutter (`vm' = vm`, and `cmeasure` strictly decreases).  Hence between
  two VM instructions the reference machine makes at most `B` steps more than one, where `B`
  bounds `cmeasure` on the reachable configurations; with `n` = reference steps, `m` = VM
  instructions executed so far the iteration keeps

      n + cmeasure (iter n) ≤ (B + 1) * m + B.

  Determinism of the VM (`Steps.run`: the run from the initial state is unique and no state
  before the matched `HALT` is done) turns this into: a VM that is done after `m` instructions
  belongs to a reference execution that halts within `(B + 1) * (m + 1)` steps.
-/
import Theo.Proofs.SimCountWidth

set_option linter.unusedSimpArgs false
set_option linter.unusedSectionVars false

namespace Theo
namespace Sim
open Sem WF

section
variable {src : Source} {p : Program} {V : Valid src p} {c : Cert} {R : PcInfo}
  (hc : CertOK p c R) (hV : V.OK)
include hc hV

/-- `sim_iter` with the number of VM instructions exposed and related to the number of
    reference steps -/
theorem sim_iter_count {B : Nat} (hB : ∀ n, cmeasure (iter src n (initial src)) ≤ B) : ∀ n,
    ((iter src n (initial src)).status = .running →
      ∃ m vm, Steps (VM.mk' p) m vm ∧ Match V c R (iter src n (initial src)) vm ∧
        n + cmeasure (iter src n (initial src)) ≤ (B + 1) * m + B) ∧
    ((iter src n (initial src)).status = .halted →
      ∃ n0 m vm, (iter src n0 (initial src)).status = .halted ∧ n0 ≤ (B + 1) * (m + 1) ∧
        Steps (VM.mk' p) m vm ∧ Final (p := p) (iter src n0 (initial src)) vm) := by
  intro n
  induction n with
  | zero =>
    refine ⟨fun _ => ?_, fun h => ?_⟩
    · obtain ⟨vm, ⟨m, hs⟩, hm⟩ := init_match hc hV
      have := hB 0
      exact ⟨m, vm, hs, hm, by omega⟩
    · cases h
  | succ n ih =>
    have e : iter src (n + 1) (initial src) = Sem.step src (iter src n (initial src)) := rfl
    by_cases hr : (iter src n (initial src)).status = .running
    · obtain ⟨m, vm, hs, hm, hle⟩ := ih.1 hr
      have hres := sim_step hc hV hm
      rw [← e] at hres
      have hB1 := hB (n + 1)
      refine ⟨fun h => ?_, fun h => ?_⟩
      · cases hres with
        | run vm' _ hs' hm' =>
          rcases hs' with ⟨j, hj⟩ | ⟨rfl, hlt⟩
          · refine ⟨m + (j + 1), vm', hs.trans hj, hm', ?_⟩
            have e1 : (B + 1) * (m + (j + 1)) = (B + 1) * m + (B + 1) * j + (B + 1) := by
              rw [Nat.mul_add, Nat.mul_succ, Nat.add_assoc]
            omega
          · exact ⟨m, vm', hs, hm', by omega⟩
        | halt vm' hh _ _ => rw [hh] at h; cases h
      · cases hres with
        | run vm' hh _ _ => rw [hh] at h; cases h
        | halt vm' hh hs' hf =>
          obtain ⟨j, hj⟩ := hs'
          refine ⟨n + 1, m + j, vm', hh, ?_, hs.trans hj, hf⟩
          have e1 : (B + 1) * (m + j + 1) = (B + 1) * m + (B + 1) * j + (B + 1) := by
            rw [Nat.mul_succ, Nat.mul_add]
          omega
    · rw [e, step_fixed src _ hr]
      exact ⟨fun h => absurd h hr, ih.2⟩

/-- the VM cannot finish early: if it is done after `mm` instructions, the reference execution
    halts within `(B + 1) * (mm + 1)` steps, `B` a bound of the stutter measure -/
theorem budget_sim {B : Nat} (hB : ∀ n, cmeasure (iter src n (initial src)) ≤ B) {mm : Nat} {vmf : VM}
    (hrun : runFrom (VM.mk' p) mm = .ok vmf) (hd : vmf.isDone = .ok true) :
    ∃ n, n ≤ (B + 1) * (mm + 1) ∧ (iter src n (initial src)).status = .halted := by
  by_cases hex : ∃ n, (iter src n (initial src)).status = .halted
  · obtain ⟨n, hn⟩ := hex
    obtain ⟨n0, m, vm, h0, hle, hs, _⟩ := (sim_iter_count hc hV hB n).2 hn
    have hm : m ≤ mm := by
      apply Nat.le_of_not_lt
      intro hlt
      obtain ⟨vt, h1, h2⟩ := hs.run.2 mm hlt
      rw [hrun] at h1
      cases h1
      rw [hd] at h2
      cases h2
    exact ⟨n0, Nat.le_trans hle (Nat.mul_le_mul_left _ (by omega)), h0⟩
  · exfalso
    have hdiv : ∀ n, (iter src n (initial src)).status = .running := by
      intro n
      have h1 := (pinv_iter hV n).1
      have h2 : (iter src n (initial src)).status ≠ .halted := fun h => hex ⟨n, h⟩
      cases hst : (iter src n (initial src)).status with
      | running => rfl
      | halted => exact absurd hst h2
      | stuck => exact absurd hst h1
    obtain ⟨vt, h1, h2⟩ := diverges_sim hc hV hdiv mm
    rw [hrun] at h1
    cases h1
    rw [hd] at h2
    cases h2

end

end Sim
end Theo
