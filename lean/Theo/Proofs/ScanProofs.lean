/-
  Helper lemmas for C15 (and the scan-level part of C14).
-/
import Theo.Model.Gen

namespace Theo

/-! ### generic facts -/

@[simp] theorem ScanOut.append_toks (a b : ScanOut) : (a.append b).toks = a.toks ++ b.toks := rfl
@[simp] theorem ScanOut.append_errs (a b : ScanOut) : (a.append b).errs = a.errs ++ b.errs := rfl
@[simp] theorem ScanOut.append_fuelOut (a b : ScanOut) :
    (a.append b).fuelOut = (a.fuelOut || b.fuelOut) := rfl

/-- pigeonhole: a duplicate-free list contained in another list is not longer -/
theorem nodup_subset_length_le {α : Type} [DecidableEq α] :
    ∀ (l l' : List α), l.Nodup → (∀ a ∈ l, a ∈ l') → l.length ≤ l'.length
  | [], _, _, _ => Nat.zero_le _
  | a :: l, l', hn, hs => by
    have hn' := List.nodup_cons.1 hn
    have ih := nodup_subset_length_le l (l'.erase a) hn'.2 (fun b hb =>
      (List.mem_erase_of_ne (fun h => hn'.1 (by subst h; exact hb))).2 (hs b (List.mem_cons_of_mem _ hb)))
    have ha : a ∈ l' := hs a (List.mem_cons_self ..)
    have h1 : (l'.erase a).length = l'.length - 1 := List.length_erase_of_mem ha
    have h2 : 0 < l'.length := List.length_pos_of_mem ha
    simp only [List.length_cons]
    omega

theorem Files.get?_ne_none_iff (files : Files) (a : Bytes) :
    files.get? a ≠ none ↔ a ∈ files.map (·.1) := by
  unfold Files.get?
  induction files with
  | nil => simp
  | cons x xs ih =>
    by_cases h : x.1 = a
    · simp [h]
    · have h' : ¬ a = x.1 := fun e => h e.symm
      simp [h, h']

theorem Files.has_of_get? {files : Files} {a c : Bytes} (h : files.get? a = some c) :
    files.has a = true := by
  simp [Files.has, h]

theorem filterMap_ite_eq_filter_map {α β : Type} (p : α → Prop) [DecidablePred p] (f : α → β)
    (l : List α) :
    l.filterMap (fun e => if p e then some (f e) else none) = (l.filter (fun e => p e)).map f := by
  induction l with
  | nil => rfl
  | cons x xs ih =>
    by_cases h : p x <;> simp [h, ih]

/-! ### induction principle for `scanToksWith` -/

/-- Any property of scan outputs that is closed under `append` and holds for the atomic
    outputs holds for `scanToksWith`.  `Q` is a property of the raw tokens being scanned. -/
theorem scanToksWith_ind (P : ScanOut → Prop) (Q : RawTok → Prop)
    (sub : List Bytes → Bytes → Bytes → ScanOut) (files : Files) (active : List Bytes)
    (fname : Bytes)
    (hnil : P ⟨[], [], false⟩)
    (happ : ∀ a b, P a → P b → P (a.append b))
    (htok : ∀ t : RawTok, Q t → P ⟨[⟨t.kind, t.text, fname, t.line⟩], [], false⟩)
    (hef : ∀ l, P ⟨[], [⟨PErrT.EXPECTED_FILENAME, fname, l, []⟩], false⟩)
    (hnf : ∀ l n, files.get? n = none → P ⟨[], [⟨PErrT.FILE_NOT_FOUND, fname, l, n⟩], false⟩)
    (hrec : ∀ l, P ⟨[], [⟨PErrT.RECURSIVE_INCLUDE, fname, l, []⟩], false⟩)
    (hsub : ∀ n c, files.get? n = some c → active.contains n = false → P (sub active n c)) :
    ∀ ts : List RawTok, (∀ t ∈ ts, Q t) → P (scanToksWith sub files active fname ts) := by
  intro ts
  induction ts using scanToksWith.induct with
  | case1 => intro _; simpa [scanToksWith] using hnil
  | case2 t ht => intro _; simpa [scanToksWith, ht] using hef _
  | case3 t ht =>
    intro hq; simpa [scanToksWith, ht] using htok t (hq t (List.mem_singleton.2 rfl))
  | case4 t n rest ht hn ih =>
    intro hq
    rw [scanToksWith, if_pos ht, if_pos hn]
    exact happ _ _ (hef _) (ih (fun x hx => hq x (by simp [hx])))
  | case5 t n rest ht hn ih =>
    intro hq
    rw [scanToksWith, if_pos ht, if_neg hn]
    refine happ _ _ ?_ (ih (fun x hx => hq x (by simp [hx])))
    split
    · next h => exact hnf _ _ h
    · next c h =>
      split
      · exact hrec _
      · next hc => exact hsub _ _ h (by simpa using hc)
  | case6 t n rest ht ih =>
    intro hq
    rw [scanToksWith, if_neg ht]
    exact happ _ _ (htok t (hq t (by simp))) (ih (fun x hx => hq x (List.mem_cons_of_mem _ hx)))

/-! ### unfoldings (C15_include_cases, C15_expected_filename) -/

theorem scanToks_include (files : Files) (d : Nat) (active : List Bytes) (f : Bytes)
    (inc n : RawTok) (rest : List RawTok) (hi : inc.kind = Tok.INCLUDE) (hn : n.kind = Tok.FNAME) :
    scanToks files d active f (inc :: n :: rest) =
      (match files.get? (unquote n.text) with
       | none => (ScanOut.mk [] [⟨PErrT.FILE_NOT_FOUND, f, n.line, unquote n.text⟩] false)
       | some content =>
         if active.contains (unquote n.text) then
           (ScanOut.mk [] [⟨PErrT.RECURSIVE_INCLUDE, f, n.line, []⟩] false)
         else scanFile d files active (unquote n.text) content).append
      (scanToks files d active f rest) := by
  unfold scanToks
  rw [scanToksWith]
  rw [if_pos hi, if_neg (by simp [hn])]
  rfl

theorem scanToks_expected_filename (files : Files) (d : Nat) (active : List Bytes) (f : Bytes)
    (inc n : RawTok) (rest : List RawTok) (hi : inc.kind = Tok.INCLUDE) (hn : n.kind ≠ Tok.FNAME) :
    scanToks files d active f (inc :: n :: rest) =
      (ScanOut.mk [] [⟨PErrT.EXPECTED_FILENAME, f, n.line, []⟩] false).append
        (scanToks files d active f rest) ∧
    scanToks files d active f [inc] = ⟨[], [⟨PErrT.EXPECTED_FILENAME, f, inc.line, []⟩], false⟩ := by
  unfold scanToks
  constructor
  · rw [scanToksWith, if_pos hi, if_pos hn]
  · rw [scanToksWith, if_pos hi]

/-! ### termination (C15_terminates) -/

theorem scanFile_fuel (files : Files) :
    ∀ (d : Nat) (active : List Bytes) (fname content : Bytes),
      active.Nodup → (∀ a ∈ active, files.get? a ≠ none) → fname ∉ active →
      files.get? fname ≠ none → files.length ≤ active.length + d →
      (scanFile d files active fname content).fuelOut = false := by
  intro d
  induction d with
  | zero =>
    intro active fname content hnd hact hfn hf hlen
    exfalso
    have hnd' : (fname :: active).Nodup := List.nodup_cons.2 ⟨hfn, hnd⟩
    have hsub : ∀ a ∈ fname :: active, a ∈ files.map (·.1) := by
      intro a ha
      rcases List.mem_cons.1 ha with rfl | ha
      · exact (Files.get?_ne_none_iff files _).1 hf
      · exact (Files.get?_ne_none_iff files a).1 (hact a ha)
    have := nodup_subset_length_le _ _ hnd' hsub
    simp only [List.length_cons, List.length_map] at this
    omega
  | succ d ih =>
    intro active fname content hnd hact hfn hf hlen
    rw [scanFile]
    refine scanToksWith_ind (fun o => o.fuelOut = false) (fun _ => True) _ files (fname :: active)
      fname rfl ?_ (fun _ _ => rfl) (fun _ => rfl) (fun _ _ _ => rfl) (fun _ => rfl) ?_ _
      (fun _ _ => trivial)
    · intro a b ha hb; simp [ha, hb]
    · intro n c hget hc
      have hn : n ∉ fname :: active := by simpa using hc
      refine ih (fname :: active) n c (List.nodup_cons.2 ⟨hfn, hnd⟩) ?_ hn (by simp [hget]) ?_
      · intro a ha
        rcases List.mem_cons.1 ha with rfl | ha
        · exact hf
        · exact hact a ha
      · simp only [List.length_cons]; omega

theorem scan_fuelOut (files : Files) (main : Bytes) : (scan files main).fuelOut = false := by
  unfold scan
  simp only
  split
  · next content h =>
    exact scanFile_fuel files _ [] main content List.nodup_nil (fun _ h => nomatch h)
      (fun h => nomatch h) (by simp [h]) (by simp)
  · rfl

/-! ### error kinds (C15_main_missing, C15_missing_are_absent) -/

theorem scanFile_err_kinds (files : Files) :
    ∀ (d : Nat) (active : List Bytes) (fname content : Bytes),
      ∀ e ∈ (scanFile d files active fname content).errs,
        e.kind = PErrT.EXPECTED_FILENAME ∨ e.kind = PErrT.FILE_NOT_FOUND ∨
          e.kind = PErrT.RECURSIVE_INCLUDE := by
  intro d
  induction d with
  | zero => intro active fname content e he; simp [scanFile] at he
  | succ d ih =>
    intro active fname content
    rw [scanFile]
    refine scanToksWith_ind
      (fun o => ∀ e ∈ o.errs, e.kind = PErrT.EXPECTED_FILENAME ∨ e.kind = PErrT.FILE_NOT_FOUND ∨
          e.kind = PErrT.RECURSIVE_INCLUDE) (fun _ => True) _ files (fname :: active)
      fname ?_ ?_ ?_ ?_ ?_ ?_ ?_ _ (fun _ _ => trivial)
    · intro e he; simp at he
    · intro a b ha hb e he
      rcases List.mem_append.1 he with h | h
      · exact ha e h
      · exact hb e h
    · intro t _ e he; simp at he
    · intro l e he; simp at he; simp [he]
    · intro l n _ e he; simp at he; simp [he]
    · intro l e he; simp at he; simp [he]
    · intro n c _ _; exact ih _ _ _

theorem scanFile_missing_absent (files : Files) :
    ∀ (d : Nat) (active : List Bytes) (fname content : Bytes),
      ∀ e ∈ (scanFile d files active fname content).errs,
        e.kind = PErrT.FILE_NOT_FOUND → files.get? e.req = none := by
  intro d
  induction d with
  | zero => intro active fname content e he; simp [scanFile] at he
  | succ d ih =>
    intro active fname content
    rw [scanFile]
    refine scanToksWith_ind
      (fun o => ∀ e ∈ o.errs, e.kind = PErrT.FILE_NOT_FOUND → files.get? e.req = none)
      (fun _ => True) _ files (fname :: active)
      fname ?_ ?_ ?_ ?_ ?_ ?_ ?_ _ (fun _ _ => trivial)
    · intro e he; simp at he
    · intro a b ha hb e he
      rcases List.mem_append.1 he with h | h
      · exact ha e h
      · exact hb e h
    · intro t _ e he; simp at he
    · intro l e he hk; simp at he; subst he
      simp [PErrT.EXPECTED_FILENAME, PErrT.FILE_NOT_FOUND] at hk
    · intro l n hn e he _; simp at he; subst he; exact hn
    · intro l e he hk; simp at he; subst he
      simp [PErrT.RECURSIVE_INCLUDE, PErrT.FILE_NOT_FOUND] at hk
    · intro n c _ _; exact ih _ _ _

/-- the body of `scan` (before the EOF token is appended) -/
def scanBody (files : Files) (main : Bytes) : ScanOut :=
  match files.get? main with
  | some content => scanFile (files.length + 1) files [] main content
  | none => ⟨[], [⟨PErrT.MAIN_FILE_NOT_FOUND, bDash, -1, main⟩], false⟩

def scanEof (files : Files) (main : Bytes) : Token :=
  match (scanBody files main).toks.getLast? with
  | some t => ⟨Tok.T_EOF, bEOF, t.file, t.line⟩
  | none =>
    if files.has main then ⟨Tok.T_EOF, bEOF, main, 1⟩
    else ⟨Tok.T_EOF, bEOF, bDash, -1⟩

theorem scan_toks (files : Files) (main : Bytes) :
    (scan files main).toks = (scanBody files main).toks ++ [scanEof files main] := rfl

theorem scan_errs (files : Files) (main : Bytes) :
    (scan files main).errs =
      match files.get? main with
      | some content => (scanFile (files.length + 1) files [] main content).errs
      | none => [⟨PErrT.MAIN_FILE_NOT_FOUND, bDash, -1, main⟩] := by
  show (scanBody files main).errs = _
  unfold scanBody
  split <;> rfl

theorem scan_main_missing (files : Files) (main : Bytes) :
    (files.get? main = none →
      (scan files main).errs = [⟨PErrT.MAIN_FILE_NOT_FOUND, bDash, -1, main⟩]) ∧
    (files.get? main ≠ none →
      ∀ e ∈ (scan files main).errs, e.kind ≠ PErrT.MAIN_FILE_NOT_FOUND) := by
  rw [scan_errs]
  constructor
  · intro h; simp [h]
  · intro h e he
    split at he
    · have := scanFile_err_kinds files _ _ _ _ e he
      intro hk
      rw [hk] at this
      revert this; decide
    · next h' => exact absurd h' h

theorem scan_missing_absent (files : Files) (main : Bytes) (e : PErr)
    (he : e ∈ (scan files main).errs) (hk : e.kind = PErrT.FILE_NOT_FOUND) :
    files.get? e.req = none := by
  rw [scan_errs] at he
  split at he
  · exact scanFile_missing_absent files _ _ _ _ e he hk
  · simp at he; subst he
    simp [PErrT.MAIN_FILE_NOT_FOUND, PErrT.FILE_NOT_FOUND] at hk

/-! ### file requests (C15_file_requests) -/

theorem compile_requests (files : Files) (main : Bytes) :
    ∃ files' : Files, (compile files main).requests =
      ((scan files' main).errs.filter (fun e =>
          e.kind = PErrT.FILE_NOT_FOUND ∨ e.kind = PErrT.MAIN_FILE_NOT_FOUND)).map (·.req) := by
  refine ⟨((if files.has ConstGen.stdFileName then files
      else files ++ [(ConstGen.stdFileName, ConstGen.stdMacroText)]).map
        (fun e => if e.1 = main then (e.1, ConstGen.includePhrase ++ e.2) else e)), ?_⟩
  unfold compile parseFiles
  simp only []
  exact filterMap_ite_eq_filter_map
    (fun e : PErr => e.kind = PErrT.FILE_NOT_FOUND ∨ e.kind = PErrT.MAIN_FILE_NOT_FOUND) (·.req) _

/-! ### tokens (C14) -/

theorem lexFrom_kind_ne (rules : List (Rx × Option Nat)) (k0 : Nat)
    (hr : ∀ r ∈ rules, r.2 ≠ some k0) :
    ∀ (fuel : Nat) (inp : Bytes) (line : Nat), ∀ t ∈ lexFrom rules fuel inp line, t.kind ≠ k0 := by
  intro fuel
  induction fuel with
  | zero => intro inp line t ht; simp [lexFrom] at ht
  | succ fuel ih =>
    intro inp line t ht
    unfold lexFrom at ht
    split at ht
    · simp at ht
    · split at ht
      · simp at ht
      · next i n _ =>
        simp only at ht
        split at ht
        · next k hk =>
          rcases List.mem_cons.1 ht with rfl | ht
          · simp only
            cases hri : rules[i]? with
            | none => simp [hri] at hk
            | some r =>
              simp only [hri, Option.bind_some] at hk
              intro hk0
              exact hr r (List.mem_of_getElem? hri) (hk0 ▸ hk)
          · exact ih _ _ t ht
        · exact ih _ _ t ht

theorem lexRules_not_eof : ∀ r ∈ LexGen.rules, r.2 ≠ some Tok.T_EOF := by
  have h : LexGen.rules.all (fun r => r.2 != some 0) = true := by decide +kernel
  intro r hr
  have := List.all_eq_true.1 h r hr
  simpa [Tok.T_EOF] using this

theorem lexBuffer_kind_ne_eof (content : Bytes) : ∀ t ∈ lexBuffer content, t.kind ≠ Tok.T_EOF :=
  lexFrom_kind_ne _ _ lexRules_not_eof _ _ _

theorem scanFile_tok_kinds (files : Files) :
    ∀ (d : Nat) (active : List Bytes) (fname content : Bytes),
      ∀ t ∈ (scanFile d files active fname content).toks, t.kind ≠ Tok.T_EOF := by
  intro d
  induction d with
  | zero => intro active fname content t ht; simp [scanFile] at ht
  | succ d ih =>
    intro active fname content
    rw [scanFile]
    refine scanToksWith_ind (fun o => ∀ t ∈ o.toks, t.kind ≠ Tok.T_EOF)
      (fun t => t.kind ≠ Tok.T_EOF) _ files (fname :: active)
      fname ?_ ?_ ?_ ?_ ?_ ?_ ?_ _ (lexBuffer_kind_ne_eof content)
    · intro t ht; simp at ht
    · intro a b ha hb t ht
      rcases List.mem_append.1 ht with h | h
      · exact ha t h
      · exact hb t h
    · intro r hr t ht; simp at ht; subst ht; exact hr
    · intro l t ht; simp at ht
    · intro l n _ t ht; simp at ht
    · intro l t ht; simp at ht
    · intro n c _ _; exact ih _ _ _

theorem scanFile_tok_files (files : Files) :
    ∀ (d : Nat) (active : List Bytes) (fname content : Bytes), files.has fname = true →
      ∀ t ∈ (scanFile d files active fname content).toks, files.has t.file = true := by
  intro d
  induction d with
  | zero => intro active fname content _ t ht; simp [scanFile] at ht
  | succ d ih =>
    intro active fname content hf
    rw [scanFile]
    refine scanToksWith_ind (fun o => ∀ t ∈ o.toks, files.has t.file = true)
      (fun _ => True) _ files (fname :: active)
      fname ?_ ?_ ?_ ?_ ?_ ?_ ?_ _ (fun _ _ => trivial)
    · intro t ht; simp at ht
    · intro a b ha hb t ht
      rcases List.mem_append.1 ht with h | h
      · exact ha t h
      · exact hb t h
    · intro r _ t ht; simp at ht; subst ht; exact hf
    · intro l t ht; simp at ht
    · intro l n _ t ht; simp at ht
    · intro l t ht; simp at ht
    · intro n c hget _; exact ih _ _ _ (Files.has_of_get? hget)

theorem scanEof_kind (files : Files) (main : Bytes) : (scanEof files main).kind = Tok.T_EOF := by
  unfold scanEof
  split
  · rfl
  · split <;> rfl

theorem scanBody_tok_kinds (files : Files) (main : Bytes) :
    ∀ t ∈ (scanBody files main).toks, t.kind ≠ Tok.T_EOF := by
  unfold scanBody
  split
  · exact scanFile_tok_kinds files _ _ _ _
  · intro t ht; simp at ht

theorem scanBody_tok_files (files : Files) (main : Bytes) :
    ∀ t ∈ (scanBody files main).toks, files.has t.file = true := by
  unfold scanBody
  split
  · next c h => exact scanFile_tok_files files _ _ _ _ (Files.has_of_get? h)
  · intro t ht; simp at ht

theorem scan_one_eof (files : Files) (main : Bytes) :
    ∃ body eof, (scan files main).toks = body ++ [eof] ∧ eof.kind = Tok.T_EOF ∧
      (∀ t ∈ body, t.kind ≠ Tok.T_EOF) ∧
      (∀ l, body.getLast? = some l → eof.file = l.file ∧ eof.line = l.line) := by
  refine ⟨(scanBody files main).toks, scanEof files main, scan_toks files main,
    scanEof_kind files main, scanBody_tok_kinds files main, ?_⟩
  intro l hl
  unfold scanEof
  rw [hl]
  exact ⟨rfl, rfl⟩

theorem scan_token_files (files : Files) (main : Bytes) (t : Token)
    (ht : t ∈ (scan files main).toks) (hk : t.kind ≠ Tok.T_EOF) : files.has t.file = true := by
  rw [scan_toks] at ht
  rcases List.mem_append.1 ht with h | h
  · exact scanBody_tok_files files main t h
  · simp at h; subst h
    exact absurd (scanEof_kind files main) hk

end Theo
