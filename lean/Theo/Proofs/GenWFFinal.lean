/-
  C03 for the generator, part 8: the whole tree (definitions, then the main body), the final
  steps of `gen` (root stack map, patched root PREPARE, HALT, backpatching), and the result:
  for a tree of parser shape on which `gen` records no error, the emitted program is locally
  well-formed, hence passes the certificate checker — with an explicit certificate and with
  the inferred one.
-/
import Theo.Proofs.GenWFProg
import Theo.Proofs.GenWFRegion
import Theo.Proofs.GenWFCert
import Theo.Proofs.GenWFInfer
import Theo.Proofs.GenTables

namespace Theo
namespace GenWF
open GS Static

/-! ### the tree -/

theorem topInv_advanceLine {gs : GS} {rts : List Rt} (h : TopInv gs rts) (line : Int) (file : Bytes) :
    TopInv (gs.advanceLine line file) rts := by
  obtain ⟨hcore, hfa, hmarks⟩ := h
  obtain ⟨k, a1, a2, a3, a4, a5, a6⟩ := advanceLine_shape gs line file
  refine ⟨?_, by rw [a6]; exact hfa, by rw [advanceLine_top]; exact hmarks⟩
  rw [a2, a3, a5]
  refine hcore.transport ?_ ?_ ?_ ?_
  · rw [a1]; have := (List.getElem?_eq_some_iff.1 hcore.head).1; simp; omega
  · intro pc h1 _; rw [a1, List.getElem?_append_left h1]
  · intro pc h1 h2
    rw [a1] at h2 ⊢
    rw [List.getElem?_append_right h1, List.getElem?_replicate, if_pos (by simp at h2; omega)]
  · intro pc h1 h2; rw [a1] at h1; simp at h1; omega

theorem binv_of_topInv {gs : GS} {rts : List Rt} (h : TopInv gs rts)
    (hn : gs.code.getLast? ≠ some Instr.potBreak) : BInv (Callee rts rts.length) gs gs :=
  BInv.start (MarksWF.of_nil h.2.2) h.2.2 h.2.1 hn

theorem top_inv : ∀ (f : Nat) (gs : GS) (root : Node) (rts : List Rt), AstShape root = true →
    TopInv gs rts → gs.code.getLast? ≠ some Instr.potBreak → (dispatchVoid f gs root).errors = [] →
    ∃ rts' g0, TopInv g0 rts' ∧ BInv (Callee rts' rts'.length) g0 (dispatchVoid f gs root) := by
  intro f
  induction f with
  | zero =>
    intro gs root rts _ h hn _
    rw [dispatchVoid_zero]
    exact ⟨rts, gs, h, binv_of_topInv h hn⟩
  | succ f ih =>
    intro gs root rts hs h hn he
    cases root with
    | nil => rw [dispatchVoid_nil]; exact ⟨rts, gs, h, binv_of_topInv h hn⟩
    | mk t tok file line l r =>
      by_cases hp : t = NodeT.SPLIT ∧ l.ty = NodeT.PROGRAM
      · obtain ⟨ht, hl⟩ := hp
        subst ht
        cases l with
        | nil => simp [Node.ty, NodeT.PROGRAM] at hl
        | mk t2 tok2 file2 line2 l2 r2 =>
          have ht2 : t2 = NodeT.PROGRAM := hl
          subst ht2
          have hs' : stmtShape r2 = true ∧ AstShape r = true := by
            rw [AstShape] at hs
            simpa [Node.ty, Node.right] using hs
          rw [dispatchVoid_succ] at he ⊢
          dsimp only at he ⊢
          rw [if_pos rfl] at he ⊢
          cases f with
          | zero =>
            rw [dispatchVoid_zero, dispatchVoid_zero]
            exact ⟨rts, gs, h, (binv_of_topInv h hn).advanceLine line file⟩
          | succ f' =>
            have h0 := topInv_advanceLine h line file
            have e1 := (step_void (f' + 1) _ r).errs he
            obtain ⟨rt, h1, h2⟩ := prog_step f' _ rts tok2 file2 line2 l2 r2 hs'.1 h0 e1
            exact ih _ r (rts ++ [rt]) hs'.2 h1 h2 he
      · have hs' : stmtShape (.mk t tok file line l r) = true := by
          rw [AstShape, if_neg hp] at hs; exact hs
        exact ⟨rts, gs, h, (bi_void _ gs (f + 1) gs _ hs' (binv_of_topInv h hn) he).1⟩

/-! ### the final steps of `gen` -/

theorem fixHead_code (c : GS) (p : ProgRec) (x y t : Int) (rest : List Instr)
    (hl : c.lookupFunc bRoot = some p) (hc : c.code = Instr.prepare x y t :: rest) :
    (fixHead c).code = Instr.prepare p.stackSize p.mi t :: rest ∧ (fixHead c).labels = c.labels ∧
      (fixHead c).todo = c.todo ∧ (fixHead c).stackMaps = c.stackMaps ∧ (fixHead c).potBreaks = c.potBreaks ∧
      (fixHead c).lineInfo = c.lineInfo := by
  unfold fixHead
  rw [hl, hc]
  exact ⟨rfl, rfl, rfl, rfl, rfl, rfl⟩

theorem topInv_gs1 : TopInv gs1 [] := by
  refine ⟨⟨rfl, rfl, ?_, ?_, ?_, ?_, ?_⟩, ?_, rfl⟩
  · intro k r hr; simp at hr
  · intro j k rj rk _ hj; simp at hj
  · intro k r hr; simp at hr
  · rfl
  · intro pc h1 h2
    have : gs1.code.length = 1 := rfl
    omega
  · intro e he
    have : gs1.funcAddrs = [] := rfl
    rw [this] at he; cases he

theorem sitesOKb_of {p : Program} (h : SitesOK p) : sitesOKb p = true := by
  unfold sitesOKb
  rw [Bool.and_eq_true]
  refine ⟨?_, ?_⟩
  · rw [List.all_eq_true]
    intro e he
    rw [List.all_eq_true]
    intro i hi
    have := h.1 e he i hi
    rw [Bool.and_eq_true, decide_eq_true_eq, beq_iff_eq]
    exact this
  · cases hc : p.code.contains Instr.brk with
    | false => rfl
    | true => exact absurd (List.contains_iff_mem.1 hc) h.2

/-- the layout of the generated code -/
theorem gen_facts (errs : List SynErr) (root : Node) (hsh : AstShape root = true)
    (hE : (gen ⟨true, errs, root⟩).errors = []) :
    ∃ P L td SM rts n0 seg FR lo0 F pb li, PFacts P L td SM rts n0 seg FR lo0 ∧
      (∀ pc, F[pc]? = (P[pc]?).map (patch L pc)) ∧ (gen ⟨true, errs, root⟩).code = ⟨F, SM, pb, li⟩ := by
  rw [gen_errors_eq] at hE
  have hcode : (gen ⟨true, errs, root⟩).code =
      ⟨(backpatch ((fixHead ((dispatchVoid (nodeSize root + 1) gs1 root).popSymbols 0)).emit .halt)).code,
       (backpatch ((fixHead ((dispatchVoid (nodeSize root + 1) gs1 root).popSymbols 0)).emit .halt)).stackMaps,
       (backpatch ((fixHead ((dispatchVoid (nodeSize root + 1) gs1 root).popSymbols 0)).emit .halt)).potBreaks,
       (backpatch ((fixHead ((dispatchVoid (nodeSize root + 1) gs1 root).popSymbols 0)).emit .halt)).lineInfo⟩ := rfl
  rw [hcode]
  clear hcode
  obtain ⟨g1, g2, g3, g4, g5⟩ := gs1_facts
  have hst := step_void (nodeSize root + 1) gs1 root
  have w1 : MarksWF gs1 := MarksWF.of_nil g2
  have t1 : TodoOK gs1 := ⟨by rw [g4]; exact List.nodup_nil, by rw [g4]; intro _ h; cases h⟩
  have a1 : LabAcc (fun _ => False) gs1 := by
    intro _ l hl; rw [g3] at hl; cases hl
  have tb := hst.todoOK w1 t1
  have ab := hst.acc _ a1
  have hname : (dispatchVoid (nodeSize root + 1) gs1 root).top.name = bRoot := hst.name
  have htop := top_inv (nodeSize root + 1) gs1 root [] hsh topInv_gs1 (by intro h; cases h)
  generalize dispatchVoid (nodeSize root + 1) gs1 root = b at hst tb ab hname htop hE ⊢
  have ps := popSymbols_spec b 0
  obtain ⟨q1, q2, q3, _, q5, q6⟩ := popSymbols_fields b 0
  generalize b.popSymbols 0 = c at ps q1 q2 q3 q5 q6 hE ⊢
  obtain ⟨f1, f2, f3⟩ := fixHead_spec c
  have tc : TodoOK c := TodoOK.safe ps.todo (by rw [ps.labels]; exact Nat.le_refl _) (ps.code ▸ CodeSafe.refl _) tb
  have td : TodoOK ((fixHead c).emit .halt) := (quiet_emit _ _).todoOK (f3 tc)
  have hce : ((fixHead c).emit .halt).errors = c.errors := f1
  have he0 := backpatch_mono _ hE
  rw [hce] at he0
  obtain ⟨hb0, hmset⟩ := ps.errs.1 he0
  have hallb : ∀ l, l < b.labels.length → isSet b l := by
    intro l hl
    rcases ab hb0 l hl with h2 | h2 | ⟨e, he, hel⟩
    · exact h2
    · exact absurd h2 id
    · exact hel ▸ hmset e he
  have hlabe : ((fixHead c).emit .halt).labels = b.labels := by rw [emit_labels, f2, ps.labels]
  have halle : ∀ l, l < ((fixHead c).emit .halt).labels.length → isSet ((fixHead c).emit .halt) l := by
    intro l hl
    rw [hlabe] at hl
    exact (isSet_congr hlabe l).2 (hallb l hl)
  -- the tree
  obtain ⟨rts, g0, hT, seg, hb⟩ := htop hb0
  obtain ⟨hcore, hfa, _⟩ := hT
  have hn0 : 0 < g0.code.length := (List.getElem?_eq_some_iff.1 hcore.head).1
  -- the head of the code
  have hbhead : b.code[0]? = some (Instr.prepare (-1) (-1) 0) := by
    rw [hb.code, List.getElem?_append_left hn0]; exact hcore.head
  obtain ⟨rest, hrest⟩ : ∃ rest, b.code = Instr.prepare (-1) (-1) 0 :: rest := by
    cases hbc : b.code with
    | nil => rw [hbc] at hbhead; simp at hbhead
    | cons x xs => rw [hbc] at hbhead; simp at hbhead; exact ⟨xs, by rw [hbhead]⟩
  have hlook : c.lookupFunc bRoot = some ⟨0, ((b.stackMaps.length + 1 : Nat) : Int) - 1, b.top.argnum, b.top.regs.length⟩ := by
    unfold lookupFunc
    rw [q6, List.find?_cons_of_pos (by simp [hname])]
    rfl
  obtain ⟨d1, d2, d3, d4, _, _⟩ := fixHead_code c _ (-1) (-1) 0 rest hlook (by rw [q1]; exact hrest)
  simp only at d1
  have hmi : ((b.stackMaps.length + 1 : Nat) : Int) - 1 = (rts.length : Int) := by
    rw [hb.sm, hcore.nsm]; omega
  rw [hmi] at d1
  -- the code before backpatching
  generalize hP : ((fixHead c).emit .halt).code = P
  have hPdef : P = (Instr.prepare (b.top.regs.length : Int) (rts.length : Int) 0 :: rest) ++ [Instr.halt] := by
    rw [← hP, emit_code, d1]
  have hblen : b.code.length = rest.length + 1 := by rw [hrest]; simp
  have hPlen : P.length = b.code.length + 1 := by rw [hPdef, hblen]; simp
  have hP0 : P[0]? = some (Instr.prepare (b.top.regs.length : Int) (rts.length : Int) 0) := by rw [hPdef]; rfl
  have hPpos : ∀ pc, 1 ≤ pc → pc < b.code.length → P[pc]? = b.code[pc]? := by
    intro pc h1 h2
    rw [hPdef, hrest]
    rw [List.getElem?_append_left (by simp; omega)]
    cases pc with
    | zero => omega
    | succ n => rfl
  have hPhalt : P[b.code.length]? = some Instr.halt := by
    rw [hPdef, hblen, List.getElem?_append_right (by simp)]
    simp
  have hbclen : b.code.length = g0.code.length + seg.length := by rw [hb.code]; simp
  have hPg0 : ∀ pc, 1 ≤ pc → pc < g0.code.length → P[pc]? = g0.code[pc]? := by
    intro pc h1 h2
    rw [hPpos pc h1 (by omega), hb.code, List.getElem?_append_left h2]
  have hPseg : ∀ k, k < seg.length → P[g0.code.length + k]? = seg[k]? := by
    intro k hk
    rw [hPpos _ (by omega) (by omega), hb.code, List.getElem?_append_right (by omega)]
    congr 1; omega
  have hPret : ∀ i, i < g0.code.length → (P[i]?).map isRet = (g0.code[i]?).map isRet := by
    intro i hi
    cases i with
    | zero => rw [hP0, hcore.head]; rfl
    | succ n => rw [hPg0 _ (by omega) hi]
  have htodo : ((fixHead c).emit .halt).todo = b.todo := by rw [emit_todo, d3, q3]
  have hsm : ((fixHead c).emit .halt).stackMaps = g0.stackMaps ++ [popMap b] := by
    rw [emit_stackMaps', d4, q5, hb.sm]
  -- every jump is on the backpatch list
  have hjt : ∀ pc i, ((fixHead c).emit .halt).code[pc]? = some i → isJump i = true →
      pc ∈ ((fixHead c).emit .halt).todo := by
    intro pc i hi hj
    rw [hP] at hi
    rw [htodo]
    cases pc with
    | zero => rw [hP0] at hi; rw [← Option.some.inj hi] at hj; cases hj
    | succ n =>
      have hlt : n + 1 < P.length := (List.getElem?_eq_some_iff.1 hi).1
      by_cases hm : g0.code.length ≤ n + 1
      · by_cases hl : n + 1 = b.code.length
        · rw [hl, hPhalt] at hi; rw [← Option.some.inj hi] at hj; cases hj
        · have hk : n + 1 = g0.code.length + (n + 1 - g0.code.length) := by omega
          rw [hk] at hi ⊢
          rw [hPseg _ (by omega)] at hi
          exact hb.todoNew _ i hi hj
      · rw [hPg0 _ (by omega) (by omega)] at hi
        by_cases hreg : ∃ r ∈ rts, r.entry ≤ n + 1 ∧ n + 1 ≤ r.ret
        · obtain ⟨r, hr, h1, h2⟩ := hreg
          obtain ⟨k, hk⟩ := List.mem_iff_getElem?.1 hr
          have ok := hcore.rt k r hk
          by_cases hret : n + 1 = r.ret
          · obtain ⟨s, hs1, _⟩ := ok.retI
            rw [hret, hs1] at hi
            rw [← Option.some.inj hi] at hj; cases hj
          · exact hb.todoOld _ (ok.jtodos _ i h1 (by omega) hi hj)
        · rcases hcore.root (n + 1) (by omega) (by omega) (fun r hr hh => hreg ⟨r, hr, hh⟩) with h4 | ⟨r, hr, h4⟩
          · rw [h4] at hi; rw [← Option.some.inj hi] at hj; cases hj
          · obtain ⟨k, hk⟩ := List.mem_iff_getElem?.1 hr
            have ok := hcore.rt k r hk
            have : r.entry - 1 = n + 1 := by omega
            rw [← this]
            exact hb.todoOld _ ok.jtodo
  obtain ⟨bp1, bp2, bp3⟩ := backpatch_spec _ td halle hjt
  rw [hP, hlabe] at bp3
  refine ⟨P, b.labels, b.todo, g0.stackMaps ++ [popMap b], rts, g0.code.length, seg, b.top.regs.length,
    g0.labels.length, _, _, _, ?_, bp3, by rw [bp2, hsm]⟩
  -- the facts
  have hsmpre : ∀ (i : Nat) (sm : StackMap), g0.stackMaps[i]? = some sm → (g0.stackMaps ++ [popMap b])[i]? = some sm :=
    fun i sm hx => getElem?_append_one _ _ _ _ hx
  refine ⟨hP0, ?_, fun k r hr => (hcore.rt k r hr).rl, hcore.ord, ?_, ?_, ?_, hn0, by rw [hPlen, hbclen], hPseg,
    by rw [← hbclen]; exact hPhalt, hb.groups, ?_, ?_⟩
  · intro k r hr
    have ok := hcore.rt k r hr
    exact ok.mono (fun pc h1 h2 => hPg0 pc h1 (by have := ok.rl; omega))
      (fun l hl => hb.labold l (by have := ok.hil; omega)) hb.todoOld hsmpre (fun _ _ hx => hx)
  · intro k r hr
    have ok := hcore.rt k r hr
    rw [← hcore.cnt k r hr]
    exact countRet_congr (fun i hi => hPret i (by have := ok.rl; have := ok.er; omega))
  · have hnr := hb.groups.noRet
    rw [hPlen, hbclen]
    rw [countRet_extend P g0.code.length (g0.code.length + seg.length + 1) (by omega) ?_]
    · rw [← hcore.cntAll]
      exact countRet_congr hPret
    · intro i h1 h2
      by_cases hl : i = g0.code.length + seg.length
      · rw [hl, ← hbclen, hPhalt]; simp [isRet]
      · have hk : i = g0.code.length + (i - g0.code.length) := by omega
        rw [hk, hPseg _ (by omega)]
        have hlt : i - g0.code.length < seg.length := by omega
        rw [List.getElem?_eq_getElem hlt]
        simp [hnr _ (List.getElem_mem hlt)]
  · intro pc h1 h2 h3
    rw [hPg0 pc h1 h2]
    exact hcore.root pc h1 h2 h3
  · intro l h1 h2
    rcases hb.labnew l h1 h2 with h3 | h3
    · exfalso
      have := hallb l h2
      unfold isSet at this
      rw [h3] at this
      exact this rfl
    · exact h3
  · refine ⟨popMap b, ?_, popMap_regs b⟩
    rw [← hcore.nsm, List.getElem?_append_right (Nat.le_refl _)]
    simp

/-- the generated program is locally well-formed -/
theorem gen_localWF (errs : List SynErr) (root : Node) (hsh : AstShape root = true)
    (hE : (gen ⟨true, errs, root⟩).errors = []) :
    ∃ fr rd R, LocalWF (gen ⟨true, errs, root⟩).code fr rd R := by
  obtain ⟨P, L, td, SM, rts, n0, seg, FR, lo0, F, pb, li, hf, hF, hcode⟩ := gen_facts errs root hsh hE
  have hs : sitesOKb (gen ⟨true, errs, root⟩).code = true := sitesOKb_of (gen_sitesOK _)
  rw [hcode] at hs ⊢
  exact ⟨_, _, _, localWF_of_facts hf hF hs⟩

theorem gen_certified (errs : List SynErr) (root : Node) (hsh : AstShape root = true)
    (hE : (gen ⟨true, errs, root⟩).errors = []) :
    ∃ c, checkCert (gen ⟨true, errs, root⟩).code c = true := by
  obtain ⟨fr, rd, R, h⟩ := gen_localWF errs root hsh hE
  exact ⟨_, checkCert_of_localWF h⟩

theorem gen_wfCheck (errs : List SynErr) (root : Node) (hsh : AstShape root = true)
    (hE : (gen ⟨true, errs, root⟩).errors = []) : wfCheck (gen ⟨true, errs, root⟩).code = true := by
  obtain ⟨fr, rd, R, h⟩ := gen_localWF errs root hsh hE
  exact wfCheck_of_cert (checkCert_of_localWF h) (hcal_of_localWF h)

end GenWF
end Theo
