/-
  C01 for the generator model, part 1: vocabulary.
  Sites (`skipc`), backpatching as a map over the code (`patch`, `Agree`), the register file of a
  routine and the stack map the validator reads (`smap`, `regOf`, `ctrOf`, `isNamed`), and the
  invariants of the register file (`TempNamed`, `NTNodup`, `CtrInv`, `RegsExt`, `KeepUse`).
-/
import Theo.Spec.Shape
import Theo.Proofs.StaticProofs
import Theo.Proofs.SimDigits
import Theo.Proofs.SimShape

set_option linter.unusedSimpArgs false
set_option linter.unusedVariables false

namespace Theo
namespace GenShape
open GS Sem Static

/-! ### lists -/

theorem prefix_getElem? {α} {a b : List α} (h : a <+: b) {p : Nat} {x : α} (hp : a[p]? = some x) :
    b[p]? = some x := by
  obtain ⟨t, rfl⟩ := h
  have hl : p < a.length := (List.getElem?_eq_some_iff.1 hp).1
  rw [List.getElem?_append_left hl]; exact hp

theorem prefix_append_self {α} (a b : List α) : a <+: a ++ b := ⟨b, rfl⟩

theorem getElem?_append_len {α} (a : List α) (x : α) (t : List α) : (a ++ x :: t)[a.length]? = some x := by
  rw [List.getElem?_append_right (Nat.le_refl _)]; simp

theorem getElem?_snoc_len {α} (a : List α) (x : α) : (a ++ [x])[a.length]? = some x :=
  getElem?_append_len a x []

/-! ### sites -/

theorem skipPB_fuel (C : List Instr) : ∀ (f pc : Nat), C.length ≤ pc + f → skipPB C (f + 1) pc = skipPB C f pc := by
  intro f
  induction f with
  | zero =>
    intro pc h
    simp only [skipPB]
    rw [List.getElem?_eq_none (by omega)]
  | succ f ih =>
    intro pc h
    rw [skipPB]
    conv => rhs; rw [skipPB]
    split
    · exact ih (pc + 1) (by omega)
    · rfl

theorem skipc_pb {C : List Instr} {p : Nat} (h : C[p]? = some Instr.potBreak) : skipc C p = skipc C (p + 1) := by
  unfold skipc
  have hl : p < C.length := (List.getElem?_eq_some_iff.1 h).1
  obtain ⟨f, hf⟩ : ∃ f, C.length = f + 1 := ⟨C.length - 1, by omega⟩
  rw [hf]
  conv => lhs; rw [skipPB]
  rw [h]
  simp only
  rw [skipPB_fuel C f (p + 1) (by omega)]

theorem skipc_range {C : List Instr} : ∀ (n a : Nat),
    (∀ p, a ≤ p → p < a + n → C[p]? = some Instr.potBreak) → skipc C a = skipc C (a + n) := by
  intro n
  induction n with
  | zero => intro a _; rfl
  | succ n ih =>
    intro a h
    rw [skipc_pb (h a (Nat.le_refl _) (by omega)), ih (a + 1) (fun p h1 h2 => h p (by omega) (by omega))]
    congr 1; omega

theorem skipc_eq_self {C : List Instr} {p : Nat} {i : Instr} (h : C[p]? = some i) (hn : i ≠ Instr.potBreak) :
    skipc C p = p :=
  Sim.skipc_of_not_pb (by rw [h]; intro h'; exact hn (Option.some.inj h'))

/-! ### backpatching as a map over the code -/

def isJmp : Instr → Bool
  | .jmp _ => true
  | .jmpc _ _ => true
  | _ => false

/-- what `backpatch` makes of an instruction at position `p`, given the final label table -/
def patch (L : List Int) (p : Nat) : Instr → Instr
  | .jmp lab => .jmp ((L[lab.toNat]?).getD (-1) - (p : Int))
  | .jmpc lab s => .jmpc ((L[lab.toNat]?).getD (-1) - (p : Int)) s
  | i => i

theorem patch_of_not_jmp (L : List Int) (p : Nat) {i : Instr} (h : isJmp i = false) : patch L p i = i := by
  cases i <;> first | rfl | (simp [isJmp] at h)

/-- the final code `C` holds, at every position of `code` except the header, the backpatched instruction -/
def Agree (L : List Int) (code C : List Instr) : Prop :=
  ∀ p i, 0 < p → code[p]? = some i → C[p]? = some (patch L p i)

theorem Agree.of_prefix {L : List Int} {a b C : List Instr} (h : Agree L b C) (hp : a <+: b) : Agree L a C :=
  fun p i h0 hi => h p i h0 (prefix_getElem? hp hi)

theorem Agree.at_len {L : List Int} {a t C : List Instr} {i : Instr} (h : Agree L (a ++ i :: t) C) (h0 : 0 < a.length) :
    C[a.length]? = some (patch L a.length i) :=
  h _ _ h0 (getElem?_append_len a i t)

/-! ### the register file of a routine -/

def TempNamed (regs : List VReg) : Prop := ∀ r ∈ regs, r.isTemp = true → r.name = bTempName

/-- the names of the registers that are not temporaries are pairwise distinct -/
def NTNodup (regs : List VReg) : Prop := ((regs.filter (fun r => !r.isTemp)).map (·.name)).Nodup

/-- growth of the register file: names and kinds of existing registers never change -/
def RegsExt (a b : List VReg) : Prop :=
  ∀ (i : Nat) (r : VReg), a[i]? = some r → ∃ r' : VReg, b[i]? = some r' ∧ r'.name = r.name ∧ r'.isTemp = r.isTemp

theorem RegsExt.refl (a : List VReg) : RegsExt a a := fun i r h => ⟨r, h, rfl, rfl⟩
theorem RegsExt.trans {a b c : List VReg} (h1 : RegsExt a b) (h2 : RegsExt b c) : RegsExt a c := by
  intro i r h
  obtain ⟨r1, e1, n1, t1⟩ := h1 i r h
  obtain ⟨r2, e2, n2, t2⟩ := h2 i r1 e1
  exact ⟨r2, e2, n2.trans n1, t2.trans t1⟩
theorem RegsExt.len {a b : List VReg} (h : RegsExt a b) : a.length ≤ b.length := by
  cases ha : a.length with
  | zero => exact Nat.zero_le _
  | succ n =>
    have : n < a.length := by omega
    obtain ⟨r', e, _, _⟩ := h n a[n] (List.getElem?_eq_getElem this)
    have := (List.getElem?_eq_some_iff.1 e).1
    omega
theorem RegsExt.append (a t : List VReg) : RegsExt a (a ++ t) := by
  intro i r h
  exact ⟨r, prefix_getElem? (prefix_append_self a t) h, rfl, rfl⟩

/-- registers in use keep their contents (a temporary in use is neither released nor handed out) -/
def KeepUse (a b : List VReg) : Prop := ∀ (i : Nat) (r : VReg), a[i]? = some r → r.inUse = true → b[i]? = some r

theorem KeepUse.refl (a : List VReg) : KeepUse a a := fun _ _ h _ => h
theorem KeepUse.trans {a b c : List VReg} (h1 : KeepUse a b) (h2 : KeepUse b c) : KeepUse a c :=
  fun i r h hu => h2 i r (h1 i r h hu) hu
theorem KeepUse.append (a t : List VReg) : KeepUse a (a ++ t) :=
  fun i r h _ => prefix_getElem? (prefix_append_self a t) h

/-- the registers of `live` are temporaries in use -/
def LiveOK (regs : List VReg) (live : List Int) : Prop :=
  ∀ t ∈ live, ∃ (i : Nat) (r : VReg), t = (i : Int) ∧ regs[i]? = some r ∧ r.isTemp = true ∧ r.inUse = true

theorem LiveOK.keep {a b : List VReg} {live : List Int} (h : LiveOK a live) (k : KeepUse a b) : LiveOK b live := by
  intro t ht
  obtain ⟨i, r, e, hr, h1, h2⟩ := h t ht
  exact ⟨i, r, e, k i r hr h2, h1, h2⟩

theorem LiveOK.nil (regs : List VReg) : LiveOK regs [] := fun _ h => by cases h

theorem LiveOK.append {regs : List VReg} {a b : List Int} (h1 : LiveOK regs a) (h2 : LiveOK regs b) :
    LiveOK regs (a ++ b) := by
  intro t ht
  rcases List.mem_append.1 ht with h | h
  · exact h1 t h
  · exact h2 t h

/-- a register index that is free (or beyond the file): what `fetchTemporary` hands out -/
def FreeAt (regs : List VReg) (t : Int) : Prop :=
  ∃ i : Nat, t = (i : Int) ∧ ∀ r : VReg, regs[i]? = some r → r.inUse = false

theorem LiveOK.not_mem_of_free {regs : List VReg} {live : List Int} (h : LiveOK regs live) {t : Int}
    (hf : FreeAt regs t) : live.contains t = false := by
  cases hc : live.contains t with
  | false => rfl
  | true =>
    exfalso
    have hm : t ∈ live := by simpa using hc
    obtain ⟨i, r, e, hr, _, hu⟩ := h t hm
    obtain ⟨j, e', hfree⟩ := hf
    have : i = j := by omega
    subst this
    rw [hfree r hr] at hu; cases hu

/-! ### the stack map of a register file -/

/-- the map `popSymbols` records: register ↦ name, temporaries left out -/
def smapFrom (regs : List VReg) (k : Nat) : List (Int × Bytes) :=
  ((regs.zipIdx k).filter (fun p => !p.1.isTemp)).map (fun p => ((p.2 : Int), p.1.name))

def smap (regs : List VReg) : List (Int × Bytes) := smapFrom regs 0

theorem smapFrom_nil (k : Nat) : smapFrom [] k = [] := rfl
theorem smapFrom_cons (r : VReg) (rs : List VReg) (k : Nat) :
    smapFrom (r :: rs) k = if r.isTemp then smapFrom rs (k + 1) else ((k : Int), r.name) :: smapFrom rs (k + 1) := by
  unfold smapFrom
  rw [List.zipIdx_cons]
  cases h : r.isTemp <;> simp [h]

theorem mem_smapFrom {regs : List VReg} {k : Nat} {e : Int × Bytes} :
    e ∈ smapFrom regs k ↔ ∃ (i : Nat) (r : VReg), regs[i]? = some r ∧ r.isTemp = false ∧ e = (((k + i : Nat) : Int), r.name) := by
  induction regs generalizing k with
  | nil => simp [smapFrom_nil]
  | cons x xs ih =>
    rw [smapFrom_cons]
    constructor
    · intro h
      by_cases hx : x.isTemp = true
      · rw [if_pos hx] at h
        obtain ⟨i, r, h1, h2, h3⟩ := ih.1 h
        exact ⟨i + 1, r, by simpa using h1, h2, by rw [h3]; congr 2; omega⟩
      · rw [if_neg hx] at h
        rcases List.mem_cons.1 h with h | h
        · exact ⟨0, x, rfl, by simpa using hx, by simpa using h⟩
        · obtain ⟨i, r, h1, h2, h3⟩ := ih.1 h
          exact ⟨i + 1, r, by simpa using h1, h2, by rw [h3]; congr 2; omega⟩
    · rintro ⟨i, r, h1, h2, h3⟩
      cases i with
      | zero =>
        have : x = r := by simpa using h1
        subst this
        rw [if_neg (by simp [h2])]
        rw [h3]; simp
      | succ i =>
        have h1' : xs[i]? = some r := by simpa using h1
        have : e ∈ smapFrom xs (k + 1) := ih.2 ⟨i, r, h1', h2, by rw [h3]; congr 2; omega⟩
        split
        · exact this
        · exact List.mem_cons_of_mem _ this

theorem mem_smap {regs : List VReg} {e : Int × Bytes} :
    e ∈ smap regs ↔ ∃ (i : Nat) (r : VReg), regs[i]? = some r ∧ r.isTemp = false ∧ e = ((i : Int), r.name) := by
  unfold smap
  rw [mem_smapFrom]
  simp

theorem smapFrom_names (regs : List VReg) (k : Nat) :
    (smapFrom regs k).map (·.2) = (regs.filter (fun r => !r.isTemp)).map (·.name) := by
  induction regs generalizing k with
  | nil => rfl
  | cons x xs ih =>
    rw [smapFrom_cons]
    cases hx : x.isTemp
    · simp [hx, ih]
    · simp [hx, ih]

theorem smapFrom_idx_lt (regs : List VReg) (k : Nat) : ∀ e ∈ smapFrom regs k, (k : Int) ≤ e.1 := by
  intro e he
  obtain ⟨i, r, _, _, h⟩ := mem_smapFrom.1 he
  rw [h]; simp only; omega

theorem smapFrom_idx_nodup (regs : List VReg) (k : Nat) : ((smapFrom regs k).map (·.1)).Nodup := by
  induction regs generalizing k with
  | nil => exact List.nodup_nil
  | cons x xs ih =>
    rw [smapFrom_cons]
    split
    · exact ih (k + 1)
    · rw [List.map_cons, List.nodup_cons]
      refine ⟨?_, ih (k + 1)⟩
      intro hin
      obtain ⟨e, he, hk⟩ := List.mem_map.1 hin
      have := smapFrom_idx_lt xs (k + 1) e he
      simp only at hk
      rw [hk] at this
      omega

theorem namesNodup_smap (regs : List VReg) (h : NTNodup regs) (en mi : Nat) :
    namesNodup ⟨en, mi, smap regs⟩ = true := by
  unfold namesNodup
  simp only [Bool.and_eq_true, decide_eq_true_eq]
  exact ⟨by unfold smap; rw [smapFrom_names]; exact h, smapFrom_idx_nodup regs 0⟩

/-- find by name in a list of pairs with distinct names -/
theorem find?_snd_of_nodup {α β : Type} [DecidableEq β] : ∀ {l : List (α × β)}, (l.map (·.2)).Nodup →
    ∀ {e : α × β}, e ∈ l → l.find? (fun x => x.2 = e.2) = some e
  | [], _, _, h => by cases h
  | x :: xs, hn, e, h => by
    rw [List.map_cons, List.nodup_cons] at hn
    rcases List.mem_cons.1 h with rfl | h
    · simp
    · have hne : x.2 ≠ e.2 := by
        intro heq
        exact hn.1 (heq ▸ List.mem_map_of_mem (f := (·.2)) h)
      rw [List.find?_cons_of_neg (by simpa using hne)]
      exact find?_snd_of_nodup hn.2 h

/-- the validator finds the register the generator allocated for a user variable -/
theorem regOf_smap {regs : List VReg} (hn : NTNodup regs) {i : Nat} {r : VReg} (hr : regs[i]? = some r)
    (ht : r.isTemp = false) {x : Bytes} (hx : r.name = x) (hp : bLoopVar.isPrefixOf x = false) (en mi : Nat) :
    RInfo.regOf ⟨en, mi, smap regs⟩ x = some (i : Int) := by
  unfold RInfo.regOf
  rw [hp]
  simp only [Bool.false_eq_true, if_false]
  have hmem : ((i : Int), x) ∈ smap regs := mem_smap.2 ⟨i, r, hr, ht, by rw [hx]⟩
  have hnd : ((smap regs).map (·.2)).Nodup := by unfold smap; rw [smapFrom_names]; exact hn
  have := find?_snd_of_nodup hnd hmem
  simp only at this
  rw [this]; rfl

theorem isNamed_smap_temp {regs : List VReg} {i : Nat} {r : VReg} (hr : regs[i]? = some r) (ht : r.isTemp = true)
    (en mi : Nat) : RInfo.isNamed ⟨en, mi, smap regs⟩ (i : Int) = false := by
  unfold RInfo.isNamed
  cases h : (smap regs).any (fun e => e.1 = (i : Int)) with
  | false => rfl
  | true =>
    exfalso
    obtain ⟨e, he, hi⟩ := List.any_eq_true.1 h
    obtain ⟨j, r', h1, h2, h3⟩ := mem_smap.1 he
    have : (j : Int) = (i : Int) := by rw [h3] at hi; simpa using hi
    have hji : j = i := by omega
    subst hji
    rw [hr] at h1
    cases h1
    rw [ht] at h2; cases h2

/-! ### hidden loop counters -/

def ctrSuffix (id : Nat) : Bytes := [91] ++ natDigits id ++ [93]

/-- name of the hidden counter of loop `id` created at `file:line` -/
def ctrName (file : Bytes) (line : Int) (id : Nat) : Bytes :=
  bLoopVar ++ file ++ [58] ++ intDec line ++ [91] ++ natDigits id ++ [93]

def hasId (nm : Bytes) (id : Nat) : Prop := bLoopVar.isPrefixOf nm = true ∧ (ctrSuffix id).isSuffixOf nm = true

theorem ctrName_hasId (file : Bytes) (line : Int) (id : Nat) : hasId (ctrName file line id) id := by
  unfold hasId ctrName ctrSuffix
  refine ⟨?_, ?_⟩
  · rw [List.isPrefixOf_iff_prefix]
    simp only [List.append_assoc]
    exact List.prefix_append _ _
  · rw [List.isSuffixOf_iff_suffix]
    refine ⟨bLoopVar ++ file ++ [58] ++ intDec line, ?_⟩
    simp only [List.append_assoc]

theorem hasId_inj {nm : Bytes} {a b : Nat} (h1 : hasId nm a) (h2 : hasId nm b) : a = b :=
  Sim.ctr_suffix_inj a b nm h1.2 h2.2

theorem ctrName_ne_temp (file : Bytes) (line : Int) (id : Nat) : ctrName file line id ≠ bTempName := by
  unfold ctrName
  simp only [List.append_assoc]
  intro h
  have := congrArg List.head? h
  simp [bLoopVar, bTempName] at this

/-- the hidden counters of a register file: every register with the counter prefix carries the
    number of a loop generated so far, and no two carry the same number -/
structure CtrInv (regs : List VReg) (loops : Nat) : Prop where
  bound : ∀ (i : Nat) (r : VReg), regs[i]? = some r → r.isTemp = false → bLoopVar.isPrefixOf r.name = true →
    ∃ id, id ≤ loops ∧ hasId r.name id
  uniq : ∀ (i j : Nat) (r r' : VReg) (id : Nat), regs[i]? = some r → regs[j]? = some r' → r.isTemp = false → r'.isTemp = false →
    hasId r.name id → hasId r'.name id → i = j

theorem CtrInv.nil (n : Nat) : CtrInv [] n :=
  ⟨fun i r h => by simp at h, fun i j r r' id h => by simp at h⟩

theorem CtrInv.mono {regs : List VReg} {a b : Nat} (h : CtrInv regs a) (hab : a ≤ b) : CtrInv regs b :=
  ⟨fun i r h1 h2 h3 => by
    obtain ⟨id, hid, hh⟩ := h.bound i r h1 h2 h3
    exact ⟨id, Nat.le_trans hid hab, hh⟩, h.uniq⟩

/-- growth by registers that are temporaries or whose names lack the counter prefix -/
theorem CtrInv.ext {a b : List VReg} {n : Nat} (h : CtrInv a n) (he : RegsExt a b)
    (hnew : ∀ (i : Nat) (r : VReg), b[i]? = some r → a.length ≤ i → r.isTemp = false → bLoopVar.isPrefixOf r.name = false) :
    CtrInv b n := by
  have old : ∀ (i : Nat) (r : VReg), b[i]? = some r → r.isTemp = false → bLoopVar.isPrefixOf r.name = true →
      ∃ r0 : VReg, a[i]? = some r0 ∧ r0.name = r.name ∧ r0.isTemp = false := by
    intro i r h1 h2 h3
    by_cases hi : i < a.length
    · obtain ⟨r', e1, e2, e3⟩ := he i a[i] (List.getElem?_eq_getElem hi)
      rw [h1] at e1
      cases e1
      exact ⟨a[i], List.getElem?_eq_getElem hi, e2.symm, by rw [← e3]; exact h2⟩
    · have := hnew i r h1 (by omega) h2
      rw [this] at h3; cases h3
  refine ⟨?_, ?_⟩
  · intro i r h1 h2 h3
    obtain ⟨r0, e1, e2, e3⟩ := old i r h1 h2 h3
    have := h.bound i r0 e1 e3 (by rw [e2]; exact h3)
    rw [e2] at this; exact this
  · intro i j r r' id h1 h2 t1 t2 i1 i2
    obtain ⟨r0, e1, e2, e3⟩ := old i r h1 t1 i1.1
    obtain ⟨r0', e1', e2', e3'⟩ := old j r' h2 t2 i2.1
    exact h.uniq i j r0 r0' id e1 e1' e3 e3' (by rw [e2]; exact i1) (by rw [e2']; exact i2)

/-- the validator finds the counter register of loop `id` -/
theorem ctrOf_smap {regs : List VReg} {n : Nat} (hc : CtrInv regs n) {i : Nat} {r : VReg} (hr : regs[i]? = some r)
    (ht : r.isTemp = false) {id : Nat} (hid : hasId r.name id) (en mi : Nat) :
    RInfo.ctrOf ⟨en, mi, smap regs⟩ id = some (i : Int) := by
  unfold RInfo.ctrOf
  simp only
  have hmem : ((i : Int), r.name) ∈ smap regs := mem_smap.2 ⟨i, r, hr, ht, rfl⟩
  cases hf : (smap regs).find? (fun e => bLoopVar.isPrefixOf e.2 && ([91] ++ natDigits id ++ [93] : Bytes).isSuffixOf e.2) with
  | none =>
    exfalso
    have := List.find?_eq_none.1 hf _ hmem
    have h1 := hid.1
    have h2 : ([91] ++ natDigits id ++ [93] : Bytes).isSuffixOf r.name = true := hid.2
    simp only [h1, h2] at this
    exact this rfl
  | some e =>
    have he := List.mem_of_find?_eq_some hf
    have hp := List.find?_some hf
    obtain ⟨j, r', h1, h2, h3⟩ := mem_smap.1 he
    have hid' : hasId r'.name id := by
      rw [h3] at hp
      simp only [Bool.and_eq_true] at hp
      exact ⟨hp.1, hp.2⟩
    have := hc.uniq j i r' r id h1 hr h2 ht hid' hid
    subst this
    rw [h3]; rfl

end GenShape
end Theo
