/-
  Soundness of the bytecode certificate checker (C03, C16).
-/
import Theo.Spec.WellFormed
import Theo.Proofs.VMInvA
import Theo.Proofs.VMInvB

namespace Theo
namespace WF

open InvB

/-! ### reading the certificate -/

theorem sitesOKb_sound {p : Program} (h : sitesOKb p = true) : SitesOK p := by
  unfold sitesOKb at h
  rw [Bool.and_eq_true] at h
  obtain ⟨h1, h2⟩ := h
  refine ⟨?_, ?_⟩
  · intro e he i hi
    have := List.all_eq_true.1 (List.all_eq_true.1 h1 e he) i hi
    rw [Bool.and_eq_true, decide_eq_true_eq, beq_iff_eq] at this
    exact this
  · intro hm
    rw [List.contains_iff_mem.2 hm] at h2
    cases h2

theorem info_eq_some {c : Cert} {pc : Int} {I : PcInfo} (h : c.info pc = some I) :
    0 ≤ pc ∧ c[pc.toNat]? = some (some I) := by
  unfold Cert.info at h
  split at h
  · cases h
  · refine ⟨by omega, ?_⟩
    cases hc : c[pc.toNat]? with
    | none => rw [hc] at h; cases h
    | some o =>
      rw [hc] at h
      cases o with
      | none => cases h
      | some J => simp only [Option.join_some] at h; rw [h]

theorem info_of_get {c : Cert} {pc : Nat} {I : PcInfo} (h : c[pc]? = some (some I)) :
    c.info (pc : Int) = some I := by
  unfold Cert.info
  rw [if_neg (by omega)]
  simp only [Int.toNat_natCast, h, Option.join_some]

theorem info_lt {c : Cert} {pc : Int} {I : PcInfo} (h : c.info pc = some I) :
    0 ≤ pc ∧ pc.toNat < c.length := by
  obtain ⟨h0, h1⟩ := info_eq_some h
  exact ⟨h0, (List.getElem?_eq_some_iff.1 h1).1⟩

/-- everything `checkCert` establishes, in usable form -/
structure CertOK (p : Program) (c : Cert) (R : PcInfo) : Prop where
  len : c.length = p.code.length
  head : ∃ fr mi t, p.code[0]? = some (Instr.prepare fr mi t) ∧ 0 ≤ fr ∧
    mapOK p mi fr.toNat = true ∧ R.frame = fr.toNat
  c0 : c.info 0 = none
  c1 : c.info 1 = some R
  rpend : R.pend = none
  rrid : R.rid = numRoutines p
  last : p.code.getLast? = some Instr.halt
  chk : ∀ (pc : Nat) (I : PcInfo) (ins : Instr), c.info (pc : Int) = some I →
    p.code[pc]? = some ins → checkPc p c R.rid pc ins I = true
  sites : SitesOK p

theorem certOK_of_check {p : Program} {c : Cert} (h : checkCert p c = true) :
    ∃ R, CertOK p c R := by
  unfold checkCert at h
  rw [Bool.and_eq_true, Bool.and_eq_true] at h
  obtain ⟨⟨hlen, hm⟩, hsites⟩ := h
  split at hm
  · rename_i fr mi t crest R ctail hcode
    simp only [Bool.and_eq_true, decide_eq_true_eq, beq_iff_eq] at hm
    obtain ⟨⟨⟨⟨⟨⟨h0, hmap⟩, hfr⟩, hpend⟩, hrid⟩, hlast⟩, hall⟩ := hm
    refine ⟨R, ?_⟩
    refine
      { len := by simpa using hlen
        head := ⟨fr, mi, t, by rw [hcode]; rfl, h0, hmap, hfr⟩
        c0 := rfl
        c1 := rfl
        rpend := by simpa using hpend
        rrid := hrid
        last := hlast
        chk := ?_
        sites := sitesOKb_sound hsites }
    intro pc I ins hi hins
    obtain ⟨_, hg⟩ := info_eq_some hi
    simp only [Int.toNat_natCast] at hg
    have hmem : ((ins, pc), some I) ∈ p.code.zipIdx.zip (none :: some R :: ctail) := by
      apply List.mem_of_getElem? (i := pc)
      rw [List.getElem?_zip_eq_some]
      refine ⟨?_, hg⟩
      rw [List.getElem?_zipIdx, hins]
      simp
    have := List.all_eq_true.1 hall _ hmem
    simp only [Bool.and_eq_true] at this
    exact this.2
  · cases hm

/-! ### memory access inside a frame -/

theorem rd_ok {d : List Int} {i : Int} (h0 : 0 ≤ i) (h1 : i.toNat < d.length) :
    ∃ v, rd d i = .ok v := by
  unfold rd
  rw [if_neg (by omega), List.getElem?_eq_getElem h1]
  exact ⟨_, rfl⟩

theorem wr_ok {d : List Int} {i : Int} (v : Int) (h0 : 0 ≤ i) (h1 : i.toNat < d.length) :
    ∃ d', wr d i v = .ok d' := by
  unfold wr
  rw [if_neg (by omega), if_pos h1]
  exact ⟨_, rfl⟩

theorem regOK_iff {r : Int} {f : Nat} : regOK r f = true ↔ 0 ≤ r ∧ r < (f : Int) := by
  unfold regOK
  rw [Bool.and_eq_true, decide_eq_true_eq, decide_eq_true_eq]

theorem checkPc_erase (p : Program) (c : Cert) (root pc : Nat) (i : Instr) (I : PcInfo) :
    checkPc p c root pc i.erase I = checkPc p c root pc i I := by
  cases i <;> rfl

theorem tiles_bound : ∀ (st : List Act) (n : Nat), Tiles st n →
    ∀ a ∈ st, a.dataStart + a.segSize.toNat ≤ n := by
  intro st
  induction st with
  | nil => intro n _ a ha; cases ha
  | cons b rest ih =>
    intro n h a ha
    obtain ⟨_, h2, h3⟩ := h
    rcases List.mem_cons.1 ha with rfl | ha
    · omega
    · have := ih _ h3 a ha
      omega

/-! ### the invariant -/

/-- stack-map index valid and every mapped register inside the frame -/
def ActMap (p : Program) (a : Act) : Prop := mapOK p a.dbg a.segSize.toNat = true ∧ 0 ≤ a.segSize

/-- the activations below the executing one: each return address is annotated with the frame
    and routine of the caller, and routine ids strictly increase towards the root -/
def Chain (p : Program) (c : Cert) (root : Nat) : Nat → Act → List Act → Prop
  | rid, _, [] => rid = root
  | rid, a, b :: rest =>
    ∃ J, c.info a.retAddr = some J ∧ J.pend = none ∧ b.segSize = (J.frame : Int) ∧ rid < J.rid ∧
      0 ≤ a.retTarget ∧ a.retTarget < (J.frame : Int) ∧ ActMap p b ∧ Chain p c root J.rid b rest

/-- the executing activation (frame size `frame`, routine `rid`) on top of its callers -/
def TopOK (p : Program) (c : Cert) (root frame rid : Nat) (st : List Act) : Prop :=
  ∃ a rest, st = a :: rest ∧ a.segSize = (frame : Int) ∧ ActMap p a ∧ Chain p c root rid a rest

def StackOK (p : Program) (c : Cert) (root : Nat) (I : PcInfo) (st : List Act) : Prop :=
  (I.pend = none → TopOK p c root I.frame I.rid st) ∧
  (∀ cf j, I.pend = some (cf, j) → ∃ callee rest, st = callee :: rest ∧
    callee.segSize = (cf : Int) ∧ ActMap p callee ∧ 0 ≤ callee.retTarget ∧
    callee.retTarget < (I.frame : Int) ∧ j < I.rid ∧ TopOK p c root I.frame I.rid rest)

def WInv (p : Program) (c : Cert) (root : Nat) (vm : VM) : Prop :=
  (vm.ip = 0 ∧ vm.stack = [] ∧ vm.data = []) ∨
  (∃ I, c.info vm.ip = some I ∧ StackOK p c root I vm.stack ∧ Tiles vm.stack vm.data.length)

section
variable {p : Program} {c : Cert} {root : Nat}

theorem chain_retAddr {rid : Nat} {a a' : Act} {rest : List Act}
    (e1 : a'.retAddr = a.retAddr) (e2 : a'.retTarget = a.retTarget)
    (h : Chain p c root rid a rest) : Chain p c root rid a' rest := by
  cases rest with
  | nil => exact h
  | cons b rest =>
    simp only [Chain] at h ⊢
    rw [e1, e2]; exact h

theorem chain_len : ∀ (rest : List Act) (rid : Nat) (a : Act), Chain p c root rid a rest →
    rest.length + rid ≤ root := by
  intro rest
  induction rest with
  | nil => intro rid a h; simp only [Chain] at h; simp only [List.length_nil]; omega
  | cons b rest ih =>
    intro rid a h
    simp only [Chain] at h
    obtain ⟨J, _, _, _, hlt, _, _, _, hch⟩ := h
    have := ih _ _ hch
    simp only [List.length_cons]
    omega

theorem chain_actMap : ∀ (rest : List Act) (rid : Nat) (a : Act), Chain p c root rid a rest →
    ∀ b ∈ rest, ActMap p b := by
  intro rest
  induction rest with
  | nil => intro rid a _ b hb; cases hb
  | cons b rest ih =>
    intro rid a h x hx
    simp only [Chain] at h
    obtain ⟨J, _, _, _, _, _, _, hb, hch⟩ := h
    rcases List.mem_cons.1 hx with rfl | hx
    · exact hb
    · exact ih _ _ hch x hx

theorem topOK_actMap {frame rid : Nat} {st : List Act} (h : TopOK p c root frame rid st) :
    ∀ a ∈ st, ActMap p a := by
  obtain ⟨a, rest, rfl, _, ha, hch⟩ := h
  intro x hx
  rcases List.mem_cons.1 hx with rfl | hx
  · exact ha
  · exact chain_actMap _ _ _ hch x hx

theorem topOK_len {frame rid : Nat} {st : List Act} (h : TopOK p c root frame rid st) :
    st.length + rid ≤ root + 1 := by
  obtain ⟨a, rest, rfl, _, _, hch⟩ := h
  have := chain_len _ _ _ hch
  simp only [List.length_cons]
  omega

theorem stackOK_actMap {I : PcInfo} {st : List Act} (h : StackOK p c root I st) :
    ∀ a ∈ st, ActMap p a := by
  cases hp : I.pend with
  | none => exact topOK_actMap (h.1 hp)
  | some cj =>
    obtain ⟨cf, j⟩ := cj
    obtain ⟨callee, rest, rfl, _, hc, _, _, _, ht⟩ := h.2 cf j hp
    intro x hx
    rcases List.mem_cons.1 hx with rfl | hx
    · exact hc
    · exact topOK_actMap ht x hx

theorem stackOK_len {I : PcInfo} {st : List Act} (h : StackOK p c root I st) :
    st.length ≤ root + 1 := by
  cases hp : I.pend with
  | none =>
    have := topOK_len (h.1 hp)
    omega
  | some cj =>
    obtain ⟨cf, j⟩ := cj
    obtain ⟨callee, rest, rfl, _, _, _, _, hj, ht⟩ := h.2 cf j hp
    have := topOK_len ht
    simp only [List.length_cons]
    omega

theorem winv_actMap {vm : VM} (h : WInv p c root vm) : ∀ a ∈ vm.stack, ActMap p a := by
  rcases h with ⟨_, hs, _⟩ | ⟨I, _, hs, _⟩
  · rw [hs]; intro a ha; cases ha
  · exact stackOK_actMap hs

theorem winv_tiles {vm : VM} (h : WInv p c root vm) : Tiles vm.stack vm.data.length := by
  rcases h with ⟨_, hs, hd⟩ | ⟨I, _, _, ht⟩
  · rw [hs, hd]; rfl
  · exact ht

theorem winv_len {vm : VM} (h : WInv p c root vm) : vm.stack.length ≤ root + 1 := by
  rcases h with ⟨_, hs, _⟩ | ⟨I, _, hs, _⟩
  · rw [hs]; simp
  · exact stackOK_len hs

/-- a state with the same annotation, the same stack and as many data words -/
theorem winv_same {vm vm' : VM} {I : PcInfo} (hi : c.info vm'.ip = some I)
    (hs : StackOK p c root I vm.stack) (ht : Tiles vm.stack vm.data.length)
    (e1 : vm'.stack = vm.stack) (e2 : vm'.data.length = vm.data.length) : WInv p c root vm' :=
  Or.inr ⟨I, hi, by rw [e1]; exact hs, by rw [e1, e2]; exact ht⟩

end

/-! ### one lemma per instruction: the step is defined and re-establishes the invariant -/

section
variable {p : Program} {c : Cert} {root : Nat}

theorem exec_potBreak {vm : VM} {pc : Nat} {I : PcInfo}
    (hip : vm.ip = pc) (hs : StackOK p c root I vm.stack) (ht : Tiles vm.stack vm.data.length)
    (hk : checkPc p c root pc .potBreak I = true) :
    ∃ r, execI .potBreak vm = .ok r ∧ WInv p c root r.1 := by
  simp only [checkPc, Bool.and_eq_true, beq_iff_eq] at hk
  refine ⟨({ vm with ip := vm.ip + 1 }, vm.stepping), rfl, ?_⟩
  exact winv_same (vm := vm) (by show c.info (vm.ip + 1) = some I; rw [hip]; exact hk.2) hs ht rfl rfl

theorem exec_brk {vm : VM} {pc : Nat} {I : PcInfo}
    (hip : vm.ip = pc) (hs : StackOK p c root I vm.stack) (ht : Tiles vm.stack vm.data.length)
    (hk : checkPc p c root pc .brk I = true) :
    ∃ r, execI .brk vm = .ok r ∧ WInv p c root r.1 := by
  simp only [checkPc, Bool.and_eq_true, beq_iff_eq] at hk
  refine ⟨({ vm with ip := vm.ip + 1 }, true), rfl, ?_⟩
  exact winv_same (vm := vm) (by show c.info (vm.ip + 1) = some I; rw [hip]; exact hk.2) hs ht rfl rfl

theorem exec_halt {vm : VM} {I : PcInfo}
    (hi : c.info vm.ip = some I) (hs : StackOK p c root I vm.stack)
    (ht : Tiles vm.stack vm.data.length) :
    ∃ r, execI .halt vm = .ok r ∧ WInv p c root r.1 :=
  ⟨(vm, true), rfl, Or.inr ⟨I, hi, hs, ht⟩⟩

theorem exec_jmp {vm : VM} {pc : Nat} {I : PcInfo} {off : Int}
    (hip : vm.ip = pc) (hs : StackOK p c root I vm.stack) (ht : Tiles vm.stack vm.data.length)
    (hk : checkPc p c root pc (.jmp off) I = true) :
    ∃ r, execI (.jmp off) vm = .ok r ∧ WInv p c root r.1 := by
  simp only [checkPc, Bool.and_eq_true, beq_iff_eq] at hk
  refine ⟨({ vm with ip := vm.ip + off }, false), rfl, ?_⟩
  exact winv_same (vm := vm) (by show c.info (vm.ip + off) = some I; rw [hip]; exact hk.2) hs ht rfl rfl

/-- the frame of the executing activation lies inside the data -/
theorem top_frame {frame rid : Nat} {st : List Act} {n : Nat}
    (h : TopOK p c root frame rid st) (ht : Tiles st n) :
    ∃ a rest, st = a :: rest ∧ a.segSize = (frame : Int) ∧ a.dataStart + frame ≤ n := by
  obtain ⟨a, rest, rfl, hseg, _, _⟩ := h
  obtain ⟨_, h2, _⟩ := ht
  exact ⟨a, rest, rfl, hseg, by omega⟩

theorem exec_add {vm : VM} {pc : Nat} {I : PcInfo} {t s k : Int}
    (hip : vm.ip = pc) (hs : StackOK p c root I vm.stack) (ht : Tiles vm.stack vm.data.length)
    (hk : checkPc p c root pc (.add t s k) I = true) :
    ∃ r, execI (.add t s k) vm = .ok r ∧ WInv p c root r.1 := by
  simp only [checkPc, Bool.and_eq_true, beq_iff_eq, regOK_iff, Option.isNone_iff_eq_none] at hk
  obtain ⟨⟨⟨hp, ht1⟩, hs1⟩, hn⟩ := hk
  obtain ⟨a, rest, hst, hseg, hb⟩ := top_frame (hs.1 hp) ht
  obtain ⟨v, hv⟩ := rd_ok (d := vm.data) (i := a.dataStart + s) (by omega) (by omega)
  obtain ⟨d, hd⟩ := wr_ok (d := vm.data) (i := a.dataStart + t) (addClamp v k) (by omega) (by omega)
  refine ⟨({ vm with data := d, ip := vm.ip + 1 }, false), ?_, ?_⟩
  · simp only [execI, hst, bind, Except.bind, hv, hd, pure, Except.pure]
  · exact winv_same (vm := vm) (by show c.info (vm.ip + 1) = some I; rw [hip]; exact hn) hs ht rfl
      (wr_length hd)

theorem exec_test {vm : VM} {pc : Nat} {I : PcInfo} {t x y : Int}
    (hip : vm.ip = pc) (hs : StackOK p c root I vm.stack) (ht : Tiles vm.stack vm.data.length)
    (hk : checkPc p c root pc (.test t x y) I = true) :
    ∃ r, execI (.test t x y) vm = .ok r ∧ WInv p c root r.1 := by
  simp only [checkPc, Bool.and_eq_true, beq_iff_eq, regOK_iff, Option.isNone_iff_eq_none] at hk
  obtain ⟨⟨⟨⟨hp, ht1⟩, hx1⟩, hy1⟩, hn⟩ := hk
  obtain ⟨a, rest, hst, hseg, hb⟩ := top_frame (hs.1 hp) ht
  obtain ⟨v1, hv1⟩ := rd_ok (d := vm.data) (i := a.dataStart + x) (by omega) (by omega)
  obtain ⟨v2, hv2⟩ := rd_ok (d := vm.data) (i := a.dataStart + y) (by omega) (by omega)
  obtain ⟨d, hd⟩ := wr_ok (d := vm.data) (i := a.dataStart + t) (if v1 = v2 then 0 else 1)
    (by omega) (by omega)
  refine ⟨({ vm with data := d, ip := vm.ip + 1 }, false), ?_, ?_⟩
  · simp only [execI, hst, bind, Except.bind, hv1, hv2, hd, pure, Except.pure]
  · exact winv_same (vm := vm) (by show c.info (vm.ip + 1) = some I; rw [hip]; exact hn) hs ht rfl
      (wr_length hd)

theorem exec_const {vm : VM} {pc : Nat} {I : PcInfo} {t k : Int}
    (hip : vm.ip = pc) (hs : StackOK p c root I vm.stack) (ht : Tiles vm.stack vm.data.length)
    (hk : checkPc p c root pc (.const t k) I = true) :
    ∃ r, execI (.const t k) vm = .ok r ∧ WInv p c root r.1 := by
  simp only [checkPc, Bool.and_eq_true, beq_iff_eq, regOK_iff, Option.isNone_iff_eq_none] at hk
  obtain ⟨⟨hp, ht1⟩, hn⟩ := hk
  obtain ⟨a, rest, hst, hseg, hb⟩ := top_frame (hs.1 hp) ht
  obtain ⟨d, hd⟩ := wr_ok (d := vm.data) (i := a.dataStart + t) k (by omega) (by omega)
  refine ⟨({ vm with data := d, ip := vm.ip + 1 }, false), ?_, ?_⟩
  · simp only [execI, hst, bind, Except.bind, hd, pure, Except.pure]
  · exact winv_same (vm := vm) (by show c.info (vm.ip + 1) = some I; rw [hip]; exact hn) hs ht rfl
      (wr_length hd)

theorem exec_jmpc {vm : VM} {pc : Nat} {I : PcInfo} {off s : Int}
    (hip : vm.ip = pc) (hs : StackOK p c root I vm.stack) (ht : Tiles vm.stack vm.data.length)
    (hk : checkPc p c root pc (.jmpc off s) I = true) :
    ∃ r, execI (.jmpc off s) vm = .ok r ∧ WInv p c root r.1 := by
  simp only [checkPc, Bool.and_eq_true, beq_iff_eq, regOK_iff, Option.isNone_iff_eq_none] at hk
  obtain ⟨⟨⟨hp, hs1⟩, hj⟩, hn⟩ := hk
  obtain ⟨a, rest, hst, hseg, hb⟩ := top_frame (hs.1 hp) ht
  obtain ⟨v, hv⟩ := rd_ok (d := vm.data) (i := a.dataStart + s) (by omega) (by omega)
  refine ⟨({ vm with ip := if v = 0 then vm.ip + off else vm.ip + 1 }, false), ?_, ?_⟩
  · simp only [execI, hst, bind, Except.bind, hv, pure, Except.pure]
  · refine winv_same (vm := vm) ?_ hs ht rfl rfl
    show c.info (if v = 0 then vm.ip + off else vm.ip + 1) = some I
    rw [hip]
    split
    · exact hj
    · exact hn

theorem exec_prepare {vm : VM} {pc : Nat} {I : PcInfo} {cnt idx tgt : Int}
    (hip : vm.ip = pc) (hs : StackOK p c root I vm.stack) (ht : Tiles vm.stack vm.data.length)
    (hk : checkPc p c root pc (.prepare cnt idx tgt) I = true) :
    ∃ r, execI (.prepare cnt idx tgt) vm = .ok r ∧ WInv p c root r.1 := by
  simp only [checkPc, Bool.and_eq_true, decide_eq_true_eq, regOK_iff,
    Option.isNone_iff_eq_none] at hk
  obtain ⟨⟨⟨⟨hp, hcnt⟩, htgt⟩, hmap⟩, hm⟩ := hk
  refine ⟨({ vm with data := vm.data ++ List.replicate cnt.toNat 0,
                     stack := ⟨vm.data.length, cnt, tgt, -1, idx⟩ :: vm.stack,
                     ip := vm.ip + 1 }, false), rfl, ?_⟩
  split at hm
  · rename_i N hN
    simp only [Bool.and_eq_true, beq_iff_eq] at hm
    obtain ⟨⟨hfr, hrid⟩, hm⟩ := hm
    split at hm
    · rename_i cf j hpend
      rw [Bool.and_eq_true, beq_iff_eq, decide_eq_true_eq] at hm
      obtain ⟨hm, hjr⟩ := hm
      refine Or.inr ⟨N, by show c.info (vm.ip + 1) = some N; rw [hip]; exact hN, ⟨?_, ?_⟩, ?_⟩
      · intro h; rw [h] at hpend; cases hpend
      · intro cf' j' h
        rw [hpend] at h
        cases h
        refine ⟨_, _, rfl, ?_, ⟨hmap, hcnt⟩, htgt.1, by rw [hfr]; exact htgt.2,
          by rw [hrid]; exact hjr, ?_⟩
        · show cnt = ((cf : Nat) : Int)
          rw [hm]; omega
        · rw [hfr, hrid]; exact hs.1 hp
      · show Tiles (_ :: vm.stack) (List.length _)
        simp only [Tiles, List.length_append, List.length_replicate]
        exact ⟨hcnt, trivial, ht⟩
    · cases hm
  · cases hm

theorem exec_arg {vm : VM} {pc : Nat} {I : PcInfo} {t s : Int}
    (hip : vm.ip = pc) (hs : StackOK p c root I vm.stack) (ht : Tiles vm.stack vm.data.length)
    (hk : checkPc p c root pc (.arg t s) I = true) :
    ∃ r, execI (.arg t s) vm = .ok r ∧ WInv p c root r.1 := by
  simp only [checkPc] at hk
  split at hk
  · rename_i cf j hp
    simp only [Bool.and_eq_true, beq_iff_eq, regOK_iff] at hk
    obtain ⟨⟨ht1, hs1⟩, hn⟩ := hk
    obtain ⟨callee, rest0, hst, hcs, _, _, _, _, htop⟩ := hs.2 cf j hp
    have ht' := ht
    rw [hst] at ht'
    obtain ⟨_, hsum, ht2⟩ := ht'
    obtain ⟨a, rest, rfl, hseg, hb⟩ := top_frame htop ht2
    obtain ⟨v, hv⟩ := rd_ok (d := vm.data) (i := a.dataStart + s) (by omega) (by omega)
    obtain ⟨d, hd⟩ := wr_ok (d := vm.data) (i := callee.dataStart + t) v (by omega) (by omega)
    refine ⟨({ vm with data := d, ip := vm.ip + 1 }, false), ?_, ?_⟩
    · simp only [execI, hst, bind, Except.bind, hv, hd, pure, Except.pure]
    · exact winv_same (vm := vm) (by show c.info (vm.ip + 1) = some I; rw [hip]; exact hn) hs ht
        rfl (wr_length hd)
  · cases hk

theorem exec_exec {vm : VM} {pc : Nat} {I : PcInfo} {entry : Int}
    (hip : vm.ip = pc) (hs : StackOK p c root I vm.stack) (ht : Tiles vm.stack vm.data.length)
    (hk : checkPc p c root pc (.exec entry) I = true) :
    ∃ r, execI (.exec entry) vm = .ok r ∧ WInv p c root r.1 := by
  simp only [checkPc] at hk
  split at hk
  · rename_i cf j hp
    simp only [Bool.and_eq_true, beq_iff_eq, decide_eq_true_eq] at hk
    obtain ⟨⟨hj, he⟩, hn⟩ := hk
    obtain ⟨callee, rest0, hst, hcs, hcm, hrt0, hrt1, _, htop⟩ := hs.2 cf j hp
    obtain ⟨a, rest, rfl, hseg, ham, hch⟩ := htop
    refine ⟨({ vm with stack := { callee with retAddr := vm.ip + 1 } :: a :: rest, ip := entry },
      false), ?_, ?_⟩
    · simp only [execI, hst, pure, Except.pure]
    · refine Or.inr ⟨⟨cf, j, none⟩, he, ⟨?_, ?_⟩, ?_⟩
      · intro _
        refine ⟨_, _, rfl, hcs, hcm, ?_⟩
        simp only [Chain]
        refine ⟨{ I with pend := none }, by rw [hip]; exact hn, rfl, hseg, hj, hrt0, hrt1, ham, hch⟩
      · intro cf' j' h; cases h
      · rw [hst] at ht
        exact ht
  · cases hk

theorem exec_ret {vm : VM} {pc : Nat} {I : PcInfo} {s : Int}
    (hs : StackOK p c root I vm.stack) (ht : Tiles vm.stack vm.data.length)
    (hk : checkPc p c root pc (.ret s) I = true) :
    ∃ r, execI (.ret s) vm = .ok r ∧ WInv p c root r.1 := by
  simp only [checkPc, Bool.and_eq_true, decide_eq_true_eq, regOK_iff,
    Option.isNone_iff_eq_none] at hk
  obtain ⟨⟨hp, hs1⟩, hrid⟩ := hk
  obtain ⟨a, rest0, hst, hseg, ham, hch⟩ := hs.1 hp
  cases rest0 with
  | nil => simp only [Chain] at hch; omega
  | cons b rest =>
    simp only [Chain] at hch
    obtain ⟨J, hJ, hJp, hbs, _, hrt0, hrt1, hbm, hch'⟩ := hch
    rw [hst] at ht
    obtain ⟨_, hsum, _, hsum2, ht3⟩ := ht
    obtain ⟨v, hv⟩ := rd_ok (d := vm.data) (i := a.dataStart + s) (by omega) (by omega)
    obtain ⟨d, hd⟩ := wr_ok (d := vm.data) (i := b.dataStart + a.retTarget) v (by omega) (by omega)
    refine ⟨({ vm with data := d.take a.dataStart, stack := b :: rest, ip := a.retAddr }, false),
      ?_, ?_⟩
    · simp only [execI, hst, bind, Except.bind, hv, hd, pure, Except.pure]
    · refine Or.inr ⟨J, hJ, ⟨fun _ => ⟨b, rest, rfl, hbs, hbm, hch'⟩, ?_⟩, ?_⟩
      · intro cf j h; rw [hJp] at h; cases h
      · show Tiles (b :: rest) (List.length (d.take a.dataStart))
        rw [List.length_take, wr_length hd]
        refine ⟨by omega, by omega, ht3⟩

end

/-! ### progress and preservation for `step` -/

theorem erase_prepare {i : Instr} {a b d : Int} (h : i.erase = .prepare a b d) :
    i = .prepare a b d := by
  cases i <;> simp [Instr.erase] at h ⊢
  exact h

theorem step_sound {p : Program} {c : Cert} {R : PcInfo} (hc : CertOK p c R) {vm : VM}
    (hci : CodeInv p vm.code) (hw : WInv p c R.rid vm) :
    ∃ r, step vm = .ok r ∧ WInv p c R.rid r.1 := by
  rw [step_eq]
  rcases hw with ⟨hip, hst, hd⟩ | ⟨I, hi, hs, ht⟩
  · -- the root PREPARE
    obtain ⟨fr, mi, t, hget, hfr, hmap, hRf⟩ := hc.head
    rw [hci.get 0] at hget
    cases hg : vm.code[0]? with
    | none => rw [hg] at hget; cases hget
    | some i =>
      rw [hg] at hget
      have hi : i = .prepare fr mi t := erase_prepare (Option.some.inj hget)
      subst hi
      have hf : fetch vm.code vm.ip = .ok (.prepare fr mi t) := by
        rw [hip]; exact fetch_of_get (Int.le_refl 0) hg
      rw [hf]
      refine ⟨({ vm with data := vm.data ++ List.replicate fr.toNat 0,
                         stack := ⟨vm.data.length, fr, t, -1, mi⟩ :: vm.stack,
                         ip := vm.ip + 1 }, false), rfl, ?_⟩
      refine Or.inr ⟨R, by show c.info (vm.ip + 1) = some R; rw [hip]; exact hc.c1, ⟨?_, ?_⟩, ?_⟩
      · intro _
        refine ⟨_, _, rfl, ?_, ⟨hmap, hfr⟩, ?_⟩
        · show fr = ((R.frame : Nat) : Int)
          rw [hRf]; omega
        · rw [hst]; rfl
      · intro cf j h; rw [hc.rpend] at h; cases h
      · show Tiles (_ :: vm.stack) (List.length _)
        rw [hst, hd]
        simp only [Tiles, List.length_append, List.length_replicate, List.length_nil]
        exact ⟨hfr, trivial, trivial⟩
  · obtain ⟨h0, hlt⟩ := info_lt hi
    rw [hc.len, ← hci.length] at hlt
    have hg : vm.code[vm.ip.toNat]? = some vm.code[vm.ip.toNat] := List.getElem?_eq_getElem hlt
    generalize vm.code[vm.ip.toNat] = i at hg
    have hf : fetch vm.code vm.ip = .ok i := fetch_of_get h0 hg
    have hpg : p.code[vm.ip.toNat]? = some i.erase := by rw [hci.get, hg]; rfl
    have hip : vm.ip = ((vm.ip.toNat : Nat) : Int) := (Int.toNat_of_nonneg h0).symm
    have hk : checkPc p c R.rid vm.ip.toNat i I = true := by
      rw [← checkPc_erase]
      exact hc.chk _ I _ (by rw [← hip]; exact hi) hpg
    rw [hf]
    show ∃ r, execI i vm = .ok r ∧ WInv p c R.rid r.1
    cases i with
    | potBreak => exact exec_potBreak hip hs ht hk
    | brk => exact exec_brk hip hs ht hk
    | halt => exact exec_halt hi hs ht
    | add t s k => exact exec_add hip hs ht hk
    | jmp off => exact exec_jmp hip hs ht hk
    | jmpc off s => exact exec_jmpc hip hs ht hk
    | prepare cnt idx tgt => exact exec_prepare hip hs ht hk
    | arg t s => exact exec_arg hip hs ht hk
    | exec e => exact exec_exec hip hs ht hk
    | ret s => exact exec_ret hs ht hk
    | const t k => exact exec_const hip hs ht hk
    | test t x y => exact exec_test hip hs ht hk

theorem step_preserves {p : Program} {c : Cert} {R : PcInfo} (hc : CertOK p c R) {vm vm' : VM}
    {r : Bool} (hci : CodeInv p vm.code) (hw : WInv p c R.rid vm) (h : step vm = .ok (vm', r)) :
    WInv p c R.rid vm' := by
  obtain ⟨r', h1, h2⟩ := step_sound hc hci hw
  rw [h] at h1
  cases h1
  exact h2

/-! ### the invariant holds in every reachable state -/

theorem winv_init (p : Program) (c : Cert) (root : Nat) : WInv p c root (VM.mk' p) :=
  Or.inl ⟨rfl, rfl, rfl⟩

theorem reach_winv {p : Program} {c : Cert} {R : PcInfo} (hc : CertOK p c R) :
    ∀ vm, Reach p vm → WInv p c R.rid vm := by
  apply reach_induct
  · exact winv_init p c R.rid
  · intro vm vm' r hr ih h
    exact step_preserves hc (CodeInv.reach hc.sites hr) ih h
  · intro vm vm' b v r _ ih h
    rcases setBreakPoint_spec h with rfl | ⟨sites, c', _, ⟨_, _, rfl⟩ | ⟨_, _, rfl⟩⟩
    · exact ih
    · exact ih
    · exact ih
  · intro vm vm' _ ih h
    obtain ⟨c', _, rfl⟩ := clearBreakpoints_spec h
    exact ih
  · intro vm b _ ih; exact ih
  · intro vm vm' _ _ h
    obtain ⟨c', _, rfl⟩ := reset_spec h
    exact Or.inl ⟨rfl, rfl, rfl⟩

/-! ### consequences: every API call is defined -/

theorem isDone_ok {p : Program} {c : Cert} {R : PcInfo} (hc : CertOK p c R) {vm : VM}
    (hci : CodeInv p vm.code) (hw : WInv p c R.rid vm) : ∃ b, vm.isDone = .ok b := by
  obtain ⟨r, h, _⟩ := step_sound hc hci hw
  rw [step_eq] at h
  unfold VM.isDone
  cases hf : fetch vm.code vm.ip with
  | error e => rw [hf] at h; cases h
  | ok i => exact ⟨_, rfl⟩

theorem foldl_vars_ok (data : List Int) (a : Act) (n : Nat)
    (hb : a.dataStart + n ≤ data.length) :
    ∀ (l : List (Int × Bytes)) (acc : List (Bytes × Int)),
      (∀ e ∈ l, regOK e.1 n = true) →
      ∃ v, l.foldlM (fun acc e => do
        let v ← rd data (a.dataStart + e.1)
        pure (sortedInsert nameLt true (e.2, v) acc)) acc = Except.ok v := by
  intro l
  induction l with
  | nil => intro acc _; exact ⟨acc, rfl⟩
  | cons e l ih =>
    intro acc h
    have he := regOK_iff.1 (h e List.mem_cons_self)
    obtain ⟨v, hv⟩ := rd_ok (d := data) (i := a.dataStart + e.1) (by omega) (by omega)
    rw [List.foldlM_cons]
    simp only [bind, Except.bind, hv, pure, Except.pure]
    exact ih _ (fun x hx => h x (List.mem_cons_of_mem _ hx))

theorem actVars_ok {p : Program} {vm : VM} {a : Act} (hm : ActMap p a)
    (hb : a.dataStart + a.segSize.toNat ≤ vm.data.length) :
    ∃ v, activationVariables p vm a = .ok v := by
  obtain ⟨hm, _⟩ := hm
  unfold mapOK at hm
  rw [Bool.and_eq_true, decide_eq_true_eq] at hm
  obtain ⟨h0, hm⟩ := hm
  unfold activationVariables
  rw [if_neg (by omega)]
  cases hsm : p.stackMaps[a.dbg.toNat]? with
  | none => rw [hsm] at hm; cases hm
  | some sm =>
    rw [hsm] at hm
    simp only
    split
    · exact ⟨[], rfl⟩
    · exact foldl_vars_ok vm.data a a.segSize.toNat hb sm.map [] (List.all_eq_true.1 hm)

theorem setBreakPoint_ok {p : Program} (hs : SitesOK p) {vm : VM} (hci : CodeInv p vm.code)
    (b : BreakPoint) (v : Bool) : ∃ r, VM.setBreakPoint p vm b v = .ok r := by
  unfold VM.setBreakPoint
  cases hsite : p.sitesOf b with
  | none => exact ⟨_, rfl⟩
  | some sites =>
    have hin : ∀ i ∈ sites, 0 ≤ i ∧ i.toNat < vm.code.length :=
      fun i hi => inRange_of_site hci.length (sitesOf_ok hs hsite i hi)
    simp only [bind, Except.bind, pure, Except.pure]
    cases v with
    | true =>
      obtain ⟨c', hc'⟩ := Theo.setOps_exists Instr.brk hin
      simp only [if_true, hc']
      exact ⟨_, rfl⟩
    | false =>
      obtain ⟨c', hc'⟩ := Theo.setOps_exists Instr.potBreak hin
      simp only [Bool.false_eq_true, if_false, hc']
      exact ⟨_, rfl⟩

theorem clear_defined {p : Program} (hs : SitesOK p) {vm : VM} (hr : Reach p vm) :
    ∃ vm', VM.clearBreakpoints p vm = .ok vm' := by
  have h := restoreAll_shape hs (reach_shape hs vm hr)
  unfold VM.clearBreakpoints
  simp only [bind, Except.bind, pure, Except.pure, h]
  exact ⟨_, rfl⟩

/-- C03: every API call is defined in every reachable state of a certified program -/
theorem checker_sound {p : Program} {c : Cert} (h : checkCert p c = true)
    {vm : VM} (hr : Reach p vm) :
    (∃ r, step vm = .ok r) ∧
    (∃ b, vm.isDone = .ok b) ∧
    (∀ a ∈ vm.stack, ∃ v, activationVariables p vm a = .ok v) ∧
    (∀ b v, ∃ r, VM.setBreakPoint p vm b v = .ok r) ∧
    (∃ vm', VM.clearBreakpoints p vm = .ok vm') ∧
    (∃ vm', VM.reset p vm = .ok vm') := by
  obtain ⟨R, hc⟩ := certOK_of_check h
  have hci := CodeInv.reach hc.sites hr
  have hw := reach_winv hc vm hr
  refine ⟨?_, isDone_ok hc hci hw, ?_, setBreakPoint_ok hc.sites hci, clear_defined hc.sites hr,
    ⟨_, reset_fresh hc.sites hr⟩⟩
  · obtain ⟨r, h1, _⟩ := step_sound hc hci hw
    exact ⟨r, h1⟩
  · intro a ha
    exact actVars_ok (winv_actMap hw a ha) (tiles_bound _ _ (winv_tiles hw) a ha)

/-- C16: the activation stack is bounded by the number of routines plus the root -/
theorem stack_bounded {p : Program} {c : Cert} (h : checkCert p c = true)
    {vm : VM} (hr : Reach p vm) : vm.stack.length ≤ numRoutines p + 1 := by
  obtain ⟨R, hc⟩ := certOK_of_check h
  rw [← hc.rrid]
  exact winv_len (reach_winv hc vm hr)

/-! ### what the certificate says about the code -/

theorem calls_go_down {p : Program} {c : Cert} (h : checkCert p c = true)
    {pc : Nat} {I : PcInfo} {e : Int} (hi : c.info pc = some I)
    (hx : p.code[pc]? = some (Instr.exec e)) :
    ∃ cf j, I.pend = some (cf, j) ∧ j < I.rid ∧ c.info e = some ⟨cf, j, none⟩ := by
  obtain ⟨R, hc⟩ := certOK_of_check h
  have hk := hc.chk pc I _ hi hx
  simp only [checkPc] at hk
  split at hk
  · rename_i cf j hp
    simp only [Bool.and_eq_true, beq_iff_eq, decide_eq_true_eq] at hk
    exact ⟨cf, j, hp, hk.1.1, hk.1.2⟩
  · cases hk

theorem structure_ok {p : Program} {c : Cert} (h : checkCert p c = true) :
    (∃ fr mi t, p.code.head? = some (Instr.prepare fr mi t) ∧ 0 ≤ fr) ∧
    p.code.getLast? = some Instr.halt ∧
    (∀ (pc : Nat) (I : PcInfo) off, c.info pc = some I → p.code[pc]? = some (Instr.jmp off) →
        c.info ((pc : Int) + off) = some I) ∧
    (∀ (pc : Nat) (I : PcInfo) off s, c.info pc = some I → p.code[pc]? = some (Instr.jmpc off s) →
        c.info ((pc : Int) + off) = some I ∧ 0 ≤ s ∧ s < I.frame) ∧
    (∀ (pc : Nat) (I : PcInfo) t s k, c.info pc = some I → p.code[pc]? = some (Instr.add t s k) →
        0 ≤ t ∧ t < I.frame ∧ 0 ≤ s ∧ s < I.frame) ∧
    (∀ (pc : Nat) (I : PcInfo) t s, c.info pc = some I → p.code[pc]? = some (Instr.arg t s) →
        ∃ cf j, I.pend = some (cf, j) ∧ 0 ≤ t ∧ t < cf ∧ 0 ≤ s ∧ s < I.frame) := by
  obtain ⟨R, hc⟩ := certOK_of_check h
  refine ⟨?_, hc.last, ?_, ?_, ?_, ?_⟩
  · obtain ⟨fr, mi, t, hg, h0, _⟩ := hc.head
    exact ⟨fr, mi, t, by rw [List.head?_eq_getElem?]; exact hg, h0⟩
  · intro pc I off hi hx
    have hk := hc.chk pc I _ hi hx
    simp only [checkPc, Bool.and_eq_true, beq_iff_eq] at hk
    exact hk.2
  · intro pc I off s hi hx
    have hk := hc.chk pc I _ hi hx
    simp only [checkPc, Bool.and_eq_true, beq_iff_eq, regOK_iff] at hk
    exact ⟨hk.1.2, hk.1.1.2⟩
  · intro pc I t s k hi hx
    have hk := hc.chk pc I _ hi hx
    simp only [checkPc, Bool.and_eq_true, beq_iff_eq, regOK_iff] at hk
    exact ⟨hk.1.1.2.1, hk.1.1.2.2, hk.1.2⟩
  · intro pc I t s hi hx
    have hk := hc.chk pc I _ hi hx
    simp only [checkPc] at hk
    split at hk
    · rename_i cf j hp
      simp only [Bool.and_eq_true, beq_iff_eq, regOK_iff] at hk
      exact ⟨cf, j, hp, hk.1.1.1, hk.1.1.2, hk.1.2⟩
    · cases hk

end WF
end Theo
