/-
  Soundness of the bytecode certificate checker (C03, C16).
-/
import Theo.Spec.WellFormed
import Theo.Proofs.VMInvA
import Theo.Proofs.VMInvB

namespace Theo
namespace WF

open InvB

/-! ### reading the certificate -/

theorem sitesOKb_sound {p : Program} (h : sitesOKb p = true) : SitesOK p := by
  unfold sitesOKb at h
  rw [Bool.and_eq_true] at h
  obtain ⟨h1, h2⟩ := h
  refine ⟨?_, ?_⟩
  · intro e he i hi
    have := List.all_eq_true.1 (List.all_eq_true.1 h1 e he) i hi
    rw [Bool.and_eq_true, decide_eq_true_eq, beq_iff_eq] at this
    exact this
  · intro hm
    rw [List.contains_iff_mem.2 hm] at h2
    cases h2

theorem info_eq_some {c : Cert} {pc : Int} {I : PcInfo} (h : c.info pc = some I) :
    0 ≤ pc ∧ c[pc.toNat]? = some (some I) := by
  unfold Cert.info at h
  split at h
  · cases h
  · refine ⟨by omega, ?_⟩
    cases hc : c[pc.toNat]? with
    | none => rw [hc] at h; cases h
    | some o =>
      rw [hc] at h
      cases o with
      | none => cases h
      | some J => simp only [Option.join_some] at h; rw [h]

theorem info_of_get {c : Cert} {pc : Nat} {I : PcInfo} (h : c[pc]? = some (some I)) :
    c.info (pc : Int) = some I := by
  unfold Cert.info
  rw [if_neg (by omega)]
  simp only [Int.toNat_natCast, h, Option.join_some]

theorem info_lt {c : Cert} {pc : Int} {I : PcInfo} (h : c.info pc = some I) :
    0 ≤ pc ∧ pc.toNat < c.length := by
  obtain ⟨h0, h1⟩ := info_eq_some h
  exact ⟨h0, (List.getElem?_eq_some_iff.1 h1).1⟩

/-- everything `checkCert` establishes, in usable form -/
structure CertOK (p : Program) (c : Cert) (R : PcInfo) : Prop where
  len : c.length = p.code.length
  head : ∃ fr mi t, p.code[0]? = some (Instr.prepare fr mi t) ∧ 0 ≤ fr ∧
    mapOK p mi fr.toNat = true ∧ R.frame = fr.toNat
  c0 : c.info 0 = none
  c1 : c.info 1 = some R
  rpend : R.pend = none
  rrid : R.rid = numRoutines p
  last : p.code.getLast? = some Instr.halt
  chk : ∀ (pc : Nat) (I : PcInfo) (ins : Instr), c.info (pc : Int) = some I →
    p.code[pc]? = some ins → checkPc p c R.rid pc ins I = true
  sites : SitesOK p

theorem certOK_of_check {p : Program} {c : Cert} (h : checkCert p c = true) :
    ∃ R, CertOK p c R := by
  unfold checkCert at h
  rw [Bool.and_eq_true, Bool.and_eq_true] at h
  obtain ⟨⟨hlen, hm⟩, hsites⟩ := h
  split at hm
  · rename_i fr mi t crest R ctail hcode
    simp only [Bool.and_eq_true, decide_eq_true_eq, beq_iff_eq] at hm
    obtain ⟨⟨⟨⟨⟨⟨h0, hmap⟩, hfr⟩, hpend⟩, hrid⟩, hlast⟩, hall⟩ := hm
    refine ⟨R, ?_⟩
    refine
      { len := by simpa using hlen
        head := ⟨fr, mi, t, by rw [hcode]; rfl, h0, hmap, hfr⟩
        c0 := rfl
        c1 := rfl
        rpend := by simpa using hpend
        rrid := hrid
        last := hlast
        chk := ?_
        sites := sitesOKb_sound hsites }
    intro pc I ins hi hins
    obtain ⟨_, hg⟩ := info_eq_some hi
    simp only [Int.toNat_natCast] at hg
    have hmem : ((ins, pc), some I) ∈ p.code.zipIdx.zip (none :: some R :: ctail) := by
      apply List.mem_of_getElem? (i := pc)
      rw [List.getElem?_zip_eq_some]
      refine ⟨?_, hg⟩
      rw [List.getElem?_zipIdx, hins]
      simp
    have := List.all_eq_true.1 hall _ hmem
    simp only [Bool.and_eq_true] at this
    exact this.2
  · cases hm

end WF
end Theo
