/-
  Soundness of the LR(1) tables and driver (C13; used by C09 / C12).
-/
import Theo.Spec.CFG

namespace Theo

end Theo
