/-
  Soundness of the LR(1) tables and driver (C13; used by C09 / C12).
-/
import Theo.Spec.CFG

namespace Theo
namespace LRSound

/-! ## A. the value computed by the driver is the fold of the tree it builds -/

def pmap {α β : Type} (f : α → β) : ParseOut α → ParseOut β
  | .accept v => .accept (f v)
  | .reject => .reject
  | .stuck => .stuck
  | .fuelOut => .fuelOut

theorem foldRev_ofList {V : Type} (leaf : Nat → V) (act : Nat → Nat → List V → V) (ts : List Tree) :
    (Forest.ofList ts).foldRev leaf act = (ts.map (Tree.fold leaf act)).reverse := by
  induction ts with
  | nil => simp [Forest.ofList, Forest.foldRev]
  | cons t ts ih => simp [Forest.ofList, Forest.foldRev, ih]

/-- the semantic action used by `lrParseTree` -/
abbrev nodeAct : Nat → Nat → List Tree → Tree :=
  fun l a popped => Tree.node l a (Forest.ofList popped.reverse)

theorem fold_nodeAct {V : Type} (leaf : Nat → V) (act : Nat → Nat → List V → V) (l a : Nat)
    (popped : List Tree) :
    (nodeAct l a popped).fold leaf act = act l a (popped.map (Tree.fold leaf act)) := by
  simp [Tree.fold, foldRev_ofList]

theorem lrParse_fold {V : Type} (T : Tables) (leaf : Nat → V) (act : Nat → Nat → List V → V)
    (fuel : Nat) : ∀ (inp : List Nat) (sts : List Nat) (vs : List Tree),
    lrParse T (fun (t : Nat) => t) leaf act fuel inp sts (vs.map (Tree.fold leaf act)) =
      pmap (Tree.fold leaf act) (lrParse T (fun (t : Nat) => t) Tree.leaf nodeAct fuel inp sts vs) := by
  induction fuel with
  | zero => intro inp sts vs; simp [lrParse, pmap]
  | succ fuel ih =>
    intro inp sts vs
    cases sts with
    | nil => simp [lrParse, pmap]
    | cons s srest =>
      cases inp with
      | nil => simp [lrParse, pmap]
      | cons x xs =>
        simp only [lrParse]
        cases hrow : T.action[s]? with
        | none => simp [pmap]
        | some row =>
          simp only []
          by_cases hlen : row.length ≤ x
          · simp [hlen, pmap]
          · simp only [hlen, if_false]
            cases hc : (row[x]?).getD .err with
            | err => simp [pmap]
            | shift s' =>
              simp only []
              have := ih xs (s' :: s :: srest) (Tree.leaf x :: vs)
              simpa [Tree.fold] using this
            | accept =>
              cases vs with
              | nil => simp [pmap]
              | cons v vs => simp [pmap]
            | reduce left alt beta =>
              simp only [List.length_map, List.length_cons]
              by_cases hb : vs.length < beta ∨ srest.length + 1 ≤ beta
              · simp [hb, pmap]
              · simp only [hb, if_false]
                cases hd : (s :: srest).drop beta with
                | nil => simp [pmap]
                | cons sp rest' =>
                  simp only []
                  cases hg : ((T.goto[sp]?).bind (·[left]?)) with
                  | none => simp [pmap]
                  | some j =>
                    simp only []
                    by_cases hj : j < 0
                    · simp [hj, pmap]
                    · simp only [hj, if_false]
                      have := ih (x :: xs) (j.toNat :: sp :: rest') (nodeAct left alt (vs.take beta) :: vs.drop beta)
                      rw [← this]
                      simp [fold_nodeAct, List.map_take, List.map_drop]

theorem value_is_fold {V : Type} (T : Tables) (leaf : Nat → V) (act : Nat → Nat → List V → V)
    (fuel : Nat) (inp : List Nat) :
    lrParse T (fun (t : Nat) => t) leaf act fuel inp [0] [] =
      (match lrParseTree T fuel inp with
       | .accept t => .accept (t.fold leaf act)
       | .reject => .reject
       | .stuck => .stuck
       | .fuelOut => .fuelOut) := by
  have h := lrParse_fold T leaf act fuel inp [0] []
  simp only [List.map_nil] at h
  rw [h]
  unfold lrParseTree
  cases lrParse T (fun (t : Nat) => t) Tree.leaf nodeAct fuel inp [0] [] <;> rfl

/-! ## B. facts about the automaton -/

theorem foldl_inv {α β : Type} (P : β → Prop) (f : β → α → β) (l : List α) :
    ∀ (init : β), P init → (∀ b a, a ∈ l → P b → P (f b a)) → P (l.foldl f init) := by
  induction l with
  | nil => intro init h0 _; simpa using h0
  | cons x xs ih =>
    intro init h0 hstep
    simp only [List.foldl_cons]
    apply ih
    · exact hstep _ _ (by simp) h0
    · intro b a ha hb; exact hstep b a (by simp [ha]) hb

theorem mem_sortedInsert {α : Type} (lt : α → α → Bool) (r : Bool) (x y : α) (l : List α) :
    x ∈ sortedInsert lt r y l → x = y ∨ x ∈ l := by
  induction l with
  | nil => simp [sortedInsert]
  | cons z zs ih =>
    simp only [sortedInsert]
    split
    · simp
    · split
      · intro h
        simp only [List.mem_cons] at h ⊢
        rcases h with h | h
        · exact Or.inr (Or.inl h)
        · rcases ih h with h | h
          · exact Or.inl h
          · exact Or.inr (Or.inr h)
      · split
        · intro h
          simp only [List.mem_cons] at h ⊢
          rcases h with h | h
          · exact Or.inl h
          · exact Or.inr (Or.inr h)
        · intro h; exact Or.inr h

theorem mem_foldl_insert (Q : Item → Prop) (l : List Item) (acc : ItemSet)
    (hacc : ∀ x ∈ acc, Q x) (hl : ∀ x ∈ l, Q x) : ∀ x ∈ l.foldl ItemSet.insert acc, Q x := by
  apply foldl_inv (fun (a : ItemSet) => ∀ x ∈ a, Q x) ItemSet.insert l acc hacc
  intro b a ha hb x hx
  rcases mem_sortedInsert _ _ _ _ _ hx with h | h
  · subst h; exact hl _ ha
  · exact hb _ h

theorem hullAux_mem (g : Grammar) (fi : FirstInfo) (P Q : Item → Prop) (hQP : ∀ x, Q x → P x)
    (hclose : ∀ it, P it → ∀ x ∈ closeItem g fi it, Q x) :
    ∀ (fuel : Nat) (work : List Item) (acc : ItemSet), (∀ x ∈ work, P x) → (∀ x ∈ acc, Q x) →
      ∀ x ∈ hullAux g fi fuel work acc, Q x := by
  intro fuel
  induction fuel with
  | zero => intro work acc _ hacc; simpa [hullAux] using hacc
  | succ fuel ih =>
    intro work acc hwork hacc
    cases work with
    | nil => simpa [hullAux] using hacc
    | cons it work =>
      simp only [hullAux]
      have hnews : ∀ x ∈ ((closeItem g fi it).filter (fun x => !acc.contains x)).eraseDups, Q x := by
        intro x hx
        rw [List.mem_eraseDups] at hx
        exact hclose it (hwork it (by simp)) x (List.mem_filter.mp hx).1
      apply ih
      · intro x hx
        rcases List.mem_append.mp hx with h | h
        · exact hwork x (by simp [h])
        · exact hQP _ (hnews x h)
      · exact mem_foldl_insert Q _ _ hacc hnews

theorem hull_mem (g : Grammar) (fi : FirstInfo) (P Q : Item → Prop) (hQP : ∀ x, Q x → P x)
    (hclose : ∀ it, P it → ∀ x ∈ closeItem g fi it, Q x) (I : List Item) (hI : ∀ x ∈ I, Q x) :
    ∀ x ∈ hull g fi I, Q x := by
  have hstart : ∀ x ∈ I.foldl ItemSet.insert [], Q x :=
    mem_foldl_insert Q I [] (by simp) hI
  simp only [hull]
  exact hullAux_mem g fi P Q hQP hclose _ _ _ (fun x hx => hQP _ (hstart x hx)) hstart

/-- the item with the dot moved one symbol to the right -/
def adv (it : Item) : Item := { it with dot := it.dot + 1 }

theorem jump_mem (g : Grammar) (fi : FirstInfo) (P Q : Item → Prop) (hQP : ∀ x, Q x → P x)
    (hclose : ∀ it, P it → ∀ x ∈ closeItem g fi it, Q x) (I : ItemSet) (X : Sym)
    (hadv : ∀ it ∈ I, g.afterDot it = X → Q (adv it)) :
    ∀ x ∈ jump g fi I X, Q x := by
  simp only [jump]
  apply hull_mem g fi P Q hQP hclose
  intro x hx
  rcases List.mem_map.mp hx with ⟨it, hit, rfl⟩
  have := List.mem_filter.mp hit
  exact hadv it this.1 (by simpa using this.2)

theorem befores_ne_eps (g : Grammar) (I : ItemSet) : ∀ x ∈ befores g I, x ≠ .eps := by
  simp only [befores]
  apply foldl_inv (fun (a : List Sym) => ∀ x ∈ a, x ≠ .eps)
  · simp
  · intro b a _ hb x hx
    split at hx
    · exact hb x hx
    · rename_i hne
      rcases mem_sortedInsert _ _ _ _ _ hx with h | h
      · subst h; exact hne
      · exact hb x h

/-! ### the collection: recorded transitions are faithful -/

def TransOK (g : Grammar) (fi : FirstInfo) (S : List LRState) : Prop :=
  ∀ (i : Nat) (st : LRState), S[i]? = some st → ∀ (X : Sym) (j : Nat), (X, j) ∈ st.trans →
    X ≠ .eps ∧ ∃ st' : LRState, S[j]? = some st' ∧ st'.items = jump g fi st.items X

theorem TransOK_append (g : Grammar) (fi : FirstInfo) (S : List LRState) (r : ItemSet)
    (h : TransOK g fi S) : TransOK g fi (S ++ [⟨r, []⟩]) := by
  intro i st hi X j hm
  rw [List.getElem?_append] at hi
  split at hi
  · obtain ⟨hne, st', hj, hst'⟩ := h i st hi X j hm
    refine ⟨hne, st', ?_, hst'⟩
    have hjlt : j < S.length := by
      rcases Nat.lt_or_ge j S.length with h | h
      · exact h
      · rw [List.getElem?_eq_none h] at hj; cases hj
    rw [List.getElem?_append_left hjlt]; exact hj
  · exfalso
    cases hk : i - S.length with
    | zero => rw [hk] at hi; simp at hi; subst hi; simp at hm
    | succ k => rw [hk] at hi; simp at hi

theorem set_items (S : List LRState) (i : Nat) (st : LRState) (tr : List (Sym × Nat))
    (hi : S[i]? = some st) (j : Nat) (st' : LRState) (hj : S[j]? = some st') :
    ∃ st'', (S.set i { st with trans := tr })[j]? = some st'' ∧ st''.items = st'.items := by
  rw [List.getElem?_set]
  by_cases hij : i = j
  · subst hij
    have hlt : i < S.length := by
      rcases Nat.lt_or_ge i S.length with h | h
      · exact h
      · rw [List.getElem?_eq_none h] at hi; cases hi
    rw [hi] at hj; cases hj
    simp [hlt]
  · simp [hij, hj]

theorem TransOK_set (g : Grammar) (fi : FirstInfo) (S : List LRState) (i : Nat) (st : LRState)
    (tr : List (Sym × Nat)) (h : TransOK g fi S) (hi : S[i]? = some st)
    (htr : ∀ X j, (X, j) ∈ tr → X ≠ .eps ∧ ∃ st', S[j]? = some st' ∧ st'.items = jump g fi st.items X) :
    TransOK g fi (S.set i { st with trans := tr }) := by
  intro k stk hk X j hm
  rw [List.getElem?_set] at hk
  by_cases hik : i = k
  · subst hik
    simp only [if_true] at hk
    split at hk
    · cases hk
      obtain ⟨hne, st', hj, hst'⟩ := htr X j hm
      obtain ⟨st'', h1, h2⟩ := set_items S i st tr hi j st' hj
      exact ⟨hne, st'', h1, by rw [h2, hst']⟩
    · cases hk
  · simp only [hik, if_false] at hk
    obtain ⟨hne, st', hj, hst'⟩ := h k stk hk X j hm
    obtain ⟨st'', h1, h2⟩ := set_items S i st tr hi j st' hj
    exact ⟨hne, st'', h1, by rw [h2, hst']⟩

/-- invariant of the collection under construction: state 0 is the initial hull and every
    recorded transition leads to the `jump` of its source -/
def CInv (g : Grammar) (fi : FirstInfo) (h0 : ItemSet) (S : List LRState) : Prop :=
  TransOK g fi S ∧ ∃ st0, S[0]? = some st0 ∧ st0.items = h0

theorem getElem?_append_some {α : Type} (S : List α) (T : List α) (j : Nat) (a : α)
    (h : S[j]? = some a) : (S ++ T)[j]? = some a := by
  have hjlt : j < S.length := by
    rcases Nat.lt_or_ge j S.length with h' | h'
    · exact h'
    · rw [List.getElem?_eq_none h'] at h; cases h
  rw [List.getElem?_append_left hjlt]; exact h

theorem expandState_inv (g : Grammar) (fi : FirstInfo) (h0 : ItemSet) (S : List LRState) (i : Nat)
    (h : CInv g fi h0 S) : CInv g fi h0 (expandState g fi S i) := by
  unfold expandState
  cases hst : S[i]? with
  | none => exact h
  | some st =>
    simp only []
    let FI : List LRState × List (Sym × Nat) → Prop := fun acc =>
      CInv g fi h0 acc.1 ∧ acc.1[i]? = some st ∧
        ∀ X j, (X, j) ∈ acc.2 → X ≠ .eps ∧ ∃ st', acc.1[j]? = some st' ∧ st'.items = jump g fi st.items X
    have hfold : FI ((befores g st.items).foldl
      (fun (acc : List LRState × List (Sym × Nat)) x =>
        let r := jump g fi st.items x
        match acc.1.findIdx? (fun s => s.items = r) with
        | some j => (acc.1, acc.2 ++ [(x, j)])
        | none => (acc.1 ++ [⟨r, []⟩], acc.2 ++ [(x, acc.1.length)]))
      (S, [])) := by
      apply foldl_inv FI
      · exact ⟨h, hst, by simp⟩
      · intro acc x hx hacc
        obtain ⟨⟨hT, st0, hst0, hh0⟩, hi, htr⟩ := hacc
        have hxne := befores_ne_eps g st.items x hx
        simp only []
        cases hf : acc.1.findIdx? (fun s => decide (s.items = jump g fi st.items x)) with
        | some j =>
          simp only []
          refine ⟨⟨hT, st0, hst0, hh0⟩, hi, ?_⟩
          intro X k hm
          rcases List.mem_append.mp hm with hm | hm
          · exact htr X k hm
          · simp only [List.mem_singleton, Prod.mk.injEq] at hm
            obtain ⟨rfl, rfl⟩ := hm
            obtain ⟨hlt, hp, _⟩ := List.findIdx?_eq_some_iff_getElem.mp hf
            refine ⟨hxne, acc.1[k], ?_, by simpa using hp⟩
            simp [hlt]
        | none =>
          simp only []
          refine ⟨⟨TransOK_append g fi _ _ hT, st0, getElem?_append_some _ _ _ _ hst0, hh0⟩,
            getElem?_append_some _ _ _ _ hi, ?_⟩
          intro X k hm
          rcases List.mem_append.mp hm with hm | hm
          · obtain ⟨hne, st', h1, h2⟩ := htr X k hm
            exact ⟨hne, st', getElem?_append_some _ _ _ _ h1, h2⟩
          · simp only [List.mem_singleton, Prod.mk.injEq] at hm
            obtain ⟨rfl, rfl⟩ := hm
            refine ⟨hxne, ⟨jump g fi st.items X, []⟩, ?_, rfl⟩
            simp
    revert hfold
    generalize ((befores g st.items).foldl _ (S, [])) = res
    intro hfold
    obtain ⟨S', tr⟩ := res
    obtain ⟨⟨hT, st0, hst0, hh0⟩, hi, htr⟩ := hfold
    simp only [] at hT hst0 hi htr ⊢
    refine ⟨TransOK_set g fi S' i st tr hT hi htr, ?_⟩
    obtain ⟨st'', h1, h2⟩ := set_items S' i st tr hi 0 st0 hst0
    exact ⟨st'', h1, by rw [h2, hh0]⟩

theorem collectAux_inv (g : Grammar) (fi : FirstInfo) (h0 : ItemSet) :
    ∀ (fuel i : Nat) (S : List LRState), CInv g fi h0 S → CInv g fi h0 (collectAux g fi fuel i S) := by
  intro fuel
  induction fuel with
  | zero => intro i S h; simpa [collectAux] using h
  | succ fuel ih =>
    intro i S h
    simp only [collectAux]
    split
    · exact ih _ _ (expandState_inv g fi h0 S i h)
    · exact h

theorem collection_inv (ga : Grammar) (fi : FirstInfo) (sPrime eof fuel : Nat) :
    CInv ga fi (hull ga fi [⟨sPrime, 0, 0, .t eof⟩]) (collection ga fi sPrime eof fuel) := by
  simp only [collection]
  apply collectAux_inv
  refine ⟨?_, ⟨hull ga fi [⟨sPrime, 0, 0, .t eof⟩], []⟩, by simp, rfl⟩
  intro i st hi X j hm
  cases i with
  | zero => simp at hi; subst hi; simp at hm
  | succ i => simp at hi

/-! ### the augmented grammar -/

theorem find_ins_ne (n : Nat) (rhs : List Sym) (m : Nat) (hm : m ≠ n) :
    ∀ l, (Grammar.add.ins n rhs l).find? (fun e => e.1 = m) = l.find? (fun e => e.1 = m) := by
  intro l
  induction l with
  | nil => simp [Grammar.add.ins, Ne.symm hm]
  | cons e es ih =>
    simp only [Grammar.add.ins]
    split
    · rename_i h
      have : ¬ e.1 = m := by rw [h]; exact Ne.symm hm
      simp [this]
    · split
      · simp [List.find?_cons, Ne.symm hm]
      · simp only [List.find?_cons, ih]

theorem find_ins_eq (n : Nat) (rhs : List Sym) :
    ∀ l, (∀ e ∈ l, e.1 ≠ n) → (Grammar.add.ins n rhs l).find? (fun e => e.1 = n) = some (n, [rhs]) := by
  intro l
  induction l with
  | nil => intro _; simp [Grammar.add.ins]
  | cons e es ih =>
    intro h
    have he : e.1 ≠ n := h e (by simp)
    simp only [Grammar.add.ins, he, if_false]
    split
    · simp
    · simp only [List.find?_cons]
      simp only [he, decide_false]
      exact ih (fun e' he' => h e' (by simp [he']))

theorem keys_ins (n : Nat) (rhs : List Sym) :
    ∀ l e, e ∈ Grammar.add.ins n rhs l → e.1 = n ∨ ∃ e' ∈ l, e'.1 = e.1 := by
  intro l
  induction l with
  | nil => intro e he; simp [Grammar.add.ins] at he; subst he; simp
  | cons e0 es ih =>
    intro e he
    simp only [Grammar.add.ins] at he
    split at he
    · rename_i h
      simp only [List.mem_cons] at he
      rcases he with he | he
      · subst he; exact Or.inl h
      · exact Or.inr ⟨e, by simp [he], rfl⟩
    · split at he
      · simp only [List.mem_cons] at he
        rcases he with he | he | he
        · subst he; exact Or.inl rfl
        · subst he; exact Or.inr ⟨e, by simp, rfl⟩
        · exact Or.inr ⟨e, by simp [he], rfl⟩
      · simp only [List.mem_cons] at he
        rcases he with he | he
        · subst he; exact Or.inr ⟨e, by simp, rfl⟩
        · rcases ih e he with h | ⟨e', he', h⟩
          · exact Or.inl h
          · exact Or.inr ⟨e', by simp [he'], h⟩

theorem augment_numNT (g : Grammar) (start eof : Nat) : (g.augment start eof).numNT = g.numNT + 2 := rfl

theorem augment_alts_lt (g : Grammar) (start eof m : Nat) (hm : m < g.numNT) :
    (g.augment start eof).alts m = g.alts m := by
  simp only [Grammar.alts, Grammar.augment, Grammar.add]
  rw [find_ins_ne _ _ _ (by omega), find_ins_ne _ _ _ (by omega)]

theorem augment_alts_S (g : Grammar) (start eof : Nat) (hg : g.Closed) :
    (g.augment start eof).alts g.numNT = [[.n start]] := by
  simp only [Grammar.alts, Grammar.augment, Grammar.add]
  rw [find_ins_ne _ _ _ (by omega), find_ins_eq]
  · simp
  · intro e he
    have := (hg e he).1
    omega

theorem mem_alts (g : Grammar) (n : Nat) (a : List Sym) (h : a ∈ g.alts n) :
    ∃ e ∈ g.prods, a ∈ e.2 := by
  simp only [Grammar.alts] at h
  cases hf : g.prods.find? (fun e => e.1 = n) with
  | none => rw [hf] at h; simp at h
  | some e =>
    rw [hf] at h
    exact ⟨e, List.mem_of_find?_eq_some hf, by simpa using h⟩

/-! ### items of reachable states -/

section Items
variable (g : Grammar) (start eof : Nat)

/-- properties of an item that do not depend on the state it occurs in -/
structure Good (it : Item) : Prop where
  alt_lt : it.alt < ((g.augment start eof).alts it.left).length
  left_ok : it.left < g.numNT ∨ (it.left = g.numNT ∧ it.follow = .t eof)

theorem good_rhs_get {it : Item} (h : Good g start eof it) :
    ((g.augment start eof).alts it.left)[it.alt]? = some ((g.augment start eof).rhs it) := by
  simp [Grammar.rhs, List.getElem?_eq_getElem h.alt_lt]

theorem good_rhs_mem {it : Item} (h : Good g start eof it) :
    (g.augment start eof).rhs it ∈ (g.augment start eof).alts it.left :=
  List.mem_of_getElem? (good_rhs_get g start eof h)

theorem good_S {it : Item} (hg : g.Closed) (h : Good g start eof it) (hl : it.left = g.numNT) :
    it.alt = 0 ∧ (g.augment start eof).rhs it = [.n start] ∧ it.follow = .t eof := by
  have h1 := h.alt_lt
  have h2 := good_rhs_mem g start eof h
  rw [hl, augment_alts_S g start eof hg] at h1 h2
  refine ⟨by simpa using h1, by simpa using h2, ?_⟩
  rcases h.left_ok with h3 | h3
  · omega
  · exact h3.2

theorem good_rhs_sym {it : Item} (hg : g.Closed) (hs : start < g.numNT) (h : Good g start eof it) :
    ∀ s ∈ (g.augment start eof).rhs it, ∀ k, s = .n k → k < g.numNT := by
  intro s hsm k hk
  rcases h.left_ok with hl | hl
  · have h2 := good_rhs_mem g start eof h
    rw [augment_alts_lt g start eof _ hl] at h2
    obtain ⟨e, he, ha⟩ := mem_alts g _ _ h2
    exact ((hg e he).2 _ ha s hsm).2 k hk
  · rw [(good_S g start eof hg h hl.1).2.1] at hsm
    simp only [List.mem_singleton] at hsm
    rw [hsm] at hk; cases hk; exact hs

theorem rhs_adv (ga : Grammar) (it : Item) : ga.rhs (adv it) = ga.rhs it := rfl

theorem good_adv {it : Item} (h : Good g start eof it) : Good g start eof (adv it) :=
  ⟨h.alt_lt, h.left_ok⟩

theorem afterDot_some (ga : Grammar) (it : Item) (X : Sym) (hX : X ≠ .eps) (h : ga.afterDot it = X) :
    (ga.rhs it)[it.dot]? = some X := by
  simp only [Grammar.afterDot] at h
  cases hh : (ga.rhs it)[it.dot]? with
  | none => rw [hh] at h; simp at h; exact absurd h.symm hX
  | some Y => rw [hh] at h; simpa using h

theorem good_close (fi : FirstInfo) {it : Item} (hg : g.Closed) (hs : start < g.numNT)
    (h : Good g start eof it) :
    ∀ x ∈ closeItem (g.augment start eof) fi it, Good g start eof x ∧ x.dot = 0 ∧ x.left < g.numNT := by
  intro x hx
  simp only [closeItem] at hx
  split at hx
  · rename_i b hb
    have hb' := afterDot_some _ it (.n b) (by simp) hb
    have hblt : b < g.numNT := good_rhs_sym g start eof hg hs h _ (List.mem_of_getElem? hb') b rfl
    simp only [List.mem_flatMap, List.mem_range, List.mem_map] at hx
    obtain ⟨ri, hri, la, _, rfl⟩ := hx
    exact ⟨⟨hri, Or.inl hblt⟩, rfl, hblt⟩
  · simp at hx

/-- the state stack of the driver spells a path of the automaton -/
inductive Stk (S : List LRState) : Nat → List Nat → List Sym → Prop
  | base : Stk S 0 [] []
  | push {q : Nat} {qs : List Nat} {syms : List Sym} {st : LRState} {X : Sym} {q' : Nat} :
      Stk S q qs syms → S[q]? = some st → (X, q') ∈ st.trans → Stk S q' (q :: qs) (X :: syms)

/-- what an item of a state says about every path (symbols top first) reaching the state -/
structure ItemOK (syms : List Sym) (it : Item) : Prop where
  good : Good g start eof it
  dot_le : it.dot ≤ ((g.augment start eof).rhs it).length
  pre : (((g.augment start eof).rhs it).take it.dot).reverse <+: syms
  s0 : it.left = g.numNT → it.dot = 0 → syms = []
  s1 : it.left = g.numNT → it.dot = 1 → syms = [.n start]

theorem itemOK_closure (syms : List Sym) (x : Item) (hgood : Good g start eof x) (hd : x.dot = 0)
    (hl : x.left < g.numNT) : ItemOK g start eof syms x := by
  refine ⟨hgood, by omega, ?_, ?_, ?_⟩
  · rw [hd]; simp
  · intro h; omega
  · intro h; omega

theorem stk_items (fi : FirstInfo) (S : List LRState) (hg : g.Closed) (hs : start < g.numNT)
    (hS : CInv (g.augment start eof) fi (hull (g.augment start eof) fi [⟨g.numNT, 0, 0, .t eof⟩]) S)
    {q : Nat} {qs : List Nat} {syms : List Sym} (hstk : Stk S q qs syms) :
    ∀ st, S[q]? = some st → ∀ it ∈ st.items, ItemOK g start eof syms it := by
  induction hstk with
  | base =>
    intro st hst it hit
    obtain ⟨_, st0, hst0, hh0⟩ := hS
    rw [hst0] at hst; cases hst
    rw [hh0] at hit
    have hinit : Good g start eof ⟨g.numNT, 0, 0, .t eof⟩ :=
      ⟨by simp [augment_alts_S g start eof hg], Or.inr ⟨rfl, rfl⟩⟩
    have := hull_mem (g.augment start eof) fi (Good g start eof)
      (fun x => Good g start eof x ∧ (x = ⟨g.numNT, 0, 0, .t eof⟩ ∨ (x.dot = 0 ∧ x.left < g.numNT)))
      (fun x hx => hx.1)
      (fun it hit x hx => by
        have := good_close g start eof fi hg hs hit x hx
        exact ⟨this.1, Or.inr this.2⟩)
      [⟨g.numNT, 0, 0, .t eof⟩]
      (by intro x hx; simp only [List.mem_singleton] at hx; subst hx; exact ⟨hinit, Or.inl rfl⟩)
      it hit
    obtain ⟨hgood, h | ⟨hd, hl⟩⟩ := this
    · subst h
      refine ⟨hgood, by simp, by simp, fun _ _ => rfl, ?_⟩
      intro _ h; simp at h
    · exact itemOK_closure g start eof [] it hgood hd hl
  | @push q qs syms st X q' hprev hq hX ih =>
    intro st' hst' it hit
    obtain ⟨hXne, st'', hst'', hitems⟩ := hS.1 q st hq X q' hX
    rw [hst''] at hst'; cases hst'
    rw [hitems] at hit
    have ihq := ih st hq
    have := jump_mem (g.augment start eof) fi (Good g start eof)
      (fun x => Good g start eof x ∧
        ((∃ it0 ∈ st.items, (g.augment start eof).afterDot it0 = X ∧ x = adv it0) ∨
          (x.dot = 0 ∧ x.left < g.numNT)))
      (fun x hx => hx.1)
      (fun it hit x hx => by
        have := good_close g start eof fi hg hs hit x hx
        exact ⟨this.1, Or.inr this.2⟩)
      st.items X
      (fun it0 hit0 h0 => ⟨good_adv g start eof (ihq it0 hit0).good, Or.inl ⟨it0, hit0, h0, rfl⟩⟩)
      it hit
    obtain ⟨hgood, ⟨it0, hit0, haft, rfl⟩ | ⟨hd, hl⟩⟩ := this
    · have ok0 := ihq it0 hit0
      have hget := afterDot_some _ it0 X hXne haft
      have hlt : it0.dot < ((g.augment start eof).rhs it0).length := by
        rcases Nat.lt_or_ge it0.dot ((g.augment start eof).rhs it0).length with h | h
        · exact h
        · rw [List.getElem?_eq_none h] at hget; cases hget
      refine ⟨hgood, ?_, ?_, ?_, ?_⟩
      · rw [rhs_adv]; simp only [adv]; omega
      · rw [rhs_adv]; simp only [adv]
        rw [List.take_add_one, hget]
        simp only [Option.toList_some, List.reverse_append, List.reverse_cons, List.reverse_nil,
          List.nil_append, List.singleton_append]
        exact (List.prefix_cons_inj X).mpr ok0.pre
      · intro _ h; simp [adv] at h
      · intro hl h
        have hd0 : it0.dot = 0 := by simpa [adv] using h
        have hl0 : it0.left = g.numNT := hl
        have := ok0.s0 hl0 hd0
        subst this
        have hr := (good_S g start eof hg ok0.good hl0).2.1
        rw [hr, hd0] at hget
        simp at hget
        rw [hget]
    · exact itemOK_closure g start eof _ it hgood hd hl

end Items

/-! ### table cells come from items and transitions -/

def CellOK (ga : Grammar) (pm : Bool) (st : LRState) (a : Nat) : Action → Prop
  | .err => True
  | .shift s' => (Sym.t a, s') ∈ st.trans
  | .reduce l al b => ∃ it ∈ st.items, it.dot = (ga.rhs it).length ∧ it.left ≠ ga.numNT - 2 ∧
      l = it.left ∧ al = it.alt ∧ b = (ga.rhs it).length
  | .accept => ∃ it ∈ st.items, it.dot = (ga.rhs it).length ∧ it.left = ga.numNT - 2 ∧
      (it.follow.index = a ∨ pm = true)

def RowOK (ga : Grammar) (pm : Bool) (st : LRState) (row : List Action) : Prop :=
  ∀ a, CellOK ga pm st a ((row[a]?).getD .err)

def GrowOK (st : LRState) (grow : List Int) : Prop :=
  ∀ (A : Nat) (j : Int), grow[A]? = some j → 0 ≤ j → (Sym.n A, j.toNat) ∈ st.trans

theorem rowOK_replicate (ga : Grammar) (pm : Bool) (st : LRState) (w : Nat) :
    RowOK ga pm st (List.replicate w .err) := by
  intro a
  have : ((List.replicate w Action.err)[a]?).getD .err = .err := by
    rw [List.getElem?_replicate]; split <;> rfl
  rw [this]; trivial

theorem rowOK_set (ga : Grammar) (pm : Bool) (st : LRState) (row : List Action) (t : Nat) (act : Action)
    (h : RowOK ga pm st row) (hc : CellOK ga pm st t act) : RowOK ga pm st (row.set t act) := by
  intro a
  rw [List.getElem?_set]
  by_cases hta : t = a
  · subst hta
    simp only [if_true]
    split
    · exact hc
    · trivial
  · simp only [hta, if_false]; exact h a

theorem placeShift_ok (ga : Grammar) (pm : Bool) (st : LRState) (state : Nat) (row : List Action)
    (confs : List Conflict) (t target : Nat) (h : RowOK ga pm st row) (ht : (Sym.t t, target) ∈ st.trans) :
    RowOK ga pm st (placeShift state row confs t target).1 := by
  simp only [placeShift]
  split
  · exact h
  · exact rowOK_set ga pm st row t _ h ht

theorem placeRA_ok (ga : Grammar) (pm : Bool) (st : LRState) (state : Nat) (row : List Action)
    (confs : List Conflict) (t : Nat) (act : Action) (h : RowOK ga pm st row) (hc : CellOK ga pm st t act) :
    RowOK ga pm st (placeRA state row confs t act).1 := by
  simp only [placeRA]
  split
  · exact h
  · exact h
  · exact rowOK_set ga pm st row t _ h hc

def row1F (state : Nat) (acc : List Action × List Int × List Conflict) (p : Sym × Nat) :
    List Action × List Int × List Conflict :=
  match p.1 with
  | .t i =>
    let (r, c) := placeShift state acc.1 acc.2.2 i p.2
    (r, acc.2.1, c)
  | .n k => (acc.1, acc.2.1.set k (p.2 : Int), acc.2.2)
  | .eps => acc

def row2F (ga : Grammar) (prefixMode : Bool) (eof width state : Nat)
    (acc : List Action × List Conflict) (it : Item) : List Action × List Conflict :=
  let size := (ga.rhs it).length
  if it.dot ≠ size then acc else
  let act : Action := if it.left = ga.numNT - 2 then .accept else .reduce it.left it.alt size
  if it.follow.index = eof ∧ prefixMode then
    (List.range width).foldl (fun a t => placeRA state a.1 a.2 t act) acc
  else placeRA state acc.1 acc.2 it.follow.index act

theorem fillRow_eq (ga : Grammar) (pm : Bool) (eof width state : Nat) (st : LRState)
    (confs : List Conflict) :
    fillRow ga pm eof width state st confs =
      (let r1 := st.trans.foldl (row1F state)
        (List.replicate width .err, List.replicate ga.numNT (-1), confs)
       let r2 := st.items.foldl (row2F ga pm eof width state) (r1.1, r1.2.2)
       (r2.1, r1.2.1, r2.2)) := rfl

theorem fillRow_ok (ga : Grammar) (pm : Bool) (eof width state : Nat) (st : LRState)
    (confs : List Conflict) :
    RowOK ga pm st (fillRow ga pm eof width state st confs).1 ∧
      GrowOK st (fillRow ga pm eof width state st confs).2.1 := by
  rw [fillRow_eq]
  simp only []
  have h1 : (fun (acc : List Action × List Int × List Conflict) =>
      RowOK ga pm st acc.1 ∧ GrowOK st acc.2.1)
      (st.trans.foldl (row1F state)
        (List.replicate width .err, List.replicate ga.numNT (-1), confs)) := by
    apply foldl_inv (fun (acc : List Action × List Int × List Conflict) =>
      RowOK ga pm st acc.1 ∧ GrowOK st acc.2.1)
    · refine ⟨rowOK_replicate ga pm st width, ?_⟩
      intro A j hj hpos
      rw [List.getElem?_replicate] at hj
      split at hj
      · cases hj; omega
      · cases hj
    · intro acc p hp hacc
      obtain ⟨X, tgt⟩ := p
      simp only [row1F]
      cases X with
      | eps => exact hacc
      | t i => exact ⟨placeShift_ok ga pm st state _ _ i tgt hacc.1 hp, hacc.2⟩
      | n k =>
        refine ⟨hacc.1, ?_⟩
        intro A j hj hpos
        simp only [] at hj
        rw [List.getElem?_set] at hj
        by_cases hkA : k = A
        · subst hkA
          simp only [if_true] at hj
          split at hj
          · cases hj; simpa using hp
          · cases hj
        · simp only [hkA, if_false] at hj
          exact hacc.2 A j hj hpos
  simp only [] at h1
  refine ⟨?_, h1.2⟩
  apply foldl_inv (fun (acc : List Action × List Conflict) => RowOK ga pm st acc.1)
  · exact h1.1
  · intro acc it hit hacc
    simp only [row2F]
    split
    · exact hacc
    · rename_i hdot
      have hdot' : it.dot = (ga.rhs it).length := by simpa using hdot
      have hcell : ∀ t, (it.follow.index = t ∨ pm = true) →
          CellOK ga pm st t (if it.left = ga.numNT - 2 then .accept
            else .reduce it.left it.alt (ga.rhs it).length) := by
        intro t ht
        split
        · rename_i hl; exact ⟨it, hit, hdot', hl, ht⟩
        · rename_i hl; exact ⟨it, hit, hdot', hl, rfl, rfl, rfl⟩
      split
      · rename_i hpm
        apply foldl_inv (fun (acc : List Action × List Conflict) => RowOK ga pm st acc.1)
        · exact hacc
        · intro acc' t _ hacc'
          exact placeRA_ok ga pm st state _ _ t _ hacc' (hcell t (Or.inr hpm.2))
      · exact placeRA_ok ga pm st state _ _ _ _ hacc (hcell _ (Or.inl rfl))

def TabOK (ga : Grammar) (pm : Bool) (S : List LRState) (action : List (List Action))
    (goto : List (List Int)) : Prop :=
  (∀ (q : Nat) (row : List Action), action[q]? = some row → ∃ st, S[q]? = some st ∧ RowOK ga pm st row) ∧
  (∀ (q : Nat) (grow : List Int), goto[q]? = some grow → ∃ st, S[q]? = some st ∧ GrowOK st grow)

def rowsF (ga : Grammar) (pm : Bool) (eof width : Nat)
    (acc : List (List Action) × List (List Int) × List Conflict) (p : LRState × Nat) :
    List (List Action) × List (List Int) × List Conflict :=
  let r := fillRow ga pm eof width p.2 p.1 acc.2.2
  (acc.1 ++ [r.1], acc.2.1 ++ [r.2.1], r.2.2)

theorem genTables_eq (g : Grammar) (start eof : Nat) (pm : Bool) (fuel : Nat) :
    genTables g start eof pm fuel =
      (let ga := g.augment start eof
       let states := collection ga (firstSets ga) g.numNT eof fuel
       let res := states.zipIdx.foldl (rowsF ga pm eof (ga.maxTerminal + 1)) ([], [], [])
       (⟨res.1, res.2.1, res.2.2⟩, states.length)) := rfl

theorem getElem?_snoc {α : Type} (l : List α) (x : α) (q : Nat) (y : α)
    (h : (l ++ [x])[q]? = some y) : l[q]? = some y ∨ (q = l.length ∧ y = x) := by
  rw [List.getElem?_append] at h
  split at h
  · exact Or.inl h
  · rename_i hlt
    cases hk : q - l.length with
    | zero => rw [hk] at h; simp at h; exact Or.inr ⟨by omega, h.symm⟩
    | succ k => rw [hk] at h; simp at h

theorem rows_ok (ga : Grammar) (pm : Bool) (eof width : Nat) :
    ∀ (l pre : List LRState) (acc : List (List Action) × List (List Int) × List Conflict),
      acc.1.length = pre.length → acc.2.1.length = pre.length →
      TabOK ga pm (pre ++ l) acc.1 acc.2.1 →
      TabOK ga pm (pre ++ l) ((l.zipIdx pre.length).foldl (rowsF ga pm eof width) acc).1
        ((l.zipIdx pre.length).foldl (rowsF ga pm eof width) acc).2.1 := by
  intro l
  induction l with
  | nil => intro pre acc _ _ h; simpa using h
  | cons x l ih =>
    intro pre acc h1 h2 hT
    simp only [List.zipIdx_cons, List.foldl_cons]
    have hpre : pre ++ x :: l = (pre ++ [x]) ++ l := by simp
    have hlen : pre.length + 1 = (pre ++ [x]).length := by simp
    rw [hpre, hlen]
    have hx : ((pre ++ [x]) ++ l)[pre.length]? = some x := by simp
    apply ih
    · simp [rowsF, h1]
    · simp [rowsF, h2]
    · rw [← hpre]
      have hf := fillRow_ok ga pm eof width pre.length x acc.2.2
      rw [hpre] at hT ⊢
      constructor
      · intro q row hq
        simp only [rowsF] at hq
        rcases getElem?_snoc _ _ _ _ hq with h | ⟨hq1, hq2⟩
        · exact hT.1 q row h
        · rw [hq1, h1, hq2]; exact ⟨x, hx, hf.1⟩
      · intro q grow hq
        simp only [rowsF] at hq
        rcases getElem?_snoc _ _ _ _ hq with h | ⟨hq1, hq2⟩
        · exact hT.2 q grow h
        · rw [hq1, h2, hq2]; exact ⟨x, hx, hf.2⟩

theorem genTables_ok (g : Grammar) (start eof : Nat) (pm : Bool) (fuel : Nat) :
    TabOK (g.augment start eof) pm
      (collection (g.augment start eof) (firstSets (g.augment start eof)) g.numNT eof fuel)
      (genTables g start eof pm fuel).1.action (genTables g start eof pm fuel).1.goto := by
  rw [genTables_eq]
  simp only []
  have := rows_ok (g.augment start eof) pm eof ((g.augment start eof).maxTerminal + 1)
    (collection (g.augment start eof) (firstSets (g.augment start eof)) g.numNT eof fuel) []
    ([], [], []) rfl rfl ⟨by simp, by simp⟩
  simpa using this

/-! ## C. the driver -/

theorem roots_ofList (ts : List Tree) : (Forest.ofList ts).roots = ts.map Tree.root := by
  induction ts with
  | nil => rfl
  | cons t ts ih => simp [Forest.ofList, Forest.roots, ih]

theorem yield_ofList (ts : List Tree) : (Forest.ofList ts).yield = (ts.map Tree.yield).flatten := by
  induction ts with
  | nil => simp [Forest.ofList, Forest.yield]
  | cons t ts ih => simp [Forest.ofList, Forest.yield, ih]

theorem valid_ofList (g : Grammar) (ts : List Tree) (h : ∀ t ∈ ts, t.Valid g) :
    (Forest.ofList ts).Valid g := by
  induction ts with
  | nil => simp [Forest.ofList, Forest.Valid]
  | cons t ts ih =>
    simp only [Forest.ofList, Forest.Valid]
    exact ⟨h t (by simp), ih (fun t' ht' => h t' (by simp [ht']))⟩

theorem stk_len {S : List LRState} {q : Nat} {qs : List Nat} {syms : List Sym} (h : Stk S q qs syms) :
    qs.length = syms.length := by
  induction h with
  | base => rfl
  | push _ _ _ ih => simp [ih]

theorem stk_drop {S : List LRState} {q : Nat} {qs : List Nat} {syms : List Sym} (h : Stk S q qs syms) :
    ∀ k, k ≤ syms.length → ∃ q' qs', (q :: qs).drop k = q' :: qs' ∧ Stk S q' qs' (syms.drop k) := by
  induction h with
  | base => intro k hk; simp at hk; subst hk; exact ⟨0, [], rfl, Stk.base⟩
  | @push q qs syms st X q' hprev hq hX ih =>
    intro k hk
    cases k with
    | zero => exact ⟨q', q :: qs, rfl, Stk.push hprev hq hX⟩
    | succ k =>
      obtain ⟨q'', qs'', h1, h2⟩ := ih k (by simpa using hk)
      exact ⟨q'', qs'', by simpa using h1, by simpa using h2⟩

section Driver
variable (g : Grammar) (start eof : Nat) (pm : Bool) (fi : FirstInfo) (S : List LRState) (T : Tables)

theorem driver_sound (hg : g.Closed) (hs : start < g.numNT)
    (hS : CInv (g.augment start eof) fi (hull (g.augment start eof) fi [⟨g.numNT, 0, 0, .t eof⟩]) S)
    (hT : TabOK (g.augment start eof) pm S T.action T.goto) (inp : List Nat) (v : Tree) :
    ∀ (fuel : Nat) (rest : List Nat) (q : Nat) (qs : List Nat) (vals : List Tree) (consumed : List Nat),
      Stk S q qs (vals.map Tree.root) → (∀ t ∈ vals, t.Valid g) →
      (vals.reverse.map Tree.yield).flatten = consumed → consumed ++ rest = inp →
      lrParse T (fun (t : Nat) => t) Tree.leaf nodeAct fuel rest (q :: qs) vals = .accept v →
      v.Valid g ∧ v.root = .n start ∧
        ∃ c a r, c ++ a :: r = inp ∧ v.yield = c ∧ (pm = false → a = eof) := by
  intro fuel
  induction fuel with
  | zero => intro rest q qs vals consumed _ _ _ _ h; simp [lrParse] at h
  | succ fuel ih =>
    intro rest q qs vals consumed hstk hval hyield hinp h
    cases rest with
    | nil => simp [lrParse] at h
    | cons x xs =>
      simp only [lrParse] at h
      cases hrow : T.action[q]? with
      | none => rw [hrow] at h; simp at h
      | some row =>
        rw [hrow] at h
        simp only [] at h
        by_cases hlen : row.length ≤ x
        · simp [hlen] at h
        · simp only [hlen, if_false] at h
          obtain ⟨st, hst, hrowok⟩ := hT.1 q row hrow
          have hcell := hrowok x
          cases hc : (row[x]?).getD .err with
          | err => rw [hc] at h; simp at h
          | shift s' =>
            rw [hc] at h hcell
            simp only [] at h
            refine ih xs s' (q :: qs) (Tree.leaf x :: vals) (consumed ++ [x]) ?_ ?_ ?_ ?_ h
            · exact Stk.push hstk hst hcell
            · intro t ht
              simp only [List.mem_cons] at ht
              rcases ht with ht | ht
              · subst ht; trivial
              · exact hval t ht
            · rw [← hyield]; simp [Tree.yield]
            · simp [← hinp]
          | accept =>
            rw [hc] at h hcell
            simp only [] at h
            obtain ⟨it, hit, hdot, hl, hfol⟩ := hcell
            have ok := stk_items g start eof fi S hg hs hS hstk st hst it hit
            have hl' : it.left = g.numNT := by rw [hl, augment_numNT]; omega
            obtain ⟨_, hrhs, hf⟩ := good_S g start eof hg ok.good hl'
            have hd1 : it.dot = 1 := by rw [hdot, hrhs]; rfl
            have hsyms := ok.s1 hl' hd1
            cases vals with
            | nil => simp at hsyms
            | cons v0 vs =>
              simp only [ParseOut.accept.injEq] at h
              subst h
              simp only [List.map_cons, List.cons.injEq, List.map_eq_nil_iff] at hsyms
              obtain ⟨hroot, hvs⟩ := hsyms
              subst hvs
              refine ⟨hval v0 (by simp), hroot, consumed, x, xs, hinp, ?_, ?_⟩
              · simpa using hyield
              · intro hpm
                rcases hfol with hfol | hfol
                · rw [hf] at hfol; exact hfol.symm
                · rw [hpm] at hfol; cases hfol
          | reduce l al beta =>
            rw [hc] at h hcell
            simp only [] at h
            obtain ⟨it, hit, hdot, hlne, rfl, rfl, rfl⟩ := hcell
            have ok := stk_items g start eof fi S hg hs hS hstk st hst it hit
            have hleft : it.left < g.numNT := by
              rcases ok.good.left_ok with h1 | h1
              · exact h1
              · exfalso; apply hlne; rw [h1.1, augment_numNT]; omega
            have hpre := ok.pre
            rw [hdot, List.take_length] at hpre
            have hbl : ((g.augment start eof).rhs it).length ≤ vals.length := by
              have := hpre.length_le
              simpa using this
            have hroots : (vals.take ((g.augment start eof).rhs it).length).map Tree.root =
                ((g.augment start eof).rhs it).reverse := by
              have := List.prefix_iff_eq_take.mp hpre
              rw [List.length_reverse, ← List.map_take] at this
              exact this.symm
            obtain ⟨sp, rest', hd, hstk'⟩ := stk_drop hstk ((g.augment start eof).rhs it).length
              (by simpa using hbl)
            have hcond : ¬ (vals.length < ((g.augment start eof).rhs it).length ∨
                (q :: qs).length ≤ ((g.augment start eof).rhs it).length) := by
              have := stk_len hstk
              simp only [List.length_map] at this
              simp only [List.length_cons]
              omega
            simp only [hcond, if_false] at h
            rw [hd] at h
            simp only [] at h
            cases hgo : (T.goto[sp]?).bind (·[it.left]?) with
            | none => rw [hgo] at h; simp at h
            | some j =>
              rw [hgo] at h
              simp only [] at h
              by_cases hj : j < 0
              · simp [hj] at h
              · simp only [hj, if_false] at h
                obtain ⟨grow, hgrow1, hgrow2⟩ := Option.bind_eq_some_iff.mp hgo
                obtain ⟨stp, hstp, hgrowok⟩ := hT.2 sp grow hgrow1
                have htr := hgrowok it.left j hgrow2 (by omega)
                refine ih (x :: xs) j.toNat (sp :: rest')
                  (nodeAct it.left it.alt (vals.take ((g.augment start eof).rhs it).length) ::
                    vals.drop ((g.augment start eof).rhs it).length) consumed ?_ ?_ ?_ hinp h
                · have := Stk.push hstk' hstp htr
                  simpa [Tree.root, List.map_drop] using this
                · intro t ht
                  simp only [List.mem_cons] at ht
                  rcases ht with ht | ht
                  · subst ht
                    refine ⟨?_, ?_⟩
                    · rw [roots_ofList, List.map_reverse, hroots, List.reverse_reverse,
                        ← augment_alts_lt g start eof _ hleft]
                      exact good_rhs_get g start eof ok.good
                    · apply valid_ofList
                      intro t' ht'
                      exact hval t' (List.mem_of_mem_take (List.mem_reverse.mp ht'))
                  · exact hval t (List.mem_of_mem_drop ht)
                · have hsplit : vals.reverse = (vals.drop ((g.augment start eof).rhs it).length).reverse ++
                      (vals.take ((g.augment start eof).rhs it).length).reverse := by
                    rw [← List.reverse_append, List.take_append_drop]
                  rw [← hyield, hsplit]
                  simp [Tree.yield, yield_ofList]

end Driver

/-! ## D. soundness of the generated parser -/

theorem sound_run (g : Grammar) (start eof : Nat) (pm : Bool) (sfuel fuel : Nat) (inp : List Nat)
    (v : Tree) (hg : g.Closed) (hs : start < g.numNT)
    (h : lrParseTree (genTables g start eof pm sfuel).1 fuel inp = .accept v) :
    v.Valid g ∧ v.root = .n start ∧
      ∃ c a r, c ++ a :: r = inp ∧ v.yield = c ∧ (pm = false → a = eof) := by
  unfold lrParseTree at h
  exact driver_sound g start eof pm (firstSets (g.augment start eof))
    (collection (g.augment start eof) (firstSets (g.augment start eof)) g.numNT eof sfuel)
    (genTables g start eof pm sfuel).1 hg hs
    (collection_inv _ _ _ _ _) (genTables_ok g start eof pm sfuel) inp v
    fuel inp 0 [] [] [] Stk.base (by simp) (by simp) (by simp) h

theorem eq_of_append_eof (eof : Nat) : ∀ (w c r : List Nat), eof ∉ w →
    c ++ eof :: r = w ++ [eof] → c = w := by
  intro w
  induction w with
  | nil =>
    intro c r _ h
    cases c with
    | nil => rfl
    | cons y c' => simp at h
  | cons y w' ih =>
    intro c r hw h
    simp only [List.mem_cons, not_or] at hw
    cases c with
    | nil =>
      simp only [List.nil_append, List.cons_append, List.cons.injEq] at h
      exact absurd h.1 hw.1
    | cons z c' =>
      simp only [List.cons_append, List.cons.injEq] at h
      rw [h.1, ih c' r hw.2 h.2]

theorem sound_full (g : Grammar) (start eof : Nat) (sfuel fuel : Nat) (w : List Nat) (v : Tree)
    (hg : g.Closed) (hs : start < g.numNT) (hw : eof ∉ w)
    (h : lrParseTree (genTables g start eof false sfuel).1 fuel (w ++ [eof]) = .accept v) :
    v.Valid g ∧ v.root = .n start ∧ v.yield = w := by
  obtain ⟨h1, h2, c, a, r, hc, hy, ha⟩ := sound_run g start eof false sfuel fuel _ v hg hs h
  refine ⟨h1, h2, ?_⟩
  rw [ha rfl] at hc
  rw [hy]
  exact eq_of_append_eof eof w c r hw hc

theorem sound_prefix (g : Grammar) (start eof : Nat) (sfuel fuel : Nat) (inp : List Nat) (v : Tree)
    (hg : g.Closed) (hs : start < g.numNT)
    (h : lrParseTree (genTables g start eof true sfuel).1 fuel inp = .accept v) :
    v.Valid g ∧ v.root = .n start ∧ v.yield <+: inp := by
  obtain ⟨h1, h2, c, a, r, hc, hy, _⟩ := sound_run g start eof true sfuel fuel _ v hg hs h
  exact ⟨h1, h2, ⟨a :: r, by rw [hy]; exact hc⟩⟩

end LRSound
end Theo
