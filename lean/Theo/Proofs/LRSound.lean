/-
  Soundness of the LR(1) tables and driver (C13; used by C09 / C12).
-/
import Theo.Spec.CFG

namespace Theo
namespace LRSound

/-! ## A. the value computed by the driver is the fold of the tree it builds -/

def pmap {α β : Type} (f : α → β) : ParseOut α → ParseOut β
  | .accept v => .accept (f v)
  | .reject => .reject
  | .stuck => .stuck
  | .fuelOut => .fuelOut

theorem foldRev_ofList {V : Type} (leaf : Nat → V) (act : Nat → Nat → List V → V) (ts : List Tree) :
    (Forest.ofList ts).foldRev leaf act = (ts.map (Tree.fold leaf act)).reverse := by
  induction ts with
  | nil => simp [Forest.ofList, Forest.foldRev]
  | cons t ts ih => simp [Forest.ofList, Forest.foldRev, ih]

/-- the semantic action used by `lrParseTree` -/
abbrev nodeAct : Nat → Nat → List Tree → Tree :=
  fun l a popped => Tree.node l a (Forest.ofList popped.reverse)

theorem fold_nodeAct {V : Type} (leaf : Nat → V) (act : Nat → Nat → List V → V) (l a : Nat)
    (popped : List Tree) :
    (nodeAct l a popped).fold leaf act = act l a (popped.map (Tree.fold leaf act)) := by
  simp [Tree.fold, foldRev_ofList]

theorem lrParse_fold {V : Type} (T : Tables) (leaf : Nat → V) (act : Nat → Nat → List V → V)
    (fuel : Nat) : ∀ (inp : List Nat) (sts : List Nat) (vs : List Tree),
    lrParse T (fun (t : Nat) => t) leaf act fuel inp sts (vs.map (Tree.fold leaf act)) =
      pmap (Tree.fold leaf act) (lrParse T (fun (t : Nat) => t) Tree.leaf nodeAct fuel inp sts vs) := by
  induction fuel with
  | zero => intro inp sts vs; simp [lrParse, pmap]
  | succ fuel ih =>
    intro inp sts vs
    cases sts with
    | nil => simp [lrParse, pmap]
    | cons s srest =>
      cases inp with
      | nil => simp [lrParse, pmap]
      | cons x xs =>
        simp only [lrParse]
        cases hrow : T.action[s]? with
        | none => simp [pmap]
        | some row =>
          simp only []
          by_cases hlen : row.length ≤ x
          · simp [hlen, pmap]
          · simp only [hlen, if_false]
            cases hc : (row[x]?).getD .err with
            | err => simp [pmap]
            | shift s' =>
              simp only []
              have := ih xs (s' :: s :: srest) (Tree.leaf x :: vs)
              simpa [Tree.fold] using this
            | accept =>
              cases vs with
              | nil => simp [pmap]
              | cons v vs => simp [pmap]
            | reduce left alt beta =>
              simp only [List.length_map, List.length_cons]
              by_cases hb : vs.length < beta ∨ srest.length + 1 ≤ beta
              · simp [hb, pmap]
              · simp only [hb, if_false]
                cases hd : (s :: srest).drop beta with
                | nil => simp [pmap]
                | cons sp rest' =>
                  simp only []
                  cases hg : ((T.goto[sp]?).bind (·[left]?)) with
                  | none => simp [pmap]
                  | some j =>
                    simp only []
                    by_cases hj : j < 0
                    · simp [hj, pmap]
                    · simp only [hj, if_false]
                      have := ih (x :: xs) (j.toNat :: sp :: rest') (nodeAct left alt (vs.take beta) :: vs.drop beta)
                      rw [← this]
                      simp [fold_nodeAct, List.map_take, List.map_drop]

theorem value_is_fold {V : Type} (T : Tables) (leaf : Nat → V) (act : Nat → Nat → List V → V)
    (fuel : Nat) (inp : List Nat) :
    lrParse T (fun (t : Nat) => t) leaf act fuel inp [0] [] =
      (match lrParseTree T fuel inp with
       | .accept t => .accept (t.fold leaf act)
       | .reject => .reject
       | .stuck => .stuck
       | .fuelOut => .fuelOut) := by
  have h := lrParse_fold T leaf act fuel inp [0] []
  simp only [List.map_nil] at h
  rw [h]
  unfold lrParseTree
  cases lrParse T (fun (t : Nat) => t) Tree.leaf nodeAct fuel inp [0] [] <;> rfl

/-! ## B. facts about the automaton -/

theorem foldl_inv {α β : Type} (P : β → Prop) (f : β → α → β) (l : List α) :
    ∀ (init : β), P init → (∀ b a, a ∈ l → P b → P (f b a)) → P (l.foldl f init) := by
  induction l with
  | nil => intro init h0 _; simpa using h0
  | cons x xs ih =>
    intro init h0 hstep
    simp only [List.foldl_cons]
    apply ih
    · exact hstep _ _ (by simp) h0
    · intro b a ha hb; exact hstep b a (by simp [ha]) hb

theorem mem_sortedInsert {α : Type} (lt : α → α → Bool) (r : Bool) (x y : α) (l : List α) :
    x ∈ sortedInsert lt r y l → x = y ∨ x ∈ l := by
  induction l with
  | nil => simp [sortedInsert]
  | cons z zs ih =>
    simp only [sortedInsert]
    split
    · simp
    · split
      · intro h
        simp only [List.mem_cons] at h ⊢
        rcases h with h | h
        · exact Or.inr (Or.inl h)
        · rcases ih h with h | h
          · exact Or.inl h
          · exact Or.inr (Or.inr h)
      · split
        · intro h
          simp only [List.mem_cons] at h ⊢
          rcases h with h | h
          · exact Or.inl h
          · exact Or.inr (Or.inr h)
        · intro h; exact Or.inr h

theorem mem_foldl_insert (Q : Item → Prop) (l : List Item) (acc : ItemSet)
    (hacc : ∀ x ∈ acc, Q x) (hl : ∀ x ∈ l, Q x) : ∀ x ∈ l.foldl ItemSet.insert acc, Q x := by
  apply foldl_inv (fun (a : ItemSet) => ∀ x ∈ a, Q x) ItemSet.insert l acc hacc
  intro b a ha hb x hx
  rcases mem_sortedInsert _ _ _ _ _ hx with h | h
  · subst h; exact hl _ ha
  · exact hb _ h

theorem hullAux_mem (g : Grammar) (fi : FirstInfo) (P Q : Item → Prop) (hQP : ∀ x, Q x → P x)
    (hclose : ∀ it, P it → ∀ x ∈ closeItem g fi it, Q x) :
    ∀ (fuel : Nat) (work : List Item) (acc : ItemSet), (∀ x ∈ work, P x) → (∀ x ∈ acc, Q x) →
      ∀ x ∈ hullAux g fi fuel work acc, Q x := by
  intro fuel
  induction fuel with
  | zero => intro work acc _ hacc; simpa [hullAux] using hacc
  | succ fuel ih =>
    intro work acc hwork hacc
    cases work with
    | nil => simpa [hullAux] using hacc
    | cons it work =>
      simp only [hullAux]
      have hnews : ∀ x ∈ ((closeItem g fi it).filter (fun x => !acc.contains x)).eraseDups, Q x := by
        intro x hx
        rw [List.mem_eraseDups] at hx
        exact hclose it (hwork it (by simp)) x (List.mem_filter.mp hx).1
      apply ih
      · intro x hx
        rcases List.mem_append.mp hx with h | h
        · exact hwork x (by simp [h])
        · exact hQP _ (hnews x h)
      · exact mem_foldl_insert Q _ _ hacc hnews

theorem hull_mem (g : Grammar) (fi : FirstInfo) (P Q : Item → Prop) (hQP : ∀ x, Q x → P x)
    (hclose : ∀ it, P it → ∀ x ∈ closeItem g fi it, Q x) (I : List Item) (hI : ∀ x ∈ I, Q x) :
    ∀ x ∈ hull g fi I, Q x := by
  have hstart : ∀ x ∈ I.foldl ItemSet.insert [], Q x :=
    mem_foldl_insert Q I [] (by simp) hI
  simp only [hull]
  exact hullAux_mem g fi P Q hQP hclose _ _ _ (fun x hx => hQP _ (hstart x hx)) hstart

/-- the item with the dot moved one symbol to the right -/
def adv (it : Item) : Item := { it with dot := it.dot + 1 }

theorem jump_mem (g : Grammar) (fi : FirstInfo) (P Q : Item → Prop) (hQP : ∀ x, Q x → P x)
    (hclose : ∀ it, P it → ∀ x ∈ closeItem g fi it, Q x) (I : ItemSet) (X : Sym)
    (hadv : ∀ it ∈ I, g.afterDot it = X → Q (adv it)) :
    ∀ x ∈ jump g fi I X, Q x := by
  simp only [jump]
  apply hull_mem g fi P Q hQP hclose
  intro x hx
  rcases List.mem_map.mp hx with ⟨it, hit, rfl⟩
  have := List.mem_filter.mp hit
  exact hadv it this.1 (by simpa using this.2)

theorem befores_ne_eps (g : Grammar) (I : ItemSet) : ∀ x ∈ befores g I, x ≠ .eps := by
  simp only [befores]
  apply foldl_inv (fun (a : List Sym) => ∀ x ∈ a, x ≠ .eps)
  · simp
  · intro b a _ hb x hx
    split at hx
    · exact hb x hx
    · rename_i hne
      rcases mem_sortedInsert _ _ _ _ _ hx with h | h
      · subst h; exact hne
      · exact hb x h

/-! ### the collection: recorded transitions are faithful -/

def TransOK (g : Grammar) (fi : FirstInfo) (S : List LRState) : Prop :=
  ∀ (i : Nat) (st : LRState), S[i]? = some st → ∀ (X : Sym) (j : Nat), (X, j) ∈ st.trans →
    X ≠ .eps ∧ ∃ st' : LRState, S[j]? = some st' ∧ st'.items = jump g fi st.items X

theorem TransOK_append (g : Grammar) (fi : FirstInfo) (S : List LRState) (r : ItemSet)
    (h : TransOK g fi S) : TransOK g fi (S ++ [⟨r, []⟩]) := by
  intro i st hi X j hm
  rw [List.getElem?_append] at hi
  split at hi
  · obtain ⟨hne, st', hj, hst'⟩ := h i st hi X j hm
    refine ⟨hne, st', ?_, hst'⟩
    have hjlt : j < S.length := by
      rcases Nat.lt_or_ge j S.length with h | h
      · exact h
      · rw [List.getElem?_eq_none h] at hj; cases hj
    rw [List.getElem?_append_left hjlt]; exact hj
  · exfalso
    cases hk : i - S.length with
    | zero => rw [hk] at hi; simp at hi; subst hi; simp at hm
    | succ k => rw [hk] at hi; simp at hi

theorem set_items (S : List LRState) (i : Nat) (st : LRState) (tr : List (Sym × Nat))
    (hi : S[i]? = some st) (j : Nat) (st' : LRState) (hj : S[j]? = some st') :
    ∃ st'', (S.set i { st with trans := tr })[j]? = some st'' ∧ st''.items = st'.items := by
  rw [List.getElem?_set]
  by_cases hij : i = j
  · subst hij
    have hlt : i < S.length := by
      rcases Nat.lt_or_ge i S.length with h | h
      · exact h
      · rw [List.getElem?_eq_none h] at hi; cases hi
    rw [hi] at hj; cases hj
    simp [hlt]
  · simp [hij, hj]

theorem TransOK_set (g : Grammar) (fi : FirstInfo) (S : List LRState) (i : Nat) (st : LRState)
    (tr : List (Sym × Nat)) (h : TransOK g fi S) (hi : S[i]? = some st)
    (htr : ∀ X j, (X, j) ∈ tr → X ≠ .eps ∧ ∃ st', S[j]? = some st' ∧ st'.items = jump g fi st.items X) :
    TransOK g fi (S.set i { st with trans := tr }) := by
  intro k stk hk X j hm
  rw [List.getElem?_set] at hk
  by_cases hik : i = k
  · subst hik
    simp only [if_true] at hk
    split at hk
    · cases hk
      obtain ⟨hne, st', hj, hst'⟩ := htr X j hm
      obtain ⟨st'', h1, h2⟩ := set_items S i st tr hi j st' hj
      exact ⟨hne, st'', h1, by rw [h2, hst']⟩
    · cases hk
  · simp only [hik, if_false] at hk
    obtain ⟨hne, st', hj, hst'⟩ := h k stk hk X j hm
    obtain ⟨st'', h1, h2⟩ := set_items S i st tr hi j st' hj
    exact ⟨hne, st'', h1, by rw [h2, hst']⟩

/-- invariant of the collection under construction: state 0 is the initial hull and every
    recorded transition leads to the `jump` of its source -/
def CInv (g : Grammar) (fi : FirstInfo) (h0 : ItemSet) (S : List LRState) : Prop :=
  TransOK g fi S ∧ ∃ st0, S[0]? = some st0 ∧ st0.items = h0

theorem getElem?_append_some {α : Type} (S : List α) (T : List α) (j : Nat) (a : α)
    (h : S[j]? = some a) : (S ++ T)[j]? = some a := by
  have hjlt : j < S.length := by
    rcases Nat.lt_or_ge j S.length with h' | h'
    · exact h'
    · rw [List.getElem?_eq_none h'] at h; cases h
  rw [List.getElem?_append_left hjlt]; exact h

theorem expandState_inv (g : Grammar) (fi : FirstInfo) (h0 : ItemSet) (S : List LRState) (i : Nat)
    (h : CInv g fi h0 S) : CInv g fi h0 (expandState g fi S i) := by
  unfold expandState
  cases hst : S[i]? with
  | none => exact h
  | some st =>
    simp only []
    let FI : List LRState × List (Sym × Nat) → Prop := fun acc =>
      CInv g fi h0 acc.1 ∧ acc.1[i]? = some st ∧
        ∀ X j, (X, j) ∈ acc.2 → X ≠ .eps ∧ ∃ st', acc.1[j]? = some st' ∧ st'.items = jump g fi st.items X
    have hfold : FI ((befores g st.items).foldl
      (fun (acc : List LRState × List (Sym × Nat)) x =>
        let r := jump g fi st.items x
        match acc.1.findIdx? (fun s => s.items = r) with
        | some j => (acc.1, acc.2 ++ [(x, j)])
        | none => (acc.1 ++ [⟨r, []⟩], acc.2 ++ [(x, acc.1.length)]))
      (S, [])) := by
      apply foldl_inv FI
      · exact ⟨h, hst, by simp⟩
      · intro acc x hx hacc
        obtain ⟨⟨hT, st0, hst0, hh0⟩, hi, htr⟩ := hacc
        have hxne := befores_ne_eps g st.items x hx
        simp only []
        cases hf : acc.1.findIdx? (fun s => decide (s.items = jump g fi st.items x)) with
        | some j =>
          simp only []
          refine ⟨⟨hT, st0, hst0, hh0⟩, hi, ?_⟩
          intro X k hm
          rcases List.mem_append.mp hm with hm | hm
          · exact htr X k hm
          · simp only [List.mem_singleton, Prod.mk.injEq] at hm
            obtain ⟨rfl, rfl⟩ := hm
            obtain ⟨hlt, hp, _⟩ := List.findIdx?_eq_some_iff_getElem.mp hf
            refine ⟨hxne, acc.1[k], ?_, by simpa using hp⟩
            simp [hlt]
        | none =>
          simp only []
          refine ⟨⟨TransOK_append g fi _ _ hT, st0, getElem?_append_some _ _ _ _ hst0, hh0⟩,
            getElem?_append_some _ _ _ _ hi, ?_⟩
          intro X k hm
          rcases List.mem_append.mp hm with hm | hm
          · obtain ⟨hne, st', h1, h2⟩ := htr X k hm
            exact ⟨hne, st', getElem?_append_some _ _ _ _ h1, h2⟩
          · simp only [List.mem_singleton, Prod.mk.injEq] at hm
            obtain ⟨rfl, rfl⟩ := hm
            refine ⟨hxne, ⟨jump g fi st.items X, []⟩, ?_, rfl⟩
            simp
    revert hfold
    generalize ((befores g st.items).foldl _ (S, [])) = res
    intro hfold
    obtain ⟨S', tr⟩ := res
    obtain ⟨⟨hT, st0, hst0, hh0⟩, hi, htr⟩ := hfold
    simp only [] at hT hst0 hi htr ⊢
    refine ⟨TransOK_set g fi S' i st tr hT hi htr, ?_⟩
    obtain ⟨st'', h1, h2⟩ := set_items S' i st tr hi 0 st0 hst0
    exact ⟨st'', h1, by rw [h2, hh0]⟩

theorem collectAux_inv (g : Grammar) (fi : FirstInfo) (h0 : ItemSet) :
    ∀ (fuel i : Nat) (S : List LRState), CInv g fi h0 S → CInv g fi h0 (collectAux g fi fuel i S) := by
  intro fuel
  induction fuel with
  | zero => intro i S h; simpa [collectAux] using h
  | succ fuel ih =>
    intro i S h
    simp only [collectAux]
    split
    · exact ih _ _ (expandState_inv g fi h0 S i h)
    · exact h

theorem collection_inv (ga : Grammar) (fi : FirstInfo) (sPrime eof fuel : Nat) :
    CInv ga fi (hull ga fi [⟨sPrime, 0, 0, .t eof⟩]) (collection ga fi sPrime eof fuel) := by
  simp only [collection]
  apply collectAux_inv
  refine ⟨?_, ⟨hull ga fi [⟨sPrime, 0, 0, .t eof⟩], []⟩, by simp, rfl⟩
  intro i st hi X j hm
  cases i with
  | zero => simp at hi; subst hi; simp at hm
  | succ i => simp at hi

/-! ### the augmented grammar -/

theorem find_ins_ne (n : Nat) (rhs : List Sym) (m : Nat) (hm : m ≠ n) :
    ∀ l, (Grammar.add.ins n rhs l).find? (fun e => e.1 = m) = l.find? (fun e => e.1 = m) := by
  intro l
  induction l with
  | nil => simp [Grammar.add.ins, Ne.symm hm]
  | cons e es ih =>
    simp only [Grammar.add.ins]
    split
    · rename_i h
      have : ¬ e.1 = m := by rw [h]; exact Ne.symm hm
      simp [this]
    · split
      · simp [List.find?_cons, Ne.symm hm]
      · simp only [List.find?_cons, ih]

theorem find_ins_eq (n : Nat) (rhs : List Sym) :
    ∀ l, (∀ e ∈ l, e.1 ≠ n) → (Grammar.add.ins n rhs l).find? (fun e => e.1 = n) = some (n, [rhs]) := by
  intro l
  induction l with
  | nil => intro _; simp [Grammar.add.ins]
  | cons e es ih =>
    intro h
    have he : e.1 ≠ n := h e (by simp)
    simp only [Grammar.add.ins, he, if_false]
    split
    · simp
    · simp only [List.find?_cons]
      simp only [he, decide_false]
      exact ih (fun e' he' => h e' (by simp [he']))

theorem keys_ins (n : Nat) (rhs : List Sym) :
    ∀ l e, e ∈ Grammar.add.ins n rhs l → e.1 = n ∨ ∃ e' ∈ l, e'.1 = e.1 := by
  intro l
  induction l with
  | nil => intro e he; simp [Grammar.add.ins] at he; subst he; simp
  | cons e0 es ih =>
    intro e he
    simp only [Grammar.add.ins] at he
    split at he
    · rename_i h
      simp only [List.mem_cons] at he
      rcases he with he | he
      · subst he; exact Or.inl h
      · exact Or.inr ⟨e, by simp [he], rfl⟩
    · split at he
      · simp only [List.mem_cons] at he
        rcases he with he | he | he
        · subst he; exact Or.inl rfl
        · subst he; exact Or.inr ⟨e, by simp, rfl⟩
        · exact Or.inr ⟨e, by simp [he], rfl⟩
      · simp only [List.mem_cons] at he
        rcases he with he | he
        · subst he; exact Or.inr ⟨e, by simp, rfl⟩
        · rcases ih e he with h | ⟨e', he', h⟩
          · exact Or.inl h
          · exact Or.inr ⟨e', by simp [he'], h⟩

theorem augment_numNT (g : Grammar) (start eof : Nat) : (g.augment start eof).numNT = g.numNT + 2 := rfl

theorem augment_alts_lt (g : Grammar) (start eof m : Nat) (hm : m < g.numNT) :
    (g.augment start eof).alts m = g.alts m := by
  simp only [Grammar.alts, Grammar.augment, Grammar.add]
  rw [find_ins_ne _ _ _ (by omega), find_ins_ne _ _ _ (by omega)]

theorem augment_alts_S (g : Grammar) (start eof : Nat) (hg : g.Closed) :
    (g.augment start eof).alts g.numNT = [[.n start]] := by
  simp only [Grammar.alts, Grammar.augment, Grammar.add]
  rw [find_ins_ne _ _ _ (by omega), find_ins_eq]
  · simp
  · intro e he
    have := (hg e he).1
    omega

theorem mem_alts (g : Grammar) (n : Nat) (a : List Sym) (h : a ∈ g.alts n) :
    ∃ e ∈ g.prods, a ∈ e.2 := by
  simp only [Grammar.alts] at h
  cases hf : g.prods.find? (fun e => e.1 = n) with
  | none => rw [hf] at h; simp at h
  | some e =>
    rw [hf] at h
    exact ⟨e, List.mem_of_find?_eq_some hf, by simpa using h⟩

/-! ### items of reachable states -/

section Items
variable (g : Grammar) (start eof : Nat)

/-- properties of an item that do not depend on the state it occurs in -/
structure Good (it : Item) : Prop where
  alt_lt : it.alt < ((g.augment start eof).alts it.left).length
  left_ok : it.left < g.numNT ∨ (it.left = g.numNT ∧ it.follow = .t eof)

theorem good_rhs_get {it : Item} (h : Good g start eof it) :
    ((g.augment start eof).alts it.left)[it.alt]? = some ((g.augment start eof).rhs it) := by
  simp [Grammar.rhs, List.getElem?_eq_getElem h.alt_lt]

theorem good_rhs_mem {it : Item} (h : Good g start eof it) :
    (g.augment start eof).rhs it ∈ (g.augment start eof).alts it.left :=
  List.mem_of_getElem? (good_rhs_get g start eof h)

theorem good_S {it : Item} (hg : g.Closed) (h : Good g start eof it) (hl : it.left = g.numNT) :
    it.alt = 0 ∧ (g.augment start eof).rhs it = [.n start] ∧ it.follow = .t eof := by
  have h1 := h.alt_lt
  have h2 := good_rhs_mem g start eof h
  rw [hl, augment_alts_S g start eof hg] at h1 h2
  refine ⟨by simpa using h1, by simpa using h2, ?_⟩
  rcases h.left_ok with h3 | h3
  · omega
  · exact h3.2

theorem good_rhs_sym {it : Item} (hg : g.Closed) (hs : start < g.numNT) (h : Good g start eof it) :
    ∀ s ∈ (g.augment start eof).rhs it, ∀ k, s = .n k → k < g.numNT := by
  intro s hsm k hk
  rcases h.left_ok with hl | hl
  · have h2 := good_rhs_mem g start eof h
    rw [augment_alts_lt g start eof _ hl] at h2
    obtain ⟨e, he, ha⟩ := mem_alts g _ _ h2
    exact ((hg e he).2 _ ha s hsm).2 k hk
  · rw [(good_S g start eof hg h hl.1).2.1] at hsm
    simp only [List.mem_singleton] at hsm
    rw [hsm] at hk; cases hk; exact hs

theorem rhs_adv (ga : Grammar) (it : Item) : ga.rhs (adv it) = ga.rhs it := rfl

theorem good_adv {it : Item} (h : Good g start eof it) : Good g start eof (adv it) :=
  ⟨h.alt_lt, h.left_ok⟩

theorem afterDot_some (ga : Grammar) (it : Item) (X : Sym) (hX : X ≠ .eps) (h : ga.afterDot it = X) :
    (ga.rhs it)[it.dot]? = some X := by
  simp only [Grammar.afterDot] at h
  cases hh : (ga.rhs it)[it.dot]? with
  | none => rw [hh] at h; simp at h; exact absurd h.symm hX
  | some Y => rw [hh] at h; simpa using h

theorem good_close (fi : FirstInfo) {it : Item} (hg : g.Closed) (hs : start < g.numNT)
    (h : Good g start eof it) :
    ∀ x ∈ closeItem (g.augment start eof) fi it, Good g start eof x ∧ x.dot = 0 ∧ x.left < g.numNT := by
  intro x hx
  simp only [closeItem] at hx
  split at hx
  · rename_i b hb
    have hb' := afterDot_some _ it (.n b) (by simp) hb
    have hblt : b < g.numNT := good_rhs_sym g start eof hg hs h _ (List.mem_of_getElem? hb') b rfl
    simp only [List.mem_flatMap, List.mem_range, List.mem_map] at hx
    obtain ⟨ri, hri, la, _, rfl⟩ := hx
    exact ⟨⟨hri, Or.inl hblt⟩, rfl, hblt⟩
  · simp at hx

/-- the state stack of the driver spells a path of the automaton -/
inductive Stk (S : List LRState) : Nat → List Nat → List Sym → Prop
  | base : Stk S 0 [] []
  | push {q : Nat} {qs : List Nat} {syms : List Sym} {st : LRState} {X : Sym} {q' : Nat} :
      Stk S q qs syms → S[q]? = some st → (X, q') ∈ st.trans → Stk S q' (q :: qs) (X :: syms)

/-- what an item of a state says about every path (symbols top first) reaching the state -/
structure ItemOK (syms : List Sym) (it : Item) : Prop where
  good : Good g start eof it
  dot_le : it.dot ≤ ((g.augment start eof).rhs it).length
  pre : (((g.augment start eof).rhs it).take it.dot).reverse <+: syms
  s0 : it.left = g.numNT → it.dot = 0 → syms = []
  s1 : it.left = g.numNT → it.dot = 1 → syms = [.n start]

theorem itemOK_closure (syms : List Sym) (x : Item) (hgood : Good g start eof x) (hd : x.dot = 0)
    (hl : x.left < g.numNT) : ItemOK g start eof syms x := by
  refine ⟨hgood, by omega, ?_, ?_, ?_⟩
  · rw [hd]; simp
  · intro h; omega
  · intro h; omega

theorem stk_items (fi : FirstInfo) (S : List LRState) (hg : g.Closed) (hs : start < g.numNT)
    (hS : CInv (g.augment start eof) fi (hull (g.augment start eof) fi [⟨g.numNT, 0, 0, .t eof⟩]) S)
    {q : Nat} {qs : List Nat} {syms : List Sym} (hstk : Stk S q qs syms) :
    ∀ st, S[q]? = some st → ∀ it ∈ st.items, ItemOK g start eof syms it := by
  induction hstk with
  | base =>
    intro st hst it hit
    obtain ⟨_, st0, hst0, hh0⟩ := hS
    rw [hst0] at hst; cases hst
    rw [hh0] at hit
    have hinit : Good g start eof ⟨g.numNT, 0, 0, .t eof⟩ :=
      ⟨by simp [augment_alts_S g start eof hg], Or.inr ⟨rfl, rfl⟩⟩
    have := hull_mem (g.augment start eof) fi (Good g start eof)
      (fun x => Good g start eof x ∧ (x = ⟨g.numNT, 0, 0, .t eof⟩ ∨ (x.dot = 0 ∧ x.left < g.numNT)))
      (fun x hx => hx.1)
      (fun it hit x hx => by
        have := good_close g start eof fi hg hs hit x hx
        exact ⟨this.1, Or.inr this.2⟩)
      [⟨g.numNT, 0, 0, .t eof⟩]
      (by intro x hx; simp only [List.mem_singleton] at hx; subst hx; exact ⟨hinit, Or.inl rfl⟩)
      it hit
    obtain ⟨hgood, h | ⟨hd, hl⟩⟩ := this
    · subst h
      refine ⟨hgood, by simp, by simp, fun _ _ => rfl, ?_⟩
      intro _ h; simp at h
    · exact itemOK_closure g start eof [] it hgood hd hl
  | @push q qs syms st X q' hprev hq hX ih =>
    intro st' hst' it hit
    obtain ⟨hXne, st'', hst'', hitems⟩ := hS.1 q st hq X q' hX
    rw [hst''] at hst'; cases hst'
    rw [hitems] at hit
    have ihq := ih st hq
    have := jump_mem (g.augment start eof) fi (Good g start eof)
      (fun x => Good g start eof x ∧
        ((∃ it0 ∈ st.items, (g.augment start eof).afterDot it0 = X ∧ x = adv it0) ∨
          (x.dot = 0 ∧ x.left < g.numNT)))
      (fun x hx => hx.1)
      (fun it hit x hx => by
        have := good_close g start eof fi hg hs hit x hx
        exact ⟨this.1, Or.inr this.2⟩)
      st.items X
      (fun it0 hit0 h0 => ⟨good_adv g start eof (ihq it0 hit0).good, Or.inl ⟨it0, hit0, h0, rfl⟩⟩)
      it hit
    obtain ⟨hgood, ⟨it0, hit0, haft, rfl⟩ | ⟨hd, hl⟩⟩ := this
    · have ok0 := ihq it0 hit0
      have hget := afterDot_some _ it0 X hXne haft
      have hlt : it0.dot < ((g.augment start eof).rhs it0).length := by
        rcases Nat.lt_or_ge it0.dot ((g.augment start eof).rhs it0).length with h | h
        · exact h
        · rw [List.getElem?_eq_none h] at hget; cases hget
      refine ⟨hgood, ?_, ?_, ?_, ?_⟩
      · rw [rhs_adv]; simp only [adv]; omega
      · rw [rhs_adv]; simp only [adv]
        rw [List.take_add_one, hget]
        simp only [Option.toList_some, List.reverse_append, List.reverse_cons, List.reverse_nil,
          List.nil_append, List.singleton_append]
        exact (List.prefix_cons_inj X).mpr ok0.pre
      · intro _ h; simp [adv] at h
      · intro hl h
        have hd0 : it0.dot = 0 := by simpa [adv] using h
        have hl0 : it0.left = g.numNT := hl
        have := ok0.s0 hl0 hd0
        subst this
        have hr := (good_S g start eof hg ok0.good hl0).2.1
        rw [hr, hd0] at hget
        simp at hget
        rw [hget]
    · exact itemOK_closure g start eof _ it hgood hd hl

end Items

end LRSound
end Theo
