/-
  Helper lemmas and invariants for C17, C19, C20 (reachability inductions over the VM model).
-/
import Theo.Spec.VMSpec

namespace Theo

/-! ### memory / code access -/

theorem wr_length {d : List Int} {i v : Int} {d' : List Int} (h : wr d i v = .ok d') :
    d'.length = d.length := by
  unfold wr at h
  split at h
  · cases h
  · split at h
    · cases h; simp
    · cases h

theorem wr_mem {d : List Int} {i v : Int} {d' : List Int} (h : wr d i v = .ok d') :
    ∀ w ∈ d', w = v ∨ w ∈ d := by
  unfold wr at h
  split at h
  · cases h
  · split at h
    · cases h
      intro w hw
      rcases List.mem_or_eq_of_mem_set hw with h1 | h1
      · exact Or.inr h1
      · exact Or.inl h1
    · cases h

theorem rd_mem {d : List Int} {i v : Int} (h : rd d i = .ok v) : v ∈ d := by
  unfold rd at h
  split at h
  · cases h
  · split at h
    · rename_i w hw
      cases h
      exact List.mem_of_getElem? hw
    · cases h

theorem fetch_mem {code : List Instr} {ip : Int} {i : Instr} (h : fetch code ip = .ok i) :
    i ∈ code := by
  unfold fetch at h
  split at h
  · cases h
  · split at h
    · rename_i w hw
      cases h
      exact List.mem_of_getElem? hw
    · cases h

/-! ### `step` does not touch the code or the enabled set -/

theorem step_code_enabled {vm vm' : VM} {r : Bool} (hs : step vm = .ok (vm', r)) :
    vm'.code = vm.code ∧ vm'.enabled = vm.enabled := by
  unfold step at hs
  simp only [bind, Except.bind, pure, Except.pure] at hs
  split at hs
  · cases hs
  · rename_i i hf
    split at hs
    all_goals (repeat' (split at hs)); all_goals first | (cases hs; done) | (cases hs; exact ⟨rfl, rfl⟩)

/-! ### C19 -/

theorem step_tiles {vm vm' : VM} {r : Bool}
    (hp : ∀ c i t, Instr.prepare c i t ∈ vm.code → 0 ≤ c)
    (ht : Tiles vm.stack vm.data.length) (hs : step vm = .ok (vm', r)) :
    Tiles vm'.stack vm'.data.length := by
  unfold step at hs
  simp only [bind, Except.bind, pure, Except.pure] at hs
  split at hs
  · cases hs
  · rename_i i hf
    have hmem := fetch_mem hf
    split at hs
    all_goals (repeat' (split at hs))
    all_goals try (cases hs; done)
    all_goals try (cases hs; exact ht)
    · -- add
      rename_i hw; cases hs
      show Tiles vm.stack (List.length _)
      rw [wr_length hw]; exact ht
    · -- test
      rename_i hw; cases hs
      show Tiles vm.stack (List.length _)
      rw [wr_length hw]; exact ht
    · -- const
      rename_i hw; cases hs
      show Tiles vm.stack (List.length _)
      rw [wr_length hw]; exact ht
    · -- prepare
      cases hs
      show Tiles (_ :: vm.stack) (List.length _)
      simp only [Tiles, List.length_append, List.length_replicate]
      exact ⟨hp _ _ _ hmem, trivial, ht⟩
    · -- arg
      rename_i hw; cases hs
      show Tiles vm.stack (List.length _)
      rw [wr_length hw]; exact ht
    · -- exec
      rename_i hst; cases hs
      rw [hst] at ht
      simp only [Tiles] at ht ⊢
      exact ht
    · -- ret
      rename_i hst _ _ _ _ _ hw; cases hs
      rw [hst] at ht
      simp only [Tiles, List.length_take, wr_length hw] at ht ⊢
      refine ⟨ht.2.2.1, ?_, ht.2.2.2.2⟩
      omega

/-! ### C20 -/

theorem addClamp_inRange (v c : Int) : InRange (addClamp v c) := by
  unfold addClamp InRange INT_MAX
  simp only [Int.min_def, Int.max_def]
  split <;> split <;> omega

theorem addClamp_neg (v c : Int) (h : v + c < 0) : addClamp v c = 0 := by
  unfold addClamp INT_MAX
  simp only [Int.min_def, Int.max_def]
  split <;> split <;> omega

theorem addClamp_sat (v c : Int) (h : INT_MAX < v + c) : addClamp v c = INT_MAX := by
  unfold INT_MAX at h
  unfold addClamp INT_MAX
  simp only [Int.min_def, Int.max_def]
  split <;> split <;> omega

theorem addClamp_exact (v c : Int) (h0 : 0 ≤ v + c) (h1 : v + c ≤ INT_MAX) :
    addClamp v c = v + c := by
  unfold INT_MAX at h1
  unfold addClamp INT_MAX
  simp only [Int.min_def, Int.max_def]
  (repeat' split) <;> omega

theorem wr_range {d : List Int} {i v : Int} {d' : List Int} (h : wr d i v = .ok d')
    (hv : InRange v) (hd : ∀ w ∈ d, InRange w) : ∀ w ∈ d', InRange w := by
  intro w hw
  rcases wr_mem h w hw with h1 | h1
  · exact h1 ▸ hv
  · exact hd w h1

theorem step_range {vm vm' : VM} {r : Bool}
    (hc : ∀ t c, Instr.const t c ∈ vm.code → InRange c)
    (hd : ∀ w ∈ vm.data, InRange w) (hs : step vm = .ok (vm', r)) :
    ∀ w ∈ vm'.data, InRange w := by
  unfold step at hs
  simp only [bind, Except.bind, pure, Except.pure] at hs
  split at hs
  · cases hs
  · rename_i i hf
    have hmem := fetch_mem hf
    split at hs
    all_goals (repeat' (split at hs))
    all_goals try (cases hs; done)
    all_goals try (cases hs; exact hd)
    · -- add
      rename_i hw; cases hs
      exact wr_range hw (addClamp_inRange _ _) hd
    · -- test
      rename_i hw; cases hs
      refine wr_range hw ?_ hd
      unfold InRange INT_MAX
      split <;> omega
    · -- const
      rename_i hw; cases hs
      exact wr_range hw (hc _ _ hmem) hd
    · -- prepare
      cases hs
      intro w hw
      show InRange w
      rcases List.mem_append.1 hw with h1 | h1
      · exact hd w h1
      · rw [(List.mem_replicate.1 h1).2]
        unfold InRange INT_MAX; omega
    · -- arg
      rename_i hr _ _ hw; cases hs
      exact wr_range hw (hd _ (rd_mem hr)) hd
    · -- ret
      rename_i hr _ _ hw; cases hs
      intro w hw'
      exact wr_range hw (hd _ (rd_mem hr)) hd w (List.mem_of_mem_take hw')

/-! ### opcode patching: `setOp`, `setOps`, `restoreAll` -/

theorem setOp_ok {code : List Instr} {i : Int} {v : Instr} {c : List Instr}
    (h : setOp code i v = .ok c) : 0 ≤ i ∧ i.toNat < code.length ∧ c = code.set i.toNat v := by
  unfold setOp at h
  split at h
  · cases h
  · split at h
    · rename_i h1 h2
      cases h; exact ⟨by omega, h2, rfl⟩
    · cases h

theorem setOp_exists {code : List Instr} {i : Int} (v : Instr)
    (h0 : 0 ≤ i) (h1 : i.toNat < code.length) : setOp code i v = .ok (code.set i.toNat v) := by
  unfold setOp
  rw [if_neg (by omega), if_pos h1]

theorem setOps_nil (code : List Instr) (v : Instr) : setOps code [] v = .ok code := rfl

theorem setOps_cons (code : List Instr) (i : Int) (is : List Int) (v : Instr) :
    setOps code (i :: is) v = (setOp code i v).bind (fun c => setOps c is v) := by
  simp only [setOps, List.foldlM_cons, bind]

theorem setOps_spec {inds : List Int} {v : Instr} : ∀ {code c' : List Instr},
    setOps code inds v = .ok c' →
    c'.length = code.length ∧
    ∀ j : Nat, (c'[j]? = code[j]? ∧ (j : Int) ∉ inds) ∨ ((j : Int) ∈ inds ∧ c'[j]? = some v) := by
  induction inds with
  | nil =>
    intro code c' h
    rw [setOps_nil] at h; cases h
    exact ⟨rfl, fun j => Or.inl ⟨rfl, List.not_mem_nil⟩⟩
  | cons i is ih =>
    intro code c' h
    rw [setOps_cons] at h
    cases h1 : setOp code i v with
    | error e => rw [h1] at h; cases h
    | ok c1 =>
      rw [h1] at h
      simp only [Except.bind] at h
      obtain ⟨hi0, hil, rfl⟩ := setOp_ok h1
      obtain ⟨hl, hj⟩ := ih h
      refine ⟨by rw [hl, List.length_set], fun j => ?_⟩
      rcases hj j with ⟨e, hn⟩ | ⟨hm, e⟩
      · by_cases hji : j = i.toNat
        · right
          subst hji
          refine ⟨?_, ?_⟩
          · apply List.mem_cons.2; left; omega
          · rw [e, List.getElem?_set_self hil]
        · left
          refine ⟨?_, ?_⟩
          · rw [e, List.getElem?_set_ne (Ne.symm hji)]
          · intro hm
            rcases List.mem_cons.1 hm with h2 | h2
            · omega
            · exact hn h2
      · right; exact ⟨List.mem_cons_of_mem _ hm, e⟩

theorem setOps_exists {inds : List Int} (v : Instr) : ∀ {code : List Instr},
    (∀ i ∈ inds, 0 ≤ i ∧ i.toNat < code.length) → ∃ c', setOps code inds v = .ok c' := by
  induction inds with
  | nil => intro code _; exact ⟨code, rfl⟩
  | cons i is ih =>
    intro code h
    have hi := h i List.mem_cons_self
    rw [setOps_cons, setOp_exists v hi.1 hi.2]
    simp only [Except.bind]
    apply ih
    intro k hk
    rw [List.length_set]
    exact h k (List.mem_cons_of_mem _ hk)

theorem setOps_mem {inds : List Int} {v : Instr} {code c' : List Instr}
    (h : setOps code inds v = .ok c') : ∀ x ∈ c', x = v ∨ x ∈ code := by
  intro x hx
  obtain ⟨j, hj⟩ := List.getElem?_of_mem hx
  rcases (setOps_spec h).2 j with ⟨e, _⟩ | ⟨_, e⟩
  · right; rw [e] at hj; exact List.mem_of_getElem? hj
  · left; rw [e] at hj; cases hj; rfl

theorem restoreAll_nil (p : Program) (code : List Instr) : restoreAll p code [] = .ok code := rfl

theorem restoreAll_cons (p : Program) (code : List Instr) (bp : BreakPoint) (bps : List BreakPoint) :
    restoreAll p code (bp :: bps) =
      (setOps code ((p.sitesOf bp).getD []) .potBreak).bind (fun c => restoreAll p c bps) := by
  simp only [restoreAll, List.foldlM_cons, bind]

theorem restoreAll_mem {p : Program} {bps : List BreakPoint} : ∀ {code c' : List Instr},
    restoreAll p code bps = .ok c' → ∀ x ∈ c', x = .potBreak ∨ x ∈ code := by
  induction bps with
  | nil => intro code c' h; rw [restoreAll_nil] at h; cases h; exact fun x hx => Or.inr hx
  | cons bp rest ih =>
    intro code c' h x hx
    rw [restoreAll_cons] at h
    cases h1 : setOps code ((p.sitesOf bp).getD []) .potBreak with
    | error e => rw [h1] at h; cases h
    | ok c1 =>
      rw [h1] at h
      simp only [Except.bind] at h
      rcases ih h x hx with h2 | h2
      · exact Or.inl h2
      · exact setOps_mem h1 x h2

/-! ### the enabled set: `sortedInsert` / `sortedErase` under a trichotomous order -/

theorem bytesLt_tri : ∀ a b : Bytes, bytesLt a b = false → bytesLt b a = false → a = b := by
  intro a
  induction a with
  | nil => intro b h1 h2; cases b with
    | nil => rfl
    | cons y ys => simp [bytesLt] at h1
  | cons x xs ih =>
    intro b h1 h2
    cases b with
    | nil => simp [bytesLt] at h2
    | cons y ys =>
      unfold bytesLt at h1 h2
      by_cases hxy : x < y
      · rw [if_pos hxy] at h1; cases h1
      · by_cases hyx : y < x
        · rw [if_pos hyx] at h2; cases h2
        · rw [if_neg hxy, if_neg hyx] at h1
          rw [if_neg hyx, if_neg hxy] at h2
          have e : x = y := UInt8.le_antisymm (UInt8.not_lt.1 hyx) (UInt8.not_lt.1 hxy)
          rw [e, ih ys h1 h2]

theorem BreakPoint.lt_tri (a b : BreakPoint) (h1 : BreakPoint.lt a b = false)
    (h2 : BreakPoint.lt b a = false) : a = b := by
  unfold BreakPoint.lt at h1 h2
  cases hab : bytesLt a.file b.file
  · cases hba : bytesLt b.file a.file
    · rw [hab, hba] at h1
      rw [hba, hab] at h2
      simp only [Bool.false_eq_true, if_false, decide_eq_false_iff_not] at h1 h2
      have hf := bytesLt_tri _ _ hab hba
      cases a; cases b
      simp only at hf h1 h2
      subst hf
      congr
      omega
    · rw [hba] at h2; simp at h2
  · rw [hab] at h1; simp at h1

theorem mem_sortedInsert_of_mem {α} (lt : α → α → Bool) (x y : α) :
    ∀ l : List α, y ∈ l → y ∈ sortedInsert lt false x l := by
  intro l
  induction l with
  | nil => intro h; cases h
  | cons z zs ih =>
    intro h
    unfold sortedInsert
    split
    · exact List.mem_cons_of_mem _ h
    · split
      · rcases List.mem_cons.1 h with h1 | h1
        · exact h1 ▸ List.mem_cons_self
        · exact List.mem_cons_of_mem _ (ih h1)
      · simpa using h

theorem self_mem_sortedInsert {α} (lt : α → α → Bool) (x : α)
    (tri : ∀ y, lt x y = false → lt y x = false → x = y) :
    ∀ l : List α, x ∈ sortedInsert lt false x l := by
  intro l
  induction l with
  | nil => simp [sortedInsert]
  | cons z zs ih =>
    unfold sortedInsert
    split
    · exact List.mem_cons_self
    · split
      · exact List.mem_cons_of_mem _ ih
      · rename_i h1 h2
        have e : x = z := tri z (by simpa using h1) (by simpa using h2)
        simp [e]

theorem mem_sortedErase {α} (lt : α → α → Bool) (x y : α) (hxy : (lt x y || lt y x) = true) :
    ∀ l : List α, y ∈ l → y ∈ sortedErase lt x l := by
  intro l
  induction l with
  | nil => intro h; cases h
  | cons z zs ih =>
    intro h
    unfold sortedErase
    split
    · rcases List.mem_cons.1 h with h1 | h1
      · exact h1 ▸ List.mem_cons_self
      · exact List.mem_cons_of_mem _ (ih h1)
    · rename_i hz
      rcases List.mem_cons.1 h with h1 | h1
      · subst h1; exact absurd hxy hz
      · exact h1

theorem BreakPoint.mem_insert_self (bp : BreakPoint) (l : List BreakPoint) :
    bp ∈ sortedInsert BreakPoint.lt false bp l :=
  self_mem_sortedInsert _ _ (fun y h1 h2 => BreakPoint.lt_tri bp y h1 h2) l

theorem BreakPoint.mem_erase_of_ne {bp y : BreakPoint} {l : List BreakPoint} (hne : y ≠ bp)
    (h : y ∈ l) : y ∈ sortedErase BreakPoint.lt bp l := by
  apply mem_sortedErase _ _ _ _ l h
  cases h1 : BreakPoint.lt bp y
  · cases h2 : BreakPoint.lt y bp
    · exact absurd (BreakPoint.lt_tri bp y h1 h2).symm hne
    · rfl
  · rfl

/-! ### the program tables -/

theorem sitesOf_mem {p : Program} {bp : BreakPoint} {sites : List Int}
    (h : p.sitesOf bp = some sites) : ∃ e ∈ p.potBreaks, e.2 = sites := by
  unfold Program.sitesOf at h
  obtain ⟨e, he, hs⟩ := Option.map_eq_some_iff.1 h
  exact ⟨e, List.mem_of_find?_eq_some he, hs⟩

theorem sitesOf_ok {p : Program} (hs : SitesOK p) {bp : BreakPoint} {sites : List Int}
    (h : p.sitesOf bp = some sites) :
    ∀ i ∈ sites, 0 ≤ i ∧ p.code[i.toNat]? = some Instr.potBreak := by
  obtain ⟨e, he, rfl⟩ := sitesOf_mem h
  exact hs.1 e he

theorem sitesOf_getD_ok {p : Program} (hs : SitesOK p) (bp : BreakPoint) :
    ∀ i ∈ (p.sitesOf bp).getD [], 0 ≤ i ∧ p.code[i.toNat]? = some Instr.potBreak := by
  cases h : p.sitesOf bp with
  | none => intro i hi; cases hi
  | some sites => exact sitesOf_ok hs h

/-! ### C17: the live code is the loaded code with `BREAK` at sites of enabled lines -/

/-- the live code differs from the loaded code only by `BREAK` on sites of lines in `en` -/
def Shape (p : Program) (code : List Instr) (en : List BreakPoint) : Prop :=
  code.length = p.code.length ∧
  ∀ i : Nat, code[i]? = p.code[i]? ∨
    (code[i]? = some Instr.brk ∧ p.code[i]? = some Instr.potBreak ∧
      ∃ bp ∈ en, ∃ sites, p.sitesOf bp = some sites ∧ (i : Int) ∈ sites)

theorem shape_init (p : Program) : Shape p p.code [] := ⟨rfl, fun _ => Or.inl rfl⟩

theorem inRange_of_site {p : Program} {code : List Instr} (hl : code.length = p.code.length)
    {i : Int} (h : 0 ≤ i ∧ p.code[i.toNat]? = some Instr.potBreak) :
    0 ≤ i ∧ i.toNat < code.length := by
  refine ⟨h.1, ?_⟩
  rw [hl]
  exact (List.getElem?_eq_some_iff.1 h.2).1

theorem shape_enable {p : Program} (hs : SitesOK p) {code c' : List Instr} {en : List BreakPoint}
    {bp : BreakPoint} {sites : List Int} (hsite : p.sitesOf bp = some sites)
    (hsh : Shape p code en) (hc : setOps code sites .brk = .ok c') :
    Shape p c' (sortedInsert BreakPoint.lt false bp en) := by
  obtain ⟨hl, hj⟩ := setOps_spec hc
  refine ⟨hl.trans hsh.1, fun j => ?_⟩
  rcases hj j with ⟨e, _⟩ | ⟨hm, e⟩
  · rw [e]
    rcases hsh.2 j with h1 | ⟨h1, h2, b, hb, st, hst, hjs⟩
    · exact Or.inl h1
    · exact Or.inr ⟨h1, h2, b, mem_sortedInsert_of_mem _ _ _ _ hb, st, hst, hjs⟩
  · right
    have := (sitesOf_ok hs hsite _ hm).2
    simp only [Int.toNat_natCast] at this
    exact ⟨e, this, bp, BreakPoint.mem_insert_self bp en, sites, hsite, hm⟩

theorem shape_disable {p : Program} (hs : SitesOK p) {code c' : List Instr} {en : List BreakPoint}
    {bp : BreakPoint} {sites : List Int} (hsite : p.sitesOf bp = some sites)
    (hsh : Shape p code en) (hc : setOps code sites .potBreak = .ok c') :
    Shape p c' (sortedErase BreakPoint.lt bp en) := by
  obtain ⟨hl, hj⟩ := setOps_spec hc
  refine ⟨hl.trans hsh.1, fun j => ?_⟩
  rcases hj j with ⟨e, hn⟩ | ⟨hm, e⟩
  · rw [e]
    rcases hsh.2 j with h1 | ⟨h1, h2, b, hb, st, hst, hjs⟩
    · exact Or.inl h1
    · refine Or.inr ⟨h1, h2, b, BreakPoint.mem_erase_of_ne ?_ hb, st, hst, hjs⟩
      intro hbb
      subst hbb
      rw [hsite] at hst; cases hst
      exact hn hjs
  · left
    have := (sitesOf_ok hs hsite _ hm).2
    simp only [Int.toNat_natCast] at this
    rw [e, this]

theorem restoreAll_shape {p : Program} (hs : SitesOK p) {bps : List BreakPoint} :
    ∀ {code : List Instr}, Shape p code bps → restoreAll p code bps = .ok p.code := by
  induction bps with
  | nil =>
    intro code hsh
    rw [restoreAll_nil]
    congr 1
    apply List.ext_getElem?
    intro j
    rcases hsh.2 j with h1 | ⟨_, _, b, hb, _⟩
    · exact h1
    · cases hb
  | cons bp rest ih =>
    intro code hsh
    rw [restoreAll_cons]
    have hok := sitesOf_getD_ok hs bp
    obtain ⟨c1, hc1⟩ := setOps_exists (code := code) Instr.potBreak
      (fun i hi => inRange_of_site hsh.1 (hok i hi))
    rw [hc1]
    simp only [Except.bind]
    apply ih
    obtain ⟨hl, hj⟩ := setOps_spec hc1
    refine ⟨hl.trans hsh.1, fun j => ?_⟩
    rcases hj j with ⟨e, hn⟩ | ⟨hm, e⟩
    · rw [e]
      rcases hsh.2 j with h1 | ⟨h1, h2, b, hb, st, hst, hjs⟩
      · exact Or.inl h1
      · refine Or.inr ⟨h1, h2, b, ?_, st, hst, hjs⟩
        rcases List.mem_cons.1 hb with hbb | hbb
        · subst hbb
          rw [hst] at hn
          exact absurd hjs hn
        · exact hbb
    · left
      have := (hok _ hm).2
      simp only [Int.toNat_natCast] at this
      rw [e, this]

/-! ### lifting invariants through `ExecTo`, `CallRel`, `Reach` -/

theorem reach_induct {p : Program} {P : VM → Prop} (h0 : P (VM.mk' p))
    (hstep : ∀ vm vm' r, Reach p vm → P vm → step vm = .ok (vm', r) → P vm')
    (hbp : ∀ vm vm' b v r, Reach p vm → P vm → VM.setBreakPoint p vm b v = .ok (vm', r) → P vm')
    (hclear : ∀ vm vm', Reach p vm → P vm → VM.clearBreakpoints p vm = .ok vm' → P vm')
    (hstepping : ∀ vm b, Reach p vm → P vm → P (vm.setStepping b))
    (hreset : ∀ vm vm', Reach p vm → P vm → VM.reset p vm = .ok vm' → P vm') :
    ∀ vm, Reach p vm → P vm := by
  intro vm hr
  induction hr with
  | init => exact h0
  | call hr hc ih =>
    cases hc with
    | single h => exact hstep _ _ _ hr ih h
    | exec h =>
      clear hstepping hreset hclear hbp h0
      induction h with
      | stop h => exact hstep _ _ _ hr ih h
      | more h _ ih2 =>
        exact ih2 (Reach.call hr (CallRel.single h)) (hstep _ _ _ hr ih h)
    | bp h => exact hbp _ _ _ _ _ hr ih h
    | clear h => exact hclear _ _ hr ih h
    | stepping => exact hstepping _ _ hr ih
    | reset h => exact hreset _ _ hr ih h

/-! ### what the debugger calls do to each field -/

theorem setBreakPoint_spec {p : Program} {vm vm' : VM} {b : BreakPoint} {v r : Bool}
    (h : VM.setBreakPoint p vm b v = .ok (vm', r)) :
    vm' = vm ∨ ∃ sites c, p.sitesOf b = some sites ∧
      ((v = true ∧ setOps vm.code sites .brk = .ok c ∧
          vm' = { vm with code := c, enabled := sortedInsert BreakPoint.lt false b vm.enabled }) ∨
       (v = false ∧ setOps vm.code sites .potBreak = .ok c ∧
          vm' = { vm with code := c, enabled := sortedErase BreakPoint.lt b vm.enabled })) := by
  unfold VM.setBreakPoint at h
  split at h
  · cases h; exact Or.inl rfl
  · rename_i sites hsite
    right
    simp only [bind, Except.bind, pure, Except.pure] at h
    split at h
    · split at h
      · cases h
      · rename_i c hc
        cases h
        exact ⟨sites, c, hsite, Or.inl ⟨‹_›, hc, rfl⟩⟩
    · split at h
      · cases h
      · rename_i c hc
        cases h
        exact ⟨sites, c, hsite, Or.inr ⟨eq_false_of_ne_true ‹¬ _›, hc, rfl⟩⟩

theorem clearBreakpoints_spec {p : Program} {vm vm' : VM}
    (h : VM.clearBreakpoints p vm = .ok vm') :
    ∃ c, restoreAll p vm.code vm.enabled = .ok c ∧ vm' = { vm with code := c, enabled := [] } := by
  unfold VM.clearBreakpoints at h
  simp only [bind, Except.bind, pure, Except.pure] at h
  split at h
  · cases h
  · rename_i c hc
    cases h
    exact ⟨c, hc, rfl⟩

theorem reset_spec {p : Program} {vm vm' : VM} (h : VM.reset p vm = .ok vm') :
    ∃ c, restoreAll p vm.code vm.enabled = .ok c ∧
      vm' = { stepping := false, ip := 0, code := c, data := [], stack := [], enabled := [] } := by
  unfold VM.reset at h
  simp only [bind, Except.bind, pure, Except.pure] at h
  split at h
  · cases h
  · rename_i vm1 h1
    cases h
    obtain ⟨c, hc, rfl⟩ := clearBreakpoints_spec h1
    exact ⟨c, hc, rfl⟩

/-! ### the live code only ever contains loaded instructions and break opcodes -/

def CodeSub (p : Program) (vm : VM) : Prop :=
  ∀ ins ∈ vm.code, ins ∈ p.code ∨ ins = Instr.brk ∨ ins = Instr.potBreak

theorem reach_codeSub {p : Program} : ∀ vm, Reach p vm → CodeSub p vm := by
  apply reach_induct
  · intro ins h; exact Or.inl h
  · intro vm vm' r _ ih h
    unfold CodeSub
    rw [(step_code_enabled h).1]; exact ih
  · intro vm vm' b v r _ ih h
    rcases setBreakPoint_spec h with rfl | ⟨sites, c, _, ⟨_, hc, rfl⟩ | ⟨_, hc, rfl⟩⟩
    · exact ih
    · intro ins hi
      rcases setOps_mem hc ins hi with h1 | h1
      · exact Or.inr (Or.inl h1)
      · exact ih ins h1
    · intro ins hi
      rcases setOps_mem hc ins hi with h1 | h1
      · exact Or.inr (Or.inr h1)
      · exact ih ins h1
  · intro vm vm' _ ih h
    obtain ⟨c, hc, rfl⟩ := clearBreakpoints_spec h
    intro ins hi
    rcases restoreAll_mem hc ins hi with h1 | h1
    · exact Or.inr (Or.inr h1)
    · exact ih ins h1
  · intro vm b _ ih; exact ih
  · intro vm vm' _ ih h
    obtain ⟨c, hc, rfl⟩ := reset_spec h
    intro ins hi
    rcases restoreAll_mem hc ins hi with h1 | h1
    · exact Or.inr (Or.inr h1)
    · exact ih ins h1

/-! ### C19 -/

theorem reach_tiles {p : Program} (hp : NonNegPrepare p.code) :
    ∀ vm, Reach p vm → Tiles vm.stack vm.data.length := by
  apply reach_induct
  · show Tiles [] 0
    simp [Tiles]
  · intro vm vm' r hr ih h
    refine step_tiles ?_ ih h
    intro c i t hm
    rcases reach_codeSub vm hr _ hm with h1 | h1 | h1
    · exact hp c i t h1
    · cases h1
    · cases h1
  · intro vm vm' b v r _ ih h
    rcases setBreakPoint_spec h with rfl | ⟨sites, c, _, ⟨_, hc, rfl⟩ | ⟨_, hc, rfl⟩⟩
    · exact ih
    · exact ih
    · exact ih
  · intro vm vm' _ ih h
    obtain ⟨c, hc, rfl⟩ := clearBreakpoints_spec h
    exact ih
  · intro vm b _ ih; exact ih
  · intro vm vm' _ ih h
    obtain ⟨c, hc, rfl⟩ := reset_spec h
    show Tiles [] 0
    simp [Tiles]

theorem tiles_sum : ∀ (st : List Act) (n : Nat), Tiles st n →
    n = (st.map (fun a => a.segSize.toNat)).sum := by
  intro st
  induction st with
  | nil => intro n h; simpa [Tiles] using h
  | cons a rest ih =>
    intro n h
    simp only [Tiles] at h
    have := ih _ h.2.2
    simp only [List.map_cons, List.sum_cons]
    omega

/-! ### C20 -/

theorem reach_range {p : Program} (hp : ConstOK p.code) :
    ∀ vm, Reach p vm → ∀ w ∈ vm.data, InRange w := by
  apply reach_induct
  · intro w hw; cases hw
  · intro vm vm' r hr ih h
    refine step_range ?_ ih h
    intro t c hm
    rcases reach_codeSub vm hr _ hm with h1 | h1 | h1
    · exact hp t c h1
    · cases h1
    · cases h1
  · intro vm vm' b v r _ ih h
    rcases setBreakPoint_spec h with rfl | ⟨sites, c, _, ⟨_, hc, rfl⟩ | ⟨_, hc, rfl⟩⟩
    · exact ih
    · exact ih
    · exact ih
  · intro vm vm' _ ih h
    obtain ⟨c, hc, rfl⟩ := clearBreakpoints_spec h
    exact ih
  · intro vm b _ ih; exact ih
  · intro vm vm' _ ih h
    obtain ⟨c, hc, rfl⟩ := reset_spec h
    intro w hw; cases hw

/-! ### C17 -/

theorem reach_shape {p : Program} (hs : SitesOK p) :
    ∀ vm, Reach p vm → Shape p vm.code vm.enabled := by
  apply reach_induct
  · exact shape_init p
  · intro vm vm' r _ ih h
    rw [(step_code_enabled h).1, (step_code_enabled h).2]; exact ih
  · intro vm vm' b v r _ ih h
    rcases setBreakPoint_spec h with rfl | ⟨sites, c, hsite, ⟨_, hc, rfl⟩ | ⟨_, hc, rfl⟩⟩
    · exact ih
    · exact shape_enable hs hsite ih hc
    · exact shape_disable hs hsite ih hc
  · intro vm vm' _ ih h
    obtain ⟨c, hc, rfl⟩ := clearBreakpoints_spec h
    rw [restoreAll_shape hs ih] at hc
    cases hc
    exact shape_init p
  · intro vm b _ ih; exact ih
  · intro vm vm' _ ih h
    obtain ⟨c, hc, rfl⟩ := reset_spec h
    rw [restoreAll_shape hs ih] at hc
    cases hc
    exact shape_init p

theorem reset_fresh {p : Program} (hs : SitesOK p) {vm : VM} (hr : Reach p vm) :
    VM.reset p vm = .ok (VM.mk' p) := by
  have h := restoreAll_shape hs (reach_shape hs vm hr)
  unfold VM.reset VM.clearBreakpoints
  simp only [bind, Except.bind, pure, Except.pure, h]
  rfl

theorem end_absorbing {vm : VM} (h : vm.isDone = .ok true) :
    step vm = .ok (vm, true) ∧ ExecTo vm vm := by
  have hf : fetch vm.code vm.ip = .ok Instr.halt := by
    unfold VM.isDone at h
    simp only [bind, Except.bind, pure, Except.pure] at h
    split at h
    · cases h
    · rename_i i hi
      have hd := Except.ok.inj h
      rw [hi, of_decide_eq_true hd]
  have hst : step vm = .ok (vm, true) := by
    unfold step
    simp only [bind, Except.bind, pure, Except.pure, hf]
  exact ⟨hst, ExecTo.stop hst⟩

end Theo
