/-
  Helper lemmas and invariants for C17, C19, C20 (reachability inductions over the VM model).
-/
import Theo.Spec.VMSpec

namespace Theo

end Theo
