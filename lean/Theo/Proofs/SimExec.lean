/-
  C01, part 6: executing the code of values and calls on the VM, at the level of the register
  file of the top activation.
-/
import Theo.Proofs.SimMatch

set_option linter.unusedSimpArgs false

namespace Theo
namespace Sim
open Sem WF

/-- `vm'` differs from `vm` at most in the registers `ts` of the top activation `a` -/
structure Pres (vm vm' : VM) (a : Act) (ts : List Int) : Prop where
  stack : vm'.stack = vm.stack
  other : ∀ r w, r ∉ ts → Holds vm.data a r w → Holds vm'.data a r w
  below : SameBelow a.dataStart vm.data vm'.data

theorem Pres.refl (vm : VM) (a : Act) (ts : List Int) : Pres vm vm a ts :=
  ⟨rfl, fun _ _ _ h => h, SameBelow.refl _ _⟩

theorem Pres.of_eq {vm vm' : VM} (a : Act) (ts : List Int) (hs : vm'.stack = vm.stack)
    (hd : vm'.data = vm.data) : Pres vm vm' a ts :=
  ⟨hs, fun _ _ _ h => by rw [hd]; exact h, by rw [hd]; exact SameBelow.refl _ _⟩

theorem Pres.trans {vm vm' vm'' : VM} {a : Act} {ts1 ts2 : List Int} (h1 : Pres vm vm' a ts1)
    (h2 : Pres vm' vm'' a ts2) : Pres vm vm'' a (ts1 ++ ts2) :=
  ⟨h2.stack.trans h1.stack,
   fun r w hr h => h2.other r w (fun hh => hr (List.mem_append_right _ hh))
     (h1.other r w (fun hh => hr (List.mem_append_left _ hh)) h),
   h1.below.trans h2.below⟩

theorem Pres.weaken {vm vm' : VM} {a : Act} {ts ts' : List Int} (h : Pres vm vm' a ts)
    (hsub : ∀ t ∈ ts, t ∈ ts') : Pres vm vm' a ts' :=
  ⟨h.stack, fun r w hr hh => h.other r w (fun hm => hr (hsub r hm)) hh, h.below⟩

theorem Pres.of_set {vm vm' : VM} {a : Act} {t : Int} {v : Int} (hs : vm'.stack = vm.stack)
    (hd : vm'.data = vm.data.set (a.dataStart + t.toNat) v) (h0 : 0 ≤ t) : Pres vm vm' a [t] := by
  refine ⟨hs, fun r w hr h => ?_, ?_⟩
  · rw [hd]
    exact h.set_other v (fun he => hr (by rw [he]; exact List.mem_singleton.2 rfl)) h0
  · rw [hd]
    exact SameBelow.set _ _ (by omega)

section
variable {p : Program} {c : Cert} {R : PcInfo}

/-- the frame of the top activation lies inside the data -/
theorem Good.top_in {vm : VM} (hg : Good p c R.rid vm) {a : Act} {rest : List Act}
    (hst : vm.stack = a :: rest) : a.dataStart + a.segSize.toNat = vm.data.length := by
  have := hg.tiles
  rw [hst] at this
  exact this.2.1

theorem r_add (hc : CertOK p c R) {vm : VM} (hg : Good p c R.rid vm) {a : Act} {rest : List Act}
    (hst : vm.stack = a :: rest) {pc : Nat} (ha : Anch p.code vm.ip pc) {t s k : Int}
    (hins : p.code[skipc p.code pc]? = some (.add t s k)) {n m : Nat} (hs : Holds vm.data a s n)
    (hm : addClamp (n : Int) k = (m : Int)) (hle : m ≤ WORD_MAX) :
    0 ≤ t ∧ t < a.segSize ∧
    ∃ vm', SP vm vm' ∧ Good p c R.rid vm' ∧ vm'.ip = ((skipc p.code pc + 1 : Nat) : Int) ∧
      Pres vm vm' a [t] ∧ Holds vm'.data a t m := by
  obtain ⟨vm1, s1, g1, ip1, st1, d1⟩ := to_anchor hc hg ha
  obtain ⟨h0, h1, _, _, v, hv, vm2, s2, g2, ip2, st2, d2⟩ :=
    x_add hc g1 (st1.trans hst) ip1 hins
  rw [d1, hs.2.2.1] at hv
  cases hv
  rw [hm, d1] at d2
  refine ⟨h0, h1, vm2, s1.trans_sp ⟨0, s2⟩, g2, by rw [ip2]; omega,
    Pres.of_set (st2.trans st1) d2 h0, ?_⟩
  rw [d2]
  exact Holds.set_same h0 h1 (by rw [hg.top_in hst]; omega) hle

theorem r_const (hc : CertOK p c R) {vm : VM} (hg : Good p c R.rid vm) {a : Act} {rest : List Act}
    (hst : vm.stack = a :: rest) {pc : Nat} (ha : Anch p.code vm.ip pc) {t k : Int}
    (hins : p.code[skipc p.code pc]? = some (.const t k)) :
    0 ≤ t ∧ t < a.segSize ∧
    ∃ vm', SP vm vm' ∧ Good p c R.rid vm' ∧ vm'.ip = ((skipc p.code pc + 1 : Nat) : Int) ∧
      Pres vm vm' a [t] ∧ ∀ m : Nat, k = (m : Int) → m ≤ WORD_MAX → Holds vm'.data a t m := by
  obtain ⟨vm1, s1, g1, ip1, st1, d1⟩ := to_anchor hc hg ha
  obtain ⟨h0, h1, vm2, s2, g2, ip2, st2, d2⟩ := x_const hc g1 (st1.trans hst) ip1 hins
  rw [d1] at d2
  refine ⟨h0, h1, vm2, s1.trans_sp ⟨0, s2⟩, g2, by rw [ip2]; omega,
    Pres.of_set (st2.trans st1) d2 h0, ?_⟩
  intro m hk hle
  rw [d2, hk]
  exact Holds.set_same h0 h1 (by rw [hg.top_in hst]; omega) hle

theorem r_test (hc : CertOK p c R) {vm : VM} (hg : Good p c R.rid vm) {a : Act} {rest : List Act}
    (hst : vm.stack = a :: rest) {pc : Nat} (ha : Anch p.code vm.ip pc) {t x y : Int}
    (hins : p.code[skipc p.code pc]? = some (.test t x y)) {n1 n2 : Nat}
    (hx : Holds vm.data a x n1) (hy : Holds vm.data a y n2) :
    0 ≤ t ∧ t < a.segSize ∧
    ∃ vm', SP vm vm' ∧ Good p c R.rid vm' ∧ vm'.ip = ((skipc p.code pc + 1 : Nat) : Int) ∧
      Pres vm vm' a [t] ∧ Holds vm'.data a t (if n1 = n2 then 0 else 1) := by
  obtain ⟨vm1, s1, g1, ip1, st1, d1⟩ := to_anchor hc hg ha
  obtain ⟨h0, h1, _, _, _, _, v1, v2, hv1, hv2, vm2, s2, g2, ip2, st2, d2⟩ :=
    x_test hc g1 (st1.trans hst) ip1 hins
  rw [d1, hx.2.2.1] at hv1
  rw [d1, hy.2.2.1] at hv2
  cases hv1
  cases hv2
  rw [d1] at d2
  have hval : (if (n1 : Int) = (n2 : Int) then (0 : Int) else 1) =
      (((if n1 = n2 then 0 else 1 : Nat)) : Int) := by
    by_cases h : n1 = n2
    · simp [h]
    · have : ¬ (n1 : Int) = (n2 : Int) := by omega
      simp [h, this]
  rw [hval] at d2
  refine ⟨h0, h1, vm2, s1.trans_sp ⟨0, s2⟩, g2, by rw [ip2]; omega,
    Pres.of_set (st2.trans st1) d2 h0, ?_⟩
  rw [d2]
  refine Holds.set_same h0 h1 (by rw [hg.top_in hst]; omega) ?_
  unfold WORD_MAX
  split <;> omega

theorem r_jmp (hc : CertOK p c R) {vm : VM} (hg : Good p c R.rid vm) {pc : Nat}
    (ha : Anch p.code vm.ip pc) {off : Int} (hins : p.code[skipc p.code pc]? = some (.jmp off)) :
    ∃ vm', SP vm vm' ∧ Good p c R.rid vm' ∧ vm'.ip = ((skipc p.code pc : Nat) : Int) + off ∧
      vm'.stack = vm.stack ∧ vm'.data = vm.data := by
  obtain ⟨vm1, s1, g1, ip1, st1, d1⟩ := to_anchor hc hg ha
  obtain ⟨vm2, s2, g2, ip2, st2, d2⟩ := x_jmp hc g1 ip1 hins
  exact ⟨vm2, s1.trans_sp ⟨0, s2⟩, g2, ip2, st2.trans st1, d2.trans d1⟩

theorem r_jmpc (hc : CertOK p c R) {vm : VM} (hg : Good p c R.rid vm) {a : Act} {rest : List Act}
    (hst : vm.stack = a :: rest) {pc : Nat} (ha : Anch p.code vm.ip pc) {off s : Int}
    (hins : p.code[skipc p.code pc]? = some (.jmpc off s)) {n : Nat} (hs : Holds vm.data a s n) :
    ∃ vm', SP vm vm' ∧ Good p c R.rid vm' ∧
      vm'.ip = (if n = 0 then ((skipc p.code pc : Nat) : Int) + off
                else ((skipc p.code pc + 1 : Nat) : Int)) ∧
      vm'.stack = vm.stack ∧ vm'.data = vm.data := by
  obtain ⟨vm1, s1, g1, ip1, st1, d1⟩ := to_anchor hc hg ha
  obtain ⟨_, _, v, hv, vm2, s2, g2, ip2, st2, d2⟩ := x_jmpc hc g1 (st1.trans hst) ip1 hins
  rw [d1, hs.2.2.1] at hv
  cases hv
  refine ⟨vm2, s1.trans_sp ⟨0, s2⟩, g2, ?_, st2.trans st1, d2.trans d1⟩
  rw [ip2]
  by_cases h : n = 0
  · simp [h]
  · have : ¬ (n : Int) = 0 := by omega
    simp [h, this]

theorem at_code {e : VEnv} (he : e.code = p.code) {pc : Nat} {ins : Instr} (h : e.at pc = some ins) :
    p.code[skipc p.code pc]? = some ins := by
  unfold VEnv.at at h
  rwa [he] at h

theorem next_code {e : VEnv} (he : e.code = p.code) (pc : Nat) : e.next pc = skipc p.code pc + 1 := by
  unfold VEnv.next
  rw [he]

/-- the values computed without a call -/
inductive SimpleVal (env : Env) : Value → Nat → Prop where
  | var (y : Name) : SimpleVal env (.var y) (env.get y)
  | num (n : Nat) : SimpleVal env (.num n) n
  | inc (y : Name) (k : Nat) : SimpleVal env (.inc y k) (addSat (env.get y) k)
  | dec (y : Name) (k : Nat) : SimpleVal env (.dec y k) (env.get y - k)

theorem eval_simple (hc : CertOK p c R) {e : VEnv} (he : e.code = p.code) {vm : VM}
    (hg : Good p c R.rid vm) {a : Act} {rest : List Act} (hst : vm.stack = a :: rest) {pc : Nat}
    (ha : Anch p.code vm.ip pc) {env : Env} {ctrs : Ctrs} (hfo : FrameOK vm.data a e.me env ctrs)
    {v : Value} {live : List Int} {tgt : Int} {pc' : Nat}
    (hcv : checkValue e v live pc = some (tgt, pc')) {n : Nat} (hv : SimpleVal env v n) :
    ∃ vm' ts, SP vm vm' ∧ Good p c R.rid vm' ∧ vm'.ip = (pc' : Int) ∧ Pres vm vm' a (tgt :: ts) ∧
      Holds vm'.data a tgt n ∧ ∀ t ∈ ts, tempOK e live t = true := by
  cases hv with
  | var y =>
    obtain ⟨ry, h1, h2, _, rfl⟩ := checkValue_var hcv
    have hy := hfo.reg h1
    obtain ⟨_, _, vm', s1, g1, ip1, p1, hh⟩ :=
      r_add hc hg hst ha (at_code he h2) hy (clamp_zero hy.2.2.2) hy.2.2.2
    exact ⟨vm', [], s1, g1, by rw [ip1, next_code he], p1, hh, fun _ h => nomatch h⟩
  | num n =>
    obtain ⟨h2, hn, _, rfl⟩ := checkValue_num hcv
    obtain ⟨_, _, vm', s1, g1, ip1, p1, hh⟩ := r_const hc hg hst ha (at_code he h2)
    exact ⟨vm', [], s1, g1, by rw [ip1, next_code he], p1, hh n rfl (Nat.le_of_lt hn),
      fun _ h => nomatch h⟩
  | inc y k =>
    simp only [checkValue] at hcv
    obtain ⟨ry, t1, t2, c2, h1, h2, ht1, h3, ht2, hne, h4, hk, _, rfl⟩ := checkIncDec_inv hcv
    have hy := hfo.reg h1
    obtain ⟨t10, _, vm1, s1, g1, ip1, p1, hh1⟩ :=
      r_add hc hg hst ha (at_code he h2) hy (clamp_zero hy.2.2.2) hy.2.2.2
    have st1 := p1.stack.trans hst
    have a1 : Anch p.code vm1.ip (e.next pc) := by rw [ip1, next_code he]; exact Anch.self _ _
    obtain ⟨t20, _, vm2, s2, g2, ip2, p2, _⟩ := r_const hc g1 st1 a1 (at_code he h3)
    have st2 := p2.stack.trans st1
    have a2 : Anch p.code vm2.ip (e.next (e.next pc)) := by
      rw [ip2, next_code he (e.next pc)]; exact Anch.self _ _
    have hh2 : Holds vm2.data a t1 (env.get y) :=
      p2.other _ _ (by simp; exact fun h => hne h.symm) hh1
    obtain ⟨_, _, vm3, s3, g3, ip3, p3, hh3⟩ :=
      r_add hc g2 st2 a2 (at_code he h4) hh2 (m := addSat (env.get y) k)
        (by simp only [if_true]; exact clamp_inc) (addSat_le _ _)
    refine ⟨vm3, [t1, t2], (s1.trans s2).trans s3, g3,
      by rw [ip3, next_code he (e.next (e.next pc))], ?_, hh3, ?_⟩
    · exact ((p1.trans p2).trans p3).weaken (by simp)
    · intro t ht
      simp only [List.mem_cons, List.not_mem_nil, or_false] at ht
      rcases ht with rfl | rfl
      · exact ht1
      · exact ht2
  | dec y k =>
    simp only [checkValue] at hcv
    obtain ⟨ry, t1, t2, c2, h1, h2, ht1, h3, ht2, hne, h4, hk, _, rfl⟩ := checkIncDec_inv hcv
    have hy := hfo.reg h1
    obtain ⟨t10, _, vm1, s1, g1, ip1, p1, hh1⟩ :=
      r_add hc hg hst ha (at_code he h2) hy (clamp_zero hy.2.2.2) hy.2.2.2
    have st1 := p1.stack.trans hst
    have a1 : Anch p.code vm1.ip (e.next pc) := by rw [ip1, next_code he]; exact Anch.self _ _
    obtain ⟨t20, _, vm2, s2, g2, ip2, p2, _⟩ := r_const hc g1 st1 a1 (at_code he h3)
    have st2 := p2.stack.trans st1
    have a2 : Anch p.code vm2.ip (e.next (e.next pc)) := by
      rw [ip2, next_code he (e.next pc)]; exact Anch.self _ _
    have hh2 : Holds vm2.data a t1 (env.get y) :=
      p2.other _ _ (by simp; exact fun h => hne h.symm) hh1
    obtain ⟨_, _, vm3, s3, g3, ip3, p3, hh3⟩ :=
      r_add hc g2 st2 a2 (at_code he h4) hh2 (m := env.get y - k)
        (by simp only [Bool.false_eq_true, if_false]; exact clamp_dec hy.2.2.2)
        (Nat.le_trans (Nat.sub_le _ _) hy.2.2.2)
    refine ⟨vm3, [t1, t2], (s1.trans s2).trans s3, g3,
      by rw [ip3, next_code he (e.next (e.next pc))], ?_, hh3, ?_⟩
    · exact ((p1.trans p2).trans p3).weaken (by simp)
    · intro t ht
      simp only [List.mem_cons, List.not_mem_nil, or_false] at ht
      rcases ht with rfl | rfl
      · exact ht1
      · exact ht2

/-! ### the call sequence -/

/-- the frame being prepared: the arguments passed so far, zero elsewhere -/
def FrameInit (d : List Int) (a : Act) (vs : List Nat) : Prop :=
  ∀ r : Nat, (r : Int) < a.segSize → d[a.dataStart + r]? = some ((((vs[r]?).getD 0 : Nat)) : Int)

theorem HoldAll.le {d : List Int} {a : Act} : ∀ {temps : List Int} {vals : List Nat},
    HoldAll (Holds d a) temps vals → ∀ v ∈ vals, v ≤ WORD_MAX := by
  intro temps
  induction temps with
  | nil =>
    intro vals h v hv
    have := h.1
    cases vals with
    | nil => cases hv
    | cons _ _ => simp at this
  | cons t ts ih =>
    intro vals h v hv
    cases vals with
    | nil => cases hv
    | cons w ws =>
      obtain ⟨h1, h2⟩ := h.cons_inv
      rcases List.mem_cons.1 hv with rfl | hv
      · exact h1.2.2.2
      · exact ih h2 v hv

theorem arg_loop (hc : CertOK p c R) {e : VEnv} (he : e.code = p.code) {callee a : Act}
    {rest : List Act} {pc2 : Nat} : ∀ (temps : List Int) (vals : List Nat) (i pc : Nat) (vm : VM)
    (done : List Nat), Good p c R.rid vm → vm.stack = callee :: a :: rest → Anch p.code vm.ip pc →
    checkArgInstrs e temps i pc = some pc2 → HoldAll (Holds vm.data a) temps vals →
    done.length = i → FrameInit vm.data callee done →
    ∃ vm', SS vm vm' ∧ Good p c R.rid vm' ∧ Anch p.code vm'.ip pc2 ∧ vm'.stack = vm.stack ∧
      SameBelow callee.dataStart vm.data vm'.data ∧ FrameInit vm'.data callee (done ++ vals) := by
  intro temps
  induction temps with
  | nil =>
    intro vals i pc vm done hg hst ha hchk hh hlen hfi
    have hv : vals = [] := by
      have := hh.1
      cases vals with
      | nil => rfl
      | cons _ _ => simp at this
    subst hv
    simp only [checkArgInstrs, Option.some.injEq] at hchk
    subst hchk
    exact ⟨vm, SS.refl _, hg, ha, rfl, SameBelow.refl _ _, by simpa using hfi⟩
  | cons t ts ih =>
    intro vals i pc vm done hg hst ha hchk hh hlen hfi
    cases vals with
    | nil => have := hh.1; simp at this
    | cons v vs =>
      obtain ⟨hv, hh'⟩ := hh.cons_inv
      obtain ⟨h1, h2⟩ := checkArgInstrs_cons hchk
      obtain ⟨vm1, s1, g1, ip1, st1, d1⟩ := to_anchor hc hg ha
      obtain ⟨i0, i1, _, _, w, hw, vm2, s2, g2, ip2, st2, d2⟩ :=
        x_arg hc g1 (st1.trans hst) ip1 (at_code he h1)
      rw [d1, hv.2.2.1] at hw
      cases hw
      rw [d1] at d2
      have htl := hg.tiles
      rw [hst] at htl
      obtain ⟨_, hsum, _, hsum2, _⟩ := htl
      have hsb : SameBelow callee.dataStart vm.data vm2.data := by
        rw [d2]; exact SameBelow.set _ _ (by omega)
      have hidx : ((i : Nat) : Int).toNat = i := by omega
      have hfi2 : FrameInit vm2.data callee (done ++ [v]) := by
        intro r hr
        rw [d2, hidx]
        by_cases hri : r = i
        · subst hri
          rw [List.getElem?_set_self (by omega), List.getElem?_append_right (by omega), hlen]
          simp
        · rw [List.getElem?_set_ne (by omega), hfi r hr]
          by_cases hlt : r < i
          · rw [List.getElem?_append_left (by omega)]
          · rw [List.getElem?_eq_none (by omega), List.getElem?_eq_none (by simp; omega)]
      have hh2 : HoldAll (Holds vm2.data a) ts vs :=
        hh'.mono (fun t _ n hn => hn.below (by omega) hsb)
      have a2 : Anch p.code vm2.ip (e.next pc) := by
        rw [ip2, next_code he]; exact Anch.self _ _
      obtain ⟨vm3, s3, g3, a3, st3, sb3, fi3⟩ :=
        ih vs (i + 1) (e.next pc) vm2 (done ++ [v]) g2 ((st2.trans st1).trans hst) a2 h2 hh2
          (by simp [hlen]) hfi2
      refine ⟨vm3, (s1.trans ⟨1, s2⟩).trans s3, g3, a3, (st3.trans st2).trans st1,
        hsb.trans sb3, ?_⟩
      rw [List.append_assoc] at fi3
      exact fi3

theorem env_infos {src : Source} {V : Valid src p} (hV : V.OK) {r j : Nat} {ri : RInfo}
    (h : (V.env r).infos[j]? = some ri) : j < r ∧ (r ≤ src.progs.length → ri = V.ri j) := by
  have h' : (V.infos.take r)[j]? = some ri := h
  rw [List.getElem?_take] at h'
  split at h'
  · rename_i hlt
    refine ⟨hlt, fun hr => ?_⟩
    rw [hV.info j (by omega)] at h'
    cases h'
    rfl
  · cases h'

theorem do_call {src : Source} {V : Valid src p} (hc : CertOK p c R) (hV : V.OK) {r : Nat}
    (hr : r ≤ src.progs.length) {vm : VM} (hg : Good p c R.rid vm) {a : Act} {rest : List Act}
    (hst : vm.stack = a :: rest) {pc1 : Nat} (ha : Anch p.code vm.ip pc1) {f : Name}
    {live temps : List Int} {tgt : Int} {pc' : Nat}
    (hct : CallTail (V.env r) f live temps pc1 tgt pc') {vals : List Nat}
    (hh : HoldAll (Holds vm.data a) temps vals) :
    ∃ j pd, lookupProg src f r = some (j, pd) ∧ j < r ∧ src.progs[j]? = some pd ∧
      pd.params.length = vals.length ∧
      ∃ vm' callee, SP vm vm' ∧ Good p c R.rid vm' ∧ vm'.ip = ((V.start j : Nat) : Int) ∧
        vm'.stack = callee :: a :: rest ∧ callee.retAddr = (pc' : Int) ∧ callee.retTarget = tgt ∧
        callee.dbg = (j : Int) ∧ SameBelow vm.data.length vm.data vm'.data ∧
        FrameOK vm'.data callee (V.ri j) (bindParams pd.params vals []) [] := by
  have he : (V.env r).code = p.code := rfl
  obtain ⟨j, pd, ri, cnt, pc2, h1, h2, h3, h4, _, h6, h7, rfl⟩ := hct
  have h1' : lookupProg src f r = some (j, pd) := h1
  obtain ⟨hjr, hpd⟩ := lookupProg_spec h1'
  obtain ⟨_, hri⟩ := env_infos hV h2
  have hri := hri hr
  subst hri
  have hjn : j < src.progs.length := by omega
  refine ⟨j, pd, h1', hjr, hpd, by rw [h3, hh.1], ?_⟩
  -- PREPARE
  obtain ⟨vm1, s1, g1, ip1, st1, d1⟩ := to_anchor hc hg ha
  obtain ⟨hcnt, ht0, ht1, vm2, s2, g2, ip2, st2, d2⟩ :=
    x_prepare hc g1 (st1.trans hst) ip1 (at_code he h4)
  rw [d1] at d2 st2
  rw [st1, hst] at st2
  have hin := hg.top_in hst
  have hsb2 : SameBelow vm.data.length vm.data vm2.data := by
    rw [d2]; exact SameBelow.append _ _ (Nat.le_refl _)
  have hfi2 : FrameInit vm2.data ⟨vm.data.length, cnt, tgt, -1, ((V.ri j).mi : Int)⟩ [] := by
    intro r' hr'
    have hr'' : (r' : Int) < cnt := hr'
    rw [d2, List.getElem?_append_right (by simp)]
    simp only [Nat.add_sub_cancel_left, List.getElem?_nil, Option.getD_none]
    rw [List.getElem?_replicate, if_pos (by omega)]
    rfl
  have hh2 : HoldAll (Holds vm2.data a) temps vals :=
    hh.mono (fun t _ n hn => hn.below (by omega) hsb2)
  have a2 : Anch p.code vm2.ip ((V.env r).next pc1) := by
    rw [ip2, next_code he]; exact Anch.self _ _
  -- ARG*
  obtain ⟨vm3, s3, g3, a3, st3, sb3, fi3⟩ :=
    arg_loop hc he temps vals 0 _ vm2 [] g2 st2 a2 h6 hh2 rfl hfi2
  rw [st2] at st3
  -- EXEC
  obtain ⟨vm4, s4, g4, ip4, st4, d4⟩ := to_anchor hc g3 a3
  obtain ⟨vm5, s5, g5, ip5, st5, d5⟩ := x_exec hc g4 (st4.trans st3) ip4 (at_code he h7)
  rw [d4] at d5
  have hsb5 : SameBelow vm.data.length vm.data vm5.data := by
    rw [d5]; exact hsb2.trans sb3
  refine ⟨vm5, _, ((s1.trans ⟨1, s2⟩).trans s3).trans_sp (s4.trans_sp ⟨0, s5⟩), g5,
    by rw [ip5, hV.entry j hjn], st5, ?_, rfl, ?_, hsb5, ?_⟩
  · show ((skipc p.code pc2 : Nat) : Int) + 1 = _
    rw [next_code he]; omega
  · show ((V.ri j).mi : Int) = j
    rw [hV.mi j (by omega)]
  · obtain ⟨pd', ro, q1, q2, _, _⟩ := hV.rout j hjn
    rw [hpd] at q1
    cases q1
    have ham := winv_actMap g5.winv _ (by rw [st5]; exact List.mem_cons_self)
    obtain ⟨hm, _⟩ := ham
    unfold mapOK at hm
    rw [Bool.and_eq_true, decide_eq_true_eq] at hm
    obtain ⟨sm, hsm, hregs⟩ := hV.regs j (by omega)
    have hdbg : ((V.ri j).mi : Int).toNat = j := by rw [hV.mi j (by omega)]; omega
    simp only [hdbg, hsm] at hm
    refine callee_frameOK (hV.nodup j (by omega)) q2 (by rw [h3, hh.1]) hh.le ?_ ?_
    · rw [d5]; exact fi3
    · intro r' nm hmem
      rw [hregs] at hmem
      have := List.all_eq_true.1 hm.2 _ hmem
      rw [regOK_iff] at this
      refine ⟨this.1, ?_⟩
      show r' < cnt
      omega

end

end Sim
end Theo
