/-
  C04 (sugar) — list-level facts about the specification `Spec/Sugar.lean`: the one-pass
  `desugarLA` is the iteration of the leftmost step `sugarStep`; on scanner output the lookahead
  condition is vacuous (`desugarLA = desugar`).  No model definitions are used here.
-/
import Theo.Spec.Sugar

namespace Theo
namespace Sugar

/-- does the stream start with `ID op INT` followed by a token of a scanner kind? -/
def hitOp (op : Bytes) : List Token → Bool
  | a :: b :: c :: e :: _ =>
    decide (a.kind = Tok.ID) && decide (b.kind = Tok.NV_ID) && decide (c.kind = Tok.INT) &&
      decide (e.kind ≤ Tok.WITH) && decide (b.text = op)
  | _ => false

theorem hitOp_iff {op : Bytes} {ts : List Token} :
    hitOp op ts = true ↔ ∃ a b c e rest, ts = a :: b :: c :: e :: rest ∧ a.kind = Tok.ID ∧
      b.kind = Tok.NV_ID ∧ c.kind = Tok.INT ∧ e.kind ≤ Tok.WITH ∧ b.text = op := by
  constructor
  · intro h
    rcases ts with _ | ⟨a, _ | ⟨b, _ | ⟨c, _ | ⟨e, rest⟩⟩⟩⟩ <;> simp [hitOp] at h
    exact ⟨a, b, c, e, rest, rfl, h.1.1.1.1, h.1.1.1.2, h.1.1.2, h.1.2, h.2⟩
  · rintro ⟨a, b, c, e, rest, rfl, h1, h2, h3, h4, h5⟩
    simp [hitOp, h1, h2, h3, h4, h5]

theorem plus_ne_minus : plus ≠ minus := by decide

theorem hitOp_excl {ts : List Token} (h : hitOp plus ts = true) : hitOp minus ts = false := by
  cases h2 : hitOp minus ts with
  | false => rfl
  | true =>
    obtain ⟨a, b, c, e, rest, rfl, _, _, _, _, h5⟩ := hitOp_iff.1 h
    obtain ⟨a', b', c', e', rest', heq, _, _, _, _, h5'⟩ := hitOp_iff.1 h2
    injection heq with _ heq
    injection heq with hb _
    subst hb
    exact absurd (h5.symm.trans h5') plus_ne_minus

/-- the head of the stream seen through the specification's eyes -/
theorem spec_plus {a b c : Token} {rest : List Token} (h : hitOp plus (a :: b :: c :: rest) = true) :
    sugarCall a b c = some (call incName 1 a c) ∧ followed rest = true := by
  obtain ⟨a', b', c', e, rest', heq, h1, h2, h3, h4, h5⟩ := hitOp_iff.1 h
  injection heq with e1 heq; injection heq with e2 heq; injection heq with e3 heq
  subst e1 e2 e3 heq
  simp [sugarCall, h1, h2, h3, h5, followed, h4]

theorem spec_minus {a b c : Token} {rest : List Token} (h : hitOp minus (a :: b :: c :: rest) = true) :
    sugarCall a b c = some (call decName 2 a c) ∧ followed rest = true := by
  obtain ⟨a', b', c', e, rest', heq, h1, h2, h3, h4, h5⟩ := hitOp_iff.1 h
  injection heq with e1 heq; injection heq with e2 heq; injection heq with e3 heq
  subst e1 e2 e3 heq
  have : ¬ minus = plus := fun e => plus_ne_minus e.symm
  simp [sugarCall, h1, h2, h3, h5, followed, h4, this]

theorem spec_miss {a b c : Token} {rest : List Token}
    (hp : hitOp plus (a :: b :: c :: rest) = false) (hm : hitOp minus (a :: b :: c :: rest) = false) :
    sugarCall a b c = none ∨ followed rest = false := by
  cases hf : followed rest with
  | false => exact Or.inr rfl
  | true =>
    left
    rcases rest with _ | ⟨e, rest⟩
    · simp [followed] at hf
    · simp only [followed, decide_eq_true_eq] at hf
      simp only [hitOp, hf, decide_true, Bool.and_true] at hp hm
      unfold sugarCall
      by_cases hk : a.kind = Tok.ID ∧ b.kind = Tok.NV_ID ∧ c.kind = Tok.INT
      · simp only [hk.1, hk.2.1, hk.2.2, decide_true, Bool.true_and, decide_eq_false_iff_not] at hp hm
        simp [hk, hp, hm]
      · simp [hk]

/-! ### unfolding the three recursions at the head -/

theorem desugarLA_plus {a b c : Token} {rest : List Token} (h : hitOp plus (a :: b :: c :: rest) = true) :
    desugarLA (a :: b :: c :: rest) = call incName 1 a c ++ desugarLA rest := by
  rw [desugarLA, (spec_plus h).1, (spec_plus h).2]

theorem desugarLA_minus {a b c : Token} {rest : List Token} (h : hitOp minus (a :: b :: c :: rest) = true) :
    desugarLA (a :: b :: c :: rest) = call decName 2 a c ++ desugarLA rest := by
  rw [desugarLA, (spec_minus h).1, (spec_minus h).2]

theorem desugarLA_miss {t : Token} {tl : List Token}
    (hp : hitOp plus (t :: tl) = false) (hm : hitOp minus (t :: tl) = false) :
    desugarLA (t :: tl) = t :: desugarLA tl := by
  rcases tl with _ | ⟨b, _ | ⟨c, rest⟩⟩
  · simp [desugarLA]
  · simp [desugarLA]
  · rw [desugarLA]
    rcases spec_miss hp hm with h | h
    · rw [h]
    · rw [h]; split <;> simp_all

theorem sugarCountLA_plus {a b c : Token} {rest : List Token} (h : hitOp plus (a :: b :: c :: rest) = true) :
    sugarCountLA (a :: b :: c :: rest) = sugarCountLA rest + 1 := by
  rw [sugarCountLA, (spec_plus h).1, (spec_plus h).2]

theorem sugarCountLA_minus {a b c : Token} {rest : List Token} (h : hitOp minus (a :: b :: c :: rest) = true) :
    sugarCountLA (a :: b :: c :: rest) = sugarCountLA rest + 1 := by
  rw [sugarCountLA, (spec_minus h).1, (spec_minus h).2]

theorem sugarCountLA_miss {t : Token} {tl : List Token}
    (hp : hitOp plus (t :: tl) = false) (hm : hitOp minus (t :: tl) = false) :
    sugarCountLA (t :: tl) = sugarCountLA tl := by
  rcases tl with _ | ⟨b, _ | ⟨c, rest⟩⟩
  · simp [sugarCountLA]
  · simp [sugarCountLA]
  · rw [sugarCountLA]
    rcases spec_miss hp hm with h | h
    · rw [h]
    · rw [h]; split <;> simp_all

theorem sugarStep_plus {a b c : Token} {rest : List Token} (h : hitOp plus (a :: b :: c :: rest) = true) :
    sugarStep (a :: b :: c :: rest) = some (call incName 1 a c ++ rest) := by
  rw [sugarStep, (spec_plus h).1, (spec_plus h).2]

theorem sugarStep_minus {a b c : Token} {rest : List Token} (h : hitOp minus (a :: b :: c :: rest) = true) :
    sugarStep (a :: b :: c :: rest) = some (call decName 2 a c ++ rest) := by
  rw [sugarStep, (spec_minus h).1, (spec_minus h).2]

theorem sugarStep_miss {t : Token} {tl : List Token}
    (hp : hitOp plus (t :: tl) = false) (hm : hitOp minus (t :: tl) = false) :
    sugarStep (t :: tl) = (sugarStep tl).map (t :: ·) := by
  rcases tl with _ | ⟨b, _ | ⟨c, rest⟩⟩
  · simp [sugarStep]
  · simp [sugarStep]
  · rw [sugarStep]
    rcases spec_miss hp hm with h | h
    · rw [h]
    · rw [h]; split <;> simp_all

/-! ### a call is inert: it neither contains an occurrence nor completes one -/

theorem hitOp_first_ne {op : Bytes} {t : Token} {tl : List Token} (h : t.kind ≠ Tok.ID) :
    hitOp op (t :: tl) = false := by
  rcases tl with _ | ⟨b, _ | ⟨c, _ | ⟨e, rest⟩⟩⟩ <;> simp [hitOp, h]

theorem hitOp_second_ne {op : Bytes} {t b : Token} {tl : List Token} (h : b.kind ≠ Tok.NV_ID) :
    hitOp op (t :: b :: tl) = false := by
  rcases tl with _ | ⟨c, _ | ⟨e, rest⟩⟩ <;> simp [hitOp, h]

theorem hitOp_third_ne {op : Bytes} {t b c : Token} {tl : List Token} (h : c.kind ≠ Tok.INT) :
    hitOp op (t :: b :: c :: tl) = false := by
  rcases tl with _ | ⟨e, rest⟩ <;> simp [hitOp, h]

/-- `hitOp` looks at four tokens, and at the fourth only for its kind being a scanner kind -/
theorem hitOp_fourth {op : Bytes} {t b c e e' : Token} {tl tl' : List Token}
    (h : decide (e.kind ≤ Tok.WITH) = decide (e'.kind ≤ Tok.WITH)) :
    hitOp op (t :: b :: c :: e :: tl) = hitOp op (t :: b :: c :: e' :: tl') := by
  simp only [hitOp, h]

/-- kinds of the inserted tokens differ from the kinds an occurrence needs -/
local macro "kne" : tactic =>
  `(tactic| simp [call, stdTok, Tok.RUN, Tok.ID, Tok.WITH, Tok.NV_ID, Tok.ARGSEP, Tok.END, Tok.INT])

theorem desugarLA_call (name : Bytes) (line : Int) (a c : Token) (rest : List Token) :
    desugarLA (call name line a c ++ rest) = call name line a c ++ desugarLA rest := by
  simp only [call, List.cons_append, List.nil_append]
  rw [desugarLA_miss (hitOp_first_ne (by kne)) (hitOp_first_ne (by kne)),
    desugarLA_miss (hitOp_second_ne (by kne)) (hitOp_second_ne (by kne)),
    desugarLA_miss (hitOp_first_ne (by kne)) (hitOp_first_ne (by kne)),
    desugarLA_miss (hitOp_second_ne (by kne)) (hitOp_second_ne (by kne)),
    desugarLA_miss (hitOp_first_ne (by kne)) (hitOp_first_ne (by kne)),
    desugarLA_miss (hitOp_second_ne (by kne)) (hitOp_second_ne (by kne)),
    desugarLA_miss (hitOp_first_ne (by kne)) (hitOp_first_ne (by kne))]

theorem sugarCountLA_call (name : Bytes) (line : Int) (a c : Token) (rest : List Token) :
    sugarCountLA (call name line a c ++ rest) = sugarCountLA rest := by
  simp only [call, List.cons_append, List.nil_append]
  rw [sugarCountLA_miss (hitOp_first_ne (by kne)) (hitOp_first_ne (by kne)),
    sugarCountLA_miss (hitOp_second_ne (by kne)) (hitOp_second_ne (by kne)),
    sugarCountLA_miss (hitOp_first_ne (by kne)) (hitOp_first_ne (by kne)),
    sugarCountLA_miss (hitOp_second_ne (by kne)) (hitOp_second_ne (by kne)),
    sugarCountLA_miss (hitOp_first_ne (by kne)) (hitOp_first_ne (by kne)),
    sugarCountLA_miss (hitOp_second_ne (by kne)) (hitOp_second_ne (by kne)),
    sugarCountLA_miss (hitOp_first_ne (by kne)) (hitOp_first_ne (by kne))]

/-- the two ways a step can happen -/
theorem sugarStep_cases {ts ts' : List Token} (h : sugarStep ts = some ts') :
    (∃ name line a b c e rest, ts = a :: b :: c :: e :: rest ∧ ts' = call name line a c ++ e :: rest ∧
        a.kind = Tok.ID ∧ e.kind ≤ Tok.WITH ∧
        desugarLA ts = call name line a c ++ desugarLA (e :: rest) ∧
        sugarCountLA ts = sugarCountLA (e :: rest) + 1) ∨
    (∃ t tl tl', ts = t :: tl ∧ ts' = t :: tl' ∧ sugarStep tl = some tl' ∧
        hitOp plus ts = false ∧ hitOp minus ts = false) := by
  rcases ts with _ | ⟨t, tl⟩
  · simp [sugarStep] at h
  · cases hp : hitOp plus (t :: tl) with
    | true =>
      left
      obtain ⟨a, b, c, e, rest, heq, h1, _, _, h4, _⟩ := hitOp_iff.1 hp
      rw [heq] at hp h ⊢
      rw [sugarStep_plus hp] at h
      exact ⟨incName, 1, a, b, c, e, rest, rfl, (Option.some.inj h).symm, h1, h4,
        desugarLA_plus hp, sugarCountLA_plus hp⟩
    | false =>
      cases hm : hitOp minus (t :: tl) with
      | true =>
        left
        obtain ⟨a, b, c, e, rest, heq, h1, _, _, h4, _⟩ := hitOp_iff.1 hm
        rw [heq] at hm h ⊢
        rw [sugarStep_minus hm] at h
        exact ⟨decName, 2, a, b, c, e, rest, rfl, (Option.some.inj h).symm, h1, h4,
          desugarLA_minus hm, sugarCountLA_minus hm⟩
      | false =>
        right
        rw [sugarStep_miss hp hm] at h
        cases hs : sugarStep tl with
        | none => rw [hs] at h; cases h
        | some tl' =>
          rw [hs] at h
          exact ⟨t, tl, tl', rfl, (Option.some.inj h).symm, hs, rfl, rfl⟩

/-- the window argument: a step further right does not create an occurrence at the head -/
theorem hitOp_step {op : Bytes} {t : Token} {tl tl' : List Token} (hs : sugarStep tl = some tl')
    (h : hitOp op (t :: tl) = false) : hitOp op (t :: tl') = false := by
  rcases sugarStep_cases hs with ⟨name, line, a, b, c, e, rest, rfl, rfl, _⟩ | ⟨q, tl2, tl2', rfl, rfl, hs2, _⟩
  · exact hitOp_second_ne (by kne)
  rcases sugarStep_cases hs2 with ⟨name, line, a, b, c, e, rest, rfl, rfl, _⟩ | ⟨r, tl3, tl3', rfl, rfl, hs3, _⟩
  · exact hitOp_third_ne (by kne)
  rcases sugarStep_cases hs3 with ⟨name, line, a, b, c, e, rest, rfl, rfl, ha, _⟩ | ⟨s, tl4, tl4', rfl, rfl, _, _⟩
  · rw [← h]
    simp only [call, List.cons_append]
    apply hitOp_fourth
    rw [ha]; rfl
  · rw [← h]
    exact hitOp_fourth rfl

theorem sugarStep_none {ts : List Token} (h : sugarStep ts = none) :
    desugarLA ts = ts ∧ sugarCountLA ts = 0 := by
  induction ts with
  | nil => simp [desugarLA, sugarCountLA]
  | cons t tl ih =>
    cases hp : hitOp plus (t :: tl) with
    | true =>
      obtain ⟨a, b, c, e, rest, heq, _⟩ := hitOp_iff.1 hp
      rw [heq] at hp h; rw [sugarStep_plus hp] at h; cases h
    | false =>
      cases hm : hitOp minus (t :: tl) with
      | true =>
        obtain ⟨a, b, c, e, rest, heq, _⟩ := hitOp_iff.1 hm
        rw [heq] at hm h; rw [sugarStep_minus hm] at h; cases h
      | false =>
        rw [sugarStep_miss hp hm] at h
        have hn : sugarStep tl = none := by
          cases hs : sugarStep tl with
          | none => rfl
          | some x => rw [hs] at h; cases h
        rw [desugarLA_miss hp hm, sugarCountLA_miss hp hm, (ih hn).1, (ih hn).2]
        exact ⟨rfl, rfl⟩

/-- rewriting the leftmost occurrence first changes neither the result of the pass nor (beyond
    the one occurrence consumed) the number of occurrences -/
theorem sugarStep_some {ts ts' : List Token} (h : sugarStep ts = some ts') :
    desugarLA ts' = desugarLA ts ∧ sugarCountLA ts = sugarCountLA ts' + 1 := by
  induction ts generalizing ts' with
  | nil => simp [sugarStep] at h
  | cons t0 tl0 ih =>
    rcases sugarStep_cases h with ⟨name, line, a, b, c, e, rest, heq, rfl, _, _, hd, hc⟩ |
      ⟨t, tl, tl', heq, rfl, hs, hp, hm⟩
    · rw [hd, hc, desugarLA_call, sugarCountLA_call]
      exact ⟨rfl, rfl⟩
    · injection heq with e1 e2
      subst e1 e2
      have ih' := ih hs
      rw [desugarLA_miss hp hm, sugarCountLA_miss hp hm,
        desugarLA_miss (hitOp_step hs hp) (hitOp_step hs hm),
        sugarCountLA_miss (hitOp_step hs hp) (hitOp_step hs hm), ih'.1, ih'.2]
      exact ⟨rfl, rfl⟩

/-- one pass from the left = rewriting the leftmost occurrence until none is left -/
theorem sugarIter_eq : ∀ (k : Nat) (ts : List Token), sugarCountLA ts ≤ k → sugarIter k ts = desugarLA ts := by
  intro k
  induction k with
  | zero =>
    intro ts h
    cases hs : sugarStep ts with
    | none => rw [(sugarStep_none hs).1]; rfl
    | some ts' => have := (sugarStep_some hs).2; omega
  | succ k ih =>
    intro ts h
    rw [sugarIter]
    cases hs : sugarStep ts with
    | none => exact (sugarStep_none hs).1.symm
    | some ts' =>
      have := sugarStep_some hs
      simp only
      rw [ih ts' (by omega), this.1]

/-- as long as occurrences are left every step consumes exactly one -/
theorem sugarIter_count : ∀ (k : Nat) (ts : List Token), k ≤ sugarCountLA ts →
    sugarCountLA (sugarIter k ts) + k = sugarCountLA ts ∧ desugarLA (sugarIter k ts) = desugarLA ts := by
  intro k
  induction k with
  | zero => intro ts _; exact ⟨rfl, rfl⟩
  | succ k ih =>
    intro ts h
    rw [sugarIter]
    cases hs : sugarStep ts with
    | none => have := (sugarStep_none hs).2; omega
    | some ts' =>
      have := sugarStep_some hs
      simp only
      have ih' := ih ts' (by omega)
      exact ⟨by omega, by rw [ih'.2, this.1]⟩

/-! ### on scanner output the lookahead condition is vacuous -/

/-- suffix-closed form of `Scanned`: scanner kinds only, and the last token is no integer -/
def Tame (ts : List Token) : Prop :=
  (∀ t ∈ ts, t.kind ≤ Tok.WITH) ∧ ∀ t, ts.getLast? = some t → t.kind ≠ Tok.INT

theorem Tame.tail {t : Token} {tl : List Token} (h : Tame (t :: tl)) : Tame tl := by
  refine ⟨fun x hx => h.1 x (List.mem_cons_of_mem _ hx), fun x hx => h.2 x ?_⟩
  cases tl with
  | nil => cases hx
  | cons b tl => rw [List.getLast?_cons_cons]; exact hx

theorem Scanned.tame {ts : List Token} (h : Scanned ts) : Tame ts := by
  obtain ⟨hk, body, eof, rfl, he⟩ := h
  refine ⟨hk, fun t ht => ?_⟩
  rw [List.getLast?_concat] at ht
  cases ht
  rw [he]; decide

theorem tame_followed {a b c : Token} {rest cl : List Token} (h : Tame (a :: b :: c :: rest))
    (hc : sugarCall a b c = some cl) : followed rest = true := by
  have hk : c.kind = Tok.INT := by
    unfold sugarCall at hc
    by_cases hk : a.kind = Tok.ID ∧ b.kind = Tok.NV_ID ∧ c.kind = Tok.INT
    · exact hk.2.2
    · rw [if_neg hk] at hc; cases hc
  cases rest with
  | nil => exact absurd hk (h.2 c rfl)
  | cons e rest =>
    have := h.1 e (by simp)
    simp [followed, this]

theorem desugarLA_eq_of_tame : ∀ (n : Nat) (ts : List Token), ts.length ≤ n → Tame ts →
    desugarLA ts = desugar ts ∧ sugarCountLA ts = sugarCount ts := by
  intro n
  induction n with
  | zero =>
    intro ts hl _
    cases ts with
    | nil => simp [desugarLA, desugar, sugarCountLA, sugarCount]
    | cons t tl => simp at hl
  | succ n ih =>
    intro ts hl ht
    rcases ts with _ | ⟨a, _ | ⟨b, _ | ⟨c, rest⟩⟩⟩
    · simp [desugarLA, desugar, sugarCountLA, sugarCount]
    · simp [desugarLA, desugar, sugarCountLA, sugarCount]
    · simp [desugarLA, desugar, sugarCountLA, sugarCount]
    · have ih1 := ih (b :: c :: rest) (by simp at hl ⊢; omega) ht.tail
      have ih2 := ih rest (by simp at hl ⊢; omega) ht.tail.tail.tail
      rw [desugarLA, desugar, sugarCountLA, sugarCount]
      cases hc : sugarCall a b c with
      | none => simp [ih1.1, ih1.2]
      | some cl =>
        rw [tame_followed ht hc]
        simp [ih2.1, ih2.2]

/-- on scanner output the sugar is the plain three-token rewriting -/
theorem desugarLA_eq {ts : List Token} (h : Scanned ts) :
    desugarLA ts = desugar ts ∧ sugarCountLA ts = sugarCount ts :=
  desugarLA_eq_of_tame ts.length ts (Nat.le_refl _) h.tame

end Sugar
end Theo
