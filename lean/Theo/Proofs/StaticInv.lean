/-
  C04 (static rules), part 3: what every dispatch preserves, for arbitrary trees and any fuel
  (`Step`): errors only grow, labels are only added, the enclosing functions are untouched, the
  backpatch list stays valid (`TodoOK`), every label stays accounted for (`LabAcc`), the marks of
  the current function stay well-formed and only grow.
-/
import Theo.Proofs.StaticEq

namespace Theo
namespace Static
open GS

structure Step (gs gs' : GS) : Prop where
  errs : gs'.errors = [] → gs.errors = []
  lablen : gs.labels.length ≤ gs'.labels.length
  name : gs'.top.name = gs.top.name
  argnum : gs'.top.argnum = gs.top.argnum
  outer : gs'.symbols.drop 1 = gs.symbols.drop 1
  todoOK : MarksWF gs → TodoOK gs → TodoOK gs'
  acc : ∀ P : Nat → Prop, LabAcc P gs → LabAcc P gs'
  wf : MarksWF gs → MarksWF gs'
  ext : ∀ e ∈ gs.top.marks, e ∈ gs'.top.marks
  new : ∀ e ∈ gs'.top.marks, e ∈ gs.top.marks ∨ gs.labels.length ≤ e.2

theorem Step.refl (gs : GS) : Step gs gs :=
  ⟨id, Nat.le_refl _, rfl, rfl, rfl, fun _ h => h, fun _ h => h, id, fun _ h => h, fun _ h => Or.inl h⟩

theorem Step.trans {a b c : GS} (h1 : Step a b) (h2 : Step b c) : Step a c where
  errs h := h1.errs (h2.errs h)
  lablen := Nat.le_trans h1.lablen h2.lablen
  name := h2.name.trans h1.name
  argnum := h2.argnum.trans h1.argnum
  outer := h2.outer.trans h1.outer
  todoOK w h := h2.todoOK (h1.wf w) (h1.todoOK w h)
  acc P h := h2.acc P (h1.acc P h)
  wf h := h2.wf (h1.wf h)
  ext e h := h2.ext e (h1.ext e h)
  new e h := by
    rcases h2.new e h with h | h
    · exact h1.new e h
    · exact Or.inr (Nat.le_trans h1.lablen h)

theorem Quiet.step {gs gs' : GS} (q : Quiet gs gs') : Step gs gs' where
  errs := q.errs
  lablen := by rw [q.labels]; exact Nat.le_refl _
  name := q.name
  argnum := q.argnum
  outer := q.outer
  todoOK _ := q.todoOK
  acc _ h := q.acc h
  wf := q.wf
  ext e h := by rw [q.marks]; exact h
  new e h := by rw [q.marks] at h; exact Or.inl h

theorem MLSpec.step {gs gs' : GS} {m : Bytes} {l : Nat} (s : MLSpec gs m gs' l) : Step gs gs' where
  errs h := by rw [← s.errors]; exact h
  lablen := s.lablen
  name := s.name
  argnum := s.argnum
  outer := s.outer
  todoOK _ := s.todoOK
  acc := s.acc
  wf := s.wf
  ext := s.ext
  new := s.new

theorem setLabel_step (gs : GS) (l : Nat) (p : Int) (hp : p ≠ -1) : Step gs (gs.setLabel l p) where
  errs := id
  lablen := by simp
  name := rfl
  argnum := rfl
  outer := rfl
  todoOK _ := setLabel_todoOK gs l p
  acc _ h := setLabel_acc' gs l p hp h
  wf := setLabel_wf gs l p
  ext _ h := h
  new _ h := Or.inl h

theorem step_emitBackpatched (gs : GS) (i : Instr)
    (hv : MarksWF gs → ∃ lab : Nat, lab < gs.labels.length ∧ (i = Instr.jmp (lab : Int) ∨ ∃ s, i = Instr.jmpc (lab : Int) s)) :
    Step gs (gs.emitBackpatched i) where
  errs := id
  lablen := Nat.le_refl _
  name := rfl
  argnum := rfl
  outer := rfl
  todoOK w h := by
    obtain ⟨lab, h1, h2⟩ := hv w
    exact (quiet_emitBackpatched gs i lab h1 h2).todoOK h
  acc _ h := h.congr id rfl rfl
  wf w := MarksWF.congr (gs := gs) (Nat.le_refl _) rfl w
  ext _ h := h
  new _ h := Or.inl h

/-! ### values -/

theorem quiet_genStrToInt (gs : GS) (tok : Bytes) : Quiet gs (genStrToInt gs tok).1 := by
  unfold genStrToInt
  dsimp only
  split
  · exact quiet_err _ _
  · exact Quiet.refl _

theorem genStrToInt_errors (gs : GS) (tok : Bytes) :
    (genStrToInt gs tok).1.errors = [] ↔ gs.errors = [] ∧ genRangeBad (strtolNat tok) = false := by
  unfold genStrToInt
  dsimp only
  split
  · rename_i h
    constructor
    · intro h'; exact absurd h' (err_ne_nil _ _)
    · intro h'; rw [h] at h'; cases h'.2
  · rename_i h
    simp at h
    simp [h]

theorem quiet_argFold (l : List (Int × Nat)) : ∀ gs : GS,
    Quiet gs (l.foldl (fun g a => (g.emit (.arg a.2 a.1)).releaseTemporary a.1) gs) ∧
    (l.foldl (fun g a => (g.emit (.arg a.2 a.1)).releaseTemporary a.1) gs).errors = gs.errors := by
  induction l with
  | nil => intro gs; exact ⟨Quiet.refl _, rfl⟩
  | cons a as ih =>
    intro gs
    simp only [List.foldl_cons]
    obtain ⟨h1, h2⟩ := ih ((gs.emit (.arg a.2 a.1)).releaseTemporary a.1)
    exact ⟨((quiet_emit _ _).trans (quiet_releaseTemporary _ _)).trans h1, h2⟩

/-- the built-in test of gen.cpp, on the number of evaluated arguments -/
def builtinP (l r : Node) (n : Nat) : Prop :=
  (l.tok = bINC ∨ l.tok = bDEC) ∧ (n = 2 ∧ r.left.ty = NodeT.NAME ∧ r.right.left.ty = NodeT.NUMBER)

theorem callTail_spec (gs : GS) (al : List Int) (l r : Node) (tgt : Int) :
    Quiet gs (callTail gs al l r tgt) ∧
    ((callTail gs al l r tgt).errors = [] ↔
      gs.errors = [] ∧ (builtinP l r al.length ∨ look gs l.tok = some al.length)) := by
  unfold callTail
  dsimp only
  split
  · rename_i h
    have hb : builtinP l r al.length := h
    split
    · exact ⟨quiet_emit _ _, by simp [hb]⟩
    · exact ⟨quiet_emit _ _, by simp [hb]⟩
  · rename_i h
    have hb : ¬ builtinP l r al.length := h
    unfold look
    split
    · rename_i hl
      rw [hl]
      refine ⟨quiet_err _ _, ?_⟩
      constructor
      · intro h'; exact absurd h' (err_ne_nil _ _)
      · rintro ⟨_, h' | h'⟩
        · exact absurd h' hb
        · cases h'
    · rename_i p hl
      rw [hl]
      split
      · rename_i hne
        refine ⟨quiet_err _ _, ?_⟩
        constructor
        · intro h'; exact absurd h' (err_ne_nil _ _)
        · rintro ⟨_, h' | h'⟩
          · exact absurd h' hb
          · exact absurd (Option.some.inj h') hne
      · rename_i hne
        have hne' : p.argnum = al.length := by simpa using hne
        obtain ⟨q, he⟩ := quiet_argFold al.zipIdx (gs.emit (.prepare p.stackSize p.mi tgt))
        refine ⟨(quiet_emit _ _).trans (q.trans (quiet_emit _ _)), ?_⟩
        rw [emit_errors, he, emit_errors]
        simp [hne']

theorem quiet_values : ∀ f : Nat,
    (∀ gs n tgt, Quiet gs (dispatchValue f gs n tgt)) ∧
    (∀ gs n acc, Quiet gs (dispatchCallArgs f gs n acc).1) := by
  intro f
  induction f with
  | zero =>
    exact ⟨fun gs n tgt => by rw [dispatchValue_zero]; exact Quiet.refl _,
           fun gs n acc => by rw [dispatchCallArgs_zero]; exact Quiet.refl _⟩
  | succ f ih =>
    refine ⟨?_, ?_⟩
    · intro gs n tgt
      cases n with
      | nil => rw [dispatchValue_nil]; exact Quiet.refl _
      | mk t tok file line l r =>
        rw [dispatchValue_succ]
        have h0 := quiet_advanceLine gs line file
        split
        · exact h0.trans ((quiet_fetchVar _ _).trans (quiet_emit _ _))
        · split
          · exact h0.trans ((quiet_genStrToInt _ _).trans (quiet_emit _ _))
          · split
            · exact h0.trans ((ih.2 _ _ _).trans (callTail_spec _ _ _ _ _).1)
            · exact h0.trans (quiet_err _ _)
    · intro gs n acc
      cases n with
      | nil => rw [dispatchCallArgs_nil]; exact Quiet.refl _
      | mk t tok file line l r =>
        rw [dispatchCallArgs_succ]
        split
        · exact (ih.2 _ _ _).trans (ih.2 _ _ _)
        · exact (quiet_fetchTemporary _).trans (ih.1 _ _ _)

theorem quiet_value (f : Nat) (gs : GS) (n : Node) (tgt : Int) : Quiet gs (dispatchValue f gs n tgt) :=
  (quiet_values f).1 gs n tgt

/-! ### parameters -/

/-- what `dispatchArgs` leaves alone (it changes registers, the parameter count and errors) -/
structure ArgsQuiet (gs gs' : GS) : Prop where
  errs : gs'.errors = [] → gs.errors = []
  funcAddrs : gs'.funcAddrs = gs.funcAddrs
  labels : gs'.labels = gs.labels
  marks : gs'.top.marks = gs.top.marks
  name : gs'.top.name = gs.top.name
  outer : gs'.symbols.drop 1 = gs.symbols.drop 1
  todoOK : TodoOK gs → TodoOK gs'

theorem ArgsQuiet.refl (gs : GS) : ArgsQuiet gs gs := ⟨id, rfl, rfl, rfl, rfl, rfl, id⟩
theorem ArgsQuiet.trans {a b c : GS} (h1 : ArgsQuiet a b) (h2 : ArgsQuiet b c) : ArgsQuiet a c :=
  ⟨fun h => h1.errs (h2.errs h), h2.funcAddrs.trans h1.funcAddrs, h2.labels.trans h1.labels,
   h2.marks.trans h1.marks, h2.name.trans h1.name, h2.outer.trans h1.outer, fun h => h2.todoOK (h1.todoOK h)⟩
theorem Quiet.argsQuiet {gs gs' : GS} (q : Quiet gs gs') : ArgsQuiet gs gs' :=
  ⟨q.errs, q.funcAddrs, q.labels, q.marks, q.name, q.outer, q.todoOK⟩

/-- the argnum bump of `dispatchArgs` -/
def bumpArg (gs : GS) : GS := { gs with symbols := { gs.top with argnum := gs.top.argnum + 1 } :: gs.symbols.drop 1 }

theorem argsQuiet_bump (gs : GS) : ArgsQuiet gs (bumpArg gs) :=
  ⟨id, rfl, rfl, rfl, rfl, rfl, TodoOK.safe rfl (Nat.le_refl _) (CodeSafe.refl _)⟩

theorem argsQuiet_args : ∀ (f : Nat) (gs : GS) (n : Node), ArgsQuiet gs (dispatchArgs f gs n) := by
  intro f
  induction f with
  | zero => intro gs n; rw [dispatchArgs_zero]; exact ArgsQuiet.refl _
  | succ f ih =>
    intro gs n
    cases n with
    | nil => rw [dispatchArgs_nil]; exact ArgsQuiet.refl _
    | mk t tok file line l r =>
      rw [dispatchArgs_succ]
      split
      · exact (ih _ _).trans (ih _ _)
      · dsimp only
        have h1 : ArgsQuiet gs (if (findReg gs.top.regs tok 0).isSome then gs.err GErrT.INTERNAL_ERROR else gs) := by
          split
          · exact (quiet_err _ _).argsQuiet
          · exact ArgsQuiet.refl _
        exact h1.trans ((argsQuiet_bump _).trans (quiet_fetchVar _ _).argsQuiet)

/-! ### the pieces of `dispatchVoid` -/

theorem quiet_loopPre (gs0 : GS) : Quiet gs0 (loopPre gs0).1 := by
  unfold loopPre
  dsimp only
  have h1 : Quiet gs0 ({ gs0 with loops := gs0.loops + 1 } : GS) :=
    ⟨id, rfl, rfl, rfl, rfl, rfl, rfl, TodoOK.safe rfl (Nat.le_refl _) (CodeSafe.refl _)⟩
  exact h1.trans (quiet_fetchVar _ _)

@[simp] theorem loopPre_errors (gs0 : GS) : (loopPre gs0).1.errors = gs0.errors := by
  unfold loopPre; dsimp only; rw [fetchVar_errors]

structure LoopMidSpec (gs : GS) (g : GS) (startL endL : Nat) : Prop where
  startL : startL = gs.labels.length
  endL : endL = gs.labels.length + 1
  errors : g.errors = gs.errors
  funcAddrs : g.funcAddrs = gs.funcAddrs
  lablen : g.labels.length = gs.labels.length + 2
  marks : g.top.marks = gs.top.marks
  name : g.top.name = gs.top.name
  argnum : g.top.argnum = gs.top.argnum
  outer : g.symbols.drop 1 = gs.symbols.drop 1
  todoOK : TodoOK gs → TodoOK g
  isSet : ∀ x, isSet g x ↔ x = gs.labels.length ∨ isSet gs x

theorem loopMid_spec (gs : GS) (counter : Int) :
    LoopMidSpec gs (loopMid gs counter).1 (loopMid gs counter).2.1 (loopMid gs counter).2.2 := by
  unfold loopMid
  dsimp only
  refine ⟨rfl, by simp, rfl, rfl, ?_, rfl, rfl, rfl, rfl, ?_, ?_⟩
  · show ((gs.createLabel.1.createLabel.1.setLabel _ _).emitBackpatched _).labels.length = _
    simp [emitBackpatched, emit]
  · intro h
    have h1 := createLabel_todoOK _ (createLabel_todoOK _ h)
    have h2 := setLabel_todoOK _ gs.createLabel.2 gs.createLabel.1.createLabel.1.nextPos h1
    refine (quiet_emitBackpatched _ _ (gs.labels.length + 1) ?_ (Or.inr ⟨counter, ?_⟩)).todoOK h2
    · simp
    · simp
  · intro x
    show isSet (gs.createLabel.1.createLabel.1.setLabel gs.createLabel.2 gs.createLabel.1.createLabel.1.nextPos) x ↔ _
    rw [setLabel_isSet _ _ _ (nextPos_ne _), createLabel_isSet, createLabel_isSet]
    simp

theorem LoopMidSpec.mstate {gs g : GS} {a b : Nat} (s : LoopMidSpec gs g a b) (w : MarksWF gs) (m : Bytes) :
    mstate g m = mstate gs m := by
  refine mstate_eq_of (mlab_congr s.marks m) (fun x hx => ?_)
  rw [s.isSet]
  have := w.lt _ (mlab_some_mem hx)
  constructor
  · rintro (h | h)
    · simp at this; omega
    · exact h
  · exact Or.inr

theorem LoopMidSpec.wf {gs g : GS} {a b : Nat} (s : LoopMidSpec gs g a b) (w : MarksWF gs) : MarksWF g :=
  w.congr (by rw [s.lablen]; omega) s.marks

theorem LoopMidSpec.acc {gs g : GS} {a b : Nat} (s : LoopMidSpec gs g a b) {P : Nat → Prop}
    (h : LabAcc P gs) : LabAcc (fun l => P l ∨ l = b) g := by
  intro h0 l hlt
  rw [s.errors] at h0
  rw [s.lablen] at hlt
  by_cases h1 : l < gs.labels.length
  · rcases h h0 l h1 with h2 | h2 | h2
    · exact Or.inl ((s.isSet l).2 (Or.inr h2))
    · exact Or.inr (Or.inl (Or.inl h2))
    · exact Or.inr (Or.inr (s.marks ▸ h2))
  · by_cases h2 : l = gs.labels.length
    · exact Or.inl ((s.isSet l).2 (Or.inl h2))
    · exact Or.inr (Or.inl (Or.inr (by rw [s.endL]; omega)))

/-- closing a loop: the end label gets its position -/
structure ClosesSpec (gs g : GS) (endL : Nat) : Prop where
  errors : g.errors = gs.errors
  funcAddrs : g.funcAddrs = gs.funcAddrs
  lablen : g.labels.length = gs.labels.length
  marks : g.top.marks = gs.top.marks
  name : g.top.name = gs.top.name
  argnum : g.top.argnum = gs.top.argnum
  outer : g.symbols.drop 1 = gs.symbols.drop 1
  isSet : ∀ x, isSet g x ↔ (x = endL ∧ endL < gs.labels.length) ∨ isSet gs x

theorem ClosesSpec.acc {gs g : GS} {e : Nat} (s : ClosesSpec gs g e) (he : e < gs.labels.length) {P : Nat → Prop}
    (h : LabAcc (fun l => P l ∨ l = e) gs) : LabAcc P g := by
  intro h0 l hlt
  rw [s.errors] at h0
  rw [s.lablen] at hlt
  rcases h h0 l hlt with h2 | (h2 | h2) | h2
  · exact Or.inl ((s.isSet l).2 (Or.inr h2))
  · exact Or.inr (Or.inl h2)
  · exact Or.inl ((s.isSet l).2 (Or.inl ⟨h2, he⟩))
  · exact Or.inr (Or.inr (s.marks ▸ h2))

theorem ClosesSpec.wf {gs g : GS} {e : Nat} (s : ClosesSpec gs g e) (w : MarksWF gs) : MarksWF g :=
  w.congr (by rw [s.lablen]; exact Nat.le_refl _) s.marks

theorem ClosesSpec.mstate {gs g : GS} {e : Nat} (s : ClosesSpec gs g e)
    (hn : ∀ x ∈ gs.top.marks, x.2 ≠ e) (m : Bytes) : mstate g m = mstate gs m := by
  refine mstate_eq_of (mlab_congr s.marks m) (fun x hx => ?_)
  rw [s.isSet]
  constructor
  · rintro (⟨h, _⟩ | h)
    · exact absurd h (hn _ (mlab_some_mem hx))
    · exact h
  · exact Or.inr

theorem loopPost_spec (gs : GS) (counter : Int) (startL endL : Nat) (hs : startL < gs.labels.length) :
    ClosesSpec gs (loopPost gs counter startL endL) endL ∧ (TodoOK gs → TodoOK (loopPost gs counter startL endL)) := by
  unfold loopPost
  dsimp only
  refine ⟨⟨rfl, rfl, by simp [emitBackpatched, emit], rfl, rfl, rfl, rfl, ?_⟩, ?_⟩
  · intro x
    rw [setLabel_isSet _ _ _ (nextPos_ne _)]
    simp [emitBackpatched, emit, isSet]
  · intro h
    have h1 := (quiet_emit gs (.add counter counter (-1))).todoOK h
    have h2 := (quiet_emitBackpatched (gs.emit (.add counter counter (-1))) (.jmp startL) startL hs (Or.inl rfl)).todoOK h1
    exact setLabel_todoOK _ _ _ h2

theorem whilePre_spec (gs : GS) :
    LoopMidSpec gs (whilePre gs).1 (whilePre gs).2.1 (whilePre gs).2.2.1 := by
  unfold whilePre
  dsimp only
  have q := quiet_fetchTemporary gs.createLabel.1.createLabel.1
  refine ⟨rfl, by simp, ?_, ?_, ?_, ?_, ?_, ?_, ?_, ?_, ?_⟩
  · simp
  · show (gs.createLabel.1.createLabel.1.fetchTemporary.1).funcAddrs = _
    rw [q.funcAddrs]; rfl
  · simp [q.labels]
  · show (gs.createLabel.1.createLabel.1.fetchTemporary.1).top.marks = _
    rw [q.marks]; rfl
  · show (gs.createLabel.1.createLabel.1.fetchTemporary.1).top.name = _
    rw [q.name]; rfl
  · show (gs.createLabel.1.createLabel.1.fetchTemporary.1).top.argnum = _
    rw [q.argnum]; rfl
  · show (gs.createLabel.1.createLabel.1.fetchTemporary.1).symbols.drop 1 = _
    rw [q.outer]; rfl
  · intro h
    exact setLabel_todoOK _ _ _ (q.todoOK (createLabel_todoOK _ (createLabel_todoOK _ h)))
  · intro x
    rw [setLabel_isSet _ _ _ (nextPos_ne _), isSet_congr q.labels, q.labels, createLabel_isSet, createLabel_isSet]
    simp

theorem whilePost_spec (gs : GS) (startL endL : Nat) (cond : Int) (hs : startL < gs.labels.length) :
    ClosesSpec gs (whilePost gs startL endL cond) endL ∧ (TodoOK gs → TodoOK (whilePost gs startL endL cond)) := by
  unfold whilePost
  dsimp only
  refine ⟨⟨rfl, rfl, by simp [emitBackpatched, emit, releaseTemporary], rfl, rfl, rfl, rfl, ?_⟩, ?_⟩
  · intro x
    show isSet ((gs.emitBackpatched (.jmp startL)).setLabel endL (gs.emitBackpatched (.jmp startL)).nextPos) x ↔ _
    rw [setLabel_isSet _ _ _ (nextPos_ne _)]
    simp [emitBackpatched, emit, isSet]
  · intro h
    have h2 := (quiet_emitBackpatched gs (.jmp startL) startL hs (Or.inl rfl)).todoOK h
    exact (quiet_releaseTemporary _ _).todoOK (setLabel_todoOK _ _ _ h2)

theorem quiet_ifPre (gs : GS) : Quiet gs (ifPre gs).1 := by
  unfold ifPre
  dsimp only
  exact (quiet_fetchTemporary _).trans ((quiet_fetchTemporary _).trans (quiet_fetchTemporary _))
@[simp] theorem ifPre_errors (gs : GS) : (ifPre gs).1.errors = gs.errors := by
  unfold ifPre; dsimp only; simp

/-- a jump statement to mark `m` (GOTO, and the tail of IF) -/
structure JumpSpec (gs : GS) (m : Bytes) (g : GS) : Prop where
  step : Step gs g
  errors : g.errors = gs.errors
  funcAddrs : g.funcAddrs = gs.funcAddrs
  mstate : MarksWF gs → ∀ m', mstate g m' = if m' = m then some ((mstate gs m).getD false) else mstate gs m'

theorem goto_spec (gs0 : GS) (m : Bytes) :
    JumpSpec gs0 m ((gs0.markLabel m).1.emitBackpatched (.jmp (gs0.markLabel m).2)) := by
  have s := markLabel_spec gs0 m
  refine ⟨s.step.trans (step_emitBackpatched _ _ (fun w => ⟨_, w.lt _ s.mem, Or.inl rfl⟩)), s.errors, s.funcAddrs, ?_⟩
  intro w m'
  show mstate (gs0.markLabel m).1 m' = _
  rw [s.mstate w]

theorem ifPost_spec (gs : GS) (cond op1 op2 : Int) (m : Bytes) : JumpSpec gs m (ifPost gs cond op1 op2 m) := by
  unfold ifPost
  dsimp only
  have q0 := quiet_emit gs (.test cond op1 op2)
  have s := markLabel_spec (gs.emit (.test cond op1 op2)) m
  have st := step_emitBackpatched ((gs.emit (.test cond op1 op2)).markLabel m).1
    (.jmpc ((gs.emit (.test cond op1 op2)).markLabel m).2 cond) (fun w => ⟨_, w.lt _ s.mem, Or.inr ⟨cond, rfl⟩⟩)
  refine ⟨q0.step.trans (s.step.trans (st.trans ((quiet_releaseTemporary _ _).trans
    ((quiet_releaseTemporary _ _).trans (quiet_releaseTemporary _ _))).step)), ?_, ?_, ?_⟩
  · show ((gs.emit (.test cond op1 op2)).markLabel m).1.errors = _
    rw [s.errors]; rfl
  · show ((gs.emit (.test cond op1 op2)).markLabel m).1.funcAddrs = _
    rw [s.funcAddrs]; rfl
  · intro w m'
    show mstate ((gs.emit (.test cond op1 op2)).markLabel m).1 m' = _
    rw [s.mstate (q0.wf w), q0.mstate, q0.mstate]

theorem mark_spec (gs0 : GS) (m : Bytes) :
    Step gs0 ((gs0.markLabel m).1.setLabel (gs0.markLabel m).2 (gs0.markLabel m).1.markPos) ∧
    ((gs0.markLabel m).1.setLabel (gs0.markLabel m).2 (gs0.markLabel m).1.markPos).errors = gs0.errors ∧
    ((gs0.markLabel m).1.setLabel (gs0.markLabel m).2 (gs0.markLabel m).1.markPos).funcAddrs = gs0.funcAddrs ∧
    (MarksWF gs0 → ∀ m', mstate ((gs0.markLabel m).1.setLabel (gs0.markLabel m).2 (gs0.markLabel m).1.markPos) m' =
      if m' = m then some true else mstate gs0 m') := by
  have s := markLabel_spec gs0 m
  refine ⟨s.step.trans (setLabel_step _ _ _ (markPos_ne _)), s.errors, s.funcAddrs, ?_⟩
  intro w m'
  rw [setLabel_mstate_mark _ (s.wf w) m _ _ (markPos_ne _) s.mem, s.mstate w]
  by_cases h : m' = m
  · simp only [if_pos h]
  · simp only [if_neg h]

/-! ### PROGRAM -/

theorem top_congr {a b : GS} (h : a.symbols = b.symbols) : a.top = b.top := by unfold top; rw [h]

theorem MarksWF.of_nil {gs : GS} (h : gs.top.marks = []) : MarksWF gs :=
  ⟨by rw [h]; exact List.nodup_nil, by rw [h]; exact List.nodup_nil, by rw [h]; intro e he; cases he⟩

structure ProgPreSpec (gs0 : GS) (nm : Bytes) (g : GS) (after : Nat) : Prop where
  after : after = gs0.labels.length
  errors : g.errors = gs0.errors
  funcAddrs : g.funcAddrs = gs0.funcAddrs
  lablen : g.labels.length = gs0.labels.length + 1
  top : g.top = ⟨nm, [], 0, []⟩
  outer : g.symbols.drop 1 = gs0.removeTopPotBreak.symbols
  todoOK : TodoOK gs0 → TodoOK g
  isSet : ∀ x, isSet g x ↔ isSet gs0 x

theorem progPre_spec (gs0 : GS) (nm : Bytes) : ProgPreSpec gs0 nm (progPre gs0 nm).1 (progPre gs0 nm).2 := by
  unfold progPre
  dsimp only
  have q := quiet_removeTopPotBreak gs0
  refine ⟨?_, ?_, ?_, ?_, rfl, rfl, ?_, ?_⟩
  · simp [q.labels]
  · simp
  · show gs0.removeTopPotBreak.funcAddrs = _
    exact q.funcAddrs
  · show (gs0.removeTopPotBreak.labels ++ [-1]).length = _
    simp [q.labels]
  · intro h
    have h1 := createLabel_todoOK _ (q.todoOK h)
    have h2 := (quiet_emitBackpatched gs0.removeTopPotBreak.createLabel.1 (.jmp gs0.removeTopPotBreak.createLabel.2)
      gs0.removeTopPotBreak.labels.length (by simp) (Or.inl rfl)).todoOK h1
    exact TodoOK.safe (gs := gs0.removeTopPotBreak.createLabel.1.emitBackpatched (.jmp gs0.removeTopPotBreak.createLabel.2))
      rfl (Nat.le_refl _) (CodeSafe.refl _) h2
  · intro x
    show isSet gs0.removeTopPotBreak.createLabel.1 x ↔ _
    rw [createLabel_isSet, isSet_congr q.labels]

structure ProgPostSpec (b : GS) (after : Nat) (res : GS) : Prop where
  symbols : res.symbols = b.symbols.drop 1
  lablen : res.labels.length = b.labels.length
  errs : res.errors = [] ↔ b.errors = [] ∧ ∀ e ∈ b.top.marks, isSet b e.2
  look : ∀ f, look res f = if f = b.top.name then some b.top.argnum else look b f
  todoOK : TodoOK b → TodoOK res
  isSet : ∀ x, isSet res x ↔ (x = after ∧ after < b.labels.length) ∨ isSet b x

theorem progPost_spec (b : GS) (out : Bytes) (entry : Int) (after : Nat) :
    ProgPostSpec b after (progPost b out entry after) := by
  unfold progPost
  dsimp only
  have q : Quiet b ((b.fetchVar out).1.emit (.ret (b.fetchVar out).2)) := (quiet_fetchVar _ _).trans (quiet_emit _ _)
  have he : ((b.fetchVar out).1.emit (.ret (b.fetchVar out).2)).errors = b.errors := by simp
  generalize ((b.fetchVar out).1.emit (.ret (b.fetchVar out).2)) = c at q he
  have ps := popSymbols_spec c entry
  refine ⟨?_, ?_, ?_, ?_, ?_, ?_⟩
  · show (c.popSymbols entry).symbols = _
    rw [ps.symbols, q.outer]
  · simp [ps.labels, q.labels]
  · show (c.popSymbols entry).errors = [] ↔ _
    rw [ps.errs, he, q.marks]
    constructor
    · rintro ⟨h1, h2⟩; exact ⟨h1, fun e h => (isSet_congr q.labels _).1 (h2 e h)⟩
    · rintro ⟨h1, h2⟩; exact ⟨h1, fun e h => (isSet_congr q.labels _).2 (h2 e h)⟩
  · intro f
    show look (c.popSymbols entry) f = _
    rw [ps.look, q.name, q.argnum, look_congr q.funcAddrs]
  · intro h
    exact setLabel_todoOK _ _ _ (TodoOK.safe ps.todo (by rw [ps.labels]; exact Nat.le_refl _) (ps.code ▸ CodeSafe.refl _) (q.todoOK h))
  · intro x
    rw [setLabel_isSet _ _ _ (nextPos_ne _), isSet_congr ps.labels, isSet_congr q.labels, ps.labels, q.labels]

/-! ### every dispatch is a `Step` -/

theorem step_void : ∀ (f : Nat) (gs : GS) (n : Node), Step gs (dispatchVoid f gs n) := by
  intro f
  induction f with
  | zero => intro gs n; rw [dispatchVoid_zero]; exact Step.refl _
  | succ f ih =>
    intro gs n
    cases n with
    | nil => rw [dispatchVoid_nil]; exact Step.refl _
    | mk t tok file line l r =>
      rw [dispatchVoid_succ]
      dsimp only
      have q0 := (quiet_advanceLine gs line file).step
      generalize gs.advanceLine line file = gs0 at q0
      refine q0.trans ?_
      clear q0
      split
      · exact (ih _ _).trans (ih _ _)
      split
      · -- PROGRAM
        have q := quiet_removeTopPotBreak gs0
        have sp := progPre_spec gs0 l.left.tok
        generalize (progPre gs0 l.left.tok).1 = p1 at sp
        generalize (progPre gs0 l.left.tok).2 = after at sp
        have aq := argsQuiet_args f p1 l.right.left
        generalize dispatchArgs f p1 l.right.left = g at aq
        have hb := ih g r
        have so := progPost_spec (dispatchVoid f g r) (outNameOf l.right.right) g.nextPos after
        generalize dispatchVoid f g r = b at hb so
        generalize progPost b (outNameOf l.right.right) g.nextPos after = res at so
        have hsym : res.symbols = gs0.removeTopPotBreak.symbols := by
          rw [so.symbols, hb.outer, aq.outer, sp.outer]
        have htop : res.top = gs0.removeTopPotBreak.top := top_congr hsym
        have hmarks : res.top.marks = gs0.top.marks := by rw [htop, q.marks]
        have hgm : g.top.marks = [] := by rw [aq.marks, sp.top]
        have hlen1 : gs0.labels.length + 1 ≤ b.labels.length := by
          have := hb.lablen; rw [aq.labels, sp.lablen] at this; exact this
        have hlen : gs0.labels.length ≤ res.labels.length := by rw [so.lablen]; omega
        refine ⟨?_, hlen, ?_, ?_, ?_, ?_, ?_, ?_, ?_, ?_⟩
        · intro h
          have := aq.errs (hb.errs (so.errs.1 h).1)
          rw [sp.errors] at this; exact this
        · rw [htop, q.name]
        · rw [htop, q.argnum]
        · rw [hsym, q.outer]
        · intro _ h
          exact so.todoOK (hb.todoOK (MarksWF.of_nil hgm) (aq.todoOK (sp.todoOK h)))
        · intro P a
          have a1 : LabAcc (fun l => P l ∨ l = after ∨ ∃ e ∈ gs0.top.marks, e.2 = l) p1 := by
            intro h0 x hlt
            rw [sp.errors] at h0
            rw [sp.lablen] at hlt
            by_cases hx : x < gs0.labels.length
            · rcases a h0 x hx with h1 | h1 | h1
              · exact Or.inl ((sp.isSet x).2 h1)
              · exact Or.inr (Or.inl (Or.inl h1))
              · exact Or.inr (Or.inl (Or.inr (Or.inr h1)))
            · exact Or.inr (Or.inl (Or.inr (Or.inl (by rw [sp.after]; omega))))
          have a3 := hb.acc _ (a1.congr aq.errs aq.labels aq.marks)
          intro h0 x hlt
          rw [so.lablen] at hlt
          obtain ⟨hb0, hall⟩ := so.errs.1 h0
          rcases a3 hb0 x hlt with h1 | (h1 | h1 | h1) | ⟨e, he, hex⟩
          · exact Or.inl ((so.isSet x).2 (Or.inr h1))
          · exact Or.inr (Or.inl h1)
          · exact Or.inl ((so.isSet x).2 (Or.inl ⟨h1, by rw [sp.after]; omega⟩))
          · exact Or.inr (Or.inr (hmarks ▸ h1))
          · exact Or.inl ((so.isSet x).2 (Or.inr (hex ▸ hall e he)))
        · intro w
          exact w.congr hlen hmarks
        · intro e he; rw [hmarks]; exact he
        · intro e he; rw [hmarks] at he; exact Or.inl he
      split
      · exact (quiet_fetchVar _ _).step.trans (quiet_value _ _ _ _).step
      split
      · -- LOOP
        have qp := quiet_loopPre gs0
        generalize (loopPre gs0).1 = p1 at qp
        generalize (loopPre gs0).2 = counter
        have qv := quiet_value f p1 l counter
        generalize dispatchValue f p1 l counter = v at qv
        refine (qp.trans qv).step.trans ?_
        have sm := loopMid_spec v counter
        generalize (loopMid v counter).1 = m1 at sm
        generalize (loopMid v counter).2.1 = startL at sm
        generalize (loopMid v counter).2.2 = endL at sm
        have hb := ih m1 r
        generalize dispatchVoid f m1 r = b at hb
        have hs : startL < b.labels.length := by
          have := hb.lablen; rw [sm.lablen] at this; rw [sm.startL]; omega
        have he : endL < b.labels.length := by
          have := hb.lablen; rw [sm.lablen] at this; rw [sm.endL]; omega
        obtain ⟨sc, stodo⟩ := loopPost_spec b counter startL endL hs
        generalize loopPost b counter startL endL = res at sc stodo
        refine ⟨?_, ?_, ?_, ?_, ?_, ?_, ?_, ?_, ?_, ?_⟩
        · intro h; rw [sc.errors] at h; have := hb.errs h; rw [sm.errors] at this; exact this
        · rw [sc.lablen]; have := hb.lablen; rw [sm.lablen] at this; omega
        · rw [sc.name, hb.name, sm.name]
        · rw [sc.argnum, hb.argnum, sm.argnum]
        · rw [sc.outer, hb.outer, sm.outer]
        · intro w h; exact stodo (hb.todoOK (sm.wf w) (sm.todoOK h))
        · intro P a; exact sc.acc he (hb.acc _ (sm.acc a))
        · intro w; exact sc.wf (hb.wf (sm.wf w))
        · intro e h; rw [sc.marks]; exact hb.ext e (sm.marks ▸ h)
        · intro e h
          rw [sc.marks] at h
          rcases hb.new e h with h | h
          · exact Or.inl (sm.marks ▸ h)
          · exact Or.inr (by rw [sm.lablen] at h; omega)
      split
      · -- WHILE
        have sm := whilePre_spec gs0
        generalize (whilePre gs0).1 = p1 at sm
        generalize (whilePre gs0).2.1 = startL at sm
        generalize (whilePre gs0).2.2.1 = endL at sm
        generalize (whilePre gs0).2.2.2 = cond
        have qv := quiet_value f p1 l cond
        generalize dispatchValue f p1 l cond = v at qv
        have qe := quiet_emitBackpatched v (.jmpc endL cond) endL
          (by rw [qv.labels, sm.lablen, sm.endL]; omega) (Or.inr ⟨cond, rfl⟩)
        have qve := qv.trans qe
        generalize v.emitBackpatched (.jmpc endL cond) = m1 at qve
        have hb := ih m1 r
        generalize dispatchVoid f m1 r = b at hb
        have hlen : gs0.labels.length + 2 ≤ b.labels.length := by
          have := hb.lablen; rw [qve.labels, sm.lablen] at this; exact this
        have hs : startL < b.labels.length := by rw [sm.startL]; omega
        have he : endL < b.labels.length := by rw [sm.endL]; omega
        obtain ⟨sc, stodo⟩ := whilePost_spec b startL endL cond hs
        generalize whilePost b startL endL cond = res at sc stodo
        refine ⟨?_, ?_, ?_, ?_, ?_, ?_, ?_, ?_, ?_, ?_⟩
        · intro h; rw [sc.errors] at h; have := qve.errs (hb.errs h); rw [sm.errors] at this; exact this
        · rw [sc.lablen]; omega
        · rw [sc.name, hb.name, qve.name, sm.name]
        · rw [sc.argnum, hb.argnum, qve.argnum, sm.argnum]
        · rw [sc.outer, hb.outer, qve.outer, sm.outer]
        · intro w h; exact stodo (hb.todoOK (qve.wf (sm.wf w)) (qve.todoOK (sm.todoOK h)))
        · intro P a; exact sc.acc he (hb.acc _ (qve.acc (sm.acc a)))
        · intro w; exact sc.wf (hb.wf (qve.wf (sm.wf w)))
        · intro e h; rw [sc.marks]; exact hb.ext e (by rw [qve.marks, sm.marks]; exact h)
        · intro e h
          rw [sc.marks] at h
          rcases hb.new e h with h | h
          · exact Or.inl (by rw [qve.marks, sm.marks] at h; exact h)
          · exact Or.inr (by rw [qve.labels, sm.lablen] at h; omega)
      split
      · exact (mark_spec gs0 l.tok).1
      split
      · exact (goto_spec gs0 l.tok).step
      split
      · have qp := quiet_ifPre gs0
        exact (qp.trans ((quiet_value _ _ _ _).trans (quiet_value _ _ _ _))).step.trans (ifPost_spec _ _ _ _ _).step
      split
      · exact (quiet_emit _ _).step
      · exact (quiet_err _ _).step

end Static
end Theo
