/-
  C07, part 3: one step of the reference machine against the VM, with the sites passed.
-/
import Theo.Proofs.SimEv2

set_option linter.unusedSimpArgs false
set_option linter.unusedSectionVars false

namespace Theo
namespace Sim
open Sem WF

section
variable {src : Source} {p : Program} {V : Valid src p} {tend : Nat → Nat} {c : Cert} {R : PcInfo}

/-- the sites passed during one reference step are its visit, seen with agreeing variables -/
def EvOK (p : Program) (cfg : Config) (L : List (BreakPoint × VM)) : Prop :=
  L.map (fun x => posOfBp x.1) = (stepEvent cfg).toList ∧
  ∀ x ∈ L, StacksAgree' p x.2.data cfg.stack x.2.stack

variable (V tend c R) in
inductive StepResT (cfg : Config) (vm : VM) (cfg' : Config) : Prop where
  | run (vm' : VM) (L : List (BreakPoint × VM)) : cfg'.status = .running →
      (EP p vm L vm' ∨ (vm' = vm ∧ L = [] ∧ cmeasure cfg' < cmeasure cfg)) → EvOK p cfg L →
      MatchT V tend c R cfg' vm' → StepResT cfg vm cfg'
  | halt (vm' : VM) (L : List (BreakPoint × VM)) : cfg'.status = .halted → ES p vm L vm' →
      EvOK p cfg L → vm'.isDone = .ok true → StacksAgree' p vm'.data cfg'.stack vm'.stack →
      StepResT cfg vm cfg'

variable (hc : CertOK p c R) (hV : V.OK) (hT : TValid V tend)
variable {vm : VM} {r : Nat} {a : Act} {as' : List Act} {rest : List Frame} {ip : Nat}
  {env : Env} {ctrs : Ctrs} {k : Kont}

include hc hV hT

/-! ### steps that pass no site -/

theorem t_eval_simple (T : TopCtxT V tend c R vm r a as' rest) (hip : vm.ip = (ip : Int))
    {v : Value} {x : Name} {cs : List ECtx} {focus : Stmts} {n : Nat} (hv : SimpleVal env v n)
    (hfo : FrameOK vm.data a (V.ri r) env ctrs)
    (hat : FrameAtT p (V.env r) (V.G r) (tend r) (Holds vm.data a)
      ⟨r, env, ctrs, focus, k, .eval v x cs⟩ ip 0) :
    StepResT V tend c R ⟨⟨r, env, ctrs, focus, k, .eval v x cs⟩ :: rest, .running⟩ vm
      ⟨⟨r, env, ctrs, focus, k, .ret n x cs⟩ :: rest, .running⟩ := by
  simp only [FrameAtT] at hat
  obtain ⟨live, tgt, pc', pcS, pcE, hcv, hctx, hcl, hss, hk⟩ := hat
  have hle := ctxAt_le hctx
  have hlt := checkValue_lt hcv
  obtain ⟨vm', ts, s1, g1, ip1, p1, hh, hts⟩ :=
    eval_simple_q hc (e := V.env r) rfl T.good T.stk hip hcl hfo hcv hle hv
  refine StepResT.run vm' [] rfl (Or.inl s1) ⟨rfl, fun _ h => nomatch h⟩ ?_
  have hctx' : CtxAt (V.env r) (Holds vm'.data a) cs x live tgt pc' pcS := by
    refine hctx.pres (fun t ht n' hn' => p1.other t n' ?_ hn')
    intro hm
    rcases List.mem_cons.1 hm with rfl | hm
    · exact hctx.not_live ht
    · exact live_not_temp ht hts hm
  refine (T.move g1 p1.stack p1.below).finish ip1 rfl ?_ ?_ (fun ⟨_, _, h⟩ => nomatch h)
  · cases cs with
    | nil =>
      simp only [CtxAt] at hctx
      obtain ⟨_, hrx, _⟩ := hctx
      show FrameOK vm'.data a (V.ri r) (env.set x n) ctrs
      refine hfo.write_named (hV.nodup r T.rle) hrx hh (fun r' w hn hne hw => p1.other r' w ?_ hw)
      intro hm
      rcases List.mem_cons.1 hm with rfl | hm
      · exact hne rfl
      · exact named_not_temp (e := V.env r) hn hts hm
    | cons c1 cs' =>
      simp only [CtxAt] at hctx
      obtain ⟨live', acc, temps, pc1, tgt', pc'', _, htmp, _⟩ := hctx
      show FrameOK vm'.data a (V.ri r) env ctrs
      refine hfo.pres (fun r' w hn hw => p1.other r' w ?_ hw)
      intro hm
      rcases List.mem_cons.1 hm with rfl | hm
      · have := (tempOK_iff.1 htmp).1
        rw [show (V.env r).me.isNamed r' = (V.ri r).isNamed r' from rfl, hn] at this
        cases this
      · exact named_not_temp (e := V.env r) hn hts hm
  · simp only [FrameAtT]
    exact ⟨live, tgt, pcS, pcE, hh, hctx', hcl.mono (by omega) (Nat.le_refl _), hss, hk⟩

theorem t_eval_call_cons (T : TopCtxT V tend c R vm r a as' rest) (hip : vm.ip = (ip : Int))
    {f : Name} {a0 : Value} {as0 : Values} {x : Name} {cs : List ECtx} {focus : Stmts}
    (hfo : FrameOK vm.data a (V.ri r) env ctrs)
    (hat : FrameAtT p (V.env r) (V.G r) (tend r) (Holds vm.data a)
      ⟨r, env, ctrs, focus, k, .eval (.call f (.cons a0 as0)) x cs⟩ ip 0) :
    StepResT V tend c R
      ⟨⟨r, env, ctrs, focus, k, .eval (.call f (.cons a0 as0)) x cs⟩ :: rest, .running⟩ vm
      ⟨⟨r, env, ctrs, focus, k, .eval a0 x (⟨f, [], as0⟩ :: cs)⟩ :: rest, .running⟩ := by
  simp only [FrameAtT] at hat
  obtain ⟨live, tgt, pc', pcS, pcE, hcv, hctx, hcl, hss, hk⟩ := hat
  obtain ⟨temps, pc1, hargs, htail⟩ := checkValue_call hcv
  obtain ⟨t, pca, hcv0, htmp, hargs'⟩ := checkArgs_cons hargs
  refine StepResT.run vm [] rfl (Or.inr ⟨rfl, rfl, ?_⟩) ⟨rfl, fun _ h => nomatch h⟩ ?_
  · simp only [cmeasure, fmeasure, vsize, vssize, csize]
    omega
  · refine T.finish hip rfl hfo ?_ (fun ⟨_, _, h⟩ => nomatch h)
    simp only [FrameAtT]
    refine ⟨live ++ [], t, pca, pcS, pcE, hcv0, ?_, hcl, hss, hk⟩
    simp only [CtxAt]
    exact ⟨live, [], temps, pc1, tgt, pc', rfl, htmp, HoldAll.nil _, hargs', htail, hctx⟩

theorem t_ret_nil (T : TopCtxT V tend c R vm r a as' rest) (hip : vm.ip = (ip : Int))
    {n : Nat} {x : Name} {focus : Stmts}
    (hfo : FrameOK vm.data a (V.ri r) (env.set x n) ctrs)
    (hat : FrameAtT p (V.env r) (V.G r) (tend r) (Holds vm.data a)
      ⟨r, env, ctrs, focus, k, .ret n x []⟩ ip 0) :
    StepResT V tend c R ⟨⟨r, env, ctrs, focus, k, .ret n x []⟩ :: rest, .running⟩ vm
      ⟨⟨r, env.set x n, ctrs, focus, k, .run⟩ :: rest, .running⟩ := by
  simp only [FrameAtT, CtxAt] at hat
  obtain ⟨live, tgt, pcS, pcE, hh, ⟨_, hrx, rfl⟩, _, hss, hk⟩ := hat
  refine StepResT.run vm [] rfl (Or.inr ⟨rfl, rfl, ?_⟩) ⟨rfl, fun _ h => nomatch h⟩ ?_
  · simp only [cmeasure, fmeasure, csize]
    omega
  · refine T.finish hip rfl hfo ?_ (fun ⟨_, _, h⟩ => nomatch h)
    simp only [FrameAtT]
    exact ⟨pcE, hss, hk⟩

theorem t_ret_cons_more (T : TopCtxT V tend c R vm r a as' rest) (hip : vm.ip = (ip : Int))
    {n : Nat} {x : Name} {f : Name} {done : List Nat} {a0 : Value} {as0 : Values}
    {cs' : List ECtx} {focus : Stmts}
    (hfo : FrameOK vm.data a (V.ri r) env ctrs)
    (hat : FrameAtT p (V.env r) (V.G r) (tend r) (Holds vm.data a)
      ⟨r, env, ctrs, focus, k, .ret n x (⟨f, done, .cons a0 as0⟩ :: cs')⟩ ip 0) :
    StepResT V tend c R
      ⟨⟨r, env, ctrs, focus, k, .ret n x (⟨f, done, .cons a0 as0⟩ :: cs')⟩ :: rest, .running⟩ vm
      ⟨⟨r, env, ctrs, focus, k, .eval a0 x (⟨f, done ++ [n], as0⟩ :: cs')⟩ :: rest, .running⟩ := by
  simp only [FrameAtT, CtxAt] at hat
  obtain ⟨live, tgt, pcS, pcE, hh, ⟨live', acc, temps, pc1, tgt', pc', rfl, htmp, hacc, hargs, htail,
    hctx⟩, hcl, hss, hk⟩ := hat
  obtain ⟨t, pca, hcv0, htmp0, hargs'⟩ := checkArgs_cons hargs
  refine StepResT.run vm [] rfl (Or.inr ⟨rfl, rfl, ?_⟩) ⟨rfl, fun _ h => nomatch h⟩ ?_
  · simp only [cmeasure, fmeasure, vsize, vssize, csize]
    omega
  · refine T.finish hip rfl hfo ?_ (fun ⟨_, _, h⟩ => nomatch h)
    simp only [FrameAtT]
    refine ⟨live' ++ (acc ++ [tgt]), t, pca, pcS, pcE, hcv0, ?_, hcl, hss, hk⟩
    simp only [CtxAt]
    exact ⟨live', acc ++ [tgt], temps, pc1, tgt', pc', rfl, htmp0, hacc.snoc hh, hargs', htail, hctx⟩

theorem t_push_call (T : TopCtxT V tend c R vm r a as' rest) {pc1 : Nat} (hip : vm.ip = (pc1 : Int))
    {f : Name} {live temps : List Int} {tgt : Int} {pc' : Nat}
    (hct : CallTail (V.env r) f live temps pc1 tgt pc') {vals : List Nat}
    (hh : HoldAll (Holds vm.data a) temps vals) {x : Name} {cs : List ECtx} {focus : Stmts}
    {pcS pcE : Nat} (hfo : FrameOK vm.data a (V.ri r) env ctrs)
    (hctx : CtxAt (V.env r) (Holds vm.data a) cs x live tgt pc' pcS)
    (hcl : Clean p.code pc1 pcS)
    (hss : TAt p (V.env r) (V.G r) focus pcS pcE) (hk : TKAt p (V.env r) (V.G r) k pcE (tend r))
    (cfg0 : Config) (hev : stepEvent cfg0 = none) :
    StepResT V tend c R cfg0 vm (doCall src ⟨r, env, ctrs, focus, k, .wait x cs⟩ rest f vals) := by
  have hle := ctxAt_le hctx
  have hlt := callTail_lt hct
  obtain ⟨j, pd, hlook, hjr, hpd, hlen, vm', callee, s1, g1, ip1, st1, hra, hrt, hdbg, hsb, hfoc⟩ :=
    do_call_q hc hV T.rle T.good T.stk hip hcl hct hle hh
  have hjn : j < src.progs.length := Nat.lt_of_lt_of_le hjr T.rle
  have hin := T.good.top_in T.stk
  have hdc : doCall src ⟨r, env, ctrs, focus, k, .wait x cs⟩ rest f vals =
      ⟨⟨j, bindParams pd.params vals [], [], pd.body, .done, .run⟩ ::
        ⟨r, env, ctrs, focus, k, .wait x cs⟩ :: rest, .running⟩ := by
    unfold doCall
    simp only [hlook]
    rw [if_pos hlen]
  rw [hdc]
  refine StepResT.run vm' [] rfl (Or.inl s1) ⟨by rw [hev]; rfl, fun _ h => nomatch h⟩
    ⟨g1, rfl, ⟨V.start j, ip1, ?_⟩, ?_⟩
  · rw [st1]
    show StackRelT V tend vm'.data (_ :: _ :: rest) (callee :: a :: as') (V.start j) 0
    rw [stackRelT_cons]
    refine ⟨⟨Nat.le_of_lt hjn, hdbg, hfoc, ?_⟩, ?_⟩
    · simp only [FrameAtT]
      have := hT.body j (Nat.le_of_lt hjn)
      unfold bodyOf at this
      rw [hpd] at this
      exact ⟨tend j, this, by simp only [TKAt]⟩
    · show RestRelT V tend vm'.data j callee (_ :: rest) (a :: as')
      unfold RestRelT
      refine ⟨hjn, ⟨x, cs, rfl⟩, pc', hra, ?_⟩
      rw [stackRelT_cons, hrt]
      refine ⟨⟨T.rle, T.dbg, hfo.below (by omega) hsb, ?_⟩,
        T.restrel.below T.tiles (hsb.mono (by omega))⟩
      simp only [FrameAtT]
      exact ⟨live, pcS, pcE, hctx.mono (fun _ _ h => h.below (by omega) hsb),
        hcl.mono (by omega) (Nat.le_refl _), hss, hk⟩
  · intro fr rest' h
    cases h
    exact fun ⟨_, _, h⟩ => nomatch h

theorem t_eval_call_nil (T : TopCtxT V tend c R vm r a as' rest) (hip : vm.ip = (ip : Int))
    {f : Name} {x : Name} {cs : List ECtx} {focus : Stmts}
    (hfo : FrameOK vm.data a (V.ri r) env ctrs)
    (hat : FrameAtT p (V.env r) (V.G r) (tend r) (Holds vm.data a)
      ⟨r, env, ctrs, focus, k, .eval (.call f .nil) x cs⟩ ip 0) :
    StepResT V tend c R ⟨⟨r, env, ctrs, focus, k, .eval (.call f .nil) x cs⟩ :: rest, .running⟩ vm
      (doCall src ⟨r, env, ctrs, focus, k, .wait x cs⟩ rest f []) := by
  simp only [FrameAtT] at hat
  obtain ⟨live, tgt, pc', pcS, pcE, hcv, hctx, hcl, hss, hk⟩ := hat
  obtain ⟨temps, pc1, hargs, htail⟩ := checkValue_call hcv
  rw [checkArgs_nil] at hargs
  cases hargs
  exact t_push_call hc hV hT T hip htail (HoldAll.nil _) hfo hctx hcl hss hk _ rfl

theorem t_ret_cons_call (T : TopCtxT V tend c R vm r a as' rest) (hip : vm.ip = (ip : Int))
    {n : Nat} {x : Name} {f : Name} {done : List Nat} {cs' : List ECtx} {focus : Stmts}
    (hfo : FrameOK vm.data a (V.ri r) env ctrs)
    (hat : FrameAtT p (V.env r) (V.G r) (tend r) (Holds vm.data a)
      ⟨r, env, ctrs, focus, k, .ret n x (⟨f, done, .nil⟩ :: cs')⟩ ip 0) :
    StepResT V tend c R
      ⟨⟨r, env, ctrs, focus, k, .ret n x (⟨f, done, .nil⟩ :: cs')⟩ :: rest, .running⟩ vm
      (doCall src ⟨r, env, ctrs, focus, k, .wait x cs'⟩ rest f (done ++ [n])) := by
  simp only [FrameAtT, CtxAt] at hat
  obtain ⟨live, tgt, pcS, pcE, hh, ⟨live', acc, temps, pc1, tgt', pc', rfl, htmp, hacc, hargs, htail,
    hctx⟩, hcl, hss, hk⟩ := hat
  rw [checkArgs_nil] at hargs
  cases hargs
  exact t_push_call hc hV hT T hip htail (hacc.snoc hh) hfo hctx hcl hss hk _ rfl

/-! ### visiting a line: the VM passes the site -/

omit hc hV hT in
theorem EP.then_q {a b d : VM} {L : List (BreakPoint × VM)} (h1 : EP p a L b) (h2 : QS p b d) :
    EP p a L d := by
  have := h1.trans_es h2
  rwa [List.append_nil] at this

omit hc hT in
theorem agree_here (T : TopCtxT V tend c R vm r a as' rest) {fr : Frame} (hr : fr.routine = r)
    (he : effEnv fr = fr.env) (hfo : FrameOK vm.data a (V.ri r) (effEnv fr) fr.ctrs)
    (hat : FrameAtT p (V.env r) (V.G r) (tend r) (Holds vm.data a) fr ip 0) :
    StacksAgree' p vm.data (fr :: rest) vm.stack := by
  rw [T.stk]
  subst hr
  have hrel : StackRelT V tend vm.data (fr :: rest) (a :: as') ip 0 :=
    stackRelT_cons.2 ⟨⟨T.rle, T.dbg, hfo, hat⟩, T.restrel⟩
  exact hrel.agrees hV (fun fr' rest' h => by cases h; exact he)

omit hV hT in
theorem visit (T : TopCtxT V tend c R vm r a as' rest) (hip : vm.ip = (ip : Int)) {pos : Pos}
    (hs : SiteAt p ip pos) :
    ∃ bp vm1, EP p vm [(bp, vm1)] vm1 ∧ posOfBp bp = pos ∧ TopCtxT V tend c R vm1 r a as' rest ∧
      vm1.ip = ((ip + 1 : Nat) : Int) ∧ vm1.data = vm.data ∧ vm1.stack = vm.stack := by
  obtain ⟨h1, h2⟩ := hs
  cases hl : p.lineAt (ip : Int) with
  | none => rw [hl] at h2; cases h2
  | some bp =>
    rw [hl] at h2
    simp only [Option.map_some, Option.some.injEq] at h2
    obtain ⟨vm1, e1, g1, ip1, st1, d1⟩ := q_site hc T.good hip h1 hl
    exact ⟨bp, vm1, e1, h2, T.move g1 st1 (by rw [d1]; exact SameBelow.refl _ _), ip1, d1, st1⟩

/-- common frame of the statement cases: after the visit, the statement's first micro-steps run
    quietly from `vm1` to a matched state -/
theorem after_visit (T : TopCtxT V tend c R vm r a as' rest) (hip : vm.ip = (ip : Int))
    {fr : Frame} (hr : fr.routine = r) (he : effEnv fr = fr.env)
    (hfo : FrameOK vm.data a (V.ri r) (effEnv fr) fr.ctrs)
    (hat : FrameAtT p (V.env r) (V.G r) (tend r) (Holds vm.data a) fr ip 0)
    (hev : stepEvent ⟨fr :: rest, .running⟩ = some fr.focus.headPos.get!)
    {pos : Pos} (hpos : fr.focus.headPos.get! = pos) (hs : SiteAt p ip pos) {cfg' : Config}
    (hrun : cfg'.status = .running)
    (hpost : ∀ vm1, TopCtxT V tend c R vm1 r a as' rest → vm1.ip = ((ip + 1 : Nat) : Int) →
      vm1.data = vm.data → ∃ vm', QS p vm1 vm' ∧ MatchT V tend c R cfg' vm') :
    StepResT V tend c R ⟨fr :: rest, .running⟩ vm cfg' := by
  obtain ⟨bp, vm1, e1, hbp, T1, ip1, d1, st1⟩ := visit hc T hip hs
  obtain ⟨vm', q, hm⟩ := hpost vm1 T1 ip1 d1
  refine StepResT.run vm' [(bp, vm1)] hrun (Or.inl (e1.then_q q)) ⟨?_, ?_⟩ hm
  · rw [hev, hpos]
    simp [hbp]
  · intro x hx
    rw [List.mem_singleton] at hx
    subst hx
    show StacksAgree' p vm1.data _ vm1.stack
    rw [d1, st1]
    exact agree_here hV T hr he hfo hat

theorem t_assign (T : TopCtxT V tend c R vm r a as' rest) (hip : vm.ip = (ip : Int))
    {x : Name} {v : Value} {pos : Pos} {ss : Stmts}
    (hfo : FrameOK vm.data a (V.ri r) env ctrs)
    (hat : FrameAtT p (V.env r) (V.G r) (tend r) (Holds vm.data a)
      ⟨r, env, ctrs, .cons (.assign x v pos) ss, k, .run⟩ ip 0) :
    StepResT V tend c R ⟨⟨r, env, ctrs, .cons (.assign x v pos) ss, k, .run⟩ :: rest, .running⟩ vm
      ⟨⟨r, env, ctrs, ss, k, .eval v x []⟩ :: rest, .running⟩ := by
  have hat0 := hat
  simp only [FrameAtT, TAt, TAt1] at hat
  obtain ⟨pcE, ⟨hsite, pc1, ⟨rx, hrx, hcv, hcl⟩, hss⟩, hk⟩ := hat
  refine after_visit hc hV hT T hip (fr := ⟨r, env, ctrs, .cons (.assign x v pos) ss, k, .run⟩) rfl rfl hfo hat0 rfl rfl hsite rfl ?_
  intro vm1 T1 ip1 d1
  refine ⟨vm1, ES.refl _ _, T1.finish ip1 rfl (by rw [d1]; exact hfo) ?_
    (fun ⟨_, _, h⟩ => nomatch h)⟩
  simp only [FrameAtT]
  exact ⟨[], rx, pc1, pc1, pcE, hcv, ⟨rfl, hrx, rfl⟩, hcl, hss, hk⟩

theorem t_loop (T : TopCtxT V tend c R vm r a as' rest) (hip : vm.ip = (ip : Int))
    {id : Nat} {x : Name} {body : Stmts} {pos : Pos} {ss : Stmts}
    (hfo : FrameOK vm.data a (V.ri r) env ctrs)
    (hat : FrameAtT p (V.env r) (V.G r) (tend r) (Holds vm.data a)
      ⟨r, env, ctrs, .cons (.loop id x body pos) ss, k, .run⟩ ip 0) :
    StepResT V tend c R ⟨⟨r, env, ctrs, .cons (.loop id x body pos) ss, k, .run⟩ :: rest, .running⟩ vm
      (if env.get x ≠ 0 then
        ⟨⟨r, env, ctrs.set id (env.get x), body, .loop id body ss k, .run⟩ :: rest, .running⟩
       else ⟨⟨r, env, ctrs.set id (env.get x), ss, k, .run⟩ :: rest, .running⟩) := by
  have hat0 := hat
  simp only [FrameAtT, TAt, TAt1] at hat
  obtain ⟨pcE, ⟨hsite, pc1, ⟨ctr, rx, offE, offL, pcB, hctr, hrx, h1, h2, hbody, h3, h4, hL, hE, rfl⟩,
    hss⟩, hk⟩ := hat
  refine after_visit hc hV hT T hip (fr := ⟨r, env, ctrs, .cons (.loop id x body pos) ss, k, .run⟩) rfl rfl hfo hat0 rfl rfl hsite (by split <;> rfl) ?_
  intro vm1 T1 ip1 d1
  have hfo1 : FrameOK vm1.data a (V.ri r) env ctrs := by rw [d1]; exact hfo
  have hx := hfo1.reg hrx
  obtain ⟨_, _, vm2, s2, g2, ip2, p2, hh2⟩ :=
    q_add hc T1.good T1.stk ip1 h1 hx (clamp_zero hx.2.2.2) hx.2.2.2
  have st2 := p2.stack.trans T1.stk
  obtain ⟨vm3, s3, g3, ip3, st3, d3⟩ := q_jmpc hc g2 st2 ip2 h2 hh2
  have hfo3 : FrameOK vm3.data a (V.ri r) env (ctrs.set id (env.get x)) := by
    rw [d3]
    exact hfo1.write_ctr (hV.nodup r T.rle) hctr hh2
      (fun r' w _ hne hw => p2.other r' w (by simp [hne]) hw)
  have T3 := T1.move g3 (st3.trans p2.stack) (by rw [d3]; exact p2.below)
  refine ⟨vm3, (s2.trans s3).es, ?_⟩
  by_cases hn : env.get x ≠ 0
  · rw [if_pos hn]
    rw [if_neg hn] at ip3
    refine T3.finish (ip' := ip + 3) (by rw [ip3]) rfl hfo3 ?_ (fun ⟨_, _, h⟩ => nomatch h)
    simp only [FrameAtT, TKAt]
    exact ⟨pcB, hbody, ctr, offE, offL, ip + 2, pcE, hctr, h2, hbody, h3, h4, hL, hE, hss, hk⟩
  · rw [if_neg hn]
    have hn0 : env.get x = 0 := by omega
    rw [if_pos hn0] at ip3
    refine T3.finish (ip' := pcB + 2) (by rw [ip3]; exact hE) rfl hfo3 ?_
      (fun ⟨_, _, h⟩ => nomatch h)
    simp only [FrameAtT]
    exact ⟨pcE, hss, hk⟩

theorem t_while (T : TopCtxT V tend c R vm r a as' rest) (hip : vm.ip = (ip : Int))
    {x : Name} {body : Stmts} {pos : Pos} {ss : Stmts}
    (hfo : FrameOK vm.data a (V.ri r) env ctrs)
    (hat : FrameAtT p (V.env r) (V.G r) (tend r) (Holds vm.data a)
      ⟨r, env, ctrs, .cons (.while_ x body pos) ss, k, .run⟩ ip 0) :
    StepResT V tend c R ⟨⟨r, env, ctrs, .cons (.while_ x body pos) ss, k, .run⟩ :: rest, .running⟩ vm
      (if env.get x ≠ 0 then
        ⟨⟨r, env, ctrs, body, .while_ x body ss k, .run⟩ :: rest, .running⟩
       else ⟨⟨r, env, ctrs, ss, k, .run⟩ :: rest, .running⟩) := by
  have hat0 := hat
  simp only [FrameAtT, TAt, TAt1] at hat
  obtain ⟨pcE, ⟨hsite, pc1, ⟨rx, tmp, offE, offL, pcB, hrx, htmp, h1, h2, hbody, h3, hL, hE, rfl⟩,
    hss⟩, hk⟩ := hat
  refine after_visit hc hV hT T hip (fr := ⟨r, env, ctrs, .cons (.while_ x body pos) ss, k, .run⟩) rfl rfl hfo hat0 rfl rfl hsite (by split <;> rfl) ?_
  intro vm1 T1 ip1 d1
  have hfo1 : FrameOK vm1.data a (V.ri r) env ctrs := by rw [d1]; exact hfo
  have hx := hfo1.reg hrx
  obtain ⟨_, _, vm2, s2, g2, ip2, p2, hh2⟩ :=
    q_add hc T1.good T1.stk ip1 h1 hx (clamp_zero hx.2.2.2) hx.2.2.2
  have st2 := p2.stack.trans T1.stk
  obtain ⟨vm3, s3, g3, ip3, st3, d3⟩ := q_jmpc hc g2 st2 ip2 h2 hh2
  have hfo3 : FrameOK vm3.data a (V.ri r) env ctrs := by
    rw [d3]
    refine hfo1.pres (fun r' w hn hw => p2.other r' w ?_ hw)
    intro hm
    rw [List.mem_singleton] at hm
    subst hm
    rw [show (V.env r).me.isNamed r' = (V.ri r).isNamed r' from rfl, hn] at htmp
    cases htmp
  have T3 := T1.move g3 (st3.trans p2.stack) (by rw [d3]; exact p2.below)
  refine ⟨vm3, (s2.trans s3).es, ?_⟩
  by_cases hn : env.get x ≠ 0
  · rw [if_pos hn]
    rw [if_neg hn] at ip3
    refine T3.finish (ip' := ip + 3) (by rw [ip3]) rfl hfo3 ?_ (fun ⟨_, _, h⟩ => nomatch h)
    simp only [FrameAtT, TKAt]
    exact ⟨pcB, hbody, rx, tmp, offE, offL, ip + 1, pcE, hrx, htmp, h1, h2, hbody, h3, hL, hE, hss, hk⟩
  · rw [if_neg hn]
    have hn0 : env.get x = 0 := by omega
    rw [if_pos hn0] at ip3
    refine T3.finish (ip' := pcB + 1) (by rw [ip3]; exact hE) rfl hfo3 ?_
      (fun ⟨_, _, h⟩ => nomatch h)
    simp only [FrameAtT]
    exact ⟨pcE, hss, hk⟩

theorem t_goto (T : TopCtxT V tend c R vm r a as' rest) (hip : vm.ip = (ip : Int))
    {m : Name} {pos : Pos} {ss : Stmts}
    (hfo : FrameOK vm.data a (V.ri r) env ctrs)
    (hat : FrameAtT p (V.env r) (V.G r) (tend r) (Holds vm.data a)
      ⟨r, env, ctrs, .cons (.goto m pos) ss, k, .run⟩ ip 0) :
    StepResT V tend c R ⟨⟨r, env, ctrs, .cons (.goto m pos) ss, k, .run⟩ :: rest, .running⟩ vm
      (match findLabel m (bodyOf src r) .done with
       | some (f, k2) => ⟨⟨r, env, ctrs, f, k2, .run⟩ :: rest, .running⟩
       | none => ⟨⟨r, env, ctrs, .cons (.goto m pos) ss, k, .run⟩ :: rest, .stuck⟩) := by
  have hat0 := hat
  simp only [FrameAtT, TAt, TAt1] at hat
  obtain ⟨pcE, ⟨hsite, pc1, ⟨off, h1, hg, rfl⟩, hss⟩, hk⟩ := hat
  obtain ⟨ss', K', pcE', hfl, tg, htg, hs', hk'⟩ := hT.res r T.rle _ _ _ hg
  rw [hfl]
  refine after_visit hc hV hT T hip (fr := ⟨r, env, ctrs, .cons (.goto m pos) ss, k, .run⟩) rfl rfl hfo hat0 rfl rfl hsite rfl ?_
  intro vm1 T1 ip1 d1
  obtain ⟨vm2, s2, g2, ip2, st2, d2⟩ := q_jmp hc T1.good ip1 h1
  have T2 := T1.move g2 st2 (by rw [d2]; exact SameBelow.refl _ _)
  refine ⟨vm2, s2.es, T2.finish (ip' := tg) (by rw [ip2]; exact htg) rfl
    (by rw [d2, d1]; exact hfo) ?_ (fun ⟨_, _, h⟩ => nomatch h)⟩
  simp only [FrameAtT]
  exact ⟨pcE', hs', hk'⟩

theorem t_ifGoto (T : TopCtxT V tend c R vm r a as' rest) (hip : vm.ip = (ip : Int))
    {x : Name} {cst : Nat} {m : Name} {pos : Pos} {ss : Stmts}
    (hfo : FrameOK vm.data a (V.ri r) env ctrs)
    (hat : FrameAtT p (V.env r) (V.G r) (tend r) (Holds vm.data a)
      ⟨r, env, ctrs, .cons (.ifGoto x cst m pos) ss, k, .run⟩ ip 0) :
    StepResT V tend c R
      ⟨⟨r, env, ctrs, .cons (.ifGoto x cst m pos) ss, k, .run⟩ :: rest, .running⟩ vm
      (if env.get x = cst then
        (match findLabel m (bodyOf src r) .done with
         | some (f, k2) => ⟨⟨r, env, ctrs, f, k2, .run⟩ :: rest, .running⟩
         | none => ⟨⟨r, env, ctrs, .cons (.ifGoto x cst m pos) ss, k, .run⟩ :: rest, .stuck⟩)
       else ⟨⟨r, env, ctrs, ss, k, .run⟩ :: rest, .running⟩) := by
  have hat0 := hat
  simp only [FrameAtT, TAt, TAt1] at hat
  obtain ⟨pcE, ⟨hsite, pc1, ⟨rx, t1, t2, t0, off, hrx, h1, hn1, h2, hn2, hne, hlt, h3, hn0, h4, hg,
    rfl⟩, hss⟩, hk⟩ := hat
  obtain ⟨ss', K', pcE', hfl, tg, htg, hs', hk'⟩ := hT.res r T.rle _ _ _ hg
  rw [hfl]
  refine after_visit hc hV hT T hip (fr := ⟨r, env, ctrs, .cons (.ifGoto x cst m pos) ss, k, .run⟩) rfl rfl hfo hat0 rfl rfl hsite (by split <;> rfl) ?_
  intro vm1 T1 ip1 d1
  have hfo1 : FrameOK vm1.data a (V.ri r) env ctrs := by rw [d1]; exact hfo
  have hx := hfo1.reg hrx
  obtain ⟨_, _, vm2, s2, g2, ip2, p2, hh2⟩ :=
    q_add hc T1.good T1.stk ip1 h1 hx (clamp_zero hx.2.2.2) hx.2.2.2
  have st2 := p2.stack.trans T1.stk
  obtain ⟨_, _, vm3, s3, g3, ip3, p3, hh3⟩ := q_const hc g2 st2 ip2 h2
  have hh3 := hh3 cst rfl (Nat.le_of_lt hlt)
  have st3 := p3.stack.trans st2
  have hh2' : Holds vm3.data a t1 (env.get x) :=
    p3.other _ _ (by simp; exact fun h => hne h.symm) hh2
  obtain ⟨_, _, vm4, s4, g4, ip4, p4, hh4⟩ := q_test hc g3 st3 ip3 h3 hh2' hh3
  have st4 := p4.stack.trans st3
  obtain ⟨vm5, s5, g5, ip5, st5, d5⟩ := q_jmpc hc g4 st4 ip4 h4 hh4
  have pall := (p2.trans p3).trans p4
  have hfo5 : FrameOK vm5.data a (V.ri r) env ctrs := by
    rw [d5]
    refine hfo1.pres (fun r' w hn hw => pall.other r' w ?_ hw)
    intro hm
    have hnn : (V.env r).me.isNamed r' = true := hn
    simp only [List.mem_append, List.mem_singleton] at hm
    rcases hm with (rfl | rfl) | rfl
    · rw [hnn] at hn1; cases hn1
    · rw [hnn] at hn2; cases hn2
    · rw [hnn] at hn0; cases hn0
  have T5 := T1.move g5 (st5.trans pall.stack) (by rw [d5]; exact pall.below)
  refine ⟨vm5, (((s2.trans s3).trans s4).trans s5).es, ?_⟩
  by_cases hn : env.get x = cst
  · rw [if_pos hn]
    rw [if_pos hn, if_pos rfl] at ip5
    refine T5.finish (ip' := tg) (by rw [ip5]; exact htg) rfl hfo5 ?_ (fun ⟨_, _, h⟩ => nomatch h)
    simp only [FrameAtT]
    exact ⟨pcE', hs', hk'⟩
  · rw [if_neg hn]
    rw [if_neg hn, if_neg (by omega)] at ip5
    refine T5.finish (ip' := ip + 5) (by rw [ip5]) rfl hfo5 ?_ (fun ⟨_, _, h⟩ => nomatch h)
    simp only [FrameAtT]
    exact ⟨pcE, hss, hk⟩

theorem t_stop (T : TopCtxT V tend c R vm r a as' rest) (hip : vm.ip = (ip : Int))
    {pos : Pos} {ss : Stmts}
    (hfo : FrameOK vm.data a (V.ri r) env ctrs)
    (hat : FrameAtT p (V.env r) (V.G r) (tend r) (Holds vm.data a)
      ⟨r, env, ctrs, .cons (.stop pos) ss, k, .run⟩ ip 0) :
    StepResT V tend c R ⟨⟨r, env, ctrs, .cons (.stop pos) ss, k, .run⟩ :: rest, .running⟩ vm
      ⟨⟨r, env, ctrs, .cons (.stop pos) ss, k, .run⟩ :: rest, .halted⟩ := by
  have hat0 := hat
  simp only [FrameAtT, TAt, TAt1] at hat
  obtain ⟨pcE, ⟨hsite, pc1, ⟨h1, _⟩, _⟩, _⟩ := hat
  obtain ⟨bp, vm1, e1, hbp, T1, ip1, d1, st1⟩ := visit hc T hip hsite
  have hag := agree_here hV T (fr := ⟨r, env, ctrs, .cons (.stop pos) ss, k, .run⟩) rfl rfl hfo hat0
  refine StepResT.halt vm1 [(bp, vm1)] rfl e1.es ⟨?_, ?_⟩ ?_ ?_
  · show [posOfBp bp] = [pos]
    rw [hbp]
    rfl
  · intro x hx
    rw [List.mem_singleton] at hx
    subst hx
    show StacksAgree' p vm1.data _ vm1.stack
    rw [d1, st1]
    exact hag
  · rw [isDone_of_fetch (T1.good.fetch ip1 h1)]
    rfl
  · rw [d1, st1]
    exact hag

theorem t_mark (T : TopCtxT V tend c R vm r a as' rest) (hip : vm.ip = (ip : Int))
    {m : Name} {pos : Pos} {ss : Stmts}
    (hfo : FrameOK vm.data a (V.ri r) env ctrs)
    (hat : FrameAtT p (V.env r) (V.G r) (tend r) (Holds vm.data a)
      ⟨r, env, ctrs, .cons (.mark m pos) ss, k, .run⟩ ip 0) :
    StepResT V tend c R ⟨⟨r, env, ctrs, .cons (.mark m pos) ss, k, .run⟩ :: rest, .running⟩ vm
      ⟨⟨r, env, ctrs, ss, k, .run⟩ :: rest, .running⟩ := by
  have hat0 := hat
  simp only [FrameAtT, TAt, TAt1] at hat
  obtain ⟨pcE, ⟨hsite, pc1, rfl, hss⟩, hk⟩ := hat
  by_cases hsh : ss.headPos = some pos
  · rw [if_pos hsh] at hss
    refine StepResT.run vm [] rfl (Or.inr ⟨rfl, rfl, ?_⟩) ⟨?_, fun _ h => nomatch h⟩ ?_
    · simp only [cmeasure, fmeasure, fsize, ssize1]
      omega
    · show [] = (if ss.headPos = some pos then none else some pos).toList
      rw [if_pos hsh]
      rfl
    · refine T.finish hip rfl hfo ?_ (fun ⟨_, _, h⟩ => nomatch h)
      simp only [FrameAtT]
      exact ⟨pcE, hss, hk⟩
  · rw [if_neg hsh] at hss
    obtain ⟨bp, vm1, e1, hbp, T1, ip1, d1, st1⟩ := visit hc T hip hsite
    have hag := agree_here hV T (fr := ⟨r, env, ctrs, .cons (.mark m pos) ss, k, .run⟩) rfl rfl hfo
      hat0
    refine StepResT.run vm1 [(bp, vm1)] rfl (Or.inl e1) ⟨?_, ?_⟩ ?_
    · show [posOfBp bp] = (if ss.headPos = some pos then none else some pos).toList
      rw [if_neg hsh, hbp]
      rfl
    · intro x hx
      rw [List.mem_singleton] at hx
      subst hx
      show StacksAgree' p vm1.data _ vm1.stack
      rw [d1, st1]
      exact hag
    · refine T1.finish ip1 rfl (by rw [d1]; exact hfo) ?_ (fun ⟨_, _, h⟩ => nomatch h)
      simp only [FrameAtT]
      exact ⟨pcE, hss, hk⟩

theorem t_end_loop (T : TopCtxT V tend c R vm r a as' rest) (hip : vm.ip = (ip : Int))
    {id : Nat} {body ss : Stmts} {k' : Kont}
    (hfo : FrameOK vm.data a (V.ri r) env ctrs)
    (hat : FrameAtT p (V.env r) (V.G r) (tend r) (Holds vm.data a)
      ⟨r, env, ctrs, .nil, .loop id body ss k', .run⟩ ip 0) :
    StepResT V tend c R ⟨⟨r, env, ctrs, .nil, .loop id body ss k', .run⟩ :: rest, .running⟩ vm
      (if ctrs.get id - 1 ≠ 0 then
        ⟨⟨r, env, ctrs.set id (ctrs.get id - 1), body, .loop id body ss k', .run⟩ :: rest, .running⟩
       else ⟨⟨r, env, ctrs.set id (ctrs.get id - 1), ss, k', .run⟩ :: rest, .running⟩) := by
  simp only [FrameAtT, TAt, TKAt] at hat
  obtain ⟨_, rfl, ctr, offE, offL, pJ, pcR, hctr, hJ, hbody, h3, h4, hL, hE, hss, hk⟩ := hat
  have hc0 := hfo.2 id ctr hctr
  obtain ⟨_, _, vm1, s1, g1, ip1, p1, hh1⟩ :=
    q_add hc T.good T.stk hip h3 hc0 (clamp_pred hc0.2.2.2)
      (Nat.le_trans (Nat.sub_le _ _) hc0.2.2.2)
  have st1 := p1.stack.trans T.stk
  obtain ⟨vm2, s2, g2, ip2, st2, d2⟩ := q_jmp hc g1 ip1 h4
  have hh2 : Holds vm2.data a ctr (ctrs.get id - 1) := by rw [d2]; exact hh1
  obtain ⟨vm3, s3, g3, ip3, st3, d3⟩ :=
    q_jmpc hc g2 (st2.trans st1) (by rw [ip2]; exact hL) hJ hh2
  have hfo3 : FrameOK vm3.data a (V.ri r) env (ctrs.set id (ctrs.get id - 1)) := by
    rw [d3, d2]
    exact hfo.write_ctr (hV.nodup r T.rle) hctr hh1
      (fun r' w _ hne hw => p1.other r' w (by simp [hne]) hw)
  have T3 := T.move g3 ((st3.trans st2).trans p1.stack) (by rw [d3, d2]; exact p1.below)
  have sall : QP p vm vm3 := (s1.trans s2).trans s3
  by_cases hn : ctrs.get id - 1 ≠ 0
  · rw [if_pos hn]
    rw [if_neg hn] at ip3
    refine StepResT.run vm3 [] (by rfl) (Or.inl sall) ⟨rfl, fun _ h => nomatch h⟩ ?_
    refine T3.finish (ip' := pJ + 1) ip3 rfl hfo3 ?_ (fun ⟨_, _, h⟩ => nomatch h)
    simp only [FrameAtT, TKAt]
    exact ⟨ip, hbody, ctr, offE, offL, pJ, pcR, hctr, hJ, hbody, h3, h4, hL, hE, hss, hk⟩
  · rw [if_neg hn]
    have hn0 : ctrs.get id - 1 = 0 := by omega
    rw [if_pos hn0] at ip3
    refine StepResT.run vm3 [] (by rfl) (Or.inl sall) ⟨rfl, fun _ h => nomatch h⟩ ?_
    refine T3.finish (ip' := ip + 2) (by rw [ip3]; exact hE) rfl hfo3 ?_
      (fun ⟨_, _, h⟩ => nomatch h)
    simp only [FrameAtT]
    exact ⟨pcR, hss, hk⟩

theorem t_end_while (T : TopCtxT V tend c R vm r a as' rest) (hip : vm.ip = (ip : Int))
    {x : Name} {body ss : Stmts} {k' : Kont}
    (hfo : FrameOK vm.data a (V.ri r) env ctrs)
    (hat : FrameAtT p (V.env r) (V.G r) (tend r) (Holds vm.data a)
      ⟨r, env, ctrs, .nil, .while_ x body ss k', .run⟩ ip 0) :
    StepResT V tend c R ⟨⟨r, env, ctrs, .nil, .while_ x body ss k', .run⟩ :: rest, .running⟩ vm
      (if env.get x ≠ 0 then
        ⟨⟨r, env, ctrs, body, .while_ x body ss k', .run⟩ :: rest, .running⟩
       else ⟨⟨r, env, ctrs, ss, k', .run⟩ :: rest, .running⟩) := by
  simp only [FrameAtT, TAt, TKAt] at hat
  obtain ⟨_, rfl, rx, tmp, offE, offL, pL, pcR, hrx, htmp, h1, h2, hbody, h3, hL, hE, hss, hk⟩ :=
    hat
  obtain ⟨vm0, s0, g0, ip0, st0, d0⟩ := q_jmp hc T.good hip h3
  have hx : Holds vm0.data a rx (env.get x) := by rw [d0]; exact hfo.reg hrx
  obtain ⟨_, _, vm1, s1, g1, ip1, p1, hh1⟩ :=
    q_add hc g0 (st0.trans T.stk) (by rw [ip0]; exact hL) h1 hx (clamp_zero hx.2.2.2) hx.2.2.2
  have st1 := (p1.stack.trans st0).trans T.stk
  obtain ⟨vm2, s2, g2, ip2, st2, d2⟩ := q_jmpc hc g1 st1 ip1 h2 hh1
  have hfo2 : FrameOK vm2.data a (V.ri r) env ctrs := by
    rw [d2]
    refine hfo.pres (fun r' w hn hw => p1.other r' w ?_ (by rw [d0]; exact hw))
    intro hm
    rw [List.mem_singleton] at hm
    subst hm
    rw [show (V.env r).me.isNamed r' = (V.ri r).isNamed r' from rfl, hn] at htmp
    cases htmp
  have hsb : SameBelow a.dataStart vm.data vm2.data := by
    rw [d2]; have := p1.below; rw [d0] at this; exact this
  have T2 := T.move g2 ((st2.trans p1.stack).trans st0) hsb
  have sall : QP p vm vm2 := (s0.trans s1).trans s2
  by_cases hn : env.get x ≠ 0
  · rw [if_pos hn]
    rw [if_neg hn] at ip2
    refine StepResT.run vm2 [] (by rfl) (Or.inl sall) ⟨rfl, fun _ h => nomatch h⟩ ?_
    refine T2.finish (ip' := pL + 2) (by rw [ip2]) rfl hfo2 ?_ (fun ⟨_, _, h⟩ => nomatch h)
    simp only [FrameAtT, TKAt]
    exact ⟨ip, hbody, rx, tmp, offE, offL, pL, pcR, hrx, htmp, h1, h2, hbody, h3, hL, hE, hss, hk⟩
  · rw [if_neg hn]
    have hn0 : env.get x = 0 := by omega
    rw [if_pos hn0] at ip2
    refine StepResT.run vm2 [] (by rfl) (Or.inl sall) ⟨rfl, fun _ h => nomatch h⟩ ?_
    refine T2.finish (ip' := ip + 1) (by rw [ip2]; exact hE) rfl hfo2 ?_
      (fun ⟨_, _, h⟩ => nomatch h)
    simp only [FrameAtT]
    exact ⟨pcR, hss, hk⟩

theorem t_end_root (T : TopCtxT V tend c R vm r a as' []) (hip : vm.ip = (ip : Int))
    (hfo : FrameOK vm.data a (V.ri r) env ctrs)
    (hat : FrameAtT p (V.env r) (V.G r) (tend r) (Holds vm.data a)
      ⟨r, env, ctrs, .nil, .done, .run⟩ ip 0) :
    StepResT V tend c R ⟨[⟨r, env, ctrs, .nil, .done, .run⟩], .running⟩ vm
      ⟨[⟨r, env, ctrs, .nil, .done, .run⟩], .halted⟩ := by
  have hat' := hat
  simp only [FrameAtT, TAt, TKAt] at hat'
  obtain ⟨_, rfl, hpe⟩ := hat'
  have hr : r = src.progs.length := T.restrel.2
  have hh : p.code[ip]? = some .halt := by rw [hpe, hr]; exact hT.halt
  refine StepResT.halt vm [] rfl (ES.refl _ _) ⟨rfl, fun _ h => nomatch h⟩ ?_ ?_
  · rw [isDone_of_fetch (T.good.fetch hip hh)]
    rfl
  · exact agree_here hV T (fr := ⟨r, env, ctrs, .nil, .done, .run⟩) rfl rfl hfo hat

theorem t_end_ret {r2 : Nat} {env2 : Env} {ctrs2 : Ctrs} {focus2 : Stmts} {k2 : Kont} {x : Name}
    {cs : List ECtx} {rest' : List Frame}
    (T : TopCtxT V tend c R vm r a as'
      (⟨r2, env2, ctrs2, focus2, k2, .wait x cs⟩ :: rest')) (hip : vm.ip = (ip : Int))
    (hfo : FrameOK vm.data a (V.ri r) env ctrs)
    (hat : FrameAtT p (V.env r) (V.G r) (tend r) (Holds vm.data a)
      ⟨r, env, ctrs, .nil, .done, .run⟩ ip 0) :
    StepResT V tend c R
      ⟨⟨r, env, ctrs, .nil, .done, .run⟩ :: ⟨r2, env2, ctrs2, focus2, k2, .wait x cs⟩ :: rest',
        .running⟩ vm
      ⟨⟨r2, env2, ctrs2, focus2, k2,
          .ret (env.get (match src.progs[r]? with | some pd => pd.out | none => [])) x cs⟩ :: rest',
        .running⟩ := by
  simp only [FrameAtT, TAt, TKAt] at hat
  obtain ⟨_, rfl, hpe⟩ := hat
  obtain ⟨hrn, _, ip2, hra, hrel2⟩ := T.restrel
  obtain ⟨b, as'', rfl, ⟨hr2, hdbg2, hfo2, hat2⟩, hrest2⟩ := stackRelT_inv hrel2
  obtain ⟨pd, ro, hpd, hret, hro⟩ := hT.ret r hrn
  simp only [hpd]
  rw [hpe] at hip
  obtain ⟨_, _, hrt0, hrt1, v, hv, vm2, s2, g2, ipr, st2, d2⟩ := x_ret hc T.good T.stk hip hret
  have q2 := quiet1 T.good hip hret (by simp) (by simp) s2
  have hout := hfo.reg hro
  rw [hout.2.2.1] at hv
  cases hv
  have htl := T.good.tiles
  rw [T.stk] at htl
  obtain ⟨_, hsum, _, hsum2, htl2⟩ := htl
  simp only [FrameAtT] at hat2
  obtain ⟨live, pcS, pcE2, hctx, hcl2, hss2, hk2⟩ := hat2
  have hsame : Holds vm2.data b a.retTarget (env.get pd.out) := by
    rw [d2]; exact Holds.ret_same hrt0 hrt1 (by omega) (by omega) hout.2.2.2
  have hother : ∀ r' w, r' ≠ a.retTarget → Holds vm.data b r' w → Holds vm2.data b r' w := by
    intro r' w hne hw
    rw [d2]; exact Holds.ret_other _ hw hne hrt0 (by omega)
  have hsb : SameBelow b.dataStart vm.data vm2.data := by
    rw [d2]
    exact (SameBelow.set _ _ (by omega)).trans (SameBelow.take _ (by omega))
  refine StepResT.run vm2 [] rfl (Or.inl q2) ⟨rfl, fun _ h => nomatch h⟩
    ⟨g2, rfl, ⟨ip2, by rw [ipr, hra], ?_⟩, ?_⟩
  · rw [st2]
    show StackRelT V tend vm2.data (_ :: rest') (b :: as'') ip2 0
    rw [stackRelT_cons]
    refine ⟨⟨hr2, hdbg2, ?_, ?_⟩, hrest2.below htl2 hsb⟩
    · cases cs with
      | nil =>
        simp only [CtxAt] at hctx
        obtain ⟨_, hrx, _⟩ := hctx
        show FrameOK vm2.data b (V.ri r2) (env2.set x (env.get pd.out)) ctrs2
        exact FrameOK.write_named hfo2 (hV.nodup r2 hr2) hrx hsame
          (fun r' w _ hne hw => hother r' w hne hw)
      | cons c1 cs' =>
        simp only [CtxAt] at hctx
        obtain ⟨live', acc, temps, pc1, tgt', pc'', _, htmp, _⟩ := hctx
        show FrameOK vm2.data b (V.ri r2) env2 ctrs2
        refine FrameOK.pres hfo2 (fun r' w hn hw => hother r' w ?_ hw)
        intro hm
        subst hm
        have := (tempOK_iff.1 htmp).1
        rw [show (V.env r2).me.isNamed a.retTarget = (V.ri r2).isNamed a.retTarget from rfl, hn] at this
        cases this
    · simp only [FrameAtT]
      refine ⟨live, a.retTarget, pcS, pcE2, hsame, ?_, hcl2, hss2, hk2⟩
      refine hctx.pres (fun t ht n' hn' => hother t n' ?_ hn')
      intro hm
      subst hm
      exact hctx.not_live ht
  · intro fr rest'' h
    cases h
    exact fun ⟨_, _, h⟩ => nomatch h

/-- one step of the reference machine from a matched state, with the sites the VM passes -/
theorem sim_stepT {cfg : Config} (hm : MatchT V tend c R cfg vm) :
    StepResT V tend c R cfg vm (Sem.step src cfg) := by
  obtain ⟨fr, rest, a, as', ip, rfl, T, hip, hfo, hat, hnw⟩ := hm.inv
  obtain ⟨r, env, ctrs, focus, k, ctrl⟩ := fr
  cases ctrl with
  | run =>
    cases focus with
    | cons s ss =>
      cases s with
      | assign x v pos => exact t_assign hc hV hT T hip hfo hat
      | mark m pos => exact t_mark hc hV hT T hip hfo hat
      | loop id x body pos => exact t_loop hc hV hT T hip hfo hat
      | while_ x body pos => exact t_while hc hV hT T hip hfo hat
      | goto m pos => exact t_goto hc hV hT T hip hfo hat
      | ifGoto x cst m pos => exact t_ifGoto hc hV hT T hip hfo hat
      | stop pos => exact t_stop hc hV hT T hip hfo hat
    | nil =>
      cases k with
      | loop id body ss k' => exact t_end_loop hc hV hT T hip hfo hat
      | while_ x body ss k' => exact t_end_while hc hV hT T hip hfo hat
      | done =>
        cases rest with
        | nil => exact t_end_root hc hV hT T hip hfo hat
        | cons caller rest' =>
          obtain ⟨_, ⟨x, cs, hw⟩, _⟩ := T.restrel
          obtain ⟨r2, env2, ctrs2, focus2, k2, ctrl2⟩ := caller
          simp only at hw
          subst hw
          exact t_end_ret hc hV hT T hip hfo hat
  | eval v x cs =>
    cases v with
    | var y => exact t_eval_simple hc hV hT T hip (SimpleVal.var y) hfo hat
    | num n => exact t_eval_simple hc hV hT T hip (SimpleVal.num n) hfo hat
    | inc y k' => exact t_eval_simple hc hV hT T hip (SimpleVal.inc y k') hfo hat
    | dec y k' => exact t_eval_simple hc hV hT T hip (SimpleVal.dec y k') hfo hat
    | call f args =>
      cases args with
      | nil => exact t_eval_call_nil hc hV hT T hip hfo hat
      | cons a0 as0 => exact t_eval_call_cons hc hV hT T hip hfo hat
  | ret n x cs =>
    cases cs with
    | nil => exact t_ret_nil hc hV hT T hip hfo hat
    | cons c1 cs' =>
      obtain ⟨f, done, todo⟩ := c1
      cases todo with
      | nil => exact t_ret_cons_call hc hV hT T hip hfo hat
      | cons a0 as0 => exact t_ret_cons_more hc hV hT T hip hfo hat
  | wait x cs => exact absurd ⟨x, cs, rfl⟩ hnw

end

end Sim
end Theo
