/-
  C07 for the generator model, part 10: `gen` — the root frame, the final HALT, backpatching (which
  leave the line table alone); `gen_sites`.
-/
import Theo.Proofs.GenSitesTop

set_option linter.unusedSimpArgs false
set_option linter.unusedVariables false

namespace Theo
namespace GenSites
open GS Sem Static GenShape Layout

theorem siteCheck_ok (src : Source) (P : Program) (hshape : shapeCheck src P = true) (infos : List RInfo) (pc : Nat)
    (h1 : siteProgs P src src.progs 0 [] 1 = some (infos, pc)) (sm : StackMap)
    (h2 : P.stackMaps[src.progs.length]? = some sm) (exp : List ESite) (w : Walk) (kk : Nat) (prev : Prev)
    (h3 : sitesStmts ⟨P.code, src, ⟨0, src.progs.length, sm.map⟩, src.progs.length, infos⟩ src.main ⟨pc, [], []⟩ 0 none =
      some (exp, w, kk, prev))
    (h4 : regionSitesOK P exp pc P.code.length = true) (h5 : jumpsExact exp w = true)
    (h6 : (sitePositions P.code 0 1).isEmpty = true) : siteCheck src P = true := by
  unfold siteCheck
  simp only [hshape, h1, h2, h3, Bool.true_and]
  simp [h4, h5, h6]

/-! ### the line table after the main statements -/

theorem backpatchOne_lineInfo (g : GS) (loc : Nat) : (backpatchOne g loc).lineInfo = g.lineInfo := by
  unfold backpatchOne
  split
  · dsimp only; split <;> rfl
  · dsimp only; split <;> rfl
  · rfl

theorem backpatch_lineInfo (g : GS) : (backpatch g).lineInfo = g.lineInfo := by
  unfold backpatch
  have : ∀ (l : List Nat) (g : GS), (l.foldl backpatchOne g).lineInfo = g.lineInfo := by
    intro l
    induction l with
    | nil => intro g; rfl
    | cons x xs ih => intro g; simp only [List.foldl_cons]; rw [ih, backpatchOne_lineInfo]
  rw [this]

theorem fixHead_lineInfo (c : GS) : (fixHead c).lineInfo = c.lineInfo := by
  unfold fixHead
  split <;> rfl

/-- the generator-level completeness of `siteCheck` -/
theorem gen_sites (root : Node) (h : AstShape root = true) (hs : staticOK (toSource root) = true)
    (hn : astNames root = true) (hl : OneStmtPerLine root = true) :
    siteCheck (toSource root) (gen ⟨true, [], root⟩).code = true := by
  have hshape := gen_shape root h hs hn
  obtain ⟨hst, hpar⟩ := staticOK_split hs
  have hgen : (gen ⟨true, [], root⟩).code =
      ⟨(backpatch ((fixHead ((dispatchVoid (nodeSize root + 1) gs1 root).popSymbols 0)).emit .halt)).code,
       (backpatch ((fixHead ((dispatchVoid (nodeSize root + 1) gs1 root).popSymbols 0)).emit .halt)).stackMaps,
       (backpatch ((fixHead ((dispatchVoid (nodeSize root + 1) gs1 root).popSymbols 0)).emit .halt)).potBreaks,
       (backpatch ((fixHead ((dispatchVoid (nodeSize root + 1) gs1 root).popSymbols 0)).emit .halt)).lineInfo⟩ := rfl
  have hsorted : LiSorted (gen ⟨true, [], root⟩).code.lineInfo := (gen_TI' ⟨true, [], root⟩).liS
  rw [hgen] at hshape hsorted ⊢
  have st := step_void (nodeSize root + 1) gs1 root
  have jb : JT (dispatchVoid (nodeSize root + 1) gs1 root) :=
    jt_void _ _ _ (by intro p i hp hj; have : gs1.code = [.prepare (-1) (-1) 0] := rfl; rw [this] at hp
                      cases p with
                      | zero => simp at hp; subst hp; cases hj
                      | succ p => simp at hp)
  have w1 : MarksWF gs1 := MarksWF.of_nil rfl
  have t1 : TodoOK gs1 := ⟨List.nodup_nil, fun _ h => by cases h⟩
  have tb := st.todoOK w1 t1
  have ti : TopInv (toSource root) gs1 0 [] :=
    ⟨rfl, rfl, rfl, rfl, ⟨_, rfl, by intro h; cases h⟩, ⟨_, rfl, by intro h; cases h⟩,
     fun f j pd hl => by rw [lookupProg_zero] at hl; cases hl⟩
  have hname : (dispatchVoid (nodeSize root + 1) gs1 root).top.name = bRoot := st.name
  have tinit : TInv (fun _ => True) gs1 := TInv.init _
  have key := fun P L => site_top P (toSource root) L (nodeSize root + 1) gs1 root (Nat.le_succ _) h hn 0 [] [] rfl
    (by rw [toSource_eq]; rfl) (by rw [toSource_eq]; rfl) hst hpar ti
  have keyS := fun P L => top_corr P (toSource root) L (nodeSize root + 1) gs1 root (Nat.le_succ _) h hn 0 [] [] rfl
    (by rw [toSource_eq]; rfl) (by rw [toSource_eq]; rfl) hst hpar ti
  generalize hb : dispatchVoid (nodeSize root + 1) gs1 root = b at *
  have tq0 : TQ gs1 b :=
    (keyS ⟨b.code.mapIdx (fun p i => patch b.labels p i), b.stackMaps, [], []⟩ b.labels
      (by intro p i _ hi; show (List.mapIdx _ _)[p]? = _; rw [List.getElem?_mapIdx, hi]; rfl)
      (by intro l v hl _; rw [hl]; rfl) (List.prefix_refl _) 1 rfl).2.2.2
  obtain ⟨tl, hbc⟩ : ∃ tl, b.code = .prepare (-1) (-1) 0 :: tl := by
    obtain ⟨t, ht⟩ := tq0.code; exact ⟨t, ht.symm⟩
  have pf := popSymbols_full b 0
  have ps := popSymbols_spec b 0
  have hpli : (b.popSymbols 0).lineInfo = b.lineInfo := (same_popSymbols b 0).2.1
  generalize hc : b.popSymbols 0 = c at *
  have tc : TodoOK c := TodoOK.safe ps.todo (by rw [ps.labels]; exact Nat.le_refl _) (ps.code ▸ CodeSafe.refl _) tb
  have jc : JT c := jb.same pf.code pf.todo
  have hlook : c.lookupFunc bRoot = some ⟨0, (b.stackMaps.length : Int), b.top.argnum, b.top.regs.length⟩ := by
    unfold lookupFunc
    rw [pf.funcAddrs, hname, List.find?_cons_of_pos (by simp)]; rfl
  obtain ⟨f1, f2, f3, f4⟩ := fixHead_full c (-1) (-1) 0 tl _ (pf.code.trans hbc) hlook
  have te : TodoOK ((fixHead c).emit .halt) := (quiet_emit _ _).todoOK ((fixHead_spec c).2.2 tc)
  have je : JT ((fixHead c).emit .halt) :=
    (JT.fixHead' jc _ _ _ tl ⟨_, pf.code.trans hbc⟩ (fixHead c) f1 f4).emit _ rfl
  obtain ⟨b1, b2, b3, b4⟩ := backpatch_code _ te je
  have hel : ((fixHead c).emit .halt).labels = b.labels := by rw [emit_labels, f3, pf.labels]
  have hec : ((fixHead c).emit .halt).code = .prepare (b.top.regs.length : Int) (b.stackMaps.length : Int) 0 :: (tl ++ [.halt]) := by
    rw [emit_code, f1]; rfl
  have hes : ((fixHead c).emit .halt).stackMaps = b.stackMaps ++ [⟨bRoot, smap b.top.regs⟩] := by
    show (fixHead c).stackMaps = _
    rw [f2, pf.stackMaps, hname]
  have heli : (backpatch ((fixHead c).emit .halt)).lineInfo = b.lineInfo := by
    rw [backpatch_lineInfo]
    show (fixHead c).lineInfo = _
    rw [fixHead_lineInfo, hpli]
  generalize (fixHead c).emit .halt = e at *
  generalize backpatch e = fin at *
  have hblen : b.code.length = tl.length + 1 := by rw [hbc]; simp
  have hag : Agree b.labels b.code fin.code := by
    intro p i h0 hi
    have he : e.code[p]? = some i := by
      rw [hec]
      rw [hbc] at hi
      obtain ⟨q, rfl⟩ : ∃ q, p = q + 1 := ⟨p - 1, by omega⟩
      simp only [List.getElem?_cons_succ] at hi ⊢
      rw [List.getElem?_append_left (List.getElem?_eq_some_iff.1 hi).1]; exact hi
    rw [b4 p i he, hel]
  have hhalt : fin.code[b.code.length]? = some .halt := by
    have he : e.code[b.code.length]? = some .halt := by
      rw [hec, hblen, List.getElem?_cons_succ, List.getElem?_append_right (Nat.le_refl _)]; simp
    rw [b4 _ _ he]; rfl
  have hag2 : Agree b.labels (b.code ++ [.halt]) fin.code := by
    intro p i h0 hi
    by_cases hp : p < b.code.length
    · rw [List.getElem?_append_left hp] at hi
      exact hag p i h0 hi
    · have hlt := (List.getElem?_eq_some_iff.1 hi).1
      simp at hlt
      have : p = b.code.length := by omega
      subst this
      rw [getElem?_snoc_len] at hi
      cases hi
      rw [hhalt]; rfl
  have hhead : fin.code[0]? = some (.prepare (b.top.regs.length : Int) (b.stackMaps.length : Int) 0) := by
    have := b4 0 _ (by rw [hec]; rfl)
    rw [this]; rfl
  have hfinlen : fin.code.length = b.code.length + 1 := by rw [b3, hec, hblen]; simp
  -- the site walk over the whole tree
  have hlay : topLay root ⟨ConstGen.rootFsName, ConstGen.rootFsLine, .fresh⟩ = true := hl
  obtain ⟨⟨infos, gm, exp, w, kk, t, s', c1, c2, c3, bo⟩, _⟩ :=
    key ⟨fin.code, fin.stackMaps, fin.potBreaks, fin.lineInfo⟩ b.labels hag
      (by intro l v hl _; rw [hl]; rfl) (by show b.stackMaps <+: fin.stackMaps; rw [b2, hes]; exact prefix_append_self _ _)
      tinit ⟨ConstGen.rootFsName, ConstGen.rootFsLine, .fresh⟩ ⟨rfl, rfl⟩ rfl hlay
      (by show b.lineInfo <+: fin.lineInfo; rw [heli]; exact List.prefix_refl _) hsorted
  have h3 := (keyS ⟨fin.code, fin.stackMaps, fin.potBreaks, fin.lineInfo⟩ b.labels hag
    (by intro l v hl _; rw [hl]; rfl) (by show b.stackMaps <+: fin.stackMaps; rw [b2, hes]; exact prefix_append_self _ _) 1 rfl).2.2.1
  rw [List.drop_zero] at c1
  have hg1 : gs1.code.length = 1 := rfl
  rw [hg1] at c1
  refine siteCheck_ok (toSource root) _ hshape infos gm.code.length c1 ⟨bRoot, smap b.top.regs⟩ ?_ exp w kk (prevOf s') bo.walk ?_ bo.jumps ?_
  · show fin.stackMaps[(toSource root).progs.length]? = _
    rw [b2, hes, ← h3, getElem?_snoc_len]
  · show regionSitesOK _ exp gm.code.length fin.code.length = true
    have hlen2 : (b.code ++ [Instr.halt]).length = fin.code.length := by rw [hfinlen]; simp
    rw [← hlen2]
    refine region_ok _ b.labels (b.code ++ [.halt]) gm.code.length (t ++ [.halt]) exp hag2 (head_pos c2) ?_ ?_ ?_ hsorted ?_
    · rw [bo.code]; simp
    · intro i hi
      rw [bo.code, List.append_assoc, List.getElem?_append_right (Nat.le_add_right _ _), Nat.add_sub_cancel_left]
    · rw [pbPos_append, bo.pbs, pbPos_one (by intro h; cases h), List.append_nil]
    · intro x hx
      show liOf x ∈ fin.lineInfo
      rw [heli, bo.li]
      exact List.mem_append_right _ (List.mem_map_of_mem (f := liOf) hx)
  · show (sitePositions fin.code 0 1).isEmpty = true
    unfold sitePositions
    simp [hhead]

end GenSites
end Theo
