/-
  C01 for the generator model, part 12: `backpatch` is a map over the code (`patch` with the final
  label table at every position), given that the backpatch list holds exactly the jumps.
-/
import Theo.Proofs.GenShapePrim

set_option linter.unusedSimpArgs false
set_option linter.unusedVariables false

namespace Theo
namespace GenShape
open GS Sem Static

theorem backpatchOne_spec (g : GS) (loc : Nat) :
    (backpatchOne g loc).labels = g.labels ∧ (backpatchOne g loc).stackMaps = g.stackMaps ∧
    (backpatchOne g loc).code.length = g.code.length ∧
    ∀ i, g.code[loc]? = some i → isJmp i = true →
      (backpatchOne g loc).code = g.code.set loc (patch g.labels loc i) := by
  unfold backpatchOne
  split
  · rename_i lab h
    dsimp only
    refine ⟨by split <;> rfl, by split <;> rfl, by split <;> simp, ?_⟩
    intro i hi _
    rw [h] at hi
    cases hi
    split <;> rfl
  · rename_i lab s h
    dsimp only
    refine ⟨by split <;> rfl, by split <;> rfl, by split <;> simp, ?_⟩
    intro i hi _
    rw [h] at hi
    cases hi
    split <;> rfl
  · rename_i h1 h2
    refine ⟨rfl, rfl, rfl, ?_⟩
    intro i hi hj
    exfalso
    cases i <;> simp [isJmp] at hj
    · exact h1 _ hi
    · exact h2 _ _ hi

theorem backpatch_fold_spec : ∀ (T : List Nat) (h : GS), T.Nodup →
    (∀ loc ∈ T, ∃ i, h.code[loc]? = some i ∧ isJmp i = true) →
    (T.foldl backpatchOne h).labels = h.labels ∧ (T.foldl backpatchOne h).stackMaps = h.stackMaps ∧
    (T.foldl backpatchOne h).code.length = h.code.length ∧
    ∀ p, (T.foldl backpatchOne h).code[p]? =
      if p ∈ T then (h.code[p]?).map (patch h.labels p) else h.code[p]? := by
  intro T
  induction T with
  | nil => intro h _ _; exact ⟨rfl, rfl, rfl, fun p => by simp⟩
  | cons loc rest ih =>
    intro h hn hj
    rw [List.nodup_cons] at hn
    obtain ⟨i, hi, hji⟩ := hj loc List.mem_cons_self
    obtain ⟨b1, b2, b3, b4⟩ := backpatchOne_spec h loc
    have hcode := b4 i hi hji
    have hlt : loc < h.code.length := (List.getElem?_eq_some_iff.1 hi).1
    have hj' : ∀ l ∈ rest, ∃ i, (backpatchOne h loc).code[l]? = some i ∧ isJmp i = true := by
      intro l hl
      obtain ⟨x, hx, hjx⟩ := hj l (List.mem_cons_of_mem _ hl)
      have hne : loc ≠ l := fun e => hn.1 (e ▸ hl)
      exact ⟨x, by rw [hcode, List.getElem?_set_ne hne]; exact hx, hjx⟩
    obtain ⟨c1, c2, c3, c4⟩ := ih (backpatchOne h loc) hn.2 hj'
    simp only [List.foldl_cons]
    refine ⟨c1.trans b1, c2.trans b2, c3.trans b3, ?_⟩
    intro p
    rw [c4 p, b1]
    by_cases hp : p ∈ rest
    · have hne : loc ≠ p := fun e => hn.1 (e ▸ hp)
      rw [if_pos hp, if_pos (List.mem_cons_of_mem _ hp), hcode, List.getElem?_set_ne hne]
    · rw [if_neg hp]
      by_cases hpl : p = loc
      · subst hpl
        rw [if_pos List.mem_cons_self, hcode, List.getElem?_set_self hlt, hi]; rfl
      · rw [if_neg (by simp [hpl, hp]), hcode, List.getElem?_set_ne (fun e => hpl e.symm)]

/-- the code after backpatching -/
theorem backpatch_code (g : GS) (ht : TodoOK g) (hj : JT g) :
    (backpatch g).labels = g.labels ∧ (backpatch g).stackMaps = g.stackMaps ∧
    (backpatch g).code.length = g.code.length ∧
    ∀ p i, g.code[p]? = some i → (backpatch g).code[p]? = some (patch g.labels p i) := by
  unfold backpatch
  have hjumps : ∀ loc ∈ g.todo, ∃ i, ({ g with todo := [] } : GS).code[loc]? = some i ∧ isJmp i = true := by
    intro loc hloc
    obtain ⟨lab, _, h⟩ := ht.jumps loc hloc
    rcases h with h | ⟨s, h⟩
    · exact ⟨_, h, rfl⟩
    · exact ⟨_, h, rfl⟩
  obtain ⟨a1, a2, a3, a4⟩ := backpatch_fold_spec g.todo { g with todo := [] } ht.nodup hjumps
  refine ⟨a1, a2, a3, ?_⟩
  intro p i hi
  rw [a4 p]
  show (if p ∈ g.todo then (g.code[p]?).map (patch g.labels p) else g.code[p]?) = _
  rw [hi]
  by_cases hp : p ∈ g.todo
  · rw [if_pos hp]; rfl
  · rw [if_neg hp]
    have : isJmp i = false := by
      cases hji : isJmp i with
      | false => rfl
      | true => exact absurd (hj p i hi hji) hp
    rw [patch_of_not_jmp _ _ this]

end GenShape
end Theo
