/-
  The LR(1) theory (C13) instantiated on the macro detector grammar (C09, C12).
-/
import Theo.Props.C13Complete
import Theo.Proofs.ApplyProofs

namespace Theo
namespace DetectorProofs
open LRSound LRComplete FirstProofs

/-! ## 1. the detector grammar, explicitly -/

/-- the productions of the fixed rules (closed term) -/
def fixedProds : List (Nat × List (List Sym)) :=
  (Grammar.ofRules DetGen.numNT
    (DetGen.rules.map (fun r => (r.1, r.2.map (fun s => if s.1 then Sym.t s.2 else Sym.n s.2))))).prods

theorem fixedProds_eq : fixedProds =
    [(0, [[.t 1]]),
     (1, [[.t 3]]),
     (2, [[.n 0], [.n 1], [.t 36, .n 0, .t 37, .n 3, .t 19]]),
     (3, [[.n 2], [.n 3, .t 6, .n 2]]),
     (4, [[.n 4, .t 7, .n 5], [.n 5]]),
     (5, [[.n 0, .t 8, .n 6], [.n 6]]),
     (6, [[.n 0, .t 9, .n 2],
          [.t 13, .n 0, .t 12, .n 4, .t 19],
          [.t 14, .n 0, .t 10, .t 12, .n 4, .t 19],
          [.t 15, .n 0],
          [.t 16, .n 0, .t 11, .n 1, .t 17, .t 15, .n 0],
          [.t 18]])] := by
  decide

theorem ins_append (n : Nat) (rhs : List Sym) :
    ∀ l : List (Nat × List (List Sym)), (∀ e ∈ l, e.1 < n) →
      Grammar.add.ins n rhs l = l ++ [(n, [rhs])] := by
  intro l
  induction l with
  | nil => intro _; simp [Grammar.add.ins]
  | cons e es ih =>
    intro h
    have he : e.1 < n := h e (by simp)
    have h1 : ¬ e.1 = n := by omega
    have h2 : ¬ n < e.1 := by omega
    simp only [Grammar.add.ins, h1, h2, if_false, List.cons_append]
    rw [ih (fun e' he' => h e' (by simp [he']))]

theorem ruleSym_cases (t : Token) :
    ruleSym t = .t t.kind ∨ ∃ j, j < 7 ∧ ruleSym t = .n j ∧ (j = 0 ∨ j = 1 ∨ j = 2 ∨ j = 3 ∨ j = 4) := by
  unfold ruleSym
  cases h : DetGen.slotNT.find? (fun e => e.1 = t.kind) with
  | none => exact Or.inl rfl
  | some e =>
    right
    have hm := List.mem_of_find?_eq_some h
    simp only [DetGen.slotNT, List.mem_cons, List.not_mem_nil, or_false] at hm
    refine ⟨e.2, ?_, rfl, ?_⟩ <;> rcases hm with rfl | rfl | rfl | rfl | rfl <;> simp

theorem ruleSym_ne_eps (t : Token) : ruleSym t ≠ .eps := by
  rcases ruleSym_cases t with h | ⟨j, _, h, _⟩ <;> rw [h] <;> simp

theorem fixed_keys : ∀ e ∈ fixedProds, e.1 < 7 := by decide

theorem detectorGrammar_eq (m : MacroDef) :
    detectorGrammar m = ⟨8, fixedProds ++ [(7, [m.rule.map ruleSym])]⟩ := by
  unfold detectorGrammar Grammar.ofRules
  rw [List.foldl_append]
  simp only [List.foldl_cons, List.foldl_nil]
  have hf : (m.rule.map ruleSym).filter (fun s => decide (s ≠ Sym.eps)) = m.rule.map ruleSym := by
    rw [List.filter_eq_self]
    intro s hs
    obtain ⟨t, _, rfl⟩ := List.mem_map.mp hs
    simpa using ruleSym_ne_eps t
  show Grammar.add (Grammar.ofRules DetGen.numNT _) DetGen.macroNT _ = _
  simp only [Grammar.add, hf]
  have := ins_append DetGen.macroNT (m.rule.map ruleSym) fixedProds fixed_keys
  simp only [fixedProds] at this ⊢
  rw [this]
  rfl

theorem det_numNT (m : MacroDef) : (detectorGrammar m).numNT = 8 := by rw [detectorGrammar_eq]

theorem det_prods (m : MacroDef) :
    (detectorGrammar m).prods = fixedProds ++ [(7, [m.rule.map ruleSym])] := by rw [detectorGrammar_eq]

theorem det_alts_macro (m : MacroDef) :
    (detectorGrammar m).alts DetGen.macroNT = [m.rule.map ruleSym] := by
  simp [Grammar.alts, det_prods, fixedProds_eq, DetGen.macroNT]

/-- alternatives of the fixed non-terminals -/
def fixedAlts (l : Nat) : List (List Sym) := ((fixedProds.find? (fun e => e.1 = l)).map (·.2)).getD []

theorem det_alts_fixed (m : MacroDef) (l : Nat) (hl : l < 7) :
    (detectorGrammar m).alts l = fixedAlts l := by
  have : l = 0 ∨ l = 1 ∨ l = 2 ∨ l = 3 ∨ l = 4 ∨ l = 5 ∨ l = 6 := by omega
  rcases this with rfl | rfl | rfl | rfl | rfl | rfl | rfl <;>
    simp [Grammar.alts, det_prods, fixedAlts, fixedProds_eq]

theorem det_alts_ge (m : MacroDef) (l : Nat) (hl : 8 ≤ l) : (detectorGrammar m).alts l = [] := by
  have h : ∀ e ∈ (detectorGrammar m).prods, ¬ e.1 = l := by
    intro e he
    rw [det_prods] at he
    rcases List.mem_append.mp he with he | he
    · have := fixed_keys e he; omega
    · simp only [List.mem_singleton] at he; subst he; simp; omega
  simp only [Grammar.alts]
  rw [List.find?_eq_none.mpr (by simpa using h)]
  rfl

theorem fixed_closedB : fixedProds.all (fun e => decide (e.1 < 7) && e.2.all (fun a => a.all (fun s =>
    match s with | .eps => false | .t _ => true | .n k => decide (k < 7)))) = true := by decide

theorem fixed_sym (e : Nat × List (List Sym)) (he : e ∈ fixedProds) (a : List Sym) (ha : a ∈ e.2)
    (s : Sym) (hs : s ∈ a) : s ≠ .eps ∧ ∀ k, s = .n k → k < 7 := by
  have h := fixed_closedB
  simp only [List.all_eq_true, Bool.and_eq_true] at h
  have := (h e he).2 a ha s hs
  cases s with
  | eps => simp at this
  | t i => simp
  | n k => simpa using this

theorem det_closed (m : MacroDef) : (detectorGrammar m).Closed := by
  intro e he
  rw [det_prods] at he
  rw [det_numNT]
  rcases List.mem_append.mp he with he | he
  · refine ⟨by have := fixed_keys e he; omega, ?_⟩
    intro a ha s hs
    have := fixed_sym e he a ha s hs
    exact ⟨this.1, fun k hk => by have := this.2 k hk; omega⟩
  · simp only [List.mem_singleton] at he
    subst he
    refine ⟨by omega, ?_⟩
    intro a ha s hs
    simp only [List.mem_singleton] at ha
    subst ha
    obtain ⟨t, _, rfl⟩ := List.mem_map.mp hs
    refine ⟨ruleSym_ne_eps t, ?_⟩
    intro k hk
    rcases ruleSym_cases t with h | ⟨j, hj, h, _⟩
    · rw [h] at hk; cases hk
    · rw [h] at hk; cases hk; omega

theorem det_start_lt (m : MacroDef) : DetGen.macroNT < (detectorGrammar m).numNT := by
  rw [det_numNT]; decide

theorem ruleSym_t (t : Token) (k : Nat) (h : ruleSym t = .t k) : k = t.kind := by
  rcases ruleSym_cases t with h' | ⟨j, _, h', _⟩
  · rw [h'] at h; cases h; rfl
  · rw [h'] at h; cases h

theorem fixed_no_eof : (0 : Nat) ∉ fixedProds.flatMap (fun e => e.2.flatMap (fun a => a.filterMap (fun s =>
    match s with | Sym.t i => some i | _ => none))) := by decide

theorem det_eof_notin (m : MacroDef) (hr : ∀ t ∈ m.rule, t.kind ≠ Tok.T_EOF) :
    Tok.T_EOF ∉ (detectorGrammar m).terminals := by
  intro h
  simp only [Grammar.terminals, det_prods, List.flatMap_append, List.mem_append] at h
  rcases h with h | h
  · exact fixed_no_eof h
  · simp only [List.flatMap_cons, List.flatMap_nil, List.append_nil, List.mem_filterMap, List.mem_map] at h
    obtain ⟨s, ⟨t, ht, rfl⟩, hs⟩ := h
    cases hsym : ruleSym t with
    | eps => rw [hsym] at hs; simp at hs
    | n j => rw [hsym] at hs; simp at hs
    | t k =>
      rw [hsym] at hs
      simp only [Option.some.injEq] at hs
      have := ruleSym_t t k hsym
      exact hr t ht (by rw [← this, hs])

/-- the table width: the fixed rules use `WITH` -/
theorem det_maxT_ge (m : MacroDef) :
    Tok.WITH ≤ ((detectorGrammar m).augment DetGen.macroNT Tok.T_EOF).maxTerminal := by
  apply le_maxTerminal
  apply alts_terminal (n := 2) (rhs := [.t 36, .n 0, .t 37, .n 3, .t 19])
  · rw [augment_alts_lt _ _ _ _ (by rw [det_numNT]; omega), det_alts_fixed m 2 (by omega)]
    simp [fixedAlts, fixedProds_eq]
  · simp [Tok.WITH]

theorem det_tables (m : MacroDef) :
    (mkDetector m).tables = tablesOf (detectorGrammar m) DetGen.macroNT Tok.T_EOF true detectorStateFuel := rfl

/-! ## 2. C12: accepted patterns are prefix-deterministic -/

theorem prefix_unique (m : MacroDef) (hr : ∀ t ∈ m.rule, t.kind ≠ Tok.T_EOF)
    (hf : (genTables (detectorGrammar m) DetGen.macroNT Tok.T_EOF true detectorStateFuel).2 < detectorStateFuel)
    (hc : (mkDetector m).tables.conflicts = []) (t t' : Tree) (inp : List Nat)
    (ht : t.Valid (detectorGrammar m)) (hrt : t.root = .n DetGen.macroNT)
    (ht' : t'.Valid (detectorGrammar m)) (hrt' : t'.root = .n DetGen.macroNT)
    (hp : ∃ a rest, inp = t.yield ++ a :: rest ∧
      a ≤ ((detectorGrammar m).augment DetGen.macroNT Tok.T_EOF).maxTerminal)
    (hp' : ∃ a rest, inp = t'.yield ++ a :: rest ∧
      a ≤ ((detectorGrammar m).augment DetGen.macroNT Tok.T_EOF).maxTerminal) : t = t' :=
  C13_prefix_unique (detectorGrammar m) DetGen.macroNT Tok.T_EOF detectorStateFuel t t' inp
    (det_closed m) (det_start_lt m) (det_eof_notin m hr) ht hrt ht' hrt' hp hp' hc hf

/-! ## 3. C12: patterns ending in `<P>` or `<ARGS>` -/

def idT : Tree := .node 0 0 (.cons (.leaf 1) .nil)
def intT : Tree := .node 1 0 (.cons (.leaf 3) .nil)
def valT : Tree := .node 2 0 (.cons idT .nil)
def argsT : Tree := .node 3 0 (.cons valT .nil)
def argsT2 : Tree := .node 3 1 (.cons argsT (.cons (.leaf 6) (.cons valT .nil)))
def stmtT : Tree := .node 5 1 (.cons (.node 6 5 (.cons (.leaf 18) .nil)) .nil)
def progT : Tree := .node 4 1 (.cons stmtT .nil)
def progT2 : Tree := .node 4 0 (.cons progT (.cons (.leaf 7) (.cons stmtT .nil)))

/-- a sample derivation for one pattern symbol -/
def sample (t : Token) : Tree :=
  match ruleSym t with
  | .n 0 => idT
  | .n 1 => intT
  | .n 2 => valT
  | .n 3 => argsT
  | .n 4 => progT
  | _ => .leaf t.kind

theorem sample_root (t : Token) : (sample t).root = ruleSym t := by
  unfold sample
  rcases ruleSym_cases t with h | ⟨j, _, h, hj⟩
  · rw [h]; rfl
  · rw [h]
    rcases hj with rfl | rfl | rfl | rfl | rfl <;> rfl

theorem fixed_trees_valid (m : MacroDef) :
    idT.Valid (detectorGrammar m) ∧ intT.Valid (detectorGrammar m) ∧ valT.Valid (detectorGrammar m) ∧
    argsT.Valid (detectorGrammar m) ∧ argsT2.Valid (detectorGrammar m) ∧
    progT.Valid (detectorGrammar m) ∧ progT2.Valid (detectorGrammar m) := by
  simp [idT, intT, valT, argsT, argsT2, stmtT, progT, progT2, Tree.Valid, Forest.Valid, Forest.roots,
    Tree.root, det_alts_fixed, fixedAlts, fixedProds_eq]

theorem sample_valid (m : MacroDef) (t : Token) : (sample t).Valid (detectorGrammar m) := by
  obtain ⟨h0, h1, h2, h3, _, h4, _⟩ := fixed_trees_valid m
  unfold sample
  split <;> first | assumption | trivial

theorem two_trees (m : MacroDef) (init : List Token) (last : Token) (hm : m.rule = init ++ [last])
    (s1 s2 : Tree) (h1 : s1.Valid (detectorGrammar m)) (h2 : s2.Valid (detectorGrammar m))
    (hr1 : s1.root = ruleSym last) (hr2 : s2.root = ruleSym last)
    (sep : Nat) (y' : List Nat) (hy : s2.yield = s1.yield ++ sep :: y') (hsep : sep ≤ Tok.WITH) :
    ∃ (t t' : Tree) (inp : List Nat),
      t.Valid (detectorGrammar m) ∧ t.root = .n DetGen.macroNT ∧
      t'.Valid (detectorGrammar m) ∧ t'.root = .n DetGen.macroNT ∧
      (∃ a rest, inp = t.yield ++ a :: rest ∧
        a ≤ ((detectorGrammar m).augment DetGen.macroNT Tok.T_EOF).maxTerminal) ∧
      (∃ a rest, inp = t'.yield ++ a :: rest ∧
        a ≤ ((detectorGrammar m).augment DetGen.macroNT Tok.T_EOF).maxTerminal) ∧ t ≠ t' := by
  have hmax := det_maxT_ge m
  have hvalid : ∀ s : Tree, s.Valid (detectorGrammar m) → s.root = ruleSym last →
      (Tree.node DetGen.macroNT 0 (Forest.ofList (init.map sample ++ [s]))).Valid (detectorGrammar m) := by
    intro s hs hr
    refine ⟨?_, ?_⟩
    · rw [det_alts_macro, roots_ofList, hm]
      simp [sample_root, hr]
    · apply valid_ofList
      intro t ht
      rcases List.mem_append.mp ht with ht | ht
      · obtain ⟨x, _, rfl⟩ := List.mem_map.mp ht
        exact sample_valid m x
      · simp only [List.mem_singleton] at ht; subst ht; exact hs
  have hyield : ∀ s : Tree, (Tree.node DetGen.macroNT 0 (Forest.ofList (init.map sample ++ [s]))).yield =
      ((init.map sample).map Tree.yield).flatten ++ s.yield := by
    intro s
    simp [Tree.yield, yield_ofList]
  refine ⟨Tree.node DetGen.macroNT 0 (Forest.ofList (init.map sample ++ [s1])),
    Tree.node DetGen.macroNT 0 (Forest.ofList (init.map sample ++ [s2])),
    ((init.map sample).map Tree.yield).flatten ++ s2.yield ++ [0],
    hvalid s1 h1 hr1, rfl, hvalid s2 h2 hr2, rfl, ?_, ?_, ?_⟩
  · refine ⟨sep, y' ++ [0], ?_, by omega⟩
    rw [hyield, hy]; simp
  · refine ⟨0, [], ?_, by omega⟩
    rw [hyield]
  · intro h
    have := congrArg Tree.yield h
    rw [hyield, hyield, hy] at this
    have := congrArg List.length this
    simp at this

theorem ends_nondet (m : MacroDef) (last : Token) (hl : m.rule.getLast? = some last)
    (hk : last.kind = Tok.PROG_TEMP ∨ last.kind = Tok.ARGS_TEMP) :
    ∃ (t t' : Tree) (inp : List Nat),
      t.Valid (detectorGrammar m) ∧ t.root = .n DetGen.macroNT ∧
      t'.Valid (detectorGrammar m) ∧ t'.root = .n DetGen.macroNT ∧
      (∃ a rest, inp = t.yield ++ a :: rest ∧
        a ≤ ((detectorGrammar m).augment DetGen.macroNT Tok.T_EOF).maxTerminal) ∧
      (∃ a rest, inp = t'.yield ++ a :: rest ∧
        a ≤ ((detectorGrammar m).augment DetGen.macroNT Tok.T_EOF).maxTerminal) ∧ t ≠ t' := by
  obtain ⟨init, hm⟩ := List.getLast?_eq_some_iff.mp hl
  obtain ⟨_, _, _, ha, ha2, hp, hp2⟩ := fixed_trees_valid m
  rcases hk with hk | hk
  · have hs : ruleSym last = .n 4 := by simp [ruleSym, DetGen.slotNT, hk, Tok.PROG_TEMP]
    exact two_trees m init last hm progT progT2 hp hp2 (by rw [hs]; rfl) (by rw [hs]; rfl) 7 [18]
      (by simp [progT2, progT, stmtT, Tree.yield, Forest.yield]) (by decide)
  · have hs : ruleSym last = .n 3 := by simp [ruleSym, DetGen.slotNT, hk, Tok.ARGS_TEMP]
    exact two_trees m init last hm argsT argsT2 ha ha2 (by rw [hs]; rfl) (by rw [hs]; rfl) 6 [1]
      (by simp [argsT2, argsT, valT, idT, Tree.yield, Forest.yield]) (by decide)

end DetectorProofs
end Theo
