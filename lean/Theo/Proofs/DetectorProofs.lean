/-
  The LR(1) theory (C13) instantiated on the macro detector grammar (C09, C12).
-/
import Theo.Props.C13Complete
import Theo.Proofs.ApplyProofs

namespace Theo
namespace DetectorProofs
open LRSound LRComplete FirstProofs

/-! ## 1. the detector grammar, explicitly -/

/-- the productions of the fixed rules (closed term) -/
def fixedProds : List (Nat × List (List Sym)) :=
  (Grammar.ofRules DetGen.numNT
    (DetGen.rules.map (fun r => (r.1, r.2.map (fun s => if s.1 then Sym.t s.2 else Sym.n s.2))))).prods

theorem fixedProds_eq : fixedProds =
    [(0, [[.t 1]]),
     (1, [[.t 3]]),
     (2, [[.n 0], [.n 1], [.t 36, .n 0, .t 37, .n 3, .t 19]]),
     (3, [[.n 2], [.n 3, .t 6, .n 2]]),
     (4, [[.n 4, .t 7, .n 5], [.n 5]]),
     (5, [[.n 0, .t 8, .n 6], [.n 6]]),
     (6, [[.n 0, .t 9, .n 2],
          [.t 13, .n 0, .t 12, .n 4, .t 19],
          [.t 14, .n 0, .t 10, .t 12, .n 4, .t 19],
          [.t 15, .n 0],
          [.t 16, .n 0, .t 11, .n 1, .t 17, .t 15, .n 0],
          [.t 18]])] := by
  decide

theorem ins_append (n : Nat) (rhs : List Sym) :
    ∀ l : List (Nat × List (List Sym)), (∀ e ∈ l, e.1 < n) →
      Grammar.add.ins n rhs l = l ++ [(n, [rhs])] := by
  intro l
  induction l with
  | nil => intro _; simp [Grammar.add.ins]
  | cons e es ih =>
    intro h
    have he : e.1 < n := h e (by simp)
    have h1 : ¬ e.1 = n := by omega
    have h2 : ¬ n < e.1 := by omega
    simp only [Grammar.add.ins, h1, h2, if_false, List.cons_append]
    rw [ih (fun e' he' => h e' (by simp [he']))]

theorem ruleSym_cases (t : Token) :
    ruleSym t = .t t.kind ∨ ∃ j, j < 7 ∧ ruleSym t = .n j ∧ (j = 0 ∨ j = 1 ∨ j = 2 ∨ j = 3 ∨ j = 4) := by
  unfold ruleSym
  cases h : DetGen.slotNT.find? (fun e => e.1 = t.kind) with
  | none => exact Or.inl rfl
  | some e =>
    right
    have hm := List.mem_of_find?_eq_some h
    simp only [DetGen.slotNT, List.mem_cons, List.not_mem_nil, or_false] at hm
    refine ⟨e.2, ?_, rfl, ?_⟩ <;> rcases hm with rfl | rfl | rfl | rfl | rfl <;> simp

theorem ruleSym_ne_eps (t : Token) : ruleSym t ≠ .eps := by
  rcases ruleSym_cases t with h | ⟨j, _, h, _⟩ <;> rw [h] <;> simp

theorem fixed_keys : ∀ e ∈ fixedProds, e.1 < 7 := by decide

theorem detectorGrammar_eq (m : MacroDef) :
    detectorGrammar m = ⟨8, fixedProds ++ [(7, [m.rule.map ruleSym])]⟩ := by
  unfold detectorGrammar Grammar.ofRules
  rw [List.foldl_append]
  simp only [List.foldl_cons, List.foldl_nil]
  have hf : (m.rule.map ruleSym).filter (fun s => decide (s ≠ Sym.eps)) = m.rule.map ruleSym := by
    rw [List.filter_eq_self]
    intro s hs
    obtain ⟨t, _, rfl⟩ := List.mem_map.mp hs
    simpa using ruleSym_ne_eps t
  show Grammar.add (Grammar.ofRules DetGen.numNT _) DetGen.macroNT _ = _
  simp only [Grammar.add, hf]
  have := ins_append DetGen.macroNT (m.rule.map ruleSym) fixedProds fixed_keys
  simp only [fixedProds] at this ⊢
  rw [this]
  rfl

theorem det_numNT (m : MacroDef) : (detectorGrammar m).numNT = 8 := by rw [detectorGrammar_eq]

theorem det_prods (m : MacroDef) :
    (detectorGrammar m).prods = fixedProds ++ [(7, [m.rule.map ruleSym])] := by rw [detectorGrammar_eq]

theorem det_alts_macro (m : MacroDef) :
    (detectorGrammar m).alts DetGen.macroNT = [m.rule.map ruleSym] := by
  simp [Grammar.alts, det_prods, fixedProds_eq, DetGen.macroNT]

/-- alternatives of the fixed non-terminals -/
def fixedAlts (l : Nat) : List (List Sym) := ((fixedProds.find? (fun e => e.1 = l)).map (·.2)).getD []

theorem det_alts_fixed (m : MacroDef) (l : Nat) (hl : l < 7) :
    (detectorGrammar m).alts l = fixedAlts l := by
  have : l = 0 ∨ l = 1 ∨ l = 2 ∨ l = 3 ∨ l = 4 ∨ l = 5 ∨ l = 6 := by omega
  rcases this with rfl | rfl | rfl | rfl | rfl | rfl | rfl <;>
    simp [Grammar.alts, det_prods, fixedAlts, fixedProds_eq]

theorem det_alts_ge (m : MacroDef) (l : Nat) (hl : 8 ≤ l) : (detectorGrammar m).alts l = [] := by
  have h : ∀ e ∈ (detectorGrammar m).prods, ¬ e.1 = l := by
    intro e he
    rw [det_prods] at he
    rcases List.mem_append.mp he with he | he
    · have := fixed_keys e he; omega
    · simp only [List.mem_singleton] at he; subst he; simp; omega
  simp only [Grammar.alts]
  rw [List.find?_eq_none.mpr (by simpa using h)]
  rfl

theorem fixed_closedB : fixedProds.all (fun e => decide (e.1 < 7) && e.2.all (fun a => a.all (fun s =>
    match s with | .eps => false | .t _ => true | .n k => decide (k < 7)))) = true := by decide

theorem fixed_sym (e : Nat × List (List Sym)) (he : e ∈ fixedProds) (a : List Sym) (ha : a ∈ e.2)
    (s : Sym) (hs : s ∈ a) : s ≠ .eps ∧ ∀ k, s = .n k → k < 7 := by
  have h := fixed_closedB
  simp only [List.all_eq_true, Bool.and_eq_true] at h
  have := (h e he).2 a ha s hs
  cases s with
  | eps => simp at this
  | t i => simp
  | n k => simpa using this

theorem det_closed (m : MacroDef) : (detectorGrammar m).Closed := by
  intro e he
  rw [det_prods] at he
  rw [det_numNT]
  rcases List.mem_append.mp he with he | he
  · refine ⟨by have := fixed_keys e he; omega, ?_⟩
    intro a ha s hs
    have := fixed_sym e he a ha s hs
    exact ⟨this.1, fun k hk => by have := this.2 k hk; omega⟩
  · simp only [List.mem_singleton] at he
    subst he
    refine ⟨by omega, ?_⟩
    intro a ha s hs
    simp only [List.mem_singleton] at ha
    subst ha
    obtain ⟨t, _, rfl⟩ := List.mem_map.mp hs
    refine ⟨ruleSym_ne_eps t, ?_⟩
    intro k hk
    rcases ruleSym_cases t with h | ⟨j, hj, h, _⟩
    · rw [h] at hk; cases hk
    · rw [h] at hk; cases hk; omega

theorem det_start_lt (m : MacroDef) : DetGen.macroNT < (detectorGrammar m).numNT := by
  rw [det_numNT]; decide

theorem ruleSym_t (t : Token) (k : Nat) (h : ruleSym t = .t k) : k = t.kind := by
  rcases ruleSym_cases t with h' | ⟨j, _, h', _⟩
  · rw [h'] at h; cases h; rfl
  · rw [h'] at h; cases h

theorem fixed_no_eof : (0 : Nat) ∉ fixedProds.flatMap (fun e => e.2.flatMap (fun a => a.filterMap (fun s =>
    match s with | Sym.t i => some i | _ => none))) := by decide

theorem det_eof_notin (m : MacroDef) (hr : ∀ t ∈ m.rule, t.kind ≠ Tok.T_EOF) :
    Tok.T_EOF ∉ (detectorGrammar m).terminals := by
  intro h
  simp only [Grammar.terminals, det_prods, List.flatMap_append, List.mem_append] at h
  rcases h with h | h
  · exact fixed_no_eof h
  · simp only [List.flatMap_cons, List.flatMap_nil, List.append_nil, List.mem_filterMap, List.mem_map] at h
    obtain ⟨s, ⟨t, ht, rfl⟩, hs⟩ := h
    cases hsym : ruleSym t with
    | eps => rw [hsym] at hs; simp at hs
    | n j => rw [hsym] at hs; simp at hs
    | t k =>
      rw [hsym] at hs
      simp only [Option.some.injEq] at hs
      have := ruleSym_t t k hsym
      exact hr t ht (by rw [← this, hs])

/-- the table width: the fixed rules use `WITH` -/
theorem det_maxT_ge (m : MacroDef) :
    Tok.WITH ≤ ((detectorGrammar m).augment DetGen.macroNT Tok.T_EOF).maxTerminal := by
  apply le_maxTerminal
  apply alts_terminal (n := 2) (rhs := [.t 36, .n 0, .t 37, .n 3, .t 19])
  · rw [augment_alts_lt _ _ _ _ (by rw [det_numNT]; omega), det_alts_fixed m 2 (by omega)]
    simp [fixedAlts, fixedProds_eq]
  · simp [Tok.WITH]

theorem det_tables (m : MacroDef) :
    (mkDetector m).tables = tablesOf (detectorGrammar m) DetGen.macroNT Tok.T_EOF true detectorStateFuel := rfl

/-! ## 2. C12: accepted patterns are prefix-deterministic -/

theorem prefix_unique (m : MacroDef) (hr : ∀ t ∈ m.rule, t.kind ≠ Tok.T_EOF)
    (hf : (genTables (detectorGrammar m) DetGen.macroNT Tok.T_EOF true detectorStateFuel).2 < detectorStateFuel)
    (hc : (mkDetector m).tables.conflicts = []) (t t' : Tree) (inp : List Nat)
    (ht : t.Valid (detectorGrammar m)) (hrt : t.root = .n DetGen.macroNT)
    (ht' : t'.Valid (detectorGrammar m)) (hrt' : t'.root = .n DetGen.macroNT)
    (hp : ∃ a rest, inp = t.yield ++ a :: rest ∧
      a ≤ ((detectorGrammar m).augment DetGen.macroNT Tok.T_EOF).maxTerminal)
    (hp' : ∃ a rest, inp = t'.yield ++ a :: rest ∧
      a ≤ ((detectorGrammar m).augment DetGen.macroNT Tok.T_EOF).maxTerminal) : t = t' :=
  C13_prefix_unique (detectorGrammar m) DetGen.macroNT Tok.T_EOF detectorStateFuel t t' inp
    (det_closed m) (det_start_lt m) (det_eof_notin m hr) ht hrt ht' hrt' hp hp' hc hf

/-! ## 3. C12: patterns ending in `<P>` or `<ARGS>` -/

def idT : Tree := .node 0 0 (.cons (.leaf 1) .nil)
def intT : Tree := .node 1 0 (.cons (.leaf 3) .nil)
def valT : Tree := .node 2 0 (.cons idT .nil)
def argsT : Tree := .node 3 0 (.cons valT .nil)
def argsT2 : Tree := .node 3 1 (.cons argsT (.cons (.leaf 6) (.cons valT .nil)))
def stmtT : Tree := .node 5 1 (.cons (.node 6 5 (.cons (.leaf 18) .nil)) .nil)
def progT : Tree := .node 4 1 (.cons stmtT .nil)
def progT2 : Tree := .node 4 0 (.cons progT (.cons (.leaf 7) (.cons stmtT .nil)))

/-- a sample derivation for one pattern symbol -/
def sample (t : Token) : Tree :=
  match ruleSym t with
  | .n 0 => idT
  | .n 1 => intT
  | .n 2 => valT
  | .n 3 => argsT
  | .n 4 => progT
  | _ => .leaf t.kind

theorem sample_root (t : Token) : (sample t).root = ruleSym t := by
  unfold sample
  rcases ruleSym_cases t with h | ⟨j, _, h, hj⟩
  · rw [h]; rfl
  · rw [h]
    rcases hj with rfl | rfl | rfl | rfl | rfl <;> rfl

theorem fixed_trees_valid (m : MacroDef) :
    idT.Valid (detectorGrammar m) ∧ intT.Valid (detectorGrammar m) ∧ valT.Valid (detectorGrammar m) ∧
    argsT.Valid (detectorGrammar m) ∧ argsT2.Valid (detectorGrammar m) ∧
    progT.Valid (detectorGrammar m) ∧ progT2.Valid (detectorGrammar m) := by
  simp [idT, intT, valT, argsT, argsT2, stmtT, progT, progT2, Tree.Valid, Forest.Valid, Forest.roots,
    Tree.root, det_alts_fixed, fixedAlts, fixedProds_eq]

theorem sample_valid (m : MacroDef) (t : Token) : (sample t).Valid (detectorGrammar m) := by
  obtain ⟨h0, h1, h2, h3, _, h4, _⟩ := fixed_trees_valid m
  unfold sample
  split <;> first | assumption | trivial

theorem two_trees (m : MacroDef) (init : List Token) (last : Token) (hm : m.rule = init ++ [last])
    (s1 s2 : Tree) (h1 : s1.Valid (detectorGrammar m)) (h2 : s2.Valid (detectorGrammar m))
    (hr1 : s1.root = ruleSym last) (hr2 : s2.root = ruleSym last)
    (sep : Nat) (y' : List Nat) (hy : s2.yield = s1.yield ++ sep :: y') (hsep : sep ≤ Tok.WITH) :
    ∃ (t t' : Tree) (inp : List Nat),
      t.Valid (detectorGrammar m) ∧ t.root = .n DetGen.macroNT ∧
      t'.Valid (detectorGrammar m) ∧ t'.root = .n DetGen.macroNT ∧
      (∃ a rest, inp = t.yield ++ a :: rest ∧
        a ≤ ((detectorGrammar m).augment DetGen.macroNT Tok.T_EOF).maxTerminal) ∧
      (∃ a rest, inp = t'.yield ++ a :: rest ∧
        a ≤ ((detectorGrammar m).augment DetGen.macroNT Tok.T_EOF).maxTerminal) ∧ t ≠ t' := by
  have hmax := det_maxT_ge m
  have hvalid : ∀ s : Tree, s.Valid (detectorGrammar m) → s.root = ruleSym last →
      (Tree.node DetGen.macroNT 0 (Forest.ofList (init.map sample ++ [s]))).Valid (detectorGrammar m) := by
    intro s hs hr
    refine ⟨?_, ?_⟩
    · rw [det_alts_macro, roots_ofList, hm]
      simp [sample_root, hr]
    · apply valid_ofList
      intro t ht
      rcases List.mem_append.mp ht with ht | ht
      · obtain ⟨x, _, rfl⟩ := List.mem_map.mp ht
        exact sample_valid m x
      · simp only [List.mem_singleton] at ht; subst ht; exact hs
  have hyield : ∀ s : Tree, (Tree.node DetGen.macroNT 0 (Forest.ofList (init.map sample ++ [s]))).yield =
      ((init.map sample).map Tree.yield).flatten ++ s.yield := by
    intro s
    simp [Tree.yield, yield_ofList]
  refine ⟨Tree.node DetGen.macroNT 0 (Forest.ofList (init.map sample ++ [s1])),
    Tree.node DetGen.macroNT 0 (Forest.ofList (init.map sample ++ [s2])),
    ((init.map sample).map Tree.yield).flatten ++ s2.yield ++ [0],
    hvalid s1 h1 hr1, rfl, hvalid s2 h2 hr2, rfl, ?_, ?_, ?_⟩
  · refine ⟨sep, y' ++ [0], ?_, by omega⟩
    rw [hyield, hy]; simp
  · refine ⟨0, [], ?_, by omega⟩
    rw [hyield]
  · intro h
    have := congrArg Tree.yield h
    rw [hyield, hyield, hy] at this
    have := congrArg List.length this
    simp at this

theorem ends_nondet (m : MacroDef) (last : Token) (hl : m.rule.getLast? = some last)
    (hk : last.kind = Tok.PROG_TEMP ∨ last.kind = Tok.ARGS_TEMP) :
    ∃ (t t' : Tree) (inp : List Nat),
      t.Valid (detectorGrammar m) ∧ t.root = .n DetGen.macroNT ∧
      t'.Valid (detectorGrammar m) ∧ t'.root = .n DetGen.macroNT ∧
      (∃ a rest, inp = t.yield ++ a :: rest ∧
        a ≤ ((detectorGrammar m).augment DetGen.macroNT Tok.T_EOF).maxTerminal) ∧
      (∃ a rest, inp = t'.yield ++ a :: rest ∧
        a ≤ ((detectorGrammar m).augment DetGen.macroNT Tok.T_EOF).maxTerminal) ∧ t ≠ t' := by
  obtain ⟨init, hm⟩ := List.getLast?_eq_some_iff.mp hl
  obtain ⟨_, _, _, ha, ha2, hp, hp2⟩ := fixed_trees_valid m
  rcases hk with hk | hk
  · have hs : ruleSym last = .n 4 := by simp [ruleSym, DetGen.slotNT, hk, Tok.PROG_TEMP]
    exact two_trees m init last hm progT progT2 hp hp2 (by rw [hs]; rfl) (by rw [hs]; rfl) 7 [18]
      (by simp [progT2, progT, stmtT, Tree.yield, Forest.yield]) (by decide)
  · have hs : ruleSym last = .n 3 := by simp [ruleSym, DetGen.slotNT, hk, Tok.ARGS_TEMP]
    exact two_trees m init last hm argsT argsT2 ha ha2 (by rw [hs]; rfl) (by rw [hs]; rfl) 6 [1]
      (by simp [argsT2, argsT, valT, idT, Tree.yield, Forest.yield]) (by decide)

/-! ## 4. the driver, generically: homomorphic values, invariants with a step counter -/

/-- a map of tokens and a homomorphism of semantic values commute with the driver -/
theorem lrParse_hom {τ₁ τ₂ V₁ V₂ : Type} (T : Tables) (term₁ : τ₁ → Nat) (term₂ : τ₂ → Nat)
    (leaf₁ : τ₁ → V₁) (leaf₂ : τ₂ → V₂) (act₁ : Nat → Nat → List V₁ → V₁)
    (act₂ : Nat → Nat → List V₂ → V₂) (g : τ₁ → τ₂) (f : V₁ → V₂)
    (hterm : ∀ x, term₂ (g x) = term₁ x) (hleaf : ∀ x, leaf₂ (g x) = f (leaf₁ x))
    (hact : ∀ l a popped, act₂ l a (popped.map f) = f (act₁ l a popped))
    (fuel : Nat) : ∀ (inp : List τ₁) (sts : List Nat) (vs : List V₁),
    lrParse T term₂ leaf₂ act₂ fuel (inp.map g) sts (vs.map f) =
      pmap f (lrParse T term₁ leaf₁ act₁ fuel inp sts vs) := by
  induction fuel with
  | zero => intro inp sts vs; simp [lrParse, pmap]
  | succ fuel ih =>
    intro inp sts vs
    cases sts with
    | nil => simp [lrParse, pmap]
    | cons s srest =>
      cases inp with
      | nil => simp [lrParse, pmap]
      | cons x xs =>
        simp only [lrParse, List.map_cons, hterm]
        cases hrow : T.action[s]? with
        | none => simp [pmap]
        | some row =>
          simp only []
          by_cases hlen : row.length ≤ term₁ x
          · simp [hlen, pmap]
          · simp only [hlen, if_false]
            cases hc : (row[term₁ x]?).getD .err with
            | err => simp [pmap]
            | shift s' =>
              simp only []
              have := ih xs (s' :: s :: srest) (leaf₁ x :: vs)
              simpa [hleaf] using this
            | accept =>
              cases vs with
              | nil => simp [pmap]
              | cons v vs => simp [pmap]
            | reduce left alt beta =>
              simp only [List.length_map, List.length_cons]
              by_cases hb : vs.length < beta ∨ srest.length + 1 ≤ beta
              · simp [hb, pmap]
              · simp only [hb, if_false]
                cases hd : (s :: srest).drop beta with
                | nil => simp [pmap]
                | cons sp rest' =>
                  simp only []
                  cases hg : ((T.goto[sp]?).bind (·[left]?)) with
                  | none => simp [pmap]
                  | some j =>
                    simp only []
                    by_cases hj : j < 0
                    · simp [hj, pmap]
                    · simp only [hj, if_false]
                      have := ih (x :: xs) (j.toNat :: sp :: rest')
                        (act₁ left alt (vs.take beta) :: vs.drop beta)
                      rw [← this]
                      simp [← hact, List.map_take, List.map_drop]

/-- an invariant `P` (indexed by the number of steps) preserved by shifts and reductions holds in
    the accepting configuration; the run accepts after exactly that many steps -/
theorem lrParse_inv {τ V : Type} (T : Tables) (term : τ → Nat) (leaf : τ → V)
    (act : Nat → Nat → List V → V) (P : Nat → List τ → List Nat → List V → Prop)
    (hshift : ∀ (n : Nat) (x : τ) (xs : List τ) (s : Nat) (srest : List Nat) (vals : List V)
      (row : List Action) (s' : Nat), T.action[s]? = some row → term x < row.length →
      (row[term x]?).getD .err = .shift s' → P n (x :: xs) (s :: srest) vals →
      P (n + 1) xs (s' :: s :: srest) (leaf x :: vals))
    (hred : ∀ (n : Nat) (x : τ) (xs : List τ) (s : Nat) (srest : List Nat) (vals : List V)
      (row : List Action) (l al beta sp : Nat) (rest' : List Nat) (j : Int),
      T.action[s]? = some row → term x < row.length →
      (row[term x]?).getD .err = .reduce l al beta → beta ≤ vals.length →
      (s :: srest).drop beta = sp :: rest' → (T.goto[sp]?).bind (·[l]?) = some j → 0 ≤ j →
      P n (x :: xs) (s :: srest) vals →
      P (n + 1) (x :: xs) (j.toNat :: sp :: rest') (act l al (vals.take beta) :: vals.drop beta)) :
    ∀ (fuel n : Nat) (inp : List τ) (sts : List Nat) (vals : List V) (v : V),
      P n inp sts vals → lrParse T term leaf act fuel inp sts vals = .accept v →
      ∃ (k : Nat) (x : τ) (xs : List τ) (s : Nat) (srest : List Nat) (vals' : List V) (row : List Action),
        P (n + k) (x :: xs) (s :: srest) (v :: vals') ∧
        T.action[s]? = some row ∧ term x < row.length ∧ (row[term x]?).getD .err = .accept ∧
        lrParse T term leaf act (k + 1) inp sts vals = .accept v := by
  intro fuel
  induction fuel with
  | zero => intro n inp sts vals v _ h; simp [lrParse] at h
  | succ fuel ih =>
    intro n inp sts vals v hP h
    cases sts with
    | nil => simp [lrParse] at h
    | cons s srest =>
      cases inp with
      | nil => simp [lrParse] at h
      | cons x xs =>
        simp only [lrParse] at h
        cases hrow : T.action[s]? with
        | none => rw [hrow] at h; simp at h
        | some row =>
          rw [hrow] at h
          simp only [] at h
          by_cases hlen : row.length ≤ term x
          · simp [hlen] at h
          · simp only [hlen, if_false] at h
            have hx : term x < row.length := by omega
            cases hc : (row[term x]?).getD .err with
            | err => rw [hc] at h; simp at h
            | shift s' =>
              rw [hc] at h
              simp only [] at h
              obtain ⟨k, x', xs', s2, srest2, vals', row', hP', hr', hx', hc', hrun⟩ :=
                ih (n + 1) _ _ _ v (hshift n x xs s srest vals row s' hrow hx hc hP) h
              refine ⟨k + 1, x', xs', s2, srest2, vals', row', ?_, hr', hx', hc', ?_⟩
              · rw [show n + (k + 1) = n + 1 + k by omega]; exact hP'
              · simp only [lrParse, hrow, hc]
                simp only [hlen, if_false]
                exact hrun
            | accept =>
              rw [hc] at h
              simp only [] at h
              cases vals with
              | nil => simp at h
              | cons v0 vs =>
                simp only [ParseOut.accept.injEq] at h
                subst h
                refine ⟨0, x, xs, s, srest, vs, row, hP, hrow, hx, hc, ?_⟩
                simp only [lrParse, hrow, hc]
                simp [hlen]
            | reduce l al beta =>
              rw [hc] at h
              simp only [] at h
              by_cases hb : vals.length < beta ∨ (s :: srest).length ≤ beta
              · rw [if_pos hb] at h; simp at h
              · simp only [hb, if_false] at h
                cases hd : (s :: srest).drop beta with
                | nil => rw [hd] at h; simp at h
                | cons sp rest' =>
                  rw [hd] at h
                  simp only [] at h
                  cases hg : ((T.goto[sp]?).bind (·[l]?)) with
                  | none => rw [hg] at h; simp at h
                  | some j =>
                    rw [hg] at h
                    simp only [] at h
                    by_cases hj : j < 0
                    · simp [hj] at h
                    · simp only [hj, if_false] at h
                      obtain ⟨k, x', xs', s2, srest2, vals', row', hP', hr', hx', hc', hrun⟩ :=
                        ih (n + 1) _ _ _ v
                          (hred n x xs s srest vals row l al beta sp rest' j hrow hx hc (by simp only [List.length_cons] at hb; omega) hd hg
                            (by omega) hP) h
                      refine ⟨k + 1, x', xs', s2, srest2, vals', row', ?_, hr', hx', hc', ?_⟩
                      · rw [show n + (k + 1) = n + 1 + k by omega]; exact hP'
                      · simp only [lrParse, hrow, hc]
                        simp only [hlen, if_false, hb, hd, hg, hj]
                        exact hrun

/-! ## 5. the detector run with (tree, accumulation) pairs as values -/

mutual
/-- the accumulation computed for a tree from exactly the tokens it derives -/
def tval : Tree → List Token → Accum
  | .leaf _, ts => accLeaf (ts.headD default)
  | .node l a cs, ts => accAct l a (tvalRev cs ts)
/-- the accumulations of a forest, last tree first; the tokens are distributed by yield length -/
def tvalRev : Forest → List Token → List Accum
  | .nil, _ => []
  | .cons t f, ts => tvalRev f (ts.drop t.yield.length) ++ [tval t (ts.take t.yield.length)]
end

mutual
/-- number of leaves and inner nodes -/
def nodes : Tree → Nat
  | .leaf _ => 1
  | .node _ _ cs => fnodes cs + 1
def fnodes : Forest → Nat
  | .nil => 0
  | .cons t f => nodes t + fnodes f
end

theorem fnodes_ofList (ts : List Tree) : fnodes (Forest.ofList ts) = (ts.map nodes).sum := by
  induction ts with
  | nil => rfl
  | cons t ts ih => simp [Forest.ofList, fnodes, ih]

theorem tvalRev_snoc (t : Tree) : ∀ (l : List Tree) (seg' seg : List Token),
    seg'.length = (Forest.ofList l).yield.length → seg.length = t.yield.length →
    tvalRev (Forest.ofList (l ++ [t])) (seg' ++ seg) = tval t seg :: tvalRev (Forest.ofList l) seg' := by
  intro l
  induction l with
  | nil =>
    intro seg' seg h1 h2
    simp only [Forest.ofList, Forest.yield, List.length_nil, List.length_eq_zero_iff] at h1
    subst h1
    simp [Forest.ofList, tvalRev, ← h2]
  | cons u l ih =>
    intro seg' seg h1 h2
    simp only [Forest.ofList, Forest.yield, List.length_append] at h1
    simp only [List.cons_append, Forest.ofList, tvalRev]
    have hd : (seg' ++ seg).drop u.yield.length = seg'.drop u.yield.length ++ seg := by
      rw [List.drop_append_of_le_length (by omega)]
    have ht : (seg' ++ seg).take u.yield.length = seg'.take u.yield.length := by
      rw [List.take_append_of_le_length (by omega)]
    rw [hd, ht, ih _ _ (by simp; omega) h2]
    simp

abbrev kindOf (t : Token) : Nat := t.kind

/-- the value stack (top first) is the decoration of its trees by the consumed tokens -/
inductive SRel : List (Tree × Accum) → List Token → Prop
  | nil : SRel [] []
  | cons {vs : List (Tree × Accum)} {c seg : List Token} {t : Tree} :
      SRel vs c → seg.map kindOf = t.yield → SRel ((t, tval t seg) :: vs) (c ++ seg)

theorem srel_split {vs : List (Tree × Accum)} {c : List Token} (h : SRel vs c) :
    ∀ beta, beta ≤ vs.length → ∃ c0 seg, SRel (vs.drop beta) c0 ∧ c = c0 ++ seg ∧
      seg.map kindOf = (Forest.ofList ((vs.take beta).map Prod.fst).reverse).yield ∧
      tvalRev (Forest.ofList ((vs.take beta).map Prod.fst).reverse) seg = (vs.take beta).map Prod.snd := by
  induction h with
  | nil =>
    intro beta hb
    simp only [List.length_nil, Nat.le_zero] at hb
    subst hb
    exact ⟨[], [], SRel.nil, rfl, rfl, rfl⟩
  | @cons vs c seg t hprev hseg ih =>
    intro beta hb
    cases beta with
    | zero => exact ⟨c ++ seg, [], SRel.cons hprev hseg, by simp, rfl, rfl⟩
    | succ beta =>
      obtain ⟨c0, seg', h1, h2, h3, h4⟩ := ih beta (by simpa using hb)
      refine ⟨c0, seg' ++ seg, by simpa using h1, by rw [h2, List.append_assoc], ?_, ?_⟩
      · simp only [List.take_succ_cons, List.map_cons, List.reverse_cons, List.map_append, h3, hseg]
        simp [yield_ofList]
      · simp only [List.take_succ_cons, List.map_cons, List.reverse_cons]
        rw [tvalRev_snoc, h4]
        · have := congrArg List.length h3
          simpa using this
        · have := congrArg List.length hseg
          simpa using this

def pleaf (x : Token) : Tree × Accum := (Tree.leaf x.kind, accLeaf x)
def pact (l a : Nat) (popped : List (Tree × Accum)) : Tree × Accum :=
  (nodeAct l a (popped.map Prod.fst), accAct l a (popped.map Prod.snd))

/-- the driver on tokens computing the tree and the accumulation side by side -/
abbrev prun (T : Tables) (fuel : Nat) (inp : List Token) (sts : List Nat) (vals : List (Tree × Accum)) :
    ParseOut (Tree × Accum) :=
  lrParse T kindOf pleaf pact fuel inp sts vals

theorem prun_fst (T : Tables) (fuel : Nat) (inp : List Token) :
    lrParseTree T fuel (inp.map kindOf) = pmap Prod.fst (prun T fuel inp [0] []) := by
  have := lrParse_hom T kindOf (fun (t : Nat) => t) pleaf Tree.leaf pact nodeAct kindOf Prod.fst
    (fun _ => rfl) (fun _ => rfl) (fun _ _ _ => rfl) fuel inp [0] []
  simpa [lrParseTree] using this

theorem prun_snd (T : Tables) (fuel : Nat) (inp : List Token) :
    lrParse T kindOf accLeaf accAct fuel inp [0] [] = pmap Prod.snd (prun T fuel inp [0] []) := by
  have := lrParse_hom T kindOf kindOf pleaf accLeaf pact accAct id Prod.snd
    (fun _ => rfl) (fun _ => rfl) (fun _ _ _ => rfl) fuel inp [0] []
  simpa using this

theorem srel_single {t : Tree} {a : Accum} {c : List Token} (h : SRel [(t, a)] c) :
    c.map kindOf = t.yield ∧ a = tval t c := by
  cases h with
  | cons hprev hseg =>
    cases hprev
    exact ⟨by simpa using hseg, by simp⟩

/-- an accepting run of the pair driver: the tree's tokens are a proper prefix of the input, the
    accumulation is the decoration of the tree, and the run takes `nodes t + 1` steps -/
theorem prun_accept (g : Grammar) (start eof : Nat) (pm : Bool) (sfuel : Nat)
    (hg : g.Closed) (hs : start < g.numNT) (fuel : Nat) (inp : List Token) (t : Tree) (a : Accum)
    (h : prun (genTables g start eof pm sfuel).1 fuel inp [0] [] = .accept (t, a)) :
    ∃ cons x xs, inp = cons ++ x :: xs ∧ cons.map kindOf = t.yield ∧ a = tval t cons ∧
      prun (genTables g start eof pm sfuel).1 (nodes t + 1) inp [0] [] = .accept (t, a) := by
  have hS := collection_inv (g.augment start eof) (firstSets (g.augment start eof)) g.numNT eof sfuel
  have hT := genTables_ok g start eof pm sfuel
  generalize hSdef : collection (g.augment start eof) (firstSets (g.augment start eof)) g.numNT eof sfuel = S
    at hS hT
  generalize (genTables g start eof pm sfuel).1 = T at hT h ⊢
  let P : Nat → List Token → List Nat → List (Tree × Accum) → Prop := fun n inp' sts vals =>
    (∃ q qs, sts = q :: qs ∧ Stk S q qs (vals.map (fun p => p.1.root))) ∧
    (vals.map (fun p => nodes p.1)).sum = n ∧ ∃ cons, SRel vals cons ∧ cons ++ inp' = inp
  have hmain := lrParse_inv T kindOf pleaf pact P ?_ ?_ fuel 0 inp [0] [] (t, a)
    ⟨⟨0, [], rfl, Stk.base⟩, rfl, [], SRel.nil, rfl⟩ h
  · obtain ⟨k, x, xs, s, srest, vals', row, ⟨⟨q, qs, hsts, hstk⟩, hsum, cons, hrel, hinp⟩, hrow, hx, hc, hrun⟩ :=
      hmain
    cases hsts
    obtain ⟨st, hst, hrowok⟩ := hT.1 s row hrow
    have hcell := hrowok (kindOf x)
    rw [hc] at hcell
    obtain ⟨it, hit, hdot, hl, _⟩ := hcell
    have ok := stk_items g start eof _ S hg hs hS hstk st hst it hit
    have hl' : it.left = g.numNT := by rw [hl, augment_numNT]; omega
    obtain ⟨_, hrhs, _⟩ := good_S g start eof hg ok.good hl'
    have hd1 : it.dot = 1 := by rw [hdot, hrhs]; rfl
    have hsyms := ok.s1 hl' hd1
    simp only [List.map_cons, List.cons.injEq, List.map_eq_nil_iff] at hsyms
    obtain ⟨_, hvs⟩ := hsyms
    subst hvs
    obtain ⟨hy, ha⟩ := srel_single hrel
    simp only [List.map_cons, List.map_nil, List.sum_cons, List.sum_nil, Nat.add_zero, Nat.zero_add] at hsum
    rw [hsum]
    exact ⟨cons, x, xs, hinp.symm, hy, ha, hrun⟩
  · -- shift
    intro n x xs s srest vals row s' hrow hx hc ⟨⟨q, qs, hsts, hstk⟩, hsum, cons, hrel, hinp⟩
    cases hsts
    obtain ⟨st, hst, hrowok⟩ := hT.1 s row hrow
    have hcell := hrowok (kindOf x)
    rw [hc] at hcell
    refine ⟨⟨s', s :: srest, rfl, Stk.push hstk hst hcell⟩, ?_, cons ++ [x], ?_, ?_⟩
    · simp only [List.map_cons, List.sum_cons, pleaf, nodes, hsum]; omega
    · have := SRel.cons (t := Tree.leaf x.kind) (seg := [x]) hrel rfl
      simpa [tval, pleaf] using this
    · rw [← hinp]; simp
  · -- reduce
    intro n x xs s srest vals row l al beta sp rest' j hrow hx hc hbeta hd hgo hj0
      ⟨⟨q, qs, hsts, hstk⟩, hsum, cons, hrel, hinp⟩
    cases hsts
    refine ⟨?_, ?_, ?_⟩
    · obtain ⟨q', qs', hd', hstk'⟩ := stk_drop hstk beta (by simpa using hbeta)
      rw [hd] at hd'
      cases hd'
      obtain ⟨grow, hgrow1, hgrow2⟩ := Option.bind_eq_some_iff.mp hgo
      obtain ⟨stp, hstp, hgrowok⟩ := hT.2 sp grow hgrow1
      have htr := hgrowok l j hgrow2 hj0
      refine ⟨j.toNat, sp :: rest', rfl, ?_⟩
      have := Stk.push hstk' hstp htr
      simpa [pact, Tree.root, List.map_drop] using this
    · have h1 := congrArg (fun l => (l.map (fun p : Tree × Accum => nodes p.1)).sum)
        (List.take_append_drop beta vals)
      simp only [List.map_append, List.sum_append] at h1
      simp only [List.map_cons, List.sum_cons, pact, nodes, fnodes_ofList, List.map_reverse,
        List.sum_reverse, List.map_map]
      simp only [Function.comp_def]
      omega
    · obtain ⟨c0, seg, h1, h2, h3, h4⟩ := srel_split hrel beta hbeta
      refine ⟨c0 ++ seg, ?_, by rw [← h2]; exact hinp⟩
      have := SRel.cons (t := Tree.node l al (Forest.ofList ((vals.take beta).map Prod.fst).reverse))
        (seg := seg) h1 (by simpa [Tree.yield] using h3)
      have hv : pact l al (vals.take beta) =
          (Tree.node l al (Forest.ofList ((vals.take beta).map Prod.fst).reverse),
            tval (Tree.node l al (Forest.ofList ((vals.take beta).map Prod.fst).reverse)) seg) := by
        simp only [pact, tval, h4]
      rw [hv]; exact this

/-! ## 6. valid trees of the detector grammar: size, and what the accumulation is -/

/-- height of the longest chain of unit rules below a symbol -/
def rank : Sym → Nat
  | .n 0 => 1 | .n 1 => 1 | .n 2 => 2 | .n 3 => 3 | .n 4 => 3 | .n 5 => 2 | .n 6 => 1 | _ => 0

theorem rank_le (s : Sym) : rank s ≤ 3 := by
  unfold rank; split <;> omega

theorem fixed_rank : ∀ e ∈ fixedProds, ∀ a ∈ e.2,
    10 + (a.map rank).sum ≤ 9 * a.length + rank (.n e.1) := by decide

theorem sum_rank_le (l : List Sym) : (l.map rank).sum ≤ 9 * l.length := by
  induction l with
  | nil => simp
  | cons s l ih => have := rank_le s; simp only [List.map_cons, List.sum_cons, List.length_cons]; omega

theorem det_rule_facts (m : MacroDef) (l a : Nat) (rhs : List Sym)
    (h : ((detectorGrammar m).alts l)[a]? = some rhs) :
    (∀ s ∈ rhs, s ≠ .n DetGen.macroNT) ∧
    (l ≠ DetGen.macroNT → 10 + (rhs.map rank).sum ≤ 9 * rhs.length + rank (.n l)) := by
  obtain ⟨e, he, hn, hr⟩ := alts_entry (List.mem_of_getElem? h)
  rw [det_prods] at he
  rcases List.mem_append.mp he with he | he
  · refine ⟨?_, fun _ => ?_⟩
    · intro s hs hs7
      have := (fixed_sym e he rhs hr s hs).2 7 hs7
      omega
    · rw [← hn]; exact fixed_rank e he rhs hr
  · simp only [List.mem_singleton] at he
    subst he
    simp only [List.mem_singleton] at hr
    subst hr
    refine ⟨?_, fun hl => absurd hn.symm hl⟩
    intro s hs hs7
    obtain ⟨t, _, rfl⟩ := List.mem_map.mp hs
    rcases ruleSym_cases t with h' | ⟨j, hj, h', _⟩
    · rw [h'] at hs7; cases hs7
    · rw [h'] at hs7; cases hs7; simp [DetGen.macroNT] at hj

mutual
theorem nodes_bound (m : MacroDef) : (t : Tree) → t.Valid (detectorGrammar m) →
    t.root ≠ .n DetGen.macroNT → nodes t + 9 ≤ 10 * t.yield.length + rank t.root
  | .leaf k, _, _ => by simp [nodes, Tree.yield, Tree.root, rank]
  | .node l a cs, hv, hr => by
    have hl : l ≠ DetGen.macroNT := by intro h; apply hr; simp [Tree.root, h]
    obtain ⟨h1, h2⟩ := det_rule_facts m l a cs.roots hv.1
    have := fnodes_bound m cs hv.2 h1
    have := h2 hl
    simp only [nodes, Tree.yield, Tree.root]
    omega
theorem fnodes_bound (m : MacroDef) : (f : Forest) → f.Valid (detectorGrammar m) →
    (∀ s ∈ f.roots, s ≠ .n DetGen.macroNT) →
    fnodes f + 9 * f.roots.length ≤ 10 * f.yield.length + (f.roots.map rank).sum
  | .nil, _, _ => by simp [fnodes, Forest.roots, Forest.yield]
  | .cons t f, hv, hr => by
    have := nodes_bound m t hv.1 (hr _ (by simp [Forest.roots]))
    have := fnodes_bound m f hv.2 (fun s hs => hr s (by simp [Forest.roots, hs]))
    simp only [fnodes, Forest.roots, Forest.yield, List.length_cons, List.length_append, List.map_cons,
      List.sum_cons]
    omega
end

theorem macro_nodes_bound (m : MacroDef) (k : Nat) (cs : Forest)
    (hv : (Tree.node DetGen.macroNT k cs).Valid (detectorGrammar m)) :
    nodes (Tree.node DetGen.macroNT k cs) ≤ 10 * cs.yield.length + 1 := by
  obtain ⟨h1, _⟩ := det_rule_facts m _ k cs.roots hv.1
  have := fnodes_bound m cs hv.2 h1
  have := sum_rank_le cs.roots
  simp only [nodes]
  omega

mutual
theorem tval_total (m : MacroDef) : (t : Tree) → (seg : List Token) → t.Valid (detectorGrammar m) →
    t.root ≠ .n DetGen.macroNT → seg.map kindOf = t.yield → (tval t seg).total = seg
  | .leaf k, seg, _, _, hs => by
    match seg, hs with
    | [x], _ => simp [tval, accLeaf]
  | .node l a cs, seg, hv, hr, hs => by
    have hl : l ≠ DetGen.macroNT := by intro h; apply hr; simp [Tree.root, h]
    obtain ⟨h1, _⟩ := det_rule_facts m l a cs.roots hv.1
    have := (tvalRev_split m cs seg hv.2 h1 hs).1
    simp only [tval, accAct, if_neg hl]
    rw [List.flatMap_def, List.map_reverse]
    exact this
theorem tvalRev_split (m : MacroDef) : (f : Forest) → (seg : List Token) → f.Valid (detectorGrammar m) →
    (∀ s ∈ f.roots, s ≠ .n DetGen.macroNT) → seg.map kindOf = f.yield →
    (((tvalRev f seg).map (·.total)).reverse).flatten = seg ∧
    (((tvalRev f seg).map (·.total)).reverse).map (fun ts => ts.map kindOf) = f.toList.map Tree.yield
  | .nil, seg, _, _, hs => by
    simp only [Forest.yield, List.map_eq_nil_iff] at hs
    subst hs
    simp [tvalRev, Forest.toList]
  | .cons t f, seg, hv, hr, hs => by
    simp only [Forest.yield] at hs
    have ht : (seg.take t.yield.length).map kindOf = t.yield := by
      rw [List.map_take, hs, List.take_left']; rfl
    have hf : (seg.drop t.yield.length).map kindOf = f.yield := by
      rw [List.map_drop, hs, List.drop_left']; rfl
    have h1 := tval_total m t _ hv.1 (hr _ (by simp [Forest.roots])) ht
    obtain ⟨h2, h3⟩ := tvalRev_split m f _ hv.2 (fun s hs => hr s (by simp [Forest.roots, hs])) hf
    simp only [tvalRev, List.map_append, List.map_cons, List.map_nil, List.reverse_append,
      List.reverse_cons, List.reverse_nil, List.nil_append, List.cons_append, List.flatten_cons,
      Forest.toList, h1, h2, h3, ht, List.take_append_drop, and_self]
end

/-- the accumulation of a `MACRO` tree: the split is the list of token ranges of the pattern's symbols -/
theorem macro_value (m : MacroDef) (k : Nat) (cs : Forest)
    (hv : (Tree.node DetGen.macroNT k cs).Valid (detectorGrammar m)) (seg : List Token)
    (hs : seg.map kindOf = cs.yield) :
    (tval (Tree.node DetGen.macroNT k cs) seg).split.flatten = seg ∧
    (tval (Tree.node DetGen.macroNT k cs) seg).total.length = seg.length ∧
    (tval (Tree.node DetGen.macroNT k cs) seg).split.map (fun ts => ts.map (·.kind)) =
      cs.toList.map Tree.yield := by
  obtain ⟨h1, _⟩ := det_rule_facts m _ k cs.roots hv.1
  obtain ⟨h2, h3⟩ := tvalRev_split m cs seg hv.2 h1 hs
  simp only [tval, accAct, if_pos]
  refine ⟨h2, ?_, h3⟩
  have := congrArg List.length h2
  simp only [List.length_flatten, List.map_reverse, List.sum_reverse, List.map_map] at this
  rw [← this, List.length_flatMap]
  rfl

/-! ## 7. C09 -/

abbrev detT (m : MacroDef) : Tables :=
  (genTables (detectorGrammar m) DetGen.macroNT Tok.T_EOF true detectorStateFuel).1

theorem detectAt_eq (m : MacroDef) (inp : List Token) :
    detectAt (mkDetector m) inp =
      match prun (detT m) (detectFuel inp.length) inp [0] [] with
      | .accept p => some p.2
      | _ => none := by
  unfold detectAt
  show (match lrParse (detT m) kindOf accLeaf accAct (detectFuel inp.length) inp [0] [] with
    | .accept v => some v
    | _ => none) = _
  rw [prun_snd]
  cases prun (detT m) (detectFuel inp.length) inp [0] [] <;> rfl

theorem match_derives (m : MacroDef) (inp : List Token) (a : Accum)
    (h : detectAt (mkDetector m) inp = some a) :
    ∃ (k : Nat) (cs : Forest),
      (Tree.node DetGen.macroNT k cs).Valid (detectorGrammar m) ∧
      cs.roots = m.rule.map ruleSym ∧
      a.split.flatten = inp.take a.total.length ∧
      a.total.length ≤ inp.length ∧
      a.split.map (fun ts => ts.map (·.kind)) = cs.toList.map Tree.yield := by
  rw [detectAt_eq] at h
  cases hp : prun (detT m) (detectFuel inp.length) inp [0] [] with
  | reject => rw [hp] at h; simp at h
  | stuck => rw [hp] at h; simp at h
  | fuelOut => rw [hp] at h; simp at h
  | accept p =>
    rw [hp] at h
    simp only [Option.some.injEq] at h
    obtain ⟨t, a'⟩ := p
    simp only at h
    subst h
    obtain ⟨cons, x, xs, hinp, hy, ha, _⟩ := prun_accept (detectorGrammar m) DetGen.macroNT Tok.T_EOF true
      detectorStateFuel (det_closed m) (det_start_lt m) _ inp t a' hp
    have htree : lrParseTree (detT m) (detectFuel inp.length) (inp.map kindOf) = .accept t := by
      rw [prun_fst, hp]; rfl
    obtain ⟨hval, hroot, _⟩ := sound_prefix (detectorGrammar m) DetGen.macroNT Tok.T_EOF detectorStateFuel
      _ _ t (det_closed m) (det_start_lt m) htree
    cases t with
    | leaf k => simp [Tree.root] at hroot
    | node l k cs =>
      simp only [Tree.root, Sym.n.injEq] at hroot
      subst hroot
      have hk := hval.1
      rw [det_alts_macro] at hk
      have hroots : cs.roots = m.rule.map ruleSym := by
        cases k with
        | zero => simpa using hk.symm
        | succ k => simp at hk
      simp only [Tree.yield] at hy
      obtain ⟨h1, h2, h3⟩ := macro_value m k cs hval cons hy
      rw [← ha] at h1 h2 h3
      refine ⟨k, cs, hval, hroots, ?_, ?_, h3⟩
      · rw [h2, hinp, List.take_left']; exact h1
        rfl
      · rw [h2, hinp]; simp

theorem match_complete (m : MacroDef)
    (hf : (genTables (detectorGrammar m) DetGen.macroNT Tok.T_EOF true detectorStateFuel).2 < detectorStateFuel)
    (hc : (mkDetector m).tables.conflicts = [])
    (k : Nat) (cs : Forest) (hv : (Tree.node DetGen.macroNT k cs).Valid (detectorGrammar m))
    (inp : List Token) (n : Nat) (hn : n < inp.length)
    (hy : (inp.take n).map (·.kind) = cs.yield)
    (hk : ∀ t ∈ inp, t.kind ≤ Tok.WITH) :
    ∃ a, detectAt (mkDetector m) inp = some a ∧ a.total.length = n ∧
      a.split.map (fun ts => ts.map (·.kind)) = cs.toList.map Tree.yield := by
  have hlen : cs.yield.length = n := by
    rw [← hy]; simp; omega
  have hsplit : inp.map kindOf = (Tree.node DetGen.macroNT k cs).yield ++
      (inp[n]).kind :: (inp.drop (n + 1)).map kindOf := by
    have h1 : inp = inp.take n ++ inp[n] :: inp.drop (n + 1) := by
      rw [← List.drop_eq_getElem_cons hn, List.take_append_drop]
    conv => lhs; rw [h1]
    simp only [List.map_append, List.map_cons, Tree.yield]
    rw [← hy]
  have ha : (inp[n]).kind ≤ ((detectorGrammar m).augment DetGen.macroNT Tok.T_EOF).maxTerminal :=
    Nat.le_trans (hk _ (List.getElem_mem hn)) (det_maxT_ge m)
  obtain ⟨fuel, hfuel⟩ := complete_prefix (detectorGrammar m) DetGen.macroNT Tok.T_EOF detectorStateFuel
    (Tree.node DetGen.macroNT k cs) _ ((inp.drop (n + 1)).map kindOf) (det_closed m) (det_start_lt m)
    hv rfl ha hc hf
  rw [← hsplit] at hfuel
  -- the pair run accepts, after `nodes t + 1` steps
  have hfuel' : lrParseTree (detT m) fuel (inp.map kindOf) = .accept (Tree.node DetGen.macroNT k cs) := hfuel
  rw [prun_fst] at hfuel'
  cases hp : prun (detT m) fuel inp [0] [] with
  | reject => rw [hp] at hfuel'; simp [pmap] at hfuel'
  | stuck => rw [hp] at hfuel'; simp [pmap] at hfuel'
  | fuelOut => rw [hp] at hfuel'; simp [pmap] at hfuel'
  | accept p =>
    rw [hp] at hfuel'
    obtain ⟨t, a0⟩ := p
    simp only [pmap, ParseOut.accept.injEq] at hfuel'
    subst hfuel'
    obtain ⟨_, _, _, _, _, _, hsteps⟩ := prun_accept (detectorGrammar m) DetGen.macroNT Tok.T_EOF true
      detectorStateFuel (det_closed m) (det_start_lt m) _ inp _ a0 hp
    have hbound := macro_nodes_bound m k cs hv
    have htree : lrParseTree (detT m) (nodes (Tree.node DetGen.macroNT k cs) + 1) (inp.map kindOf) =
        .accept (Tree.node DetGen.macroNT k cs) := by
      rw [prun_fst]
      show pmap Prod.fst (prun (detT m) _ inp [0] []) = _
      rw [hsteps]; rfl
    have htree2 := fuel_mono (detT m) _
      (detectFuel inp.length - (nodes (Tree.node DetGen.macroNT k cs) + 1)) _ _ htree (by simp)
    have hfe : nodes (Tree.node DetGen.macroNT k cs) + 1 +
        (detectFuel inp.length - (nodes (Tree.node DetGen.macroNT k cs) + 1)) = detectFuel inp.length := by
      simp only [detectFuel]; omega
    rw [hfe, prun_fst] at htree2
    cases hp2 : prun (detT m) (detectFuel inp.length) inp [0] [] with
    | reject => rw [hp2] at htree2; simp [pmap] at htree2
    | stuck => rw [hp2] at htree2; simp [pmap] at htree2
    | fuelOut => rw [hp2] at htree2; simp [pmap] at htree2
    | accept p2 =>
      rw [hp2] at htree2
      obtain ⟨t2, a1⟩ := p2
      simp only [pmap, ParseOut.accept.injEq] at htree2
      subst htree2
      obtain ⟨cons, x, xs, hinp, hyc, hac, _⟩ := prun_accept (detectorGrammar m) DetGen.macroNT Tok.T_EOF
        true detectorStateFuel (det_closed m) (det_start_lt m) _ inp _ a1 hp2
      simp only [Tree.yield] at hyc
      obtain ⟨_, h2, h3⟩ := macro_value m k cs hv cons hyc
      rw [← hac] at h2 h3
      refine ⟨a1, ?_, ?_, h3⟩
      · rw [detectAt_eq, hp2]
      · rw [h2, ← hlen, ← hyc]; simp

theorem text_constraints (m : MacroDef) (split : List (List Token)) (h : checkConstraint m split = true)
    (ci : Nat) (hci : ci ∈ m.cc) :
    ∃ req f, m.rule[ci]? = some req ∧ split[ci]? = some [f] ∧ f.text = req.text := by
  unfold checkConstraint at h
  rw [List.all_eq_true] at h
  have := h ci hci
  split at this
  · rename_i req f h1 h2
    exact ⟨req, f, h1, h2, by simpa using this⟩
  · simp at this

end DetectorProofs
end Theo
