/-
  C01 (end to end), part 3: a tree whose source is jump-free (`LoopOnly`: no WHILE, GOTO,
  IF-GOTO) has no jump target at all, so the uniqueness of jump targets (`astLabels`) holds
  trivially.  Used for the LOOP corollary of `C01_compile_correct`.
-/
import Theo.Props.C16Loop
import Theo.Proofs.GenShapeParse

namespace Theo
namespace CompileCorrect
open Sem Static GenShape

theorem loopOnlyStmts_append : ∀ a b : Stmts,
    loopOnlyStmts (a.append b) = (loopOnlyStmts a && loopOnlyStmts b)
  | .nil, b => by simp [Stmts.append, loopOnlyStmts]
  | .cons s ss, b => by
    simp [Stmts.append, loopOnlyStmts, loopOnlyStmts_append ss b, Bool.and_assoc]

/-- a statement tree whose statements are jump-free refers to no label -/
theorem refsOf_nil_of_loopOnly : ∀ (nd : Node) (n : Nat) (ps : List ProgDef),
    loopOnlyStmts (stmtsOf nd n ps).1 = true → refsOf nd = []
  | .nil, _, _, _ => by simp [refsOf]
  | .mk t tok file line l r, n, ps, h => by
    by_cases h1 : t = NodeT.SPLIT
    · rcases hl : stmtsOf l n ps with ⟨a, n1, ps1⟩
      rcases hr : stmtsOf r n1 ps1 with ⟨b, n2, ps2⟩
      have e : stmtsOf (.mk t tok file line l r) n ps = (a.append b, n2, ps2) := by
        rw [stmtsOf, if_pos h1]
        simp only [hl, hr]
      rw [e] at h
      simp only [loopOnlyStmts_append, Bool.and_eq_true] at h
      have e1 := refsOf_nil_of_loopOnly l n ps (by rw [hl]; exact h.1)
      have e2 := refsOf_nil_of_loopOnly r n1 ps1 (by rw [hr]; exact h.2)
      rw [refsOf, if_pos h1, e1, e2]; rfl
    · by_cases h4 : t = NodeT.LOOP
      · subst h4
        rcases hr : stmtsOf r (n + 1) ps with ⟨body, n1, ps1⟩
        have e : stmtsOf (.mk NodeT.LOOP tok file line l r) n ps =
            (.cons (.loop (n + 1) l.tok body (file, line)) .nil, n1, ps1) := by
          rw [stmtsOf, if_neg (by decide), if_neg (by decide), if_neg (by decide), if_pos rfl]
          simp only [hr]
        rw [e] at h
        simp only [loopOnlyStmts, loopOnlyStmt, Bool.and_true] at h
        have e2 := refsOf_nil_of_loopOnly r (n + 1) ps (by rw [hr]; exact h)
        rw [refsOf, if_neg (by decide), if_pos (Or.inl rfl), e2]
      · by_cases h5 : t = NodeT.WHILE
        · subst h5
          rcases hr : stmtsOf r n ps with ⟨body, n1, ps1⟩
          have e : stmtsOf (.mk NodeT.WHILE tok file line l r) n ps =
              (.cons (.while_ l.tok body (file, line)) .nil, n1, ps1) := by
            rw [stmtsOf, if_neg (by decide), if_neg (by decide), if_neg (by decide),
              if_neg (by decide), if_pos rfl]
            simp only [hr]
          rw [e] at h
          simp [loopOnlyStmts, loopOnlyStmt] at h
        · by_cases h7 : t = NodeT.GOTO
          · subst h7
            have e : stmtsOf (.mk NodeT.GOTO tok file line l r) n ps =
                (.cons (.goto l.tok (file, line)) .nil, n, ps) := by
              rw [stmtsOf, if_neg (by decide), if_neg (by decide), if_neg (by decide),
                if_neg (by decide), if_neg (by decide), if_neg (by decide), if_pos rfl]
            rw [e] at h
            simp [loopOnlyStmts, loopOnlyStmt] at h
          · by_cases h8 : t = NodeT.IF
            · subst h8
              have e : stmtsOf (.mk NodeT.IF tok file line l r) n ps =
                  (.cons (.ifGoto l.left.tok (decVal l.right.tok) r.left.tok (file, line)) .nil,
                    n, ps) := by
                rw [stmtsOf, if_neg (by decide), if_neg (by decide), if_neg (by decide),
                  if_neg (by decide), if_neg (by decide), if_neg (by decide), if_neg (by decide),
                  if_pos rfl]
              rw [e] at h
              simp [loopOnlyStmts, loopOnlyStmt] at h
            · rw [refsOf, if_neg h1, if_neg (by rintro (h | h); exact h4 h; exact h5 h),
                if_neg h7, if_neg h8]

theorem labelsOK_of_loopOnly (nd : Node) (n : Nat) (ps : List ProgDef)
    (h : loopOnlyStmts (stmtsOf nd n ps).1 = true) : labelsOK nd = true := by
  unfold labelsOK
  rw [refsOf_nil_of_loopOnly nd n ps h]
  rfl

/-- the definitions collected so far are kept -/
theorem stmtsOf_progs_mono (nd : Node) (n : Nat) (ps : List ProgDef) :
    ∀ pd ∈ ps, pd ∈ (stmtsOf nd n ps).2.2 := by
  obtain ⟨_, _, _, new, e, _⟩ := LoopHalts.stmtsOf_idSpec nd n ps
  intro pd hpd
  rw [e]
  exact List.mem_append_left _ hpd

/-- jump-free statements and jump-free definitions: every body is free of jump targets -/
theorem astLabels_of_loopOnly : ∀ (root : Node) (n : Nat) (ps : List ProgDef),
    loopOnlyStmts (stmtsOf root n ps).1 = true →
    (∀ pd ∈ (stmtsOf root n ps).2.2, loopOnlyStmts pd.body = true) → astLabels root = true
  | .nil, _, _, _, _ => by rw [astLabels]
  | .mk t tok file line l r, n, ps, h, hp => by
    rw [astLabels]
    split
    · next hc =>
      obtain ⟨h1, h2⟩ := hc
      cases l with
      | nil => exact absurd h2 (by decide)
      | mk lt ltok lf lln ll lr =>
        have h2' : lt = NodeT.PROGRAM := h2
        subst h2'
        rcases hb : stmtsOf lr n ps with ⟨body, n1, ps1⟩
        have el : ∃ nm pr out, stmtsOf (.mk NodeT.PROGRAM ltok lf lln ll lr) n ps =
            (.nil, n1, ps1 ++ [⟨nm, pr, out, body⟩]) := by
          refine ⟨ll.left.tok, namesOf ll.right.left,
            (match ll.right.right with | .nil => bX0 | o => o.tok), ?_⟩
          rw [stmtsOf, if_neg (by decide), if_pos rfl]
          simp only [hb]
          rfl
        obtain ⟨nm, pr, out, el⟩ := el
        rcases hr : stmtsOf r n1 (ps1 ++ [⟨nm, pr, out, body⟩]) with ⟨b, n2, ps2⟩
        have e : stmtsOf (.mk t tok file line (.mk NodeT.PROGRAM ltok lf lln ll lr) r) n ps =
            (Stmts.append .nil b, n2, ps2) := by
          rw [stmtsOf, if_pos h1]
          simp only [el, hr]
        rw [e] at h hp
        have hb' : loopOnlyStmts b = true := by simpa [Stmts.append] using h
        have hmem : (⟨nm, pr, out, body⟩ : ProgDef) ∈ ps2 := by
          have := stmtsOf_progs_mono r n1 (ps1 ++ [⟨nm, pr, out, body⟩]) ⟨nm, pr, out, body⟩ (by simp)
          rw [hr] at this
          exact this
        have hbody : loopOnlyStmts body = true := hp _ hmem
        rw [Bool.and_eq_true]
        constructor
        · show labelsOK lr = true
          exact labelsOK_of_loopOnly lr n ps (by rw [hb]; exact hbody)
        · exact astLabels_of_loopOnly r n1 (ps1 ++ [⟨nm, pr, out, body⟩])
            (by rw [hr]; exact hb') (by rw [hr]; exact hp)
    · exact labelsOK_of_loopOnly _ n ps h

/-- a tree with a jump-free source satisfies the label condition -/
theorem astLabels_of_LoopOnly (root : Node) (h : LoopOnly (toSource root)) : astLabels root = true := by
  rcases hr : stmtsOf root 0 [] with ⟨main, n1, ps⟩
  have hs : toSource root = ⟨ps, main⟩ := by simp only [toSource, hr]
  rw [hs] at h
  exact astLabels_of_loopOnly root 0 [] (by rw [hr]; exact h.1) (by rw [hr]; exact h.2)

end CompileCorrect
end Theo
