/-
  C01 budget, part 1: a bound on the stutter measure of every configuration the reference machine
  can reach.  `cmeasure` (SimStep.lean) is the size of what is left of the statement list in focus
  (plus the value under evaluation); the focus is always a suffix of a statement list of the
  source (a routine body, the body of a loop), so the measure never exceeds the *width* of the
  source: the largest `fsize` of a statement list occurring in it.  Pure reference semantics: no
  VM, no validator.
-/
import Theo.Proofs.Simulation

set_option linter.unusedSimpArgs false
set_option linter.unusedSectionVars false

namespace Theo
namespace Sim
open Sem

/-! ### statement lists of width at most `W` -/

mutual
/-- every statement list nested in `s` has `fsize ≤ W` -/
def okStmt (W : Nat) : Stmt → Prop
  | .loop _ _ body _ => okStmts W body
  | .while_ _ body _ => okStmts W body
  | .assign _ _ _ => True
  | .mark _ _ => True
  | .goto _ _ => True
  | .ifGoto _ _ _ _ => True
  | .stop _ => True
/-- `ss`, each of its suffixes and every statement list nested in it have `fsize ≤ W` -/
def okStmts (W : Nat) : Stmts → Prop
  | .nil => True
  | .cons s ss => fsize (.cons s ss) ≤ W ∧ okStmt W s ∧ okStmts W ss
end

def okKont (W : Nat) : Kont → Prop
  | .done => True
  | .loop _ body rest k => okStmts W body ∧ okStmts W rest ∧ okKont W k
  | .while_ _ body rest k => okStmts W body ∧ okStmts W rest ∧ okKont W k

theorem okStmts_fsize {W : Nat} {ss : Stmts} (h : okStmts W ss) : fsize ss ≤ W := by
  cases ss with
  | nil => exact Nat.zero_le _
  | cons s ss => exact h.1

mutual
theorem okStmt_mono {W W' : Nat} (hw : W ≤ W') : ∀ s : Stmt, okStmt W s → okStmt W' s
  | .loop _ _ body _, h => okStmts_mono hw body h
  | .while_ _ body _, h => okStmts_mono hw body h
  | .assign _ _ _, _ => trivial
  | .mark _ _, _ => trivial
  | .goto _ _, _ => trivial
  | .ifGoto _ _ _ _, _ => trivial
  | .stop _, _ => trivial
theorem okStmts_mono {W W' : Nat} (hw : W ≤ W') : ∀ ss : Stmts, okStmts W ss → okStmts W' ss
  | .nil, _ => trivial
  | .cons s ss, h => ⟨Nat.le_trans h.1 hw, okStmt_mono hw s h.2.1, okStmts_mono hw ss h.2.2⟩
end

/-! ### the width of a source -/

mutual
def stmtWidth : Stmt → Nat
  | .loop _ _ body _ => stmtsWidth body
  | .while_ _ body _ => stmtsWidth body
  | .assign _ _ _ => 0
  | .mark _ _ => 0
  | .goto _ _ => 0
  | .ifGoto _ _ _ _ => 0
  | .stop _ => 0
/-- the largest `fsize` of `ss` and of the statement lists nested in it -/
def stmtsWidth : Stmts → Nat
  | .nil => 0
  | .cons s ss => max (fsize (.cons s ss)) (max (stmtWidth s) (stmtsWidth ss))
end

def progsWidth : List ProgDef → Nat
  | [] => 0
  | pd :: pds => max (stmtsWidth pd.body) (progsWidth pds)

/-- the width of a source: the largest `fsize` of a statement list occurring in it, where
    `fsize ss` = Σ over the statements `s` of `ss` (not of nested bodies) of
    `2` (`+ 2 +` the number of nodes and argument positions of `v` for `x := v`) -/
def srcWidth (src : Source) : Nat := max (stmtsWidth src.main) (progsWidth src.progs)

mutual
theorem okStmt_width : ∀ s : Stmt, okStmt (stmtWidth s) s
  | .loop _ _ body _ => okStmts_width body
  | .while_ _ body _ => okStmts_width body
  | .assign _ _ _ => trivial
  | .mark _ _ => trivial
  | .goto _ _ => trivial
  | .ifGoto _ _ _ _ => trivial
  | .stop _ => trivial
theorem okStmts_width : ∀ ss : Stmts, okStmts (stmtsWidth ss) ss
  | .nil => trivial
  | .cons s ss => by
    have h1 := okStmt_width s
    have h2 := okStmts_width ss
    refine ⟨?_, okStmt_mono ?_ s h1, okStmts_mono ?_ ss h2⟩
    · show _ ≤ max _ _
      exact Nat.le_max_left _ _
    · show _ ≤ max _ (max _ _)
      exact Nat.le_trans (Nat.le_max_left _ _) (Nat.le_max_right _ _)
    · show _ ≤ max _ (max _ _)
      exact Nat.le_trans (Nat.le_max_right _ _) (Nat.le_max_right _ _)
end

structure OkSrc (W : Nat) (src : Source) : Prop where
  main : okStmts W src.main
  progs : ∀ pd ∈ src.progs, okStmts W pd.body

theorem progsWidth_ok : ∀ (pds : List ProgDef) (pd : ProgDef), pd ∈ pds →
    okStmts (progsWidth pds) pd.body
  | [], _, h => nomatch h
  | pd0 :: pds, pd, h => by
    rcases List.mem_cons.1 h with rfl | h
    · exact okStmts_mono (Nat.le_max_left _ _) _ (okStmts_width _)
    · exact okStmts_mono (Nat.le_max_right _ _) _ (progsWidth_ok pds pd h)

theorem okSrc_width (src : Source) : OkSrc (srcWidth src) src :=
  ⟨okStmts_mono (Nat.le_max_left _ _) _ (okStmts_width _),
   fun pd h => okStmts_mono (Nat.le_max_right _ _) _ (progsWidth_ok _ pd h)⟩

theorem OkSrc.body {W : Nat} {src : Source} (h : OkSrc W src) (r : Nat) : okStmts W (bodyOf src r) := by
  unfold bodyOf
  split
  · rename_i pd hpd
    exact h.progs pd (List.mem_of_getElem? hpd)
  · exact h.main

/-! ### jump targets -/

mutual
theorem findLabelStmt_ok {W : Nat} (m : Name) : ∀ (s : Stmt) (rest : Stmts) (K : Kont),
    okStmts W (.cons s rest) → okKont W K → ∀ f k, findLabelStmt m s rest K = some (f, k) →
    okStmts W f ∧ okKont W k
  | .mark m' pos, rest, K, h, hk, f, k, he => by
    simp only [findLabelStmt] at he
    split at he
    · cases he; exact ⟨h, hk⟩
    · cases he
  | .loop id x body pos, rest, K, h, hk, f, k, he => by
    simp only [findLabelStmt] at he
    exact findLabel_ok m body (.loop id body rest K) h.2.1 ⟨h.2.1, h.2.2, hk⟩ f k he
  | .while_ x body pos, rest, K, h, hk, f, k, he => by
    simp only [findLabelStmt] at he
    exact findLabel_ok m body (.while_ x body rest K) h.2.1 ⟨h.2.1, h.2.2, hk⟩ f k he
  | .assign _ _ _, _, _, _, _, _, _, he => by simp only [findLabelStmt] at he; cases he
  | .goto _ _, _, _, _, _, _, _, he => by simp only [findLabelStmt] at he; cases he
  | .ifGoto _ _ _ _, _, _, _, _, _, _, he => by simp only [findLabelStmt] at he; cases he
  | .stop _, _, _, _, _, _, _, he => by simp only [findLabelStmt] at he; cases he
theorem findLabel_ok {W : Nat} (m : Name) : ∀ (ss : Stmts) (K : Kont),
    okStmts W ss → okKont W K → ∀ f k, findLabel m ss K = some (f, k) →
    okStmts W f ∧ okKont W k
  | .nil, _, _, _, _, _, he => by simp only [findLabel] at he; cases he
  | .cons s rest, K, h, hk, f, k, he => by
    simp only [findLabel] at he
    split at he
    · rename_i r hr
      cases he
      exact findLabelStmt_ok m s rest K h hk f k hr
    · exact findLabel_ok m rest K h.2.2 hk f k he
end

/-! ### the invariant -/

/-- the stutter measure a frame has or will have when it is (again) the top of the stack -/
def fbound (fr : Frame) : Nat :=
  match fr.ctrl with
  | .run => fsize fr.focus
  | .eval v _ cs => vsize v + csize cs + fsize fr.focus + 1
  | .ret _ _ cs => csize cs + fsize fr.focus + 1
  | .wait _ cs => csize cs + fsize fr.focus + 1

structure OkFrame (W : Nat) (fr : Frame) : Prop where
  bound : fbound fr ≤ W
  focus : okStmts W fr.focus
  kont : okKont W fr.k

def OkStack (W : Nat) : List Frame → Prop
  | [] => True
  | fr :: rest => OkFrame W fr ∧ OkStack W rest

theorem fmeasure_le_fbound (fr : Frame) : fmeasure fr ≤ fbound fr := by
  obtain ⟨r, env, ctrs, focus, k, ctrl⟩ := fr
  cases ctrl <;> simp only [fmeasure, fbound] <;> omega

theorem OkStack.cmeasure {W : Nat} {cfg : Config} (h : OkStack W cfg.stack) : cmeasure cfg ≤ W := by
  unfold Sim.cmeasure
  split
  · rename_i fr rest he
    rw [he] at h
    exact Nat.le_trans (fmeasure_le_fbound fr) h.1.bound
  · exact Nat.zero_le _

section
variable {W : Nat} {src : Source} (hsrc : OkSrc W src)
include hsrc

theorem ok_doCall {fr : Frame} {rest : List Frame} (f : Name) (args : List Nat)
    (hfr : OkFrame W fr) (hrest : OkStack W rest) : OkStack W (doCall src fr rest f args).stack := by
  unfold doCall
  split
  · rename_i i pd hl
    split
    · obtain ⟨_, hpd⟩ := lookupProg_spec hl
      have hb := hsrc.progs pd (List.mem_of_getElem? hpd)
      exact ⟨⟨okStmts_fsize hb, hb, trivial⟩, hfr, hrest⟩
    · exact ⟨hfr, hrest⟩
  · exact ⟨hfr, hrest⟩

theorem ok_goto {r : Nat} {env : Env} {ctrs : Ctrs} {focus : Stmts} {k : Kont} {rest : List Frame}
    (m : Name) (hfr : OkFrame W ⟨r, env, ctrs, focus, k, .run⟩) (hrest : OkStack W rest) :
    OkStack W (match findLabel m (bodyOf src r) .done with
      | some (f, k2) => (⟨⟨r, env, ctrs, f, k2, .run⟩ :: rest, .running⟩ : Config)
      | none => ⟨⟨r, env, ctrs, focus, k, .run⟩ :: rest, .stuck⟩).stack := by
  split
  · rename_i f k2 he
    obtain ⟨h1, h2⟩ := findLabel_ok m _ .done (hsrc.body r) trivial f k2 he
    exact ⟨⟨okStmts_fsize h1, h1, h2⟩, hrest⟩
  · exact ⟨hfr, hrest⟩

/-- the invariant is preserved by every step of the reference machine -/
theorem ok_step {cfg : Config} (h : OkStack W cfg.stack) : OkStack W (Sem.step src cfg).stack := by
  obtain ⟨stack, status⟩ := cfg
  cases status with
  | halted => exact h
  | stuck => exact h
  | running =>
  cases stack with
  | nil => exact h
  | cons fr rest =>
  obtain ⟨hfr, hrest⟩ := h
  obtain ⟨r, env, ctrs, focus, k, ctrl⟩ := fr
  obtain ⟨hb, hf, hk⟩ := hfr
  simp only at hf hk
  cases ctrl with
  | run =>
    simp only [fbound] at hb
    cases focus with
    | cons s ss =>
      obtain ⟨hf1, hf2, hf3⟩ := hf
      have hss := okStmts_fsize hf3
      cases s with
      | assign x v pos =>
        show OkStack W (⟨r, env, ctrs, ss, k, .eval v x []⟩ :: rest)
        refine ⟨⟨?_, hf3, hk⟩, hrest⟩
        simp only [fbound, fsize, ssize1, csize] at hf1 ⊢
        omega
      | mark m pos =>
        show OkStack W (⟨r, env, ctrs, ss, k, .run⟩ :: rest)
        exact ⟨⟨hss, hf3, hk⟩, hrest⟩
      | loop id x body pos =>
        show OkStack W (if env.get x ≠ 0 then
            (⟨⟨r, env, ctrs.set id (env.get x), body, .loop id body ss k, .run⟩ :: rest, .running⟩ : Config)
          else ⟨⟨r, env, ctrs.set id (env.get x), ss, k, .run⟩ :: rest, .running⟩).stack
        have hbody : okStmts W body := hf2
        split
        · exact ⟨⟨okStmts_fsize hbody, hbody, hbody, hf3, hk⟩, hrest⟩
        · exact ⟨⟨hss, hf3, hk⟩, hrest⟩
      | while_ x body pos =>
        show OkStack W (if env.get x ≠ 0 then
            (⟨⟨r, env, ctrs, body, .while_ x body ss k, .run⟩ :: rest, .running⟩ : Config)
          else ⟨⟨r, env, ctrs, ss, k, .run⟩ :: rest, .running⟩).stack
        have hbody : okStmts W body := hf2
        split
        · exact ⟨⟨okStmts_fsize hbody, hbody, hbody, hf3, hk⟩, hrest⟩
        · exact ⟨⟨hss, hf3, hk⟩, hrest⟩
      | goto m pos =>
        exact ok_goto hsrc m ⟨hb, ⟨hf1, hf2, hf3⟩, hk⟩ hrest
      | ifGoto x cst m pos =>
        show OkStack W (if env.get x = cst then
            (match findLabel m (bodyOf src r) .done with
             | some (f, k2) => (⟨⟨r, env, ctrs, f, k2, .run⟩ :: rest, .running⟩ : Config)
             | none => ⟨⟨r, env, ctrs, .cons (.ifGoto x cst m pos) ss, k, .run⟩ :: rest, .stuck⟩)
          else ⟨⟨r, env, ctrs, ss, k, .run⟩ :: rest, .running⟩).stack
        split
        · exact ok_goto hsrc m ⟨hb, ⟨hf1, hf2, hf3⟩, hk⟩ hrest
        · exact ⟨⟨hss, hf3, hk⟩, hrest⟩
      | stop pos => exact ⟨⟨hb, ⟨hf1, hf2, hf3⟩, hk⟩, hrest⟩
    | nil =>
      cases k with
      | loop id body ss k' =>
        show OkStack W (if ctrs.get id - 1 ≠ 0 then
            (⟨⟨r, env, ctrs.set id (ctrs.get id - 1), body, .loop id body ss k', .run⟩ :: rest,
              .running⟩ : Config)
          else ⟨⟨r, env, ctrs.set id (ctrs.get id - 1), ss, k', .run⟩ :: rest, .running⟩).stack
        obtain ⟨k1, k2, k3⟩ := hk
        split
        · exact ⟨⟨okStmts_fsize k1, k1, k1, k2, k3⟩, hrest⟩
        · exact ⟨⟨okStmts_fsize k2, k2, k3⟩, hrest⟩
      | while_ x body ss k' =>
        show OkStack W (if env.get x ≠ 0 then
            (⟨⟨r, env, ctrs, body, .while_ x body ss k', .run⟩ :: rest, .running⟩ : Config)
          else ⟨⟨r, env, ctrs, ss, k', .run⟩ :: rest, .running⟩).stack
        obtain ⟨k1, k2, k3⟩ := hk
        split
        · exact ⟨⟨okStmts_fsize k1, k1, k1, k2, k3⟩, hrest⟩
        · exact ⟨⟨okStmts_fsize k2, k2, k3⟩, hrest⟩
      | done =>
        cases rest with
        | nil => exact ⟨⟨hb, hf, hk⟩, trivial⟩
        | cons caller rest' =>
          obtain ⟨hcaller, hrest'⟩ := hrest
          obtain ⟨r2, env2, ctrs2, focus2, k2, ctrl2⟩ := caller
          cases ctrl2 with
          | wait x cs =>
            show OkStack W (⟨r2, env2, ctrs2, focus2, k2,
              .ret (env.get (match src.progs[r]? with | some pd => pd.out | none => [])) x cs⟩ :: rest')
            exact ⟨⟨hcaller.bound, hcaller.focus, hcaller.kont⟩, hrest'⟩
          | run => exact ⟨⟨hb, hf, hk⟩, hcaller, hrest'⟩
          | eval _ _ _ => exact ⟨⟨hb, hf, hk⟩, hcaller, hrest'⟩
          | ret _ _ _ => exact ⟨⟨hb, hf, hk⟩, hcaller, hrest'⟩
  | eval v x cs =>
    simp only [fbound] at hb
    cases v with
    | var y =>
      show OkStack W (⟨r, env, ctrs, focus, k, .ret (env.get y) x cs⟩ :: rest)
      refine ⟨⟨?_, hf, hk⟩, hrest⟩
      simp only [fbound, vsize] at hb ⊢
      omega
    | num n =>
      show OkStack W (⟨r, env, ctrs, focus, k, .ret n x cs⟩ :: rest)
      refine ⟨⟨?_, hf, hk⟩, hrest⟩
      simp only [fbound, vsize] at hb ⊢
      omega
    | inc y c =>
      show OkStack W (⟨r, env, ctrs, focus, k, .ret (addSat (env.get y) c) x cs⟩ :: rest)
      refine ⟨⟨?_, hf, hk⟩, hrest⟩
      simp only [fbound, vsize] at hb ⊢
      omega
    | dec y c =>
      show OkStack W (⟨r, env, ctrs, focus, k, .ret (env.get y - c) x cs⟩ :: rest)
      refine ⟨⟨?_, hf, hk⟩, hrest⟩
      simp only [fbound, vsize] at hb ⊢
      omega
    | call f args =>
      cases args with
      | nil =>
        show OkStack W (doCall src ⟨r, env, ctrs, focus, k, .wait x cs⟩ rest f []).stack
        refine ok_doCall hsrc f [] ⟨?_, hf, hk⟩ hrest
        simp only [fbound, vsize, vssize] at hb ⊢
        omega
      | cons a0 as0 =>
        show OkStack W (⟨r, env, ctrs, focus, k, .eval a0 x (⟨f, [], as0⟩ :: cs)⟩ :: rest)
        refine ⟨⟨?_, hf, hk⟩, hrest⟩
        simp only [fbound, vsize, vssize, csize] at hb ⊢
        omega
  | ret n x cs =>
    simp only [fbound] at hb
    cases cs with
    | nil =>
      show OkStack W (⟨r, env.set x n, ctrs, focus, k, .run⟩ :: rest)
      refine ⟨⟨?_, hf, hk⟩, hrest⟩
      simp only [fbound, csize] at hb ⊢
      omega
    | cons c1 cs' =>
      obtain ⟨f, done, todo⟩ := c1
      cases todo with
      | nil =>
        show OkStack W (doCall src ⟨r, env, ctrs, focus, k, .wait x cs'⟩ rest f (done ++ [n])).stack
        refine ok_doCall hsrc f _ ⟨?_, hf, hk⟩ hrest
        simp only [fbound, csize, vssize] at hb ⊢
        omega
      | cons a0 as0 =>
        show OkStack W (⟨r, env, ctrs, focus, k, .eval a0 x (⟨f, done ++ [n], as0⟩ :: cs')⟩ :: rest)
        refine ⟨⟨?_, hf, hk⟩, hrest⟩
        simp only [fbound, csize, vssize] at hb ⊢
        omega
  | wait x cs => exact ⟨⟨hb, hf, hk⟩, hrest⟩

theorem ok_initial : OkStack W (initial src).stack :=
  ⟨⟨okStmts_fsize hsrc.main, hsrc.main, trivial⟩, trivial⟩

theorem ok_iter (n : Nat) : OkStack W (iter src n (initial src)).stack := by
  induction n with
  | zero => exact ok_initial hsrc
  | succ n ih => exact ok_step hsrc ih

end

/-- the stutter measure of every reachable configuration is at most the width of the source -/
theorem cmeasure_le_width (src : Source) (n : Nat) :
    cmeasure (iter src n (initial src)) ≤ srcWidth src :=
  (ok_iter (okSrc_width src) n).cmeasure

end Sim
end Theo
