/-
  C07 for the generator model, part 7: a whole routine body — the site walk succeeds from the
  exact start of the body, and every jump lands exactly on the site of its label (`site_body`).
-/
import Theo.Proofs.GenSitesMain

set_option linter.unusedSimpArgs false
set_option linter.unusedVariables false

namespace Theo
namespace GenSites
open GS Sem Static GenShape Layout

theorem filter_mark_length (l : List ESite) (m : Name) :
    (l.filter (fun e => decide (e.2.2 = some m))).length = (l.filterMap (·.2.2)).count m := by
  induction l with
  | nil => rfl
  | cons x xs ih =>
    cases hx : x.2.2 with
    | none => simp [List.filter_cons, List.filterMap_cons, hx, ih]
    | some m' =>
      by_cases h : m' = m
      · subst h
        simp [List.filter_cons, List.filterMap_cons, hx, ih]
      · have h' : ¬ (m' == m) = true := by simpa using h
        simp [List.filter_cons, List.filterMap_cons, hx, ih, h, List.count_cons, h']

theorem jumpsExact_ok (exp : List ESite) (w : Walk)
    (h : ∀ g ∈ w.gotos, ∃ x, exp.filter (fun e => decide (e.2.2 = some g.2.2)) = [x] ∧ (g.1 : Int) + g.2.1 = (x.1 : Int)) :
    jumpsExact exp w = true := by
  unfold jumpsExact
  rw [List.all_eq_true]
  intro g hg
  obtain ⟨x, hx, he⟩ := h g hg
  have hf : (fun (y : ESite) => y.2.2 == some g.2.2) = (fun e => decide (e.2.2 = some g.2.2)) := by
    funext y; exact Bool.beq_eq_decide_eq _ _
  rw [hf, hx]
  simpa using he

/-- the result of a routine body -/
structure BodyOut (X : RC) (g bb : GS) (ss : Stmts) (s' : LSt) (l : List ESite) (w : Walk) (k : Nat) (t : List Instr) : Prop where
  walk : sitesStmts X.e ss ⟨g.code.length, [], []⟩ 0 none = some (l, w, k, prevOf s')
  ex : Ex bb w k
  code : bb.code = g.code ++ t
  pbs : pbPos t g.code.length = l.map (·.1)
  li : bb.lineInfo = g.lineInfo ++ l.map liOf
  ctx : Ctx bb s'
  jumps : jumpsExact l w = true

theorem site_body {X : RC} (ok : X.OK) (f : Nat) (g : GS) (r2 : Node) (hf : nodeSize r2 ≤ f)
    (hs : stmtShape r2 = true) (hn : stmtNames r2 = true) (hlab : labelsOK r2 = true)
    (ps : List ProgDef)
    (hst : stmtsOK X.src X.rt (stmtsOf r2 g.loops ps).1 (stmtsOf r2 g.loops ps).1 = true)
    (hm : g.top.marks = []) (hd : Head g)
    (hext : RegsExt (dispatchVoid f g r2).top.regs X.R)
    (hag : Agree X.L (dispatchVoid f g r2).code X.C)
    (hfn : FuncInv X g)
    (hfin : ∀ (l : Nat) (v : Int), (dispatchVoid f g r2).labels[l]? = some v → v ≠ -1 → (X.L[l]?).getD (-1) = v)
    (ht : TInv (fun _ => True) g) (s s' : LSt) (hlay : stmtLay r2 s = some s') (hctx : Ctx g s)
    (hfresh : s.kind = LKind.fresh) :
    ∃ l w k t, BodyOut X g (dispatchVoid f g r2) (stmtsOf r2 g.loops ps).1 s' l w k t := by
  have w0 : MarksWF g := MarksWF.of_nil hm
  have st := step_void f g r2
  have sq := sq_void f g r2 hf hs hn
  have wb : MarksWF (dispatchVoid f g r2) := st.wf w0
  have lk : SLinks X (dispatchVoid f g r2) :=
    ⟨⟨hext, hag, hfn.congr sq.gq.funcAddrs⟩, fun l v h1 h2 _ => hfin l v h1 h2⟩
  have hpos := head_pos hd
  obtain ⟨w2, cw, sr⟩ := stmt_corr ok f g r2 hf hs hn ps _ hst lk w0 hd ⟨g.code.length, [], []⟩ (At.exact hpos)
  obtain ⟨l, w, k, t, out⟩ := site_corr ok f g r2 hf hs hn ps _ hst lk w0 hd ht s s' hlay hctx
    ⟨g.code.length, [], []⟩ 0 (Ex.exact hpos rfl)
  have hprev : prevOf s = none := by unfold prevOf; rw [hfresh]
  have hwalk := out.walk
  rw [hprev] at hwalk
  have hww : w = w2 := by
    have := Sim.sitesStmts_walk hwalk
    rw [cw] at this
    exact (Option.some.inj this).symm
  subst hww
  refine ⟨l, w, k, t, hwalk, out.ex, out.code, out.pbs, out.li, out.ctx, ?_⟩
  obtain ⟨ng, b1, b2, b3⟩ := sr.gotos
  simp only [List.nil_append] at b1
  have hb : bodyOK (arity X.src X.rt) r2 = true := by rw [← body_link X.src X.rt r2 hs g.loops ps]; exact hst
  have hdef := ((bodyOK_iff _ _).1 hb).2
  apply jumpsExact_ok
  intro gt hgt
  rw [b1] at hgt
  have hm2 : gt.2.2 ∈ refsOf r2 := by rw [← b2]; exact List.mem_map_of_mem (f := (·.2.2)) hgt
  have hone : (defsOf r2).count gt.2.2 = 1 := by
    have h1 : (defsOf r2).count gt.2.2 ≤ 1 := by
      unfold labelsOK at hlab
      rw [List.all_eq_true] at hlab
      simpa using hlab _ hm2
    have h2 : 0 < (defsOf r2).count gt.2.2 := List.count_pos_iff.2 (hdef _ hm2)
    omega
  have hlen : (l.filter (fun e => decide (e.2.2 = some gt.2.2))).length = 1 := by
    rw [filter_mark_length, out.names, hone]
  obtain ⟨lab, k1, k2⟩ := b3 gt hgt
  cases hfl : l.filter (fun e => decide (e.2.2 = some gt.2.2)) with
  | nil => rw [hfl] at hlen; cases hlen
  | cons x xs =>
    cases xs with
    | cons y ys => rw [hfl] at hlen; simp at hlen
    | nil =>
      refine ⟨x, rfl, ?_⟩
      obtain ⟨lab', c1, c2⟩ := out.last gt.2.2 x.1 (by rw [hfl]; rfl)
      have hll : lab = lab' := by
        have h1 := mlab_of_mem wb k1
        have h2 := mlab_of_mem wb c1
        rw [h1] at h2
        exact Option.some.inj h2
      subst hll
      have hL := hfin lab _ c2 (by omega)
      rw [← k2, hL]

end GenSites
end Theo
