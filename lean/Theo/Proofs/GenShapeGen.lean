/-
  C01 for the generator model, part 19: `gen` — the root frame, the patched header, the final
  HALT, backpatching; `gen_shape`.
-/
import Theo.Proofs.GenShapeTop

set_option linter.unusedSimpArgs false
set_option linter.unusedVariables false

namespace Theo
namespace GenShape
open GS Sem Static

theorem shapeCheck_ok (src : Source) (P : Program) (c mi t : Int) (tl : List Instr)
    (hcode : P.code = .prepare c mi t :: tl) (infos : List RInfo) (pc : Nat)
    (h1 : checkProgs P src src.progs 0 [] 1 = some (infos, pc)) (sm : StackMap)
    (h2 : P.stackMaps[src.progs.length]? = some sm) (h3 : mi = (src.progs.length : Int))
    (h4 : namesNodup ⟨0, src.progs.length, sm.map⟩ = true) (w : Walk)
    (h5 : checkStmts ⟨P.code, src, ⟨0, src.progs.length, sm.map⟩, src.progs.length, infos⟩ src.main ⟨pc, [], []⟩ = some w)
    (h6 : resolveOK P.code w = true) (h7 : skipc P.code w.pc + 1 = P.code.length)
    (h8 : P.code[skipc P.code w.pc]? = some .halt) : shapeCheck src P = true := by
  unfold shapeCheck
  split
  · rename_i c' mi' t' tl' hc
    rw [hcode] at hc
    cases hc
    simp only [h1, h2, h5]
    simp [h3, h4, h6, h7, h8]
  · rename_i hne
    exact absurd hcode (hne _ _ _ _)

theorem fixHead_full (c : GS) (a b t : Int) (tl : List Instr) (p : ProgRec) (hc : c.code = .prepare a b t :: tl)
    (hl : c.lookupFunc bRoot = some p) :
    (fixHead c).code = .prepare p.stackSize p.mi t :: tl ∧ (fixHead c).stackMaps = c.stackMaps ∧
    (fixHead c).labels = c.labels ∧ (fixHead c).todo = c.todo := by
  unfold fixHead
  rw [hl, hc]
  exact ⟨rfl, rfl, rfl, rfl⟩

theorem JT.fixHead' {c : GS} (h : JT c) (x y z : Int) (tl : List Instr) (hc : ∃ i, c.code = i :: tl)
    (g : GS) (hg : g.code = .prepare x y z :: tl) (ht : g.todo = c.todo) : JT g := by
  obtain ⟨i0, hc⟩ := hc
  intro p i hp hj
  rw [ht]
  rw [hg] at hp
  cases p with
  | zero => simp at hp; subst hp; cases hj
  | succ p =>
    refine h (p + 1) i ?_ hj
    rw [hc]
    simpa using hp

theorem cons_of_head {α} {l : List α} {x : α} (h : l[0]? = some x) : l = x :: l.tail := by
  cases l with
  | nil => simp at h
  | cons y ys => simp at h; rw [h]; rfl

theorem lookupProg_zero (src : Source) (g : Bytes) : lookupProg src g 0 = none := by
  unfold lookupProg
  rw [go_stop _ _ _ _ _ (Nat.le_refl _)]

theorem staticOK_split {src : Source} (h : staticOK src = true) :
    (∀ r, r ≤ src.progs.length → Static.routineOK src r = true) ∧ (∀ pd ∈ src.progs, pd.params.Nodup) := by
  unfold staticOK at h
  rw [Bool.and_eq_true, List.all_eq_true, List.all_eq_true] at h
  refine ⟨fun r hr => h.1 r (List.mem_range.2 (by omega)), fun pd hpd => ?_⟩
  simpa using h.2 pd hpd

/-- the code the generator model emits for an accepted source has the shape of the compilation
    scheme for that source -/
theorem gen_shape (root : Node) (h : AstShape root = true) (hs : staticOK (toSource root) = true)
    (hn : astNames root = true) : shapeCheck (toSource root) (gen ⟨true, [], root⟩).code = true := by
  obtain ⟨hst, hpar⟩ := staticOK_split hs
  -- the generator states
  have hgen : (gen ⟨true, [], root⟩).code =
      ⟨(backpatch ((fixHead ((dispatchVoid (nodeSize root + 1) gs1 root).popSymbols 0)).emit .halt)).code,
       (backpatch ((fixHead ((dispatchVoid (nodeSize root + 1) gs1 root).popSymbols 0)).emit .halt)).stackMaps,
       (backpatch ((fixHead ((dispatchVoid (nodeSize root + 1) gs1 root).popSymbols 0)).emit .halt)).potBreaks,
       (backpatch ((fixHead ((dispatchVoid (nodeSize root + 1) gs1 root).popSymbols 0)).emit .halt)).lineInfo⟩ := rfl
  rw [hgen]
  have st := step_void (nodeSize root + 1) gs1 root
  have jb : JT (dispatchVoid (nodeSize root + 1) gs1 root) :=
    jt_void _ _ _ (by intro p i hp hj; have : gs1.code = [.prepare (-1) (-1) 0] := rfl; rw [this] at hp
                      cases p with
                      | zero => simp at hp; subst hp; cases hj
                      | succ p => simp at hp)
  have w1 : MarksWF gs1 := MarksWF.of_nil rfl
  have t1 : TodoOK gs1 := ⟨List.nodup_nil, fun _ h => by cases h⟩
  have tb := st.todoOK w1 t1
  have ti : TopInv (toSource root) gs1 0 [] :=
    ⟨rfl, rfl, rfl, rfl, ⟨_, rfl, by intro h; cases h⟩, ⟨_, rfl, by intro h; cases h⟩,
     fun f j pd hl => by rw [lookupProg_zero] at hl; cases hl⟩
  have hname : (dispatchVoid (nodeSize root + 1) gs1 root).top.name = bRoot := st.name
  have key := fun P L => top_corr P (toSource root) L (nodeSize root + 1) gs1 root (Nat.le_succ _) h hn 0 [] [] rfl
    (by rw [toSource_eq]; rfl) (by rw [toSource_eq]; rfl) hst hpar ti
  generalize hb : dispatchVoid (nodeSize root + 1) gs1 root = b at *
  -- the code starts with the root PREPARE
  have tq0 : TQ gs1 b :=
    (key ⟨b.code.mapIdx (fun p i => patch b.labels p i), b.stackMaps, [], []⟩ b.labels
      (by intro p i _ hi; show (List.mapIdx _ _)[p]? = _; rw [List.getElem?_mapIdx, hi]; rfl)
      (by intro l v hl _; rw [hl]; rfl) (List.prefix_refl _) 1 rfl).2.2.2
  obtain ⟨tl, hbc⟩ : ∃ tl, b.code = .prepare (-1) (-1) 0 :: tl := by
    obtain ⟨t, ht⟩ := tq0.code; exact ⟨t, ht.symm⟩
  have pf := popSymbols_full b 0
  have ps := popSymbols_spec b 0
  generalize hc : b.popSymbols 0 = c at *
  have tc : TodoOK c := TodoOK.safe ps.todo (by rw [ps.labels]; exact Nat.le_refl _) (ps.code ▸ CodeSafe.refl _) tb
  have jc : JT c := jb.same pf.code pf.todo
  have hlook : c.lookupFunc bRoot = some ⟨0, (b.stackMaps.length : Int), b.top.argnum, b.top.regs.length⟩ := by
    unfold lookupFunc
    rw [pf.funcAddrs, hname, List.find?_cons_of_pos (by simp)]; rfl
  obtain ⟨f1, f2, f3, f4⟩ := fixHead_full c (-1) (-1) 0 tl _ (pf.code.trans hbc) hlook
  have te : TodoOK ((fixHead c).emit .halt) := (quiet_emit _ _).todoOK ((fixHead_spec c).2.2 tc)
  have je : JT ((fixHead c).emit .halt) :=
    (JT.fixHead' jc _ _ _ tl ⟨_, pf.code.trans hbc⟩ (fixHead c) f1 f4).emit _ rfl
  obtain ⟨b1, b2, b3, b4⟩ := backpatch_code _ te je
  have hel : ((fixHead c).emit .halt).labels = b.labels := by rw [emit_labels, f3, pf.labels]
  have hec : ((fixHead c).emit .halt).code = .prepare (b.top.regs.length : Int) (b.stackMaps.length : Int) 0 :: (tl ++ [.halt]) := by
    rw [emit_code, f1]; rfl
  have hes : ((fixHead c).emit .halt).stackMaps = b.stackMaps ++ [⟨bRoot, smap b.top.regs⟩] := by
    show (fixHead c).stackMaps = _
    rw [f2, pf.stackMaps, hname]
  generalize (fixHead c).emit .halt = e at *
  generalize backpatch e = fin at *
  have hblen : b.code.length = tl.length + 1 := by rw [hbc]; simp
  have hag : Agree b.labels b.code fin.code := by
    intro p i h0 hi
    have he : e.code[p]? = some i := by
      rw [hec]
      rw [hbc] at hi
      obtain ⟨q, rfl⟩ : ∃ q, p = q + 1 := ⟨p - 1, by omega⟩
      simp only [List.getElem?_cons_succ] at hi ⊢
      rw [List.getElem?_append_left (List.getElem?_eq_some_iff.1 hi).1]; exact hi
    rw [b4 p i he, hel]
  obtain ⟨⟨infos, pc, c1, w, c2, c3, c4⟩, h2, h3, _⟩ := key ⟨fin.code, fin.stackMaps, fin.potBreaks, fin.lineInfo⟩ b.labels hag
    (by intro l v hl _; rw [hl]; rfl) (by show b.stackMaps <+: fin.stackMaps; rw [b2, hes]; exact prefix_append_self _ _) 1 rfl
  rw [List.drop_zero] at c1
  have hhead : fin.code = .prepare (b.top.regs.length : Int) (b.stackMaps.length : Int) 0 :: fin.code.tail := by
    apply cons_of_head
    have := b4 0 _ (by rw [hec]; rfl)
    rw [this]; rfl
  have hhalt : fin.code[b.code.length]? = some .halt := by
    have he : e.code[b.code.length]? = some .halt := by
      rw [hec, hblen, List.getElem?_cons_succ, List.getElem?_append_right (Nat.le_refl _)]; simp
    rw [b4 _ _ he]; rfl
  have hskip : skipc fin.code w.pc = b.code.length := by
    have : skipc fin.code w.pc = skipc fin.code b.code.length := c4
    rw [this]
    exact skipc_eq_self hhalt (by intro h; cases h)
  refine shapeCheck_ok (toSource root) _ _ _ _ _ hhead infos pc c1 ⟨bRoot, smap b.top.regs⟩ ?_ (by rw [h3])
    (namesNodup_smap _ h2 _ _) w c2 c3 ?_ ?_
  · show fin.stackMaps[(toSource root).progs.length]? = _
    rw [b2, hes, ← h3, getElem?_snoc_len]
  · show skipc fin.code w.pc + 1 = fin.code.length
    rw [hskip, b3, hec, hblen]; simp
  · show fin.code[skipc fin.code w.pc]? = _
    rw [hskip]; exact hhalt

end GenShape
end Theo
