/-
  C03 for the generator, part 5: the layout of the whole code while the program definitions are
  generated.  `Rt` records one finished routine (entry, position of its RET, frame size, the range
  of labels it owns, its index); `TopCore code labels todo sms rts` says that the code is the
  root PREPARE, then — in between potential-break sites and the `JMP after` of every definition —
  the finished routines, each a `Groups` body followed by its RET.  Pure list statements; the
  generator enters in Proofs/GenWFProg.lean.
-/
import Theo.Proofs.GenWFCount

namespace Theo
namespace GenWF

structure Rt where
  entry : Nat
  ret : Nat
  frame : Nat
  lo : Nat
  hi : Nat
  id : Nat

/-- the record of a finished routine with index below `k` -/
def Callee (rts : List Rt) (k : Nat) (p : ProgRec) : Prop :=
  ∃ j r, j < k ∧ rts[j]? = some r ∧ p.mi = (j : Int) ∧ p.ind = (r.entry : Int) ∧
    p.stackSize = r.frame ∧ p.argnum ≤ r.frame

theorem Callee.mono {rts rts' : List Rt} {k k' : Nat} {p : ProgRec} (h : Callee rts k p) (hk : k ≤ k')
    (hr : ∀ (j : Nat) (x : Rt), rts[j]? = some x → rts'[j]? = some x) : Callee rts' k' p := by
  obtain ⟨j, r, h1, h2, h3⟩ := h
  exact ⟨j, r, by omega, hr j r h2, h3⟩

structure RtOK (code : List Instr) (labels : List Int) (todo : List Nat) (sms : List StackMap)
    (rts : List Rt) (k : Nat) (r : Rt) : Prop where
  id : r.id = k
  e2 : 2 ≤ r.entry
  er : r.entry ≤ r.ret
  rl : r.ret < code.length
  lo1 : 1 ≤ r.lo
  lohi : r.lo ≤ r.hi
  hil : r.hi ≤ labels.length
  jmp : code[r.entry - 1]? = some (Instr.jmp ((r.lo - 1 : Nat) : Int))
  jtodo : r.entry - 1 ∈ todo
  after : labels[r.lo - 1]? = some ((r.ret + 1 : Nat) : Int)
  retI : ∃ s, code[r.ret]? = some (Instr.ret s) ∧ RegIn s r.frame
  groups : Groups (Callee rts k) r.frame r.lo r.hi (slice code r.entry r.ret)
  labs : ∀ l : Nat, r.lo ≤ l → l < r.hi → ∃ x : Nat, r.entry ≤ x ∧ x ≤ r.ret ∧ labels[l]? = some ((x : Nat) : Int) ∧ Plain code x
  jtodos : ∀ (pc : Nat) (i : Instr), r.entry ≤ pc → pc < r.ret → code[pc]? = some i → isJump i = true → pc ∈ todo
  smap : ∃ sm, sms[k]? = some sm ∧ ∀ e ∈ sm.map, RegIn e.1 r.frame

theorem RtOK.mono {code code' : List Instr} {labels labels' : List Int} {todo todo' : List Nat}
    {sms sms' : List StackMap} {rts rts' : List Rt} {k : Nat} {r : Rt}
    (h : RtOK code labels todo sms rts k r)
    (hc : ∀ pc, 1 ≤ pc → pc ≤ r.ret → code'[pc]? = code[pc]?)
    (hl : ∀ l, l < r.hi → labels'[l]? = labels[l]?)
    (ht : ∀ x ∈ todo, x ∈ todo')
    (hs : ∀ (i : Nat) (sm : StackMap), sms[i]? = some sm → sms'[i]? = some sm)
    (hr : ∀ (j : Nat) (x : Rt), rts[j]? = some x → rts'[j]? = some x) : RtOK code' labels' todo' sms' rts' k r := by
  have he2 := h.e2
  have her := h.er
  obtain ⟨s, hs1, hs2⟩ := h.retI
  have hret' : code'[r.ret]? = some (Instr.ret s) := by rw [hc _ (by omega) (Nat.le_refl _)]; exact hs1
  refine ⟨h.id, h.e2, h.er, (List.getElem?_eq_some_iff.1 hret').1, h.lo1, h.lohi, ?_, ?_, ht _ h.jtodo, ?_,
    ⟨s, hret', hs2⟩, ?_, ?_, ?_, ?_⟩
  · have hhi := h.hil
    by_cases h0 : r.hi = 0
    · omega
    · have h1 : labels'[r.hi - 1]? = labels[r.hi - 1]? := hl _ (by omega)
      have h2 : r.hi - 1 < labels.length := by omega
      rw [List.getElem?_eq_getElem h2] at h1
      have := (List.getElem?_eq_some_iff.1 h1).1
      omega
  · rw [hc _ (by omega) (by omega)]; exact h.jmp
  · rw [hl _ (by have := h.lo1; have := h.lohi; omega)]; exact h.after
  · rw [slice_congr (c := code) (c' := code') (fun pc h1 h2 => hc pc (by omega) (by omega))]
    exact h.groups.mono (fun p hp => hp.mono (Nat.le_refl _) hr) (Nat.le_refl _) (Nat.le_refl _)
  · intro l h1 h2
    obtain ⟨x, x1, x2, x3, x4⟩ := h.labs l h1 h2
    refine ⟨x, x1, x2, by rw [hl l h2]; exact x3, ?_⟩
    intro i hi
    rw [hc x (by omega) x2] at hi
    exact x4 i hi
  · intro pc i h1 h2 h3 h4
    rw [hc pc (by omega) (by omega)] at h3
    exact ht _ (h.jtodos pc i h1 h2 h3 h4)
  · obtain ⟨sm, h1, h2⟩ := h.smap
    exact ⟨sm, hs _ _ h1, h2⟩

structure TopCore (code : List Instr) (labels : List Int) (todo : List Nat) (sms : List StackMap)
    (rts : List Rt) : Prop where
  head : code[0]? = some (Instr.prepare (-1) (-1) 0)
  nsm : sms.length = rts.length
  rt : ∀ (k : Nat) (r : Rt), rts[k]? = some r → RtOK code labels todo sms rts k r
  ord : ∀ (j k : Nat) (rj rk : Rt), j < k → rts[j]? = some rj → rts[k]? = some rk → rj.ret + 1 < rk.entry
  cnt : ∀ (k : Nat) (r : Rt), rts[k]? = some r → countRet code r.entry = k
  cntAll : countRet code code.length = rts.length
  root : ∀ pc, 1 ≤ pc → pc < code.length → (∀ r ∈ rts, ¬ (r.entry ≤ pc ∧ pc ≤ r.ret)) →
    code[pc]? = some Instr.potBreak ∨ ∃ r ∈ rts, pc + 1 = r.entry

theorem countRet_extend (c : List Instr) (m : Nat) : ∀ n, m ≤ n →
    (∀ i, m ≤ i → i < n → (c[i]?).map isRet ≠ some true) → countRet c n = countRet c m := by
  intro n
  induction n with
  | zero => intro h _; have : m = 0 := by omega
            rw [this]
  | succ n ih =>
    intro h hn
    by_cases hm : m = n + 1
    · rw [hm]
    · rw [countRet_succ, if_neg (hn n (by omega) (by omega)), Nat.add_zero]
      exact ih (by omega) (fun i h1 h2 => hn i h1 (by omega))

/-- the tail of the code changes by potential-break sites only -/
theorem TopCore.transport {code code' : List Instr} {labels : List Int} {todo : List Nat} {sms : List StackMap}
    {rts : List Rt} (h : TopCore code labels todo sms rts)
    (h0 : 0 < code'.length)
    (hagree : ∀ pc, pc < code.length → pc < code'.length → code'[pc]? = code[pc]?)
    (hnew : ∀ pc, code.length ≤ pc → pc < code'.length → code'[pc]? = some Instr.potBreak)
    (hold : ∀ pc, code'.length ≤ pc → pc < code.length → code[pc]? = some Instr.potBreak) :
    TopCore code' labels todo sms rts := by
  have hlen0 : 0 < code.length := (List.getElem?_eq_some_iff.1 h.head).1
  have hretlt : ∀ (k : Nat) (r : Rt), rts[k]? = some r → r.ret < code'.length := by
    intro k r hr
    have ok := h.rt k r hr
    obtain ⟨s, hs1, _⟩ := ok.retI
    apply Nat.lt_of_not_le
    intro hle
    have := hold r.ret hle ok.rl
    rw [hs1] at this
    cases this
  refine ⟨by rw [hagree 0 hlen0 h0]; exact h.head, h.nsm, ?_, h.ord, ?_, ?_, ?_⟩
  · intro k r hr
    have ok := h.rt k r hr
    have := hretlt k r hr
    exact ok.mono (fun pc _ h2 => hagree pc (by have := ok.rl; omega) (by omega)) (fun _ _ => rfl) (fun _ hx => hx)
      (fun _ _ hx => hx) (fun _ _ hx => hx)
  · intro k r hr
    have ok := h.rt k r hr
    have := hretlt k r hr
    rw [← h.cnt k r hr]
    apply countRet_congr
    intro i hi
    rw [hagree i (by have := ok.rl; have := ok.er; omega) (by have := ok.er; omega)]
  · rw [← h.cntAll]
    -- both equal the count up to the common length
    by_cases hle : code'.length ≤ code.length
    · rw [countRet_extend code code'.length code.length hle (fun i h1 h2 => by rw [hold i h1 h2]; simp [isRet])]
      apply countRet_congr
      intro i hi
      rw [hagree i (by omega) hi]
    · have hle' : code.length ≤ code'.length := by omega
      rw [countRet_extend code' code.length code'.length hle' (fun i h1 h2 => by rw [hnew i h1 h2]; simp [isRet])]
      apply countRet_congr
      intro i hi
      rw [hagree i hi (by omega)]
  · intro pc h1 h2 h3
    by_cases hp : pc < code.length
    · rw [hagree pc hp h2]
      exact h.root pc h1 hp h3
    · exact Or.inl (hnew pc (by omega) h2)

theorem getElem?_append_one {α : Type} (l : List α) (x : List α) (j : Nat) (r : α)
    (h : l[j]? = some r) : (l ++ x)[j]? = some r := by
  rw [List.getElem?_append_left (List.getElem?_eq_some_iff.1 h).1]; exact h

theorem getElem?_snoc_cases {α : Type} (l : List α) (a : α) (j : Nat) (r : α)
    (h : (l ++ [a])[j]? = some r) : l[j]? = some r ∨ (j = l.length ∧ r = a) := by
  by_cases hj : j < l.length
  · rw [List.getElem?_append_left hj] at h; exact Or.inl h
  · rw [List.getElem?_append_right (by omega)] at h
    by_cases hj0 : j - l.length = 0
    · rw [hj0] at h
      simp at h
      exact Or.inr ⟨by omega, h.symm⟩
    · rw [List.getElem?_singleton, if_neg hj0] at h; cases h

/-- a finished routine is appended: `JMP after; body; RET` -/
theorem TopCore.addRoutine {code : List Instr} {labels : List Int} {todo : List Nat} {sms : List StackMap}
    {rts : List Rt} (h : TopCore code labels todo sms rts)
    (seg : List Instr) (s : Int) (F : Nat) (labels' : List Int) (todo' : List Nat) (sm : StackMap)
    (hlen : labels.length + 1 ≤ labels'.length)
    (hlold : ∀ l, l < labels.length → labels'[l]? = labels[l]?)
    (hafter : labels'[labels.length]? = some (((code.length + 1 + seg.length + 1 : Nat)) : Int))
    (hg : Groups (Callee rts rts.length) F (labels.length + 1) labels'.length seg)
    (hlab : ∀ l, labels.length + 1 ≤ l → l < labels'.length → ∃ k : Nat, k ≤ seg.length ∧
      labels'[l]? = some (((code.length + 1 + k : Nat)) : Int) ∧ ∀ i, seg[k]? = some i → notAE i = true)
    (htodo : ∀ x ∈ todo, x ∈ todo') (hj : code.length ∈ todo')
    (hjs : ∀ (k : Nat) (i : Instr), seg[k]? = some i → isJump i = true → code.length + 1 + k ∈ todo')
    (hs : RegIn s F) (hsm : ∀ e ∈ sm.map, RegIn e.1 F) :
    TopCore (code ++ [Instr.jmp ((labels.length : Nat) : Int)] ++ seg ++ [Instr.ret s]) labels' todo' (sms ++ [sm])
      (rts ++ [⟨code.length + 1, code.length + 1 + seg.length, F, labels.length + 1, labels'.length, rts.length⟩]) := by
  have hlen0 : 0 < code.length := (List.getElem?_eq_some_iff.1 h.head).1
  generalize hcode' : code ++ [Instr.jmp ((labels.length : Nat) : Int)] ++ seg ++ [Instr.ret s] = code'
  generalize hrt : (⟨code.length + 1, code.length + 1 + seg.length, F, labels.length + 1, labels'.length, rts.length⟩ : Rt) = rt
  have hlen' : code'.length = code.length + 1 + seg.length + 1 := by rw [← hcode']; simp; omega
  have c1 : ∀ pc, pc < code.length → code'[pc]? = code[pc]? := by
    intro pc hpc
    rw [← hcode', List.append_assoc, List.append_assoc, List.getElem?_append_left hpc]
  have c2 : code'[code.length]? = some (Instr.jmp ((labels.length : Nat) : Int)) := by
    rw [← hcode', List.append_assoc, List.append_assoc, List.getElem?_append_right (Nat.le_refl _)]
    simp
  have c3 : ∀ k, k < seg.length → code'[code.length + 1 + k]? = seg[k]? := by
    intro k hk
    rw [← hcode', List.getElem?_append_left (by simp; omega), List.getElem?_append_right (by simp)]
    congr 1
    simp
  have c4 : code'[code.length + 1 + seg.length]? = some (Instr.ret s) := by
    rw [← hcode', List.getElem?_append_right (by simp; omega)]
    have : code.length + 1 + seg.length - (code ++ [Instr.jmp ((labels.length : Nat) : Int)] ++ seg).length = 0 := by
      simp; omega
    rw [this]; rfl
  have hslice : slice code' (code.length + 1) (code.length + 1 + seg.length) = seg := by
    apply List.ext_getElem?
    intro i
    rw [slice_getElem?]
    by_cases hi : i < seg.length
    · rw [if_pos (by omega), c3 i hi]
    · rw [if_neg (by omega), List.getElem?_eq_none (by omega)]
  have hpre : ∀ j x, rts[j]? = some x → (rts ++ [rt])[j]? = some x := fun j x hx => getElem?_append_one _ _ _ _ hx
  have hspre : ∀ i x, sms[i]? = some x → (sms ++ [sm])[i]? = some x := fun j x hx => getElem?_append_one _ _ _ _ hx
  have hnoret : ∀ i ∈ seg, isRet i = false := hg.noRet
  -- the new routine
  have hnew : RtOK code' labels' todo' (sms ++ [sm]) (rts ++ [rt]) rts.length rt := by
    subst hrt
    refine ⟨rfl, by simp; omega, by simp, by simp; omega, by simp, by simp; omega, Nat.le_refl _, ?_, ?_, ?_, ⟨s, c4, hs⟩,
      ?_, ?_, ?_, ?_⟩
    · simpa using c2
    · simpa using hj
    · simpa using hafter
    · show Groups _ F (labels.length + 1) labels'.length (slice code' (code.length + 1) (code.length + 1 + seg.length))
      rw [hslice]
      exact hg.mono (fun p hp => hp.mono (Nat.le_refl _) hpre) (Nat.le_refl _) (Nat.le_refl _)
    · intro l h1 h2
      obtain ⟨k, k1, k2, k3⟩ := hlab l h1 h2
      refine ⟨code.length + 1 + k, by simp, by simp; omega, k2, ?_⟩
      intro i hi
      by_cases hk : k < seg.length
      · rw [c3 k hk] at hi; exact k3 i hi
      · have : k = seg.length := by omega
        subst this
        rw [c4] at hi
        rw [← Option.some.inj hi]; rfl
    · intro pc i h1 h2 h3 h4
      simp only at h1 h2
      have hk : pc = code.length + 1 + (pc - (code.length + 1)) := by omega
      rw [hk] at h3 ⊢
      rw [c3 _ (by omega)] at h3
      exact hjs _ i h3 h4
    · refine ⟨sm, ?_, hsm⟩
      rw [← h.nsm, List.getElem?_append_right (Nat.le_refl _)]
      simp
  have hcases : ∀ k r, (rts ++ [rt])[k]? = some r → rts[k]? = some r ∨ (k = rts.length ∧ r = rt) :=
    fun k r hr => getElem?_snoc_cases rts rt k r hr
  refine ⟨by rw [c1 0 hlen0]; exact h.head, by simp [h.nsm], ?_, ?_, ?_, ?_, ?_⟩
  · intro k r hr
    rcases hcases k r hr with hr | ⟨rfl, rfl⟩
    · have ok := h.rt k r hr
      exact ok.mono (fun pc _ h2 => c1 pc (by have := ok.rl; omega))
        (fun l hl => hlold l (by have := ok.hil; omega)) htodo hspre hpre
    · exact hnew
  · intro j k rj rk hjk hj' hk'
    rcases hcases k rk hk' with hk' | ⟨rfl, rfl⟩
    · rcases hcases j rj hj' with hj' | ⟨rfl, _⟩
      · exact h.ord j k rj rk hjk hj' hk'
      · have := (List.getElem?_eq_some_iff.1 hk').1; omega
    · rcases hcases j rj hj' with hj' | ⟨rfl, _⟩
      · have := (h.rt j rj hj').rl
        subst hrt
        simp only
        omega
      · omega
  · intro k r hr
    rcases hcases k r hr with hr | ⟨rfl, rfl⟩
    · have ok := h.rt k r hr
      rw [← h.cnt k r hr]
      apply countRet_congr
      intro i hi
      rw [c1 i (by have := ok.rl; have := ok.er; omega)]
    · subst hrt
      simp only
      have hz : (if (code'[code.length]?).map isRet = some true then 1 else 0) = 0 := by rw [c2]; rfl
      rw [countRet_succ, hz, Nat.add_zero, ← h.cntAll]
      apply countRet_congr
      intro i hi
      rw [c1 i hi]
  · rw [← hcode']
    have e : code ++ [Instr.jmp ((labels.length : Nat) : Int)] ++ seg ++ [Instr.ret s] =
        code ++ (Instr.jmp ((labels.length : Nat) : Int) :: (seg ++ [Instr.ret s])) := by simp
    rw [e, countRet_full_append, h.cntAll]
    simp [List.filter_cons, isRet, List.filter_append, filter_isRet_eq_nil hnoret]
  · intro pc h1 h2 h3
    by_cases hp : pc < code.length
    · rw [c1 pc hp]
      rcases h.root pc h1 hp (fun r hr => h3 r (List.mem_append_left _ hr)) with hh | ⟨r, hr, hh⟩
      · exact Or.inl hh
      · exact Or.inr ⟨r, List.mem_append_left _ hr, hh⟩
    · by_cases hp2 : pc = code.length
      · refine Or.inr ⟨rt, by simp, ?_⟩
        subst hrt
        simp only
        omega
      · exfalso
        refine h3 rt (by simp) ?_
        subst hrt
        simp only
        omega

end GenWF
end Theo
