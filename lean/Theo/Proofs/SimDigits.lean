import Theo.Model.Basic

namespace Theo
namespace Sim

/-- the byte of a decimal-digit character lies in 48..57 -/
private theorem digitByte_range {c : Char} (hc : c.isDigit = true) :
    48 ≤ (c.toNat.toUInt8).toNat ∧ (c.toNat.toUInt8).toNat ≤ 57 := by
  have h := Char.isDigit_iff_toNat.mp hc
  have h0 : '0'.toNat = 48 := by decide
  have h9 : '9'.toNat = 57 := by decide
  rw [h0, h9] at h
  have : (c.toNat.toUInt8).toNat = c.toNat := by
    rw [Nat.toUInt8, UInt8.toNat_ofNat']
    exact Nat.mod_eq_of_lt (by omega)
  omega

/-- the byte map is injective on digit characters -/
private theorem digitByte_inj {c d : Char} (hc : c.isDigit = true) (hd : d.isDigit = true)
    (h : c.toNat.toUInt8 = d.toNat.toUInt8) : c = d := by
  have h1 := Char.isDigit_iff_toNat.mp hc
  have h2 := Char.isDigit_iff_toNat.mp hd
  have h0 : '0'.toNat = 48 := by decide
  have h9 : '9'.toNat = 57 := by decide
  rw [h0, h9] at h1 h2
  have e1 : (c.toNat.toUInt8).toNat = c.toNat := by
    rw [Nat.toUInt8, UInt8.toNat_ofNat']
    exact Nat.mod_eq_of_lt (by omega)
  have e2 : (d.toNat.toUInt8).toNat = d.toNat := by
    rw [Nat.toUInt8, UInt8.toNat_ofNat']
    exact Nat.mod_eq_of_lt (by omega)
  have : c.toNat = d.toNat := by rw [← e1, ← e2, h]
  exact Char.toNat_inj.mp this

private theorem map_digitByte_inj :
    ∀ (l1 l2 : List Char), (∀ c ∈ l1, c.isDigit = true) → (∀ c ∈ l2, c.isDigit = true) →
      l1.map (fun c => c.toNat.toUInt8) = l2.map (fun c => c.toNat.toUInt8) → l1 = l2
  | [], [], _, _, _ => rfl
  | [], _ :: _, _, _, h => by simp at h
  | _ :: _, [], _, _, h => by simp at h
  | a :: l1, b :: l2, h1, h2, h => by
    simp only [List.map_cons, List.cons.injEq] at h
    have hab : a = b := digitByte_inj (h1 a (by simp)) (h2 b (by simp)) h.1
    have ht : l1 = l2 := map_digitByte_inj l1 l2
      (fun c hc => h1 c (List.mem_cons_of_mem _ hc))
      (fun c hc => h2 c (List.mem_cons_of_mem _ hc)) h.2
    rw [hab, ht]

theorem natDigits_inj {n m : Nat} (h : natDigits n = natDigits m) : n = m := by
  unfold natDigits at h
  have hd : Nat.toDigits 10 n = Nat.toDigits 10 m :=
    map_digitByte_inj _ _
      (fun c hc => Nat.isDigit_of_mem_toDigits (by decide) (by decide) hc)
      (fun c hc => Nat.isDigit_of_mem_toDigits (by decide) (by decide) hc) h
  have := congrArg (fun l => Nat.ofDigitChars 10 l 0) hd
  simpa [Nat.ofDigitChars_ten_toDigits] using this

theorem natDigits_range {n : Nat} {b : UInt8} (hb : b ∈ natDigits n) :
    48 ≤ b.toNat ∧ b.toNat ≤ 57 := by
  unfold natDigits at hb
  obtain ⟨c, hc, rfl⟩ := List.mem_map.mp hb
  exact digitByte_range (Nat.isDigit_of_mem_toDigits (by decide) (by decide) hc)

theorem not_mem_natDigits_91 (n : Nat) : (91 : UInt8) ∉ natDigits n := by
  intro h
  have := natDigits_range h
  have e : (91 : UInt8).toNat = 91 := by decide
  omega

/-- two prefixes of one list, each ending in its first occurrence of `x`, coincide -/
theorem prefix_terminator_inj {α} {x : α} :
    ∀ (A B L : List α), A ++ [x] <+: L → B ++ [x] <+: L → x ∉ A → x ∉ B → A = B
  | [], [], _, _, _, _, _ => rfl
  | [], b :: B, L, hA, hB, _, hxB => by
    cases L with
    | nil => simp at hA
    | cons y L =>
      simp only [List.nil_append, List.cons_append, List.cons_prefix_cons] at hA hB
      exact absurd (by rw [hA.1, hB.1]; simp) hxB
  | a :: A, [], L, hA, hB, hxA, _ => by
    cases L with
    | nil => simp at hA
    | cons y L =>
      simp only [List.nil_append, List.cons_append, List.cons_prefix_cons] at hA hB
      exact absurd (by rw [hA.1, hB.1]; simp) hxA
  | a :: A, b :: B, L, hA, hB, hxA, hxB => by
    cases L with
    | nil => simp at hA
    | cons y L =>
      simp only [List.cons_append, List.cons_prefix_cons] at hA hB
      have ht : A = B := prefix_terminator_inj A B L hA.2 hB.2
        (fun h => hxA (List.mem_cons_of_mem _ h)) (fun h => hxB (List.mem_cons_of_mem _ h))
      rw [hA.1, hB.1, ht]

/-- the suffix `[<id>]` (bytes 91, decimal digits of id, 93) determines the id -/
theorem ctr_suffix_inj (id1 id2 : Nat) (nm : Bytes)
    (h1 : (([91] : Bytes) ++ natDigits id1 ++ [93]).isSuffixOf nm = true)
    (h2 : (([91] : Bytes) ++ natDigits id2 ++ [93]).isSuffixOf nm = true) : id1 = id2 := by
  rw [List.isSuffixOf_iff_suffix, ← List.reverse_prefix] at h1 h2
  have e : ∀ D : Bytes, (([91] : Bytes) ++ D ++ [93]).reverse = 93 :: (D.reverse ++ [91]) := by
    intro D; simp
  rw [e] at h1 h2
  cases hnm : nm.reverse with
  | nil => rw [hnm] at h1; simp at h1
  | cons y L =>
    rw [hnm, List.cons_prefix_cons] at h1 h2
    have hr : (natDigits id1).reverse = (natDigits id2).reverse :=
      prefix_terminator_inj _ _ L h1.2 h2.2
        (fun h => not_mem_natDigits_91 id1 (List.mem_reverse.mp h))
        (fun h => not_mem_natDigits_91 id2 (List.mem_reverse.mp h))
    exact natDigits_inj (List.reverse_inj.mp hr)

end Sim
end Theo
