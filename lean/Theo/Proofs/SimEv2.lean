/-
  C07, part 2: site-aware position relations (exact positions: where the breakpoint sites are and
  where they are not) and the simulation relation built on them.
-/
import Theo.Proofs.SimEv1

set_option linter.unusedSimpArgs false
set_option linter.unusedSectionVars false

namespace Theo
namespace Sim
open Sem WF

/-- position `σ` holds a breakpoint site registered for line `pos` -/
def SiteAt (p : Program) (σ : Nat) (pos : Pos) : Prop :=
  p.code[σ]? = some Instr.potBreak ∧ (p.lineAt (σ : Int)).map posOfBp = some pos

mutual
/-- statement `s` visited through the site at `σ`, its code right behind it; `pc'` is the cursor
    of what follows (`nxt` = the line of the following statement: a mark shares its site with a
    statement on its own line) -/
def TAt1 (p : Program) (e : VEnv) (G : Walk) : Stmt → Option Pos → Nat → Nat → Prop
  | .assign x v _, _, σ, pc' => ∃ rx, e.me.regOf x = some rx ∧
      checkValue e v [] (σ + 1) = some (rx, pc') ∧ Clean p.code (σ + 1) pc'
  | .mark _ q, nxt, σ, pc' => pc' = if nxt = some q then σ else σ + 1
  | .loop id x body _, _, σ, pc' => ∃ ctr rx offE offL pcB,
      e.me.ctrOf id = some ctr ∧ e.me.regOf x = some rx ∧
      p.code[σ + 1]? = some (.add ctr rx 0) ∧ p.code[σ + 2]? = some (.jmpc offE ctr) ∧
      TAt p e G body (σ + 3) pcB ∧
      p.code[pcB]? = some (.add ctr ctr (-1)) ∧ p.code[pcB + 1]? = some (.jmp offL) ∧
      ((pcB + 1 : Nat) : Int) + offL = ((σ + 2 : Nat) : Int) ∧
      ((σ + 2 : Nat) : Int) + offE = ((pcB + 2 : Nat) : Int) ∧ pc' = pcB + 2
  | .while_ x body _, _, σ, pc' => ∃ rx tmp offE offL pcB,
      e.me.regOf x = some rx ∧ e.me.isNamed tmp = false ∧
      p.code[σ + 1]? = some (.add tmp rx 0) ∧ p.code[σ + 2]? = some (.jmpc offE tmp) ∧
      TAt p e G body (σ + 3) pcB ∧
      p.code[pcB]? = some (.jmp offL) ∧
      ((pcB : Nat) : Int) + offL = ((σ + 1 : Nat) : Int) ∧
      ((σ + 2 : Nat) : Int) + offE = ((pcB + 1 : Nat) : Int) ∧ pc' = pcB + 1
  | .goto m _, _, σ, pc' => ∃ off, p.code[σ + 1]? = some (.jmp off) ∧
      (σ + 1, off, m) ∈ G.gotos ∧ pc' = σ + 2
  | .ifGoto x cst m _, _, σ, pc' => ∃ rx t1 t2 t0 off, e.me.regOf x = some rx ∧
      p.code[σ + 1]? = some (.add t1 rx 0) ∧ e.me.isNamed t1 = false ∧
      p.code[σ + 2]? = some (.const t2 (cst : Int)) ∧ e.me.isNamed t2 = false ∧ t2 ≠ t1 ∧
      cst < WORD_MAX ∧
      p.code[σ + 3]? = some (.test t0 t1 t2) ∧ e.me.isNamed t0 = false ∧
      p.code[σ + 4]? = some (.jmpc off t0) ∧
      (σ + 4, off, m) ∈ G.gotos ∧ pc' = σ + 5
  | .stop _, _, σ, pc' => p.code[σ + 1]? = some .halt ∧ pc' = σ + 2
/-- the statements `ss` with the VM standing at cursor `σ`; `pcEnd` = the cursor behind them -/
def TAt (p : Program) (e : VEnv) (G : Walk) : Stmts → Nat → Nat → Prop
  | .nil, σ, pcEnd => σ = pcEnd
  | .cons s ss, σ, pcEnd => SiteAt p σ s.pos ∧
      ∃ pc', TAt1 p e G s ss.headPos σ pc' ∧ TAt p e G ss pc' pcEnd
end

/-- the code behind an exhausted focus, at exact positions -/
def TKAt (p : Program) (e : VEnv) (G : Walk) : Kont → Nat → Nat → Prop
  | .done, σ, pcEnd => σ = pcEnd
  | .loop id body rest k, σ, pcEnd => ∃ ctr offE offL pJ pcR,
      e.me.ctrOf id = some ctr ∧ p.code[pJ]? = some (.jmpc offE ctr) ∧
      TAt p e G body (pJ + 1) σ ∧
      p.code[σ]? = some (.add ctr ctr (-1)) ∧ p.code[σ + 1]? = some (.jmp offL) ∧
      ((σ + 1 : Nat) : Int) + offL = (pJ : Int) ∧ (pJ : Int) + offE = ((σ + 2 : Nat) : Int) ∧
      TAt p e G rest (σ + 2) pcR ∧ TKAt p e G k pcR pcEnd
  | .while_ x body rest k, σ, pcEnd => ∃ rx tmp offE offL pL pcR,
      e.me.regOf x = some rx ∧ e.me.isNamed tmp = false ∧
      p.code[pL]? = some (.add tmp rx 0) ∧ p.code[pL + 1]? = some (.jmpc offE tmp) ∧
      TAt p e G body (pL + 2) σ ∧
      p.code[σ]? = some (.jmp offL) ∧
      (σ : Int) + offL = (pL : Int) ∧ ((pL + 1 : Nat) : Int) + offE = ((σ + 1 : Nat) : Int) ∧
      TAt p e G rest (σ + 1) pcR ∧ TKAt p e G k pcR pcEnd

/-- every recorded jump lands exactly on the cursor of its target mark -/
def TRes (p : Program) (e : VEnv) (G : Walk) (body : Stmts) (pcEnd : Nat) : Prop :=
  ∀ pos off m, (pos, off, m) ∈ G.gotos → ∃ ss' K' pcE, findLabel m body .done = some (ss', K') ∧
    ∃ tgt : Nat, (pos : Int) + off = (tgt : Int) ∧ TAt p e G ss' tgt pcE ∧ TKAt p e G K' pcE pcEnd

/-- the jumps over the routines, at exact positions -/
inductive TSkips (code : List Instr) : Nat → Nat → Prop where
  | refl (pc : Nat) : TSkips code pc pc
  | jump {pc : Nat} {off : Int} {after pcF : Nat} : code[pc]? = some (.jmp off) →
      (pc : Int) + off = (after : Int) → TSkips code after pcF → TSkips code pc pcF

/-- what `siteCheck` adds to `shapeCheck`: `tend r` is the position of routine `r`'s `RET`
    (the final `HALT` for the root) -/
structure TValid {src : Source} {p : Program} (V : Valid src p) (tend : Nat → Nat) : Prop where
  body : ∀ r, r ≤ src.progs.length →
    TAt p (V.env r) (V.G r) (bodyOf src r) (V.start r) (tend r)
  res : ∀ r, r ≤ src.progs.length → TRes p (V.env r) (V.G r) (bodyOf src r) (tend r)
  ret : ∀ r, r < src.progs.length → ∃ pd ro, src.progs[r]? = some pd ∧
    p.code[tend r]? = some (.ret ro) ∧ (V.ri r).regOf pd.out = some ro
  halt : p.code[tend src.progs.length]? = some .halt
  skips : TSkips p.code 1 (V.start src.progs.length)

/-! ### one activation -/

def FrameAtT (p : Program) (e : VEnv) (G : Walk) (tend : Nat) (H : Int → Nat → Prop) (fr : Frame)
    (ip : Nat) (rt : Int) : Prop :=
  match fr.ctrl with
  | .run => ∃ pcE, TAt p e G fr.focus ip pcE ∧ TKAt p e G fr.k pcE tend
  | .eval v x cs => ∃ live tgt pc' pcS pcE, checkValue e v live ip = some (tgt, pc') ∧
      CtxAt e H cs x live tgt pc' pcS ∧ Clean p.code ip pcS ∧
      TAt p e G fr.focus pcS pcE ∧ TKAt p e G fr.k pcE tend
  | .ret n x cs => ∃ live tgt pcS pcE, H tgt n ∧ CtxAt e H cs x live tgt ip pcS ∧
      Clean p.code ip pcS ∧ TAt p e G fr.focus pcS pcE ∧ TKAt p e G fr.k pcE tend
  | .wait x cs => ∃ live pcS pcE, CtxAt e H cs x live rt ip pcS ∧ Clean p.code ip pcS ∧
      TAt p e G fr.focus pcS pcE ∧ TKAt p e G fr.k pcE tend

theorem FrameAtT.mono {p : Program} {e : VEnv} {G : Walk} {tend : Nat} {H H' : Int → Nat → Prop}
    {fr : Frame} {ip : Nat} {rt : Int} (h : FrameAtT p e G tend H fr ip rt)
    (hm : ∀ t n, H t n → H' t n) : FrameAtT p e G tend H' fr ip rt := by
  unfold FrameAtT at h ⊢
  split
  · rename_i hc; rw [hc] at h; exact h
  · rename_i v x cs hc
    rw [hc] at h
    obtain ⟨live, tgt, pc', pcS, pcE, h1, h2, h3, h4, h5⟩ := h
    exact ⟨live, tgt, pc', pcS, pcE, h1, h2.mono hm, h3, h4, h5⟩
  · rename_i n x cs hc
    rw [hc] at h
    obtain ⟨live, tgt, pcS, pcE, h1, h2, h3, h4, h5⟩ := h
    exact ⟨live, tgt, pcS, pcE, hm _ _ h1, h2.mono hm, h3, h4, h5⟩
  · rename_i x cs hc
    rw [hc] at h
    obtain ⟨live, pcS, pcE, h2, h3, h4, h5⟩ := h
    exact ⟨live, pcS, pcE, h2.mono hm, h3, h4, h5⟩

section
variable {src : Source} {p : Program}

def FrameRelT (V : Valid src p) (tend : Nat → Nat) (d : List Int) (fr : Frame) (a : Act) (ip : Nat)
    (rt : Int) : Prop :=
  fr.routine ≤ src.progs.length ∧ a.dbg = (fr.routine : Int) ∧
  FrameOK d a (V.ri fr.routine) (effEnv fr) fr.ctrs ∧
  FrameAtT p (V.env fr.routine) (V.G fr.routine) (tend fr.routine) (Holds d a) fr ip rt

theorem FrameRelT.below {V : Valid src p} {tend : Nat → Nat} {d d' : List Int} {fr : Frame} {a : Act}
    {ip : Nat} {rt : Int} {N : Nat} (h : FrameRelT V tend d fr a ip rt)
    (hN : a.dataStart + a.segSize.toNat ≤ N) (hs : SameBelow N d d') :
    FrameRelT V tend d' fr a ip rt := by
  obtain ⟨h1, h2, h3, h4⟩ := h
  exact ⟨h1, h2, h3.below hN hs, h4.mono (fun _ _ hh => hh.below hN hs)⟩

def StackRelT (V : Valid src p) (tend : Nat → Nat) (d : List Int) :
    List Frame → List Act → Nat → Int → Prop
  | [], _, _, _ => False
  | fr :: frs, as, ip, rt =>
    match as with
    | [] => False
    | a :: as' => FrameRelT V tend d fr a ip rt ∧
      match frs with
      | [] => as' = [] ∧ fr.routine = src.progs.length
      | fr2 :: _ => fr.routine < src.progs.length ∧ isWait fr2 ∧
          ∃ ip2 : Nat, a.retAddr = (ip2 : Int) ∧ StackRelT V tend d frs as' ip2 a.retTarget

def RestRelT (V : Valid src p) (tend : Nat → Nat) (d : List Int) (r : Nat) (a : Act)
    (frs : List Frame) (as' : List Act) : Prop :=
  match frs with
  | [] => as' = [] ∧ r = src.progs.length
  | fr2 :: _ => r < src.progs.length ∧ isWait fr2 ∧
      ∃ ip2 : Nat, a.retAddr = (ip2 : Int) ∧ StackRelT V tend d frs as' ip2 a.retTarget

theorem stackRelT_cons {V : Valid src p} {tend : Nat → Nat} {d : List Int} {fr : Frame}
    {frs : List Frame} {a : Act} {as' : List Act} {ip : Nat} {rt : Int} :
    StackRelT V tend d (fr :: frs) (a :: as') ip rt ↔
      FrameRelT V tend d fr a ip rt ∧ RestRelT V tend d fr.routine a frs as' := by
  cases frs with
  | nil => simp only [StackRelT, RestRelT]
  | cons _ _ => simp only [StackRelT, RestRelT]

theorem stackRelT_inv {V : Valid src p} {tend : Nat → Nat} {d : List Int} {fr : Frame}
    {frs : List Frame} {as : List Act} {ip : Nat} {rt : Int}
    (h : StackRelT V tend d (fr :: frs) as ip rt) :
    ∃ a as', as = a :: as' ∧ FrameRelT V tend d fr a ip rt ∧
      RestRelT V tend d fr.routine a frs as' := by
  cases as with
  | nil => simp only [StackRelT] at h
  | cons a as' => exact ⟨a, as', rfl, stackRelT_cons.1 h⟩

theorem StackRelT.below {V : Valid src p} {tend : Nat → Nat} {d d' : List Int} :
    ∀ {frs : List Frame} {as : List Act} {ip : Nat} {rt : Int} {N : Nat},
    StackRelT V tend d frs as ip rt → Tiles as N → SameBelow N d d' →
    StackRelT V tend d' frs as ip rt := by
  intro frs
  induction frs with
  | nil => intro as ip rt N h _ _; simp only [StackRelT] at h
  | cons fr frs ih =>
    intro as ip rt N h ht hs
    cases as with
    | nil => simp only [StackRelT] at h
    | cons a as' =>
      simp only [StackRelT] at h ⊢
      obtain ⟨_, hsum, ht'⟩ := ht
      refine ⟨h.1.below (by omega) hs, ?_⟩
      cases frs with
      | nil => exact h.2
      | cons fr2 frs' =>
        obtain ⟨g1, g2, ip2, g3, g4⟩ := h.2
        exact ⟨g1, g2, ip2, g3, ih g4 ht' (hs.mono (by omega))⟩

theorem RestRelT.below {V : Valid src p} {tend : Nat → Nat} {d d' : List Int} {r : Nat} {a : Act}
    {frs : List Frame} {as' : List Act} (h : RestRelT V tend d r a frs as')
    (ht : Tiles as' a.dataStart) (hs : SameBelow a.dataStart d d') :
    RestRelT V tend d' r a frs as' := by
  unfold RestRelT at h ⊢
  cases frs with
  | nil => exact h
  | cons fr2 frs' =>
    obtain ⟨g1, g2, ip2, g3, g4⟩ := h
    exact ⟨g1, g2, ip2, g3, g4.below ht hs⟩

theorem FrameRelT.agrees {V : Valid src p} (hV : V.OK) {tend : Nat → Nat} {d : List Int} {fr : Frame}
    {a : Act} {ip : Nat} {rt : Int} (h : FrameRelT V tend d fr a ip rt) (he : effEnv fr = fr.env) :
    FrameAgrees' p d fr a := by
  obtain ⟨h1, h2, h3, _⟩ := h
  refine ⟨h2, fun sm hsm e hmem hc => ?_⟩
  obtain ⟨sm', q1, q2⟩ := hV.regs fr.routine h1
  rw [hsm] at q1
  cases q1
  rw [he] at h3
  have := h3.1 e.1 e.2 (by rw [q2]; exact hmem) hc
  exact ⟨this.1, this.2.2.1⟩

theorem StackRelT.agrees {V : Valid src p} (hV : V.OK) {tend : Nat → Nat} {d : List Int} :
    ∀ {frs : List Frame} {as : List Act} {ip : Nat} {rt : Int}, StackRelT V tend d frs as ip rt →
    (∀ fr rest, frs = fr :: rest → effEnv fr = fr.env) → StacksAgree' p d frs as := by
  intro frs
  induction frs with
  | nil => intro as ip rt h _; simp only [StackRelT] at h
  | cons fr frs ih =>
    intro as ip rt h he
    obtain ⟨a, as', rfl, h1, h2⟩ := stackRelT_inv h
    simp only [StacksAgree']
    refine ⟨h1.agrees hV (he fr frs rfl), ?_⟩
    unfold RestRelT at h2
    cases frs with
    | nil => rw [h2.1]; simp only [StacksAgree']
    | cons fr2 frs' =>
      obtain ⟨_, g2, ip2, _, g4⟩ := h2
      exact ih g4 (fun fr' rest' hh => by cases hh; exact effEnv_wait g2)

variable (V : Valid src p) (tend : Nat → Nat) (c : Cert) (R : PcInfo)

/-- the site-aware simulation relation: the VM stands exactly at the cursor -/
structure MatchT (cfg : Config) (vm : VM) : Prop where
  good : Good p c R.rid vm
  run : cfg.status = .running
  rel : ∃ ip : Nat, vm.ip = (ip : Int) ∧ StackRelT V tend vm.data cfg.stack vm.stack ip 0
  top : ∀ fr rest, cfg.stack = fr :: rest → ¬ isWait fr

structure TopCtxT (vm : VM) (r : Nat) (a : Act) (as' : List Act) (rest : List Frame) : Prop where
  good : Good p c R.rid vm
  stk : vm.stack = a :: as'
  rle : r ≤ src.progs.length
  dbg : a.dbg = (r : Int)
  restrel : RestRelT V tend vm.data r a rest as'

variable {V tend c R}

theorem TopCtxT.tiles {vm : VM} {r : Nat} {a : Act} {as' : List Act} {rest : List Frame}
    (T : TopCtxT V tend c R vm r a as' rest) : Tiles as' a.dataStart := by
  have := T.good.tiles
  rw [T.stk] at this
  exact this.2.2

/-- the context after steps that changed at most the top activation's frame -/
theorem TopCtxT.move {vm : VM} {r : Nat} {a : Act} {as' : List Act} {rest : List Frame}
    (T : TopCtxT V tend c R vm r a as' rest) {vm' : VM} (hg : Good p c R.rid vm')
    (hst : vm'.stack = vm.stack) (hsb : SameBelow a.dataStart vm.data vm'.data) :
    TopCtxT V tend c R vm' r a as' rest :=
  ⟨hg, hst.trans T.stk, T.rle, T.dbg, T.restrel.below T.tiles hsb⟩

theorem TopCtxT.finish {vm : VM} {r : Nat} {a : Act} {as' : List Act} {rest : List Frame}
    (T : TopCtxT V tend c R vm r a as' rest) {ip' : Nat} (hip : vm.ip = (ip' : Int)) {fr' : Frame}
    (hr : fr'.routine = r) (hfo : FrameOK vm.data a (V.ri r) (effEnv fr') fr'.ctrs)
    (hat : FrameAtT p (V.env r) (V.G r) (tend r) (Holds vm.data a) fr' ip' 0)
    (hnw : ¬ isWait fr') : MatchT V tend c R ⟨fr' :: rest, .running⟩ vm := by
  refine ⟨T.good, rfl, ⟨ip', hip, ?_⟩, ?_⟩
  · rw [T.stk]
    show StackRelT V tend vm.data (fr' :: rest) (a :: as') ip' 0
    rw [stackRelT_cons]
    subst hr
    exact ⟨⟨T.rle, T.dbg, hfo, hat⟩, T.restrel⟩
  · intro fr rest' h
    cases h
    exact hnw

theorem MatchT.inv {cfg : Config} {vm : VM} (hm : MatchT V tend c R cfg vm) :
    ∃ fr rest a as', ∃ ip : Nat, cfg = ⟨fr :: rest, .running⟩ ∧
      TopCtxT V tend c R vm fr.routine a as' rest ∧
      vm.ip = (ip : Int) ∧ FrameOK vm.data a (V.ri fr.routine) (effEnv fr) fr.ctrs ∧
      FrameAtT p (V.env fr.routine) (V.G fr.routine) (tend fr.routine) (Holds vm.data a) fr ip 0 ∧
      ¬ isWait fr := by
  obtain ⟨hg, hrun, ⟨ip, ha, hrel⟩, htop⟩ := hm
  obtain ⟨stack, status⟩ := cfg
  simp only at hrun hrel htop
  subst hrun
  cases stack with
  | nil => simp only [StackRelT] at hrel
  | cons fr rest =>
    obtain ⟨a, as', hst, ⟨h1, h2, h3, h4⟩, hr⟩ := stackRelT_inv hrel
    exact ⟨fr, rest, a, as', ip, rfl, ⟨hg, hst, h1, h2, hr⟩, ha, h3, h4, htop fr rest rfl⟩

/-- the variable views in a matched state whose top activation is executing statements -/
theorem MatchT.agree (hV : V.OK) {cfg : Config} {vm : VM} (hm : MatchT V tend c R cfg vm)
    (he : ∀ fr rest, cfg.stack = fr :: rest → effEnv fr = fr.env) :
    StacksAgree' p vm.data cfg.stack vm.stack := by
  obtain ⟨ip, _, hrel⟩ := hm.rel
  exact hrel.agrees hV he

end

end Sim
end Theo
