/-
  C02 (located errors), part 1: the scanner.
  Every token and every error of `scan fs main` is positioned at the placeholder ("-", -1) or
  on a line of a file of `fs`; the file set scanned by `parseFiles` (standard file added, include
  phrase prepended to the main file) has the same located positions as the supplied files.
-/
import Theo.Spec.Located
import Theo.Proofs.ScanProofs

namespace Theo
namespace Loc

/-! ### line numbers of the tokens of one buffer -/

theorem countNl_append (a b : Bytes) : countNl (a ++ b) = countNl a + countNl b := by
  simp [countNl]

theorem countNl_take_drop (n : Nat) (s : Bytes) : countNl (s.take n) + countNl (s.drop n) = countNl s := by
  rw [← countNl_append, List.take_append_drop]

/-- a token of a buffer ends on a line between the current line and the current line plus the
    number of newlines still to be read -/
theorem lexFrom_lines (rules : List (Rx × Option Nat)) :
    ∀ (fuel : Nat) (inp : Bytes) (line : Nat), ∀ t ∈ lexFrom rules fuel inp line,
      line ≤ t.line ∧ t.line ≤ line + countNl inp := by
  intro fuel
  induction fuel with
  | zero => intro inp line t ht; simp [lexFrom] at ht
  | succ fuel ih =>
    intro inp line t ht
    cases inp with
    | nil => simp [lexFrom] at ht
    | cons c cs =>
      simp only [lexFrom] at ht
      cases hl : longest (rules.map (·.1)) (c :: cs) with
      | none => rw [hl] at ht; simp at ht
      | some v =>
        obtain ⟨i, n⟩ := v
        rw [hl] at ht
        simp only [] at ht
        have hsum := countNl_take_drop n (c :: cs)
        have hrest : ∀ t ∈ lexFrom rules fuel ((c :: cs).drop n) (line + countNl ((c :: cs).take n)),
            line ≤ t.line ∧ t.line ≤ line + countNl (c :: cs) := by
          intro t ht
          have := ih _ _ t ht
          omega
        split at ht
        · rcases List.mem_cons.1 ht with h | h
          · subst h; simp only; omega
          · exact hrest t h
        · exact hrest t ht

theorem lexBuffer_lines (content : Bytes) :
    ∀ t ∈ lexBuffer content, 1 ≤ t.line ∧ t.line ≤ lineCount content := by
  intro t ht
  have := lexFrom_lines LexGen.rules _ _ _ t ht
  unfold lineCount
  omega

/-! ### positions inside a set of files -/

/-- `(file, line)` is a line of a file of `fs` -/
def SLoc (fs : Files) (file : Bytes) (line : Int) : Prop :=
  ∃ c, fs.get? file = some c ∧ InLines c line

/-- the placeholder, or a line of a file of `fs` -/
def PLoc (fs : Files) (file : Bytes) (line : Int) : Prop :=
  (file = bDash ∧ line = -1) ∨ SLoc fs file line

def OutLoc (fs : Files) (o : ScanOut) : Prop :=
  (∀ t ∈ o.toks, SLoc fs t.file t.line) ∧ (∀ e ∈ o.errs, SLoc fs e.file e.line)

theorem OutLoc.nil (fs : Files) : OutLoc fs ⟨[], [], false⟩ :=
  ⟨fun _ h => (by cases h), fun _ h => (by cases h)⟩

theorem OutLoc.append {fs : Files} {a b : ScanOut} (ha : OutLoc fs a) (hb : OutLoc fs b) :
    OutLoc fs (a.append b) := by
  constructor
  · intro t ht
    rcases List.mem_append.1 ht with h | h
    · exact ha.1 t h
    · exact hb.1 t h
  · intro e he
    rcases List.mem_append.1 he with h | h
    · exact ha.2 e h
    · exact hb.2 e h

/-- induction principle for `scanToksWith` in which the lines of the errors are lines of
    scanned tokens -/
theorem scanToksWith_ind' (P : ScanOut → Prop) (Q : RawTok → Prop)
    (sub : List Bytes → Bytes → Bytes → ScanOut) (files : Files) (active : List Bytes)
    (fname : Bytes)
    (hnil : P ⟨[], [], false⟩)
    (happ : ∀ a b, P a → P b → P (a.append b))
    (htok : ∀ t : RawTok, Q t → P ⟨[⟨t.kind, t.text, fname, t.line⟩], [], false⟩)
    (herr : ∀ t : RawTok, Q t → ∀ k r, P ⟨[], [⟨k, fname, t.line, r⟩], false⟩)
    (hsub : ∀ n c, files.get? n = some c → P (sub active n c)) :
    ∀ ts : List RawTok, (∀ t ∈ ts, Q t) → P (scanToksWith sub files active fname ts) := by
  intro ts
  induction ts using scanToksWith.induct with
  | case1 => intro _; simpa [scanToksWith] using hnil
  | case2 t ht =>
    intro hq; simpa [scanToksWith, ht] using herr t (hq t (List.mem_singleton.2 rfl)) _ _
  | case3 t ht =>
    intro hq; simpa [scanToksWith, ht] using htok t (hq t (List.mem_singleton.2 rfl))
  | case4 t n rest ht hn ih =>
    intro hq
    rw [scanToksWith, if_pos ht, if_pos hn]
    exact happ _ _ (herr n (hq n (by simp)) _ _) (ih (fun x hx => hq x (by simp [hx])))
  | case5 t n rest ht hn ih =>
    intro hq
    rw [scanToksWith, if_pos ht, if_neg hn]
    refine happ _ _ ?_ (ih (fun x hx => hq x (by simp [hx])))
    split
    · exact herr n (hq n (by simp)) _ _
    · next c h =>
      split
      · exact herr n (hq n (by simp)) _ _
      · exact hsub _ _ h
  | case6 t n rest ht ih =>
    intro hq
    rw [scanToksWith, if_neg ht]
    exact happ _ _ (htok t (hq t (by simp))) (ih (fun x hx => hq x (List.mem_cons_of_mem _ hx)))

theorem scanFile_loc (fs : Files) :
    ∀ (d : Nat) (active : List Bytes) (fname content : Bytes), fs.get? fname = some content →
      OutLoc fs (scanFile d fs active fname content) := by
  intro d
  induction d with
  | zero => intro active fname content _; exact OutLoc.nil fs
  | succ d ih =>
    intro active fname content hf
    rw [scanFile]
    have hpos : ∀ t : RawTok, (1 ≤ t.line ∧ t.line ≤ lineCount content) →
        SLoc fs fname (t.line : Int) := by
      intro t ht
      refine ⟨content, hf, ?_⟩
      unfold InLines
      omega
    refine scanToksWith_ind' (OutLoc fs) (fun t => 1 ≤ t.line ∧ t.line ≤ lineCount content)
      _ fs (fname :: active) fname (OutLoc.nil fs) (fun _ _ => OutLoc.append) ?_ ?_ ?_ _
      (lexBuffer_lines content)
    · intro t ht
      refine ⟨?_, fun _ h => (by cases h)⟩
      intro x hx
      rw [List.mem_singleton.1 hx]
      exact hpos t ht
    · intro t ht k r
      refine ⟨fun _ h => (by cases h), ?_⟩
      intro x hx
      rw [List.mem_singleton.1 hx]
      exact hpos t ht
    · intro n c hget
      exact ih _ _ _ hget

/-- every token and every error of a scan is at the placeholder or inside a file of the set -/
theorem scan_loc (fs : Files) (main : Bytes) :
    (∀ t ∈ (scan fs main).toks, PLoc fs t.file t.line) ∧
    (∀ e ∈ (scan fs main).errs, PLoc fs e.file e.line) := by
  have hbody : (∀ t ∈ (scanBody fs main).toks, PLoc fs t.file t.line) ∧
      (∀ e ∈ (scanBody fs main).errs, PLoc fs e.file e.line) := by
    unfold scanBody
    split
    · next c h =>
      have := scanFile_loc fs (fs.length + 1) [] main c h
      exact ⟨fun t ht => Or.inr (this.1 t ht), fun e he => Or.inr (this.2 e he)⟩
    · refine ⟨fun _ h => (by cases h), ?_⟩
      intro e he
      rw [List.mem_singleton.1 he]
      exact Or.inl ⟨rfl, rfl⟩
  constructor
  · intro t ht
    rw [scan_toks] at ht
    rcases List.mem_append.1 ht with h | h
    · exact hbody.1 t h
    · rw [List.mem_singleton.1 h]
      unfold scanEof
      split
      · next l hl => exact hbody.1 l (List.mem_of_getLast? hl)
      · split
        · next hm =>
          right
          simp only [Files.has, Option.isSome_iff_exists] at hm
          obtain ⟨c, hc⟩ := hm
          refine ⟨c, hc, ?_⟩
          unfold InLines lineCount
          simp only
          omega
        · exact Or.inl ⟨rfl, rfl⟩
  · exact hbody.2

/-! ### the file set scanned by `parseFiles` -/

/-- the supplied files plus the hidden standard file, unless a file of that name is supplied -/
def stdFiles (files : Files) : Files :=
  if files.has ConstGen.stdFileName then files
  else files ++ [(ConstGen.stdFileName, ConstGen.stdMacroText)]

/-- the files as scanned: the include phrase is put in front of the main file -/
def scanFiles (files : Files) (main : Bytes) : Files :=
  (stdFiles files).map (fun e => if e.1 = main then (e.1, ConstGen.includePhrase ++ e.2) else e)

theorem get?_append_single (fs : Files) (k v n : Bytes) :
    Files.get? (fs ++ [(k, v)]) n =
      match fs.get? n with
      | some c => some c
      | none => if k = n then some v else none := by
  unfold Files.get?
  induction fs with
  | nil =>
    by_cases h : k = n <;> simp [h]
  | cons x xs ih =>
    by_cases h : x.1 = n
    · simp [h]
    · simpa [h] using ih

theorem get?_map_prefix (fs : Files) (main p n : Bytes) :
    Files.get? (fs.map (fun e => if e.1 = main then (e.1, p ++ e.2) else e)) n =
      (fs.get? n).map (fun c => if n = main then p ++ c else c) := by
  unfold Files.get?
  induction fs with
  | nil => simp
  | cons x xs ih =>
    by_cases hm : x.1 = main
    · by_cases h : x.1 = n
      · have : n = main := h ▸ hm
        simp [hm, this]
      · have h' : ¬ main = n := fun e => h (hm.trans e)
        simpa [hm, h, h'] using ih
    · by_cases h : x.1 = n
      · have h' : ¬ n = main := fun e => hm (h.trans e)
        simp [h, h']
      · simpa [hm, h] using ih

theorem cstr_prefix (p c : Bytes) (hp : ∀ a ∈ p, a ≠ 0) : cstr (p ++ c) = p ++ cstr c := by
  unfold cstr
  induction p with
  | nil => rfl
  | cons x xs ih =>
    have hx : x ≠ 0 := hp x (by simp)
    simp only [List.cons_append]
    rw [List.takeWhile_cons]
    simp only [ne_eq, hx, not_false_eq_true, decide_true, if_true]
    rw [ih (fun a ha => hp a (List.mem_cons_of_mem _ ha))]

/-- the include phrase has no newline and no NUL: it does not change the number of lines -/
theorem lineCount_phrase (c : Bytes) : lineCount (ConstGen.includePhrase ++ c) = lineCount c := by
  unfold lineCount
  rw [cstr_prefix _ _ (by decide), countNl_append]
  have : countNl ConstGen.includePhrase = 0 := by decide
  omega

theorem located_of_scanFiles (files : Files) (main file : Bytes) (line : Int)
    (h : PLoc (scanFiles files main) file line) : Located files file line := by
  rcases h with h | ⟨c, hc, hl⟩
  · exact Or.inl h
  · right
    unfold scanFiles at hc
    rw [get?_map_prefix] at hc
    cases h1 : (stdFiles files).get? file with
    | none => rw [h1] at hc; cases hc
    | some c1 =>
      rw [h1] at hc
      simp only [Option.map_some, Option.some.injEq] at hc
      have hl1 : InLines c1 line := by
        unfold InLines at hl ⊢
        rw [← hc] at hl
        split at hl
        · rwa [lineCount_phrase] at hl
        · exact hl
      unfold stdFiles at h1
      split at h1
      · rw [h1]; exact hl1
      · rw [get?_append_single] at h1
        cases h2 : files.get? file with
        | some c2 =>
          rw [h2] at h1
          simp only [Option.some.injEq] at h1
          simp only [h1]
          exact hl1
        | none =>
          rw [h2] at h1
          simp only at h1
          split at h1
          · next hk =>
            simp only [Option.some.injEq] at h1
            simp only
            exact ⟨hk.symm, h1 ▸ hl1⟩
          · cases h1

/-- every token and every error of the scan performed by `parseFiles` is located -/
theorem scan_located (files : Files) (main : Bytes) :
    (∀ t ∈ (scan (scanFiles files main) main).toks, Located files t.file t.line) ∧
    (∀ e ∈ (scan (scanFiles files main) main).errs, Located files e.file e.line) :=
  ⟨fun t ht => located_of_scanFiles files main _ _ ((scan_loc _ main).1 t ht),
   fun e he => located_of_scanFiles files main _ _ ((scan_loc _ main).2 e he)⟩

theorem scan_toks_ne_nil (fs : Files) (main : Bytes) : (scan fs main).toks ≠ [] := by
  rw [scan_toks]; simp

end Loc
end Theo
