/-
  C01 budget, part 6: the exact number of consecutive instruction-free steps.

  The steps of the reference machine that cost no VM instruction (`cost cfg = 0`,
  SimCountStep.lean) are: entering `x := v`, passing a mark, descending into the first argument of
  a call, moving on to the next argument, storing a value in its variable.  `stut cfg` counts how
  many of them the configuration `cfg` is going to make in a row:
      marks*  [ `x :=` ( first-argument descents )* ]
  possibly preceded by one store / one move to the next argument.  It decreases by one with each
  such step (`stut_step`) and is bounded, on every reachable configuration, by the *stutter
  bound* of the source (`stut_le_bound`): the longest run of consecutive marks (followed by an
  assignment: plus one plus the depth of its chain of first arguments) plus one.
-/
import Theo.Proofs.SimCountStep

set_option linter.unusedSimpArgs false
set_option linter.unusedSectionVars false

namespace Theo
namespace Sim
open Sem WF

/-! ### how many instruction-free steps come next -/

mutual
/-- length of the chain of first arguments of `v` -/
def leadV : Value → Nat
  | .call _ args => leadVs args
  | .var _ => 0
  | .num _ => 0
  | .inc _ _ => 0
  | .dec _ _ => 0
def leadVs : Values → Nat
  | .nil => 0
  | .cons a _ => leadV a + 1
end

/-- marks at the head of `ss`, and if an assignment follows them: entering it and descending
    to its first leaf -/
def stutS : Stmts → Nat
  | .nil => 0
  | .cons (.mark _ _) ss => stutS ss + 1
  | .cons (.assign _ v _) _ => leadV v + 1
  | .cons (.loop _ _ _ _) _ => 0
  | .cons (.while_ _ _ _) _ => 0
  | .cons (.goto _ _) _ => 0
  | .cons (.ifGoto _ _ _ _) _ => 0
  | .cons (.stop _) _ => 0

def stutF (fr : Frame) : Nat :=
  match fr.ctrl with
  | .run => stutS fr.focus
  | .eval v _ _ => leadV v
  | .ret _ _ [] => stutS fr.focus + 1
  | .ret _ _ (c :: _) => leadVs c.todo
  | .wait _ _ => 0

/-- the number of consecutive instruction-free steps `cfg` is about to make -/
def stut (cfg : Config) : Nat :=
  match cfg.stack with
  | fr :: _ => stutF fr
  | [] => 0

/-- an instruction-free step that does not halt decreases `stut` -/
theorem stut_step (src : Source) {cfg : Config} (hrun : cfg.status = .running)
    (hne : cfg.stack ≠ []) (hc0 : cost cfg = 0) (hrun' : (Sem.step src cfg).status = .running) :
    stut (Sem.step src cfg) < stut cfg := by
  obtain ⟨stack, status⟩ := cfg
  simp only at hrun
  subst hrun
  cases stack with
  | nil => exact absurd rfl hne
  | cons fr rest =>
  obtain ⟨r, env, ctrs, focus, k, ctrl⟩ := fr
  cases ctrl with
  | run =>
    cases focus with
    | cons s ss =>
      cases s with
      | assign x v pos =>
        show stut ⟨⟨r, env, ctrs, ss, k, .eval v x []⟩ :: rest, .running⟩ < _
        simp only [stut, stutF, stutS]
        omega
      | mark m pos =>
        show stut ⟨⟨r, env, ctrs, ss, k, .run⟩ :: rest, .running⟩ < _
        simp only [stut, stutF, stutS]
        omega
      | loop id x body pos => cases hc0
      | while_ x body pos => cases hc0
      | goto m pos => cases hc0
      | ifGoto x cst m pos => cases hc0
      | stop pos => cases hrun'
    | nil =>
      cases k with
      | loop id body ss k' => cases hc0
      | while_ x body ss k' => cases hc0
      | done => cases hc0
  | eval v x cs =>
    cases v with
    | var y => cases hc0
    | num n => cases hc0
    | inc y c => cases hc0
    | dec y c => cases hc0
    | call f args =>
      cases args with
      | nil => cases hc0
      | cons a0 as0 =>
        show stut ⟨⟨r, env, ctrs, focus, k, .eval a0 x (⟨f, [], as0⟩ :: cs)⟩ :: rest, .running⟩ < _
        simp only [stut, stutF, leadV, leadVs]
        omega
  | ret n x cs =>
    cases cs with
    | nil =>
      show stut ⟨⟨r, env.set x n, ctrs, focus, k, .run⟩ :: rest, .running⟩ < _
      simp only [stut, stutF]
      omega
    | cons c1 cs' =>
      obtain ⟨f, done, todo⟩ := c1
      cases todo with
      | nil =>
        have : done.length + 3 = 0 := hc0
        omega
      | cons a0 as0 =>
        show stut ⟨⟨r, env, ctrs, focus, k, .eval a0 x (⟨f, done ++ [n], as0⟩ :: cs')⟩ :: rest,
          .running⟩ < _
        simp only [stut, stutF, leadVs]
        omega
  | wait x cs => cases hrun'

/-! ### sources whose stutter runs are at most `W` -/

mutual
/-- every sub-value of `v` in argument position has a chain of first arguments of length `≤ W`,
    every suffix of an argument list `leadVs ≤ W` -/
def okV (W : Nat) : Value → Prop
  | .call _ args => leadVs args ≤ W ∧ okVs W args
  | .var _ => True
  | .num _ => True
  | .inc _ _ => True
  | .dec _ _ => True
def okVs (W : Nat) : Values → Prop
  | .nil => True
  | .cons a as => leadV a + 1 ≤ W ∧ okV W a ∧ okVs W as
end

mutual
def okStmtT (W : Nat) : Stmt → Prop
  | .assign _ v _ => okV W v
  | .loop _ _ body _ => okStmtsT W body
  | .while_ _ body _ => okStmtsT W body
  | .mark _ _ => True
  | .goto _ _ => True
  | .ifGoto _ _ _ _ => True
  | .stop _ => True
/-- every suffix `ss'` of `ss` and of the statement lists nested in it has `stutS ss' + 1 ≤ W`,
    and the values assigned are `okV W` -/
def okStmtsT (W : Nat) : Stmts → Prop
  | .nil => True
  | .cons s ss => stutS (.cons s ss) + 1 ≤ W ∧ okStmtT W s ∧ okStmtsT W ss
end

def okKontT (W : Nat) : Kont → Prop
  | .done => True
  | .loop _ body rest k => okStmtsT W body ∧ okStmtsT W rest ∧ okKontT W k
  | .while_ _ body rest k => okStmtsT W body ∧ okStmtsT W rest ∧ okKontT W k

theorem okV_lead {W : Nat} {v : Value} (h : okV W v) : leadV v ≤ W := by
  cases v with
  | call f args => exact h.1
  | var _ => exact Nat.zero_le _
  | num _ => exact Nat.zero_le _
  | inc _ _ => exact Nat.zero_le _
  | dec _ _ => exact Nat.zero_le _

theorem okVs_lead {W : Nat} {vs : Values} (h : okVs W vs) : leadVs vs ≤ W := by
  cases vs with
  | nil => exact Nat.zero_le _
  | cons a as => exact h.1

theorem okStmtsT_stut {W : Nat} (hW : 1 ≤ W) {ss : Stmts} (h : okStmtsT W ss) : stutS ss + 1 ≤ W := by
  cases ss with
  | nil => exact hW
  | cons s ss => exact h.1

mutual
theorem okV_mono {W W' : Nat} (hw : W ≤ W') : ∀ v : Value, okV W v → okV W' v
  | .call _ args, h => ⟨Nat.le_trans h.1 hw, okVs_mono hw args h.2⟩
  | .var _, _ => trivial
  | .num _, _ => trivial
  | .inc _ _, _ => trivial
  | .dec _ _, _ => trivial
theorem okVs_mono {W W' : Nat} (hw : W ≤ W') : ∀ vs : Values, okVs W vs → okVs W' vs
  | .nil, _ => trivial
  | .cons a as, h => ⟨Nat.le_trans h.1 hw, okV_mono hw a h.2.1, okVs_mono hw as h.2.2⟩
end

mutual
theorem okStmtT_mono {W W' : Nat} (hw : W ≤ W') : ∀ s : Stmt, okStmtT W s → okStmtT W' s
  | .assign _ v _, h => okV_mono hw v h
  | .loop _ _ body _, h => okStmtsT_mono hw body h
  | .while_ _ body _, h => okStmtsT_mono hw body h
  | .mark _ _, _ => trivial
  | .goto _ _, _ => trivial
  | .ifGoto _ _ _ _, _ => trivial
  | .stop _, _ => trivial
theorem okStmtsT_mono {W W' : Nat} (hw : W ≤ W') : ∀ ss : Stmts, okStmtsT W ss → okStmtsT W' ss
  | .nil, _ => trivial
  | .cons s ss, h => ⟨Nat.le_trans h.1 hw, okStmtT_mono hw s h.2.1, okStmtsT_mono hw ss h.2.2⟩
end

/-! ### the stutter bound of a source -/

mutual
def valueStut : Value → Nat
  | .call _ args => max (leadVs args) (valuesStut args)
  | .var _ => 0
  | .num _ => 0
  | .inc _ _ => 0
  | .dec _ _ => 0
def valuesStut : Values → Nat
  | .nil => 0
  | .cons a as => max (leadV a + 1) (max (valueStut a) (valuesStut as))
end

mutual
def stmtStut : Stmt → Nat
  | .assign _ v _ => valueStut v
  | .loop _ _ body _ => stmtsStut body
  | .while_ _ body _ => stmtsStut body
  | .mark _ _ => 0
  | .goto _ _ => 0
  | .ifGoto _ _ _ _ => 0
  | .stop _ => 0
def stmtsStut : Stmts → Nat
  | .nil => 0
  | .cons s ss => max (stutS (.cons s ss) + 1) (max (stmtStut s) (stmtsStut ss))
end

def progsStut : List ProgDef → Nat
  | [] => 0
  | pd :: pds => max (stmtsStut pd.body) (progsStut pds)

/-- the stutter bound of a source: 1 + the largest number of consecutive instruction-free steps
    a statement list of the source can start with (marks, then possibly `x :=` and the descent
    along first arguments), or, inside a value, the descent from an argument position -/
def srcStutter (src : Source) : Nat := max 1 (max (stmtsStut src.main) (progsStut src.progs))

mutual
theorem okV_stut : ∀ v : Value, okV (valueStut v) v
  | .call _ args => ⟨Nat.le_max_left _ _, okVs_mono (Nat.le_max_right _ _) args (okVs_stut args)⟩
  | .var _ => trivial
  | .num _ => trivial
  | .inc _ _ => trivial
  | .dec _ _ => trivial
theorem okVs_stut : ∀ vs : Values, okVs (valuesStut vs) vs
  | .nil => trivial
  | .cons a as =>
    ⟨Nat.le_max_left _ _,
     okV_mono (Nat.le_trans (Nat.le_max_left _ _) (Nat.le_max_right _ _)) a (okV_stut a),
     okVs_mono (Nat.le_trans (Nat.le_max_right _ _) (Nat.le_max_right _ _)) as (okVs_stut as)⟩
end

mutual
theorem okStmtT_stut : ∀ s : Stmt, okStmtT (stmtStut s) s
  | .assign _ v _ => okV_stut v
  | .loop _ _ body _ => okStmtsT_stut' body
  | .while_ _ body _ => okStmtsT_stut' body
  | .mark _ _ => trivial
  | .goto _ _ => trivial
  | .ifGoto _ _ _ _ => trivial
  | .stop _ => trivial
theorem okStmtsT_stut' : ∀ ss : Stmts, okStmtsT (stmtsStut ss) ss
  | .nil => trivial
  | .cons s ss =>
    ⟨Nat.le_max_left _ _,
     okStmtT_mono (Nat.le_trans (Nat.le_max_left _ _) (Nat.le_max_right _ _)) s (okStmtT_stut s),
     okStmtsT_mono (Nat.le_trans (Nat.le_max_right _ _) (Nat.le_max_right _ _)) ss
       (okStmtsT_stut' ss)⟩
end

structure OkSrcT (W : Nat) (src : Source) : Prop where
  pos : 1 ≤ W
  main : okStmtsT W src.main
  progs : ∀ pd ∈ src.progs, okStmtsT W pd.body

theorem progsStut_ok : ∀ (pds : List ProgDef) (pd : ProgDef), pd ∈ pds →
    okStmtsT (progsStut pds) pd.body
  | [], _, h => nomatch h
  | pd0 :: pds, pd, h => by
    rcases List.mem_cons.1 h with rfl | h
    · exact okStmtsT_mono (Nat.le_max_left _ _) _ (okStmtsT_stut' _)
    · exact okStmtsT_mono (Nat.le_max_right _ _) _ (progsStut_ok pds pd h)

theorem okSrcT_stutter (src : Source) : OkSrcT (srcStutter src) src :=
  ⟨Nat.le_max_left _ _,
   okStmtsT_mono (Nat.le_trans (Nat.le_max_left _ _) (Nat.le_max_right _ _)) _ (okStmtsT_stut' _),
   fun pd h => okStmtsT_mono (Nat.le_trans (Nat.le_max_right _ _) (Nat.le_max_right _ _)) _
     (progsStut_ok _ pd h)⟩

theorem OkSrcT.body {W : Nat} {src : Source} (h : OkSrcT W src) (r : Nat) :
    okStmtsT W (bodyOf src r) := by
  unfold bodyOf
  split
  · rename_i pd hpd
    exact h.progs pd (List.mem_of_getElem? hpd)
  · exact h.main

/-! ### jump targets -/

mutual
theorem findLabelStmt_okT {W : Nat} (m : Name) : ∀ (s : Stmt) (rest : Stmts) (K : Kont),
    okStmtsT W (.cons s rest) → okKontT W K → ∀ f k, findLabelStmt m s rest K = some (f, k) →
    okStmtsT W f ∧ okKontT W k
  | .mark m' pos, rest, K, h, hk, f, k, he => by
    simp only [findLabelStmt] at he
    split at he
    · cases he; exact ⟨h, hk⟩
    · cases he
  | .loop id x body pos, rest, K, h, hk, f, k, he => by
    simp only [findLabelStmt] at he
    exact findLabel_okT m body (.loop id body rest K) h.2.1 ⟨h.2.1, h.2.2, hk⟩ f k he
  | .while_ x body pos, rest, K, h, hk, f, k, he => by
    simp only [findLabelStmt] at he
    exact findLabel_okT m body (.while_ x body rest K) h.2.1 ⟨h.2.1, h.2.2, hk⟩ f k he
  | .assign _ _ _, _, _, _, _, _, _, he => by simp only [findLabelStmt] at he; cases he
  | .goto _ _, _, _, _, _, _, _, he => by simp only [findLabelStmt] at he; cases he
  | .ifGoto _ _ _ _, _, _, _, _, _, _, he => by simp only [findLabelStmt] at he; cases he
  | .stop _, _, _, _, _, _, _, he => by simp only [findLabelStmt] at he; cases he
theorem findLabel_okT {W : Nat} (m : Name) : ∀ (ss : Stmts) (K : Kont),
    okStmtsT W ss → okKontT W K → ∀ f k, findLabel m ss K = some (f, k) →
    okStmtsT W f ∧ okKontT W k
  | .nil, _, _, _, _, _, he => by simp only [findLabel] at he; cases he
  | .cons s rest, K, h, hk, f, k, he => by
    simp only [findLabel] at he
    split at he
    · rename_i r hr
      cases he
      exact findLabelStmt_okT m s rest K h hk f k hr
    · exact findLabel_okT m rest K h.2.2 hk f k he
end

/-! ### the invariant -/

def okCtxs (W : Nat) : List ECtx → Prop
  | [] => True
  | c :: cs => okVs W c.todo ∧ okCtxs W cs

def okCtrl (W : Nat) : Ctrl → Prop
  | .run => True
  | .eval v _ cs => okV W v ∧ okCtxs W cs
  | .ret _ _ cs => okCtxs W cs
  | .wait _ cs => okCtxs W cs

structure OkFrameT (W : Nat) (fr : Frame) : Prop where
  focus : okStmtsT W fr.focus
  kont : okKontT W fr.k
  ctrl : okCtrl W fr.ctrl

def OkStackT (W : Nat) : List Frame → Prop
  | [] => True
  | fr :: rest => OkFrameT W fr ∧ OkStackT W rest

theorem OkFrameT.stut {W : Nat} (hW : 1 ≤ W) {fr : Frame} (h : OkFrameT W fr) : stutF fr ≤ W := by
  obtain ⟨r, env, ctrs, focus, k, ctrl⟩ := fr
  obtain ⟨hf, _, hc⟩ := h
  simp only at hf hc
  have hs := okStmtsT_stut hW hf
  cases ctrl with
  | run => simp only [stutF]; omega
  | eval v x cs => simp only [stutF]; exact okV_lead hc.1
  | ret n x cs =>
    cases cs with
    | nil => simp only [stutF]; omega
    | cons c1 cs' => simp only [stutF]; exact okVs_lead hc.1
  | wait x cs => simp only [stutF]; omega

theorem OkStackT.stut {W : Nat} (hW : 1 ≤ W) {cfg : Config} (h : OkStackT W cfg.stack) :
    stut cfg ≤ W := by
  unfold Sim.stut
  split
  · rename_i fr rest he
    rw [he] at h
    exact h.1.stut hW
  · exact Nat.zero_le _

section
variable {W : Nat} {src : Source} (hsrc : OkSrcT W src)
include hsrc

theorem okT_doCall {fr : Frame} {rest : List Frame} (f : Name) (args : List Nat)
    (hfr : OkFrameT W fr) (hrest : OkStackT W rest) : OkStackT W (doCall src fr rest f args).stack := by
  unfold doCall
  split
  · rename_i i pd hl
    split
    · obtain ⟨_, hpd⟩ := lookupProg_spec hl
      have hb := hsrc.progs pd (List.mem_of_getElem? hpd)
      exact ⟨⟨hb, trivial, trivial⟩, hfr, hrest⟩
    · exact ⟨hfr, hrest⟩
  · exact ⟨hfr, hrest⟩

theorem okT_goto {r : Nat} {env : Env} {ctrs : Ctrs} {focus : Stmts} {k : Kont} {rest : List Frame}
    (m : Name) (hfr : OkFrameT W ⟨r, env, ctrs, focus, k, .run⟩) (hrest : OkStackT W rest) :
    OkStackT W (match findLabel m (bodyOf src r) .done with
      | some (f, k2) => (⟨⟨r, env, ctrs, f, k2, .run⟩ :: rest, .running⟩ : Config)
      | none => ⟨⟨r, env, ctrs, focus, k, .run⟩ :: rest, .stuck⟩).stack := by
  split
  · rename_i f k2 he
    obtain ⟨h1, h2⟩ := findLabel_okT m _ .done (hsrc.body r) trivial f k2 he
    exact ⟨⟨h1, h2, trivial⟩, hrest⟩
  · exact ⟨hfr, hrest⟩

/-- the invariant is preserved by every step of the reference machine -/
theorem okT_step {cfg : Config} (h : OkStackT W cfg.stack) : OkStackT W (Sem.step src cfg).stack := by
  obtain ⟨stack, status⟩ := cfg
  cases status with
  | halted => exact h
  | stuck => exact h
  | running =>
  cases stack with
  | nil => exact h
  | cons fr rest =>
  obtain ⟨hfr, hrest⟩ := h
  obtain ⟨r, env, ctrs, focus, k, ctrl⟩ := fr
  obtain ⟨hf, hk, hc⟩ := hfr
  simp only at hf hk hc
  cases ctrl with
  | run =>
    cases focus with
    | cons s ss =>
      obtain ⟨hf1, hf2, hf3⟩ := hf
      cases s with
      | assign x v pos =>
        show OkStackT W (⟨r, env, ctrs, ss, k, .eval v x []⟩ :: rest)
        exact ⟨⟨hf3, hk, hf2, trivial⟩, hrest⟩
      | mark m pos =>
        show OkStackT W (⟨r, env, ctrs, ss, k, .run⟩ :: rest)
        exact ⟨⟨hf3, hk, trivial⟩, hrest⟩
      | loop id x body pos =>
        show OkStackT W (if env.get x ≠ 0 then
            (⟨⟨r, env, ctrs.set id (env.get x), body, .loop id body ss k, .run⟩ :: rest, .running⟩ : Config)
          else ⟨⟨r, env, ctrs.set id (env.get x), ss, k, .run⟩ :: rest, .running⟩).stack
        have hbody : okStmtsT W body := hf2
        split
        · exact ⟨⟨hbody, ⟨hbody, hf3, hk⟩, trivial⟩, hrest⟩
        · exact ⟨⟨hf3, hk, trivial⟩, hrest⟩
      | while_ x body pos =>
        show OkStackT W (if env.get x ≠ 0 then
            (⟨⟨r, env, ctrs, body, .while_ x body ss k, .run⟩ :: rest, .running⟩ : Config)
          else ⟨⟨r, env, ctrs, ss, k, .run⟩ :: rest, .running⟩).stack
        have hbody : okStmtsT W body := hf2
        split
        · exact ⟨⟨hbody, ⟨hbody, hf3, hk⟩, trivial⟩, hrest⟩
        · exact ⟨⟨hf3, hk, trivial⟩, hrest⟩
      | goto m pos =>
        exact okT_goto hsrc m ⟨⟨hf1, hf2, hf3⟩, hk, trivial⟩ hrest
      | ifGoto x cst m pos =>
        show OkStackT W (if env.get x = cst then
            (match findLabel m (bodyOf src r) .done with
             | some (f, k2) => (⟨⟨r, env, ctrs, f, k2, .run⟩ :: rest, .running⟩ : Config)
             | none => ⟨⟨r, env, ctrs, .cons (.ifGoto x cst m pos) ss, k, .run⟩ :: rest, .stuck⟩)
          else ⟨⟨r, env, ctrs, ss, k, .run⟩ :: rest, .running⟩).stack
        split
        · exact okT_goto hsrc m ⟨⟨hf1, hf2, hf3⟩, hk, trivial⟩ hrest
        · exact ⟨⟨hf3, hk, trivial⟩, hrest⟩
      | stop pos => exact ⟨⟨⟨hf1, hf2, hf3⟩, hk, trivial⟩, hrest⟩
    | nil =>
      cases k with
      | loop id body ss k' =>
        show OkStackT W (if ctrs.get id - 1 ≠ 0 then
            (⟨⟨r, env, ctrs.set id (ctrs.get id - 1), body, .loop id body ss k', .run⟩ :: rest,
              .running⟩ : Config)
          else ⟨⟨r, env, ctrs.set id (ctrs.get id - 1), ss, k', .run⟩ :: rest, .running⟩).stack
        obtain ⟨k1, k2, k3⟩ := hk
        split
        · exact ⟨⟨k1, ⟨k1, k2, k3⟩, trivial⟩, hrest⟩
        · exact ⟨⟨k2, k3, trivial⟩, hrest⟩
      | while_ x body ss k' =>
        show OkStackT W (if env.get x ≠ 0 then
            (⟨⟨r, env, ctrs, body, .while_ x body ss k', .run⟩ :: rest, .running⟩ : Config)
          else ⟨⟨r, env, ctrs, ss, k', .run⟩ :: rest, .running⟩).stack
        obtain ⟨k1, k2, k3⟩ := hk
        split
        · exact ⟨⟨k1, ⟨k1, k2, k3⟩, trivial⟩, hrest⟩
        · exact ⟨⟨k2, k3, trivial⟩, hrest⟩
      | done =>
        cases rest with
        | nil => exact ⟨⟨hf, hk, trivial⟩, trivial⟩
        | cons caller rest' =>
          obtain ⟨hcaller, hrest'⟩ := hrest
          obtain ⟨r2, env2, ctrs2, focus2, k2, ctrl2⟩ := caller
          cases ctrl2 with
          | wait x cs =>
            show OkStackT W (⟨r2, env2, ctrs2, focus2, k2,
              .ret (env.get (match src.progs[r]? with | some pd => pd.out | none => [])) x cs⟩ :: rest')
            exact ⟨⟨hcaller.focus, hcaller.kont, hcaller.ctrl⟩, hrest'⟩
          | run => exact ⟨⟨hf, hk, trivial⟩, hcaller, hrest'⟩
          | eval _ _ _ => exact ⟨⟨hf, hk, trivial⟩, hcaller, hrest'⟩
          | ret _ _ _ => exact ⟨⟨hf, hk, trivial⟩, hcaller, hrest'⟩
  | eval v x cs =>
    obtain ⟨hv, hcs⟩ := hc
    cases v with
    | var y =>
      show OkStackT W (⟨r, env, ctrs, focus, k, .ret (env.get y) x cs⟩ :: rest)
      exact ⟨⟨hf, hk, hcs⟩, hrest⟩
    | num n =>
      show OkStackT W (⟨r, env, ctrs, focus, k, .ret n x cs⟩ :: rest)
      exact ⟨⟨hf, hk, hcs⟩, hrest⟩
    | inc y c =>
      show OkStackT W (⟨r, env, ctrs, focus, k, .ret (addSat (env.get y) c) x cs⟩ :: rest)
      exact ⟨⟨hf, hk, hcs⟩, hrest⟩
    | dec y c =>
      show OkStackT W (⟨r, env, ctrs, focus, k, .ret (env.get y - c) x cs⟩ :: rest)
      exact ⟨⟨hf, hk, hcs⟩, hrest⟩
    | call f args =>
      cases args with
      | nil =>
        show OkStackT W (doCall src ⟨r, env, ctrs, focus, k, .wait x cs⟩ rest f []).stack
        exact okT_doCall hsrc f [] ⟨hf, hk, hcs⟩ hrest
      | cons a0 as0 =>
        show OkStackT W (⟨r, env, ctrs, focus, k, .eval a0 x (⟨f, [], as0⟩ :: cs)⟩ :: rest)
        obtain ⟨_, _, ha0, has0⟩ := hv
        exact ⟨⟨hf, hk, ha0, has0, hcs⟩, hrest⟩
  | ret n x cs =>
    cases cs with
    | nil =>
      show OkStackT W (⟨r, env.set x n, ctrs, focus, k, .run⟩ :: rest)
      exact ⟨⟨hf, hk, trivial⟩, hrest⟩
    | cons c1 cs' =>
      obtain ⟨f, done, todo⟩ := c1
      obtain ⟨hc1, hcs'⟩ := hc
      cases todo with
      | nil =>
        show OkStackT W (doCall src ⟨r, env, ctrs, focus, k, .wait x cs'⟩ rest f (done ++ [n])).stack
        exact okT_doCall hsrc f _ ⟨hf, hk, hcs'⟩ hrest
      | cons a0 as0 =>
        show OkStackT W (⟨r, env, ctrs, focus, k, .eval a0 x (⟨f, done ++ [n], as0⟩ :: cs')⟩ :: rest)
        obtain ⟨_, ha0, has0⟩ := hc1
        exact ⟨⟨hf, hk, ha0, has0, hcs'⟩, hrest⟩
  | wait x cs => exact ⟨⟨hf, hk, hc⟩, hrest⟩

theorem okT_iter (n : Nat) : OkStackT W (iter src n (initial src)).stack := by
  induction n with
  | zero => exact ⟨⟨hsrc.main, trivial, trivial⟩, trivial⟩
  | succ n ih => exact okT_step hsrc ih

end

/-- no reachable configuration is about to make more than `srcStutter src` instruction-free steps -/
theorem stut_le_bound (src : Source) (n : Nat) : stut (iter src n (initial src)) ≤ srcStutter src :=
  (okT_iter (okSrcT_stutter src) n).stut (okSrcT_stutter src).pos

/-! ### the VM cannot finish early, sharp version -/

section
variable {src : Source} {p : Program} {V : Valid src p} {c : Cert} {R : PcInfo} {S : Nat}
  (hS : SiteBound p.code S) (hc : CertOK p c R) (hV : V.OK)
include hS hc hV

/-- `sim_iter_count` with `stut` in the place of `cmeasure` -/
theorem sim_iter_stut {B : Nat} (hB : ∀ n, stut (iter src n (initial src)) ≤ B) : ∀ n,
    ((iter src n (initial src)).status = .running →
      ∃ m vm, Steps (VM.mk' p) m vm ∧ Match V c R (iter src n (initial src)) vm ∧
        n + stut (iter src n (initial src)) ≤ (B + 1) * m + B) ∧
    ((iter src n (initial src)).status = .halted →
      ∃ n0 m vm, (iter src n0 (initial src)).status = .halted ∧ n0 ≤ (B + 1) * (m + 1) ∧
        Steps (VM.mk' p) m vm ∧ Final (p := p) (iter src n0 (initial src)) vm) := by
  intro n
  induction n with
  | zero =>
    refine ⟨fun _ => ?_, fun h => ?_⟩
    · obtain ⟨vm, ⟨m, hs⟩, hm⟩ := init_match hc hV
      have := hB 0
      exact ⟨m, vm, hs, hm, by omega⟩
    · cases h
  | succ n ih =>
    have e : iter src (n + 1) (initial src) = Sem.step src (iter src n (initial src)) := rfl
    by_cases hr : (iter src n (initial src)).status = .running
    · obtain ⟨m, vm, hs, hm, hle⟩ := ih.1 hr
      have hres := sim_step_c hS hc hV hm
      rw [← e] at hres
      have hB1 := hB (n + 1)
      refine ⟨fun h => ?_, fun h => ?_⟩
      · cases hres with
        | run vm' _ hs' hm' =>
          obtain ⟨j, hj1, _, hsj⟩ := hs'
          refine ⟨m + j, vm', hs.trans hsj, hm', ?_⟩
          have e1 : (B + 1) * (m + j) = (B + 1) * m + (B + 1) * j := Nat.mul_add _ _ _
          by_cases hc0 : cost (iter src n (initial src)) = 0
          · have hne : (iter src n (initial src)).stack ≠ [] := by
              obtain ⟨fr, rest, _, _, _, hcfg, _⟩ := hm.inv
              rw [hcfg]
              exact fun hh => nomatch hh
            have hlt := stut_step src hr hne hc0 (by rw [← e]; exact h)
            rw [← e] at hlt
            omega
          · have hj : 1 ≤ j := by omega
            have := Nat.mul_le_mul_left (B + 1) hj
            omega
        | halt vm' hh _ _ => rw [hh] at h; cases h
      · cases hres with
        | run vm' hh _ _ => rw [hh] at h; cases h
        | halt vm' hh hs' hf =>
          obtain ⟨j, _, hj⟩ := hs'
          refine ⟨n + 1, m + j, vm', hh, ?_, hs.trans hj, hf⟩
          have e1 : (B + 1) * (m + j + 1) = (B + 1) * m + (B + 1) * j + (B + 1) := by
            rw [Nat.mul_succ, Nat.mul_add]
          omega
    · rw [e, step_fixed src _ hr]
      exact ⟨fun h => absurd h hr, ih.2⟩

/-- the VM cannot finish early: if it is done after `mm` instructions, the reference execution
    halts within `(B + 1) * (mm + 1)` steps, `B` a bound of `stut` -/
theorem budget_sim_stut {B : Nat} (hB : ∀ n, stut (iter src n (initial src)) ≤ B) {mm : Nat}
    {vmf : VM} (hrun : runFrom (VM.mk' p) mm = .ok vmf) (hd : vmf.isDone = .ok true) :
    ∃ n, n ≤ (B + 1) * (mm + 1) ∧ (iter src n (initial src)).status = .halted := by
  by_cases hex : ∃ n, (iter src n (initial src)).status = .halted
  · obtain ⟨n, hn⟩ := hex
    obtain ⟨n0, m, vm, h0, hle, hs, _⟩ := (sim_iter_stut hS hc hV hB n).2 hn
    have hm : m ≤ mm := by
      apply Nat.le_of_not_lt
      intro hlt
      obtain ⟨vt, h1, h2⟩ := hs.run.2 mm hlt
      rw [hrun] at h1
      cases h1
      rw [hd] at h2
      cases h2
    exact ⟨n0, Nat.le_trans hle (Nat.mul_le_mul_left _ (by omega)), h0⟩
  · exfalso
    have hdiv : ∀ n, (iter src n (initial src)).status = .running := by
      intro n
      have h1 := (pinv_iter hV n).1
      have h2 : (iter src n (initial src)).status ≠ .halted := fun h => hex ⟨n, h⟩
      cases hst : (iter src n (initial src)).status with
      | running => rfl
      | halted => exact absurd hst h2
      | stuck => exact absurd hst h1
    obtain ⟨vt, h1, h2⟩ := diverges_sim hc hV hdiv mm
    rw [hrun] at h1
    cases h1
    rw [hd] at h2
    cases h2

end

end Sim
end Theo
