/-
  C04 (sugar) — desugaring keeps the end marker last and unique (`EndMarked`), so the grammar and
  static halves of C04 apply to the desugared stream.
-/
import Theo.Proofs.SugarList
import Theo.Spec.Language

namespace Theo.Sugar

theorem endMarked_cons {t : Token} {tl : List Token} (h : EndMarked (t :: tl)) (hne : tl ≠ []) :
    t.kind ≠ Tok.T_EOF ∧ EndMarked tl := by
  obtain ⟨body, eof, heq, he, hb⟩ := h
  cases body with
  | nil =>
    simp only [List.nil_append, List.cons.injEq] at heq
    exact absurd heq.2 hne
  | cons b body =>
    simp only [List.cons_append, List.cons.injEq] at heq
    obtain ⟨rfl, rfl⟩ := heq
    exact ⟨hb _ (by simp), body, eof, rfl, he, fun x hx => hb x (by simp [hx])⟩

theorem endMarked_cons_intro {t : Token} {tl : List Token} (ht : t.kind ≠ Tok.T_EOF) (h : EndMarked tl) :
    EndMarked (t :: tl) := by
  obtain ⟨body, eof, rfl, he, hb⟩ := h
  refine ⟨t :: body, eof, rfl, he, fun x hx => ?_⟩
  rcases List.mem_cons.1 hx with rfl | hx
  · exact ht
  · exact hb x hx

/-- a rewriting step keeps the end marker last and unique -/
theorem sugarStep_endMarked : ∀ (ts ts' : List Token), sugarStep ts = some ts' → EndMarked ts → EndMarked ts' := by
  intro ts
  induction ts with
  | nil => intro ts' h; simp [sugarStep] at h
  | cons t0 tl0 ih =>
    intro ts' h hem
    rcases sugarStep_cases h with ⟨name, line, a, b, c, e, rest, heq, rfl, ha, _, _, _⟩ |
      ⟨t, tl, tl', heq, rfl, hs, _, _⟩
    · rw [heq] at hem
      obtain ⟨_, hem1⟩ := endMarked_cons hem (by simp)
      obtain ⟨_, hem2⟩ := endMarked_cons hem1 (by simp)
      obtain ⟨hc, hem3⟩ := endMarked_cons hem2 (by simp)
      simp only [call, List.cons_append, List.nil_append]
      have k : ∀ (k : Nat) (tx : Bytes), k ≠ Tok.T_EOF → (stdTok k tx line).kind ≠ Tok.T_EOF := fun _ _ h => h
      refine endMarked_cons_intro (k _ _ (by decide)) (endMarked_cons_intro (k _ _ (by decide))
        (endMarked_cons_intro (k _ _ (by decide))
        (endMarked_cons_intro (by rw [ha]; decide) (endMarked_cons_intro (k _ _ (by decide))
          (endMarked_cons_intro hc (endMarked_cons_intro (k _ _ (by decide)) hem3))))))
    · injection heq with e1 e2
      subst e1 e2
      have hne : tl0 ≠ [] := by intro h0; rw [h0] at hs; simp [sugarStep] at hs
      obtain ⟨ht, hem'⟩ := endMarked_cons hem hne
      exact endMarked_cons_intro ht (ih tl' hs hem')

theorem sugarIter_endMarked : ∀ (k : Nat) (ts : List Token), EndMarked ts → EndMarked (sugarIter k ts) := by
  intro k
  induction k with
  | zero => intro ts h; exact h
  | succ k ih =>
    intro ts h
    rw [sugarIter]
    cases hs : sugarStep ts with
    | none => exact h
    | some ts' => exact ih ts' (sugarStep_endMarked ts ts' hs h)

theorem desugarLA_endMarked (ts : List Token) (h : EndMarked ts) : EndMarked (desugarLA ts) := by
  rw [← sugarIter_eq (sugarCountLA ts) ts (Nat.le_refl _)]
  exact sugarIter_endMarked _ _ h

end Theo.Sugar
