/-
  C07, part 5: consuming the expected-site list along the site walk — the exact site-aware
  position relations of a routine body.
-/
import Theo.Proofs.SimEv4

set_option linter.unusedSimpArgs false
set_option linter.unusedSectionVars false

namespace Theo
namespace Sim
open Sem

/-- the `k` positions at the walker pc hold sites -/
def INV (code : List Instr) (w : Walk) (k : Nat) : Prop :=
  ∀ i, i < k → code[w.pc + i]? = some Instr.potBreak

/-- after a mark, the last site attributed at the walker pc names the mark's line -/
def PrevInv (p : Program) (w : Walk) (k : Nat) (prev : Prev) : Prop :=
  ∀ q, prev = some (q, true) → 1 ≤ k ∧ (p.lineAt ((w.pc + k - 1 : Nat) : Int)).map posOfBp = some q

/-- the site through which statement `s` is visited -/
def σOf (w : Walk) (k : Nat) (prev : Prev) (s : Stmt) : Nat :=
  if sameLine prev s then w.pc + k - 1 else w.pc + k

/-- where the VM stands when the focus is `ss` -/
def cursor (w : Walk) (k : Nat) (prev : Prev) : Stmts → Nat
  | .nil => w.pc + k
  | .cons s _ => σOf w k prev s

structure WalkIn (p : Program) (G : Walk) (hi : Nat) (w : Walk) (k : Nat) (prev : Prev)
    (l : List ESite) (w' : Walk) (post : List Nat) : Prop where
  sub : Sub w' G
  inv : INV p.code w k
  pinv : PrevInv p w k prev
  sp : sitePositions p.code (w.pc + k) hi = l.map (·.1) ++ post
  lb : ∀ y ∈ post, w'.pc ≤ y
  hi : w'.pc < hi
  line : ∀ x ∈ l, (p.lineAt (x.1 : Int)).map posOfBp = some x.2.1

theorem sitePositions_head' {code : List Instr} {lo hi : Nat} {t : List Nat}
    (h : sitePositions code lo hi = lo :: t) :
    code[lo]? = some Instr.potBreak ∧ lo < hi ∧ sitePositions code (lo + 1) hi = t := by
  have hmem : lo ∈ sitePositions code lo hi := by rw [h]; exact List.mem_cons_self
  obtain ⟨_, h2, h3⟩ := mem_sitePositions.1 hmem
  obtain ⟨_, _, h4⟩ := sitePositions_head h h3
  exact ⟨h3, h2, h4⟩

theorem sameLine_eq {prev : Prev} {s : Stmt} (h : sameLine prev s = true)
    (h2 : (sameLine prev s && !afterMk prev) = false) : prev = some (s.pos, true) := by
  cases prev with
  | none => simp [sameLine] at h
  | some qm =>
    obtain ⟨q, m⟩ := qm
    simp only [sameLine, beq_iff_eq] at h
    rw [show sameLine (some (q, m)) s = true from by simp [sameLine, h]] at h2
    simp only [afterMk, Bool.true_and, Bool.not_eq_false'] at h2
    rw [h, h2]

/-- the site of a statement: its own, or the one of the mark on its line -/
theorem own_site {p : Program} {G : Walk} {hi : Nat} {w : Walk} {k : Nat} {prev : Prev} {s : Stmt}
    {l' : List ESite} {w' : Walk} {post : List Nat}
    (hok : (sameLine prev s && !afterMk prev) = false)
    (hin : WalkIn p G hi w k prev (hereOf w k prev s ++ l') w' post) :
    SiteAt p (σOf w k prev s) s.pos ∧ σOf w k prev s + 1 = w.pc + kOf k prev s ∧
      INV p.code w (kOf k prev s) ∧
      sitePositions p.code (w.pc + kOf k prev s) hi = l'.map (·.1) ++ post := by
  by_cases hs : sameLine prev s = true
  · have hp := sameLine_eq hs hok
    obtain ⟨hk, hl⟩ := hin.pinv _ hp
    have hsp := hin.sp
    unfold hereOf at hsp
    unfold σOf kOf
    rw [if_pos hs] at hsp ⊢
    rw [if_pos hs]
    refine ⟨⟨?_, hl⟩, by omega, hin.inv, by simpa using hsp⟩
    have := hin.inv (k - 1) (by omega)
    rwa [show w.pc + (k - 1) = w.pc + k - 1 by omega] at this
  · have hsp := hin.sp
    have hline := hin.line (w.pc + k, s.pos, markName s) (by
      unfold hereOf; rw [if_neg hs]; exact List.mem_append_left _ (List.mem_singleton.2 rfl))
    unfold hereOf at hsp
    unfold σOf kOf
    rw [if_neg hs] at hsp ⊢
    rw [if_neg hs]
    simp only [List.cons_append, List.nil_append, List.map_cons] at hsp
    obtain ⟨h1, _, h3⟩ := sitePositions_head' hsp
    refine ⟨⟨h1, hline⟩, rfl, ?_, h3⟩
    intro i hi'
    rcases Nat.lt_or_ge i k with h | h
    · exact hin.inv i h
    · have : i = k := by omega
      subst this
      exact h1

/-- behind the sites of a statement start comes its first instruction, and no site up to the
    smallest remaining expected position -/
theorem stmt_range {code : List Instr} {hi : Nat} {w : Walk} {k' : Nat} {Rl : List Nat} {mid : Nat}
    (hinv : INV code w k') (hsp : sitePositions code (w.pc + k') hi = Rl)
    (hb : ∀ y ∈ Rl, mid ≤ y) (hmid : mid ≤ hi) (hlt : skipc code w.pc < mid) :
    skipc code w.pc = w.pc + k' ∧ Clean code (w.pc + k') mid ∧
      sitePositions code mid hi = Rl := by
  have hcl := clean_of_sites hsp hb hmid
  have hge := skipc_ge_of_run hinv
  refine ⟨skipc_eq_of_run hinv (hcl _ (Nat.le_refl _) (by omega)), hcl, ?_⟩
  exact sites_after hsp hb (by omega) hmid

section
variable {p : Program} {e : VEnv} (he : e.code = p.code) {G : Walk} {hi : Nat}
include he

theorem t1_assign {x : Name} {v : Value} {pos : Pos} {w w1 : Walk} {k' σ : Nat} {post : List Nat}
    (hchk : checkStmt e (.assign x v pos) w = some w1) (hσ : σ + 1 = w.pc + k')
    (hinv : INV p.code w k') (hsp : sitePositions p.code (w.pc + k') hi = post)
    (hb : ∀ y ∈ post, w1.pc ≤ y) (hhi : w1.pc < hi) (nxt : Option Pos) :
    TAt1 p e G (.assign x v pos) nxt σ w1.pc ∧ sitePositions p.code w1.pc hi = post := by
  obtain ⟨rx, pc1, hcv, hrx, rfl⟩ := checkStmt_assign_inv hchk
  rw [← checkValue_skipc, he] at hcv
  have hlt := checkValue_lt hcv
  obtain ⟨hsk, hcl, hsp'⟩ := stmt_range hinv hsp hb (Nat.le_of_lt hhi) hlt
  rw [hsk, ← hσ] at hcv
  simp only [TAt1]
  exact ⟨⟨rx, hrx, hcv, by rw [hσ]; exact hcl⟩, hsp'⟩

theorem t1_goto {m : Name} {pos : Pos} {w w1 : Walk} {k' σ : Nat} {post : List Nat}
    (hchk : checkStmt e (.goto m pos) w = some w1) (hsub : Sub w1 G) (hσ : σ + 1 = w.pc + k')
    (hinv : INV p.code w k') (hsp : sitePositions p.code (w.pc + k') hi = post)
    (hb : ∀ y ∈ post, w1.pc ≤ y) (hhi : w1.pc < hi) (nxt : Option Pos) :
    TAt1 p e G (.goto m pos) nxt σ w1.pc ∧ sitePositions p.code w1.pc hi = post := by
  obtain ⟨off, h1, rfl⟩ := checkStmt_goto_inv hchk
  have hn : e.next w.pc = skipc p.code w.pc + 1 := next_code he _
  obtain ⟨hsk, hcl, hsp'⟩ := stmt_range (mid := e.next w.pc) hinv hsp hb (Nat.le_of_lt hhi)
    (by rw [hn]; omega)
  have h1' := at_code he h1
  rw [hsk, ← hσ] at h1'
  have hg : (skipc e.code w.pc, off, m) ∈ G.gotos :=
    hsub.gotos _ (List.mem_append_right _ (List.mem_singleton.2 rfl))
  rw [he, hsk, ← hσ] at hg
  simp only [TAt1]
  refine ⟨⟨off, h1', hg, ?_⟩, hsp'⟩
  show e.next w.pc = σ + 2
  rw [hn, hsk]; omega

theorem t1_stop {pos : Pos} {w w1 : Walk} {k' σ : Nat} {post : List Nat}
    (hchk : checkStmt e (.stop pos) w = some w1) (hσ : σ + 1 = w.pc + k')
    (hinv : INV p.code w k') (hsp : sitePositions p.code (w.pc + k') hi = post)
    (hb : ∀ y ∈ post, w1.pc ≤ y) (hhi : w1.pc < hi) (nxt : Option Pos) :
    TAt1 p e G (.stop pos) nxt σ w1.pc ∧ sitePositions p.code w1.pc hi = post := by
  obtain ⟨h1, rfl⟩ := checkStmt_stop_inv hchk
  have hn : e.next w.pc = skipc p.code w.pc + 1 := next_code he _
  obtain ⟨hsk, hcl, hsp'⟩ := stmt_range (mid := e.next w.pc) hinv hsp hb (Nat.le_of_lt hhi)
    (by rw [hn]; omega)
  have h1' := at_code he h1
  rw [hsk, ← hσ] at h1'
  simp only [TAt1]
  refine ⟨⟨h1', ?_⟩, hsp'⟩
  show e.next w.pc = σ + 2
  rw [hn, hsk]; omega

theorem t1_ifGoto {x : Name} {cst : Nat} {m : Name} {pos : Pos} {w w1 : Walk} {k' σ : Nat}
    {post : List Nat}
    (hchk : checkStmt e (.ifGoto x cst m pos) w = some w1) (hsub : Sub w1 G)
    (hσ : σ + 1 = w.pc + k')
    (hinv : INV p.code w k') (hsp : sitePositions p.code (w.pc + k') hi = post)
    (hb : ∀ y ∈ post, w1.pc ≤ y) (hhi : w1.pc < hi) (nxt : Option Pos) :
    TAt1 p e G (.ifGoto x cst m pos) nxt σ w1.pc ∧ sitePositions p.code w1.pc hi = post := by
  obtain ⟨rx, t1, t2, t0, off, g1, g2, g3, g4, g5, g6, g7, g8, g9, g10, rfl⟩ :=
    checkStmt_ifGoto_inv hchk
  have l1 := lt_next e w.pc
  have l2 := lt_next e (e.next w.pc)
  have l3 := lt_next e (e.next (e.next w.pc))
  have l4 := lt_next e (e.next (e.next (e.next w.pc)))
  have hn : e.next w.pc = skipc p.code w.pc + 1 := next_code he _
  obtain ⟨hsk, hcl, hsp'⟩ :=
    stmt_range (mid := e.next (e.next (e.next (e.next w.pc)))) hinv hsp hb (Nat.le_of_lt hhi)
      (by omega)
  have n1 : e.next w.pc = σ + 2 := by rw [hn, hsk]; omega
  have n2 : e.next (e.next w.pc) = σ + 3 := by
    have := next_exact he hcl (x := e.next w.pc) (by omega) (by omega); omega
  have n3 : e.next (e.next (e.next w.pc)) = σ + 4 := by
    have := next_exact he hcl (x := e.next (e.next w.pc)) (by omega) (by omega); omega
  have n4 : e.next (e.next (e.next (e.next w.pc))) = σ + 5 := by
    have := next_exact he hcl (x := e.next (e.next (e.next w.pc))) (by omega) (by omega); omega
  rw [n4] at hcl
  have c1 := at_code he g2
  rw [hsk, ← hσ] at c1
  rw [n1] at g4
  rw [n2] at g8
  rw [n3] at g10
  have c2 := at_exact he hcl (by omega) (by omega) g4
  have c3 := at_exact he hcl (by omega) (by omega) g8
  have c4 := at_exact he hcl (by omega) (by omega) g10
  have hg : (skipc e.code (e.next (e.next (e.next w.pc))), off, m) ∈ G.gotos :=
    hsub.gotos _ (List.mem_append_right _ (List.mem_singleton.2 rfl))
  rw [n3, he, hcl.skipc (by omega) (by omega)] at hg
  simp only [TAt1]
  exact ⟨⟨rx, t1, t2, t0, off, g1, c1, g3, c2, g5, g6, g7, c3, g9, c4, hg, n4⟩, hsp'⟩

end

/-! ### what the walk establishes for a statement / a statement list -/

structure StmtOut (p : Program) (e : VEnv) (G : Walk) (hi : Nat) (s : Stmt) (w : Walk) (k : Nat)
    (prev : Prev) (l : List ESite) (w1 : Walk) (k1 : Nat) (prev1 : Prev) (post : List Nat) : Prop where
  site : SiteAt p (σOf w k prev s) s.pos
  body : isMark s = false → ∀ nxt, TAt1 p e G s nxt (σOf w k prev s) w1.pc
  ismk : isMark s = true → w1.pc = w.pc ∧ k1 = k + 1 ∧ sameLine prev s = false ∧
    prev1 = some (s.pos, true)
  nmk : isMark s = false → k1 = 0 ∧ afterMk prev1 = false
  sp : sitePositions p.code (w1.pc + k1) hi = post
  inv : INV p.code w1 k1
  pinv : PrevInv p w1 k1 prev1
  lab : ∀ m rest K pcR pcEnd, TAt p e G rest (cursor w1 k1 prev1 rest) pcR →
    TKAt p e G K pcR pcEnd → ∀ ss' K', findLabelStmt m s rest K = some (ss', K') →
    ∃ pm q pcE, (pm, q, some m) ∈ l ∧ TAt p e G ss' pm pcE ∧ TKAt p e G K' pcE pcEnd

structure StmtsOut (p : Program) (e : VEnv) (G : Walk) (hi : Nat) (ss : Stmts) (w : Walk) (k : Nat)
    (prev : Prev) (l : List ESite) (w' : Walk) (k' : Nat) (prev' : Prev) (post : List Nat) : Prop where
  tat : TAt p e G ss (cursor w k prev ss) (w'.pc + k')
  sp : sitePositions p.code (w'.pc + k') hi = post
  inv : INV p.code w' k'
  pinv : PrevInv p w' k' prev'
  lab : ∀ m K pcEnd, TKAt p e G K (w'.pc + k') pcEnd → ∀ ss' K', findLabel m ss K = some (ss', K') →
    ∃ pm q pcE, (pm, q, some m) ∈ l ∧ TAt p e G ss' pm pcE ∧ TKAt p e G K' pcE pcEnd

theorem sitesStmt_ok {e : VEnv} {s : Stmt} {w : Walk} {k : Nat} {prev : Prev} {l : List ESite}
    {w1 : Walk} {k1 : Nat} {prev1 : Prev} (h : sitesStmt e s w k prev = some (l, w1, k1, prev1)) :
    (sameLine prev s && !afterMk prev) = false := by
  have aux : ∀ b c d : Bool, (b && (!c || d)) = false → (b && !c) = false := by
    intro b c d; cases b <;> cases c <;> cases d <;> simp
  cases s with
  | assign x v pos => exact aux _ _ _ (sitesStmt_simple_inv rfl h).1
  | goto m pos => exact aux _ _ _ (sitesStmt_simple_inv rfl h).1
  | ifGoto x cst m pos => exact aux _ _ _ (sitesStmt_simple_inv rfl h).1
  | stop pos => exact aux _ _ _ (sitesStmt_simple_inv rfl h).1
  | mark m q => rw [(sitesStmt_mark_inv h).1]; rfl
  | loop id x body q => exact (sitesStmt_loop_inv h).1
  | while_ x body q => exact (sitesStmt_while_inv h).1

/-- behind a statement that is not a mark the cursor is the walker position -/
theorem cursor_nonmark {e : VEnv} {ss : Stmts} {w : Walk} {prev : Prev} {l : List ESite} {w' : Walk}
    {k' : Nat} {prev' : Prev} (h : sitesStmts e ss w 0 prev = some (l, w', k', prev'))
    (ham : afterMk prev = false) : cursor w 0 prev ss = w.pc := by
  cases ss with
  | nil => rfl
  | cons s ss =>
    obtain ⟨l1, w1, k1, prev1, l2, h1, _, _⟩ := sitesStmts_cons_inv h
    have := sitesStmt_ok h1
    rw [ham] at this
    simp only [Bool.not_false, Bool.and_true] at this
    show σOf w 0 prev s = w.pc
    unfold σOf
    rw [this]
    rfl

theorem cursor_after_mark (w : Walk) (k : Nat) (q : Pos) (ss : Stmts) :
    cursor w (k + 1) (some (q, true)) ss = if ss.headPos = some q then w.pc + k else w.pc + k + 1 := by
  cases ss with
  | nil => rfl
  | cons s ss =>
    show σOf w (k + 1) (some (q, true)) s = _
    unfold σOf sameLine Stmts.headPos
    by_cases h : q = s.pos
    · subst h
      simp
    · have h' : ¬ s.pos = q := fun hh => h hh.symm
      simp [h, h']
      omega

section
variable {p : Program} {e : VEnv} (he : e.code = p.code) {G : Walk} {hi : Nat}
include he

theorem loop_out {id : Nat} {x : Name} {body : Stmts} {q : Pos}
    (ih : ∀ {w : Walk} {k : Nat} {prev : Prev} {l : List ESite} {w' : Walk} {k' : Nat} {prev' : Prev}
      {post : List Nat}, sitesStmts e body w k prev = some (l, w', k', prev') →
      WalkIn p G hi w k prev l w' post → StmtsOut p e G hi body w k prev l w' k' prev' post)
    {w : Walk} {k : Nat} {prev : Prev} {l : List ESite} {w1 : Walk} {k1 : Nat} {prev1 : Prev}
    {post : List Nat} (h : sitesStmt e (.loop id x body q) w k prev = some (l, w1, k1, prev1))
    (hin : WalkIn p G hi w k prev l w1 post) :
    StmtOut p e G hi (.loop id x body q) w k prev l w1 k1 prev1 post := by
  obtain ⟨hok, lb, wb, kb, pb, hb, hchk, hj, rfl, rfl, rfl⟩ := sitesStmt_loop_inv h
  obtain ⟨hsite, hσ, hinv', hsp'⟩ := own_site hok hin
  generalize kOf k prev (.loop id x body q) = k' at hb hj hσ hinv' hsp'
  obtain ⟨σ, hσeq⟩ : ∃ σ, σ = σOf w k prev (.loop id x body q) := ⟨_, rfl⟩
  rw [← hσeq] at hsite hσ
  obtain ⟨ctr, rx, offE, offL, wS, g1, g2, g3, g4, hbS, g5, g6, _, _, hw1⟩ := checkStmt_loop_inv hchk
  subst hw1
  have hW1 : ({ wS with pc := skipc e.code (e.next wS.pc) + 1 } : Walk).pc =
      skipc p.code (e.next wS.pc) + 1 := by rw [he]
  have hlb := hin.lb
  have hhi := hin.hi
  rw [hW1] at hlb hhi hj
  have m1 : e.next (e.next w.pc) ≤ wS.pc := checkStmts_pc_le e body _ _ hbS
  have hge := skipc_ge_of_run hinv'
  have hn0 : e.next w.pc = skipc p.code w.pc + 1 := next_code he _
  have l1 := lt_next e (e.next w.pc)
  have l2 := lt_next e wS.pc
  have l3 := le_skipc p.code (e.next wS.pc)
  -- the header
  have hbd : ∀ y ∈ lb.map (·.1) ++ post, w.pc + k' + 2 ≤ y := by
    intro y hy
    rcases List.mem_append.1 hy with hy | hy
    · obtain ⟨x', hx', rfl⟩ := List.mem_map.1 hy
      exact sitesStmts_ge body hb x' hx'
    · have := hlb y hy; omega
  have hcl0 := clean_of_sites hsp' hbd (by omega)
  have hsk : skipc p.code w.pc = w.pc + k' :=
    skipc_eq_of_run hinv' (hcl0 _ (Nat.le_refl _) (by omega))
  have hspB := sites_after hsp' hbd (by omega) (by omega)
  have n1 : e.next w.pc = w.pc + k' + 1 := by rw [hn0, hsk]
  have n2 : e.next (e.next w.pc) = w.pc + k' + 2 := by
    rw [n1]; exact next_exact he hcl0 (by omega) (by omega)
  have c1 := at_code he g3
  rw [hsk] at c1
  rw [n1] at g4
  have c2 := at_exact he hcl0 (by omega) (by omega) g4
  -- the body
  rw [n2] at hbS
  have hwb : wS = wb := by
    have := hbS.symm.trans (sitesStmts_walk hb)
    cases this; rfl
  subst hwb
  have hinB : WalkIn p G hi { w with pc := w.pc + k' + 2 } 0 (some (q, false)) lb wS post :=
    { sub := ⟨hin.sub.marks, hin.sub.gotos⟩
      inv := fun i hi' => absurd hi' (Nat.not_lt_zero i)
      pinv := fun q' hq' => by cases hq'
      sp := by simpa using hspB
      lb := fun y hy => by have := hlb y hy; omega
      hi := by omega
      line := fun x' hx' => hin.line x' (List.mem_append_right _ hx') }
  have out := ih hb hinB
  have hcur := cursor_nonmark hb rfl
  have htat := out.tat
  rw [hcur] at htat
  -- the tail
  have hgeB := skipc_ge_of_run out.inv
  have hnB : e.next wS.pc = skipc p.code wS.pc + 1 := next_code he _
  have hclT := clean_of_sites out.sp hlb (by omega)
  have hskB : skipc p.code wS.pc = wS.pc + kb :=
    skipc_eq_of_run out.inv (hclT _ (Nat.le_refl _) (by omega))
  have nB : e.next wS.pc = wS.pc + kb + 1 := by rw [hnB, hskB]
  have hskJ : skipc p.code (e.next wS.pc) = wS.pc + kb + 1 := by
    rw [nB]; exact hclT.skipc (by omega) (by omega)
  have c3 := at_code he g5
  rw [hskB] at c3
  have c4 := at_code he g6
  rw [hskJ] at c4
  rw [hskJ] at hj hlb hhi
  have hspE := sites_after out.sp hlb (by omega) (by omega)
  -- the jumps
  unfold loopJumpsExact at hj
  rw [he, show wS.pc + kb + 1 + 1 - 1 = wS.pc + kb + 1 by omega, c2, c4] at hj
  simp only [Bool.and_eq_true, decide_eq_true_eq] at hj
  obtain ⟨hjE, hjL⟩ := hj
  have e1 : w.pc + k' = σ + 1 := hσ.symm
  have hT1 : TAt1 p e G (.loop id x body q) none σ (wS.pc + kb + 2) := by
    simp only [TAt1]
    refine ⟨ctr, rx, offE, offL, wS.pc + kb, g1, g2, by rw [← e1]; exact c1,
      by rw [show σ + 2 = w.pc + k' + 1 by omega]; exact c2,
      by rw [show σ + 3 = w.pc + k' + 2 by omega]; exact htat, c3, c4, ?_, ?_, rfl⟩
    · rw [show σ + 2 = w.pc + k' + 1 by omega]; exact hjL
    · rw [show σ + 2 = w.pc + k' + 1 by omega]; omega
  subst hσeq
  refine ⟨hsite, fun _ nxt => ?_, fun hm => (by cases hm), fun _ => ⟨rfl, rfl⟩, ?_, ?_, ?_, ?_⟩
  · rw [hW1, hskJ]
    simp only [TAt1] at hT1 ⊢
    exact hT1
  · rw [hW1, hskJ]; exact hspE
  · intro i hi'; exact absurd hi' (Nat.not_lt_zero i)
  · intro q' hq'; cases hq'
  · intro m rest K pcR pcEnd hrest hK ss' K' hfl
    simp only [findLabelStmt] at hfl
    have hrest' : TAt p e G rest (wS.pc + kb + 2) pcR := by
      have : cursor ({ wS with pc := skipc e.code (e.next wS.pc) + 1 } : Walk) 0 none rest =
          wS.pc + kb + 2 := by
        cases rest with
        | nil => show skipc e.code (e.next wS.pc) + 1 + 0 = _; rw [he, hskJ]
        | cons s' _ =>
          show σOf _ 0 none s' = _
          unfold σOf sameLine
          simp only [Bool.false_eq_true, if_false]
          show skipc e.code (e.next wS.pc) + 1 + 0 = _; rw [he, hskJ]
      rw [this] at hrest
      exact hrest
    have hK' : TKAt p e G (.loop id body rest K) (wS.pc + kb) pcEnd := by
      simp only [TKAt]
      refine ⟨ctr, offE, offL, w.pc + k' + 1, pcR, g1, c2,
        by rw [show w.pc + k' + 1 + 1 = w.pc + k' + 2 by omega]; exact htat, c3, c4, hjL, ?_, hrest', hK⟩
      omega
    obtain ⟨pm, q', pcE, hmem, h1', h2'⟩ := out.lab m _ pcEnd hK' ss' K' hfl
    exact ⟨pm, q', pcE, List.mem_append_right _ hmem, h1', h2'⟩


theorem while_out {x : Name} {body : Stmts} {q : Pos}
    (ih : ∀ {w : Walk} {k : Nat} {prev : Prev} {l : List ESite} {w' : Walk} {k' : Nat} {prev' : Prev}
      {post : List Nat}, sitesStmts e body w k prev = some (l, w', k', prev') →
      WalkIn p G hi w k prev l w' post → StmtsOut p e G hi body w k prev l w' k' prev' post)
    {w : Walk} {k : Nat} {prev : Prev} {l : List ESite} {w1 : Walk} {k1 : Nat} {prev1 : Prev}
    {post : List Nat} (h : sitesStmt e (.while_ x body q) w k prev = some (l, w1, k1, prev1))
    (hin : WalkIn p G hi w k prev l w1 post) :
    StmtOut p e G hi (.while_ x body q) w k prev l w1 k1 prev1 post := by
  obtain ⟨hok, lb, wb, kb, pb, hb, hchk, hj, rfl, rfl, rfl⟩ := sitesStmt_while_inv h
  obtain ⟨hsite, hσ, hinv', hsp'⟩ := own_site hok hin
  generalize kOf k prev (.while_ x body q) = k' at hb hj hσ hinv' hsp'
  obtain ⟨σ, hσeq⟩ : ∃ σ, σ = σOf w k prev (.while_ x body q) := ⟨_, rfl⟩
  rw [← hσeq] at hsite hσ
  obtain ⟨rx, tmp, offE, offL, wS, g1, g2, g3, g4, hbS, g5, _, _, hw1⟩ := checkStmt_while_inv hchk
  subst hw1
  have hW1 : ({ wS with pc := skipc e.code wS.pc + 1 } : Walk).pc =
      skipc p.code wS.pc + 1 := by rw [he]
  have hlb := hin.lb
  have hhi := hin.hi
  rw [hW1] at hlb hhi hj
  have m1 : e.next (e.next w.pc) ≤ wS.pc := checkStmts_pc_le e body _ _ hbS
  have hge := skipc_ge_of_run hinv'
  have hn0 : e.next w.pc = skipc p.code w.pc + 1 := next_code he _
  have l1 := lt_next e (e.next w.pc)
  have l3 := le_skipc p.code wS.pc
  -- the header
  have hbd : ∀ y ∈ lb.map (·.1) ++ post, w.pc + k' + 2 ≤ y := by
    intro y hy
    rcases List.mem_append.1 hy with hy | hy
    · obtain ⟨x', hx', rfl⟩ := List.mem_map.1 hy
      exact sitesStmts_ge body hb x' hx'
    · have := hlb y hy; omega
  have hcl0 := clean_of_sites hsp' hbd (by omega)
  have hsk : skipc p.code w.pc = w.pc + k' :=
    skipc_eq_of_run hinv' (hcl0 _ (Nat.le_refl _) (by omega))
  have hspB := sites_after hsp' hbd (by omega) (by omega)
  have n1 : e.next w.pc = w.pc + k' + 1 := by rw [hn0, hsk]
  have n2 : e.next (e.next w.pc) = w.pc + k' + 2 := by
    rw [n1]; exact next_exact he hcl0 (by omega) (by omega)
  have c1 := at_code he g3
  rw [hsk] at c1
  rw [n1] at g4
  have c2 := at_exact he hcl0 (by omega) (by omega) g4
  -- the body
  rw [n2] at hbS
  have hwb : wS = wb := by
    have := hbS.symm.trans (sitesStmts_walk hb)
    cases this; rfl
  subst hwb
  have hinB : WalkIn p G hi { w with pc := w.pc + k' + 2 } 0 (some (q, false)) lb wS post :=
    { sub := ⟨hin.sub.marks, hin.sub.gotos⟩
      inv := fun i hi' => absurd hi' (Nat.not_lt_zero i)
      pinv := fun q' hq' => by cases hq'
      sp := by simpa using hspB
      lb := fun y hy => by have := hlb y hy; omega
      hi := by omega
      line := fun x' hx' => hin.line x' (List.mem_append_right _ hx') }
  have out := ih hb hinB
  have hcur := cursor_nonmark hb rfl
  have htat := out.tat
  rw [hcur] at htat
  -- the tail
  have hgeB := skipc_ge_of_run out.inv
  have hclT := clean_of_sites out.sp hlb (by omega)
  have hskB : skipc p.code wS.pc = wS.pc + kb :=
    skipc_eq_of_run out.inv (hclT _ (Nat.le_refl _) (by omega))
  have c3 := at_code he g5
  rw [hskB] at c3
  rw [hskB] at hj hlb hhi
  have hspE := sites_after out.sp hlb (by omega) (by omega)
  -- the jumps
  unfold loopJumpsExact at hj
  rw [he, show wS.pc + kb + 1 - 1 = wS.pc + kb by omega, c2, c3] at hj
  simp only [Bool.and_eq_true, decide_eq_true_eq] at hj
  obtain ⟨hjE, hjL⟩ := hj
  have e1 : w.pc + k' = σ + 1 := hσ.symm
  have hT1 : TAt1 p e G (.while_ x body q) none σ (wS.pc + kb + 1) := by
    simp only [TAt1]
    refine ⟨rx, tmp, offE, offL, wS.pc + kb, g1, g2, by rw [← e1]; exact c1,
      by rw [show σ + 2 = w.pc + k' + 1 by omega]; exact c2,
      by rw [show σ + 3 = w.pc + k' + 2 by omega]; exact htat, c3, ?_, ?_, rfl⟩
    · rw [show σ + 1 = w.pc + k' by omega]; exact hjL
    · rw [show σ + 2 = w.pc + k' + 1 by omega]; omega
  subst hσeq
  refine ⟨hsite, fun _ nxt => ?_, fun hm => (by cases hm), fun _ => ⟨rfl, rfl⟩, ?_, ?_, ?_, ?_⟩
  · rw [hW1, hskB]
    simp only [TAt1] at hT1 ⊢
    exact hT1
  · rw [hW1, hskB]; exact hspE
  · intro i hi'; exact absurd hi' (Nat.not_lt_zero i)
  · intro q' hq'; cases hq'
  · intro m rest K pcR pcEnd hrest hK ss' K' hfl
    simp only [findLabelStmt] at hfl
    have hrest' : TAt p e G rest (wS.pc + kb + 1) pcR := by
      have : cursor ({ wS with pc := skipc e.code wS.pc + 1 } : Walk) 0 none rest =
          wS.pc + kb + 1 := by
        cases rest with
        | nil => show skipc e.code wS.pc + 1 + 0 = _; rw [he, hskB]
        | cons s' _ =>
          show σOf _ 0 none s' = _
          unfold σOf sameLine
          simp only [Bool.false_eq_true, if_false]
          show skipc e.code wS.pc + 1 + 0 = _; rw [he, hskB]
      rw [this] at hrest
      exact hrest
    have hK' : TKAt p e G (.while_ x body rest K) (wS.pc + kb) pcEnd := by
      simp only [TKAt]
      refine ⟨rx, tmp, offE, offL, w.pc + k', pcR, g1, g2, c1, c2, htat, c3, hjL, ?_, hrest', hK⟩
      omega
    obtain ⟨pm, q', pcE, hmem, h1', h2'⟩ := out.lab m _ pcEnd hK' ss' K' hfl
    exact ⟨pm, q', pcE, List.mem_append_right _ hmem, h1', h2'⟩

end

section
variable {p : Program} {e : VEnv} (he : e.code = p.code) {G : Walk} {hi : Nat}
include he

/-- the four statement kinds without nested statements -/
theorem simple_out {s : Stmt} (hs : isSimple s = true)
    {w : Walk} {k : Nat} {prev : Prev} {l : List ESite} {w1 : Walk} {k1 : Nat} {prev1 : Prev}
    {post : List Nat} (h : sitesStmt e s w k prev = some (l, w1, k1, prev1))
    (hin : WalkIn p G hi w k prev l w1 post) :
    StmtOut p e G hi s w k prev l w1 k1 prev1 post := by
  obtain ⟨hno, hchk, rfl, rfl, rfl⟩ := sitesStmt_simple_inv hs h
  have hok := sitesStmt_ok h
  have hin' : WalkIn p G hi w k prev (hereOf w k prev s ++ []) w1 post := by
    rw [List.append_nil]; exact hin
  obtain ⟨hsite, hσ, hinv', hsp'⟩ := own_site hok hin'
  simp only [List.map_nil, List.nil_append] at hsp'
  have key : ∀ nxt, TAt1 p e G s nxt (σOf w k prev s) w1.pc ∧ sitePositions p.code w1.pc hi = post := by
    intro nxt
    cases s with
    | assign x v pos => exact t1_assign he hchk hσ hinv' hsp' hin.lb hin.hi nxt
    | goto m pos => exact t1_goto he hchk hin.sub hσ hinv' hsp' hin.lb hin.hi nxt
    | ifGoto x cst m pos => exact t1_ifGoto he hchk hin.sub hσ hinv' hsp' hin.lb hin.hi nxt
    | stop pos => exact t1_stop he hchk hσ hinv' hsp' hin.lb hin.hi nxt
    | mark m q => cases hs
    | loop id x body q => cases hs
    | while_ x body q => cases hs
  have hnm : isMark s = false := by cases s <;> first | rfl | cases hs
  refine ⟨hsite, fun _ nxt => (key nxt).1, fun hm => (by rw [hnm] at hm; cases hm),
    fun _ => ⟨rfl, rfl⟩, (key none).2, fun i hi' => absurd hi' (Nat.not_lt_zero i),
    fun q' hq' => (by cases hq'), ?_⟩
  intro m rest K pcR pcEnd _ _ ss' K' hfl
  cases s <;> first | (simp only [findLabelStmt] at hfl; cases hfl) | cases hs

mutual
theorem consume_stmt : ∀ (s : Stmt) {w : Walk} {k : Nat} {prev : Prev} {l : List ESite} {w1 : Walk}
    {k1 : Nat} {prev1 : Prev} {post : List Nat},
    sitesStmt e s w k prev = some (l, w1, k1, prev1) → WalkIn p G hi w k prev l w1 post →
    StmtOut p e G hi s w k prev l w1 k1 prev1 post
  | .assign x v pos, _, _, _, _, _, _, _, _, h, hin => simple_out he rfl h hin
  | .goto m pos, _, _, _, _, _, _, _, _, h, hin => simple_out he rfl h hin
  | .ifGoto x cst m pos, _, _, _, _, _, _, _, _, h, hin => simple_out he rfl h hin
  | .stop pos, _, _, _, _, _, _, _, _, h, hin => simple_out he rfl h hin
  | .loop id x body q, _, _, _, _, _, _, _, _, h, hin =>
    loop_out he (fun hb hinb => consume_stmts body hb hinb) h hin
  | .while_ x body q, _, _, _, _, _, _, _, _, h, hin =>
    while_out he (fun hb hinb => consume_stmts body hb hinb) h hin
  | .mark m0 q, w, k, prev, l, w1, k1, prev1, post, h, hin => by
    obtain ⟨hsl, hchk, rfl, rfl, rfl⟩ := sitesStmt_mark_inv h
    have hw1 := checkStmt_mark_inv hchk
    subst hw1
    have hin' : WalkIn p G hi w k prev (hereOf w k prev (.mark m0 q) ++ [])
        { w with marks := w.marks ++ [(m0, w.pc)] } post := by
      rw [List.append_nil]
      unfold hereOf
      rw [hsl]
      exact hin
    obtain ⟨hsite, hσ, hinv', hsp'⟩ := own_site (by rw [hsl]; rfl) hin'
    have hk' : kOf k prev (.mark m0 q) = k + 1 := by unfold kOf; rw [hsl]; rfl
    have hσ' : σOf w k prev (.mark m0 q) = w.pc + k := by unfold σOf; rw [hsl]; rfl
    rw [hk'] at hinv' hsp'
    simp only [List.map_nil, List.nil_append] at hsp'
    refine ⟨hsite, fun hm => (by cases hm), fun _ => ⟨rfl, rfl, hsl, rfl⟩, fun hm => (by cases hm),
      hsp', hinv', ?_, ?_⟩
    · intro q' hq'
      cases hq'
      refine ⟨by omega, ?_⟩
      have := hsite.2
      rw [hσ'] at this
      show (p.lineAt ((w.pc + (k + 1) - 1 : Nat) : Int)).map posOfBp = _
      rw [show w.pc + (k + 1) - 1 = w.pc + k by omega]
      exact this
    · intro m rest K pcR pcEnd hrest hK ss' K' hfl
      simp only [findLabelStmt] at hfl
      split at hfl
      · rename_i hm
        subst hm
        cases hfl
        refine ⟨w.pc + k, q, pcR, List.mem_singleton.2 rfl, ?_, hK⟩
        simp only [TAt, TAt1]
        rw [hσ'] at hsite
        refine ⟨hsite, _, rfl, ?_⟩
        have hc := cursor_after_mark { w with marks := w.marks ++ [(m0, w.pc)] } k q rest
        rw [hc] at hrest
        exact hrest
      · cases hfl
theorem consume_stmts : ∀ (ss : Stmts) {w : Walk} {k : Nat} {prev : Prev} {l : List ESite}
    {w' : Walk} {k' : Nat} {prev' : Prev} {post : List Nat},
    sitesStmts e ss w k prev = some (l, w', k', prev') → WalkIn p G hi w k prev l w' post →
    StmtsOut p e G hi ss w k prev l w' k' prev' post
  | .nil, w, k, prev, l, w', k', prev', post, h, hin => by
    obtain ⟨rfl, rfl, rfl, rfl⟩ := sitesStmts_nil_inv h
    refine ⟨by simp only [TAt, cursor], by simpa using hin.sp, hin.inv, hin.pinv, ?_⟩
    intro m K pcEnd _ ss' K' hfl
    simp only [findLabel] at hfl
    cases hfl
  | .cons s ss, w, k, prev, l, w', k', prev', post, h, hin => by
    obtain ⟨l1, w1, k1, prev1, l2, h1, h2, rfl⟩ := sitesStmts_cons_inv h
    have hwalk2 := sitesStmts_walk h2
    have hmono := checkStmts_mono e ss _ _ hwalk2
    have hle2 := checkStmts_pc_le e ss _ _ hwalk2
    have hin1 : WalkIn p G hi w k prev l1 w1 (l2.map (·.1) ++ post) :=
      { sub := hmono.trans hin.sub
        inv := hin.inv
        pinv := hin.pinv
        sp := by have := hin.sp; rwa [List.map_append, List.append_assoc] at this
        lb := by
          intro y hy
          rcases List.mem_append.1 hy with hy | hy
          · obtain ⟨x', hx', rfl⟩ := List.mem_map.1 hy
            exact sitesStmts_ge ss h2 x' hx'
          · have := hin.lb y hy; omega
        hi := by have := hin.hi; omega
        line := fun x' hx' => hin.line x' (List.mem_append_left _ hx') }
    have o1 := consume_stmt s h1 hin1
    have hin2 : WalkIn p G hi w1 k1 prev1 l2 w' post :=
      { sub := hin.sub, inv := o1.inv, pinv := o1.pinv, sp := o1.sp, lb := hin.lb, hi := hin.hi
        line := fun x' hx' => hin.line x' (List.mem_append_right _ hx') }
    have o2 := consume_stmts ss h2 hin2
    -- the cursor behind `s`
    have hT : ∃ pc', TAt1 p e G s ss.headPos (σOf w k prev s) pc' ∧ pc' = cursor w1 k1 prev1 ss := by
      by_cases hm : isMark s = true
      · obtain ⟨g1, g2, g3, g4⟩ := o1.ismk hm
        cases s with
        | mark m0 q =>
          subst g2 g4
          refine ⟨_, ?_, rfl⟩
          simp only [TAt1]
          rw [cursor_after_mark, g1]
          have : σOf w k prev (.mark m0 q) = w.pc + k := by unfold σOf; rw [g3]; rfl
          rw [this]
          rfl
        | _ => cases hm
      · have hm' : isMark s = false := by simpa using hm
        obtain ⟨g1, g2⟩ := o1.nmk hm'
        subst g1
        exact ⟨w1.pc, o1.body hm' _, (cursor_nonmark h2 g2).symm⟩
    obtain ⟨pc', hT1, hpc'⟩ := hT
    have htat2 := o2.tat
    rw [← hpc'] at htat2
    refine ⟨?_, o2.sp, o2.inv, o2.pinv, ?_⟩
    · show TAt p e G (.cons s ss) (σOf w k prev s) _
      simp only [TAt]
      exact ⟨o1.site, pc', hT1, htat2⟩
    · intro m K pcEnd hK ss' K' hfl
      simp only [findLabel] at hfl
      cases hf : findLabelStmt m s ss K with
      | some r =>
        rw [hf] at hfl
        simp only [] at hfl
        cases hfl
        obtain ⟨pm, q', pcE, hmem, a1, a2⟩ := o1.lab m ss K _ pcEnd o2.tat hK _ _ hf
        exact ⟨pm, q', pcE, List.mem_append_left _ hmem, a1, a2⟩
      | none =>
        rw [hf] at hfl
        simp only [] at hfl
        obtain ⟨pm, q', pcE, hmem, a1, a2⟩ := o2.lab m K pcEnd hK _ _ hfl
        exact ⟨pm, q', pcE, List.mem_append_right _ hmem, a1, a2⟩
end

end

end Sim
end Theo
