/-
  C02 (located errors), part 3: the recursive-descent parser.
  For a predicate `P` on positions that holds for the placeholder ("-", -1) and for every token of
  the input stream:
    * every syntax error is at a position satisfying `P` (errors are reported at the current
      token, or at the synthetic end-of-input token ("-", -1));
    * when no error is recorded, every node of the tree has a position satisfying `P` (leaves take
      the position of the current token, inner nodes copy the position of a node that exists —
      a node could only be missing where the fuel ran out, which records an error).
-/
import Theo.Proofs.StaticParse
import Theo.Proofs.LocatedProofs2

namespace Theo
namespace Loc
open C04 Static

/-- invariant of the parser state: placeholder, remaining tokens and recorded errors are good -/
def PSInv (P : Bytes → Int → Prop) (ps : PS) : Prop :=
  P bDash (-1) ∧ ToksP P ps.ts ∧ ∀ e ∈ ps.errs, P e.file e.line

/-- every node of the tree has a good position -/
def NodeP (P : Bytes → Int → Prop) : Node → Prop
  | .nil => True
  | .mk _ _ f l a b => P f l ∧ NodeP P a ∧ NodeP P b

section
variable {P : Bytes → Int → Prop}

theorem cur_P {ps : PS} (h : PSInv P ps) : P ps.cur.file ps.cur.line := by
  unfold PS.cur
  cases hts : ps.ts with
  | nil => exact h.1
  | cons t r => exact h.2.1 t (by rw [hts]; simp)

theorem inv_err {ps : PS} (h : PSInv P ps) (k : SynKind) : PSInv P (ps.err k) := by
  refine ⟨h.1, h.2.1, ?_⟩
  intro e he
  rcases List.mem_append.1 he with h1 | h1
  · exact h.2.2 e h1
  · rw [List.mem_singleton.1 h1]; exact cur_P h

theorem skipToSep_sub : ∀ (ts : List Token), ∀ t ∈ PS.skipToSep ts, t ∈ ts
  | [], _, h => h
  | x :: xs, t, h => by
    rw [PS.skipToSep] at h
    split at h
    · exact h
    · exact List.mem_cons_of_mem _ (skipToSep_sub xs t h)

theorem inv_ts {ps : PS} (h : PSInv P ps) (ts : List Token) (hs : ∀ t ∈ ts, t ∈ ps.ts) :
    PSInv P { ps with ts := ts } :=
  ⟨h.1, h.2.1.sub hs, h.2.2⟩

theorem inv_drop1 {ps : PS} (h : PSInv P ps) :
    PSInv P (if ps.la ≠ Tok.T_EOF then { ps with ts := ps.ts.drop 1 } else ps) := by
  split
  · exact inv_ts h _ (fun t ht => List.mem_of_mem_drop ht)
  · exact h

theorem inv_matchK {ps : PS} (h : PSInv P ps) (k : Nat) : PSInv P (ps.matchK k) := by
  have h1 : PSInv P (if ps.la ≠ k then { ps.err .expectedToken with ts := PS.skipToSep ps.ts } else ps) := by
    split
    · exact inv_ts (inv_err h _) _ (skipToSep_sub _)
    · exact h
  unfold PS.matchK
  exact inv_drop1 h1

/-! ### the state component -/

structure SI (P : Bytes → Int → Prop) (f : Nat) : Prop where
  s : ∀ ps, PSInv P ps → PSInv P (pS f ps).2
  ports : ∀ ps, PSInv P ps → PSInv P (pPORTS f ps).2
  args : ∀ ps, PSInv P ps → PSInv P (pARGS f ps).2
  eeos : ∀ ps, PSInv P ps → PSInv P (pEEOS f ps)
  p : ∀ ps, PSInv P ps → PSInv P (pP f ps).2
  morep : ∀ ps, PSInv P ps → PSInv P (pMOREP f ps).2
  value : ∀ ps, PSInv P ps → PSInv P (pVALUE f ps).2
  mv : ∀ ps, PSInv P ps → PSInv P (pMVARGS f ps).2

theorem inv_oports {ps : PS} (h : PSInv P ps) : PSInv P (pOPORTS ps).2 := by
  rw [pOPORTS_eq]
  split
  · exact inv_matchK (inv_matchK h _) _
  · exact h

theorem si_zero : SI P 0 where
  s ps h := by rw [pS_zero]; exact inv_err h _
  ports ps h := by rw [pPORTS_zero]; exact inv_err h _
  args ps h := by rw [pARGS_zero]; exact inv_err h _
  eeos ps h := by rw [pEEOS_zero]; exact inv_err h _
  p ps h := by rw [pP_zero]; exact inv_err h _
  morep ps h := by rw [pMOREP_zero]; exact inv_err h _
  value ps h := by rw [pVALUE_zero]; exact inv_err h _
  mv ps h := by rw [pMVARGS_zero]; exact inv_err h _

/-- one backward step through a parser-state expression -/
local macro "si_step" ih:term : tactic => `(tactic| with_reducible first
  | assumption
  | apply inv_matchK
  | apply inv_err
  | apply inv_oports
  | apply SI.s $ih
  | apply SI.ports $ih
  | apply SI.args $ih
  | apply SI.eeos $ih
  | apply SI.p $ih
  | apply SI.morep $ih
  | apply SI.value $ih
  | apply SI.mv $ih
  | split)

theorem si_succ {f : Nat} (ih : SI P f) : SI P (f + 1) where
  s ps h := by rw [pS_succ]; repeat' si_step ih
  ports ps h := by rw [pPORTS_succ]; repeat' si_step ih
  args ps h := by rw [pARGS_succ]; repeat' si_step ih
  eeos ps h := by rw [pEEOS_succ]; repeat' si_step ih
  p ps h := by rw [pP_succ]; repeat' si_step ih
  morep ps h := by rw [pMOREP_succ]; repeat' si_step ih
  value ps h := by rw [pVALUE_succ]; repeat' si_step ih
  mv ps h := by rw [pMVARGS_succ]; repeat' si_step ih

theorem si_all : ∀ f, SI P f
  | 0 => si_zero
  | f + 1 => si_succ (si_all f)

theorem inv_pS {ps : PS} (h : PSInv P ps) (f : Nat) : PSInv P (pS f ps).2 := (si_all f).s ps h
theorem inv_pPORTS {ps : PS} (h : PSInv P ps) (f : Nat) : PSInv P (pPORTS f ps).2 := (si_all f).ports ps h
theorem inv_pARGS {ps : PS} (h : PSInv P ps) (f : Nat) : PSInv P (pARGS f ps).2 := (si_all f).args ps h
theorem inv_pEEOS {ps : PS} (h : PSInv P ps) (f : Nat) : PSInv P (pEEOS f ps) := (si_all f).eeos ps h
theorem inv_pP {ps : PS} (h : PSInv P ps) (f : Nat) : PSInv P (pP f ps).2 := (si_all f).p ps h
theorem inv_pMOREP {ps : PS} (h : PSInv P ps) (f : Nat) : PSInv P (pMOREP f ps).2 := (si_all f).morep ps h
theorem inv_pVALUE {ps : PS} (h : PSInv P ps) (f : Nat) : PSInv P (pVALUE f ps).2 := (si_all f).value ps h
theorem inv_pMVARGS {ps : PS} (h : PSInv P ps) (f : Nat) : PSInv P (pMVARGS f ps).2 := (si_all f).mv ps h

theorem inv_pTrailing : ∀ (n fuel : Nat) (ps : PS), PSInv P ps → PSInv P (pTrailing n fuel ps)
  | 0, _, _, h => by rw [pTrailing]; exact h
  | n + 1, fuel, ps, h => by
    rw [pTrailing]
    split
    · exact h
    · dsimp only
      split
      · exact inv_matchK (inv_err h _) _
      · exact inv_pTrailing n fuel _ (inv_pS (inv_matchK (inv_err h _) _) _)

/-- every syntax error of the descent is at a good position -/
theorem parseTokens_errs (ts : List Token) (hd : P bDash (-1)) (ht : ToksP P ts) :
    ∀ e ∈ (parseTokens ts).2, P e.file e.line := by
  rw [parseTokens_snd]
  have h0 : PSInv P ⟨ts, []⟩ := ⟨hd, ht, fun _ h => (by cases h)⟩
  exact (inv_pTrailing _ _ _ (inv_pS h0 _)).2.2

/-- proves `PSInv P <state>` for a state reached from a state with a `PSInv` hypothesis -/
macro "psinv" : tactic => `(tactic| repeat' (with_reducible first
  | assumption
  | apply inv_matchK
  | apply inv_err
  | apply inv_oports
  | apply inv_pS
  | apply inv_pPORTS
  | apply inv_pARGS
  | apply inv_pEEOS
  | apply inv_pP
  | apply inv_pMOREP
  | apply inv_pVALUE
  | apply inv_pMVARGS
  | split))

/-! ### the tree -/

theorem nodeP_leaf {t : Nat} {tok file : Bytes} {line : Int} (h : P file line) :
    NodeP P (.mk t tok file line .nil .nil) := ⟨h, trivial, trivial⟩

theorem nodeP_mkAt {t : Nat} {n l r : Node} (hn : n ≠ .nil) (hp : NodeP P n) (hl : NodeP P l)
    (hr : NodeP P r) : NodeP P (mkAt t n l r) := by
  cases n with
  | nil => exact absurd rfl hn
  | mk _ _ f li a b => exact ⟨hp.1, hl, hr⟩

theorem value_ne (f : Nat) (ps : PS) (h : (pVALUE f ps).2.errs = []) : (pVALUE f ps).1 ≠ .nil := by
  intro hn
  have := value_fst_nil f ps hn
  rw [h] at this
  simp at this

theorem mkAt_ne (t : Nat) (n l r : Node) : mkAt t n l r ≠ .nil := by
  unfold mkAt; nofun

theorem args_ne (f : Nat) (ps : PS) (h : (pARGS f ps).2.errs = []) : (pARGS f ps).1 ≠ .nil := by
  cases f with
  | zero => rw [pARGS_zero] at h; exact absurd h (err_ne _ _)
  | succ f =>
    rw [pARGS]
    dsimp only [PS.matchmk]
    exact mkAt_ne _ _ _ _

theorem nodeP_nil : NodeP P .nil := trivial

theorem mk_ne (t : Nat) (tok file : Bytes) (line : Int) (l r : Node) : Node.mk t tok file line l r ≠ .nil := nofun

/-- closes goals `NodeP P <tree>` from node facts about the subtrees and a `PSInv` hypothesis -/
macro "nodep" : tactic => `(tactic| repeat' (with_reducible first
  | assumption
  | exact nodeP_nil
  | exact mkAt_ne _ _ _ _
  | exact mk_ne _ _ _ _ _ _
  | refine nodeP_mkAt ?_ ?_ ?_ ?_
  | refine nodeP_leaf ?_
  | exact cur_P (by psinv)))

structure NI (P : Bytes → Int → Prop) (f : Nat) : Prop where
  value : ∀ ps, PSInv P ps → (pVALUE f ps).2.errs = [] → NodeP P (pVALUE f ps).1
  mv : ∀ ps, PSInv P ps → (pMVARGS f ps).2.errs = [] → NodeP P (pMVARGS f ps).1
  args : ∀ ps, PSInv P ps → (pARGS f ps).2.errs = [] → NodeP P (pARGS f ps).1
  ports : ∀ ps, PSInv P ps → (pPORTS f ps).2.errs = [] → NodeP P (pPORTS f ps).1
  p : ∀ ps, PSInv P ps → (pP f ps).2.errs = [] → NodeP P (pP f ps).1
  morep : ∀ ps, PSInv P ps → (pMOREP f ps).2.errs = [] → NodeP P (pMOREP f ps).1
  s : ∀ ps, PSInv P ps → (pS f ps).2.errs = [] → NodeP P (pS f ps).1

theorem ni_zero : NI P 0 where
  value ps _ h := by rw [pVALUE_zero] at h; exact absurd h (err_ne _ _)
  mv ps _ h := by rw [pMVARGS_zero] at h; exact absurd h (err_ne _ _)
  args ps _ h := by rw [pARGS_zero] at h; exact absurd h (err_ne _ _)
  ports ps _ h := by rw [pPORTS_zero] at h; exact absurd h (err_ne _ _)
  p ps _ h := by rw [pP_zero] at h; exact absurd h (err_ne _ _)
  morep ps _ h := by rw [pMOREP_zero] at h; exact absurd h (err_ne _ _)
  s ps _ h := by rw [pS_zero] at h; exact absurd h (err_ne _ _)

theorem ni_oports (ps : PS) (hi : PSInv P ps) : NodeP P (pOPORTS ps).1 := by
  unfold pOPORTS
  split
  · dsimp only [PS.matchmk]; nodep
  · exact trivial

theorem ni_value {f : Nat} (ih : NI P f) (ps : PS) (hi : PSInv P ps)
    (h : (pVALUE (f+1) ps).2.errs = []) : NodeP P (pVALUE (f+1) ps).1 := by
  have ab := ab_all f
  rw [pVALUE.eq_def (f+1) ps] at h ⊢
  dsimp only [PS.matchmk] at h ⊢
  by_cases h1 : ps.la = Tok.ID
  · simp only [if_pos h1]; nodep
  simp only [if_neg h1] at h ⊢
  by_cases h2 : ps.la = Tok.INT
  · simp only [if_pos h2]; nodep
  simp only [if_neg h2] at h ⊢
  by_cases h3 : ps.la = Tok.RUN
  · simp only [if_pos h3] at h ⊢
    split at h
    · rename_i hc
      simp only [if_pos hc]
      nodep
    · rename_i hc
      simp only [if_neg hc]
      dsimp only at h
      have e1 := nil_of_le (mk_le _ Tok.END (by decide)) h
      have e2 := nil_of_le (ab.mv _).le e1
      have s1 := ih.mv _ (by psinv) e1
      have s2 := ih.value _ (by psinv) e2
      have n2 := value_ne _ _ e2
      nodep
  · simp only [if_neg h3] at h
    exact absurd h (err_ne _ _)

theorem ni_mv {f : Nat} (ih : NI P f) (ps : PS) (hi : PSInv P ps)
    (h : (pMVARGS (f+1) ps).2.errs = []) : NodeP P (pMVARGS (f+1) ps).1 := by
  have ab := ab_all f
  rw [pMVARGS] at h ⊢
  by_cases h1 : ps.la ≠ Tok.ARGSEP
  · simp only [if_pos h1]; exact trivial
  simp only [if_neg h1] at h ⊢
  cases hv : (pVALUE f (ps.matchK Tok.ARGSEP)).1 with
  | nil => exact trivial
  | mk t tok file line l r =>
    simp only [hv] at h ⊢
    have e1 := nil_of_le (ab.mv _).le h
    have s1 := ih.value _ (by psinv) e1
    have s2 := ih.mv _ (by psinv) h
    rw [hv] at s1
    nodep

theorem ni_args {f : Nat} (ih : NI P f) (ps : PS) (hi : PSInv P ps)
    (h : (pARGS (f+1) ps).2.errs = []) : NodeP P (pARGS (f+1) ps).1 := by
  rw [pARGS] at h ⊢
  dsimp only [PS.matchmk] at h ⊢
  by_cases h1 : (ps.matchK Tok.ID).la ≠ Tok.ARGSEP
  · simp only [if_pos h1]; nodep
  · simp only [if_neg h1] at h ⊢
    have s1 := ih.args _ (by psinv) h
    nodep

theorem ni_ports {f : Nat} (ih : NI P f) (ps : PS) (hi : PSInv P ps)
    (h : (pPORTS (f+1) ps).2.errs = []) : NodeP P (pPORTS (f+1) ps).1 := by
  rw [pPORTS] at h ⊢
  by_cases h1 : ps.la = Tok.IN
  · simp only [if_pos h1] at h ⊢
    have e1 := nil_of_le (oports_adv _).le h
    have s1 := ih.args _ (by psinv) e1
    have n1 := args_ne _ _ e1
    have s2 := ni_oports (pARGS f (ps.matchK Tok.IN)).2 (by psinv)
    nodep
  · simp only [if_neg h1]; exact trivial

theorem ni_morep {f : Nat} (ih : NI P f) (ps : PS) (hi : PSInv P ps)
    (h : (pMOREP (f+1) ps).2.errs = []) : NodeP P (pMOREP (f+1) ps).1 := by
  rw [pMOREP] at h ⊢
  by_cases h1 : ps.la ≠ Tok.PROGSEP
  · simp only [if_pos h1]; exact trivial
  · simp only [if_neg h1] at h ⊢
    exact ih.p _ (by psinv) h

theorem ni_s {f : Nat} (ih : NI P f) (ps : PS) (hi : PSInv P ps)
    (h : (pS (f+1) ps).2.errs = []) : NodeP P (pS (f+1) ps).1 := by
  have ab := ab_all f
  rw [pS] at h ⊢
  by_cases h1 : ps.la = Tok.PROGRAM
  · simp only [if_pos h1] at h ⊢
    dsimp only [PS.matchmk] at h ⊢
    have s1 := ih.s _ (by psinv) h
    have e1 := nil_of_le (ab.s _).le h
    have e2 := nil_of_le (mk_le _ Tok.END (by decide)) e1
    have s2 := ih.p _ (by psinv) e2
    have e3 := nil_of_le (ab.p _).le e2
    have e4 := nil_of_le (mk_le _ Tok.DO (by decide)) e3
    have s3 := ih.ports _ (by psinv) e4
    nodep
  · simp only [if_neg h1] at h ⊢
    exact ih.p _ hi h

/-- the tail `MOREP; expected_end_or_semicolon` of every statement -/
theorem tail_node {f : Nat} (ih : NI P f) (ps : PS) (hi : PSInv P ps)
    (h : (pEEOS f (pMOREP f ps).2).errs = []) :
    (pMOREP f ps).2.errs = [] ∧ ps.errs = [] ∧ NodeP P (pMOREP f ps).1 := by
  have ab := ab_all f
  have e1 := nil_of_le (ab.eeos _) h
  exact ⟨e1, nil_of_le (ab.morep _) e1, ih.morep _ hi e1⟩

theorem ni_p {f : Nat} (ih : NI P f) (ps : PS) (hi : PSInv P ps)
    (h : (pP (f+1) ps).2.errs = []) : NodeP P (pP (f+1) ps).1 := by
  have ab := ab_all f
  rw [pP] at h ⊢
  dsimp only [PS.matchmk] at h ⊢
  by_cases h1 : ps.la = Tok.ID
  · simp only [if_pos h1] at h ⊢
    by_cases h2 : (ps.matchK Tok.ID).la = Tok.ASSIGN
    · simp only [if_pos h2] at h ⊢
      obtain ⟨_, e2, s1⟩ := tail_node ih _ (by psinv) h
      have s2 := ih.value _ (by psinv) e2
      nodep
    · simp only [if_neg h2] at h ⊢
      by_cases h3 : (ps.matchK Tok.ID).la = Tok.LABELDEC
      · simp only [if_pos h3] at h ⊢
        obtain ⟨_, e2, s1⟩ := tail_node ih _ (by psinv) h
        have s2 := ih.p _ (by psinv) e2
        nodep
      · simp only [if_neg h3] at h ⊢
        obtain ⟨_, e2, _⟩ := tail_node ih _ (by psinv) h
        exact absurd e2 (err_ne _ _)
  simp only [if_neg h1] at h ⊢
  by_cases h2 : ps.la = Tok.LOOP ∨ ps.la = Tok.WHILE
  · simp only [if_pos h2] at h ⊢
    obtain ⟨_, e2, s1⟩ := tail_node ih _ (by psinv) h
    have e3 := nil_of_le (mk_le _ Tok.END (by decide)) e2
    have s2 := ih.p _ (by psinv) e3
    nodep
  simp only [if_neg h2] at h ⊢
  by_cases h3 : ps.la = Tok.GOTO
  · simp only [if_pos h3] at h ⊢
    obtain ⟨_, _, s1⟩ := tail_node ih _ (by psinv) h
    nodep
  simp only [if_neg h3] at h ⊢
  by_cases h4 : ps.la = Tok.IF
  · simp only [if_pos h4] at h ⊢
    obtain ⟨_, _, s1⟩ := tail_node ih _ (by psinv) h
    nodep
  simp only [if_neg h4] at h ⊢
  by_cases h5 : ps.la = Tok.STOP
  · simp only [if_pos h5] at h ⊢
    obtain ⟨_, _, s1⟩ := tail_node ih _ (by psinv) h
    nodep
  · simp only [if_neg h5] at h ⊢
    have e1 := nil_of_le (ab.eeos _) h
    exact absurd e1 (err_ne _ _)

theorem ni_all : ∀ f, NI P f
  | 0 => ni_zero
  | f + 1 =>
    have ih := ni_all f
    { value := ni_value ih, mv := ni_mv ih, args := ni_args ih, ports := ni_ports ih,
      p := ni_p ih, morep := ni_morep ih, s := ni_s ih }

/-- an error-free parse builds a tree all of whose nodes are at good positions -/
theorem parseTokens_root (ts : List Token) (hd : P bDash (-1)) (ht : ToksP P ts)
    (he : (parseTokens ts).2 = []) : NodeP P (parseTokens ts).1 := by
  rw [parseTokens_snd] at he
  rw [parseTokens_fst]
  have h0 : PSInv P ⟨ts, []⟩ := ⟨hd, ht, fun _ h => (by cases h)⟩
  have h1 := pTrailing_le (ts.length + 1) (parseFuel ts.length) (pS (parseFuel ts.length) ⟨ts, []⟩).2
  exact (ni_all _).s _ h0 (nil_of_le h1 he)

end
end Loc
end Theo
