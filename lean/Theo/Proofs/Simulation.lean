/-
  Forward simulation between the reference semantics and the VM for validated programs (C01).
-/
import Theo.Spec.Shape
import Theo.Proofs.WFProofs

namespace Theo

end Theo
