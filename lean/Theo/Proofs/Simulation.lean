/-
  Forward simulation between the reference semantics and the VM for validated programs (C01).
-/
import Theo.Spec.Shape
import Theo.Proofs.WFProofs
import Theo.Proofs.SimStep
import Theo.Proofs.SimPure

set_option linter.unusedSimpArgs false
set_option linter.unusedSectionVars false

namespace Theo
namespace Sim
open Sem WF

/-! ### iterating the reference machine -/

def iter (src : Source) : Nat → Config → Config
  | 0, c => c
  | n + 1, c => Sem.step src (iter src n c)

theorem iter_succ' (src : Source) (n : Nat) (c : Config) :
    iter src (n + 1) c = iter src n (Sem.step src c) := by
  induction n with
  | zero => rfl
  | succ n ih =>
    show Sem.step src (iter src (n + 1) c) = Sem.step src (iter src n (Sem.step src c))
    rw [ih]

theorem step_fixed (src : Source) (c : Config) (h : c.status ≠ .running) : Sem.step src c = c := by
  obtain ⟨stack, status⟩ := c
  cases status with
  | running => exact absurd rfl h
  | halted => rfl
  | stuck => rfl

theorem run_fst (src : Source) : ∀ (n : Nat) (c : Config) (a : Nat),
    (Sem.run src n c a).1 = iter src n c := by
  intro n
  induction n with
  | zero => intro c a; rfl
  | succ n ih =>
    intro c a
    rw [iter_succ']
    unfold Sem.run
    split
    · exact ih _ _
    · rename_i hne
      have hfix := step_fixed src c (by intro h; exact hne h)
      rw [hfix]
      clear ih hfix
      induction n with
      | zero => rfl
      | succ n ih2 =>
        show c = Sem.step src (iter src n c)
        rw [← ih2]
        exact (step_fixed src c (by intro h; exact hne h)).symm

section
variable {src : Source} {p : Program} {V : Valid src p} (hV : V.OK)
include hV

/-! ### never stuck -/

theorem initial_frameAt (H : Int → Nat → Prop) :
    FrameAt (V.env src.progs.length) (V.G src.progs.length) H
      ⟨src.progs.length, [], [], src.main, .done, .run⟩ (V.start src.progs.length) 0 := by
  simp only [FrameAt]
  have := checkStmts_sat (V.env src.progs.length) (V.G src.progs.length) (bodyOf src src.progs.length)
    _ _ (hV.chk _ (Nat.le_refl _)) (Sub.refl _)
  unfold bodyOf at this
  rw [List.getElem?_eq_none (Nat.le_refl _)] at this
  exact ⟨_, this, by simp only [KAt]⟩

theorem pinv_initial : PInv V (initial src) := by
  refine ⟨rfl, ?_, ?_⟩
  · show PStack V [_]
    rw [pstack_cons]
    exact ⟨Nat.le_refl _, ⟨_, 0, initial_frameAt hV HT⟩, rfl⟩
  · intro fr rest h
    cases h
    exact fun ⟨_, _, h⟩ => nomatch h

theorem pinv_iter : ∀ n, (iter src n (initial src)).status ≠ .stuck ∧
    ((iter src n (initial src)).status = .running → PInv V (iter src n (initial src))) := by
  intro n
  induction n with
  | zero => exact ⟨by simp [iter, initial], fun _ => pinv_initial hV⟩
  | succ n ih =>
    have e : iter src (n + 1) (initial src) = Sem.step src (iter src n (initial src)) := rfl
    rw [e]
    by_cases hr : (iter src n (initial src)).status = .running
    · exact pure_step hV (ih.2 hr)
    · rw [step_fixed src _ hr]
      exact ⟨ih.1, fun h => absurd h hr⟩

end

/-! ### the initial state -/

section
variable {src : Source} {p : Program} {V : Valid src p} {c : Cert} {R : PcInfo}
  (hc : CertOK p c R) (hV : V.OK)
include hc hV

omit hV in
theorem skips_run {pc pcF : Nat} (hs : Skips p.code pc pcF) : ∀ {vm : VM}, Good p c R.rid vm →
    Anch p.code vm.ip pc →
    ∃ vm', SS vm vm' ∧ Good p c R.rid vm' ∧ Anch p.code vm'.ip pcF ∧ vm'.stack = vm.stack ∧
      vm'.data = vm.data := by
  induction hs with
  | refl pc => intro vm hg ha; exact ⟨vm, SS.refl _, hg, ha, rfl, rfl⟩
  | jump h1 h2 _ ih =>
    intro vm hg ha
    obtain ⟨vm1, s1, g1, ip1, st1, d1⟩ := r_jmp hc hg ha h1
    obtain ⟨vm2, s2, g2, a2, st2, d2⟩ := ih g1 (by rw [ip1, h2]; exact Anch.self _ _)
    exact ⟨vm2, s1.ss.trans s2, g2, a2, st2.trans st1, d2.trans d1⟩

theorem actmap_regs {j : Nat} (hj : j ≤ src.progs.length) {a : Act} (ham : ActMap p a)
    (hdbg : a.dbg = (j : Int)) :
    ∀ r nm, (r, nm) ∈ (V.ri j).regs → 0 ≤ r ∧ r < a.segSize := by
  obtain ⟨hm, h0⟩ := ham
  unfold mapOK at hm
  rw [Bool.and_eq_true, decide_eq_true_eq] at hm
  obtain ⟨sm, hsm, hregs⟩ := hV.regs j hj
  have hd : a.dbg.toNat = j := by rw [hdbg]; omega
  simp only [hd, hsm] at hm
  intro r nm hmem
  rw [hregs] at hmem
  have := List.all_eq_true.1 hm.2 _ hmem
  rw [regOK_iff] at this
  exact ⟨this.1, by omega⟩

theorem init_match : ∃ vm, SS (VM.mk' p) vm ∧ Match V c R (initial src) vm := by
  obtain ⟨cnt, tgt, hhead⟩ := hV.head
  have g0 := Good.init p c R.rid
  obtain ⟨s1, g1⟩ := g0.exec1 hc (pc := 0) (vm' := { VM.mk' p with
      data := [] ++ List.replicate cnt.toNat 0,
      stack := [⟨0, cnt, tgt, -1, (src.progs.length : Int)⟩], ip := 0 + 1 }) (b := false)
    rfl hhead (by simp) rfl
  obtain ⟨vm2, s2, g2, a2, st2, d2⟩ :=
    skips_run hc hV.skips g1 (by show Anch p.code ((0 : Int) + 1) 1; exact Anch.self _ 1)
  refine ⟨vm2, SS.trans ⟨1, s1⟩ s2, g2, rfl, ⟨V.start src.progs.length, a2, ?_⟩, ?_⟩
  · rw [st2]
    show StackRel V vm2.data [_] [⟨0, cnt, tgt, -1, (src.progs.length : Int)⟩] _ 0
    rw [stackRel_cons]
    refine ⟨⟨Nat.le_refl _, rfl, ?_, initial_frameAt hV _⟩, rfl, rfl⟩
    have ham := winv_actMap g2.winv _ (by rw [st2]; exact List.mem_cons_self)
    have hcnt : 0 ≤ cnt := ham.2
    refine callee_frameOK (params := []) (vals := []) (hV.nodup _ (Nat.le_refl _)) (by rfl) rfl
      (fun _ h => nomatch h) ?_ (actmap_regs hc hV (Nat.le_refl _) ham rfl)
    intro r hr
    have hr' : (r : Int) < cnt := hr
    rw [d2]
    show ([] ++ List.replicate cnt.toNat (0 : Int))[0 + r]? = _
    rw [List.nil_append, List.getElem?_replicate, if_pos (by omega)]
    rfl
  · intro fr rest h
    cases h
    exact fun ⟨_, _, h⟩ => nomatch h

/-! ### the simulation along the whole reference execution -/

theorem sim_iter : ∀ n,
    ((iter src n (initial src)).status = .running →
      ∃ vm, SS (VM.mk' p) vm ∧ Match V c R (iter src n (initial src)) vm) ∧
    ((iter src n (initial src)).status = .halted →
      ∃ vm, SS (VM.mk' p) vm ∧ Final (p := p) (iter src n (initial src)) vm) := by
  intro n
  induction n with
  | zero =>
    refine ⟨fun _ => init_match hc hV, fun h => ?_⟩
    cases h
  | succ n ih =>
    have e : iter src (n + 1) (initial src) = Sem.step src (iter src n (initial src)) := rfl
    rw [e]
    by_cases hr : (iter src n (initial src)).status = .running
    · obtain ⟨vm, s0, hm⟩ := ih.1 hr
      have hres := sim_step hc hV hm
      refine ⟨fun h => ?_, fun h => ?_⟩
      · cases hres with
        | run vm' _ hs hm' =>
          refine ⟨vm', ?_, hm'⟩
          rcases hs with hs | ⟨rfl, _⟩
          · exact s0.trans hs.ss
          · exact s0
        | halt vm' hh _ _ => rw [hh] at h; cases h
      · cases hres with
        | run vm' hh _ _ => rw [hh] at h; cases h
        | halt vm' _ hs hf => exact ⟨vm', s0.trans hs, hf⟩
    · rw [step_fixed src _ hr]
      exact ⟨fun h => absurd h hr, ih.2⟩

/-- a halting reference execution: the VM reaches `HALT` with agreeing variables -/
theorem halts_sim {n : Nat} (hh : (iter src n (initial src)).status = .halted) :
    ∃ m vm, runFrom (VM.mk' p) m = .ok vm ∧ vm.isDone = .ok true ∧
      StacksAgree' p vm.data (iter src n (initial src)).stack vm.stack := by
  obtain ⟨vm, ⟨k, hs⟩, hd, hag⟩ := (sim_iter hc hV n).2 hh
  exact ⟨k, vm, hs.run.1, hd, hag⟩

/-- from a matched state of a diverging execution the VM eventually executes an instruction -/
theorem advance (hd : ∀ n, (iter src n (initial src)).status = .running) :
    ∀ (m n : Nat) (vm : VM), cmeasure (iter src n (initial src)) = m →
      Match V c R (iter src n (initial src)) vm →
      ∃ n' vm', SP vm vm' ∧ Match V c R (iter src n' (initial src)) vm' := by
  intro m
  induction m using Nat.strongRecOn with
  | _ m ih =>
    intro n vm hm hmatch
    have hres := sim_step hc hV hmatch
    have e : Sem.step src (iter src n (initial src)) = iter src (n + 1) (initial src) := rfl
    rw [e] at hres
    cases hres with
    | run vm' _ hs hm' =>
      rcases hs with hs | ⟨rfl, hlt⟩
      · exact ⟨n + 1, vm', hs, hm'⟩
      · exact ih _ (by rw [← hm]; exact hlt) (n + 1) vm' rfl hm'
    | halt vm' hh _ _ => rw [hd (n + 1)] at hh; cases hh

theorem diverges_far (hd : ∀ n, (iter src n (initial src)).status = .running) :
    ∀ N : Nat, ∃ n vm k, N ≤ k ∧ Steps (VM.mk' p) k vm ∧ Match V c R (iter src n (initial src)) vm := by
  intro N
  induction N with
  | zero =>
    obtain ⟨vm, ⟨k, hs⟩, hm⟩ := init_match hc hV
    exact ⟨0, vm, k, Nat.zero_le _, hs, hm⟩
  | succ N ih =>
    obtain ⟨n, vm, k, hk, hs, hm⟩ := ih
    obtain ⟨n', vm', ⟨j, hs'⟩, hm'⟩ := advance hc hV hd _ n vm rfl hm
    exact ⟨n', vm', k + (j + 1), by omega, hs.trans hs', hm'⟩

theorem diverges_sim (hd : ∀ n, (iter src n (initial src)).status = .running) (m : Nat) :
    ∃ vt, runFrom (VM.mk' p) m = .ok vt ∧ vt.isDone = .ok false := by
  obtain ⟨n, vm, k, hk, hs, _⟩ := diverges_far hc hV hd (m + 1)
  exact hs.run.2 m (by omega)

end

end Sim
end Theo
