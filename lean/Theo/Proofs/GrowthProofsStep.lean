/-
  Growth of the token stream under macro rewriting (the growth clause of C11), part 2:
  the fillers of a detection fit into the matched range; one step; the pass loop.
-/
import Theo.Proofs.GrowthProofs

namespace Theo

/-! ### the fillers fit into the matched range -/

/-- a detection of `mkDetector m`: the matched range lies inside the stream, and the slot fillers
    (all the parts of the split, in fact) add up to exactly the matched length.  From the
    C09 semantic link `DetectorProofs.match_derives` (split.flatten = matched range). -/
theorem detect_fillers_fit (m : MacroDef) (inp : List Token) (r : Response)
    (h : detect (mkDetector m) inp = some r) :
    r.location + r.length ≤ inp.length ∧ totalLen r.matched = r.length := by
  obtain ⟨hloc, ⟨a, ha, _, hlen, hm⟩, _⟩ := detect_leftmost (mkDetector m) inp r h
  obtain ⟨_, _, _, _, hflat, hle, _⟩ := DetectorProofs.match_derives m (inp.drop r.location) a ha
  rw [List.length_drop] at hle
  refine ⟨by omega, ?_⟩
  have := congrArg List.length hflat
  rw [List.length_take, List.length_drop, ← totalLen_eq_flatten] at this
  rw [hm, hlen, this]
  omega

/-! ### one step -/

theorem splice_length (inp rep : List Token) (loc len : Nat) (h : loc + len ≤ inp.length) :
    (inp.take loc ++ rep ++ inp.drop (loc + len)).length + len = inp.length + rep.length := by
  simp only [List.length_append, List.length_take, List.length_drop]
  omega

/-- exact accounting of a step taken by a detector `mkDetector m`: the matched range is removed,
    the replacement is inserted -/
theorem step_length (bs : List (List Detector)) (inp : List Token) (p : Nat) (m : MacroDef)
    (r : Response) (out : List Token) (h : applyStep bs inp p = some (mkDetector m, r, out)) :
    out.length + r.length = inp.length + (replacement m r p).length ∧
    r.length ≤ inp.length ∧ totalLen r.matched = r.length := by
  obtain ⟨_, _, _, _, _, _, hdet, hout, _⟩ := applyStep_some bs inp p _ r out h
  obtain ⟨hfit, htot⟩ := detect_fillers_fit m inp r hdet
  rw [hout]
  exact ⟨splice_length inp _ r.location r.length hfit, by omega, htot⟩

/-- a step of a macro with a linear body grows the stream by at most the body length -/
theorem step_growth_linear (bs : List (List Detector)) (inp : List Token) (p : Nat) (m : MacroDef)
    (r : Response) (out : List Token) (h : applyStep bs inp p = some (mkDetector m, r, out))
    (hl : m.linearBody) : out.length ≤ inp.length + m.body.length := by
  obtain ⟨h1, _, h3⟩ := step_length bs inp p m r out h
  have h4 := replacement_length_linear m r p hl
  omega

/-! ### the pass loop -/

/-- if every step grows the stream by at most `B`, the loop grows it by at most `B` per rewrite -/
theorem passLoop_growth (bs : List (List Detector)) (B : Nat)
    (hstep : ∀ inp p d r out, applyStep bs inp p = some (d, r, out) → out.length ≤ inp.length + B) :
    ∀ (left pass : Nat) (inp : List Token) (n : Nat),
      (passLoop bs left pass inp n).1.length + n * B ≤
        inp.length + (passLoop bs left pass inp n).2.1 * B := by
  intro left
  induction left with
  | zero => intro pass inp n; simp [passLoop]
  | succ left ih =>
    intro pass inp n
    rw [passLoop_succ]
    cases h : applyStep bs inp pass with
    | none => simp
    | some x =>
      obtain ⟨d, r, inp'⟩ := x
      have h1 := hstep inp pass d r inp' h
      have h2 := ih (pass + 1) inp' (n + 1)
      simp only
      rw [Nat.succ_mul] at h2
      omega

/-- the detectors `applyMacros` works with come from the definitions -/
theorem step_detector (defs : List MacroDef) (inp : List Token) (p : Nat)
    (d : Detector) (r : Response) (out : List Token)
    (h : applyStep (bins ((defs.map mkDetector).filter (·.usable))) inp p = some (d, r, out)) :
    ∃ m ∈ defs, d = mkDetector m ∧ (mkDetector m).usable = true := by
  obtain ⟨pre, b, post, hbs, _, hdb, _⟩ := applyStep_some _ _ _ _ _ _ h
  have hb : b ∈ bins ((defs.map mkDetector).filter (·.usable)) := by rw [hbs]; simp
  have hd := mem_bins_mem hb hdb
  rw [List.mem_filter, List.mem_map] at hd
  obtain ⟨⟨m, hm, rfl⟩, hu⟩ := hd
  exact ⟨m, hm, rfl, hu⟩

/-- growth of `applyMacros`, relative to a bound `B` on the body lengths of the usable linear
    definitions -/
theorem applyMacros_growth (inp : List Token) (defs : List MacroDef) (passes : Nat) (B : Nat)
    (h : ∀ m ∈ defs, (mkDetector m).usable = true → m.linearBody ∧ m.body.length ≤ B) :
    (applyMacros inp defs passes).toks.length ≤
      inp.length + (applyMacros inp defs passes).rewrites * B := by
  cases passes with
  | zero => exact Nat.le_add_right _ _
  | succ k =>
    rw [applyMacros_succ_toks, applyMacros_succ_rewrites]
    have := passLoop_growth (bins ((defs.map mkDetector).filter (·.usable))) B ?_ (k + 1) 0 inp 0
    · omega
    · intro inp p d r out hs
      obtain ⟨m, hm, rfl, hu⟩ := step_detector defs inp p d r out hs
      obtain ⟨hl, hB⟩ := h m hm hu
      have := step_growth_linear _ inp p m r out hs hl
      omega

end Theo
