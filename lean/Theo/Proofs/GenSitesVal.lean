/-
  C07 for the generator model, part 2: values.  A value whose nodes lie on the current line (or in
  the hidden standard file) is generated without any site: the code grows by real instructions
  only, the line table and the file context are untouched (`NoSite`).
-/
import Theo.Proofs.GenSitesBase

set_option linter.unusedSimpArgs false
set_option linter.unusedVariables false

namespace Theo
namespace GenSites
open GS Sem Static GenShape Layout

structure NoSite (gs gs' : GS) : Prop where
  code : ∃ t, gs'.code = gs.code ++ t ∧ ∀ i ∈ t, i ≠ Instr.potBreak
  lineInfo : gs'.lineInfo = gs.lineInfo
  fsName : gs'.fsName = gs.fsName
  fsLine : gs'.fsLine = gs.fsLine

theorem NoSite.refl (gs : GS) : NoSite gs gs := ⟨⟨[], by simp, fun _ h => by cases h⟩, rfl, rfl, rfl⟩

theorem NoSite.trans {a b c : GS} (h1 : NoSite a b) (h2 : NoSite b c) : NoSite a c := by
  obtain ⟨t1, e1, c1⟩ := h1.code
  obtain ⟨t2, e2, c2⟩ := h2.code
  refine ⟨⟨t1 ++ t2, by rw [e2, e1, List.append_assoc], ?_⟩, h2.lineInfo.trans h1.lineInfo,
    h2.fsName.trans h1.fsName, h2.fsLine.trans h1.fsLine⟩
  intro i hi
  rcases List.mem_append.1 hi with h | h
  · exact c1 i h
  · exact c2 i h

theorem NoSite.of_same {a b : GS} (h : Same a b) (hl : b.fsLine = a.fsLine) : NoSite a b :=
  ⟨⟨[], by rw [h.1]; simp, fun _ h => by cases h⟩, h.2.1, h.2.2.2, hl⟩

theorem nosite_emit (gs : GS) {i : Instr} (h : i ≠ Instr.potBreak) : NoSite gs (gs.emit i) :=
  ⟨⟨[i], rfl, fun x hx => by rw [List.mem_singleton.1 hx]; exact h⟩, rfl, rfl, rfl⟩

theorem nosite_emitBackpatched (gs : GS) {i : Instr} (h : i ≠ Instr.potBreak) : NoSite gs (gs.emitBackpatched i) :=
  ⟨⟨[i], rfl, fun x hx => by rw [List.mem_singleton.1 hx]; exact h⟩, rfl, rfl, rfl⟩

theorem nosite_err (gs : GS) (k : Nat) : NoSite gs (gs.err k) := NoSite.of_same (same_err _ _) rfl
theorem nosite_setTop (gs : GS) (f : FGS) : NoSite gs (gs.setTop f) := NoSite.of_same (same_setTop _ _) rfl
theorem nosite_releaseTemporary (gs : GS) (i : Int) : NoSite gs (gs.releaseTemporary i) :=
  NoSite.of_same (same_releaseTemporary _ _) rfl
theorem nosite_setLabel (gs : GS) (l : Nat) (p : Int) : NoSite gs (gs.setLabel l p) := NoSite.of_same (same_setLabel _ _ _) rfl
theorem nosite_createLabel (gs : GS) : NoSite gs gs.createLabel.1 := NoSite.of_same (same_createLabel _) rfl

theorem nosite_fetchTemporary (gs : GS) : NoSite gs gs.fetchTemporary.1 := by
  refine NoSite.of_same (same_fetchTemporary _) ?_
  unfold fetchTemporary
  simp only
  split <;> rfl

theorem nosite_fetchVar (gs : GS) (n : Bytes) : NoSite gs (gs.fetchVar n).1 := by
  refine NoSite.of_same (same_fetchVar _ _) ?_
  unfold fetchVar
  simp only
  split <;> rfl

theorem nosite_markLabel (gs : GS) (n : Bytes) : NoSite gs (gs.markLabel n).1 := by
  refine NoSite.of_same (same_markLabel _ _) ?_
  unfold markLabel
  split <;> rfl

theorem nosite_genStrToInt (gs : GS) (tok : Bytes) : NoSite gs (genStrToInt gs tok).1 := by
  unfold genStrToInt
  simp only
  split
  · exact nosite_err _ _
  · exact NoSite.refl _

theorem nosite_argFold : ∀ (l : List (Int × Nat)) (g : GS),
    NoSite g (l.foldl (fun g a => (g.emit (.arg a.2 a.1)).releaseTemporary a.1) g) := by
  intro l
  induction l with
  | nil => intro g; exact NoSite.refl _
  | cons a as ih =>
    intro g
    simp only [List.foldl_cons]
    exact ((nosite_emit g (by intro h; cases h)).trans (nosite_releaseTemporary _ _)).trans (ih _)

theorem nosite_callTail (gs : GS) (al : List Int) (l r : Node) (tgt : Int) : NoSite gs (callTail gs al l r tgt) := by
  unfold callTail
  dsimp only
  split
  · split
    · exact nosite_emit _ (by intro h; cases h)
    · exact nosite_emit _ (by intro h; cases h)
  · split
    · exact nosite_err _ _
    · split
      · exact nosite_err _ _
      · exact ((nosite_emit gs (by intro h; cases h)).trans (nosite_argFold _ _)).trans (nosite_emit _ (by intro h; cases h))

/-- a node on the current line (or in the standard file) does not move the generator -/
theorem advanceLine_onLine (gs : GS) (line : Int) (file : Bytes) (h : onLine gs.fsName gs.fsLine file line = true) :
    gs.advanceLine line file = gs := by
  unfold onLine isStd at h
  simp only [Bool.or_eq_true, Bool.and_eq_true, decide_eq_true_eq] at h
  rcases h with h | ⟨h1, h2⟩
  · exact advanceLine_std gs line file h
  · exact advanceLine_same gs line file h1 h2

theorem valLay_mk (cf : Bytes) (cl : Int) (args : Bool) (t : Nat) (tok f : Bytes) (ln : Int) (l r : Node) :
    valLay cf cl args (.mk t tok f ln l r) =
      if args ∧ t = NodeT.SPLIT then valLay cf cl true l && valLay cf cl true r
      else onLine cf cl f ln && (if t = NodeT.CALL then valLay cf cl true r else true) := by
  rw [valLay]

theorem valLay_nonsplit (cf : Bytes) (cl : Int) (args : Bool) {t : Nat} (tok f : Bytes) (ln : Int) (l r : Node)
    (ht : t ≠ NodeT.SPLIT) :
    valLay cf cl args (.mk t tok f ln l r) = valLay cf cl false (.mk t tok f ln l r) := by
  simp only [valLay_mk, ht, and_false, if_false, Bool.false_eq_true, false_and]

theorem nosite_values : ∀ f : Nat,
    (∀ gs n tgt, valLay gs.fsName gs.fsLine false n = true → NoSite gs (dispatchValue f gs n tgt)) ∧
    (∀ gs n acc, valLay gs.fsName gs.fsLine true n = true → NoSite gs (dispatchCallArgs f gs n acc).1) := by
  intro f
  induction f with
  | zero =>
    exact ⟨fun gs n tgt _ => by rw [dispatchValue_zero]; exact NoSite.refl _,
           fun gs n acc _ => by rw [dispatchCallArgs_zero]; exact NoSite.refl _⟩
  | succ f ih =>
    refine ⟨?_, ?_⟩
    · intro gs n tgt hn
      cases n with
      | nil => rw [dispatchValue_nil]; exact NoSite.refl _
      | mk t tok file line l r =>
        rw [dispatchValue_succ]
        rw [valLay_mk, if_neg (fun h => by cases h.1), Bool.and_eq_true] at hn
        rw [advanceLine_onLine gs line file hn.1]
        by_cases h1 : t = NodeT.NAME
        · rw [if_pos h1]
          exact (nosite_fetchVar gs tok).trans (nosite_emit _ (by intro h; cases h))
        rw [if_neg h1]
        by_cases h2 : t = NodeT.NUMBER
        · rw [if_pos h2]
          exact (nosite_genStrToInt gs tok).trans (nosite_emit _ (by intro h; cases h))
        rw [if_neg h2]
        by_cases h3 : t = NodeT.CALL
        · rw [if_pos h3]
          have hr := hn.2
          rw [if_pos h3] at hr
          exact (ih.2 gs r [] hr).trans (nosite_callTail _ _ _ _ _)
        · rw [if_neg h3]
          exact nosite_err _ _
    · intro gs n acc hn
      cases n with
      | nil => rw [dispatchCallArgs_nil]; exact NoSite.refl _
      | mk t tok file line l r =>
        rw [dispatchCallArgs_succ]
        by_cases h1 : t = NodeT.SPLIT
        · rw [if_pos h1]
          rw [valLay_mk, if_pos ⟨rfl, h1⟩, Bool.and_eq_true] at hn
          have n1 := ih.2 gs l acc hn.1
          have n2 := ih.2 (dispatchCallArgs f gs l acc).1 r (dispatchCallArgs f gs l acc).2
            (by rw [n1.fsName, n1.fsLine]; exact hn.2)
          exact n1.trans n2
        · rw [if_neg h1]
          dsimp only
          have n0 := nosite_fetchTemporary gs
          rw [valLay_nonsplit _ _ _ _ _ _ _ _ h1] at hn
          exact n0.trans (ih.1 gs.fetchTemporary.1 _ gs.fetchTemporary.2 (by rw [n0.fsName, n0.fsLine]; exact hn))

theorem nosite_value (f : Nat) (gs : GS) (n : Node) (tgt : Int) (h : valLay gs.fsName gs.fsLine false n = true) :
    NoSite gs (dispatchValue f gs n tgt) := (nosite_values f).1 gs n tgt h

/-- a NAME node on the current line: exactly one instruction -/
theorem name_code (f : Nat) (gs : GS) (tok file : Bytes) (line : Int) (l r : Node) (tgt : Int)
    (h : onLine gs.fsName gs.fsLine file line = true) :
    ∃ i, i ≠ Instr.potBreak ∧ (dispatchValue (f+1) gs (.mk NodeT.NAME tok file line l r) tgt).code = gs.code ++ [i] := by
  rw [dispatchValue_name, advanceLine_onLine gs line file h]
  refine ⟨Instr.add tgt (gs.fetchVar tok).2 0, (by intro h; cases h), ?_⟩
  rw [emit_code, (fetchVar_spec (fun _ => True) gs tok trivial).code]

end GenSites
end Theo
