/-
  C03 for the generator, part 6: a program definition extends the layout (`TopCore`) by one
  finished routine; the definitions of a whole tree of parser shape, followed by the main body.
-/
import Theo.Proofs.GenWFDispatch
import Theo.Proofs.GenWFTop

namespace Theo
namespace GenWF
open GS Static

/-- the layout invariant on generator states, between top-level nodes -/
def TopInv (gs : GS) (rts : List Rt) : Prop :=
  TopCore gs.code gs.labels gs.todo gs.stackMaps rts ∧
  (∀ e ∈ gs.funcAddrs, Callee rts rts.length e.2) ∧ gs.top.marks = []

/-! ### the primitives around a definition -/

theorem emit_stackMaps' (gs : GS) (i : Instr) : (gs.emit i).stackMaps = gs.stackMaps := rfl
theorem setLabel_stackMaps' (gs : GS) (l : Nat) (p : Int) : (gs.setLabel l p).stackMaps = gs.stackMaps := rfl

theorem removeTopPotBreak_shape (gs : GS) :
    (gs.removeTopPotBreak.code = gs.code ∨ gs.code = gs.removeTopPotBreak.code ++ [Instr.potBreak]) ∧
    gs.removeTopPotBreak.labels = gs.labels ∧ gs.removeTopPotBreak.todo = gs.todo ∧
    gs.removeTopPotBreak.symbols = gs.symbols ∧ gs.removeTopPotBreak.stackMaps = gs.stackMaps ∧
    gs.removeTopPotBreak.funcAddrs = gs.funcAddrs := by
  unfold removeTopPotBreak
  split
  · rename_i h
    have hl : gs.code.getLast? = some Instr.potBreak := by simpa [lastIsSite] using h
    obtain ⟨ys, hys⟩ := List.getLast?_eq_some_iff.1 hl
    have hd : gs.code.dropLast = ys := by rw [hys, List.dropLast_concat]
    dsimp only
    split
    · exact ⟨Or.inr (by rw [hd]; exact hys), rfl, rfl, rfl, rfl, rfl⟩
    · exact ⟨Or.inr (by rw [hd]; exact hys), rfl, rfl, rfl, rfl, rfl⟩
  · exact ⟨Or.inl rfl, rfl, rfl, rfl, rfl, rfl⟩

theorem findReg_shift : ∀ (regs : List VReg) (n : Bytes) (k : Nat),
    (findReg regs n k).isSome = (findReg regs n 0).isSome
  | [], _, _ => rfl
  | r :: rs, n, k => by
    unfold findReg
    split
    · rfl
    · rw [findReg_shift rs n (k + 1), findReg_shift rs n (0 + 1)]

theorem args_spec : ∀ (f : Nat) (gs : GS) (n : Node),
    (dispatchArgs f gs n).code = gs.code ∧ (dispatchArgs f gs n).todo = gs.todo ∧
    (dispatchArgs f gs n).stackMaps = gs.stackMaps ∧
    ((dispatchArgs f gs n).errors = [] → gs.top.argnum ≤ gs.top.regs.length →
      (dispatchArgs f gs n).top.argnum ≤ (dispatchArgs f gs n).top.regs.length) := by
  intro f
  induction f with
  | zero => intro gs n; rw [dispatchArgs_zero]; exact ⟨rfl, rfl, rfl, fun _ h => h⟩
  | succ f ih =>
    intro gs n
    cases n with
    | nil => rw [dispatchArgs_nil]; exact ⟨rfl, rfl, rfl, fun _ h => h⟩
    | mk t tok file line l r =>
      rw [dispatchArgs_succ]
      split
      · obtain ⟨a1, a2, a3, a4⟩ := ih gs l
        obtain ⟨b1, b2, b3, b4⟩ := ih (dispatchArgs f gs l) r
        refine ⟨b1.trans a1, b2.trans a2, b3.trans a3, ?_⟩
        intro he h0
        exact b4 he (a4 ((argsQuiet_args f _ r).errs he) h0)
      · dsimp only
        by_cases hsome : (findReg gs.top.regs tok 0).isSome = true
        · rw [if_pos hsome]
          obtain ⟨r1, _⟩ := fetchVar_spec (bumpArg (gs.err GErrT.INTERNAL_ERROR)) tok
          refine ⟨r1.code, r1.todo, r1.sm, ?_⟩
          intro he
          exfalso
          have : (bumpArg (gs.err GErrT.INTERNAL_ERROR)).errors = [] := by
            rw [← fetchVar_errors _ tok]; exact he
          exact err_ne_nil gs _ this
        · rw [if_neg hsome]
          obtain ⟨r1, _⟩ := fetchVar_spec (bumpArg gs) tok
          refine ⟨r1.code, r1.todo, r1.sm, ?_⟩
          intro _ h0
          have hnone : findReg (bumpArg gs).top.regs tok 0 = none := by
            have : (bumpArg gs).top.regs = gs.top.regs := rfl
            rw [this]
            cases hf : findReg gs.top.regs tok 0 with
            | none => rfl
            | some i => rw [hf] at hsome; exact absurd rfl hsome
          show ((bumpArg gs).fetchVar tok).1.top.argnum ≤ ((bumpArg gs).fetchVar tok).1.top.regs.length
          unfold fetchVar
          dsimp only
          rw [hnone]
          show gs.top.argnum + 1 ≤ (gs.top.regs ++ [_]).length
          simp
          exact h0

/-- the stack map `popSymbols` records -/
def popMap (gs : GS) : StackMap :=
  ⟨gs.top.name, (gs.top.regs.zipIdx.filter (fun p => !p.1.isTemp)).map (fun p => ((p.2 : Int), p.1.name))⟩

theorem popMap_regs (gs : GS) : ∀ e ∈ (popMap gs).map, RegIn e.1 gs.top.regs.length := by
  intro e he
  unfold popMap at he
  obtain ⟨p, hp, rfl⟩ := List.mem_map.1 he
  have hp' := (List.mem_filter.1 hp).1
  have : (p.1, p.2) ∈ gs.top.regs.zipIdx := hp'
  exact regIn_nat (List.mem_zipIdx' this).1

theorem popSymbols_fields (gs : GS) (addr : Int) :
    (gs.popSymbols addr).code = gs.code ∧ (gs.popSymbols addr).labels = gs.labels ∧
    (gs.popSymbols addr).todo = gs.todo ∧ (gs.popSymbols addr).symbols = gs.symbols.drop 1 ∧
    (gs.popSymbols addr).stackMaps = gs.stackMaps ++ [popMap gs] ∧
    (gs.popSymbols addr).funcAddrs =
      (gs.top.name, ⟨addr, ((gs.stackMaps.length + 1 : Nat) : Int) - 1, gs.top.argnum, gs.top.regs.length⟩) ::
        gs.funcAddrs.filter (fun e => e.1 ≠ gs.top.name) := by
  unfold popSymbols
  dsimp only
  obtain ⟨h1, h2, h3, h4, h5, h6, _⟩ := popFold_spec gs.top.marks gs
  refine ⟨h5, h1, h4, by rw [h3], ?_, ?_⟩
  · rw [h6]; rfl
  · rw [h6, h2]
    simp

/-! ### one definition -/

theorem prog_step (f : Nat) (gs0 : GS) (rts : List Rt) (tok file : Bytes) (line : Int) (l r : Node)
    (hs : stmtShape r = true) (h : TopInv gs0 rts)
    (he : (dispatchVoid (f + 1) gs0 (.mk NodeT.PROGRAM tok file line l r)).errors = []) :
    ∃ rt, TopInv (dispatchVoid (f + 1) gs0 (.mk NodeT.PROGRAM tok file line l r)) (rts ++ [rt]) ∧
      (dispatchVoid (f + 1) gs0 (.mk NodeT.PROGRAM tok file line l r)).code.getLast? ≠ some Instr.potBreak := by
  obtain ⟨hcore, hfa, hmarks⟩ := h
  rw [dispatchVoid_succ] at he ⊢
  dsimp only at he ⊢
  rw [if_neg (by decide), if_pos rfl] at he ⊢
  -- stage A: advanceLine
  obtain ⟨k, a1, a2, a3, a4, a5, a6⟩ := advanceLine_shape gs0 line file
  have coreA : TopCore (gs0.advanceLine line file).code gs0.labels gs0.todo gs0.stackMaps rts := by
    refine hcore.transport ?_ ?_ ?_ ?_
    · rw [a1]; have := (List.getElem?_eq_some_iff.1 hcore.head).1; simp; omega
    · intro pc h1 _; rw [a1, List.getElem?_append_left h1]
    · intro pc h1 h2
      rw [a1] at h2 ⊢
      rw [List.getElem?_append_right h1, List.getElem?_replicate, if_pos (by simp at h2; omega)]
    · intro pc h1 h2; rw [a1] at h1; simp at h1; omega
  generalize gs0.advanceLine line file = gsA at a1 a2 a3 a4 a5 a6 coreA he ⊢
  -- stage B: removeTopPotBreak
  obtain ⟨b1, b2, b3, b4, b5, b6⟩ := removeTopPotBreak_shape gsA
  have hpre : (progPre gsA l.left.tok).1 =
      ((gsA.removeTopPotBreak.createLabel.1.emitBackpatched (.jmp gsA.removeTopPotBreak.createLabel.2)).pushSymbols l.left.tok) := rfl
  have hafterdef : (progPre gsA l.left.tok).2 = gsA.removeTopPotBreak.labels.length := rfl
  have sp := progPre_spec gsA l.left.tok
  have coreB : TopCore gsA.removeTopPotBreak.code gs0.labels gs0.todo gs0.stackMaps rts := by
    rcases b1 with b1 | b1
    · rw [b1]; exact coreA
    · refine coreA.transport ?_ ?_ ?_ ?_
      · have h0 := coreA.head
        rw [b1] at h0
        apply Nat.lt_of_not_le
        intro hle
        have hnil : gsA.removeTopPotBreak.code = [] := List.eq_nil_of_length_eq_zero (by omega)
        rw [hnil] at h0
        simp at h0
      · intro pc _ h2; rw [b1, List.getElem?_append_left h2]
      · intro pc h1 h2; rw [b1] at h1; simp at h1; omega
      · intro pc h1 h2
        rw [b1] at h2 ⊢
        simp at h2
        have : pc = gsA.removeTopPotBreak.code.length := by omega
        subst this
        simp
  generalize hB : gsA.removeTopPotBreak = gsB at b2 b3 b4 b5 b6 hpre hafterdef coreB
  clear b1 coreA a1
  have hlabB : gsB.labels = gs0.labels := b2.trans a2
  have htodoB : gsB.todo = gs0.todo := b3.trans a3
  have hsymB : gsB.symbols = gs0.symbols := b4.trans a4
  have hsmB : gsB.stackMaps = gs0.stackMaps := b5.trans a5
  have hfaB : gsB.funcAddrs = gs0.funcAddrs := b6.trans a6
  rw [← hlabB, ← htodoB, ← hsmB] at coreB
  -- stage C: the jump and the new function
  have p_code : (progPre gsA l.left.tok).1.code = gsB.code ++ [Instr.jmp ((gsB.labels.length : Nat) : Int)] := by
    rw [hpre]; rfl
  have p_labels : (progPre gsA l.left.tok).1.labels = gsB.labels ++ [-1] := by rw [hpre]; rfl
  have p_todo : (progPre gsA l.left.tok).1.todo = gsB.todo ++ [gsB.code.length] := by
    rw [hpre, pushSymbols_todo, emitBackpatched_todo]; rfl
  have p_sm : (progPre gsA l.left.tok).1.stackMaps = gsB.stackMaps := by rw [hpre]; rfl
  have p_fa : (progPre gsA l.left.tok).1.funcAddrs = gsB.funcAddrs := by rw [hpre]; rfl
  have p_sym : (progPre gsA l.left.tok).1.symbols.drop 1 = gsB.symbols := by rw [hpre]; rfl
  have p_top := sp.top
  generalize (progPre gsA l.left.tok).1 = p1 at p_code p_labels p_todo p_sm p_fa p_sym p_top sp he ⊢
  generalize (progPre gsA l.left.tok).2 = after at hafterdef sp he ⊢
  clear hpre
  -- stage D: the parameters
  have aq := argsQuiet_args f p1 l.right.left
  obtain ⟨d1, d2, d3, d4⟩ := args_spec f p1 l.right.left
  generalize dispatchArgs f p1 l.right.left = g at aq d1 d2 d3 d4 he ⊢
  have hgm : g.top.marks = [] := by rw [aq.marks, p_top]
  have wg : MarksWF g := MarksWF.of_nil hgm
  -- errors
  have so := progPost_spec (dispatchVoid f g r) (outNameOf l.right.right) g.nextPos after
  obtain ⟨hb0, hallset⟩ := so.errs.1 he
  have hg0 : g.errors = [] := (step_void f g r).errs hb0
  have hargs : g.top.argnum ≤ g.top.regs.length := d4 hg0 (by rw [p_top]; exact Nat.le_refl _)
  -- stage E: the body
  have hstart : BInv (Callee rts rts.length) g g := by
    refine BInv.start wg hgm ?_ ?_
    · intro e hmem; rw [aq.funcAddrs, p_fa, hfaB] at hmem; exact hfa e hmem
    · rw [d1, p_code, List.getLast?_concat]; intro hx; cases hx
  obtain ⟨⟨seg, hb⟩, hbregs⟩ := bi_void _ g f g r hs hstart hb0
  have stp := step_void f g r
  have hacc : LabAcc (fun x => x < g.labels.length) (dispatchVoid f g r) :=
    stp.acc _ (fun _ x hx => Or.inr (Or.inl hx))
  generalize dispatchVoid f g r = b at hb hbregs stp hacc hb0 hallset so he ⊢
  have hset : ∀ x, g.labels.length ≤ x → x < b.labels.length → isSet b x := by
    intro x h1 h2
    rcases hacc hb0 x h2 with h3 | h3 | ⟨e, h3, h4⟩
    · exact h3
    · omega
    · rw [← h4]; exact hallset e h3
  -- stage F: the return
  clear so
  obtain ⟨r1, r2⟩ := fetchVar_spec b (outNameOf l.right.right)
  have qf := quiet_fetchVar b (outNameOf l.right.right)
  have hunf : progPost b (outNameOf l.right.right) g.nextPos after =
      (((b.fetchVar (outNameOf l.right.right)).1.emit (.ret (b.fetchVar (outNameOf l.right.right)).2)).popSymbols g.nextPos).setLabel after
        (((b.fetchVar (outNameOf l.right.right)).1.emit (.ret (b.fetchVar (outNameOf l.right.right)).2)).popSymbols g.nextPos).nextPos := rfl
  rw [hunf] at he ⊢
  clear hunf
  generalize (b.fetchVar (outNameOf l.right.right)).1 = fv1 at r1 r2 qf he ⊢
  generalize (b.fetchVar (outNameOf l.right.right)).2 = rv at r2 he ⊢
  obtain ⟨q1, q2, q3, q4, q5, q6⟩ := popSymbols_fields (fv1.emit (.ret rv)) g.nextPos
  generalize hps : (fv1.emit (.ret rv)).popSymbols g.nextPos = ps at q1 q2 q3 q4 q5 q6 he ⊢
  -- facts about lengths
  have glab : g.labels.length = gsB.labels.length + 1 := by rw [aq.labels, p_labels]; simp
  have gcode : g.code.length = gsB.code.length + 1 := by rw [d1, p_code]; simp
  have hafter : after = gsB.labels.length := hafterdef
  have hblab := hb.lablen
  have pscode : ps.code = gsB.code ++ [Instr.jmp ((gsB.labels.length : Nat) : Int)] ++ seg ++ [Instr.ret rv] := by
    rw [q1, emit_code, r1.code, hb.code, d1, p_code]
  have pslabels : ps.labels = b.labels := by rw [q2, emit_labels, r1.labels]
  have pstodo : ps.todo = b.todo := by rw [q3, emit_todo, r1.todo]
  have pssm : ps.stackMaps = gsB.stackMaps ++ [popMap (fv1.emit (.ret rv))] := by
    rw [q5, emit_stackMaps', r1.sm, hb.sm, d3, p_sm]
  have psnext : ps.nextPos = (((gsB.code.length + 1 + seg.length + 1 : Nat)) : Int) := by
    unfold nextPos; rw [pscode]; simp; omega
  refine ⟨⟨gsB.code.length + 1, gsB.code.length + 1 + seg.length, fv1.top.regs.length, gsB.labels.length + 1,
    (ps.setLabel after ps.nextPos).labels.length, rts.length⟩, ⟨?_, ?_, ?_⟩, ?_⟩
  · -- the layout
    have hlen' : (ps.setLabel after ps.nextPos).labels.length = b.labels.length := by
      rw [setLabel_labels, List.length_set, pslabels]
    have core := coreB.addRoutine seg rv fv1.top.regs.length (ps.setLabel after ps.nextPos).labels
      (ps.setLabel after ps.nextPos).todo (popMap (fv1.emit (.ret rv)))
      (by rw [hlen']; omega)
      (by
        intro x hx
        rw [setLabel_labels, List.getElem?_set_ne (by omega), pslabels, hb.labold x (by omega), aq.labels, p_labels,
          List.getElem?_append_left hx])
      (by
        rw [setLabel_labels, hafter, List.getElem?_set_self (by rw [pslabels]; omega), psnext])
      (by
        rw [hlen']
        have := hb.groups
        rw [glab] at this
        exact this.mono (fun _ hp => hp) r1.regs (Nat.le_refl _))
      (by
        intro x h1 h2
        rw [hlen'] at h2
        rw [setLabel_labels, List.getElem?_set_ne (by omega), pslabels]
        rcases hb.labnew x (by omega) h2 with h3 | ⟨k, k1, k2, k3⟩
        · exfalso
          have := hset x (by omega) h2
          unfold isSet at this
          rw [h3] at this
          exact this rfl
        · refine ⟨k, k1, ?_, k3⟩
          rw [k2, gcode])
      (by
        intro x hx
        rw [setLabel_todo, pstodo]
        exact hb.todoOld x (by rw [d2, p_todo]; exact List.mem_append_left _ hx))
      (by
        rw [setLabel_todo, pstodo]
        exact hb.todoOld _ (by rw [d2, p_todo]; simp))
      (by
        intro k i hk hj
        rw [setLabel_todo, pstodo]
        have := hb.todoNew k i hk hj
        rw [gcode] at this
        exact this)
      r2
      (by
        intro e hmem
        have := popMap_regs (fv1.emit (.ret rv)) e hmem
        rw [emit_top] at this
        exact this)
    rw [setLabel_code, setLabel_stackMaps', pscode, pssm]
    exact core
  · -- the program table
    intro e hmem
    rw [setLabel_funcAddrs, q6] at hmem
    rcases List.mem_cons.1 hmem with rfl | hmem
    · refine ⟨rts.length, ⟨gsB.code.length + 1, gsB.code.length + 1 + seg.length, fv1.top.regs.length,
        gsB.labels.length + 1, (ps.setLabel after ps.nextPos).labels.length, rts.length⟩, by simp, by simp, ?_, ?_, ?_, ?_⟩
      · show (((fv1.emit (.ret rv)).stackMaps.length + 1 : Nat) : Int) - 1 = _
        rw [emit_stackMaps', r1.sm, hb.sm, d3, p_sm, coreB.nsm]
        omega
      · show g.nextPos = _
        unfold nextPos
        rw [gcode]
      · rfl
      · show (fv1.emit (.ret rv)).top.argnum ≤ fv1.top.regs.length
        rw [emit_top, qf.argnum, stp.argnum]
        exact Nat.le_trans hargs (Nat.le_trans hbregs r1.regs)
    · have hmem' := (List.mem_filter.1 hmem).1
      rw [emit_funcAddrs, r1.fa, hb.fa, aq.funcAddrs, p_fa, hfaB] at hmem'
      exact (hfa e hmem').mono (by simp) (fun j x hx => getElem?_append_one _ _ _ _ hx)
  · -- back in the enclosing function
    have hsym : (ps.setLabel after ps.nextPos).symbols = gs0.symbols := by
      rw [setLabel_symbols, q4, emit_symbols, r1.outer, hb.outer, aq.outer, p_sym, hsymB]
    rw [top_congr hsym]
    exact hmarks
  · rw [setLabel_code, pscode, List.getLast?_concat]
    intro hx; cases hx

end GenWF
end Theo
