/-
  C01 budget, part 4: one step of the reference machine is simulated by the VM — with the number
  of instructions.  `sim_step_c` is `sim_step` (SimStep.lean) with the outcome `SP ∨ stutter`
  replaced by `SC S (cost cfg) vm vm'`: exactly `cost cfg` real instructions, each preceded by
  at most `S` breakpoint sites; `cost` is read off the configuration (`fcost`).  The case
  lemmas are those of SimStep.lean, composed from the counted executions of SimCountExec.lean.
-/
import Theo.Proofs.SimCountExec

set_option linter.unusedSimpArgs false
set_option linter.unusedSectionVars false

namespace Theo
namespace Sim
open Sem WF

/-! ### the number of real instructions of a step -/

/-- the number of real (non-site) instructions the VM executes for the next step of frame `fr`
    (for the end of a routine: the `RET`; the root's end executes nothing and halts) -/
def fcost (fr : Frame) : Nat :=
  match fr.ctrl with
  | .run =>
    match fr.focus with
    | .cons s _ =>
      match s with
      | .assign _ _ _ => 0
      | .mark _ _ => 0
      | .loop _ _ _ _ => 2          -- ADD ctr x 0; JMPC
      | .while_ _ _ _ => 2          -- ADD tmp x 0; JMPC
      | .goto _ _ => 1              -- JMP
      | .ifGoto _ _ _ _ => 4        -- ADD; CONST; TEST; JMPC
      | .stop _ => 0
    | .nil =>
      match fr.k with
      | .loop _ _ _ _ => 3          -- ADD ctr ctr -1; JMP; JMPC
      | .while_ _ _ _ _ => 3        -- JMP; ADD tmp x 0; JMPC
      | .done => 1                  -- RET
  | .eval v _ _ =>
    match v with
    | .call _ .nil => 2             -- PREPARE; EXEC
    | .call _ (.cons _ _) => 0
    | v => scost v                  -- ADD / CONST / ADD; CONST; ADD
  | .ret _ _ cs =>
    match cs with
    | [] => 0
    | c1 :: _ =>
      match c1.todo with
      | .nil => c1.done.length + 3  -- PREPARE; one ARG per argument; EXEC
      | .cons _ _ => 0
  | .wait _ _ => 0

def cost (cfg : Config) : Nat :=
  match cfg.stack with
  | fr :: _ => fcost fr
  | [] => 0

section
variable {src : Source} {p : Program}
variable (V : Valid src p) (c : Cert) (R : PcInfo)

/-- the outcome of simulating one step of the reference machine, with counts -/
inductive StepResC (S k : Nat) (vm : VM) (cfg' : Config) : Prop where
  | run (vm' : VM) : cfg'.status = .running → SC S k vm vm' → Match V c R cfg' vm' →
      StepResC S k vm cfg'
  | halt (vm' : VM) : cfg'.status = .halted → SA S vm vm' → Final (p := p) cfg' vm' →
      StepResC S k vm cfg'

variable {V c R}

theorem StepResC.cast {S k l : Nat} {vm : VM} {cfg' : Config} (h : StepResC V c R S k vm cfg')
    (e : k = l) : StepResC V c R S l vm cfg' := e ▸ h

/-! ### the cases of `Sem.step` -/

section cases
variable {S : Nat} (hS : SiteBound p.code S) (hc : CertOK p c R) (hV : V.OK)
variable {vm : VM} {r : Nat} {a : Act} {as' : List Act} {rest : List Frame} {ip : Nat}
  {env : Env} {ctrs : Ctrs} {k : Kont} {K : Nat}

include hS hc hV

theorem step_assign_c (T : TopCtx V c R vm r a as' rest) (ha : Anch p.code vm.ip ip)
    {x : Name} {v : Value} {pos : Pos} {ss : Stmts}
    (hfo : FrameOK vm.data a (V.ri r) env ctrs)
    (hat : FrameAt (V.env r) (V.G r) (Holds vm.data a)
      ⟨r, env, ctrs, .cons (.assign x v pos) ss, k, .run⟩ ip 0) :
    StepResC V c R S 0 vm
      (Sem.step src ⟨⟨r, env, ctrs, .cons (.assign x v pos) ss, k, .run⟩ :: rest, .running⟩) := by
  show StepResC V c R S 0 vm ⟨⟨r, env, ctrs, ss, k, .eval v x []⟩ :: rest, .running⟩
  simp only [FrameAt, SAt, SAt1] at hat
  obtain ⟨pcE, ⟨pc1, ⟨rx, hrx, hcv⟩, hss⟩, hk⟩ := hat
  refine StepResC.run vm rfl (SC.refl _ _) ?_
  refine T.finish T.good rfl (SameBelow.refl _ _) ha rfl hfo ?_ (fun ⟨_, _, h⟩ => nomatch h)
  simp only [FrameAt]
  exact ⟨[], rx, pc1, pc1, pcE, hcv, ⟨rfl, hrx, rfl⟩, hss, hk⟩

theorem step_mark_c (T : TopCtx V c R vm r a as' rest) (ha : Anch p.code vm.ip ip)
    {m : Name} {pos : Pos} {ss : Stmts}
    (hfo : FrameOK vm.data a (V.ri r) env ctrs)
    (hat : FrameAt (V.env r) (V.G r) (Holds vm.data a)
      ⟨r, env, ctrs, .cons (.mark m pos) ss, k, .run⟩ ip 0) :
    StepResC V c R S 0 vm
      (Sem.step src ⟨⟨r, env, ctrs, .cons (.mark m pos) ss, k, .run⟩ :: rest, .running⟩) := by
  show StepResC V c R S 0 vm ⟨⟨r, env, ctrs, ss, k, .run⟩ :: rest, .running⟩
  simp only [FrameAt, SAt, SAt1] at hat
  obtain ⟨pcE, ⟨pc1, rfl, hss⟩, hk⟩ := hat
  refine StepResC.run vm rfl (SC.refl _ _) ?_
  refine T.finish T.good rfl (SameBelow.refl _ _) ha rfl hfo ?_ (fun ⟨_, _, h⟩ => nomatch h)
  simp only [FrameAt]
  exact ⟨pcE, hss, hk⟩

theorem step_eval_simple_c (T : TopCtx V c R vm r a as' rest) (ha : Anch p.code vm.ip ip)
    {v : Value} {x : Name} {cs : List ECtx} {focus : Stmts} {n : Nat} (hv : SimpleVal env v n)
    (hfo : FrameOK vm.data a (V.ri r) env ctrs)
    (hat : FrameAt (V.env r) (V.G r) (Holds vm.data a)
      ⟨r, env, ctrs, focus, k, .eval v x cs⟩ ip 0) :
    StepResC V c R S (scost v) vm
      ⟨⟨r, env, ctrs, focus, k, .ret n x cs⟩ :: rest, .running⟩ := by
  simp only [FrameAt] at hat
  obtain ⟨live, tgt, pc', pcS, pcE, hcv, hctx, hss, hk⟩ := hat
  obtain ⟨vm', ts, s1, g1, ip1, p1, hh, hts⟩ :=
    eval_simple_c hS hc (e := V.env r) rfl T.good T.stk ha hfo hcv hv
  refine StepResC.run vm' rfl s1 ?_
  have hctx' : CtxAt (V.env r) (Holds vm'.data a) cs x live tgt pc' pcS := by
    refine hctx.pres (fun t ht n' hn' => p1.other t n' ?_ hn')
    intro hm
    rcases List.mem_cons.1 hm with rfl | hm
    · exact hctx.not_live ht
    · exact live_not_temp ht hts hm
  refine T.finish g1 p1.stack p1.below (by rw [ip1]; exact Anch.self _ _) rfl ?_ ?_
    (fun ⟨_, _, h⟩ => nomatch h)
  · cases cs with
    | nil =>
      simp only [CtxAt] at hctx
      obtain ⟨_, hrx, _⟩ := hctx
      show FrameOK vm'.data a (V.ri r) (env.set x n) ctrs
      refine hfo.write_named (hV.nodup r T.rle) hrx hh (fun r' w hn hne hw => p1.other r' w ?_ hw)
      intro hm
      rcases List.mem_cons.1 hm with rfl | hm
      · exact hne rfl
      · exact named_not_temp (e := V.env r) hn hts hm
    | cons c1 cs' =>
      simp only [CtxAt] at hctx
      obtain ⟨live', acc, temps, pc1, tgt', pc'', _, htmp, _⟩ := hctx
      show FrameOK vm'.data a (V.ri r) env ctrs
      refine hfo.pres (fun r' w hn hw => p1.other r' w ?_ hw)
      intro hm
      rcases List.mem_cons.1 hm with rfl | hm
      · have := (tempOK_iff.1 htmp).1
        rw [show (V.env r).me.isNamed r' = (V.ri r).isNamed r' from rfl, hn] at this
        cases this
      · exact named_not_temp (e := V.env r) hn hts hm
  · simp only [FrameAt]
    exact ⟨live, tgt, pcS, pcE, hh, hctx', hss, hk⟩

theorem step_eval_call_cons_c (T : TopCtx V c R vm r a as' rest) (ha : Anch p.code vm.ip ip)
    {f : Name} {a0 : Value} {as0 : Values} {x : Name} {cs : List ECtx} {focus : Stmts}
    (hfo : FrameOK vm.data a (V.ri r) env ctrs)
    (hat : FrameAt (V.env r) (V.G r) (Holds vm.data a)
      ⟨r, env, ctrs, focus, k, .eval (.call f (.cons a0 as0)) x cs⟩ ip 0) :
    StepResC V c R S 0 vm
      ⟨⟨r, env, ctrs, focus, k, .eval a0 x (⟨f, [], as0⟩ :: cs)⟩ :: rest, .running⟩ := by
  simp only [FrameAt] at hat
  obtain ⟨live, tgt, pc', pcS, pcE, hcv, hctx, hss, hk⟩ := hat
  obtain ⟨temps, pc1, hargs, htail⟩ := checkValue_call hcv
  obtain ⟨t, pca, hcv0, htmp, hargs'⟩ := checkArgs_cons hargs
  refine StepResC.run vm rfl (SC.refl _ _) ?_
  refine T.finish T.good rfl (SameBelow.refl _ _) ha rfl hfo ?_ (fun ⟨_, _, h⟩ => nomatch h)
  simp only [FrameAt]
  refine ⟨live ++ [], t, pca, pcS, pcE, hcv0, ?_, hss, hk⟩
  simp only [CtxAt]
  exact ⟨live, [], temps, pc1, tgt, pc', rfl, htmp, HoldAll.nil _, hargs', htail, hctx⟩

theorem step_ret_nil_c (T : TopCtx V c R vm r a as' rest) (ha : Anch p.code vm.ip ip)
    {n : Nat} {x : Name} {focus : Stmts}
    (hfo : FrameOK vm.data a (V.ri r) (env.set x n) ctrs)
    (hat : FrameAt (V.env r) (V.G r) (Holds vm.data a)
      ⟨r, env, ctrs, focus, k, .ret n x []⟩ ip 0) :
    StepResC V c R S 0 vm
      ⟨⟨r, env.set x n, ctrs, focus, k, .run⟩ :: rest, .running⟩ := by
  simp only [FrameAt, CtxAt] at hat
  obtain ⟨live, tgt, pcS, pcE, hh, ⟨_, hrx, rfl⟩, hss, hk⟩ := hat
  refine StepResC.run vm rfl (SC.refl _ _) ?_
  refine T.finish T.good rfl (SameBelow.refl _ _) ha rfl hfo ?_ (fun ⟨_, _, h⟩ => nomatch h)
  simp only [FrameAt]
  exact ⟨pcE, hss, hk⟩

theorem step_ret_cons_more_c (T : TopCtx V c R vm r a as' rest) (ha : Anch p.code vm.ip ip)
    {n : Nat} {x : Name} {f : Name} {done : List Nat} {a0 : Value} {as0 : Values}
    {cs' : List ECtx} {focus : Stmts}
    (hfo : FrameOK vm.data a (V.ri r) env ctrs)
    (hat : FrameAt (V.env r) (V.G r) (Holds vm.data a)
      ⟨r, env, ctrs, focus, k, .ret n x (⟨f, done, .cons a0 as0⟩ :: cs')⟩ ip 0) :
    StepResC V c R S 0 vm
      ⟨⟨r, env, ctrs, focus, k, .eval a0 x (⟨f, done ++ [n], as0⟩ :: cs')⟩ :: rest, .running⟩ := by
  simp only [FrameAt, CtxAt] at hat
  obtain ⟨live, tgt, pcS, pcE, hh, ⟨live', acc, temps, pc1, tgt', pc', rfl, htmp, hacc, hargs, htail,
    hctx⟩, hss, hk⟩ := hat
  obtain ⟨t, pca, hcv0, htmp0, hargs'⟩ := checkArgs_cons hargs
  refine StepResC.run vm rfl (SC.refl _ _) ?_
  refine T.finish T.good rfl (SameBelow.refl _ _) ha rfl hfo ?_ (fun ⟨_, _, h⟩ => nomatch h)
  simp only [FrameAt]
  refine ⟨live' ++ (acc ++ [tgt]), t, pca, pcS, pcE, hcv0, ?_, hss, hk⟩
  simp only [CtxAt]
  exact ⟨live', acc ++ [tgt], temps, pc1, tgt', pc', rfl, htmp0, hacc.snoc hh, hargs', htail, hctx⟩

theorem push_call_c (T : TopCtx V c R vm r a as' rest) {pc1 : Nat} (ha : Anch p.code vm.ip pc1)
    {f : Name} {live temps : List Int} {tgt : Int} {pc' : Nat}
    (hct : CallTail (V.env r) f live temps pc1 tgt pc') {vals : List Nat}
    (hh : HoldAll (Holds vm.data a) temps vals) {x : Name} {cs : List ECtx} {focus : Stmts}
    {pcS pcE : Nat} (hfo : FrameOK vm.data a (V.ri r) env ctrs)
    (hctx : CtxAt (V.env r) (Holds vm.data a) cs x live tgt pc' pcS)
    (hss : SAt (V.env r) (V.G r) focus pcS pcE) (hk : KAt (V.env r) (V.G r) k pcE (V.G r).pc) :
    StepResC V c R S (vals.length + 2) vm (doCall src ⟨r, env, ctrs, focus, k, .wait x cs⟩ rest f vals) := by
  obtain ⟨j, pd, hlook, hjr, hpd, hlen, vm', callee, s1, g1, ip1, st1, hra, hrt, hdbg, hsb, hfoc⟩ :=
    do_call_c hS hc hV T.rle T.good T.stk ha hct hh
  have hjn : j < src.progs.length := Nat.lt_of_lt_of_le hjr T.rle
  have hin := T.good.top_in T.stk
  have hdc : doCall src ⟨r, env, ctrs, focus, k, .wait x cs⟩ rest f vals =
      ⟨⟨j, bindParams pd.params vals [], [], pd.body, .done, .run⟩ ::
        ⟨r, env, ctrs, focus, k, .wait x cs⟩ :: rest, .running⟩ := by
    unfold doCall
    simp only [hlook]
    rw [if_pos hlen]
  rw [hdc]
  refine StepResC.run vm' rfl (s1.cast rfl) ⟨g1, rfl, ⟨V.start j, by rw [ip1]; exact Anch.self _ _, ?_⟩, ?_⟩
  · rw [st1]
    show StackRel V vm'.data (_ :: _ :: rest) (callee :: a :: as') (V.start j) 0
    rw [stackRel_cons]
    refine ⟨⟨Nat.le_of_lt hjn, hdbg, hfoc, ?_⟩, ?_⟩
    · simp only [FrameAt]
      have := checkStmts_sat (V.env j) (V.G j) (bodyOf src j) _ _ (hV.chk j (Nat.le_of_lt hjn))
        (Sub.refl _)
      unfold bodyOf at this
      rw [hpd] at this
      exact ⟨(V.G j).pc, this, by simp only [KAt]⟩
    · show RestRel V vm'.data j callee (_ :: rest) (a :: as')
      unfold RestRel
      refine ⟨hjn, ⟨x, cs, rfl⟩, pc', hra, ?_⟩
      rw [stackRel_cons, hrt]
      refine ⟨⟨T.rle, T.dbg, hfo.below (by omega) hsb, ?_⟩,
        T.restrel.below T.tiles (hsb.mono (by omega))⟩
      simp only [FrameAt]
      exact ⟨live, pcS, pcE, hctx.mono (fun _ _ h => h.below (by omega) hsb), hss, hk⟩
  · intro fr rest' h
    cases h
    exact fun ⟨_, _, h⟩ => nomatch h

theorem step_eval_call_nil_c (T : TopCtx V c R vm r a as' rest) (ha : Anch p.code vm.ip ip)
    {f : Name} {x : Name} {cs : List ECtx} {focus : Stmts}
    (hfo : FrameOK vm.data a (V.ri r) env ctrs)
    (hat : FrameAt (V.env r) (V.G r) (Holds vm.data a)
      ⟨r, env, ctrs, focus, k, .eval (.call f .nil) x cs⟩ ip 0) :
    StepResC V c R S 2 vm (doCall src ⟨r, env, ctrs, focus, k, .wait x cs⟩ rest f []) := by
  simp only [FrameAt] at hat
  obtain ⟨live, tgt, pc', pcS, pcE, hcv, hctx, hss, hk⟩ := hat
  obtain ⟨temps, pc1, hargs, htail⟩ := checkValue_call hcv
  rw [checkArgs_nil] at hargs
  cases hargs
  exact push_call_c hS hc hV T ha htail (HoldAll.nil _) hfo hctx hss hk

theorem step_ret_cons_call_c (T : TopCtx V c R vm r a as' rest) (ha : Anch p.code vm.ip ip)
    {n : Nat} {x : Name} {f : Name} {done : List Nat} {cs' : List ECtx} {focus : Stmts}
    (hfo : FrameOK vm.data a (V.ri r) env ctrs)
    (hat : FrameAt (V.env r) (V.G r) (Holds vm.data a)
      ⟨r, env, ctrs, focus, k, .ret n x (⟨f, done, .nil⟩ :: cs')⟩ ip 0) :
    StepResC V c R S (done.length + 3) vm
      (doCall src ⟨r, env, ctrs, focus, k, .wait x cs'⟩ rest f (done ++ [n])) := by
  simp only [FrameAt, CtxAt] at hat
  obtain ⟨live, tgt, pcS, pcE, hh, ⟨live', acc, temps, pc1, tgt', pc', rfl, htmp, hacc, hargs, htail,
    hctx⟩, hss, hk⟩ := hat
  rw [checkArgs_nil] at hargs
  cases hargs
  exact (push_call_c hS hc hV T ha htail (hacc.snoc hh) hfo hctx hss hk).cast (by simp)

theorem step_loop_c (T : TopCtx V c R vm r a as' rest) (ha : Anch p.code vm.ip ip)
    {id : Nat} {x : Name} {body : Stmts} {pos : Pos} {ss : Stmts}
    (hfo : FrameOK vm.data a (V.ri r) env ctrs)
    (hat : FrameAt (V.env r) (V.G r) (Holds vm.data a)
      ⟨r, env, ctrs, .cons (.loop id x body pos) ss, k, .run⟩ ip 0) :
    StepResC V c R S 2 vm
      (if env.get x ≠ 0 then
        ⟨⟨r, env, ctrs.set id (env.get x), body, .loop id body ss k, .run⟩ :: rest, .running⟩
       else ⟨⟨r, env, ctrs.set id (env.get x), ss, k, .run⟩ :: rest, .running⟩) := by
  simp only [FrameAt, SAt, SAt1] at hat
  obtain ⟨pcE, ⟨pc1, ⟨ctr, rx, offE, offL, pcB, hctr, hrx, h1, h2, hbody, h3, h4, hA1, hA2, rfl⟩,
    hss⟩, hk⟩ := hat
  have he : (V.env r).code = p.code := rfl
  have hx := hfo.reg hrx
  obtain ⟨_, _, vm1, s1, g1, ip1, p1, hh1⟩ :=
    r_add_c hS hc T.good T.stk ha (at_code he h1) hx (clamp_zero hx.2.2.2) hx.2.2.2
  have st1 := p1.stack.trans T.stk
  have a1 : Anch p.code vm1.ip ((V.env r).next ip) := by
    rw [ip1, next_code he]; exact Anch.self _ _
  obtain ⟨vm2, s2, g2, ip2, st2, d2⟩ := r_jmpc_c hS hc g1 st1 a1 (at_code he h2) hh1
  have hfo2 : FrameOK vm2.data a (V.ri r) env (ctrs.set id (env.get x)) := by
    rw [d2]
    exact hfo.write_ctr (hV.nodup r T.rle) hctr hh1
      (fun r' w _ hne hw => p1.other r' w (by simp [hne]) hw)
  have hsb : SameBelow a.dataStart vm.data vm2.data := by rw [d2]; exact p1.below
  by_cases hn : env.get x ≠ 0
  · rw [if_pos hn]
    rw [if_neg hn] at ip2
    refine StepResC.run vm2 rfl (s1.trans s2) ?_
    refine T.finish g2 (st2.trans p1.stack) hsb (ip' := (V.env r).next ((V.env r).next ip)) ?_ rfl hfo2
      ?_ (fun ⟨_, _, h⟩ => nomatch h)
    · rw [ip2, next_code he ((V.env r).next ip)]; exact Anch.self _ _
    · simp only [FrameAt, KAt]
      exact ⟨pcB, hbody, ctr, offE, offL, (V.env r).next ip, pcE, hctr, h2, hbody, h3, h4, hA1, hA2,
        hss, hk⟩
  · rw [if_neg hn]
    have hn0 : env.get x = 0 := by omega
    rw [if_pos hn0] at ip2
    refine StepResC.run vm2 rfl (s1.trans s2) ?_
    refine T.finish g2 (st2.trans p1.stack) hsb
      (ip' := skipc (V.env r).code ((V.env r).next pcB) + 1) ?_ rfl hfo2 ?_
      (fun ⟨_, _, h⟩ => nomatch h)
    · rw [ip2]; exact hA2
    · simp only [FrameAt]
      exact ⟨pcE, hss, hk⟩

theorem step_while_c (T : TopCtx V c R vm r a as' rest) (ha : Anch p.code vm.ip ip)
    {x : Name} {body : Stmts} {pos : Pos} {ss : Stmts}
    (hfo : FrameOK vm.data a (V.ri r) env ctrs)
    (hat : FrameAt (V.env r) (V.G r) (Holds vm.data a)
      ⟨r, env, ctrs, .cons (.while_ x body pos) ss, k, .run⟩ ip 0) :
    StepResC V c R S 2 vm
      (if env.get x ≠ 0 then
        ⟨⟨r, env, ctrs, body, .while_ x body ss k, .run⟩ :: rest, .running⟩
       else ⟨⟨r, env, ctrs, ss, k, .run⟩ :: rest, .running⟩) := by
  simp only [FrameAt, SAt, SAt1] at hat
  obtain ⟨pcE, ⟨pc1, ⟨rx, tmp, offE, offL, pcB, hrx, htmp, h1, h2, hbody, h3, hA1, hA2, rfl⟩,
    hss⟩, hk⟩ := hat
  have he : (V.env r).code = p.code := rfl
  have hx := hfo.reg hrx
  obtain ⟨_, _, vm1, s1, g1, ip1, p1, hh1⟩ :=
    r_add_c hS hc T.good T.stk ha (at_code he h1) hx (clamp_zero hx.2.2.2) hx.2.2.2
  have st1 := p1.stack.trans T.stk
  have a1 : Anch p.code vm1.ip ((V.env r).next ip) := by
    rw [ip1, next_code he]; exact Anch.self _ _
  obtain ⟨vm2, s2, g2, ip2, st2, d2⟩ := r_jmpc_c hS hc g1 st1 a1 (at_code he h2) hh1
  have hfo2 : FrameOK vm2.data a (V.ri r) env ctrs := by
    rw [d2]
    refine hfo.pres (fun r' w hn hw => p1.other r' w ?_ hw)
    intro hm
    rw [List.mem_singleton] at hm
    subst hm
    rw [show (V.env r).me.isNamed r' = (V.ri r).isNamed r' from rfl, hn] at htmp
    cases htmp
  have hsb : SameBelow a.dataStart vm.data vm2.data := by rw [d2]; exact p1.below
  by_cases hn : env.get x ≠ 0
  · rw [if_pos hn]
    rw [if_neg hn] at ip2
    refine StepResC.run vm2 rfl (s1.trans s2) ?_
    refine T.finish g2 (st2.trans p1.stack) hsb (ip' := (V.env r).next ((V.env r).next ip)) ?_ rfl hfo2
      ?_ (fun ⟨_, _, h⟩ => nomatch h)
    · rw [ip2, next_code he ((V.env r).next ip)]; exact Anch.self _ _
    · simp only [FrameAt, KAt]
      exact ⟨pcB, hbody, rx, tmp, offE, offL, ip, pcE, hrx, htmp, h1, h2, hbody, h3, hA1, hA2,
        hss, hk⟩
  · rw [if_neg hn]
    have hn0 : env.get x = 0 := by omega
    rw [if_pos hn0] at ip2
    refine StepResC.run vm2 rfl (s1.trans s2) ?_
    refine T.finish g2 (st2.trans p1.stack) hsb
      (ip' := skipc (V.env r).code pcB + 1) ?_ rfl hfo2 ?_
      (fun ⟨_, _, h⟩ => nomatch h)
    · rw [ip2]; exact hA2
    · simp only [FrameAt]
      exact ⟨pcE, hss, hk⟩

theorem step_end_loop_c (T : TopCtx V c R vm r a as' rest) (ha : Anch p.code vm.ip ip)
    {id : Nat} {body ss : Stmts} {k' : Kont}
    (hfo : FrameOK vm.data a (V.ri r) env ctrs)
    (hat : FrameAt (V.env r) (V.G r) (Holds vm.data a)
      ⟨r, env, ctrs, .nil, .loop id body ss k', .run⟩ ip 0) :
    StepResC V c R S 3 vm
      (if ctrs.get id - 1 ≠ 0 then
        ⟨⟨r, env, ctrs.set id (ctrs.get id - 1), body, .loop id body ss k', .run⟩ :: rest, .running⟩
       else ⟨⟨r, env, ctrs.set id (ctrs.get id - 1), ss, k', .run⟩ :: rest, .running⟩) := by
  simp only [FrameAt, SAt, KAt] at hat
  obtain ⟨pcE, rfl, ctr, offE, offL, pJ, pcR, hctr, hJ, hbody, h3, h4, hA1, hA2, hss, hk⟩ := hat
  have he : (V.env r).code = p.code := rfl
  have hc0 := hfo.2 id ctr hctr
  obtain ⟨_, _, vm1, s1, g1, ip1, p1, hh1⟩ :=
    r_add_c hS hc T.good T.stk ha (at_code he h3) hc0 (clamp_pred hc0.2.2.2)
      (Nat.le_trans (Nat.sub_le _ _) hc0.2.2.2)
  have st1 := p1.stack.trans T.stk
  have a1 : Anch p.code vm1.ip ((V.env r).next pcE) := by
    rw [ip1, next_code he]; exact Anch.self _ _
  obtain ⟨vm2, s2, g2, ip2, st2, d2⟩ := r_jmp_c hS hc g1 a1 (at_code he h4)
  have a2 : Anch p.code vm2.ip pJ := by rw [ip2]; exact hA1
  have hh2 : Holds vm2.data a ctr (ctrs.get id - 1) := by rw [d2]; exact hh1
  obtain ⟨vm3, s3, g3, ip3, st3, d3⟩ := r_jmpc_c hS hc g2 (st2.trans st1) a2 (at_code he hJ) hh2
  have hfo3 : FrameOK vm3.data a (V.ri r) env (ctrs.set id (ctrs.get id - 1)) := by
    rw [d3, d2]
    exact hfo.write_ctr (hV.nodup r T.rle) hctr hh1
      (fun r' w _ hne hw => p1.other r' w (by simp [hne]) hw)
  have hsb : SameBelow a.dataStart vm.data vm3.data := by rw [d3, d2]; exact p1.below
  have hst3 : vm3.stack = vm.stack := (st3.trans st2).trans p1.stack
  by_cases hn : ctrs.get id - 1 ≠ 0
  · rw [if_pos hn]
    rw [if_neg hn] at ip3
    refine StepResC.run vm3 rfl ((s1.trans s2).trans s3) ?_
    refine T.finish g3 hst3 hsb (ip' := (V.env r).next pJ) ?_ rfl hfo3
      ?_ (fun ⟨_, _, h⟩ => nomatch h)
    · rw [ip3, next_code he pJ]; exact Anch.self _ _
    · simp only [FrameAt, KAt]
      exact ⟨pcE, hbody, ctr, offE, offL, pJ, pcR, hctr, hJ, hbody, h3, h4, hA1, hA2, hss, hk⟩
  · rw [if_neg hn]
    have hn0 : ctrs.get id - 1 = 0 := by omega
    rw [if_pos hn0] at ip3
    refine StepResC.run vm3 rfl ((s1.trans s2).trans s3) ?_
    refine T.finish g3 hst3 hsb
      (ip' := skipc (V.env r).code ((V.env r).next pcE) + 1) ?_ rfl hfo3 ?_
      (fun ⟨_, _, h⟩ => nomatch h)
    · rw [ip3]; exact hA2
    · simp only [FrameAt]
      exact ⟨pcR, hss, hk⟩

theorem step_end_while_c (T : TopCtx V c R vm r a as' rest) (ha : Anch p.code vm.ip ip)
    {x : Name} {body ss : Stmts} {k' : Kont}
    (hfo : FrameOK vm.data a (V.ri r) env ctrs)
    (hat : FrameAt (V.env r) (V.G r) (Holds vm.data a)
      ⟨r, env, ctrs, .nil, .while_ x body ss k', .run⟩ ip 0) :
    StepResC V c R S 3 vm
      (if env.get x ≠ 0 then
        ⟨⟨r, env, ctrs, body, .while_ x body ss k', .run⟩ :: rest, .running⟩
       else ⟨⟨r, env, ctrs, ss, k', .run⟩ :: rest, .running⟩) := by
  simp only [FrameAt, SAt, KAt] at hat
  obtain ⟨pcE, rfl, rx, tmp, offE, offL, pL, pcR, hrx, htmp, h1, h2, hbody, h3, hA1, hA2, hss, hk⟩ :=
    hat
  have he : (V.env r).code = p.code := rfl
  obtain ⟨vm0, s0, g0, ip0, st0, d0⟩ := r_jmp_c hS hc T.good ha (at_code he h3)
  have a0 : Anch p.code vm0.ip pL := by rw [ip0]; exact hA1
  have hx : Holds vm0.data a rx (env.get x) := by rw [d0]; exact hfo.reg hrx
  obtain ⟨_, _, vm1, s1, g1, ip1, p1, hh1⟩ :=
    r_add_c hS hc g0 (st0.trans T.stk) a0 (at_code he h1) hx (clamp_zero hx.2.2.2) hx.2.2.2
  have st1 := (p1.stack.trans st0).trans T.stk
  have a1 : Anch p.code vm1.ip ((V.env r).next pL) := by
    rw [ip1, next_code he]; exact Anch.self _ _
  obtain ⟨vm2, s2, g2, ip2, st2, d2⟩ := r_jmpc_c hS hc g1 st1 a1 (at_code he h2) hh1
  have hfo2 : FrameOK vm2.data a (V.ri r) env ctrs := by
    rw [d2]
    refine hfo.pres (fun r' w hn hw => p1.other r' w ?_ (by rw [d0]; exact hw))
    intro hm
    rw [List.mem_singleton] at hm
    subst hm
    rw [show (V.env r).me.isNamed r' = (V.ri r).isNamed r' from rfl, hn] at htmp
    cases htmp
  have hsb : SameBelow a.dataStart vm.data vm2.data := by
    rw [d2]; have := p1.below; rw [d0] at this; exact this
  have hst2 : vm2.stack = vm.stack := (st2.trans p1.stack).trans st0
  by_cases hn : env.get x ≠ 0
  · rw [if_pos hn]
    rw [if_neg hn] at ip2
    refine StepResC.run vm2 rfl ((s0.trans s1).trans s2) ?_
    refine T.finish g2 hst2 hsb (ip' := (V.env r).next ((V.env r).next pL)) ?_ rfl hfo2
      ?_ (fun ⟨_, _, h⟩ => nomatch h)
    · rw [ip2, next_code he ((V.env r).next pL)]; exact Anch.self _ _
    · simp only [FrameAt, KAt]
      exact ⟨pcE, hbody, rx, tmp, offE, offL, pL, pcR, hrx, htmp, h1, h2, hbody, h3, hA1, hA2,
        hss, hk⟩
  · rw [if_neg hn]
    have hn0 : env.get x = 0 := by omega
    rw [if_pos hn0] at ip2
    refine StepResC.run vm2 rfl ((s0.trans s1).trans s2) ?_
    refine T.finish g2 hst2 hsb
      (ip' := skipc (V.env r).code pcE + 1) ?_ rfl hfo2 ?_
      (fun ⟨_, _, h⟩ => nomatch h)
    · rw [ip2]; exact hA2
    · simp only [FrameAt]
      exact ⟨pcR, hss, hk⟩

theorem step_goto_c (T : TopCtx V c R vm r a as' rest) (ha : Anch p.code vm.ip ip)
    {m : Name} {pos : Pos} {ss : Stmts}
    (hfo : FrameOK vm.data a (V.ri r) env ctrs)
    (hat : FrameAt (V.env r) (V.G r) (Holds vm.data a)
      ⟨r, env, ctrs, .cons (.goto m pos) ss, k, .run⟩ ip 0) :
    StepResC V c R S 1 vm
      (match findLabel m (bodyOf src r) .done with
       | some (f, k2) => ⟨⟨r, env, ctrs, f, k2, .run⟩ :: rest, .running⟩
       | none => ⟨⟨r, env, ctrs, .cons (.goto m pos) ss, k, .run⟩ :: rest, .stuck⟩) := by
  simp only [FrameAt, SAt, SAt1] at hat
  obtain ⟨pcE, ⟨pc1, ⟨off, h1, hg, rfl⟩, hss⟩, hk⟩ := hat
  have he : (V.env r).code = p.code := rfl
  obtain ⟨ss', K', pm, pcE', hfl, hA, hs', hk'⟩ :=
    goto_resolve (hV.chk r T.rle) (hV.res r T.rle) hg
  rw [hfl]
  obtain ⟨vm1, s1, g1, ip1, st1, d1⟩ := r_jmp_c hS hc T.good ha (at_code he h1)
  refine StepResC.run vm1 rfl (s1) ?_
  refine T.finish g1 st1 (by rw [d1]; exact SameBelow.refl _ _) (ip' := pm) (by rw [ip1]; exact hA)
    rfl (by rw [d1]; exact hfo) ?_ (fun ⟨_, _, h⟩ => nomatch h)
  simp only [FrameAt]
  exact ⟨pcE', hs', hk'⟩

theorem step_ifGoto_c (T : TopCtx V c R vm r a as' rest) (ha : Anch p.code vm.ip ip)
    {x : Name} {cst : Nat} {m : Name} {pos : Pos} {ss : Stmts}
    (hfo : FrameOK vm.data a (V.ri r) env ctrs)
    (hat : FrameAt (V.env r) (V.G r) (Holds vm.data a)
      ⟨r, env, ctrs, .cons (.ifGoto x cst m pos) ss, k, .run⟩ ip 0) :
    StepResC V c R S 4 vm
      (if env.get x = cst then
        (match findLabel m (bodyOf src r) .done with
         | some (f, k2) => ⟨⟨r, env, ctrs, f, k2, .run⟩ :: rest, .running⟩
         | none => ⟨⟨r, env, ctrs, .cons (.ifGoto x cst m pos) ss, k, .run⟩ :: rest, .stuck⟩)
       else ⟨⟨r, env, ctrs, ss, k, .run⟩ :: rest, .running⟩) := by
  simp only [FrameAt, SAt, SAt1] at hat
  obtain ⟨pcE, ⟨pc1, ⟨rx, t1, t2, t0, off, hrx, h1, hn1, h2, hn2, hne, hlt, h3, hn0, h4, hg, rfl⟩,
    hss⟩, hk⟩ := hat
  have he : (V.env r).code = p.code := rfl
  have hx := hfo.reg hrx
  obtain ⟨_, _, vm1, s1, g1, ip1, p1, hh1⟩ :=
    r_add_c hS hc T.good T.stk ha (at_code he h1) hx (clamp_zero hx.2.2.2) hx.2.2.2
  have st1 := p1.stack.trans T.stk
  have a1 : Anch p.code vm1.ip ((V.env r).next ip) := by
    rw [ip1, next_code he]; exact Anch.self _ _
  obtain ⟨_, _, vm2, s2, g2, ip2, p2, hh2⟩ := r_const_c hS hc g1 st1 a1 (at_code he h2)
  have hh2 := hh2 cst rfl (Nat.le_of_lt hlt)
  have st2 := p2.stack.trans st1
  have hh1' : Holds vm2.data a t1 (env.get x) :=
    p2.other _ _ (by simp; exact fun h => hne h.symm) hh1
  have a2 : Anch p.code vm2.ip ((V.env r).next ((V.env r).next ip)) := by
    rw [ip2, next_code he ((V.env r).next ip)]; exact Anch.self _ _
  obtain ⟨_, _, vm3, s3, g3, ip3, p3, hh3⟩ := r_test_c hS hc g2 st2 a2 (at_code he h3) hh1' hh2
  have st3 := p3.stack.trans st2
  have a3 : Anch p.code vm3.ip ((V.env r).next ((V.env r).next ((V.env r).next ip))) := by
    rw [ip3, next_code he ((V.env r).next ((V.env r).next ip))]; exact Anch.self _ _
  obtain ⟨vm4, s4, g4, ip4, st4, d4⟩ := r_jmpc_c hS hc g3 st3 a3 (at_code he h4) hh3
  have pall := (p1.trans p2).trans p3
  have hfo4 : FrameOK vm4.data a (V.ri r) env ctrs := by
    rw [d4]
    refine hfo.pres (fun r' w hn hw => pall.other r' w ?_ hw)
    intro hm
    have hnn : (V.env r).me.isNamed r' = true := hn
    simp only [List.mem_append, List.mem_singleton] at hm
    rcases hm with (rfl | rfl) | rfl
    · rw [hnn] at hn1; cases hn1
    · rw [hnn] at hn2; cases hn2
    · rw [hnn] at hn0; cases hn0
  have hsb : SameBelow a.dataStart vm.data vm4.data := by rw [d4]; exact pall.below
  have hst4 : vm4.stack = vm.stack := st4.trans pall.stack
  have sall : SC S 4 vm vm4 := ((s1.trans s2).trans s3).trans s4
  by_cases hn : env.get x = cst
  · rw [if_pos hn]
    rw [if_pos hn, if_pos rfl] at ip4
    obtain ⟨ss', K', pm, pcE', hfl, hA, hs', hk'⟩ :=
      goto_resolve (hV.chk r T.rle) (hV.res r T.rle) hg
    rw [hfl]
    refine StepResC.run vm4 rfl (sall) ?_
    refine T.finish g4 hst4 hsb (ip' := pm) (by rw [ip4]; exact hA) rfl hfo4 ?_
      (fun ⟨_, _, h⟩ => nomatch h)
    simp only [FrameAt]
    exact ⟨pcE', hs', hk'⟩
  · rw [if_neg hn]
    rw [if_neg hn, if_neg (by omega)] at ip4
    refine StepResC.run vm4 rfl (sall) ?_
    refine T.finish g4 hst4 hsb
      (ip' := (V.env r).next ((V.env r).next ((V.env r).next ((V.env r).next ip)))) ?_ rfl hfo4 ?_
      (fun ⟨_, _, h⟩ => nomatch h)
    · rw [ip4, next_code he ((V.env r).next ((V.env r).next ((V.env r).next ip)))]
      exact Anch.self _ _
    · simp only [FrameAt]
      exact ⟨pcE, hss, hk⟩

/-- the VM has reached a `HALT` (through sites) in a matched state -/
theorem halt_here_c (T : TopCtx V c R vm r a as' rest) (ha : Anch p.code vm.ip ip)
    (hh : p.code[skipc p.code ip]? = some .halt) {fr : Frame} (hr : fr.routine = r)
    (he : effEnv fr = fr.env) (hfo : FrameOK vm.data a (V.ri r) (effEnv fr) fr.ctrs)
    (hat : FrameAt (V.env r) (V.G r) (Holds vm.data a) fr ip 0) :
    StepResC V c R S K vm ⟨fr :: rest, .halted⟩ := by
  obtain ⟨vm1, s1, g1, ip1, st1, d1⟩ := to_anchor_c hS hc T.good ha
  refine StepResC.halt vm1 rfl s1 ⟨?_, ?_⟩
  · rw [isDone_of_fetch (g1.fetch ip1 hh)]
    rfl
  · rw [d1, st1, T.stk]
    subst hr
    have hrel : StackRel V vm.data (fr :: rest) (a :: as') ip 0 :=
      stackRel_cons.2 ⟨⟨T.rle, T.dbg, hfo, hat⟩, T.restrel⟩
    exact hrel.agrees hV (fun fr' rest' h => by cases h; exact he)

theorem step_stop_c (T : TopCtx V c R vm r a as' rest) (ha : Anch p.code vm.ip ip)
    {pos : Pos} {ss : Stmts}
    (hfo : FrameOK vm.data a (V.ri r) env ctrs)
    (hat : FrameAt (V.env r) (V.G r) (Holds vm.data a)
      ⟨r, env, ctrs, .cons (.stop pos) ss, k, .run⟩ ip 0) :
    StepResC V c R S K vm ⟨⟨r, env, ctrs, .cons (.stop pos) ss, k, .run⟩ :: rest, .halted⟩ := by
  have hat' := hat
  simp only [FrameAt, SAt, SAt1] at hat'
  obtain ⟨pcE, ⟨pc1, ⟨h1, _⟩, _⟩, _⟩ := hat'
  exact halt_here_c hS hc hV T ha (at_code (e := V.env r) rfl h1)
    (fr := ⟨r, env, ctrs, .cons (.stop pos) ss, k, .run⟩) rfl rfl hfo hat

theorem step_end_root_c (T : TopCtx V c R vm r a as' []) (ha : Anch p.code vm.ip ip)
    (hfo : FrameOK vm.data a (V.ri r) env ctrs)
    (hat : FrameAt (V.env r) (V.G r) (Holds vm.data a)
      ⟨r, env, ctrs, .nil, .done, .run⟩ ip 0) :
    StepResC V c R S K vm ⟨[⟨r, env, ctrs, .nil, .done, .run⟩], .halted⟩ := by
  have hat' := hat
  simp only [FrameAt, SAt, KAt] at hat'
  obtain ⟨pcE, rfl, hpe⟩ := hat'
  have hr : r = src.progs.length := T.restrel.2
  refine halt_here_c hS hc hV T ha ?_ (fr := ⟨r, env, ctrs, .nil, .done, .run⟩) rfl rfl hfo hat
  rw [hpe, hr]
  exact hV.halt

theorem step_end_ret_c (T : TopCtx V c R vm r a as'
      (⟨r2, env2, ctrs2, focus2, k2, .wait x cs⟩ :: rest')) (ha : Anch p.code vm.ip ip)
    (hfo : FrameOK vm.data a (V.ri r) env ctrs)
    (hat : FrameAt (V.env r) (V.G r) (Holds vm.data a)
      ⟨r, env, ctrs, .nil, .done, .run⟩ ip 0) :
    StepResC V c R S 1 vm
      ⟨⟨r2, env2, ctrs2, focus2, k2,
          .ret (env.get (match src.progs[r]? with | some pd => pd.out | none => [])) x cs⟩ :: rest',
        .running⟩ := by
  simp only [FrameAt, SAt, KAt] at hat
  obtain ⟨pcE, rfl, hpe⟩ := hat
  have he : (V.env r).code = p.code := rfl
  obtain ⟨hrn, _, ip2, hra, hrel2⟩ := T.restrel
  obtain ⟨b, as'', rfl, ⟨hr2, hdbg2, hfo2, hat2⟩, hrest2⟩ := stackRel_inv hrel2
  obtain ⟨pd, ro, hpd, _, hret, hro⟩ := hV.rout r hrn
  simp only [hpd]
  rw [hpe] at ha
  obtain ⟨vm1, s1, g1, ip1, st1, d1⟩ := to_anchor_c hS hc T.good ha
  obtain ⟨_, _, hrt0, hrt1, v, hv, vm2, s2, g2, ipr, st2, d2⟩ :=
    x_ret hc g1 (st1.trans T.stk) ip1 (at_code he hret)
  have hout := hfo.reg hro
  rw [d1, hout.2.2.1] at hv
  cases hv
  rw [d1] at d2
  have htl := T.good.tiles
  rw [T.stk] at htl
  obtain ⟨_, hsum, _, hsum2, htl2⟩ := htl
  simp only [FrameAt] at hat2
  obtain ⟨live, pcS, pcE2, hctx, hss2, hk2⟩ := hat2
  have hsame : Holds vm2.data b a.retTarget (env.get pd.out) := by
    rw [d2]; exact Holds.ret_same hrt0 hrt1 (by omega) (by omega) hout.2.2.2
  have hother : ∀ r' w, r' ≠ a.retTarget → Holds vm.data b r' w → Holds vm2.data b r' w := by
    intro r' w hne hw
    rw [d2]; exact Holds.ret_other _ hw hne hrt0 (by omega)
  have hsb : SameBelow b.dataStart vm.data vm2.data := by
    rw [d2]
    exact (SameBelow.set _ _ (by omega)).trans (SameBelow.take _ (by omega))
  refine StepResC.run vm2 rfl (s1.one s2)
    ⟨g2, rfl, ⟨ip2, by rw [ipr, hra]; exact Anch.self _ _, ?_⟩, ?_⟩
  · rw [st2]
    show StackRel V vm2.data (_ :: rest') (b :: as'') ip2 0
    rw [stackRel_cons]
    refine ⟨⟨hr2, hdbg2, ?_, ?_⟩, hrest2.below htl2 hsb⟩
    · cases cs with
      | nil =>
        simp only [CtxAt] at hctx
        obtain ⟨_, hrx, _⟩ := hctx
        show FrameOK vm2.data b (V.ri r2) (env2.set x (env.get pd.out)) ctrs2
        exact FrameOK.write_named hfo2 (hV.nodup r2 hr2) hrx hsame
          (fun r' w _ hne hw => hother r' w hne hw)
      | cons c1 cs' =>
        simp only [CtxAt] at hctx
        obtain ⟨live', acc, temps, pc1, tgt', pc'', _, htmp, _⟩ := hctx
        show FrameOK vm2.data b (V.ri r2) env2 ctrs2
        refine FrameOK.pres hfo2 (fun r' w hn hw => hother r' w ?_ hw)
        intro hm
        subst hm
        have := (tempOK_iff.1 htmp).1
        rw [show (V.env r2).me.isNamed a.retTarget = (V.ri r2).isNamed a.retTarget from rfl, hn] at this
        cases this
    · simp only [FrameAt]
      refine ⟨live, a.retTarget, pcS, pcE2, hsame, ?_, hss2, hk2⟩
      refine hctx.pres (fun t ht n' hn' => hother t n' ?_ hn')
      intro hm
      subst hm
      exact hctx.not_live ht
  · intro fr rest'' h
    cases h
    exact fun ⟨_, _, h⟩ => nomatch h

/-- one step of the reference machine from a matched state, with the number of VM instructions -/
theorem sim_step_c {cfg : Config} (hm : Match V c R cfg vm) :
    StepResC V c R S (cost cfg) vm (Sem.step src cfg) := by
  obtain ⟨fr, rest, a, as', ip, rfl, T, ha, hfo, hat, hnw⟩ := hm.inv
  obtain ⟨r, env, ctrs, focus, k, ctrl⟩ := fr
  cases ctrl with
  | run =>
    cases focus with
    | cons s ss =>
      cases s with
      | assign x v pos => exact step_assign_c hS hc hV T ha hfo hat
      | mark m pos => exact step_mark_c hS hc hV T ha hfo hat
      | loop id x body pos => exact step_loop_c hS hc hV T ha hfo hat
      | while_ x body pos => exact step_while_c hS hc hV T ha hfo hat
      | goto m pos => exact step_goto_c hS hc hV T ha hfo hat
      | ifGoto x cst m pos => exact step_ifGoto_c hS hc hV T ha hfo hat
      | stop pos => exact step_stop_c hS hc hV T ha hfo hat
    | nil =>
      cases k with
      | loop id body ss k' => exact step_end_loop_c hS hc hV T ha hfo hat
      | while_ x body ss k' => exact step_end_while_c hS hc hV T ha hfo hat
      | done =>
        cases rest with
        | nil => exact step_end_root_c hS hc hV T ha hfo hat
        | cons caller rest' =>
          obtain ⟨_, ⟨x, cs, hw⟩, _⟩ := T.restrel
          obtain ⟨r2, env2, ctrs2, focus2, k2, ctrl2⟩ := caller
          simp only at hw
          subst hw
          exact step_end_ret_c hS hc hV T ha hfo hat
  | eval v x cs =>
    cases v with
    | var y => exact step_eval_simple_c hS hc hV T ha (SimpleVal.var y) hfo hat
    | num n => exact step_eval_simple_c hS hc hV T ha (SimpleVal.num n) hfo hat
    | inc y k' => exact step_eval_simple_c hS hc hV T ha (SimpleVal.inc y k') hfo hat
    | dec y k' => exact step_eval_simple_c hS hc hV T ha (SimpleVal.dec y k') hfo hat
    | call f args =>
      cases args with
      | nil => exact step_eval_call_nil_c hS hc hV T ha hfo hat
      | cons a0 as0 => exact step_eval_call_cons_c hS hc hV T ha hfo hat
  | ret n x cs =>
    cases cs with
    | nil => exact step_ret_nil_c hS hc hV T ha hfo hat
    | cons c1 cs' =>
      obtain ⟨f, done, todo⟩ := c1
      cases todo with
      | nil => exact step_ret_cons_call_c hS hc hV T ha hfo hat
      | cons a0 as0 => exact step_ret_cons_more_c hS hc hV T ha hfo hat
  | wait x cs => exact absurd ⟨x, cs, rfl⟩ hnw

end cases

end

end Sim
end Theo
