/-
  C01 for the generator model, part 16: one PROGRAM definition — `JMP over; body; RET out` passes
  one round of `checkProgs`, and the state between definitions (`TopInv`) is re-established.
-/
import Theo.Proofs.GenShapeBody

set_option linter.unusedSimpArgs false
set_option linter.unusedVariables false

namespace Theo
namespace GenShape
open GS Sem Static

/-- header of a PROGRAM definition: parameters and OUT are user variables -/
def progNames (hdr : Node) : Bool := (namesOf hdr.right.left).all varOK && varOK (outNameOf hdr.right.right)

/-- the generator state between two definitions (and before the main statements) -/
structure TopInv (src : Source) (gs : GS) (i : Nat) (infos : List RInfo) : Prop where
  nprogs : gs.stackMaps.length = i
  ninfos : infos.length = i
  marks : gs.top.marks = []
  regs : gs.top.regs = []
  last : LastNS gs.code
  head : Head gs
  func : ∀ f j pd, lookupProg src f i = some (j, pd) →
    ∃ p ri, gs.lookupFunc f = some p ∧ p.argnum = pd.params.length ∧ infos[j]? = some ri ∧
      p.mi = (ri.mi : Int) ∧ p.ind = (ri.entry : Int)

/-- what the rest of the generation leaves alone -/
structure TQ (gs G : GS) : Prop where
  code : gs.code <+: G.code
  stackMaps : gs.stackMaps <+: G.stackMaps
  labels : ∀ l, l < gs.labels.length → G.labels[l]? = gs.labels[l]?

theorem TQ.refl (gs : GS) : TQ gs gs := ⟨List.prefix_refl _, List.prefix_refl _, fun _ _ => rfl⟩
theorem TQ.trans {a b c : GS} (h1 : TQ a b) (h2 : TQ b c) (hl : a.labels.length ≤ b.labels.length) : TQ a c :=
  ⟨h1.code.trans h2.code, h1.stackMaps.trans h2.stackMaps,
   fun l h => by rw [h2.labels l (by omega), h1.labels l h]⟩

theorem lookupProg_succ (src : Source) (k : Nat) (p : ProgDef) (h : src.progs[k]? = some p) (g : Bytes) :
    lookupProg src g (k + 1) = if p.name = g then some (k, p) else lookupProg src g k := by
  unfold lookupProg
  exact go_succ g k src.progs 0 none p (Nat.zero_le _) (by simpa using h)

/-- a statement body that starts without marks leaves every existing label alone -/
theorem body_frame (f : Nat) (g : GS) (r : Node) (hf : nodeSize r ≤ f) (hs : stmtShape r = true)
    (hn : stmtNames r = true) (hm : g.top.marks = []) :
    ∀ l, l < g.labels.length → (dispatchVoid f g r).labels[l]? = g.labels[l]? := by
  intro l hl
  have st := step_void f g r
  refine (sq_void f g r hf hs hn).frame l hl ?_
  intro m _ hin
  rcases st.new _ hin with h | h
  · rw [hm] at h; cases h
  · simp only at h; omega

def progRes (f' : Nat) (gs00 : GS) (l2 r2 : Node) : GS :=
  progPost (dispatchVoid f' (dispatchArgs f' (progPre gs00 l2.left.tok).1 l2.right.left) r2)
    (outNameOf l2.right.right) (dispatchArgs f' (progPre gs00 l2.left.tok).1 l2.right.left).nextPos
    (progPre gs00 l2.left.tok).2

theorem dispatchVoid_program (f' : Nat) (gs0 : GS) (tok file : Bytes) (line : Int) (l2 r2 : Node) :
    dispatchVoid (f'+1) gs0 (.mk NodeT.PROGRAM tok file line l2 r2) = progRes f' (gs0.advanceLine line file) l2 r2 := by
  rw [dispatchVoid_succ]
  dsimp only
  rw [if_neg (by decide), if_pos rfl]
  rfl

theorem checkProgs_cons_ok (P : Program) (src : Source) (pd : ProgDef) (rest : List ProgDef) (k : Nat)
    (infos : List RInfo) (pc : Nat) (off : Int) (sm : StackMap) (w : Walk) (ro : Int)
    (h1 : P.code[skipc P.code pc]? = some (.jmp off)) (h2 : P.stackMaps[k]? = some sm)
    (h3 : namesNodup ⟨skipc P.code pc + 1, k, sm.map⟩ = true)
    (h4 : paramsOK ⟨skipc P.code pc + 1, k, sm.map⟩ pd.params = true)
    (h5 : checkStmts ⟨P.code, src, ⟨skipc P.code pc + 1, k, sm.map⟩, k, infos⟩ pd.body ⟨skipc P.code pc + 1, [], []⟩ = some w)
    (h6 : VEnv.at ⟨P.code, src, ⟨skipc P.code pc + 1, k, sm.map⟩, k, infos⟩ w.pc = some (.ret ro))
    (h7 : RInfo.regOf ⟨skipc P.code pc + 1, k, sm.map⟩ pd.out = some ro)
    (h8 : resolveOK P.code w = true)
    (h9 : ((skipc P.code pc : Nat) : Int) + off = ((skipc P.code w.pc + 1 : Nat) : Int)) :
    checkProgs P src (pd :: rest) k infos pc =
      checkProgs P src rest (k + 1) (infos ++ [⟨skipc P.code pc + 1, k, sm.map⟩]) (skipc P.code w.pc + 1) := by
  rw [checkProgs]
  simp only [h1, h2, h3, h4, h5, h6, h7]
  simp [h8, h9]

end GenShape
end Theo
