/-
  Helper lemmas for C14 (identifiers): a generic, executable analysis of regular expressions
  (`Rx.idLang`: all identifier-character words of a regex, when finitely many; `Rx.isIdentRx`:
  the regex is the identifier pattern) with soundness proofs, a handful of CLOSED facts about the
  regenerated tables `LexGen.rules` / `LexGen.keywords` that the kernel re-checks by evaluation on
  every run (`idRule_at`, `idRules_ident`, `earlier_rules_ok`, `keywords_not_id`), and from these
  the two directions "identifier-shaped non-keyword ⇔ one ID token" phrased with `LexGen.keywords`.
  Nothing here mentions a rule index, a regex or a spelling of the concrete tables.
-/
import Theo.Proofs.LexProofs
import Theo.Spec.Identifier

namespace Theo

/-! ### all bytes, identifier bytes -/

def allBytes : List UInt8 := (List.range 256).map Nat.toUInt8

theorem mem_allBytes (c : UInt8) : c ∈ allBytes := by
  refine List.mem_map.2 ⟨c.toNat, List.mem_range.2 (UInt8.toNat_lt c), ?_⟩
  simp

/-- the 63 identifier bytes, as a literal (cheap for the kernel) -/
def idChars : List UInt8 :=
  [48, 49, 50, 51, 52, 53, 54, 55, 56, 57,
   65, 66, 67, 68, 69, 70, 71, 72, 73, 74, 75, 76, 77, 78, 79, 80, 81, 82, 83, 84, 85, 86, 87, 88,
   89, 90, 95,
   97, 98, 99, 100, 101, 102, 103, 104, 105, 106, 107, 108, 109, 110, 111, 112, 113, 114, 115,
   116, 117, 118, 119, 120, 121, 122]

theorem idChars_complete : allBytes.all (fun c => !isIdChar c || idChars.contains c) = true := by
  decide +kernel

theorem mem_idChars {c : UInt8} (h : isIdChar c = true) : c ∈ idChars := by
  have := List.all_eq_true.1 idChars_complete c (mem_allBytes c)
  simpa [h] using this

theorem isIdStart_isIdChar {c : UInt8} (h : isIdStart c = true) : isIdChar c = true := by
  simp [isIdChar, h]

theorem identShape_all {w : Bytes} (h : identShape w = true) : w.all isIdChar = true := by
  cases w with
  | nil => simp [identShape] at h
  | cons c cs =>
    simp only [identShape, Bool.and_eq_true] at h
    simp only [List.all_cons, Bool.and_eq_true]
    exact ⟨isIdStart_isIdChar h.1, h.2⟩

theorem identShape_ne_nil {w : Bytes} (h : identShape w = true) : w ≠ [] := by
  rintro rfl; simp [identShape] at h

/-! ### the identifier-character words of a regular expression -/

def catProd (A B : List Bytes) : List Bytes := A.flatMap (fun x => B.map (x ++ ·))

theorem mem_catProd {A B : List Bytes} {s t : Bytes} (hs : s ∈ A) (ht : t ∈ B) :
    s ++ t ∈ catProd A B :=
  List.mem_flatMap.2 ⟨s, hs, List.mem_map.2 ⟨t, ht, rfl⟩⟩

namespace Rx

/-- `idLang r = some L`: `L` lists every word of the language of `r` that consists of identifier
    characters only (`idLang_sound`); `none`: there may be infinitely many (a star over a
    non-empty identifier-character word).  Generic: computed on whatever the rule table holds. -/
def idLang : Rx → Option (List Bytes)
  | .empty => some []
  | .eps => some [[]]
  | .cls rs => some ((idChars.filter (fun c => inRanges rs c)).map (fun c => [c]))
  | .ncls rs => some ((idChars.filter (fun c => !inRanges rs c)).map (fun c => [c]))
  | .seq a b =>
    match idLang a, idLang b with
    | some A, some B => some (catProd A B)
    | some A, none => if A.isEmpty then some [] else none
    | none, some B => if B.isEmpty then some [] else none
    | none, none => none
  | .alt a b =>
    match idLang a, idLang b with
    | some A, some B => some (A ++ B)
    | _, _ => none
  | .star a =>
    match idLang a with
    | some A => if A.all List.isEmpty then some [[]] else none
    | none => none

theorem idLang_sound {r : Rx} {w : Bytes} (h : r.Matches w) :
    ∀ L, r.idLang = some L → w.all isIdChar = true → w ∈ L := by
  induction h with
  | eps =>
    intro L hL _
    simp only [idLang, Option.some.injEq] at hL
    subst hL; simp
  | @cls rs c hc =>
    intro L hL hw
    simp only [idLang, Option.some.injEq] at hL
    subst hL
    simp only [List.all_cons, List.all_nil, Bool.and_true] at hw
    exact List.mem_map.2 ⟨c, List.mem_filter.2 ⟨mem_idChars hw, hc⟩, rfl⟩
  | @ncls rs c hc =>
    intro L hL hw
    simp only [idLang, Option.some.injEq] at hL
    subst hL
    simp only [List.all_cons, List.all_nil, Bool.and_true] at hw
    exact List.mem_map.2 ⟨c, List.mem_filter.2 ⟨mem_idChars hw, by simp [hc]⟩, rfl⟩
  | @seq a b s t _ _ iha ihb =>
    intro L hL hw
    simp only [List.all_append, Bool.and_eq_true] at hw
    simp only [idLang] at hL
    cases hA : idLang a with
    | some A =>
      have hs := iha A hA hw.1
      cases hB : idLang b with
      | some B =>
        have ht := ihb B hB hw.2
        simp only [hA, hB, Option.some.injEq] at hL
        subst hL
        exact mem_catProd hs ht
      | none =>
        simp only [hA, hB] at hL
        cases A with
        | nil => cases hs
        | cons x A => simp at hL
    | none =>
      cases hB : idLang b with
      | some B =>
        have ht := ihb B hB hw.2
        simp only [hA, hB] at hL
        cases B with
        | nil => cases ht
        | cons x B => simp at hL
      | none => simp [hA, hB] at hL
  | @altL a b s _ ih =>
    intro L hL hw
    simp only [idLang] at hL
    cases hA : idLang a with
    | none => simp [hA] at hL
    | some A =>
      cases hB : idLang b with
      | none => simp [hA, hB] at hL
      | some B =>
        simp only [hA, hB, Option.some.injEq] at hL
        subst hL
        exact List.mem_append_left _ (ih A hA hw)
  | @altR a b s _ ih =>
    intro L hL hw
    simp only [idLang] at hL
    cases hA : idLang a with
    | none => simp [hA] at hL
    | some A =>
      cases hB : idLang b with
      | none => simp [hA, hB] at hL
      | some B =>
        simp only [hA, hB, Option.some.injEq] at hL
        subst hL
        exact List.mem_append_right _ (ih B hB hw)
  | @starNil a =>
    intro L hL _
    simp only [idLang] at hL
    cases hA : idLang a with
    | none => simp [hA] at hL
    | some A =>
      simp only [hA] at hL
      split at hL
      · cases hL; simp
      · cases hL
  | @starCons a s t _ _ ih1 ih2 =>
    intro L hL hw
    simp only [List.all_append, Bool.and_eq_true] at hw
    have hL' := hL
    simp only [idLang] at hL
    cases hA : idLang a with
    | none => simp [hA] at hL
    | some A =>
      simp only [hA] at hL
      split at hL
      · next hall =>
        cases hL
        have hs := ih1 A hA hw.1
        have hs' : s = [] := by
          have := List.all_eq_true.1 hall s hs
          simpa using this
        subst hs'
        simpa using ih2 _ hL' hw.2
      · cases hL

/-! ### can the regex match a word that starts like an identifier at all? -/

/-- over-approximation of "`r` matches some word whose first byte is an identifier-start byte"
    (`startsId_sound`); `false` for whitespace, operators, integers, quoted names, comments, … -/
def startsId : Rx → Bool
  | .empty => false
  | .eps => false
  | .cls rs => idChars.any (fun c => isIdStart c && inRanges rs c)
  | .ncls rs => idChars.any (fun c => isIdStart c && !inRanges rs c)
  | .seq a b => startsId a || (nullable a && startsId b)
  | .alt a b => startsId a || startsId b
  | .star a => startsId a

theorem startsId_sound {r : Rx} {w : Bytes} (h : r.Matches w) :
    ∀ c s, w = c :: s → isIdStart c = true → r.startsId = true := by
  induction h with
  | eps => intro c s hw; cases hw
  | @cls rs d hd =>
    intro c s hw hc
    cases hw
    exact List.any_eq_true.2 ⟨d, mem_idChars (isIdStart_isIdChar hc), by simp [hc, hd]⟩
  | @ncls rs d hd =>
    intro c s hw hc
    cases hw
    exact List.any_eq_true.2 ⟨d, mem_idChars (isIdStart_isIdChar hc), by simp [hc, hd]⟩
  | @seq a b s1 t h1 _ iha ihb =>
    intro c s hw hc
    simp only [startsId, Bool.or_eq_true, Bool.and_eq_true]
    cases s1 with
    | nil => exact .inr ⟨(nullable_correct a).2 h1, ihb c s hw hc⟩
    | cons d s1 =>
      simp only [List.cons_append, List.cons.injEq] at hw
      obtain ⟨rfl, _⟩ := hw
      exact .inl (iha d s1 rfl hc)
  | @altL a b s _ ih =>
    intro c s' hw hc
    simp only [startsId, Bool.or_eq_true]
    exact .inl (ih c s' hw hc)
  | @altR a b s _ ih =>
    intro c s' hw hc
    simp only [startsId, Bool.or_eq_true]
    exact .inr (ih c s' hw hc)
  | starNil => intro c s hw; cases hw
  | @starCons a s1 t _ _ ih1 ih2 =>
    intro c s hw hc
    cases s1 with
    | nil => exact ih2 c s hw hc
    | cons d s1 =>
      simp only [List.cons_append, List.cons.injEq] at hw
      obtain ⟨rfl, _⟩ := hw
      simpa [startsId] using ih1 d s1 rfl hc

theorem not_startsId_no_ident {r : Rx} {w : Bytes} (hs : r.startsId = false) (hm : r.Matches w) :
    identShape w = false := by
  cases w with
  | nil => rfl
  | cons c cs =>
    cases hc : isIdStart c with
    | false => simp [identShape, hc]
    | true => rw [startsId_sound hm c cs rfl hc] at hs; cases hs

/-! ### the identifier rule -/

/-- the regex is `[S][C]*` with `S` = the identifier-start bytes and `C` = the identifier bytes,
    in whatever order and grouping the ranges are written -/
def isIdentRx : Rx → Bool
  | .seq (.cls A) (.star (.cls B)) =>
    allBytes.all (fun c => inRanges A c == isIdStart c) &&
      allBytes.all (fun c => inRanges B c == isIdChar c)
  | _ => false

theorem matches_star_cls_iff {B : List (UInt8 × UInt8)} {s : Bytes} :
    (Rx.star (.cls B)).Matches s ↔ s.all (fun c => inRanges B c) = true := by
  induction s with
  | nil => simp; exact .starNil
  | cons c s ih =>
    rw [matches_star_cons_iff]
    constructor
    · rintro ⟨s1, s2, hs, h1, h2⟩
      rw [matches_cls_iff] at h1
      obtain ⟨d, hd, hr⟩ := h1
      simp only [List.cons.injEq] at hd
      obtain ⟨rfl, rfl⟩ := hd
      simp only [List.nil_append] at hs
      subst hs
      simp only [List.all_cons, Bool.and_eq_true]
      exact ⟨hr, ih.1 h2⟩
    · intro h
      simp only [List.all_cons, Bool.and_eq_true] at h
      exact ⟨[], s, rfl, .cls h.1, ih.2 h.2⟩

theorem isIdentRx_matches {r : Rx} (h : r.isIdentRx = true) (w : Bytes) :
    r.Matches w ↔ identShape w = true := by
  unfold isIdentRx at h
  split at h
  · next A B =>
    simp only [Bool.and_eq_true, List.all_eq_true, beq_iff_eq] at h
    have hA : ∀ c, inRanges A c = isIdStart c := fun c => h.1 c (mem_allBytes c)
    have hB : ∀ c, inRanges B c = isIdChar c := fun c => h.2 c (mem_allBytes c)
    have hB' : (fun c => inRanges B c) = isIdChar := funext hB
    rw [matches_seq_iff]
    constructor
    · rintro ⟨s1, s2, rfl, h1, h2⟩
      rw [matches_cls_iff] at h1
      obtain ⟨c, rfl, hc⟩ := h1
      rw [matches_star_cls_iff, hB'] at h2
      simp [identShape, ← hA, hc, h2]
    · intro hw
      cases w with
      | nil => simp [identShape] at hw
      | cons c cs =>
        simp only [identShape, Bool.and_eq_true] at hw
        refine ⟨[c], cs, rfl, .cls (by rw [hA]; exact hw.1), ?_⟩
        rw [matches_star_cls_iff, hB']
        exact hw.2
  · cases h

end Rx

/-! ### closed facts about the regenerated tables -/

/-- position of the identifier rule: the first rule whose action returns `ID` -/
def idIdx : Nat := LexGen.rules.findIdx (fun r => r.2 == some Tok.ID)

/-- a rule standing before the identifier rule either cannot match a word starting like an
    identifier, or matches only finitely many identifier-character words, each identifier-shaped
    one of them being a listed keyword spelling of the rule's kind -/
def earlierRuleOk (r : Rx × Option Nat) : Bool :=
  !r.1.startsId ||
  match r.1.idLang with
  | some L => L.all (fun w => !identShape w ||
      (match r.2 with
       | some k => LexGen.keywords.contains (w, k)
       | none => false))
  | none => false

theorem idRule_at : (match LexGen.rules[idIdx]? with
    | some r => r.1.isIdentRx && r.2 == some Tok.ID
    | none => false) = true := by
  decide +kernel

theorem idRules_ident : LexGen.rules.all (fun r => r.2 != some Tok.ID || r.1.isIdentRx) = true := by
  decide +kernel

theorem earlier_rules_ok : (LexGen.rules.take idIdx).all earlierRuleOk = true := by
  decide +kernel

theorem keywords_not_id : LexGen.keywords.all (fun e => e.2 != Tok.ID) = true := by
  decide +kernel


/-! ### identifier-shaped words: `cstr`, newlines -/

theorem isIdChar_zero : isIdChar 0 = false := by decide
theorem isIdChar_nl : isIdChar 10 = false := by decide

theorem cstr_of_all_idChar {w : Bytes} (h : w.all isIdChar = true) : cstr w = w := by
  unfold cstr
  induction w with
  | nil => rfl
  | cons c cs ih =>
    simp only [List.all_cons, Bool.and_eq_true] at h
    have hc : c ≠ 0 := by
      rintro rfl
      rw [isIdChar_zero] at h; cases h.1
    rw [List.takeWhile_cons, if_pos (by simpa using hc), ih h.2]

theorem countNl_of_all_idChar {w : Bytes} (h : w.all isIdChar = true) : countNl w = 0 := by
  unfold countNl
  rw [List.count_eq_zero]
  intro hc
  have := List.all_eq_true.1 h 10 hc
  rw [isIdChar_nl] at this; cases this

/-! ### forward direction -/

theorem idRule_get : ∃ r, LexGen.rules[idIdx]? = some (r, some Tok.ID) ∧ r.isIdentRx = true := by
  have h := idRule_at
  split at h
  · next p hp =>
    simp only [Bool.and_eq_true, beq_iff_eq] at h
    refine ⟨p.1, ?_, h.1⟩
    rw [hp, ← h.2]
  · cases h

theorem earlier_rule_keyword {j : Nat} {r : Rx} {w : Bytes} (hj : j < idIdx)
    (hr : (LexGen.rules.map (·.1))[j]? = some r) (hm : r.Matches w) (hw : identShape w = true) :
    ∃ k, (w, k) ∈ LexGen.keywords := by
  simp only [List.getElem?_map, Option.map_eq_some_iff] at hr
  obtain ⟨p, hp, rfl⟩ := hr
  have hmem : p ∈ LexGen.rules.take idIdx := by
    apply List.mem_of_getElem? (i := j)
    rw [List.getElem?_take, if_pos hj]; exact hp
  have hok := List.all_eq_true.1 earlier_rules_ok p hmem
  unfold earlierRuleOk at hok
  rw [Bool.or_eq_true] at hok
  rcases hok with hok | hok
  · rw [Bool.not_eq_true'] at hok
    rw [Rx.not_startsId_no_ident hok hm] at hw; cases hw
  split at hok
  · next L hL =>
    have hwL := Rx.idLang_sound hm L hL (identShape_all hw)
    have := List.all_eq_true.1 hok w hwL
    simp only [hw, Bool.not_true, Bool.false_or] at this
    split at this
    · next k _ => exact ⟨k, by simpa using this⟩
    · cases this
  · cases hok

/-- the maximal munch of an identifier-shaped word that is no keyword spelling is the whole
    word, by the identifier rule -/
theorem ident_longest (w : Bytes) (h : identShape w = true)
    (hn : ∀ e ∈ LexGen.keywords, e.1 ≠ w) :
    longest (LexGen.rules.map (·.1)) w = some (idIdx, w.length) := by
  obtain ⟨r, hr, hri⟩ := idRule_get
  rw [longest_match]
  have hlen : 0 < w.length := List.length_pos_iff.2 (identShape_ne_nil h)
  refine ⟨hlen, Nat.le_refl _, ⟨r, ?_, ?_⟩, ?_⟩
  · rw [List.getElem?_map, hr]; rfl
  · rw [List.take_length]; exact (Rx.isIdentRx_matches hri w).2 h
  · intro j r' m hj hm0 hm1 hmm
    refine ⟨hm1, fun hme => ?_⟩
    subst hme
    rw [List.take_length] at hmm
    apply Nat.le_of_not_lt
    intro hlt
    obtain ⟨k, hk⟩ := earlier_rule_keyword hlt hj hmm h
    exact hn _ hk rfl

theorem lexFrom_nil (rules : List (Rx × Option Nat)) (fuel line : Nat) :
    lexFrom rules fuel [] line = [] := by
  cases fuel <;> rfl

theorem ident_lexBuffer (w : Bytes) (h : identShape w = true)
    (hn : ∀ e ∈ LexGen.keywords, e.1 ≠ w) : lexBuffer w = [⟨Tok.ID, w, 1⟩] := by
  have hall := identShape_all h
  obtain ⟨r, hr, _⟩ := idRule_get
  unfold lexBuffer
  simp only [cstr_of_all_idChar hall]
  cases w with
  | nil => exact absurd rfl (identShape_ne_nil h)
  | cons c cs =>
    simp only [lexFrom, ident_longest _ h hn, List.take_length, List.drop_length, lexFrom_nil,
      countNl_of_all_idChar hall, hr, Option.bind_some, Nat.add_zero]

/-! ### converse -/

theorem lexFrom_text_le (rules : List (Rx × Option Nat)) (fuel : Nat) (inp : Bytes) (line : Nat)
    (t : RawTok) (ht : t ∈ lexFrom rules fuel inp line) : t.text.length ≤ inp.length := by
  induction fuel generalizing inp line with
  | zero => simp [lexFrom] at ht
  | succ fuel ih =>
    cases inp with
    | nil => simp [lexFrom] at ht
    | cons c cs =>
      simp only [lexFrom] at ht
      cases hl : longest (rules.map (·.1)) (c :: cs) with
      | none => simp [hl] at ht
      | some v =>
        obtain ⟨i, n⟩ := v
        simp only [hl] at ht
        have hrest : ∀ line', t ∈ lexFrom rules fuel ((c :: cs).drop n) line' →
            t.text.length ≤ (c :: cs).length := by
          intro line' h'
          have := ih _ _ h'
          rw [List.length_drop] at this; omega
        split at ht
        · rcases List.mem_cons.1 ht with rfl | h'
          · simp only [List.length_take]; omega
          · exact hrest _ h'
        · exact hrest _ ht

theorem takeWhile_length_eq {α} (p : α → Bool) (l : List α)
    (h : l.length ≤ (l.takeWhile p).length) : l.takeWhile p = l := by
  induction l with
  | nil => rfl
  | cons a l ih =>
    simp only [List.takeWhile_cons] at h ⊢
    split
    · next hp =>
      simp only [hp, if_true, List.length_cons] at h
      rw [ih (by omega)]
    · next hp =>
      simp [hp] at h

/-- a word that lexes as exactly one `ID` token is the maximal munch of an `ID` rule -/
theorem lexBuffer_single_munch (w : Bytes) (k : Nat) (h : lexBuffer w = [⟨k, w, 1⟩]) :
    ∃ (i : Nat) (p : Rx × Option Nat), LexGen.rules[i]? = some p ∧ p.2 = some k ∧ p.1.Matches w := by
  unfold lexBuffer at h
  simp only [] at h
  have hcl : (cstr w).length ≤ w.length := by
    unfold cstr
    exact (List.takeWhile_sublist _).length_le
  cases hc : cstr w with
  | nil => rw [hc] at h; simp [lexFrom] at h
  | cons c cs =>
    rw [hc] at h hcl
    simp only [lexFrom] at h
    cases hl : longest (LexGen.rules.map (·.1)) (c :: cs) with
    | none => simp [hl] at h
    | some v =>
      obtain ⟨i, n⟩ := v
      simp only [hl] at h
      obtain ⟨hn0, hn1⟩ := longest_some_bounds hl
      split at h
      · next k' hk' =>
        simp only [List.cons.injEq, RawTok.mk.injEq] at h
        obtain ⟨⟨rfl, htext, _⟩, _⟩ := h
        have hlen : n = w.length := by
          have := congrArg List.length htext
          rw [List.length_take] at this
          omega
        have hcw : c :: cs = w := by
          rw [← hc]
          apply takeWhile_length_eq
          rw [← cstr, hc]; omega
        subst hcw
        rw [longest_match] at hl
        obtain ⟨_, _, ⟨r, hr, hm⟩, _⟩ := hl
        rw [hlen, List.take_length] at hm
        simp only [List.getElem?_map, Option.map_eq_some_iff] at hr
        obtain ⟨p, hp, rfl⟩ := hr
        refine ⟨i, p, hp, ?_, hm⟩
        rw [hp] at hk'
        simpa using hk'
      · exfalso
        have hmem : (⟨k, w, 1⟩ : RawTok) ∈ lexFrom LexGen.rules (c :: cs).length
            ((c :: cs).drop n) (1 + countNl ((c :: cs).take n)) := by
          rw [h]; exact List.mem_singleton.2 rfl
        have := lexFrom_text_le _ _ _ _ _ hmem
        simp only [List.length_drop] at this
        omega

theorem ident_only (w : Bytes) (h : lexBuffer w = [⟨Tok.ID, w, 1⟩]) :
    identShape w = true ∧ ∀ e ∈ LexGen.keywords, e.1 ≠ w := by
  constructor
  · obtain ⟨i, p, hp, hk, hm⟩ := lexBuffer_single_munch w Tok.ID h
    have := List.all_eq_true.1 idRules_ident p (List.mem_of_getElem? hp)
    simp only [hk, bne_self_eq_false, Bool.false_or] at this
    exact (Rx.isIdentRx_matches this w).1 hm
  · intro e he hew
    have h1 := List.all_eq_true.1 keywords_lex e he
    have h2 := List.all_eq_true.1 keywords_not_id e he
    rw [beq_iff_eq, hew, h] at h1
    simp only [List.cons.injEq, RawTok.mk.injEq, and_true] at h1
    simp only [bne_iff_ne, ne_eq] at h2
    exact h2 h1.symm

end Theo
