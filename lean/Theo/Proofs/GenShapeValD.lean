/-
  C01 for the generator model, part 5: `value_corr` — the code the generator emits for a value
  (an argument list) passes `checkValue` (`checkArgs`) for the value (list) `valueOf` (`valuesOf`)
  reads off the same tree.
-/
import Theo.Proofs.GenShapeValC

set_option linter.unusedSimpArgs false
set_option linter.unusedVariables false

namespace Theo
namespace GenShape
open GS Sem Static

theorem callTail_builtin (gs : GS) (al : List Int) (l r : Node) (tgt : Int) (hb : builtinP l r al.length) :
    callTail gs al l r tgt =
      gs.emit (.add tgt ((al[0]?).getD 0)
        (if l.tok = bINC then toInt32 (strtolNat r.right.left.tok) else negInt32 (toInt32 (strtolNat r.right.left.tok)))) := by
  have hb' : (l.tok = bINC ∨ l.tok = bDEC) ∧ (al.length = 2 ∧ r.left.ty = NodeT.NAME ∧ r.right.left.ty = NodeT.NUMBER) := hb
  unfold callTail
  dsimp only
  rw [if_pos hb']
  split <;> rfl

theorem callTail_call (gs : GS) (al : List Int) (l r : Node) (tgt : Int) (p : ProgRec)
    (hb : ¬ builtinP l r al.length) (hl : gs.lookupFunc l.tok = some p) (ha : p.argnum = al.length) :
    callTail gs al l r tgt =
      (al.zipIdx.foldl (fun g a => (g.emit (.arg a.2 a.1)).releaseTemporary a.1)
        (gs.emit (.prepare p.stackSize p.mi tgt))).emit (.exec p.ind) := by
  have hb' : ¬ ((l.tok = bINC ∨ l.tok = bDEC) ∧ (al.length = 2 ∧ r.left.ty = NodeT.NAME ∧ r.right.left.ty = NodeT.NUMBER)) := hb
  unfold callTail
  dsimp only
  rw [if_neg hb', hl]
  dsimp only
  rw [if_neg (by simpa using ha)]

theorem tempOK_split {e : VEnv} {live : List Int} {t t2 : Int} (h : tempOK e (live ++ [t]) t2 = true) :
    tempOK e live t2 = true ∧ t2 ≠ t := by
  unfold tempOK at *
  simp only [Bool.and_eq_true, Bool.not_eq_true', List.contains_eq_mem, List.mem_append, List.mem_singleton,
    decide_eq_false_iff_not, not_or] at h ⊢
  exact ⟨⟨h.1, h.2.1⟩, h.2.2⟩

theorem advanceLine_top (gs : GS) (line : Int) (file : Bytes) : (gs.advanceLine line file).top = gs.top :=
  top_congr (advanceLine_symbols gs line file)

theorem value_corr {X : RC} (ok : X.OK) : ∀ f : Nat,
    (∀ gs n tgt live pc, nodeSize n ≤ f → isNil n = false → valShape false n = true → valNames n = true →
      valueOK X.src X.rt (valueOf n) = true →
      VLinks X (dispatchValue f gs n tgt) → LiveOK gs.top.regs live → live.contains tgt = false → At X pc gs →
      ∃ pc', checkValue X.e (valueOf n) live pc = some (tgt, pc') ∧ At X pc' (dispatchValue f gs n tgt)) ∧
    (∀ gs n acc live pc rest, nodeSize n + 1 ≤ f → valShape true n = true → valNames n = true →
      valuesOK X.src X.rt (valuesOf n) = true →
      VLinks X (dispatchCallArgs f gs n acc).1 → LiveOK gs.top.regs (live ++ acc) → At X pc gs →
      ∃ pc', checkArgs X.e (Values.appendV (valuesOf n) rest) live acc pc =
               checkArgs X.e rest live (dispatchCallArgs f gs n acc).2 pc' ∧
             At X pc' (dispatchCallArgs f gs n acc).1 ∧
             LiveOK (dispatchCallArgs f gs n acc).1.top.regs (live ++ (dispatchCallArgs f gs n acc).2)) := by
  intro f
  induction f with
  | zero =>
    refine ⟨fun gs n tgt live pc h => ?_, fun gs n acc live pc rest h => ?_⟩
    · have := nodeSize_pos n; omega
    · omega
  | succ f ih =>
    refine ⟨?_, ?_⟩
    · intro gs n tgt live pc hf hnil hs hn hv lk hlive htgt hat
      cases n with
      | nil => simp [isNil] at hnil
      | mk t tok file line l r =>
        simp only [nodeSize] at hf
        rw [valShape_mk, if_neg (by simp)] at hs
        rw [valNames_mk] at hn
        rw [valueOf_mk] at hv ⊢
        by_cases h1 : t = NodeT.NAME
        · subst h1
          rw [if_neg (by decide), if_pos rfl] at hn
          rw [if_pos rfl]
          obtain ⟨ry, a1, a2, a3⟩ := name_corr ok f gs tok file line l r tgt hn lk hat
          exact ⟨_, checkValue_var_ok a2 a1 htgt, a3⟩
        by_cases h2 : t = NodeT.NUMBER
        · subst h2
          rw [if_neg (by decide), if_pos rfl] at hv ⊢
          obtain ⟨a1, a2⟩ := number_corr f gs tok file line l r tgt lk hat
          have hk : genRangeBad (decVal tok) = false := by
            simp only [valueOK] at hv; simpa using hv
          obtain ⟨k1, k2⟩ := lit_ok hk
          rw [k1] at a1
          exact ⟨_, checkValue_num_ok a1 k2 htgt, a2⟩
        have hs' : t = NodeT.CALL ∧ l.ty = NodeT.NAME ∧ valShape true r = true := by
          simpa [h1, h2] using hs
        obtain ⟨h3, hlt, hsr⟩ := hs'
        have h0 : t ≠ NodeT.SPLIT := by rw [h3]; decide
        have hnr : valNames r = true := by
          rw [if_neg h0, if_neg h1, if_pos h3] at hn; exact hn
        simp only [if_neg h1, if_neg h2, if_pos h3, valuesOf_length] at hv ⊢
        rw [dispatchValue_succ] at lk ⊢
        simp only [if_neg h1, if_neg h2, if_pos h3] at lk ⊢
        have hr : nodeSize r + 1 ≤ f := by have := nodeSize_pos l; omega
        obtain ⟨k0, hk0⟩ := advanceLine_code gs line file
        have htop0 := advanceLine_top gs line file
        generalize gs.advanceLine line file = gs0 at *
        have va := vk_args f gs0 r [] hnr
        have hlen : (dispatchCallArgs f gs0 r []).2.length = argCount r := by
          have := ((value_char f).2 gs0 r [] hr).2
          simpa using this
        have iha := ih.2 gs0 r [] live pc .nil hr hsr hnr
        generalize hA : dispatchCallArgs f gs0 r [] = A at *
        obtain ⟨ga, al⟩ := A
        simp only at *
        obtain ⟨nw, e1, lnw, fnw⟩ := va.new
        have e1' : al = nw := by simpa using e1
        subst e1'
        obtain ⟨vct, kct⟩ := callTail_vk gs0.top.regs ga al l r tgt fnw va.vk.keep
        have lkA : VLinks X ga := lk.back vct.toGQ
        have hat0 : At X pc gs0 := hat.sites hk0 (va.vk.vq.code.trans vct.code) lk.agree
        have hlive0 : LiveOK gs0.top.regs (live ++ []) := by rw [htop0]; simpa using hlive
        by_cases hb : builtinP l r (argCount r)
        · -- the built-in `x + c` / `x - c`
          have hb' : (l.tok = bINC ∨ l.tok = bDEC) ∧ argCount r = 2 ∧ r.left.ty = NodeT.NAME ∧ r.right.left.ty = NodeT.NUMBER := hb
          simp only [if_pos hb'] at hv ⊢
          obtain ⟨bv, _⟩ := builtin_values l r hb hsr
          have hk : genRangeBad (decVal r.right.left.tok) = false := by
            split at hv <;> (simp only [valueOK] at hv; simpa using hv)
          obtain ⟨k1, k2⟩ := lit_ok hk
          have hvs : valuesOK X.src X.rt (valuesOf r) = true := by
            rw [bv]; simp only [valuesOK, valueOK]; simp [hk]
          obtain ⟨pc1, ca, at1, _⟩ := iha hvs lkA hlive0 hat0
          rw [appendV_nil, bv] at ca
          have ca' : checkArgs X.e (.cons (.var r.left.tok) (.cons (.num (decVal r.right.left.tok)) .nil)) live [] pc =
              some (al, pc1) := by rw [ca]; simp only [checkArgs]
          obtain ⟨t1, pca, c1, c2, c3⟩ := Sim.checkArgs_cons ca'
          obtain ⟨ry, d1, d2, _, d4⟩ := Sim.checkValue_var c1
          obtain ⟨t2, pcb, c4, c5, c6⟩ := Sim.checkArgs_cons c3
          obtain ⟨d5, _, _, d8⟩ := Sim.checkValue_num c4
          simp only [checkArgs] at c6
          have c6' := Option.some.inj c6
          have hal : al = [t1, t2] := by have := (Prod.mk.inj c6').1; simpa using this.symm
          have hpc1 : pc1 = pcb := (Prod.mk.inj c6').2.symm
          subst hal
          obtain ⟨c5a, c5b⟩ := tempOK_split (by simpa using c5)
          have c2' : tempOK X.e live t1 = true := by simpa using c2
          have hbl : builtinP l r ([t1, t2] : List Int).length := by rw [hlen]; exact hb
          rw [callTail_builtin ga [t1, t2] l r tgt hbl] at lk ⊢
          simp only [List.getElem?_cons_zero, Option.getD_some] at lk ⊢
          rw [k1, negInt32_nat] at lk ⊢
          have hc : ∀ c : Int, (ga.emit (.add tgt t1 c)).code = ga.code ++ [.add tgt t1 c] := fun c => rfl
          obtain ⟨i1, i2⟩ := at1.instr (t := []) (by rw [hc]; exact List.prefix_refl _) lk.agree (by intro h; cases h)
          have hfin : At X (X.e.next pc1) (ga.emit (.add tgt t1 (if l.tok = bINC then ((decVal r.right.left.tok : Nat) : Int) else -((decVal r.right.left.tok : Nat) : Int)))) := by
            rw [i2]
            exact ⟨by rw [hc]; simp, by rw [hc]; simp⟩
          refine ⟨X.e.next pc1, ?_, hfin⟩
          rw [hpc1, d8, d4] at i1 ⊢
          by_cases hinc : l.tok = bINC
          · rw [if_pos hinc] at i1 ⊢
            simp only [checkValue]
            exact checkIncDec_ok d2 d1 c2' (by rw [← d4]; exact d5) c5a c5b i1 k2 htgt
          · rw [if_neg hinc] at i1 ⊢
            simp only [checkValue]
            exact checkIncDec_ok d2 d1 c2' (by rw [← d4]; exact d5) c5a c5b i1 k2 htgt
        · -- an ordinary call
          have hb' : ¬ ((l.tok = bINC ∨ l.tok = bDEC) ∧ argCount r = 2 ∧ r.left.ty = NodeT.NAME ∧ r.right.left.ty = NodeT.NUMBER) := hb
          simp only [if_neg hb'] at hv ⊢
          rw [valueOK_call, Bool.and_eq_true] at hv
          obtain ⟨hvs, har⟩ := hv
          obtain ⟨pc1, ca, at1, _⟩ := iha hvs lkA hlive0 hat0
          rw [appendV_nil] at ca
          have ca' : checkArgs X.e (valuesOf r) live [] pc = some (al, pc1) := by rw [ca]; simp only [checkArgs]
          -- the callee
          have har' : arity X.src X.rt l.tok = some (valuesOf r).length := by simpa using har
          unfold arity at har'
          cases hlp : lookupProg X.src l.tok X.rt with
          | none => rw [hlp] at har'; cases har'
          | some jp =>
            obtain ⟨j, pd⟩ := jp
            rw [hlp] at har'
            have hpl : pd.params.length = (valuesOf r).length := by simpa using har'
            obtain ⟨p, ri, f1, f2, f3, f4, f5⟩ := lkA.func l.tok j pd hlp
            have hpa : p.argnum = al.length := by rw [f2, hpl, valuesOf_length, hlen]
            have hbl : ¬ builtinP l r al.length := by rw [hlen]; exact hb
            rw [callTail_call ga al l r tgt p hbl f1 hpa] at lk ⊢
            have hcode : ((al.zipIdx.foldl (fun g a => (g.emit (.arg a.2 a.1)).releaseTemporary a.1)
                (ga.emit (.prepare p.stackSize p.mi tgt))).emit (.exec p.ind)).code =
                ga.code ++ .prepare p.stackSize p.mi tgt :: (al.zipIdx.map (fun a => Instr.arg a.2 a.1) ++ [.exec p.ind]) := by
              rw [emit_code, argFold_code, emit_code]; simp
            generalize ((al.zipIdx.foldl (fun g a => (g.emit (.arg a.2 a.1)).releaseTemporary a.1)
                (ga.emit (.prepare p.stackSize p.mi tgt))).emit (.exec p.ind)) = ct at *
            obtain ⟨i1, i2⟩ := at1.instr (by rw [hcode]; exact List.prefix_refl _) lk.agree (by intro h; cases h)
            have hpos := at1.pos
            -- ARG instructions
            have hargs : ∀ j t, al[j]? = some t → X.C[ga.code.length + 1 + j]? = some (.arg ((0 + j : Nat) : Int) t) := by
              intro j t hj
              have hg : ct.code[ga.code.length + 1 + j]? = some (.arg (j : Int) t) := by
                rw [hcode, List.getElem?_append_right (by omega)]
                have : ga.code.length + 1 + j - ga.code.length = j + 1 := by omega
                rw [this, List.getElem?_cons_succ, List.getElem?_append_left (by
                  simp; exact (List.getElem?_eq_some_iff.1 hj).1)]
                rw [List.getElem?_map, List.getElem?_zipIdx, hj]
                simp
              have := lk.agree _ _ (by omega) hg
              rw [this]; simp [patch]
            have hci := checkArgInstrs_ok (X := X) al 0 (ga.code.length + 1) hargs
            have hexec : X.C[ga.code.length + 1 + al.length]? = some (.exec p.ind) := by
              have hg : ct.code[ga.code.length + 1 + al.length]? = some (.exec p.ind) := by
                rw [hcode, List.getElem?_append_right (by omega)]
                have : ga.code.length + 1 + al.length - ga.code.length = al.length + 1 := by omega
                rw [this, List.getElem?_cons_succ, List.getElem?_append_right (by simp)]
                simp
              have := lk.agree _ _ (by omega) hg
              rw [this]; rfl
            have hs2 : skipc X.C (ga.code.length + 1 + al.length) = ga.code.length + 1 + al.length :=
              skipc_eq_self hexec (by intro h; cases h)
            have hat2 : X.e.at (ga.code.length + 1 + al.length) = some (.exec (ri.entry : Int)) := by
              unfold VEnv.at
              show X.C[skipc X.C _]? = _
              rw [hs2, hexec, f5]
            have hnx2 : X.e.next (ga.code.length + 1 + al.length) = ct.code.length := by
              unfold VEnv.next
              show skipc X.C _ + 1 = _
              rw [hs2, hcode]; simp; omega
            refine ⟨X.e.next (ga.code.length + 1 + al.length), ?_, ?_⟩
            · refine checkValue_call_ok (cnt := p.stackSize) hlp f3 ca' (by rw [hpl, valuesOf_length, hlen]) ?_ htgt
                (by rw [i2]; exact hci) hat2
              rw [i1, ← f4]; rfl
            · rw [hnx2]
              exact At.exact (by rw [hcode, List.length_append, List.length_cons]; omega)
    · intro gs n acc live pc rest hf hs hn hv lk hlive hat
      cases n with
      | nil =>
        rw [dispatchCallArgs_nil] at lk ⊢
        rw [valuesOf_nil]
        exact ⟨pc, rfl, hat, hlive⟩
      | mk t tok file line l r =>
        have hsz : nodeSize (.mk t tok file line l r) = nodeSize l + nodeSize r + 1 := rfl
        rw [hsz] at hf
        rw [valShape_mk] at hs
        rw [valNames_mk] at hn
        rw [valuesOf_mk] at hv ⊢
        rw [dispatchCallArgs_succ] at lk ⊢
        by_cases h1 : t = NodeT.SPLIT
        · subst h1
          rw [if_pos ⟨rfl, rfl⟩, Bool.and_eq_true] at hs
          rw [if_pos rfl, Bool.and_eq_true] at hn
          simp only [if_true] at hv lk ⊢
          rw [valuesOK_appendV, Bool.and_eq_true] at hv
          have hl : nodeSize l + 1 ≤ f := by have := nodeSize_pos r; omega
          have hr : nodeSize r + 1 ≤ f := by have := nodeSize_pos l; omega
          have v2 := vk_args f (dispatchCallArgs f gs l acc).1 r (dispatchCallArgs f gs l acc).2 hn.2
          have lk1 : VLinks X (dispatchCallArgs f gs l acc).1 := lk.back v2.vk.vq.toGQ
          obtain ⟨pc1, c1, a1, l1⟩ := ih.2 gs l acc live pc (Values.appendV (valuesOf r) rest) hl hs.1 hn.1 hv.1 lk1 hlive hat
          obtain ⟨pc2, c2, a2, l2⟩ := ih.2 (dispatchCallArgs f gs l acc).1 r (dispatchCallArgs f gs l acc).2 live pc1 rest
            hr hs.2 hn.2 hv.2 lk l1 a1
          exact ⟨pc2, by rw [appendV_assoc, c1, c2], a2, l2⟩
        · rw [if_neg (fun h => h1 h.2)] at hs
          simp only [if_neg h1] at hn hv lk ⊢
          have hsv : valShape false (.mk t tok file line l r) = true := by
            rw [valShape_mk, if_neg (by simp)]; exact hs
          have hnv : valNames (.mk t tok file line l r) = true := by
            rw [valNames_mk, if_neg h1]; exact hn
          have hvv : valueOK X.src X.rt (valueOf (.mk t tok file line l r)) = true := by
            simp only [valuesOK, Bool.and_true] at hv; exact hv
          have ft := fetchTemporary_spec PV gs
          have hvk := vk_value f gs.fetchTemporary.1 (.mk t tok file line l r) gs.fetchTemporary.2 hnv
          have hlive1 : LiveOK gs.fetchTemporary.1.top.regs (live ++ acc) := hlive.keep ft.keep
          have hfree : (live ++ acc).contains gs.fetchTemporary.2 = false := hlive.not_mem_of_free ft.free
          have hat1 : At X pc gs.fetchTemporary.1 := ⟨by rw [ft.code]; exact hat.eq, by rw [ft.code]; exact hat.pos⟩
          obtain ⟨pc1, c1, a1⟩ := ih.1 gs.fetchTemporary.1 (.mk t tok file line l r) gs.fetchTemporary.2 (live ++ acc) pc
            (by rw [hsz]; omega) rfl hsv hnv hvv lk hlive1 hfree hat1
          obtain ⟨i, rg, e1, e2, e3, e4⟩ := ft.reg
          have hreg' := hvk.keep i rg e2 e4
          have htmp : tempOK X.e (live ++ acc) gs.fetchTemporary.2 = true := by
            unfold tempOK
            rw [hfree, e1, notNamed_of_links lk.regs hreg' e3]; rfl
          refine ⟨pc1, ?_, a1, ?_⟩
          · show checkArgs X.e (Values.appendV (.cons _ .nil) rest) live acc pc = _
            simp only [Values.appendV]
            exact checkArgs_cons_ok c1 htmp
          · rw [← List.append_assoc]
            refine (hlive1.keep hvk.keep).append ?_
            intro x hx
            simp at hx
            subst hx
            exact ⟨i, rg, e1, hreg', e3, e4⟩

end GenShape
end Theo
