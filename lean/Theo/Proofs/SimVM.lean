/-
  C01, part 1: executions of the VM on a certified program — exact successor states of every
  instruction (with the register bounds the certificate guarantees), skipping of breakpoint
  sites, the register-file view of an activation, and the arithmetic of `ADD`.
-/
import Theo.Spec.Shape
import Theo.Proofs.WFProofs

namespace Theo
namespace Sim
open Sem WF InvB

/-! ### runs -/

/-- `m` instructions from `vm` (the flag returned by `step` is ignored) -/
def runFrom (vm : VM) : Nat → Except Fault VM
  | 0 => .ok vm
  | m + 1 => (runFrom vm m).bind (fun v => (step v).map (·.1))

theorem runFrom_succ' (vm : VM) (m : Nat) :
    runFrom vm (m + 1) = (step vm).bind (fun r => runFrom r.1 m) := by
  induction m with
  | zero =>
    show (Except.ok vm).bind (fun v => (step v).map (·.1)) = _
    show (step vm).map (·.1) = _
    cases step vm <;> rfl
  | succ m ih =>
    show (runFrom vm (m + 1)).bind (fun v => (step v).map (·.1)) = _
    rw [ih]
    cases step vm with
    | error e => rfl
    | ok r => rfl

/-- `k` successful instructions, none of them executed at a `HALT` -/
inductive Steps : VM → Nat → VM → Prop where
  | refl (vm : VM) : Steps vm 0 vm
  | cons {vm vm1 vm' : VM} {r : Bool} {k : Nat} : vm.isDone = .ok false →
      step vm = .ok (vm1, r) → Steps vm1 k vm' → Steps vm (k + 1) vm'

theorem Steps.trans {a b c : VM} {k l : Nat} (h1 : Steps a k b) (h2 : Steps b l c) :
    Steps a (k + l) c := by
  induction h1 with
  | refl vm => rw [Nat.zero_add]; exact h2
  | cons hd hs _ ih =>
    rw [Nat.add_right_comm]
    exact Steps.cons hd hs (ih h2)

theorem Steps.run {a b : VM} {k : Nat} (h : Steps a k b) :
    runFrom a k = .ok b ∧ ∀ t, t < k → ∃ vt, runFrom a t = .ok vt ∧ vt.isDone = .ok false := by
  induction h with
  | refl vm => exact ⟨rfl, fun t ht => absurd ht (Nat.not_lt_zero t)⟩
  | @cons vm vm1 vm' r k hd hs _ ih =>
    refine ⟨?_, ?_⟩
    · rw [runFrom_succ', hs]; exact ih.1
    · intro t ht
      cases t with
      | zero => exact ⟨vm, rfl, hd⟩
      | succ t =>
        obtain ⟨vt, h1, h2⟩ := ih.2 t (by omega)
        exact ⟨vt, by rw [runFrom_succ', hs]; exact h1, h2⟩

/-- zero or more instructions -/
def SS (a b : VM) : Prop := ∃ k, Steps a k b
/-- at least one instruction -/
def SP (a b : VM) : Prop := ∃ k, Steps a (k + 1) b

theorem SS.refl (a : VM) : SS a a := ⟨0, Steps.refl a⟩
theorem SS.trans {a b c : VM} (h1 : SS a b) (h2 : SS b c) : SS a c := by
  obtain ⟨k, h1⟩ := h1; obtain ⟨l, h2⟩ := h2; exact ⟨k + l, h1.trans h2⟩
theorem SP.ss {a b : VM} (h : SP a b) : SS a b := by
  obtain ⟨k, h⟩ := h; exact ⟨k + 1, h⟩
theorem SP.trans_ss {a b c : VM} (h1 : SP a b) (h2 : SS b c) : SP a c := by
  obtain ⟨k, h1⟩ := h1; obtain ⟨l, h2⟩ := h2
  exact ⟨k + l, by rw [Nat.add_right_comm]; exact h1.trans h2⟩
theorem SS.trans_sp {a b c : VM} (h1 : SS a b) (h2 : SP b c) : SP a c := by
  obtain ⟨k, h1⟩ := h1; obtain ⟨l, h2⟩ := h2
  exact ⟨k + l, h1.trans h2⟩
theorem SP.trans {a b c : VM} (h1 : SP a b) (h2 : SP b c) : SP a c := h1.trans_ss h2.ss

/-! ### memory -/

theorem rd_eq {d : List Int} {i v : Int} (h0 : 0 ≤ i) (h : d[i.toNat]? = some v) : rd d i = .ok v := by
  unfold rd
  rw [if_neg (by omega), h]

theorem wr_eq {d : List Int} {i : Int} (v : Int) (h0 : 0 ≤ i) (h1 : i.toNat < d.length) :
    wr d i v = .ok (d.set i.toNat v) := by
  unfold wr
  rw [if_neg (by omega), if_pos h1]

theorem wr_eq' {d : List Int} {b : Nat} {t : Int} (v : Int) (h0 : 0 ≤ t) (h1 : b + t.toNat < d.length) :
    wr d ((b : Int) + t) v = .ok (d.set (b + t.toNat) v) := by
  have h := wr_eq (d := d) (i := (b : Int) + t) v (by omega) (by omega)
  rwa [show ((b : Int) + t).toNat = b + t.toNat by omega] at h

theorem rd_eq' {d : List Int} {b : Nat} {s : Int} (h0 : 0 ≤ s) (h1 : b + s.toNat < d.length) :
    rd d ((b : Int) + s) = .ok d[b + s.toNat] :=
  rd_eq (by omega) (by rw [show ((b : Int) + s).toNat = b + s.toNat by omega]
                       exact List.getElem?_eq_getElem h1)

theorem isDone_of_fetch {vm : VM} {i : Instr} (h : fetch vm.code vm.ip = .ok i) :
    vm.isDone = .ok (decide (i = .halt)) := by
  unfold VM.isDone
  rw [h]; rfl

/-! ### certified states -/

structure Good (p : Program) (c : Cert) (root : Nat) (vm : VM) : Prop where
  code : vm.code = p.code
  winv : WInv p c root vm

section
variable {p : Program} {c : Cert} {R : PcInfo}

theorem codeInv_self (hc : CertOK p c R) : CodeInv p p.code := CodeInv.init p hc.sites

theorem Good.init (p : Program) (c : Cert) (root : Nat) : Good p c root (VM.mk' p) :=
  ⟨rfl, winv_init p c root⟩

theorem Good.fetch {vm : VM} (hg : Good p c R.rid vm) {pc : Nat} {ins : Instr}
    (hip : vm.ip = (pc : Int)) (hins : p.code[pc]? = some ins) : fetch vm.code vm.ip = .ok ins := by
  rw [hg.code, hip]
  exact fetch_of_get (by omega) (by simpa using hins)

/-- one step of a certified state, with the successor described by `step` itself -/
theorem Good.step (hc : CertOK p c R) {vm : VM} (hg : Good p c R.rid vm) :
    ∃ r, step vm = .ok r ∧ Good p c R.rid r.1 := by
  have hci : CodeInv p vm.code := by rw [hg.code]; exact codeInv_self hc
  obtain ⟨r, h1, h2⟩ := step_sound hc hci hg.winv
  refine ⟨r, h1, ⟨?_, h2⟩⟩
  obtain ⟨r1, r2⟩ := r
  rw [(step_frame h1).1, hg.code]

/-- a non-`HALT` instruction whose effect `execI` computes to `vm'` -/
theorem Good.exec1 (hc : CertOK p c R) {vm vm' : VM} {b : Bool} (hg : Good p c R.rid vm) {pc : Nat}
    {ins : Instr} (hip : vm.ip = (pc : Int)) (hins : p.code[pc]? = some ins) (hnh : ins ≠ .halt)
    (he : execI ins vm = .ok (vm', b)) : Steps vm 1 vm' ∧ Good p c R.rid vm' := by
  have hf := hg.fetch hip hins
  have hs : Theo.step vm = .ok (vm', b) := by rw [step_eq, hf]; exact he
  obtain ⟨r, h1, h2⟩ := hg.step hc
  rw [hs] at h1
  cases h1
  refine ⟨Steps.cons ?_ hs (Steps.refl _), h2⟩
  rw [isDone_of_fetch hf]
  simp [hnh]

/-- the annotation of a state with a non-empty stack -/
theorem Good.info {vm : VM} (hg : Good p c R.rid vm) {a : Act} {rest : List Act}
    (hst : vm.stack = a :: rest) :
    ∃ I, c.info vm.ip = some I ∧ StackOK p c R.rid I vm.stack ∧ Tiles vm.stack vm.data.length := by
  rcases hg.winv with ⟨_, h, _⟩ | h
  · rw [hst] at h; cases h
  · exact h

theorem Good.chk (hc : CertOK p c R) {vm : VM} (hg : Good p c R.rid vm) {a : Act} {rest : List Act}
    (hst : vm.stack = a :: rest) {pc : Nat} {ins : Instr}
    (hip : vm.ip = (pc : Int)) (hins : p.code[pc]? = some ins) :
    ∃ I, checkPc p c R.rid pc ins I = true ∧ StackOK p c R.rid I vm.stack ∧
      Tiles vm.stack vm.data.length := by
  obtain ⟨I, hi, hs, ht⟩ := hg.info hst
  exact ⟨I, hc.chk pc I ins (by rw [← hip]; exact hi) hins, hs, ht⟩

theorem Good.tiles {vm : VM} (hg : Good p c R.rid vm) : Tiles vm.stack vm.data.length :=
  winv_tiles hg.winv

/-- the executing activation when no call is being prepared -/
theorem top_of {root : Nat} {I : PcInfo} {st : List Act} {a : Act} {rest : List Act}
    (hs : StackOK p c root I st) (hp : I.pend = none) (hst : st = a :: rest) :
    a.segSize = (I.frame : Int) := by
  obtain ⟨a', rest', h, hseg, _, _⟩ := hs.1 hp
  rw [hst] at h
  cases h
  exact hseg

/-- inside a call sequence: the prepared callee on top of the executing activation -/
theorem pend_of {root : Nat} {I : PcInfo} {st : List Act} {a : Act} {rest : List Act} {cf j : Nat}
    (hs : StackOK p c root I st) (hp : I.pend = some (cf, j)) (hst : st = a :: rest) :
    ∃ b rest', rest = b :: rest' ∧ a.segSize = (cf : Int) ∧ b.segSize = (I.frame : Int) ∧
      0 ≤ a.retTarget ∧ a.retTarget < (I.frame : Int) := by
  obtain ⟨callee, rest0, h, hcs, _, h0, h1, _, htop⟩ := hs.2 cf j hp
  rw [hst] at h
  cases h
  obtain ⟨b, rest', rfl, hseg, _, _⟩ := htop
  exact ⟨b, rest', rfl, hcs, hseg, h0, h1⟩

/-! ### exact successor states, one lemma per instruction -/

theorem x_pb (hc : CertOK p c R) {vm : VM} (hg : Good p c R.rid vm) {pc : Nat}
    (hip : vm.ip = (pc : Int)) (hins : p.code[pc]? = some .potBreak) :
    ∃ vm', Steps vm 1 vm' ∧ Good p c R.rid vm' ∧ vm'.ip = (pc : Int) + 1 ∧
      vm'.stack = vm.stack ∧ vm'.data = vm.data := by
  obtain ⟨h1, h2⟩ := hg.exec1 hc hip hins (by decide)
    (show execI .potBreak vm = .ok ({ vm with ip := vm.ip + 1 }, vm.stepping) from rfl)
  exact ⟨_, h1, h2, by show vm.ip + 1 = _; rw [hip], rfl, rfl⟩

theorem x_jmp (hc : CertOK p c R) {vm : VM} (hg : Good p c R.rid vm) {pc : Nat} {off : Int}
    (hip : vm.ip = (pc : Int)) (hins : p.code[pc]? = some (.jmp off)) :
    ∃ vm', Steps vm 1 vm' ∧ Good p c R.rid vm' ∧ vm'.ip = (pc : Int) + off ∧
      vm'.stack = vm.stack ∧ vm'.data = vm.data := by
  obtain ⟨h1, h2⟩ := hg.exec1 hc hip hins (by simp)
    (show execI (.jmp off) vm = .ok ({ vm with ip := vm.ip + off }, false) from rfl)
  exact ⟨_, h1, h2, by show vm.ip + off = _; rw [hip], rfl, rfl⟩

theorem x_add (hc : CertOK p c R) {vm : VM} (hg : Good p c R.rid vm) {a : Act} {rest : List Act}
    (hst : vm.stack = a :: rest) {pc : Nat} {t s k : Int}
    (hip : vm.ip = (pc : Int)) (hins : p.code[pc]? = some (.add t s k)) :
    0 ≤ t ∧ t < a.segSize ∧ 0 ≤ s ∧ s < a.segSize ∧
    ∃ v, vm.data[a.dataStart + s.toNat]? = some v ∧
    ∃ vm', Steps vm 1 vm' ∧ Good p c R.rid vm' ∧ vm'.ip = (pc : Int) + 1 ∧
      vm'.stack = vm.stack ∧ vm'.data = vm.data.set (a.dataStart + t.toNat) (addClamp v k) := by
  obtain ⟨I, hk, hs, ht⟩ := hg.chk hc hst hip hins
  simp only [checkPc, Bool.and_eq_true, beq_iff_eq, regOK_iff, Option.isNone_iff_eq_none] at hk
  obtain ⟨⟨⟨hp, ht1⟩, hs1⟩, _⟩ := hk
  have hseg := top_of hs hp hst
  rw [hst] at ht
  obtain ⟨_, hsum, _⟩ := ht
  have hlt : a.dataStart + s.toNat < vm.data.length := by omega
  refine ⟨ht1.1, by omega, hs1.1, by omega, vm.data[a.dataStart + s.toNat], List.getElem?_eq_getElem hlt, ?_⟩
  have hrd := rd_eq' (d := vm.data) (b := a.dataStart) hs1.1 hlt
  have hwr := wr_eq' (d := vm.data) (b := a.dataStart) (t := t)
    (addClamp vm.data[a.dataStart + s.toNat] k) ht1.1 (by omega)
  obtain ⟨h1, h2⟩ := hg.exec1 hc hip hins (by simp)
    (show execI (.add t s k) vm = .ok ({ vm with
        data := vm.data.set (a.dataStart + t.toNat) (addClamp vm.data[a.dataStart + s.toNat] k),
        ip := vm.ip + 1 }, false) by
      simp only [execI, hst, bind, Except.bind, hrd, hwr, pure, Except.pure])
  exact ⟨_, h1, h2, by show vm.ip + 1 = _; rw [hip], rfl, rfl⟩

theorem x_const (hc : CertOK p c R) {vm : VM} (hg : Good p c R.rid vm) {a : Act} {rest : List Act}
    (hst : vm.stack = a :: rest) {pc : Nat} {t k : Int}
    (hip : vm.ip = (pc : Int)) (hins : p.code[pc]? = some (.const t k)) :
    0 ≤ t ∧ t < a.segSize ∧
    ∃ vm', Steps vm 1 vm' ∧ Good p c R.rid vm' ∧ vm'.ip = (pc : Int) + 1 ∧
      vm'.stack = vm.stack ∧ vm'.data = vm.data.set (a.dataStart + t.toNat) k := by
  obtain ⟨I, hk, hs, ht⟩ := hg.chk hc hst hip hins
  simp only [checkPc, Bool.and_eq_true, beq_iff_eq, regOK_iff, Option.isNone_iff_eq_none] at hk
  obtain ⟨⟨hp, ht1⟩, _⟩ := hk
  have hseg := top_of hs hp hst
  rw [hst] at ht
  obtain ⟨_, hsum, _⟩ := ht
  refine ⟨ht1.1, by omega, ?_⟩
  have hwr := wr_eq' (d := vm.data) (b := a.dataStart) (t := t) k ht1.1 (by omega)
  obtain ⟨h1, h2⟩ := hg.exec1 hc hip hins (by simp)
    (show execI (.const t k) vm = .ok ({ vm with
        data := vm.data.set (a.dataStart + t.toNat) k, ip := vm.ip + 1 }, false) by
      simp only [execI, hst, bind, Except.bind, hwr, pure, Except.pure])
  exact ⟨_, h1, h2, by show vm.ip + 1 = _; rw [hip], rfl, rfl⟩

theorem x_test (hc : CertOK p c R) {vm : VM} (hg : Good p c R.rid vm) {a : Act} {rest : List Act}
    (hst : vm.stack = a :: rest) {pc : Nat} {t x y : Int}
    (hip : vm.ip = (pc : Int)) (hins : p.code[pc]? = some (.test t x y)) :
    0 ≤ t ∧ t < a.segSize ∧ 0 ≤ x ∧ x < a.segSize ∧ 0 ≤ y ∧ y < a.segSize ∧
    ∃ v1 v2, vm.data[a.dataStart + x.toNat]? = some v1 ∧ vm.data[a.dataStart + y.toNat]? = some v2 ∧
    ∃ vm', Steps vm 1 vm' ∧ Good p c R.rid vm' ∧ vm'.ip = (pc : Int) + 1 ∧
      vm'.stack = vm.stack ∧
      vm'.data = vm.data.set (a.dataStart + t.toNat) (if v1 = v2 then 0 else 1) := by
  obtain ⟨I, hk, hs, ht⟩ := hg.chk hc hst hip hins
  simp only [checkPc, Bool.and_eq_true, beq_iff_eq, regOK_iff, Option.isNone_iff_eq_none] at hk
  obtain ⟨⟨⟨⟨hp, ht1⟩, hx1⟩, hy1⟩, _⟩ := hk
  have hseg := top_of hs hp hst
  rw [hst] at ht
  obtain ⟨_, hsum, _⟩ := ht
  have hltx : a.dataStart + x.toNat < vm.data.length := by omega
  have hlty : a.dataStart + y.toNat < vm.data.length := by omega
  refine ⟨ht1.1, by omega, hx1.1, by omega, hy1.1, by omega, vm.data[a.dataStart + x.toNat],
    vm.data[a.dataStart + y.toNat], List.getElem?_eq_getElem hltx, List.getElem?_eq_getElem hlty, ?_⟩
  have hrx := rd_eq' (d := vm.data) (b := a.dataStart) hx1.1 hltx
  have hry := rd_eq' (d := vm.data) (b := a.dataStart) hy1.1 hlty
  have hwr := wr_eq' (d := vm.data) (b := a.dataStart) (t := t)
    (if vm.data[a.dataStart + x.toNat] = vm.data[a.dataStart + y.toNat] then 0 else 1) ht1.1 (by omega)
  obtain ⟨h1, h2⟩ := hg.exec1 hc hip hins (by simp)
    (show execI (.test t x y) vm = .ok ({ vm with
        data := vm.data.set (a.dataStart + t.toNat)
          (if vm.data[a.dataStart + x.toNat] = vm.data[a.dataStart + y.toNat] then 0 else 1),
        ip := vm.ip + 1 }, false) by
      simp only [execI, hst, bind, Except.bind, hrx, hry, hwr, pure, Except.pure])
  exact ⟨_, h1, h2, by show vm.ip + 1 = _; rw [hip], rfl, rfl⟩

theorem x_jmpc (hc : CertOK p c R) {vm : VM} (hg : Good p c R.rid vm) {a : Act} {rest : List Act}
    (hst : vm.stack = a :: rest) {pc : Nat} {off s : Int}
    (hip : vm.ip = (pc : Int)) (hins : p.code[pc]? = some (.jmpc off s)) :
    0 ≤ s ∧ s < a.segSize ∧
    ∃ v, vm.data[a.dataStart + s.toNat]? = some v ∧
    ∃ vm', Steps vm 1 vm' ∧ Good p c R.rid vm' ∧
      vm'.ip = (if v = 0 then (pc : Int) + off else (pc : Int) + 1) ∧
      vm'.stack = vm.stack ∧ vm'.data = vm.data := by
  obtain ⟨I, hk, hs, ht⟩ := hg.chk hc hst hip hins
  simp only [checkPc, Bool.and_eq_true, beq_iff_eq, regOK_iff, Option.isNone_iff_eq_none] at hk
  obtain ⟨⟨⟨hp, hs1⟩, _⟩, _⟩ := hk
  have hseg := top_of hs hp hst
  rw [hst] at ht
  obtain ⟨_, hsum, _⟩ := ht
  have hlt : a.dataStart + s.toNat < vm.data.length := by omega
  refine ⟨hs1.1, by omega, vm.data[a.dataStart + s.toNat], List.getElem?_eq_getElem hlt, ?_⟩
  have hrd := rd_eq' (d := vm.data) (b := a.dataStart) hs1.1 hlt
  obtain ⟨h1, h2⟩ := hg.exec1 hc hip hins (by simp)
    (show execI (.jmpc off s) vm = .ok ({ vm with
        ip := if vm.data[a.dataStart + s.toNat] = 0 then vm.ip + off else vm.ip + 1 }, false) by
      simp only [execI, hst, bind, Except.bind, hrd, pure, Except.pure])
  exact ⟨_, h1, h2, by show (if _ then vm.ip + off else vm.ip + 1) = _; rw [hip], rfl, rfl⟩

theorem x_prepare (hc : CertOK p c R) {vm : VM} (hg : Good p c R.rid vm) {a : Act} {rest : List Act}
    (hst : vm.stack = a :: rest) {pc : Nat} {cnt idx tgt : Int}
    (hip : vm.ip = (pc : Int)) (hins : p.code[pc]? = some (.prepare cnt idx tgt)) :
    0 ≤ cnt ∧ 0 ≤ tgt ∧ tgt < a.segSize ∧
    ∃ vm', Steps vm 1 vm' ∧ Good p c R.rid vm' ∧ vm'.ip = (pc : Int) + 1 ∧
      vm'.stack = ⟨vm.data.length, cnt, tgt, -1, idx⟩ :: vm.stack ∧
      vm'.data = vm.data ++ List.replicate cnt.toNat 0 := by
  obtain ⟨I, hk, hs, ht⟩ := hg.chk hc hst hip hins
  simp only [checkPc, Bool.and_eq_true, decide_eq_true_eq, regOK_iff,
    Option.isNone_iff_eq_none] at hk
  obtain ⟨⟨⟨⟨hp, hcnt⟩, htgt⟩, _⟩, _⟩ := hk
  have hseg := top_of hs hp hst
  refine ⟨hcnt, htgt.1, by omega, ?_⟩
  obtain ⟨h1, h2⟩ := hg.exec1 hc hip hins (by simp)
    (show execI (.prepare cnt idx tgt) vm = .ok ({ vm with
        data := vm.data ++ List.replicate cnt.toNat 0,
        stack := ⟨vm.data.length, cnt, tgt, -1, idx⟩ :: vm.stack, ip := vm.ip + 1 }, false) from rfl)
  exact ⟨_, h1, h2, by show vm.ip + 1 = _; rw [hip], rfl, rfl⟩

theorem x_arg (hc : CertOK p c R) {vm : VM} (hg : Good p c R.rid vm) {a b : Act} {rest : List Act}
    (hst : vm.stack = a :: b :: rest) {pc : Nat} {t s : Int}
    (hip : vm.ip = (pc : Int)) (hins : p.code[pc]? = some (.arg t s)) :
    0 ≤ t ∧ t < a.segSize ∧ 0 ≤ s ∧ s < b.segSize ∧
    ∃ v, vm.data[b.dataStart + s.toNat]? = some v ∧
    ∃ vm', Steps vm 1 vm' ∧ Good p c R.rid vm' ∧ vm'.ip = (pc : Int) + 1 ∧
      vm'.stack = vm.stack ∧ vm'.data = vm.data.set (a.dataStart + t.toNat) v := by
  obtain ⟨I, hk, hs, ht⟩ := hg.chk hc hst hip hins
  simp only [checkPc] at hk
  split at hk
  · rename_i cf j hp
    simp only [Bool.and_eq_true, beq_iff_eq, regOK_iff] at hk
    obtain ⟨⟨ht1, hs1⟩, _⟩ := hk
    obtain ⟨b', rest', hr, hca, hcb, _, _⟩ := pend_of hs hp hst
    cases hr
    rw [hst] at ht
    obtain ⟨_, hsum, _, hsum2, _⟩ := ht
    have hlt : b.dataStart + s.toNat < vm.data.length := by omega
    refine ⟨ht1.1, by omega, hs1.1, by omega, vm.data[b.dataStart + s.toNat],
      List.getElem?_eq_getElem hlt, ?_⟩
    have hrd := rd_eq' (d := vm.data) (b := b.dataStart) hs1.1 hlt
    have hwr := wr_eq' (d := vm.data) (b := a.dataStart) (t := t) vm.data[b.dataStart + s.toNat]
      ht1.1 (by omega)
    obtain ⟨h1, h2⟩ := hg.exec1 hc hip hins (by simp)
      (show execI (.arg t s) vm = .ok ({ vm with
          data := vm.data.set (a.dataStart + t.toNat) vm.data[b.dataStart + s.toNat],
          ip := vm.ip + 1 }, false) by
        simp only [execI, hst, bind, Except.bind, hrd, hwr, pure, Except.pure])
    exact ⟨_, h1, h2, by show vm.ip + 1 = _; rw [hip], rfl, rfl⟩
  · cases hk

theorem x_exec (hc : CertOK p c R) {vm : VM} (hg : Good p c R.rid vm) {a : Act} {rest : List Act}
    (hst : vm.stack = a :: rest) {pc : Nat} {entry : Int}
    (hip : vm.ip = (pc : Int)) (hins : p.code[pc]? = some (.exec entry)) :
    ∃ vm', Steps vm 1 vm' ∧ Good p c R.rid vm' ∧ vm'.ip = entry ∧
      vm'.stack = { a with retAddr := (pc : Int) + 1 } :: rest ∧ vm'.data = vm.data := by
  obtain ⟨h1, h2⟩ := hg.exec1 hc hip hins (by simp)
    (show execI (.exec entry) vm = .ok ({ vm with
        stack := { a with retAddr := vm.ip + 1 } :: rest, ip := entry }, false) by
      simp only [execI, hst, pure, Except.pure])
  exact ⟨_, h1, h2, rfl, by show { a with retAddr := vm.ip + 1 } :: rest = _; rw [hip], rfl⟩

theorem x_ret (hc : CertOK p c R) {vm : VM} (hg : Good p c R.rid vm) {a b : Act} {rest : List Act}
    (hst : vm.stack = a :: b :: rest) {pc : Nat} {s : Int}
    (hip : vm.ip = (pc : Int)) (hins : p.code[pc]? = some (.ret s)) :
    0 ≤ s ∧ s < a.segSize ∧ 0 ≤ a.retTarget ∧ a.retTarget < b.segSize ∧
    ∃ v, vm.data[a.dataStart + s.toNat]? = some v ∧
    ∃ vm', Steps vm 1 vm' ∧ Good p c R.rid vm' ∧ vm'.ip = a.retAddr ∧
      vm'.stack = b :: rest ∧
      vm'.data = (vm.data.set (b.dataStart + a.retTarget.toNat) v).take a.dataStart := by
  obtain ⟨I, hk, hs, ht⟩ := hg.chk hc hst hip hins
  simp only [checkPc, Bool.and_eq_true, decide_eq_true_eq, regOK_iff,
    Option.isNone_iff_eq_none] at hk
  obtain ⟨⟨hp, hs1⟩, _⟩ := hk
  have hseg := top_of hs hp hst
  obtain ⟨a', rest0, h, _, _, hch⟩ := hs.1 hp
  rw [hst] at h
  cases h
  simp only [Chain] at hch
  obtain ⟨J, _, _, hbs, _, hrt0, hrt1, _, _⟩ := hch
  rw [hst] at ht
  obtain ⟨_, hsum, _, hsum2, _⟩ := ht
  have hlt : a.dataStart + s.toNat < vm.data.length := by omega
  refine ⟨hs1.1, by omega, hrt0, by omega, vm.data[a.dataStart + s.toNat],
    List.getElem?_eq_getElem hlt, ?_⟩
  have hrd := rd_eq' (d := vm.data) (b := a.dataStart) hs1.1 hlt
  have hwr := wr_eq' (d := vm.data) (b := b.dataStart) (t := a.retTarget)
    vm.data[a.dataStart + s.toNat] hrt0 (by omega)
  obtain ⟨h1, h2⟩ := hg.exec1 hc hip hins (by simp)
    (show execI (.ret s) vm = .ok ({ vm with
        data := (vm.data.set (b.dataStart + a.retTarget.toNat) vm.data[a.dataStart + s.toNat]).take
          a.dataStart,
        stack := b :: rest, ip := a.retAddr }, false) by
      simp only [execI, hst, bind, Except.bind, hrd, hwr, pure, Except.pure])
  exact ⟨_, h1, h2, rfl, rfl, rfl⟩

/-! ### breakpoint sites are skipped -/

theorem skipPB_steps (hc : CertOK p c R) : ∀ (f pc : Nat) (vm : VM), Good p c R.rid vm →
    vm.ip = (pc : Int) →
    ∃ vm', SS vm vm' ∧ Good p c R.rid vm' ∧ vm'.ip = ((skipPB p.code f pc : Nat) : Int) ∧
      vm'.stack = vm.stack ∧ vm'.data = vm.data := by
  intro f
  induction f with
  | zero => intro pc vm hg hip; exact ⟨vm, SS.refl _, hg, hip, rfl, rfl⟩
  | succ f ih =>
    intro pc vm hg hip
    by_cases h : p.code[pc]? = some Instr.potBreak
    · obtain ⟨vm1, h1, hg1, hip1, hs1, hd1⟩ := x_pb hc hg hip h
      obtain ⟨vm2, h2, hg2, hip2, hs2, hd2⟩ := ih (pc + 1) vm1 hg1 (by rw [hip1]; rfl)
      refine ⟨vm2, SS.trans ⟨1, h1⟩ h2, hg2, ?_, by rw [hs2, hs1], by rw [hd2, hd1]⟩
      rw [hip2]
      simp only [skipPB, h]
    · refine ⟨vm, SS.refl _, hg, ?_, rfl, rfl⟩
      rw [hip]
      unfold skipPB
      split
      · rename_i h'; exact absurd h' h
      · rfl

/-- `ip` reaches the same real instruction as position `pc` through sites only -/
def Anch (code : List Instr) (ip : Int) (pc : Nat) : Prop :=
  0 ≤ ip ∧ skipc code ip.toNat = skipc code pc

theorem Anch.self (code : List Instr) (pc : Nat) : Anch code (pc : Int) pc :=
  ⟨by omega, by simp⟩

theorem sameAnchor_iff {code : List Instr} {a : Int} {b : Nat} :
    sameAnchor code a b = true ↔ Anch code a b := by
  unfold sameAnchor Anch
  rw [Bool.and_eq_true, decide_eq_true_eq, beq_iff_eq]

theorem to_anchor (hc : CertOK p c R) {vm : VM} (hg : Good p c R.rid vm) {pc : Nat}
    (ha : Anch p.code vm.ip pc) :
    ∃ vm', SS vm vm' ∧ Good p c R.rid vm' ∧ vm'.ip = ((skipc p.code pc : Nat) : Int) ∧
      vm'.stack = vm.stack ∧ vm'.data = vm.data := by
  obtain ⟨h0, h1⟩ := ha
  obtain ⟨vm', h⟩ := skipPB_steps hc p.code.length vm.ip.toNat vm hg (by omega)
  refine ⟨vm', ?_⟩
  rw [← h1]
  exact h

end

/-! ### the register file of an activation -/

/-- register `r` of activation `a` lies in its frame and holds the word `n` -/
def Holds (d : List Int) (a : Act) (r : Int) (n : Nat) : Prop :=
  0 ≤ r ∧ r < a.segSize ∧ d[a.dataStart + r.toNat]? = some (n : Int) ∧ n ≤ WORD_MAX

/-- the words below address `N` are the same -/
def SameBelow (N : Nat) (d d' : List Int) : Prop := ∀ i, i < N → d'[i]? = d[i]?

theorem SameBelow.refl (N : Nat) (d : List Int) : SameBelow N d d := fun _ _ => rfl

theorem SameBelow.trans {N : Nat} {d d' d'' : List Int} (h1 : SameBelow N d d')
    (h2 : SameBelow N d' d'') : SameBelow N d d'' := fun i hi => (h2 i hi).trans (h1 i hi)

theorem SameBelow.mono {N M : Nat} {d d' : List Int} (h : SameBelow N d d') (hm : M ≤ N) :
    SameBelow M d d' := fun i hi => h i (by omega)

theorem SameBelow.set {N : Nat} (d : List Int) {i : Nat} (v : Int) (h : N ≤ i) :
    SameBelow N d (d.set i v) := by
  intro j hj
  rw [List.getElem?_set_ne (by omega)]

theorem SameBelow.append {N : Nat} (d e : List Int) (h : N ≤ d.length) :
    SameBelow N d (d ++ e) := by
  intro j hj
  rw [List.getElem?_append_left (by omega)]

theorem SameBelow.take {N : Nat} (d : List Int) {M : Nat} (h : N ≤ M) :
    SameBelow N d (d.take M) := by
  intro j hj
  rw [List.getElem?_take_of_lt (by omega)]

theorem Holds.below {d d' : List Int} {a : Act} {r : Int} {n N : Nat} (h : Holds d a r n)
    (hN : a.dataStart + a.segSize.toNat ≤ N) (hs : SameBelow N d d') : Holds d' a r n := by
  obtain ⟨h0, h1, h2, h3⟩ := h
  exact ⟨h0, h1, by rw [hs _ (by omega)]; exact h2, h3⟩

theorem Holds.set_same {d : List Int} {a : Act} {t : Int} {n : Nat} (h0 : 0 ≤ t)
    (h1 : t < a.segSize) (hl : a.dataStart + a.segSize.toNat ≤ d.length) (hn : n ≤ WORD_MAX) :
    Holds (d.set (a.dataStart + t.toNat) (n : Int)) a t n :=
  ⟨h0, h1, List.getElem?_set_self (by omega), hn⟩

theorem Holds.set_other {d : List Int} {a : Act} {r t : Int} {n : Nat} (v : Int)
    (h : Holds d a r n) (hne : r ≠ t) (h0 : 0 ≤ t) :
    Holds (d.set (a.dataStart + t.toNat) v) a r n := by
  obtain ⟨g0, g1, g2, g3⟩ := h
  refine ⟨g0, g1, ?_, g3⟩
  rw [List.getElem?_set_ne (by omega)]
  exact g2

/-! ### the arithmetic of `ADD` on words -/

theorem clamp_zero {n : Nat} (h : n ≤ WORD_MAX) : addClamp (n : Int) 0 = (n : Int) := by
  unfold WORD_MAX at h
  unfold addClamp INT_MAX
  simp only [Int.min_def, Int.max_def]
  (repeat' split) <;> omega

theorem clamp_inc {n k : Nat} : addClamp (n : Int) (k : Int) = ((addSat n k : Nat) : Int) := by
  unfold addClamp INT_MAX addSat WORD_MAX
  simp only [Int.min_def, Int.max_def, Nat.min_def]
  (repeat' split) <;> omega

theorem clamp_dec {n k : Nat} (h : n ≤ WORD_MAX) :
    addClamp (n : Int) (-(k : Int)) = ((n - k : Nat) : Int) := by
  unfold WORD_MAX at h
  unfold addClamp INT_MAX
  simp only [Int.min_def, Int.max_def]
  (repeat' split) <;> omega

theorem clamp_pred {n : Nat} (h : n ≤ WORD_MAX) :
    addClamp (n : Int) (-1) = ((n - 1 : Nat) : Int) := by
  unfold WORD_MAX at h
  unfold addClamp INT_MAX
  simp only [Int.min_def, Int.max_def]
  (repeat' split) <;> omega

theorem addSat_le (n k : Nat) : addSat n k ≤ WORD_MAX := by
  unfold addSat; omega

end Sim
end Theo
