/-
  C04 (sugar) — the stages in front of the macro application for a source without definitions:
  the scanner delivers the standard file's tokens followed by the user's (`front_scan`), and
  extraction yields exactly `stdDefs`, no error, and the user's tokens (`front_extract`).
-/
import Theo.Proofs.SugarLex

namespace Theo.Sugar

/-- the file table `Theo::parse` scans: the hidden standard file is added (unless the caller
    supplies a file of that name), and the include phrase is put in front of the main file -/
def frontFiles (files : Files) (main : Bytes) : Files :=
  (if files.has ConstGen.stdFileName then files
   else files ++ [(ConstGen.stdFileName, ConstGen.stdMacroText)]).map
    (fun e => if e.1 = main then (e.1, ConstGen.includePhrase ++ e.2) else e)

/-- the scan of the main file's own text (its includes resolved in `frontFiles`) -/
def userScan (files : Files) (main content : Bytes) : ScanOut :=
  scanToks (frontFiles files main) (frontFiles files main).length [main] main (lexBuffer content)

theorem get?_append_one (fs : Files) (x : Bytes × Bytes) (a : Bytes) :
    (fs ++ [x]).get? a = match fs.get? a with
      | some c => some c
      | none => if x.1 = a then some x.2 else none := by
  unfold Files.get?
  rw [List.find?_append]
  cases h : fs.find? (fun e => decide (e.1 = a)) with
  | some e => rfl
  | none =>
    simp only [Option.none_or, Option.map_none, List.find?_cons, List.find?_nil]
    by_cases hx : x.1 = a <;> simp [hx]

theorem get?_map_main (fs : Files) (main a : Bytes) (g : Bytes → Bytes) :
    Files.get? (fs.map (fun e => if e.1 = main then (e.1, g e.2) else e)) a =
      (fs.get? a).map (fun c => if a = main then g c else c) := by
  unfold Files.get?
  induction fs with
  | nil => rfl
  | cons e fs ih =>
    simp only [List.map_cons, List.find?_cons]
    by_cases hm : e.1 = main
    · simp only [hm, if_true]
      by_cases ha : main = a
      · subst ha; simp
      · simp only [ha, decide_false]
        exact ih
    · simp only [hm, if_false]
      by_cases ha : e.1 = a
      · subst ha; simp [hm]
      · simp only [ha, decide_false]
        exact ih

section front
variable {files : Files} {main content : Bytes}

theorem frontFiles_facts (hstd : files.has ConstGen.stdFileName = false) (hmain : files.get? main = some content) :
    (frontFiles files main).get? main = some (ConstGen.includePhrase ++ content) ∧
    (frontFiles files main).get? ConstGen.stdFileName = some ConstGen.stdMacroText ∧
    (frontFiles files main).length = files.length + 1 ∧ main ≠ ConstGen.stdFileName := by
  have hne : main ≠ ConstGen.stdFileName := by
    intro h; subst h
    rw [Files.has, hmain] at hstd; cases hstd
  have hstd' : files.get? ConstGen.stdFileName = none := by
    rw [Files.has] at hstd
    cases h : files.get? ConstGen.stdFileName with
    | none => rfl
    | some c => rw [h] at hstd; cases hstd
  unfold frontFiles
  rw [hstd]
  simp only [Bool.false_eq_true, if_false]
  refine ⟨?_, ?_, by simp, hne⟩
  · rw [get?_map_main, get?_append_one, hmain]; simp
  · rw [get?_map_main, get?_append_one, hstd']
    have : ¬ ConstGen.stdFileName = main := fun h => hne h.symm
    simp [this]

/-- closed facts about the standard file's own tokens -/
theorem stdBody_facts :
    (∀ t ∈ lexBuffer ConstGen.stdMacroText, t.kind ≠ Tok.INCLUDE) ∧ stdBody ≠ [] := by
  have h : (lexBuffer ConstGen.stdMacroText).all (fun t => t.kind != Tok.INCLUDE) = true ∧
      stdBody.isEmpty = false := by decide +kernel
  refine ⟨fun t ht => ?_, fun he => ?_⟩
  · have := List.all_eq_true.1 h.1 t ht
    simpa using this
  · rw [he] at h; exact absurd h.2 (by simp)

/-- **scanning**: what `Theo::parse` scans is the standard file's tokens, then the tokens of the
    main file's own text (`userScan`), then the end marker; the scanner errors are those of the
    main file's text -/
theorem front_scan (hstd : files.has ConstGen.stdFileName = false) (hmain : files.get? main = some content) :
    ∃ eof : Token, eof.kind = Tok.T_EOF ∧
      (scan (frontFiles files main) main).toks = stdBody ++ ((userScan files main content).toks ++ [eof]) ∧
      (scan (frontFiles files main) main).errs = (userScan files main content).errs := by
  obtain ⟨h1, h2, h3, hne⟩ := frontFiles_facts hstd hmain
  have hF := phraseFacts_ok
  simp only [phraseFacts, Bool.and_eq_true, beq_iff_eq] at hF
  have hunq : unquote incQuoted = ConstGen.stdFileName := hF.1.2
  -- the body of the scan
  have hbody : scanBody (frontFiles files main) main =
      (ScanOut.mk stdBody [] false).append (userScan files main content) := by
    unfold scanBody userScan scanToks stdBody
    rw [h1]
    simp only
    rw [scanFile, lexBuffer_phrase]
    have := scanToks_include (frontFiles files main) (frontFiles files main).length [main] main
      ⟨Tok.INCLUDE, incWord, 1⟩ ⟨Tok.FNAME, incQuoted, 1⟩ (lexBuffer content) rfl rfl
    unfold scanToks at this
    rw [this]
    simp only [hunq, h2]
    have hact : ([main] : List Bytes).contains ConstGen.stdFileName = false := by
      have : ¬ ConstGen.stdFileName = main := fun h => hne h.symm
      simp [this]
    rw [hact]
    simp only [Bool.false_eq_true, if_false]
    rw [h3, scanFile, scanToksWith_noinc _ _ _ _ _ stdBody_facts.1]
  refine ⟨scanEof (frontFiles files main) main, scanEof_kind _ _, ?_, ?_⟩
  · rw [scan_toks, hbody]
    simp [ScanOut.append]
  · show (scanBody (frontFiles files main) main).errs = _
    rw [hbody]
    simp [ScanOut.append]

/-- the tokens of the user's source as they reach the macro stage: what the scanner delivers
    behind the standard file (the main file's tokens with its includes, and the end marker) -/
def userToks (files : Files) (main : Bytes) : List Token :=
  (scan (frontFiles files main) main).toks.drop stdBody.length

theorem userToks_eq (hstd : files.has ConstGen.stdFileName = false) (hmain : files.get? main = some content) :
    (scan (frontFiles files main) main).toks = stdBody ++ userToks files main ∧
    (∃ eof : Token, eof.kind = Tok.T_EOF ∧ userToks files main = (userScan files main content).toks ++ [eof]) ∧
    (∀ t ∈ (userScan files main content).toks, t.kind ≠ Tok.T_EOF) ∧
    Scanned (userToks files main) := by
  obtain ⟨eof, he, ht, _⟩ := front_scan hstd hmain
  have hu : userToks files main = (userScan files main content).toks ++ [eof] := by
    unfold userToks; rw [ht, List.drop_left' rfl]
  have hk := scan_kinds_le (frontFiles files main) main
  refine ⟨by rw [hu]; exact ht, ⟨eof, he, hu⟩, ?_, ?_, _, eof, hu, he⟩
  · intro t htm
    have hb := scanBody_tok_kinds (frontFiles files main) main
    have hs := scan_toks (frontFiles files main) main
    rw [ht, ← List.append_assoc] at hs
    have := List.append_inj_left' hs rfl
    exact hb t (by rw [← this]; exact List.mem_append_right _ htm)
  · intro t htm
    exact hk t (by rw [ht, ← hu]; exact List.mem_append_right _ htm)

/-- **scanner + extraction** for a source without definitions: no extraction error, the
    definitions are exactly `stdDefs`, and the user's tokens are passed on unchanged -/
theorem front_extract (hstd : files.has ConstGen.stdFileName = false) (hmain : files.get? main = some content)
    (hnodef : ∀ t ∈ userToks files main, t.kind ≠ Tok.DEFINE) :
    extractMacros (scan (frontFiles files main) main).toks = ⟨[], userToks files main, stdDefs⟩ := by
  obtain ⟨hs, ⟨eof, he, hu⟩, hne, _⟩ := userToks_eq hstd hmain
  rw [hs, hu]
  exact extract_std _ eof (fun t ht => ⟨hne t ht, hnodef t (by rw [hu]; exact List.mem_append_left _ ht)⟩) he

end front
end Theo.Sugar
