/-
  C03 for the generator, part 3: the body invariant `BInv` through `dispatchValue`,
  `dispatchCallArgs` and `dispatchVoid` (statement lists without program definitions), under the
  hypothesis that the resulting state records no error.
-/
import Theo.Proofs.GenWFBody

namespace Theo
namespace GenWF
open GS Static

theorem BInv.lablen {C : ProgRec → Prop} {g0 gs : GS} (h : BInv C g0 gs) : g0.labels.length ≤ gs.labels.length := by
  obtain ⟨_, h⟩ := h; exact h.lablen

@[simp] theorem emitBackpatched_top (gs : GS) (i : Instr) : (gs.emitBackpatched i).top = gs.top := rfl
@[simp] theorem emitBackpatched_labels (gs : GS) (i : Instr) : (gs.emitBackpatched i).labels = gs.labels := rfl

/-! ### calls -/

/-- everything but code and registers is unchanged -/
structure Frame (gs gs' : GS) : Prop where
  labels : gs'.labels = gs.labels
  todo : gs'.todo = gs.todo
  marks : gs'.top.marks = gs.top.marks
  sm : gs'.stackMaps = gs.stackMaps
  fa : gs'.funcAddrs = gs.funcAddrs
  outer : gs'.symbols.drop 1 = gs.symbols.drop 1

theorem argFold_spec (l : List (Int × Nat)) : ∀ gs : GS,
    (l.foldl (fun g a => (g.emit (.arg a.2 a.1)).releaseTemporary a.1) gs).code =
        gs.code ++ l.map (fun a => Instr.arg (a.2 : Int) a.1) ∧
    Frame gs (l.foldl (fun g a => (g.emit (.arg a.2 a.1)).releaseTemporary a.1) gs) ∧
    (l.foldl (fun g a => (g.emit (.arg a.2 a.1)).releaseTemporary a.1) gs).top.regs.length = gs.top.regs.length := by
  induction l with
  | nil => intro gs; exact ⟨by simp, ⟨rfl, rfl, rfl, rfl, rfl, rfl⟩, rfl⟩
  | cons a as ih =>
    intro gs
    simp only [List.foldl_cons]
    obtain ⟨h1, h2, h3⟩ := ih ((gs.emit (.arg a.2 a.1)).releaseTemporary a.1)
    have r := releaseTemporary_spec (gs.emit (.arg a.2 a.1)) a.1
    refine ⟨?_, ?_, ?_⟩
    · rw [h1, r.code]; simp
    · exact ⟨h2.labels.trans r.labels, h2.todo.trans r.todo, h2.marks.trans r.marks, h2.sm.trans r.sm,
        h2.fa.trans r.fa, h2.outer.trans r.outer⟩
    · rw [h3, releaseTemporary_regs]; rfl

theorem callSeg_noJump (p : ProgRec) (tgt : Int) (srcs : List Int) :
    ∀ (k : Nat) (i : Instr), (callSeg p tgt srcs)[k]? = some i → isJump i = false := by
  intro k i hk
  have hm := List.mem_of_getElem? hk
  unfold callSeg at hm
  rcases List.mem_cons.1 hm with rfl | hm
  · rfl
  · rcases List.mem_append.1 hm with hm | hm
    · unfold argSeg at hm
      obtain ⟨a, _, rfl⟩ := List.mem_map.1 hm
      rfl
    · rw [List.mem_singleton.1 hm]; rfl

theorem lookupFunc_mem {gs : GS} {nm : Bytes} {p : ProgRec} (h : gs.lookupFunc nm = some p) :
    ∃ e ∈ gs.funcAddrs, e.2 = p := by
  unfold lookupFunc at h
  cases hf : gs.funcAddrs.find? (fun e => e.1 = nm) with
  | none => rw [hf] at h; cases h
  | some e =>
    rw [hf] at h
    exact ⟨e, List.mem_of_find?_eq_some hf, by simpa using h⟩

theorem BInv.callee {C : ProgRec → Prop} {g0 gs : GS} (h : BInv C g0 gs) {nm : Bytes} {p : ProgRec}
    (hl : gs.lookupFunc nm = some p) : C p := by
  obtain ⟨_, h⟩ := h
  obtain ⟨e, he, rfl⟩ := lookupFunc_mem hl
  exact h.cfa e (h.fa ▸ he)

theorem binv_callTail {C : ProgRec → Prop} {g0 gs : GS} (h : BInv C g0 gs) (al : List Int) (l r : Node) (tgt : Int)
    (ht : RegIn tgt gs.top.regs.length) (ha : ∀ a ∈ al, RegIn a gs.top.regs.length)
    (he : (callTail gs al l r tgt).errors = []) :
    BInv C g0 (callTail gs al l r tgt) ∧ (callTail gs al l r tgt).top.regs.length = gs.top.regs.length := by
  unfold callTail at he ⊢
  dsimp only at he ⊢
  split at he
  · rename_i hb
    rw [if_pos hb]
    have hlen : al.length = 2 := hb.2.1
    have ha0 : RegIn ((al[0]?).getD 0) gs.top.regs.length := by
      rw [List.getElem?_eq_getElem (by omega)]
      exact ha _ (List.getElem_mem _)
    split
    · exact ⟨h.emit ⟨ht, ha0⟩ rfl, rfl⟩
    · exact ⟨h.emit ⟨ht, ha0⟩ rfl, rfl⟩
  · rename_i hb
    rw [if_neg hb]
    cases hl : gs.lookupFunc l.tok with
    | none => rw [hl] at he; exact absurd he (err_ne_nil _ _)
    | some p =>
      rw [hl] at he
      dsimp only at he ⊢
      split at he
      · exact absurd he (err_ne_nil _ _)
      · rename_i hne
        rw [if_neg hne]
        have hne' : al.length = p.argnum := by
          have : ¬ p.argnum ≠ al.length := hne
          simp at this; exact this.symm
        obtain ⟨f1, f2, f3⟩ := argFold_spec al.zipIdx (gs.emit (.prepare p.stackSize p.mi tgt))
        generalize (al.zipIdx.foldl (fun g a => (g.emit (.arg a.2 a.1)).releaseTemporary a.1)
          (gs.emit (.prepare p.stackSize p.mi tgt))) = g at f1 f2 f3 ⊢
        have hregs : (g.emit (.exec p.ind)).top.regs.length = gs.top.regs.length := by
          rw [emit_top, f3]; rfl
        refine ⟨?_, hregs⟩
        refine h.appendSeg (callSeg p tgt al) ?_ ?_ f2.labels f2.marks (fun x hx => by
            rw [emit_todo, f2.todo]; exact hx) ?_
          (by rw [hregs]; exact Nat.le_refl _) f2.sm f2.fa f2.outer
        · rw [emit_code, f1]; simp [callSeg, argSeg]
        · rw [hregs]
          exact (Groups.callOne (h.callee hl) ht ha hne').mono (fun _ hp => hp) (Nat.le_refl _)
            (by rw [emit_labels, f2.labels]; exact Nat.le_refl _)
        · intro k i hk hj
          rw [callSeg_noJump p tgt al k i hk] at hj; cases hj

/-! ### values -/

theorem genStrToInt_ok (gs : GS) (tok : Bytes) (h : (genStrToInt gs tok).1.errors = []) :
    (genStrToInt gs tok).1 = gs := by
  unfold genStrToInt at h ⊢
  dsimp only at h ⊢
  split
  · rename_i hb; rw [if_pos hb] at h; exact absurd h (err_ne_nil _ _)
  · rfl

theorem bi_values (C : ProgRec → Prop) (g0 : GS) : ∀ f : Nat,
    (∀ gs n tgt, BInv C g0 gs → RegIn tgt gs.top.regs.length → (dispatchValue f gs n tgt).errors = [] →
      BInv C g0 (dispatchValue f gs n tgt) ∧ gs.top.regs.length ≤ (dispatchValue f gs n tgt).top.regs.length) ∧
    (∀ gs n acc, BInv C g0 gs → (∀ a ∈ acc, RegIn a gs.top.regs.length) →
      (dispatchCallArgs f gs n acc).1.errors = [] →
      BInv C g0 (dispatchCallArgs f gs n acc).1 ∧
      gs.top.regs.length ≤ (dispatchCallArgs f gs n acc).1.top.regs.length ∧
      ∀ a ∈ (dispatchCallArgs f gs n acc).2, RegIn a (dispatchCallArgs f gs n acc).1.top.regs.length) := by
  intro f
  induction f with
  | zero =>
    refine ⟨?_, ?_⟩
    · intro gs n tgt h _ _; rw [dispatchValue_zero]; exact ⟨h, Nat.le_refl _⟩
    · intro gs n acc h ha _; rw [dispatchCallArgs_zero]; exact ⟨h, Nat.le_refl _, ha⟩
  | succ f ih =>
    refine ⟨?_, ?_⟩
    · intro gs n tgt h ht he
      cases n with
      | nil => rw [dispatchValue_nil]; exact ⟨h, Nat.le_refl _⟩
      | mk t tok file line l r =>
        rw [dispatchValue_succ] at he ⊢
        have hb0 := h.advanceLine line file
        have ht0 := advanceLine_top gs line file
        generalize gs.advanceLine line file = gs0 at hb0 ht0 he ⊢
        have ht' : RegIn tgt gs0.top.regs.length := by rw [ht0]; exact ht
        rw [← ht0]
        clear ht0 ht h
        by_cases h1 : t = NodeT.NAME
        · rw [if_pos h1] at he ⊢
          obtain ⟨r1, r2⟩ := fetchVar_spec gs0 tok
          refine ⟨(hb0.regStep r1).emit ⟨ht'.mono r1.regs, r2⟩ rfl, ?_⟩
          rw [emit_top]; exact r1.regs
        rw [if_neg h1] at he ⊢
        by_cases h2 : t = NodeT.NUMBER
        · rw [if_pos h2] at he ⊢
          have e := genStrToInt_ok gs0 tok he
          rw [e]
          exact ⟨hb0.emit ht' rfl, Nat.le_refl _⟩
        rw [if_neg h2] at he ⊢
        by_cases h3 : t = NodeT.CALL
        · rw [if_pos h3] at he ⊢
          have e1 := (callTail_spec _ _ l r tgt).1.errs he
          obtain ⟨b1, b2, b3⟩ := ih.2 gs0 r [] hb0 (fun a ha => by cases ha) e1
          generalize (dispatchCallArgs f gs0 r []).1 = g1 at b1 b2 b3 he e1 ⊢
          generalize (dispatchCallArgs f gs0 r []).2 = al at b3 he ⊢
          obtain ⟨c1, c2⟩ := binv_callTail b1 al l r tgt (ht'.mono b2) b3 he
          exact ⟨c1, by rw [c2]; exact b2⟩
        · rw [if_neg h3] at he
          exact absurd he (err_ne_nil _ _)
    · intro gs n acc h ha he
      cases n with
      | nil => rw [dispatchCallArgs_nil]; exact ⟨h, Nat.le_refl _, ha⟩
      | mk t tok file line l r =>
        rw [dispatchCallArgs_succ] at he ⊢
        by_cases h1 : t = NodeT.SPLIT
        · rw [if_pos h1] at he ⊢
          have e1 := ((quiet_values f).2 _ r _).errs he
          obtain ⟨b1, b2, b3⟩ := ih.2 gs l acc h ha e1
          obtain ⟨c1, c2, c3⟩ := ih.2 _ r _ b1 b3 he
          exact ⟨c1, Nat.le_trans b2 c2, c3⟩
        · rw [if_neg h1] at he ⊢
          obtain ⟨r1, r2⟩ := fetchTemporary_spec gs
          obtain ⟨b1, b2⟩ := ih.1 _ (.mk t tok file line l r) _ (h.regStep r1) r2 he
          refine ⟨b1, Nat.le_trans r1.regs b2, ?_⟩
          intro a hmem
          rcases List.mem_append.1 hmem with hmem | hmem
          · exact (ha a hmem).mono (Nat.le_trans r1.regs b2)
          · rw [List.mem_singleton.1 hmem]; exact r2.mono b2

theorem bi_value {C : ProgRec → Prop} {g0 gs : GS} (h : BInv C g0 gs) (f : Nat) (n : Node) (tgt : Int)
    (ht : RegIn tgt gs.top.regs.length) (he : (dispatchValue f gs n tgt).errors = []) :
    BInv C g0 (dispatchValue f gs n tgt) ∧ gs.top.regs.length ≤ (dispatchValue f gs n tgt).top.regs.length :=
  (bi_values C g0 f).1 gs n tgt h ht he

/-! ### statements -/

theorem loopPre_spec' (gs0 : GS) :
    RegStep gs0 (loopPre gs0).1 ∧ RegIn (loopPre gs0).2 (loopPre gs0).1.top.regs.length := by
  unfold loopPre
  dsimp only
  have h1 : RegStep gs0 ({ gs0 with loops := gs0.loops + 1 } : GS) :=
    ⟨rfl, rfl, rfl, rfl, rfl, rfl, rfl, Nat.le_refl _⟩
  obtain ⟨r1, r2⟩ := fetchVar_spec ({ gs0 with loops := gs0.loops + 1 } : GS)
    (bLoopVar ++ gs0.fsName ++ [58] ++ intDec gs0.fsLine ++ [91] ++ natDigits (gs0.loops + 1) ++ [93])
  exact ⟨h1.trans r1, r2⟩

theorem binv_loopMid {C : ProgRec → Prop} {g0 v : GS} (h : BInv C g0 v) (counter : Int)
    (hc : RegIn counter v.top.regs.length) :
    BInv C g0 (loopMid v counter).1 ∧ (loopMid v counter).1.top = v.top ∧
      g0.labels.length ≤ (loopMid v counter).2.1 ∧ g0.labels.length ≤ (loopMid v counter).2.2 := by
  unfold loopMid
  dsimp only
  have hl := h.lablen
  have h1 := h.createLabel
  have h2 := h1.createLabel
  have h3 := h2.setLabelNext v.createLabel.2 (by simp; exact hl)
  refine ⟨h3.emitBackpatched ?_, rfl, by simp; exact hl, by simp; omega⟩
  refine ⟨⟨v.labels.length + 1, by simp, by omega, by simp⟩, ?_⟩
  exact hc

theorem binv_loopPost {C : ProgRec → Prop} {g0 b : GS} (h : BInv C g0 b) (counter : Int) (startL endL : Nat)
    (hc : RegIn counter b.top.regs.length) (hs1 : g0.labels.length ≤ startL) (hs2 : startL < b.labels.length)
    (he : g0.labels.length ≤ endL) :
    BInv C g0 (loopPost b counter startL endL) ∧ (loopPost b counter startL endL).top = b.top := by
  unfold loopPost
  dsimp only
  have h1 := h.emit (i := .add counter counter (-1)) ⟨hc, hc⟩ rfl
  have h2 := h1.emitBackpatched (i := .jmp startL) ⟨startL, rfl, hs1, hs2⟩
  exact ⟨h2.setLabelNext endL he, rfl⟩

theorem binv_whilePre {C : ProgRec → Prop} {g0 gs0 : GS} (h : BInv C g0 gs0) :
    BInv C g0 (whilePre gs0).1 ∧ gs0.top.regs.length ≤ (whilePre gs0).1.top.regs.length ∧
      RegIn (whilePre gs0).2.2.2 (whilePre gs0).1.top.regs.length ∧
      g0.labels.length ≤ (whilePre gs0).2.1 ∧ (whilePre gs0).2.1 < (whilePre gs0).1.labels.length ∧
      g0.labels.length ≤ (whilePre gs0).2.2.1 ∧ (whilePre gs0).2.2.1 < (whilePre gs0).1.labels.length := by
  unfold whilePre
  dsimp only
  have hl := h.lablen
  have h1 := h.createLabel
  have h2 := h1.createLabel
  obtain ⟨r1, r2⟩ := fetchTemporary_spec gs0.createLabel.1.createLabel.1
  have h3 := h2.regStep r1
  have h4 := h3.setLabelNext gs0.createLabel.2 (by simp; exact hl)
  refine ⟨h4, ?_, ?_, by simp; exact hl, ?_, by simp; omega, ?_⟩
  · exact r1.regs
  · exact r2
  · simp [r1.labels]
  · simp [r1.labels]

theorem binv_whilePost {C : ProgRec → Prop} {g0 b : GS} (h : BInv C g0 b) (startL endL : Nat) (cond : Int)
    (hs1 : g0.labels.length ≤ startL) (hs2 : startL < b.labels.length) (he : g0.labels.length ≤ endL) :
    BInv C g0 (whilePost b startL endL cond) ∧ (whilePost b startL endL cond).top.regs.length = b.top.regs.length := by
  unfold whilePost
  dsimp only
  have h2 := h.emitBackpatched (i := .jmp startL) ⟨startL, rfl, hs1, hs2⟩
  have h3 := h2.setLabelNext endL he
  exact ⟨h3.regStep (releaseTemporary_spec _ _), releaseTemporary_regs _ _⟩

theorem binv_ifPre {C : ProgRec → Prop} {g0 gs0 : GS} (h : BInv C g0 gs0) :
    BInv C g0 (ifPre gs0).1 ∧ gs0.top.regs.length ≤ (ifPre gs0).1.top.regs.length ∧
      RegIn (ifPre gs0).2.1 (ifPre gs0).1.top.regs.length ∧ RegIn (ifPre gs0).2.2.1 (ifPre gs0).1.top.regs.length ∧
      RegIn (ifPre gs0).2.2.2 (ifPre gs0).1.top.regs.length := by
  unfold ifPre
  dsimp only
  obtain ⟨r1, q1⟩ := fetchTemporary_spec gs0
  obtain ⟨r2, q2⟩ := fetchTemporary_spec gs0.fetchTemporary.1
  obtain ⟨r3, q3⟩ := fetchTemporary_spec gs0.fetchTemporary.1.fetchTemporary.1
  exact ⟨((h.regStep r1).regStep r2).regStep r3, Nat.le_trans r1.regs (Nat.le_trans r2.regs r3.regs),
    q1.mono (Nat.le_trans r2.regs r3.regs), q2.mono r3.regs, q3⟩

theorem binv_ifPost {C : ProgRec → Prop} {g0 gs : GS} (h : BInv C g0 gs) (cond op1 op2 : Int) (m : Bytes)
    (h1 : RegIn cond gs.top.regs.length) (h2 : RegIn op1 gs.top.regs.length) (h3 : RegIn op2 gs.top.regs.length) :
    BInv C g0 (ifPost gs cond op1 op2 m) ∧ (ifPost gs cond op1 op2 m).top.regs.length = gs.top.regs.length := by
  unfold ifPost
  dsimp only
  have b1 := h.emit (i := .test cond op1 op2) ⟨h1, h2, h3⟩ rfl
  obtain ⟨b2, l1, l2⟩ := b1.markLabel m
  have hr := markLabel_regs (gs.emit (.test cond op1 op2)) m
  have b3 := b2.emitBackpatched (i := .jmpc ((gs.emit (.test cond op1 op2)).markLabel m).2 cond)
    ⟨⟨_, rfl, l1, l2⟩, by rw [hr, emit_top]; exact h1⟩
  refine ⟨((b3.regStep (releaseTemporary_spec _ _)).regStep (releaseTemporary_spec _ _)).regStep
    (releaseTemporary_spec _ _), ?_⟩
  rw [releaseTemporary_regs, releaseTemporary_regs, releaseTemporary_regs, emitBackpatched_top, hr, emit_top]

theorem loopPost_errors (b : GS) (counter : Int) (s e : Nat) : (loopPost b counter s e).errors = b.errors := rfl
theorem loopMid_errors (v : GS) (counter : Int) : (loopMid v counter).1.errors = v.errors := rfl
theorem whilePost_errors (b : GS) (s e : Nat) (c : Int) : (whilePost b s e c).errors = b.errors := rfl
theorem whilePre_errors (gs : GS) : (whilePre gs).1.errors = gs.errors := by
  unfold whilePre; dsimp only; simp
theorem ifPost_errors (gs : GS) (c a b : Int) (m : Bytes) : (ifPost gs c a b m).errors = gs.errors := by
  unfold ifPost; dsimp only
  have s := markLabel_spec (gs.emit (.test c a b)) m
  show ((gs.emit (.test c a b)).markLabel m).1.errors = _
  rw [s.errors]; rfl

theorem bi_void (C : ProgRec → Prop) (g0 : GS) : ∀ (f : Nat) (gs : GS) (n : Node), stmtShape n = true →
    BInv C g0 gs → (dispatchVoid f gs n).errors = [] →
    BInv C g0 (dispatchVoid f gs n) ∧ gs.top.regs.length ≤ (dispatchVoid f gs n).top.regs.length := by
  intro f
  induction f with
  | zero => intro gs n _ h _; rw [dispatchVoid_zero]; exact ⟨h, Nat.le_refl _⟩
  | succ f ih =>
    intro gs n hs h he
    cases n with
    | nil => rw [dispatchVoid_nil]; exact ⟨h, Nat.le_refl _⟩
    | mk t tok file line l r =>
      rw [dispatchVoid_succ] at he ⊢
      dsimp only at he ⊢
      have hb0 := h.advanceLine line file
      have ht0 := advanceLine_top gs line file
      generalize gs.advanceLine line file = gs0 at hb0 ht0 he ⊢
      rw [← ht0]
      clear ht0 h
      rw [stmtShape] at hs
      by_cases h1 : t = NodeT.SPLIT
      · rw [if_pos h1] at he hs ⊢
        rw [Bool.and_eq_true] at hs
        have e1 := (step_void f _ r).errs he
        obtain ⟨b1, b2⟩ := ih gs0 l hs.1 hb0 e1
        obtain ⟨c1, c2⟩ := ih _ r hs.2 b1 he
        exact ⟨c1, Nat.le_trans b2 c2⟩
      rw [if_neg h1] at he hs ⊢
      by_cases h2 : t = NodeT.PROGRAM
      · exfalso
        subst h2
        simp [NodeT.PROGRAM, NodeT.ASSIGN, NodeT.LOOP, NodeT.WHILE, NodeT.IF, NodeT.MARK, NodeT.GOTO, NodeT.STOP] at hs
      rw [if_neg h2] at he ⊢
      by_cases h3 : t = NodeT.ASSIGN
      · rw [if_pos h3] at he ⊢
        obtain ⟨r1, r2⟩ := fetchVar_spec gs0 l.tok
        obtain ⟨b1, b2⟩ := bi_value (hb0.regStep r1) f r _ r2 he
        exact ⟨b1, Nat.le_trans r1.regs b2⟩
      rw [if_neg h3] at he hs ⊢
      by_cases h4 : t = NodeT.LOOP
      · rw [if_pos h4] at he ⊢
        rw [if_pos (Or.inl h4), Bool.and_eq_true] at hs
        obtain ⟨r1, r2⟩ := loopPre_spec' gs0
        have hp := hb0.regStep r1
        generalize (loopPre gs0).1 = p1 at r1 r2 hp he ⊢
        generalize (loopPre gs0).2 = counter at r2 he ⊢
        have e3 : (dispatchVoid f (loopMid (dispatchValue f p1 l counter) counter).1 r).errors = [] := by
          rw [loopPost_errors] at he; exact he
        have e2 : (dispatchValue f p1 l counter).errors = [] := by
          have := (step_void f _ r).errs e3
          rw [loopMid_errors] at this; exact this
        obtain ⟨v1, v2⟩ := bi_value hp f l counter r2 e2
        generalize dispatchValue f p1 l counter = v at v1 v2 he e3 ⊢
        obtain ⟨m1, m2, m3, m4⟩ := binv_loopMid v1 counter (r2.mono v2)
        have sm := loopMid_spec v counter
        generalize (loopMid v counter).1 = mm at m1 m2 m3 m4 sm he e3 ⊢
        generalize (loopMid v counter).2.1 = startL at m3 sm he ⊢
        generalize (loopMid v counter).2.2 = endL at m4 sm he ⊢
        obtain ⟨b1, b2⟩ := ih mm r hs.2 m1 e3
        have hlb := (step_void f mm r).lablen
        generalize dispatchVoid f mm r = b at b1 b2 hlb he ⊢
        have hcb : RegIn counter b.top.regs.length := by
          refine (r2.mono v2).mono ?_
          rw [m2] at b2; exact b2
        obtain ⟨c1, c2⟩ := binv_loopPost b1 counter startL endL hcb m3
          (by rw [sm.lablen] at hlb; rw [sm.startL]; omega) m4
        refine ⟨c1, ?_⟩
        rw [c2]
        rw [m2] at b2
        exact Nat.le_trans r1.regs (Nat.le_trans v2 b2)
      rw [if_neg h4] at he ⊢
      by_cases h5 : t = NodeT.WHILE
      · rw [if_pos h5] at he ⊢
        rw [if_pos (Or.inr h5), Bool.and_eq_true] at hs
        obtain ⟨p1, p2, p3, p4, p5, p6, p7⟩ := binv_whilePre hb0
        generalize (whilePre gs0).1 = w1 at p1 p2 p3 p5 p7 he ⊢
        generalize (whilePre gs0).2.1 = startL at p4 p5 he ⊢
        generalize (whilePre gs0).2.2.1 = endL at p6 p7 he ⊢
        generalize (whilePre gs0).2.2.2 = cond at p3 he ⊢
        have e3 : (dispatchVoid f ((dispatchValue f w1 l cond).emitBackpatched (.jmpc endL cond)) r).errors = [] := by
          rw [whilePost_errors] at he; exact he
        have e2 : (dispatchValue f w1 l cond).errors = [] := by
          have := (step_void f _ r).errs e3
          exact this
        obtain ⟨v1, v2⟩ := bi_value p1 f l cond p3 e2
        have qv := quiet_value f w1 l cond
        generalize dispatchValue f w1 l cond = v at v1 v2 qv he e3 ⊢
        have m1 := v1.emitBackpatched (i := .jmpc endL cond)
          ⟨⟨endL, rfl, p6, by rw [qv.labels]; exact p7⟩, p3.mono v2⟩
        obtain ⟨b1, b2⟩ := ih _ r hs.2 m1 e3
        have hlb := (step_void f (v.emitBackpatched (.jmpc endL cond)) r).lablen
        generalize dispatchVoid f (v.emitBackpatched (.jmpc endL cond)) r = b at b1 b2 hlb he ⊢
        rw [emitBackpatched_top] at b2
        rw [emitBackpatched_labels, qv.labels] at hlb
        obtain ⟨c1, c2⟩ := binv_whilePost b1 startL endL cond p4 (by omega) p6
        refine ⟨c1, ?_⟩
        rw [c2]
        exact Nat.le_trans p2 (Nat.le_trans v2 b2)
      rw [if_neg h5] at he ⊢
      by_cases h6 : t = NodeT.MARK
      · rw [if_pos h6] at he ⊢
        obtain ⟨b1, l1, _⟩ := hb0.markLabel l.tok
        refine ⟨b1.setLabelMark _ l1, ?_⟩
        rw [setLabel_top, markLabel_regs]; exact Nat.le_refl _
      rw [if_neg h6] at he ⊢
      by_cases h7 : t = NodeT.GOTO
      · rw [if_pos h7] at he ⊢
        obtain ⟨b1, l1, l2⟩ := hb0.markLabel l.tok
        refine ⟨b1.emitBackpatched ⟨_, rfl, l1, l2⟩, ?_⟩
        rw [emitBackpatched_top, markLabel_regs]; exact Nat.le_refl _
      rw [if_neg h7] at he ⊢
      by_cases h8 : t = NodeT.IF
      · rw [if_pos h8] at he ⊢
        obtain ⟨p1, p2, p3, p4, p5⟩ := binv_ifPre hb0
        generalize (ifPre gs0).1 = i1 at p1 p2 p3 p4 p5 he ⊢
        generalize (ifPre gs0).2.1 = cond at p3 he ⊢
        generalize (ifPre gs0).2.2.1 = op1 at p4 he ⊢
        generalize (ifPre gs0).2.2.2 = op2 at p5 he ⊢
        rw [ifPost_errors] at he
        have e1 := (quiet_value f _ l.right op2).errs he
        obtain ⟨v1, v2⟩ := bi_value p1 f l.left op1 p4 e1
        generalize dispatchValue f i1 l.left op1 = va at v1 v2 he e1 ⊢
        obtain ⟨w1, w2⟩ := bi_value v1 f l.right op2 (p5.mono v2) he
        generalize dispatchValue f va l.right op2 = vb at w1 w2 he ⊢
        have hm := Nat.le_trans v2 w2
        obtain ⟨c1, c2⟩ := binv_ifPost w1 cond op1 op2 r.left.tok (p3.mono hm) (p4.mono hm) (p5.mono hm)
        refine ⟨c1, ?_⟩
        rw [c2]
        exact Nat.le_trans p2 hm
      rw [if_neg h8] at he ⊢
      by_cases h9 : t = NodeT.STOP
      · rw [if_pos h9] at he ⊢
        exact ⟨hb0.emit trivial rfl, Nat.le_refl _⟩
      · rw [if_neg h9] at he
        exact absurd he (err_ne_nil _ _)

end GenWF
end Theo
