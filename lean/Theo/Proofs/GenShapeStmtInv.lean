/-
  C01 for the generator model, part 7: `sq_void` — what the dispatch of a statement tree
  preserves.
-/
import Theo.Proofs.GenShapeStmt

set_option linter.unusedSimpArgs false
set_option linter.unusedVariables false

namespace Theo
namespace GenShape
open GS Sem Static

structure SQ (gs gs' : GS) (n : Node) : Prop where
  gq : GQ gs gs'
  loops : gs'.loops = gs.loops + loopCount n
  ctr : CtrInv gs.top.regs gs.loops → CtrInv gs'.top.regs gs'.loops
  frame : ∀ l, l < gs.labels.length → (∀ m ∈ defsOf n, (m, l) ∉ gs'.top.marks) → gs'.labels[l]? = gs.labels[l]?

theorem SQ.of_vq {gs gs0 gs' : GS} {n : Node} (v : VQ PV gs gs0) (s : SQ gs0 gs' n) : SQ gs gs' n :=
  ⟨v.toGQ.trans s.gq, by rw [s.loops, v.loops], fun h => s.ctr (v.ctr PV_noPrefix h),
   fun l hl hm => by rw [s.frame l (by rw [v.labels]; exact hl) hm, v.labels]⟩

/-- a value step as a statement step without LOOPs and marks -/
theorem SQ.vq {gs gs' : GS} {n : Node} (v : VQ PV gs gs') (hc : loopCount n = 0) : SQ gs gs' n :=
  ⟨v.toGQ, by rw [v.loops, hc]; rfl, fun h => v.ctr PV_noPrefix h, fun l _ _ => by rw [v.labels]⟩

theorem nameNode {l : Node} (h1 : isNil l = false) (h2 : nilOr NodeT.NAME l = true) :
    ∃ tok file line a b, l = .mk NodeT.NAME tok file line a b := by
  cases l with
  | nil => simp [isNil] at h1
  | mk t tok file line a b =>
    have : t = NodeT.NAME := by simp [nilOr, Node.ty] at h2; exact of_decide_eq_true h2
    subst this
    exact ⟨tok, file, line, a, b, rfl⟩

theorem numberNode {l : Node} (h1 : isNil l = false) (h2 : nilOr NodeT.NUMBER l = true) :
    ∃ tok file line a b, l = .mk NodeT.NUMBER tok file line a b := by
  cases l with
  | nil => simp [isNil] at h1
  | mk t tok file line a b =>
    have : t = NodeT.NUMBER := by simp [nilOr, Node.ty] at h2; exact of_decide_eq_true h2
    subst this
    exact ⟨tok, file, line, a, b, rfl⟩

theorem valNames_name {l : Node} (h1 : isNil l = false) (h2 : nilOr NodeT.NAME l = true) (h3 : varOK l.tok = true) :
    valNames l = true := by
  obtain ⟨tok, file, line, a, b, rfl⟩ := nameNode h1 h2
  rw [valNames_mk, if_neg (by decide), if_pos rfl]; exact h3

theorem valNames_number {l : Node} (h2 : nilOr NodeT.NUMBER l = true) : valNames l = true := by
  cases l with
  | nil => rfl
  | mk t tok file line a b =>
    have : t = NodeT.NUMBER := by simp [nilOr, Node.ty] at h2; exact of_decide_eq_true h2
    subst this
    rw [valNames_mk, if_neg (by decide), if_neg (by decide), if_neg (by decide)]

theorem defsOf_mk (t : Nat) (tok file : Bytes) (line : Int) (l r : Node) :
    defsOf (.mk t tok file line l r) =
      if t = NodeT.SPLIT then defsOf l ++ defsOf r
      else if t = NodeT.LOOP ∨ t = NodeT.WHILE then defsOf r
      else if t = NodeT.MARK then [l.tok]
      else [] := by rw [defsOf]

theorem refsOf_mk (t : Nat) (tok file : Bytes) (line : Int) (l r : Node) :
    refsOf (.mk t tok file line l r) =
      if t = NodeT.SPLIT then refsOf l ++ refsOf r
      else if t = NodeT.LOOP ∨ t = NodeT.WHILE then refsOf r
      else if t = NodeT.GOTO then [l.tok]
      else if t = NodeT.IF then [r.left.tok]
      else [] := by rw [refsOf]

theorem loopCount_mk (t : Nat) (tok file : Bytes) (line : Int) (l r : Node) :
    loopCount (.mk t tok file line l r) =
      if t = NodeT.SPLIT then loopCount l + loopCount r
      else if t = NodeT.PROGRAM then loopCount r
      else if t = NodeT.LOOP then loopCount r + 1
      else if t = NodeT.WHILE then loopCount r
      else 0 := by rw [loopCount]

theorem sq_void : ∀ (f : Nat) (gs : GS) (n : Node), nodeSize n ≤ f → stmtShape n = true → stmtNames n = true →
    SQ gs (dispatchVoid f gs n) n := by
  intro f
  induction f with
  | zero => intro gs n h; have := nodeSize_pos n; omega
  | succ f ih =>
    intro gs n hf hs hn
    cases n with
    | nil =>
      rw [dispatchVoid_nil]
      exact ⟨GQ.refl _, rfl, id, fun _ _ _ => rfl⟩
    | mk t tok file line l r =>
      rw [dispatchVoid_succ]
      dsimp only
      refine SQ.of_vq (vq_advanceLine PV gs line file) ?_
      generalize gs.advanceLine line file = gs0
      simp only [nodeSize] at hf
      have hfl : nodeSize l ≤ f := by have := nodeSize_pos r; omega
      have hfr : nodeSize r ≤ f := by have := nodeSize_pos l; omega
      rw [stmtShape_mk] at hs
      rw [stmtNames_mk] at hn
      by_cases h1 : t = NodeT.SPLIT
      · subst h1
        rw [if_pos rfl, Bool.and_eq_true] at hs hn
        rw [if_pos rfl]
        have s1 := ih gs0 l hfl hs.1 hn.1
        have s2 := ih (dispatchVoid f gs0 l) r hfr hs.2 hn.2
        have st1 := step_void f gs0 l
        have st2 := step_void f (dispatchVoid f gs0 l) r
        generalize dispatchVoid f gs0 l = g1 at *
        generalize dispatchVoid f g1 r = g2 at *
        refine ⟨s1.gq.trans s2.gq, ?_, fun h => s2.ctr (s1.ctr h), ?_⟩
        · rw [s2.loops, s1.loops, loopCount_mk, if_pos rfl]; omega
        · intro x hx hm
          rw [defsOf_mk, if_pos rfl] at hm
          rw [s2.frame x (Nat.lt_of_lt_of_le hx st1.lablen) (fun m hm' => hm m (List.mem_append_right _ hm')),
            s1.frame x hx (fun m hm' hin => hm m (List.mem_append_left _ hm') (st2.ext _ hin))]
      rw [if_neg h1] at hs hn ⊢
      by_cases h2 : t = NodeT.PROGRAM
      · subst h2; simp [NodeT.PROGRAM, NodeT.ASSIGN, NodeT.LOOP, NodeT.WHILE, NodeT.IF, NodeT.MARK, NodeT.GOTO, NodeT.STOP] at hs
      rw [if_neg h2]
      by_cases h3 : t = NodeT.ASSIGN
      · subst h3
        rw [if_pos rfl] at hs hn ⊢
        simp only [Bool.and_eq_true] at hn
        have fv := fetchVar_spec PV gs0 l.tok hn.1.1
        have vk := vk_value f (gs0.fetchVar l.tok).1 r (gs0.fetchVar l.tok).2 hn.2
        exact SQ.vq (fv.vq.trans vk.vq) (by rw [loopCount_mk]; simp [NodeT.ASSIGN, NodeT.SPLIT, NodeT.PROGRAM, NodeT.LOOP, NodeT.WHILE])
      rw [if_neg h3] at hs hn ⊢
      by_cases h4 : t = NodeT.LOOP
      · subst h4
        rw [if_pos (Or.inl rfl), Bool.and_eq_true] at hs
        rw [if_pos (Or.inl rfl)] at hn
        simp only [Bool.and_eq_true, Bool.not_eq_true'] at hn
        rw [if_pos rfl]
        have hvn := valNames_name hn.1.1 hs.1 hn.1.2
        have sp := loopPre_spec gs0
        generalize (loopPre gs0).1 = p1 at sp
        generalize (loopPre gs0).2 = counter at sp
        have vk := vk_value f p1 l counter hvn
        generalize dispatchValue f p1 l counter = v at vk
        have sb := ih (loopMid v counter).1 r hfr hs.2 hn.2
        have stb := step_void f (loopMid v counter).1 r
        generalize dispatchVoid f (loopMid v counter).1 r = b at sb stb
        have hlc : loopCount (.mk NodeT.LOOP tok file line l r) = loopCount r + 1 := by
          rw [loopCount_mk]; simp [NodeT.LOOP, NodeT.SPLIT, NodeT.PROGRAM]
        have hd : defsOf (.mk NodeT.LOOP tok file line l r) = defsOf r := by
          rw [defsOf_mk]; simp [NodeT.LOOP, NodeT.SPLIT]
        refine ⟨(((sp.gq.trans vk.vq.toGQ).trans (loopMid_gq v counter)).trans sb.gq).trans (loopPost_gq _ _ _ _), ?_, ?_, ?_⟩
        · rw [loopPost_loops, sb.loops, loopMid_loops, vk.vq.loops, sp.loops, hlc]; omega
        · intro h
          have h1 := vk.vq.ctr PV_noPrefix (sp.ctr h)
          have h2 := sb.ctr (by rw [top_congr (loopMid_symbols v counter), loopMid_loops]; exact h1)
          rw [top_congr (loopPost_symbols _ _ _ _), loopPost_loops]
          exact h2
        · intro x hx hm
          rw [hd] at hm
          have hxv : x < v.labels.length := by rw [vk.vq.labels, sp.labels]; exact hx
          have hxm : x < (loopMid v counter).1.labels.length := by rw [loopMid_labels]; simp; omega
          rw [loopPost_labels, List.getElem?_set_ne (by rw [loopMid_endL]; omega),
            sb.frame x hxm (by rw [← top_congr (loopPost_symbols b counter _ _)]; exact hm),
            loopMid_get v counter hxv, vk.vq.labels, sp.labels]
      by_cases h5 : t = NodeT.WHILE
      · subst h5
        rw [if_pos (Or.inr rfl), Bool.and_eq_true] at hs
        rw [if_pos (Or.inr rfl)] at hn
        simp only [Bool.and_eq_true, Bool.not_eq_true'] at hn
        rw [if_neg h4, if_pos rfl]
        have hvn := valNames_name hn.1.1 hs.1 hn.1.2
        have sp := whilePre_spec' gs0
        generalize (whilePre gs0).1 = p1 at sp
        generalize (whilePre gs0).2.1 = startL at sp
        generalize (whilePre gs0).2.2.1 = endL at sp
        generalize (whilePre gs0).2.2.2 = cond at sp
        have vk := vk_value f p1 l cond hvn
        generalize dispatchValue f p1 l cond = v at vk
        have sb := ih (v.emitBackpatched (.jmpc endL cond)) r hfr hs.2 hn.2
        have stb := step_void f (v.emitBackpatched (.jmpc endL cond)) r
        generalize dispatchVoid f (v.emitBackpatched (.jmpc endL cond)) r = b at sb stb
        obtain ⟨wq, wc⟩ := whilePost_vq b startL endL cond
        have hlc : loopCount (.mk NodeT.WHILE tok file line l r) = loopCount r := by
          rw [loopCount_mk]; simp [NodeT.WHILE, NodeT.LOOP, NodeT.SPLIT, NodeT.PROGRAM]
        have hd : defsOf (.mk NodeT.WHILE tok file line l r) = defsOf r := by
          rw [defsOf_mk]; simp [NodeT.WHILE, NodeT.SPLIT]
        refine ⟨(((sp.gq.trans vk.vq.toGQ).trans (gq_emitBackpatched _ _)).trans sb.gq).trans wq, ?_, ?_, ?_⟩
        · rw [whilePost_loops, sb.loops, hlc]
          show v.loops + _ = _
          rw [vk.vq.loops, sp.loops]
        · intro h
          exact wc (sb.ctr (vk.vq.ctr PV_noPrefix (sp.ctr h)))
        · intro x hx hm
          rw [hd] at hm
          have hxp : x < p1.labels.length := by rw [sp.labels]; simp; omega
          have hmarks : (whilePost b startL endL cond).top.marks = b.top.marks := rfl
          rw [whilePost_labels, List.getElem?_set_ne (by rw [sp.endL]; omega),
            sb.frame x (by show x < v.labels.length; rw [vk.vq.labels]; exact hxp) (by rw [← hmarks]; exact hm)]
          show v.labels[x]? = _
          rw [vk.vq.labels, sp.labels, List.getElem?_set_ne (by omega), List.getElem?_append_left (by simp; omega),
            List.getElem?_append_left hx]
      rw [if_neg h4, if_neg h5]
      rw [if_neg (by intro h; rcases h with h | h; exact h4 h; exact h5 h)] at hs hn
      have hlc0 : loopCount (.mk t tok file line l r) = 0 := by
        rw [loopCount_mk, if_neg h1, if_neg h2, if_neg h4, if_neg h5]
      by_cases h6 : t = NodeT.MARK
      · subst h6
        rw [if_pos rfl]
        have ms := markLabel_spec gs0 l.tok
        have hd : defsOf (.mk NodeT.MARK tok file line l r) = [l.tok] := by
          rw [defsOf_mk]; simp [NodeT.MARK, NodeT.SPLIT, NodeT.LOOP, NodeT.WHILE]
        refine ⟨(gq_markLabel _ _).trans (gq_setLabel _ _ _), ?_, ?_, ?_⟩
        · rw [hlc0]; exact markLabel_loops _ _
        · intro h
          show CtrInv (gs0.markLabel l.tok).1.top.regs (gs0.markLabel l.tok).1.loops
          rw [markLabel_regs, markLabel_loops]; exact h
        · intro x hx hm
          rw [hd] at hm
          have hne : x ≠ (gs0.markLabel l.tok).2 := by
            intro he
            exact hm l.tok (List.mem_singleton.2 rfl) (he ▸ ms.mem)
          rw [setLabel_get_ne _ _ _ hne, markLabel_get _ _ hx]
      rw [if_neg h6]
      by_cases h7 : t = NodeT.GOTO
      · subst h7
        rw [if_pos rfl]
        refine ⟨(gq_markLabel _ _).trans (gq_emitBackpatched _ _), ?_, ?_, ?_⟩
        · rw [hlc0]; exact markLabel_loops _ _
        · intro h
          show CtrInv (gs0.markLabel l.tok).1.top.regs (gs0.markLabel l.tok).1.loops
          rw [markLabel_regs, markLabel_loops]; exact h
        · intro x hx _
          exact markLabel_get _ _ hx
      rw [if_neg h7]
      by_cases h8 : t = NodeT.IF
      · subst h8
        rw [if_pos rfl, Bool.and_eq_true] at hs
        rw [if_pos rfl] at hn
        simp only [Bool.and_eq_true, Bool.not_eq_true'] at hn
        rw [if_pos rfl]
        have sp := ifPre_spec gs0
        generalize (ifPre gs0).1 = p1 at sp
        generalize (ifPre gs0).2.1 = cond at sp
        generalize (ifPre gs0).2.2.1 = op1 at sp
        generalize (ifPre gs0).2.2.2 = op2 at sp
        have v1 := vk_value f p1 l.left op1 (valNames_name hn.1.1 hs.1 hn.2)
        generalize dispatchValue f p1 l.left op1 = g1 at v1
        have v2 := vk_value f g1 l.right op2 (valNames_number hs.2)
        generalize dispatchValue f g1 l.right op2 = g2 at v2
        obtain ⟨q, lo, ct⟩ := ifPost_gq g2 cond op1 op2 r.left.tok
        have vv := (sp.vq.trans v1.vq).trans v2.vq
        refine ⟨vv.toGQ.trans q, ?_, ?_, ?_⟩
        · rw [lo, vv.loops, hlc0]; rfl
        · intro h; exact ct (vv.ctr PV_noPrefix h)
        · intro x hx _
          rw [ifPost_get _ _ _ _ _ (by rw [vv.labels]; exact hx), vv.labels]
      rw [if_neg h8]
      rw [if_neg h8] at hs
      by_cases h9 : t = NodeT.STOP
      · subst h9
        rw [if_pos rfl]
        exact SQ.vq (vq_emit PV gs0 _) hlc0
      · exfalso
        simp [h6, h7, h9] at hs

end GenShape
end Theo
