/-
  The recursive-descent parser model against the documented grammar (C04), fuel sufficiency (C02).

  Plan of the file:
    * generic derivation-tree plumbing (`CSeq`, `derives_intro`, `derives_ind`) and the alternatives
      of `langGrammar`;
    * the state component of every parser function as an equation (`pX_succ`);
    * `Run`: the error-free behaviour of the parser as a fuel-free relation on token lists;
    * soundness: an error-free call is a `Run` (`ab_all`, by induction on the fuel) and a `Run`
      spells a derivation (`run_derives`);
    * completeness: a derivation is a `Run` (`claim_step`; the `MOREP` chains are re-associated in
      continuation-passing style, which disposes of the `id : P MOREP` ambiguity) and a `Run` is
      what the parser does when the fuel suffices (`run_parse`);
    * fuel: with `4·|input| + c` nesting levels left no `fuel` error is recorded (`fb_all`).
-/
import Theo.Spec.Language
import Theo.Model.Gen
import Theo.Proofs.MacroProofs

namespace Theo
namespace C04

/-! ### sequences of derivations -/

/-- `w` splits into pieces, one per symbol of `α`; the piece of non-terminal `A` satisfies `c A` -/
def CSeq (c : Nat → List Nat → Prop) : List Sym → List Nat → Prop
  | [], w => w = []
  | .eps :: _, _ => False
  | .t a :: r, w => ∃ v, w = a :: v ∧ CSeq c r v
  | .n A :: r, w => ∃ u v, w = u ++ v ∧ c A u ∧ CSeq c r v

theorem CSeq.nil {c} : CSeq c [] [] := rfl
theorem CSeq.t {c a r v} (h : CSeq c r v) : CSeq c (.t a :: r) (a :: v) := ⟨v, rfl, h⟩
theorem CSeq.n {c A r u v} (hu : c A u) (h : CSeq c r v) : CSeq c (.n A :: r) (u ++ v) := ⟨u, v, rfl, hu, h⟩

theorem forest_of_cseq (g : Grammar) : ∀ (rhs : List Sym) (w : List Nat),
    CSeq (fun B u => Derives g (.n B) u) rhs w →
    ∃ f : Forest, f.Valid g ∧ f.roots = rhs ∧ f.yield = w := by
  intro rhs
  induction rhs with
  | nil => intro w h; exact ⟨.nil, trivial, rfl, by simp [CSeq] at h; simp [Forest.yield, h]⟩
  | cons s r ih =>
    intro w h
    cases s with
    | eps => exact absurd h (by simp [CSeq])
    | t a =>
      obtain ⟨v, rfl, hv⟩ := h
      obtain ⟨f, hf, hr, hy⟩ := ih v hv
      exact ⟨.cons (.leaf a) f, ⟨trivial, hf⟩, by simp [Forest.roots, Tree.root, hr],
        by simp [Forest.yield, Tree.yield, hy]⟩
    | n A =>
      obtain ⟨u, v, rfl, ⟨t, ht, htr, hty⟩, hv⟩ := h
      obtain ⟨f, hf, hr, hy⟩ := ih v hv
      exact ⟨.cons t f, ⟨ht, hf⟩, by simp [Forest.roots, htr, hr], by simp [Forest.yield, hty, hy]⟩

theorem derives_intro (g : Grammar) {A k : Nat} {rhs : List Sym} {w : List Nat}
    (ha : (g.alts A)[k]? = some rhs) (h : CSeq (fun B u => Derives g (.n B) u) rhs w) :
    Derives g (.n A) w := by
  obtain ⟨f, hf, hr, hy⟩ := forest_of_cseq g rhs w h
  exact ⟨.node A k f, ⟨by rw [hr]; exact ha, hf⟩, rfl, by simp [Tree.yield, hy]⟩

mutual
theorem tree_claim (g : Grammar) (c : Nat → List Nat → Prop)
    (step : ∀ (A k : Nat) (rhs : List Sym) (w : List Nat), (g.alts A)[k]? = some rhs → CSeq c rhs w → c A w) :
    (t : Tree) → t.Valid g → ∀ A, t.root = .n A → c A t.yield
  | .leaf _, _, _, h => by simp [Tree.root] at h
  | .node l a cs, hv, A, h => by
    simp only [Tree.root, Sym.n.injEq] at h
    subst h
    exact step l a cs.roots _ hv.1 (forest_claim g c step cs hv.2)
theorem forest_claim (g : Grammar) (c : Nat → List Nat → Prop)
    (step : ∀ (A k : Nat) (rhs : List Sym) (w : List Nat), (g.alts A)[k]? = some rhs → CSeq c rhs w → c A w) :
    (f : Forest) → f.Valid g → CSeq c f.roots f.yield
  | .nil, _ => rfl
  | .cons (.leaf _) f, hv => ⟨_, rfl, forest_claim g c step f hv.2⟩
  | .cons (.node l a cs) f, hv =>
    ⟨_, _, rfl, tree_claim g c step (.node l a cs) hv.1 l rfl, forest_claim g c step f hv.2⟩
end

theorem derives_ind (g : Grammar) (c : Nat → List Nat → Prop)
    (step : ∀ (A k : Nat) (rhs : List Sym) (w : List Nat), (g.alts A)[k]? = some rhs → CSeq c rhs w → c A w)
    {A : Nat} {w : List Nat} (h : Derives g (.n A) w) : c A w := by
  obtain ⟨t, hv, hr, rfl⟩ := h
  exact tree_claim g c step t hv A hr

/-! ### the alternatives of the language grammar -/
open LangNT

theorem alts_S : langGrammar.alts S =
    [[.t Tok.PROGRAM, .t Tok.ID, .n PORTS, .t Tok.DO, .n P, .t Tok.END, .n S], [.n P]] := by decide
theorem alts_PORTS : langGrammar.alts PORTS = [[.t Tok.IN, .n ARGS, .n OPORTS], []] := by decide
theorem alts_OPORTS : langGrammar.alts OPORTS = [[.t Tok.OUT, .t Tok.ID], []] := by decide
theorem alts_ARGS : langGrammar.alts ARGS = [[.t Tok.ID, .n MARGS]] := by decide
theorem alts_MARGS : langGrammar.alts MARGS = [[.t Tok.ARGSEP, .n ARGS], []] := by decide
theorem alts_P : langGrammar.alts P =
    [[.t Tok.ID, .n PID],
     [.t Tok.LOOP, .t Tok.ID, .t Tok.DO, .n P, .t Tok.END, .n MOREP],
     [.t Tok.WHILE, .t Tok.ID, .t Tok.NEQ_ZERO, .t Tok.DO, .n P, .t Tok.END, .n MOREP],
     [.t Tok.GOTO, .t Tok.ID, .n MOREP],
     [.t Tok.IF, .t Tok.ID, .t Tok.EQ, .t Tok.INT, .t Tok.THEN, .t Tok.GOTO, .t Tok.ID, .n MOREP],
     [.t Tok.STOP, .n MOREP]] := by decide
theorem alts_PID : langGrammar.alts PID =
    [[.t Tok.ASSIGN, .n VALUE, .n MOREP], [.t Tok.LABELDEC, .n P, .n MOREP]] := by decide
theorem alts_MOREP : langGrammar.alts MOREP = [[.t Tok.PROGSEP, .n P], []] := by decide
theorem alts_VALUE : langGrammar.alts VALUE =
    [[.t Tok.ID], [.t Tok.INT], [.t Tok.RUN, .t Tok.ID, .t Tok.WITH, .n VARGS, .t Tok.END]] := by decide
theorem alts_VARGS : langGrammar.alts VARGS = [[], [.n VALUE, .n MVARGS]] := by decide
theorem alts_MVARGS : langGrammar.alts MVARGS = [[.t Tok.ARGSEP, .n VALUE, .n MVARGS], []] := by decide
theorem prods_lt : ∀ e ∈ langGrammar.prods, e.1 < 11 := by decide
theorem alts_ge (A : Nat) (h : 11 ≤ A) : langGrammar.alts A = [] := by
  unfold Grammar.alts
  have : langGrammar.prods.find? (fun e => e.1 = A) = none := by
    apply List.find?_eq_none.mpr
    intro e he
    have := prods_lt e he
    simp; omega
  rw [this]; rfl

/-! ### parser state basics -/

def laT (ts : List Token) : Nat := (ts.head?.getD ⟨Tok.T_EOF, bEOF, bDash, -1⟩).kind
@[simp] theorem laT_nil : laT [] = Tok.T_EOF := rfl
@[simp] theorem laT_cons (t : Token) (r : List Token) : laT (t :: r) = t.kind := rfl
theorem la_eq (ps : PS) : ps.la = laT ps.ts := rfl
@[simp] theorem la_mk (ts : List Token) (e : List SynErr) : PS.la ⟨ts, e⟩ = laT ts := rfl
theorem laT_ne_eof {ts : List Token} (h : laT ts ≠ Tok.T_EOF) : ∃ t r, ts = t :: r := by
  cases ts with
  | nil => simp at h
  | cons t r => exact ⟨t, r, rfl⟩

@[simp] theorem err_errs_length (ps : PS) (k : SynKind) : (ps.err k).errs.length = ps.errs.length + 1 := by
  simp [PS.err]
@[simp] theorem err_ts (ps : PS) (k : SynKind) : (ps.err k).ts = ps.ts := rfl
@[simp] theorem err_la (ps : PS) (k : SynKind) : (ps.err k).la = ps.la := rfl

/-- the step from `a` to `b` either records an error, or records none and then `Q` holds -/
def Adv (Q : Prop) (a b : PS) : Prop := a.errs.length < b.errs.length ∨ (b.errs = a.errs ∧ Q)

theorem Adv.le {Q a b} (h : Adv Q a b) : a.errs.length ≤ b.errs.length := by
  rcases h with h | ⟨h, _⟩
  · omega
  · rw [h]; exact Nat.le_refl _
theorem Adv.refl {Q : Prop} {a} (h : Q) : Adv Q a a := Or.inr ⟨rfl, h⟩
theorem Adv.mono {Q Q' : Prop} {a b} (h : Adv Q a b) (f : Q → Q') : Adv Q' a b :=
  h.imp id (fun ⟨e, q⟩ => ⟨e, f q⟩)
theorem Adv.of_lt {Q : Prop} {a b c : PS} (h1 : a.errs.length < b.errs.length)
    (h2 : b.errs.length ≤ c.errs.length) : Adv Q a c := Or.inl (by omega)
theorem Adv.compd {Q R : Prop} {a b c : PS} (h1 : Adv Q a b) (hle : b.errs.length ≤ c.errs.length)
    (h2 : Q → b.errs = a.errs → Adv R b c) : Adv (Q ∧ R) a c := by
  rcases h1 with h1 | ⟨e1, q⟩
  · exact Or.inl (by omega)
  · rcases h2 q e1 with h2 | ⟨e2, r⟩
    · exact Or.inl (by rw [← e1]; exact h2)
    · exact Or.inr ⟨by rw [e2, e1], q, r⟩
theorem Adv.comp {Q R : Prop} {a b c : PS} (h1 : Adv Q a b) (h2 : Adv R b c) : Adv (Q ∧ R) a c :=
  h1.compd h2.le (fun _ _ => h2)

theorem matchK_adv (ps : PS) (k : Nat) (hk : k ≠ Tok.T_EOF) :
    Adv (∃ t, t.kind = k ∧ ps.ts = t :: (ps.matchK k).ts) ps (ps.matchK k) := by
  unfold PS.matchK
  by_cases h : ps.la = k
  · right
    have h' : ¬ ps.la ≠ k := by simpa using h
    simp only [if_neg h']
    have hne : ps.la ≠ Tok.T_EOF := by rw [h]; exact hk
    simp only [if_pos hne]
    obtain ⟨t, r, htr⟩ := laT_ne_eof hne
    refine ⟨trivial, t, ?_, ?_⟩
    · rw [← h, la_eq, htr]; rfl
    · simp [htr]
  · left
    simp only [if_pos h]
    split <;> simp

theorem ite_snd {α β} (c : Prop) [Decidable c] (a b : α × β) :
    (if c then a else b).2 = if c then a.2 else b.2 := by split <;> rfl

/-! ### the state component of each parser function -/

theorem pS_zero (ps : PS) : (pS 0 ps).2 = ps.err .fuel := by rw [pS]
theorem pPORTS_zero (ps : PS) : (pPORTS 0 ps).2 = ps.err .fuel := by rw [pPORTS]
theorem pARGS_zero (ps : PS) : (pARGS 0 ps).2 = ps.err .fuel := by rw [pARGS]
theorem pEEOS_zero (ps : PS) : pEEOS 0 ps = ps.err .fuel := by rw [pEEOS]
theorem pP_zero (ps : PS) : (pP 0 ps).2 = ps.err .fuel := by rw [pP]
theorem pMOREP_zero (ps : PS) : (pMOREP 0 ps).2 = ps.err .fuel := by rw [pMOREP]
theorem pVALUE_zero (ps : PS) : (pVALUE 0 ps).2 = ps.err .fuel := rfl
theorem pMVARGS_zero (ps : PS) : (pMVARGS 0 ps).2 = ps.err .fuel := by rw [pMVARGS]

theorem pS_succ (f : Nat) (ps : PS) : (pS (f+1) ps).2 =
    if ps.la = Tok.PROGRAM then
      (pS f ((pP f ((pPORTS f ((ps.matchK Tok.PROGRAM).matchK Tok.ID)).2.matchK Tok.DO)).2.matchK Tok.END)).2
    else (pP f ps).2 := by
  rw [pS]
  split <;> rfl

theorem pOPORTS_eq (ps : PS) : (pOPORTS ps).2 =
    if ps.la = Tok.OUT then (ps.matchK Tok.OUT).matchK Tok.ID else ps := by
  unfold pOPORTS
  split <;> rfl

theorem pPORTS_succ (f : Nat) (ps : PS) : (pPORTS (f+1) ps).2 =
    if ps.la = Tok.IN then (pOPORTS (pARGS f (ps.matchK Tok.IN)).2).2 else ps := by
  rw [pPORTS]
  split <;> rfl

theorem pARGS_succ (f : Nat) (ps : PS) : (pARGS (f+1) ps).2 =
    if (ps.matchK Tok.ID).la ≠ Tok.ARGSEP then ps.matchK Tok.ID
    else (pARGS f ((ps.matchK Tok.ID).matchK Tok.ARGSEP)).2 := by
  rw [pARGS]
  dsimp only [PS.matchmk]
  simp only [ite_snd]

theorem pEEOS_succ (f : Nat) (ps : PS) : pEEOS (f+1) ps =
    if ps.la = Tok.ID ∨ ps.la = Tok.LOOP ∨ ps.la = Tok.WHILE ∨ ps.la = Tok.GOTO ∨ ps.la = Tok.IF ∨ ps.la = Tok.STOP then
      pEEOS f (pP f (ps.err .missingSemi)).2
    else if ps.la = Tok.PROGRAM then pEEOS f (pS f (ps.err .progNotAllowed)).2
    else if ps.la = Tok.PROGSEP then pEEOS f (pMOREP f ps).2
    else ps := by
  rw [pEEOS]

theorem pP_succ (f : Nat) (ps : PS) : (pP (f+1) ps).2 =
    if ps.la = Tok.ID then
      pEEOS f (pMOREP f
        (if (ps.matchK Tok.ID).la = Tok.ASSIGN then (pVALUE f ((ps.matchK Tok.ID).matchK Tok.ASSIGN)).2
         else if (ps.matchK Tok.ID).la = Tok.LABELDEC then (pP f ((ps.matchK Tok.ID).matchK Tok.LABELDEC)).2
         else (ps.matchK Tok.ID).err .expectedAssign)).2
    else if ps.la = Tok.LOOP ∨ ps.la = Tok.WHILE then
      pEEOS f (pMOREP f ((pP f ((if ps.la = Tok.WHILE then ((ps.matchK ps.la).matchK Tok.ID).matchK Tok.NEQ_ZERO
          else (ps.matchK ps.la).matchK Tok.ID).matchK Tok.DO)).2.matchK Tok.END)).2
    else if ps.la = Tok.GOTO then
      pEEOS f (pMOREP f ((ps.matchK Tok.GOTO).matchK Tok.ID)).2
    else if ps.la = Tok.IF then
      pEEOS f (pMOREP f (((((((ps.matchK Tok.IF).matchK Tok.ID).matchK Tok.EQ).matchK Tok.INT).matchK Tok.THEN).matchK Tok.GOTO).matchK Tok.ID)).2
    else if ps.la = Tok.STOP then
      pEEOS f (pMOREP f (ps.matchK Tok.STOP)).2
    else pEEOS f (ps.err .expectedComponent) := by
  rw [pP]
  dsimp only [PS.matchmk]
  simp only [ite_snd]
  repeat' split

theorem pMOREP_succ (f : Nat) (ps : PS) : (pMOREP (f+1) ps).2 =
    if ps.la ≠ Tok.PROGSEP then ps
    else (pP f (if (ps.matchK Tok.PROGSEP).la = Tok.END ∨ (ps.matchK Tok.PROGSEP).la = Tok.T_EOF
      then (ps.matchK Tok.PROGSEP).err .excessSemi else ps.matchK Tok.PROGSEP)).2 := by
  rw [pMOREP]
  split <;> rfl

theorem pVALUE_succ (f : Nat) (ps : PS) : (pVALUE (f+1) ps).2 =
    if ps.la = Tok.ID then ps.matchK Tok.ID
    else if ps.la = Tok.INT then ps.matchK Tok.INT
    else if ps.la = Tok.RUN then
      (if (((ps.matchK Tok.RUN).matchK Tok.ID).matchK Tok.WITH).la ≠ Tok.ID ∧
          (((ps.matchK Tok.RUN).matchK Tok.ID).matchK Tok.WITH).la ≠ Tok.INT ∧
          (((ps.matchK Tok.RUN).matchK Tok.ID).matchK Tok.WITH).la ≠ Tok.RUN
       then ((ps.matchK Tok.RUN).matchK Tok.ID).matchK Tok.WITH
       else (pMVARGS f (pVALUE f (((ps.matchK Tok.RUN).matchK Tok.ID).matchK Tok.WITH)).2).2).matchK Tok.END
    else ps.err .expectedValue := by
  rw [pVALUE.eq_def (f+1) ps]
  dsimp only [PS.matchmk]
  simp only [ite_snd]
  repeat' split

theorem pMVARGS_succ (f : Nat) (ps : PS) : (pMVARGS (f+1) ps).2 =
    if ps.la ≠ Tok.ARGSEP then ps
    else if (pVALUE f (ps.matchK Tok.ARGSEP)).1 = .nil then (pVALUE f (ps.matchK Tok.ARGSEP)).2
    else (pMVARGS f (pVALUE f (ps.matchK Tok.ARGSEP)).2).2 := by
  rw [pMVARGS]
  split
  · rfl
  · dsimp only
    split
    · rename_i h; rw [if_pos h]
    · rename_i h; rw [if_neg h]

/-! ### error-free runs of the parser, as a relation on token lists -/

inductive RK where
  | S | PORTS | OPORTS | ARGS | P | TAIL | VALUE | MVARGS

/-- lookaheads on which `expected_end_or_semicolon` does nothing -/
def EEOSok (k : Nat) : Prop :=
  ¬ (k = Tok.ID ∨ k = Tok.LOOP ∨ k = Tok.WHILE ∨ k = Tok.GOTO ∨ k = Tok.IF ∨ k = Tok.STOP) ∧
    k ≠ Tok.PROGRAM ∧ k ≠ Tok.PROGSEP

/-- `Run X ts ts'`: the function for `X` consumes `ts` down to `ts'` without recording an error
    (`TAIL` is `MOREP` followed by `expected_end_or_semicolon`) -/
inductive Run : RK → List Token → List Token → Prop where
  | s_prog {t1 t2 t3 t4 : Token} {r2 r3 r4 r5 : List Token} :
      t1.kind = Tok.PROGRAM → t2.kind = Tok.ID → Run .PORTS r2 (t3 :: r3) → t3.kind = Tok.DO →
      Run .P r3 (t4 :: r4) → t4.kind = Tok.END → Run .S r4 r5 → Run .S (t1 :: t2 :: r2) r5
  | s_p {r r' : List Token} : laT r ≠ Tok.PROGRAM → Run .P r r' → Run .S r r'
  | ports_nil {r : List Token} : laT r ≠ Tok.IN → Run .PORTS r r
  | ports_in {t : Token} {r r1 r2 : List Token} :
      t.kind = Tok.IN → Run .ARGS r r1 → Run .OPORTS r1 r2 → Run .PORTS (t :: r) r2
  | oports_nil {r : List Token} : laT r ≠ Tok.OUT → Run .OPORTS r r
  | oports_out {t1 t2 : Token} {r : List Token} :
      t1.kind = Tok.OUT → t2.kind = Tok.ID → Run .OPORTS (t1 :: t2 :: r) r
  | args_one {t : Token} {r : List Token} : t.kind = Tok.ID → laT r ≠ Tok.ARGSEP → Run .ARGS (t :: r) r
  | args_more {t1 t2 : Token} {r r' : List Token} :
      t1.kind = Tok.ID → t2.kind = Tok.ARGSEP → Run .ARGS r r' → Run .ARGS (t1 :: t2 :: r) r'
  | p_assign {t1 t2 : Token} {r r1 r2 : List Token} :
      t1.kind = Tok.ID → t2.kind = Tok.ASSIGN → Run .VALUE r r1 → Run .TAIL r1 r2 →
      Run .P (t1 :: t2 :: r) r2
  | p_label {t1 t2 : Token} {r r1 r2 : List Token} :
      t1.kind = Tok.ID → t2.kind = Tok.LABELDEC → Run .P r r1 → Run .TAIL r1 r2 →
      Run .P (t1 :: t2 :: r) r2
  | p_loop {t1 t2 t3 t4 : Token} {r r1 r2 : List Token} :
      t1.kind = Tok.LOOP → t2.kind = Tok.ID → t3.kind = Tok.DO → Run .P r (t4 :: r1) →
      t4.kind = Tok.END → Run .TAIL r1 r2 → Run .P (t1 :: t2 :: t3 :: r) r2
  | p_while {t1 t2 t3 t4 t5 : Token} {r r1 r2 : List Token} :
      t1.kind = Tok.WHILE → t2.kind = Tok.ID → t3.kind = Tok.NEQ_ZERO → t4.kind = Tok.DO →
      Run .P r (t5 :: r1) → t5.kind = Tok.END → Run .TAIL r1 r2 → Run .P (t1 :: t2 :: t3 :: t4 :: r) r2
  | p_goto {t1 t2 : Token} {r r2 : List Token} :
      t1.kind = Tok.GOTO → t2.kind = Tok.ID → Run .TAIL r r2 → Run .P (t1 :: t2 :: r) r2
  | p_if {t1 t2 t3 t4 t5 t6 t7 : Token} {r r2 : List Token} :
      t1.kind = Tok.IF → t2.kind = Tok.ID → t3.kind = Tok.EQ → t4.kind = Tok.INT →
      t5.kind = Tok.THEN → t6.kind = Tok.GOTO → t7.kind = Tok.ID → Run .TAIL r r2 →
      Run .P (t1 :: t2 :: t3 :: t4 :: t5 :: t6 :: t7 :: r) r2
  | p_stop {t1 : Token} {r r2 : List Token} : t1.kind = Tok.STOP → Run .TAIL r r2 → Run .P (t1 :: r) r2
  | tail_nil {r : List Token} : EEOSok (laT r) → Run .TAIL r r
  | tail_semi {t : Token} {r r' : List Token} : t.kind = Tok.PROGSEP → Run .P r r' → Run .TAIL (t :: r) r'
  | value_id {t : Token} {r : List Token} : t.kind = Tok.ID → Run .VALUE (t :: r) r
  | value_int {t : Token} {r : List Token} : t.kind = Tok.INT → Run .VALUE (t :: r) r
  | value_run0 {t1 t2 t3 t4 : Token} {r : List Token} :
      t1.kind = Tok.RUN → t2.kind = Tok.ID → t3.kind = Tok.WITH → t4.kind = Tok.END →
      Run .VALUE (t1 :: t2 :: t3 :: t4 :: r) r
  | value_runargs {t1 t2 t3 t4 : Token} {r r1 r2 : List Token} :
      t1.kind = Tok.RUN → t2.kind = Tok.ID → t3.kind = Tok.WITH → Run .VALUE r r1 →
      Run .MVARGS r1 (t4 :: r2) → t4.kind = Tok.END → Run .VALUE (t1 :: t2 :: t3 :: r) r2
  | mv_nil {r : List Token} : laT r ≠ Tok.ARGSEP → Run .MVARGS r r
  | mv_more {t : Token} {r r1 r2 : List Token} :
      t.kind = Tok.ARGSEP → Run .VALUE r r1 → Run .MVARGS r1 r2 → Run .MVARGS (t :: r) r2

theorem run_eeosok {k : RK} {ts ts' : List Token} (h : Run k ts ts') :
    (k = .P ∨ k = .TAIL) → EEOSok (laT ts') := by
  induction h with
  | tail_nil h => intro _; exact h
  | tail_semi _ _ ih => intro _; exact ih (Or.inl rfl)
  | p_assign _ _ _ _ _ ih => intro _; exact ih (Or.inr rfl)
  | p_label _ _ _ _ _ ih => intro _; exact ih (Or.inr rfl)
  | p_loop _ _ _ _ _ _ _ ih => intro _; exact ih (Or.inr rfl)
  | p_while _ _ _ _ _ _ _ _ ih => intro _; exact ih (Or.inr rfl)
  | p_goto _ _ _ ih => intro _; exact ih (Or.inr rfl)
  | p_if _ _ _ _ _ _ _ _ ih => intro _; exact ih (Or.inr rfl)
  | p_stop _ _ ih => intro _; exact ih (Or.inr rfl)
  | _ => intro h; rcases h with h | h <;> cases h

theorem eeos_ok (f : Nat) (ps : PS) (h : EEOSok ps.la) : pEEOS (f+1) ps = ps := by
  rw [pEEOS_succ, if_neg h.1, if_neg h.2.1, if_neg h.2.2]

/-! ### soundness: an error-free call is a run -/

local macro "mK" k:term : term => `(matchK_adv _ $k (by decide))

theorem value_fst_nil (f : Nat) (ps : PS) (h : (pVALUE f ps).1 = .nil) :
    (pVALUE f ps).2.errs.length = ps.errs.length + 1 := by
  cases f with
  | zero => rw [pVALUE_zero]; simp
  | succ f =>
    rw [pVALUE.eq_def (f+1) ps] at h ⊢
    dsimp only [PS.matchmk] at h ⊢
    split at h
    · cases h
    · split at h
      · cases h
      · split at h
        · cases h
        · rename_i h1 h2 h3
          rw [if_neg h1, if_neg h2, if_neg h3]; simp

theorem oports_adv (ps : PS) : Adv (Run .OPORTS ps.ts (pOPORTS ps).2.ts) ps (pOPORTS ps).2 := by
  rw [pOPORTS_eq]
  split
  · refine ((mK Tok.OUT).comp (mK Tok.ID)).mono ?_
    rintro ⟨⟨t1, k1, h1⟩, ⟨t2, k2, h2⟩⟩
    rw [h1, h2]; exact Run.oports_out k1 k2
  · rename_i h
    exact Adv.refl (Run.oports_nil h)

/-- the induction hypothesis at one fuel level -/
structure AB (f : Nat) : Prop where
  s : ∀ ps, Adv (Run .S ps.ts (pS f ps).2.ts) ps (pS f ps).2
  ports : ∀ ps, Adv (Run .PORTS ps.ts (pPORTS f ps).2.ts) ps (pPORTS f ps).2
  args : ∀ ps, Adv (Run .ARGS ps.ts (pARGS f ps).2.ts) ps (pARGS f ps).2
  p : ∀ ps, Adv (Run .P ps.ts (pP f ps).2.ts) ps (pP f ps).2
  tail : ∀ ps, Adv (Run .TAIL ps.ts (pEEOS f (pMOREP f ps).2).ts) ps (pEEOS f (pMOREP f ps).2)
  value : ∀ ps, Adv (Run .VALUE ps.ts (pVALUE f ps).2.ts) ps (pVALUE f ps).2
  mv : ∀ ps, Adv (Run .MVARGS ps.ts (pMVARGS f ps).2.ts) ps (pMVARGS f ps).2
  eeos : ∀ ps, ps.errs.length ≤ (pEEOS f ps).errs.length
  morep : ∀ ps, ps.errs.length ≤ (pMOREP f ps).2.errs.length

theorem ab_zero : AB 0 where
  s ps := Or.inl (by rw [pS_zero]; simp)
  ports ps := Or.inl (by rw [pPORTS_zero]; simp)
  args ps := Or.inl (by rw [pARGS_zero]; simp)
  p ps := Or.inl (by rw [pP_zero]; simp)
  tail ps := Or.inl (by rw [pMOREP_zero, pEEOS_zero]; simp; omega)
  value ps := Or.inl (by rw [pVALUE_zero]; simp)
  mv ps := Or.inl (by rw [pMVARGS_zero]; simp)
  eeos ps := by rw [pEEOS_zero]; simp
  morep ps := by rw [pMOREP_zero]; simp

theorem ab_s {f : Nat} (ih : AB f) (ps : PS) :
    Adv (Run .S ps.ts (pS (f+1) ps).2.ts) ps (pS (f+1) ps).2 := by
  rw [pS_succ]
  split
  · refine ((mK Tok.PROGRAM).comp ((mK Tok.ID).comp ((ih.ports _).comp ((mK Tok.DO).comp
      ((ih.p _).comp ((mK Tok.END).comp (ih.s _))))))).mono ?_
    rintro ⟨⟨t1, k1, h1⟩, ⟨t2, k2, h2⟩, hp, ⟨t3, k3, h3⟩, hP, ⟨t4, k4, h4⟩, hS⟩
    rw [h1, h2]; rw [h3] at hp; rw [h4] at hP
    exact Run.s_prog k1 k2 hp k3 hP k4 hS
  · rename_i h
    exact (ih.p ps).mono (fun hr => Run.s_p h hr)

theorem ab_ports {f : Nat} (ih : AB f) (ps : PS) :
    Adv (Run .PORTS ps.ts (pPORTS (f+1) ps).2.ts) ps (pPORTS (f+1) ps).2 := by
  rw [pPORTS_succ]
  split
  · refine ((mK Tok.IN).comp ((ih.args _).comp (oports_adv _))).mono ?_
    rintro ⟨⟨t1, k1, h1⟩, ha, ho⟩
    rw [h1]; exact Run.ports_in k1 ha ho
  · rename_i h
    exact Adv.refl (Run.ports_nil h)

theorem ab_args {f : Nat} (ih : AB f) (ps : PS) :
    Adv (Run .ARGS ps.ts (pARGS (f+1) ps).2.ts) ps (pARGS (f+1) ps).2 := by
  rw [pARGS_succ]
  split
  · rename_i h
    refine (mK Tok.ID).mono ?_
    rintro ⟨t1, k1, h1⟩
    rw [h1]; exact Run.args_one k1 h
  · refine ((mK Tok.ID).comp ((mK Tok.ARGSEP).comp (ih.args _))).mono ?_
    rintro ⟨⟨t1, k1, h1⟩, ⟨t2, k2, h2⟩, ha⟩
    rw [h1, h2]; exact Run.args_more k1 k2 ha

theorem ab_value {f : Nat} (ih : AB f) (ps : PS) :
    Adv (Run .VALUE ps.ts (pVALUE (f+1) ps).2.ts) ps (pVALUE (f+1) ps).2 := by
  rw [pVALUE_succ]
  split
  · refine (mK Tok.ID).mono ?_
    rintro ⟨t1, k1, h1⟩
    rw [h1]; exact Run.value_id k1
  · split
    · refine (mK Tok.INT).mono ?_
      rintro ⟨t1, k1, h1⟩
      rw [h1]; exact Run.value_int k1
    · split
      · split
        · refine ((mK Tok.RUN).comp ((mK Tok.ID).comp ((mK Tok.WITH).comp (mK Tok.END)))).mono ?_
          rintro ⟨⟨t1, k1, h1⟩, ⟨t2, k2, h2⟩, ⟨t3, k3, h3⟩, ⟨t4, k4, h4⟩⟩
          rw [h1, h2, h3, h4]; exact Run.value_run0 k1 k2 k3 k4
        · refine ((mK Tok.RUN).comp ((mK Tok.ID).comp ((mK Tok.WITH).comp ((ih.value _).comp
            ((ih.mv _).comp (mK Tok.END)))))).mono ?_
          rintro ⟨⟨t1, k1, h1⟩, ⟨t2, k2, h2⟩, ⟨t3, k3, h3⟩, hv, hm, ⟨t4, k4, h4⟩⟩
          rw [h1, h2, h3]; rw [h4] at hm
          exact Run.value_runargs k1 k2 k3 hv hm k4
      · exact Or.inl (by simp)

theorem ab_mv {f : Nat} (ih : AB f) (ps : PS) :
    Adv (Run .MVARGS ps.ts (pMVARGS (f+1) ps).2.ts) ps (pMVARGS (f+1) ps).2 := by
  rw [pMVARGS_succ]
  split
  · rename_i h
    exact Adv.refl (Run.mv_nil h)
  · split
    · rename_i hv
      have h1 := value_fst_nil _ _ hv
      have h2 := (matchK_adv ps Tok.ARGSEP (by decide)).le
      exact Or.inl (by omega)
    · refine ((mK Tok.ARGSEP).comp ((ih.value _).comp (ih.mv _))).mono ?_
      rintro ⟨⟨t1, k1, h1⟩, hv, hm⟩
      rw [h1]; exact Run.mv_more k1 hv hm

theorem ab_eeos {f : Nat} (ih : AB f) (ps : PS) : ps.errs.length ≤ (pEEOS (f+1) ps).errs.length := by
  rw [pEEOS_succ]
  split
  · have h1 := ih.eeos (pP f (ps.err .missingSemi)).2
    have h2 := (ih.p (ps.err .missingSemi)).le
    simp at h2; omega
  · split
    · have h1 := ih.eeos (pS f (ps.err .progNotAllowed)).2
      have h2 := (ih.s (ps.err .progNotAllowed)).le
      simp at h2; omega
    · split
      · exact Nat.le_trans (ih.morep ps) (ih.eeos _)
      · exact Nat.le_refl _

theorem ab_morep {f : Nat} (ih : AB f) (ps : PS) : ps.errs.length ≤ (pMOREP (f+1) ps).2.errs.length := by
  rw [pMOREP_succ]
  split
  · exact Nat.le_refl _
  · have h1 := (matchK_adv ps Tok.PROGSEP (by decide)).le
    refine Nat.le_trans ?_ (ih.p _).le
    split
    · simp; omega
    · exact h1

theorem ab_tail {f : Nat} (ih : AB f) (ps : PS) :
    Adv (Run .TAIL ps.ts (pEEOS (f+1) (pMOREP (f+1) ps).2).ts) ps (pEEOS (f+1) (pMOREP (f+1) ps).2) := by
  rw [pMOREP_succ]
  split
  · rename_i h
    rw [pEEOS_succ]
    split
    · exact Adv.of_lt (b := ps.err .missingSemi) (by simp) (Nat.le_trans (ih.p _).le (ih.eeos _))
    · split
      · exact Adv.of_lt (b := ps.err .progNotAllowed) (by simp) (Nat.le_trans (ih.s _).le (ih.eeos _))
      · rename_i h1 h2
        exact Adv.refl (Run.tail_nil ⟨h1, h2, h⟩)
  · split
    · have h1 := (matchK_adv ps Tok.PROGSEP (by decide)).le
      exact Adv.of_lt (b := (ps.matchK Tok.PROGSEP).err .excessSemi) (by simp; omega)
        (Nat.le_trans (ih.p _).le (ab_eeos ih _))
    · refine ((mK Tok.PROGSEP).comp ((ih.p _).compd (R := True) (ab_eeos ih _) ?_)).mono ?_
      · intro hr _
        rw [eeos_ok _ _ (run_eeosok hr (Or.inl rfl))]
        exact Adv.refl trivial
      · rintro ⟨⟨t1, k1, h1⟩, hr, _⟩
        rw [eeos_ok _ _ (run_eeosok hr (Or.inl rfl)), h1]
        exact Run.tail_semi k1 hr

theorem ab_p {f : Nat} (ih : AB f) (ps : PS) :
    Adv (Run .P ps.ts (pP (f+1) ps).2.ts) ps (pP (f+1) ps).2 := by
  rw [pP_succ]
  split
  · split
    · refine ((mK Tok.ID).comp ((mK Tok.ASSIGN).comp ((ih.value _).comp (ih.tail _)))).mono ?_
      rintro ⟨⟨t1, k1, h1⟩, ⟨t2, k2, h2⟩, hv, ht⟩
      rw [h1, h2]; exact Run.p_assign k1 k2 hv ht
    · split
      · refine ((mK Tok.ID).comp ((mK Tok.LABELDEC).comp ((ih.p _).comp (ih.tail _)))).mono ?_
        rintro ⟨⟨t1, k1, h1⟩, ⟨t2, k2, h2⟩, hv, ht⟩
        rw [h1, h2]; exact Run.p_label k1 k2 hv ht
      · have h1 := (matchK_adv ps Tok.ID (by decide)).le
        exact Adv.of_lt (b := (ps.matchK Tok.ID).err .expectedAssign) (by simp; omega) (ih.tail _).le
  · split
    · rename_i h
      rcases h with h | h
      · simp only [h]
        rw [if_neg (by decide : ¬ Tok.LOOP = Tok.WHILE)]
        refine ((mK Tok.LOOP).comp ((mK Tok.ID).comp ((mK Tok.DO).comp ((ih.p _).comp
          ((mK Tok.END).comp (ih.tail _)))))).mono ?_
        rintro ⟨⟨t1, k1, h1⟩, ⟨t2, k2, h2⟩, ⟨t3, k3, h3⟩, hp, ⟨t4, k4, h4⟩, ht⟩
        rw [h1, h2, h3]; rw [h4] at hp
        exact Run.p_loop k1 k2 k3 hp k4 ht
      · simp only [h, ↓reduceIte]
        refine ((mK Tok.WHILE).comp ((mK Tok.ID).comp ((mK Tok.NEQ_ZERO).comp ((mK Tok.DO).comp ((ih.p _).comp
          ((mK Tok.END).comp (ih.tail _))))))).mono ?_
        rintro ⟨⟨t1, k1, h1⟩, ⟨t2, k2, h2⟩, ⟨t3, k3, h3⟩, ⟨t4, k4, h4⟩, hp, ⟨t5, k5, h5⟩, ht⟩
        rw [h1, h2, h3, h4]; rw [h5] at hp
        exact Run.p_while k1 k2 k3 k4 hp k5 ht
    · split
      · refine ((mK Tok.GOTO).comp ((mK Tok.ID).comp (ih.tail _))).mono ?_
        rintro ⟨⟨t1, k1, h1⟩, ⟨t2, k2, h2⟩, ht⟩
        rw [h1, h2]; exact Run.p_goto k1 k2 ht
      · split
        · refine ((mK Tok.IF).comp ((mK Tok.ID).comp ((mK Tok.EQ).comp ((mK Tok.INT).comp ((mK Tok.THEN).comp
            ((mK Tok.GOTO).comp ((mK Tok.ID).comp (ih.tail _)))))))).mono ?_
          rintro ⟨⟨t1, k1, h1⟩, ⟨t2, k2, h2⟩, ⟨t3, k3, h3⟩, ⟨t4, k4, h4⟩, ⟨t5, k5, h5⟩, ⟨t6, k6, h6⟩,
            ⟨t7, k7, h7⟩, ht⟩
          rw [h1, h2, h3, h4, h5, h6, h7]; exact Run.p_if k1 k2 k3 k4 k5 k6 k7 ht
        · split
          · refine ((mK Tok.STOP).comp (ih.tail _)).mono ?_
            rintro ⟨⟨t1, k1, h1⟩, ht⟩
            rw [h1]; exact Run.p_stop k1 ht
          · exact Adv.of_lt (b := ps.err .expectedComponent) (by simp) (ih.eeos _)

theorem ab_all : ∀ f, AB f
  | 0 => ab_zero
  | f + 1 =>
    have ih := ab_all f
    { s := ab_s ih, ports := ab_ports ih, args := ab_args ih, p := ab_p ih, tail := ab_tail ih,
      value := ab_value ih, mv := ab_mv ih, eeos := ab_eeos ih, morep := ab_morep ih }

/-! ### runs are derivations -/

abbrev D (A : Nat) (w : List Nat) : Prop := Derives langGrammar (.n A) w

section
open LangNT
local macro "alt%" l:ident "," i:term "," e:term : term =>
  `(derives_intro langGrammar (k := $i) (by rw [$l:ident]; rfl) $e)

theorem D_S_prog {u v w} (h1 : D PORTS u) (h2 : D P v) (h3 : D S w) :
    D S (Tok.PROGRAM :: Tok.ID :: (u ++ Tok.DO :: (v ++ Tok.END :: w))) := by
  have := alt% alts_S, 0, CSeq.t (CSeq.t (CSeq.n h1 (CSeq.t (CSeq.n h2 (CSeq.t (CSeq.n h3 CSeq.nil))))))
  simpa using this
theorem D_S_p {u} (h : D P u) : D S u := by
  have := alt% alts_S, 1, CSeq.n h CSeq.nil
  simpa using this
theorem D_PORTS_in {u v} (h1 : D ARGS u) (h2 : D OPORTS v) : D PORTS (Tok.IN :: (u ++ v)) := by
  have := alt% alts_PORTS, 0, CSeq.t (CSeq.n h1 (CSeq.n h2 CSeq.nil))
  simpa using this
theorem D_PORTS_nil : D PORTS [] := alt% alts_PORTS, 1, CSeq.nil
theorem D_OPORTS_out : D OPORTS [Tok.OUT, Tok.ID] := alt% alts_OPORTS, 0, CSeq.t (CSeq.t CSeq.nil)
theorem D_OPORTS_nil : D OPORTS [] := alt% alts_OPORTS, 1, CSeq.nil
theorem D_ARGS {u} (h : D MARGS u) : D ARGS (Tok.ID :: u) := by
  have := alt% alts_ARGS, 0, CSeq.t (CSeq.n h CSeq.nil)
  simpa using this
theorem D_MARGS_more {u} (h : D ARGS u) : D MARGS (Tok.ARGSEP :: u) := by
  have := alt% alts_MARGS, 0, CSeq.t (CSeq.n h CSeq.nil)
  simpa using this
theorem D_MARGS_nil : D MARGS [] := alt% alts_MARGS, 1, CSeq.nil
theorem D_P_id {u} (h : D PID u) : D P (Tok.ID :: u) := by
  have := alt% alts_P, 0, CSeq.t (CSeq.n h CSeq.nil)
  simpa using this
theorem D_PID_assign {u v} (h1 : D VALUE u) (h2 : D MOREP v) : D PID (Tok.ASSIGN :: (u ++ v)) := by
  have := alt% alts_PID, 0, CSeq.t (CSeq.n h1 (CSeq.n h2 CSeq.nil))
  simpa using this
theorem D_PID_label {u v} (h1 : D P u) (h2 : D MOREP v) : D PID (Tok.LABELDEC :: (u ++ v)) := by
  have := alt% alts_PID, 1, CSeq.t (CSeq.n h1 (CSeq.n h2 CSeq.nil))
  simpa using this
theorem D_P_loop {u v} (h1 : D P u) (h2 : D MOREP v) :
    D P (Tok.LOOP :: Tok.ID :: Tok.DO :: (u ++ Tok.END :: v)) := by
  have := alt% alts_P, 1, CSeq.t (CSeq.t (CSeq.t (CSeq.n h1 (CSeq.t (CSeq.n h2 CSeq.nil)))))
  simpa using this
theorem D_P_while {u v} (h1 : D P u) (h2 : D MOREP v) :
    D P (Tok.WHILE :: Tok.ID :: Tok.NEQ_ZERO :: Tok.DO :: (u ++ Tok.END :: v)) := by
  have := alt% alts_P, 2, CSeq.t (CSeq.t (CSeq.t (CSeq.t (CSeq.n h1 (CSeq.t (CSeq.n h2 CSeq.nil))))))
  simpa using this
theorem D_P_goto {v} (h2 : D MOREP v) : D P (Tok.GOTO :: Tok.ID :: v) := by
  have := alt% alts_P, 3, CSeq.t (CSeq.t (CSeq.n h2 CSeq.nil))
  simpa using this
theorem D_P_if {v} (h2 : D MOREP v) :
    D P (Tok.IF :: Tok.ID :: Tok.EQ :: Tok.INT :: Tok.THEN :: Tok.GOTO :: Tok.ID :: v) := by
  have := alt% alts_P, 4, CSeq.t (CSeq.t (CSeq.t (CSeq.t (CSeq.t (CSeq.t (CSeq.t (CSeq.n h2 CSeq.nil)))))))
  simpa using this
theorem D_P_stop {v} (h2 : D MOREP v) : D P (Tok.STOP :: v) := by
  have := alt% alts_P, 5, CSeq.t (CSeq.n h2 CSeq.nil)
  simpa using this
theorem D_MOREP_semi {u} (h : D P u) : D MOREP (Tok.PROGSEP :: u) := by
  have := alt% alts_MOREP, 0, CSeq.t (CSeq.n h CSeq.nil)
  simpa using this
theorem D_MOREP_nil : D MOREP [] := alt% alts_MOREP, 1, CSeq.nil
theorem D_VALUE_id : D VALUE [Tok.ID] := alt% alts_VALUE, 0, CSeq.t CSeq.nil
theorem D_VALUE_int : D VALUE [Tok.INT] := alt% alts_VALUE, 1, CSeq.t CSeq.nil
theorem D_VALUE_run {u} (h : D VARGS u) : D VALUE (Tok.RUN :: Tok.ID :: Tok.WITH :: (u ++ [Tok.END])) :=
  alt% alts_VALUE, 2, CSeq.t (CSeq.t (CSeq.t (CSeq.n h (CSeq.t CSeq.nil))))
theorem D_VARGS_nil : D VARGS [] := alt% alts_VARGS, 0, CSeq.nil
theorem D_VARGS_some {u v} (h1 : D VALUE u) (h2 : D MVARGS v) : D VARGS (u ++ v) := by
  have := alt% alts_VARGS, 1, CSeq.n h1 (CSeq.n h2 CSeq.nil)
  simpa using this
theorem D_MVARGS_more {u v} (h1 : D VALUE u) (h2 : D MVARGS v) : D MVARGS (Tok.ARGSEP :: (u ++ v)) := by
  have := alt% alts_MVARGS, 0, CSeq.t (CSeq.n h1 (CSeq.n h2 CSeq.nil))
  simpa using this
theorem D_MVARGS_nil : D MVARGS [] := alt% alts_MVARGS, 1, CSeq.nil
end

open LangNT in
def ntOf : RK → Nat
  | .S => S | .PORTS => PORTS | .OPORTS => OPORTS | .ARGS => ARGS | .P => P | .TAIL => MOREP
  | .VALUE => VALUE | .MVARGS => MVARGS

def NoEof (c : List Token) : Prop := ∀ t ∈ c, t.kind ≠ Tok.T_EOF
theorem NoEof.nil : NoEof [] := by intro t h; cases h
theorem NoEof.cons {t : Token} {c : List Token} (h : t.kind ≠ Tok.T_EOF) (hc : NoEof c) : NoEof (t :: c) := by
  intro x hx
  rcases List.mem_cons.mp hx with rfl | hx
  · exact h
  · exact hc x hx
theorem NoEof.app {a b : List Token} (ha : NoEof a) (hb : NoEof b) : NoEof (a ++ b) := by
  intro x hx
  rcases List.mem_append.mp hx with hx | hx
  · exact ha x hx
  · exact hb x hx

local macro "ne%" k:term : term => `((by rw [$k:term]; decide : _ ≠ Tok.T_EOF))

theorem run_derives {k : RK} {ts ts' : List Token} (h : Run k ts ts') :
    ∃ c, ts = c ++ ts' ∧ NoEof c ∧ D (ntOf k) (c.map (·.kind)) := by
  induction h with
  | @s_prog t1 t2 t3 t4 r2 r3 r4 r5 k1 k2 _ k3 _ k4 _ ih1 ih2 ih3 =>
    obtain ⟨c1, rfl, n1, d1⟩ := ih1
    obtain ⟨c2, rfl, n2, d2⟩ := ih2
    obtain ⟨c3, rfl, n3, d3⟩ := ih3
    refine ⟨t1 :: t2 :: (c1 ++ t3 :: (c2 ++ t4 :: c3)), by simp,
      .cons (ne% k1) (.cons (ne% k2) (.app n1 (.cons (ne% k3) (.app n2 (.cons (ne% k4) n3))))), ?_⟩
    simpa [ntOf, k1, k2, k3, k4] using D_S_prog d1 d2 d3
  | @s_p r r' _ _ ih =>
    obtain ⟨c1, rfl, n1, d1⟩ := ih
    exact ⟨c1, rfl, n1, D_S_p d1⟩
  | @ports_nil r _ => exact ⟨[], rfl, .nil, D_PORTS_nil⟩
  | @ports_in t r r1 r2 k1 _ _ ih1 ih2 =>
    obtain ⟨c1, rfl, n1, d1⟩ := ih1
    obtain ⟨c2, rfl, n2, d2⟩ := ih2
    refine ⟨t :: (c1 ++ c2), by simp, .cons (ne% k1) (.app n1 n2), ?_⟩
    simpa [ntOf, k1] using D_PORTS_in d1 d2
  | @oports_nil r _ => exact ⟨[], rfl, .nil, D_OPORTS_nil⟩
  | @oports_out t1 t2 r k1 k2 =>
    refine ⟨[t1, t2], rfl, .cons (ne% k1) (.cons (ne% k2) .nil), ?_⟩
    simpa [ntOf, k1, k2] using D_OPORTS_out
  | @args_one t r k1 _ =>
    refine ⟨[t], rfl, .cons (ne% k1) .nil, ?_⟩
    simpa [ntOf, k1] using D_ARGS D_MARGS_nil
  | @args_more t1 t2 r r' k1 k2 _ ih =>
    obtain ⟨c1, rfl, n1, d1⟩ := ih
    refine ⟨t1 :: t2 :: c1, rfl, .cons (ne% k1) (.cons (ne% k2) n1), ?_⟩
    simpa [ntOf, k1, k2] using D_ARGS (D_MARGS_more d1)
  | @p_assign t1 t2 r r1 r2 k1 k2 _ _ ih1 ih2 =>
    obtain ⟨c1, rfl, n1, d1⟩ := ih1
    obtain ⟨c2, rfl, n2, d2⟩ := ih2
    refine ⟨t1 :: t2 :: (c1 ++ c2), by simp, .cons (ne% k1) (.cons (ne% k2) (.app n1 n2)), ?_⟩
    simpa [ntOf, k1, k2] using D_P_id (D_PID_assign d1 d2)
  | @p_label t1 t2 r r1 r2 k1 k2 _ _ ih1 ih2 =>
    obtain ⟨c1, rfl, n1, d1⟩ := ih1
    obtain ⟨c2, rfl, n2, d2⟩ := ih2
    refine ⟨t1 :: t2 :: (c1 ++ c2), by simp, .cons (ne% k1) (.cons (ne% k2) (.app n1 n2)), ?_⟩
    simpa [ntOf, k1, k2] using D_P_id (D_PID_label d1 d2)
  | @p_loop t1 t2 t3 t4 r r1 r2 k1 k2 k3 _ k4 _ ih1 ih2 =>
    obtain ⟨c1, rfl, n1, d1⟩ := ih1
    obtain ⟨c2, rfl, n2, d2⟩ := ih2
    refine ⟨t1 :: t2 :: t3 :: (c1 ++ t4 :: c2), by simp,
      .cons (ne% k1) (.cons (ne% k2) (.cons (ne% k3) (.app n1 (.cons (ne% k4) n2)))), ?_⟩
    simpa [ntOf, k1, k2, k3, k4] using D_P_loop d1 d2
  | @p_while t1 t2 t3 t4 t5 r r1 r2 k1 k2 k3 k4 _ k5 _ ih1 ih2 =>
    obtain ⟨c1, rfl, n1, d1⟩ := ih1
    obtain ⟨c2, rfl, n2, d2⟩ := ih2
    refine ⟨t1 :: t2 :: t3 :: t4 :: (c1 ++ t5 :: c2), by simp,
      .cons (ne% k1) (.cons (ne% k2) (.cons (ne% k3) (.cons (ne% k4) (.app n1 (.cons (ne% k5) n2))))), ?_⟩
    simpa [ntOf, k1, k2, k3, k4, k5] using D_P_while d1 d2
  | @p_goto t1 t2 r r2 k1 k2 _ ih =>
    obtain ⟨c1, rfl, n1, d1⟩ := ih
    refine ⟨t1 :: t2 :: c1, rfl, .cons (ne% k1) (.cons (ne% k2) n1), ?_⟩
    simpa [ntOf, k1, k2] using D_P_goto d1
  | @p_if t1 t2 t3 t4 t5 t6 t7 r r2 k1 k2 k3 k4 k5 k6 k7 _ ih =>
    obtain ⟨c1, rfl, n1, d1⟩ := ih
    refine ⟨t1 :: t2 :: t3 :: t4 :: t5 :: t6 :: t7 :: c1, rfl,
      .cons (ne% k1) (.cons (ne% k2) (.cons (ne% k3) (.cons (ne% k4) (.cons (ne% k5)
        (.cons (ne% k6) (.cons (ne% k7) n1)))))), ?_⟩
    simpa [ntOf, k1, k2, k3, k4, k5, k6, k7] using D_P_if d1
  | @p_stop t1 r r2 k1 _ ih =>
    obtain ⟨c1, rfl, n1, d1⟩ := ih
    refine ⟨t1 :: c1, rfl, .cons (ne% k1) n1, ?_⟩
    simpa [ntOf, k1] using D_P_stop d1
  | @tail_nil r _ => exact ⟨[], rfl, .nil, D_MOREP_nil⟩
  | @tail_semi t r r' k1 _ ih =>
    obtain ⟨c1, rfl, n1, d1⟩ := ih
    refine ⟨t :: c1, rfl, .cons (ne% k1) n1, ?_⟩
    simpa [ntOf, k1] using D_MOREP_semi d1
  | @value_id t r k1 =>
    refine ⟨[t], rfl, .cons (ne% k1) .nil, ?_⟩
    simpa [ntOf, k1] using D_VALUE_id
  | @value_int t r k1 =>
    refine ⟨[t], rfl, .cons (ne% k1) .nil, ?_⟩
    simpa [ntOf, k1] using D_VALUE_int
  | @value_run0 t1 t2 t3 t4 r k1 k2 k3 k4 =>
    refine ⟨[t1, t2, t3, t4], rfl, .cons (ne% k1) (.cons (ne% k2) (.cons (ne% k3) (.cons (ne% k4) .nil))), ?_⟩
    simpa [ntOf, k1, k2, k3, k4] using D_VALUE_run D_VARGS_nil
  | @value_runargs t1 t2 t3 t4 r r1 r2 k1 k2 k3 _ _ k4 ih1 ih2 =>
    obtain ⟨c1, rfl, n1, d1⟩ := ih1
    obtain ⟨c2, rfl, n2, d2⟩ := ih2
    refine ⟨t1 :: t2 :: t3 :: (c1 ++ (c2 ++ [t4])), by simp,
      .cons (ne% k1) (.cons (ne% k2) (.cons (ne% k3) (.app n1 (.app n2 (.cons (ne% k4) .nil))))), ?_⟩
    simpa [ntOf, k1, k2, k3, k4] using D_VALUE_run (D_VARGS_some d1 d2)
  | @mv_nil r _ => exact ⟨[], rfl, .nil, D_MVARGS_nil⟩
  | @mv_more t r r1 r2 k1 _ _ ih1 ih2 =>
    obtain ⟨c1, rfl, n1, d1⟩ := ih1
    obtain ⟨c2, rfl, n2, d2⟩ := ih2
    refine ⟨t :: (c1 ++ c2), by simp, .cons (ne% k1) (.app n1 n2), ?_⟩
    simpa [ntOf, k1] using D_MVARGS_more d1 d2

/-! ### derivations are runs (re-association of the `MOREP` chains included) -/

abbrev kinds (c : List Token) : List Nat := c.map (·.kind)

theorem run_p_first {ts ts' : List Token} (h : Run .P ts ts') :
    laT ts = Tok.ID ∨ laT ts = Tok.LOOP ∨ laT ts = Tok.WHILE ∨ laT ts = Tok.GOTO ∨ laT ts = Tok.IF ∨
      laT ts = Tok.STOP := by
  cases h <;> simp [*]

theorem run_value_first {ts ts' : List Token} (h : Run .VALUE ts ts') :
    laT ts = Tok.ID ∨ laT ts = Tok.INT ∨ laT ts = Tok.RUN := by
  cases h <;> simp [*]

open LangNT in
/-- what a derivation from each non-terminal means for the parser -/
def claim (A : Nat) (w : List Nat) : Prop :=
  if A = S then ∀ c rest, kinds c = w → laT rest = Tok.T_EOF → Run .S (c ++ rest) rest
  else if A = PORTS then ∀ c rest, kinds c = w → laT rest = Tok.DO → Run .PORTS (c ++ rest) rest
  else if A = OPORTS then ∀ c rest, kinds c = w → laT rest = Tok.DO →
    Run .OPORTS (c ++ rest) rest ∧ laT (c ++ rest) ≠ Tok.ARGSEP
  else if A = ARGS then ∀ c rest, kinds c = w → laT rest ≠ Tok.ARGSEP → Run .ARGS (c ++ rest) rest
  else if A = MARGS then ∀ t c rest, t.kind = Tok.ID → kinds c = w → laT rest ≠ Tok.ARGSEP →
    Run .ARGS (t :: (c ++ rest)) rest
  else if A = P then ∀ c rest ts', kinds c = w → Run .TAIL rest ts' → Run .P (c ++ rest) ts'
  else if A = PID then ∀ t c rest ts', t.kind = Tok.ID → kinds c = w → Run .TAIL rest ts' →
    Run .P (t :: (c ++ rest)) ts'
  else if A = MOREP then ∀ c rest ts', kinds c = w → Run .TAIL rest ts' → Run .TAIL (c ++ rest) ts'
  else if A = VALUE then ∀ c rest, kinds c = w → Run .VALUE (c ++ rest) rest
  else if A = VARGS then ∀ t1 t2 t3 c t4 rest, t1.kind = Tok.RUN → t2.kind = Tok.ID → t3.kind = Tok.WITH →
    kinds c = w → t4.kind = Tok.END → Run .VALUE (t1 :: t2 :: t3 :: (c ++ t4 :: rest)) rest
  else if A = MVARGS then ∀ c rest, kinds c = w → laT rest ≠ Tok.ARGSEP → Run .MVARGS (c ++ rest) rest
  else True

section
open LangNT
theorem claim_S (w) : claim S w = ∀ c rest, kinds c = w → laT rest = Tok.T_EOF → Run .S (c ++ rest) rest := rfl
theorem claim_PORTS (w) : claim PORTS w =
    ∀ c rest, kinds c = w → laT rest = Tok.DO → Run .PORTS (c ++ rest) rest := rfl
theorem claim_OPORTS (w) : claim OPORTS w = ∀ c rest, kinds c = w → laT rest = Tok.DO →
    Run .OPORTS (c ++ rest) rest ∧ laT (c ++ rest) ≠ Tok.ARGSEP := rfl
theorem claim_ARGS (w) : claim ARGS w =
    ∀ c rest, kinds c = w → laT rest ≠ Tok.ARGSEP → Run .ARGS (c ++ rest) rest := rfl
theorem claim_MARGS (w) : claim MARGS w = ∀ t c rest, t.kind = Tok.ID → kinds c = w →
    laT rest ≠ Tok.ARGSEP → Run .ARGS (t :: (c ++ rest)) rest := rfl
theorem claim_P (w) : claim P w =
    ∀ c rest ts', kinds c = w → Run .TAIL rest ts' → Run .P (c ++ rest) ts' := rfl
theorem claim_PID (w) : claim PID w = ∀ t c rest ts', t.kind = Tok.ID → kinds c = w →
    Run .TAIL rest ts' → Run .P (t :: (c ++ rest)) ts' := rfl
theorem claim_MOREP (w) : claim MOREP w =
    ∀ c rest ts', kinds c = w → Run .TAIL rest ts' → Run .TAIL (c ++ rest) ts' := rfl
theorem claim_VALUE (w) : claim VALUE w = ∀ c rest, kinds c = w → Run .VALUE (c ++ rest) rest := rfl
theorem claim_VARGS (w) : claim VARGS w = ∀ t1 t2 t3 c t4 rest, t1.kind = Tok.RUN → t2.kind = Tok.ID →
    t3.kind = Tok.WITH → kinds c = w → t4.kind = Tok.END →
    Run .VALUE (t1 :: t2 :: t3 :: (c ++ t4 :: rest)) rest := rfl
theorem claim_MVARGS (w) : claim MVARGS w =
    ∀ c rest, kinds c = w → laT rest ≠ Tok.ARGSEP → Run .MVARGS (c ++ rest) rest := rfl
end

theorem eeosok_end : EEOSok Tok.END := by unfold EEOSok; decide
theorem eeosok_eof : EEOSok Tok.T_EOF := by unfold EEOSok; decide

local macro "norm_app" : tactic =>
  `(tactic| simp only [List.append_nil, List.cons_append, List.append_assoc, List.nil_append])
local macro "split_kinds" "at" h:ident : tactic =>
  `(tactic| simp only [kinds, List.map_eq_cons_iff, List.map_eq_append_iff, List.map_eq_nil_iff,
      List.append_nil] at $h:ident)

section
open LangNT
theorem step_S (k : Nat) (rhs : List Sym) (w : List Nat) (h : (langGrammar.alts S)[k]? = some rhs)
    (hc : CSeq claim rhs w) : claim S w := by
  rw [alts_S] at h
  rcases k with _ | _ | k
  · simp at h; subst h
    simp only [CSeq, claim_PORTS, claim_P, claim_S] at hc ⊢
    obtain ⟨_, rfl, _, rfl, u1, _, rfl, h1, _, rfl, u2, _, rfl, h2, _, rfl, u3, _, rfl, h3, rfl⟩ := hc
    intro c rest hk hr
    split_kinds at hk
    obtain ⟨t1, _, rfl, k1, t2, _, rfl, k2, c1, _, rfl, e1, t3, _, rfl, k3, c2, _, rfl, e2, t4, _, rfl, k4,
      e3⟩ := hk
    norm_app
    exact Run.s_prog k1 k2 (h1 c1 _ e1 k3) k3 (h2 c2 _ _ e2 (Run.tail_nil (by rw [laT_cons, k4]; exact eeosok_end)))
      k4 (h3 _ rest e3 hr)
  · simp at h; subst h
    simp only [CSeq, claim_P, claim_S] at hc ⊢
    obtain ⟨u, _, rfl, h1, rfl⟩ := hc
    intro c rest hk hr
    rw [List.append_nil] at hk
    have hp := h1 c rest rest hk (Run.tail_nil (by rw [hr]; exact eeosok_eof))
    refine Run.s_p ?_ hp
    intro hx
    have := run_p_first hp
    rw [hx] at this
    exact absurd this (by decide)
  · simp at h

theorem step_PORTS (k : Nat) (rhs : List Sym) (w : List Nat) (h : (langGrammar.alts PORTS)[k]? = some rhs)
    (hc : CSeq claim rhs w) : claim PORTS w := by
  rw [alts_PORTS] at h
  rcases k with _ | _ | k
  · simp at h; subst h
    simp only [CSeq, claim_PORTS, claim_ARGS, claim_OPORTS] at hc ⊢
    obtain ⟨_, rfl, u1, _, rfl, h1, u2, _, rfl, h2, rfl⟩ := hc
    intro c rest hk hr
    split_kinds at hk
    obtain ⟨t1, _, rfl, k1, c1, c2, rfl, e1, e2⟩ := hk
    norm_app
    obtain ⟨ho, hne⟩ := h2 c2 rest e2 hr
    exact Run.ports_in k1 (h1 c1 _ e1 hne) ho
  · simp at h; subst h
    simp only [CSeq, claim_PORTS] at hc ⊢
    subst hc
    intro c rest hk hr
    split_kinds at hk
    subst hk
    exact Run.ports_nil (by rw [List.nil_append, hr]; decide)
  · simp at h

theorem step_OPORTS (k : Nat) (rhs : List Sym) (w : List Nat) (h : (langGrammar.alts OPORTS)[k]? = some rhs)
    (hc : CSeq claim rhs w) : claim OPORTS w := by
  rw [alts_OPORTS] at h
  rcases k with _ | _ | k
  · simp at h; subst h
    simp only [CSeq, claim_OPORTS] at hc ⊢
    obtain ⟨_, rfl, _, rfl, rfl⟩ := hc
    intro c rest hk hr
    split_kinds at hk
    obtain ⟨t1, _, rfl, k1, t2, _, rfl, k2, rfl⟩ := hk
    exact ⟨Run.oports_out k1 k2, by rw [List.cons_append, laT_cons, k1]; decide⟩
  · simp at h; subst h
    simp only [CSeq, claim_OPORTS] at hc ⊢
    subst hc
    intro c rest hk hr
    split_kinds at hk
    subst hk
    exact ⟨Run.oports_nil (by rw [List.nil_append, hr]; decide), by rw [List.nil_append, hr]; decide⟩
  · simp at h

theorem step_ARGS (k : Nat) (rhs : List Sym) (w : List Nat) (h : (langGrammar.alts ARGS)[k]? = some rhs)
    (hc : CSeq claim rhs w) : claim ARGS w := by
  rw [alts_ARGS] at h
  rcases k with _ | k
  · simp at h; subst h
    simp only [CSeq, claim_ARGS, claim_MARGS] at hc ⊢
    obtain ⟨_, rfl, u1, _, rfl, h1, rfl⟩ := hc
    intro c rest hk hr
    split_kinds at hk
    obtain ⟨t1, c1, rfl, k1, e1⟩ := hk
    norm_app
    exact h1 t1 c1 rest k1 e1 hr
  · simp at h

theorem step_MARGS (k : Nat) (rhs : List Sym) (w : List Nat) (h : (langGrammar.alts MARGS)[k]? = some rhs)
    (hc : CSeq claim rhs w) : claim MARGS w := by
  rw [alts_MARGS] at h
  rcases k with _ | _ | k
  · simp at h; subst h
    simp only [CSeq, claim_ARGS, claim_MARGS] at hc ⊢
    obtain ⟨_, rfl, u1, _, rfl, h1, rfl⟩ := hc
    intro t c rest kt hk hr
    split_kinds at hk
    obtain ⟨t2, c1, rfl, k2, e1⟩ := hk
    norm_app
    exact Run.args_more kt k2 (h1 c1 rest e1 hr)
  · simp at h; subst h
    simp only [CSeq, claim_MARGS] at hc ⊢
    subst hc
    intro t c rest kt hk hr
    split_kinds at hk
    subst hk
    exact Run.args_one kt hr
  · simp at h

theorem step_P (k : Nat) (rhs : List Sym) (w : List Nat) (h : (langGrammar.alts P)[k]? = some rhs)
    (hc : CSeq claim rhs w) : claim P w := by
  rw [alts_P] at h
  rcases k with _ | _ | _ | _ | _ | _ | k
  · simp at h; subst h
    simp only [CSeq, claim_P, claim_PID] at hc ⊢
    obtain ⟨_, rfl, u1, _, rfl, h1, rfl⟩ := hc
    intro c rest ts' hk ht
    split_kinds at hk
    obtain ⟨t1, c1, rfl, k1, e1⟩ := hk
    norm_app
    exact h1 t1 c1 rest ts' k1 e1 ht
  · simp at h; subst h
    simp only [CSeq, claim_P, claim_MOREP] at hc ⊢
    obtain ⟨_, rfl, _, rfl, _, rfl, u1, _, rfl, h1, _, rfl, u2, _, rfl, h2, rfl⟩ := hc
    intro c rest ts' hk ht
    split_kinds at hk
    obtain ⟨t1, _, rfl, k1, t2, _, rfl, k2, t3, _, rfl, k3, c1, _, rfl, e1, t4, c2, rfl, k4, e2⟩ := hk
    norm_app
    exact Run.p_loop k1 k2 k3 (h1 c1 _ _ e1 (Run.tail_nil (by rw [laT_cons, k4]; exact eeosok_end))) k4
      (h2 c2 rest ts' e2 ht)
  · simp at h; subst h
    simp only [CSeq, claim_P, claim_MOREP] at hc ⊢
    obtain ⟨_, rfl, _, rfl, _, rfl, _, rfl, u1, _, rfl, h1, _, rfl, u2, _, rfl, h2, rfl⟩ := hc
    intro c rest ts' hk ht
    split_kinds at hk
    obtain ⟨t1, _, rfl, k1, t2, _, rfl, k2, t3, _, rfl, k3, t4, _, rfl, k4, c1, _, rfl, e1, t5, c2, rfl, k5,
      e2⟩ := hk
    norm_app
    exact Run.p_while k1 k2 k3 k4 (h1 c1 _ _ e1 (Run.tail_nil (by rw [laT_cons, k5]; exact eeosok_end))) k5
      (h2 c2 rest ts' e2 ht)
  · simp at h; subst h
    simp only [CSeq, claim_P, claim_MOREP] at hc ⊢
    obtain ⟨_, rfl, _, rfl, u2, _, rfl, h2, rfl⟩ := hc
    intro c rest ts' hk ht
    split_kinds at hk
    obtain ⟨t1, _, rfl, k1, t2, c2, rfl, k2, e2⟩ := hk
    norm_app
    exact Run.p_goto k1 k2 (h2 c2 rest ts' e2 ht)
  · simp at h; subst h
    simp only [CSeq, claim_P, claim_MOREP] at hc ⊢
    obtain ⟨_, rfl, _, rfl, _, rfl, _, rfl, _, rfl, _, rfl, _, rfl, u2, _, rfl, h2, rfl⟩ := hc
    intro c rest ts' hk ht
    split_kinds at hk
    obtain ⟨t1, _, rfl, k1, t2, _, rfl, k2, t3, _, rfl, k3, t4, _, rfl, k4, t5, _, rfl, k5, t6, _, rfl, k6,
      t7, c2, rfl, k7, e2⟩ := hk
    norm_app
    exact Run.p_if k1 k2 k3 k4 k5 k6 k7 (h2 c2 rest ts' e2 ht)
  · simp at h; subst h
    simp only [CSeq, claim_P, claim_MOREP] at hc ⊢
    obtain ⟨_, rfl, u2, _, rfl, h2, rfl⟩ := hc
    intro c rest ts' hk ht
    split_kinds at hk
    obtain ⟨t1, c2, rfl, k1, e2⟩ := hk
    norm_app
    exact Run.p_stop k1 (h2 c2 rest ts' e2 ht)
  · simp at h

theorem step_PID (k : Nat) (rhs : List Sym) (w : List Nat) (h : (langGrammar.alts PID)[k]? = some rhs)
    (hc : CSeq claim rhs w) : claim PID w := by
  rw [alts_PID] at h
  rcases k with _ | _ | k
  · simp at h; subst h
    simp only [CSeq, claim_PID, claim_VALUE, claim_MOREP] at hc ⊢
    obtain ⟨_, rfl, u1, _, rfl, h1, u2, _, rfl, h2, rfl⟩ := hc
    intro t c rest ts' kt hk ht
    split_kinds at hk
    obtain ⟨t2, _, rfl, k2, c1, c2, rfl, e1, e2⟩ := hk
    norm_app
    exact Run.p_assign kt k2 (h1 c1 _ e1) (h2 c2 rest ts' e2 ht)
  · simp at h; subst h
    simp only [CSeq, claim_PID, claim_P, claim_MOREP] at hc ⊢
    obtain ⟨_, rfl, u1, _, rfl, h1, u2, _, rfl, h2, rfl⟩ := hc
    intro t c rest ts' kt hk ht
    split_kinds at hk
    obtain ⟨t2, _, rfl, k2, c1, c2, rfl, e1, e2⟩ := hk
    norm_app
    have hT := h2 c2 rest ts' e2 ht
    have hP := h1 c1 (c2 ++ rest) ts' e1 hT
    exact Run.p_label kt k2 hP (Run.tail_nil (run_eeosok hT (Or.inr rfl)))
  · simp at h

theorem step_MOREP (k : Nat) (rhs : List Sym) (w : List Nat) (h : (langGrammar.alts MOREP)[k]? = some rhs)
    (hc : CSeq claim rhs w) : claim MOREP w := by
  rw [alts_MOREP] at h
  rcases k with _ | _ | k
  · simp at h; subst h
    simp only [CSeq, claim_P, claim_MOREP] at hc ⊢
    obtain ⟨_, rfl, u1, _, rfl, h1, rfl⟩ := hc
    intro c rest ts' hk ht
    split_kinds at hk
    obtain ⟨t1, c1, rfl, k1, e1⟩ := hk
    norm_app
    exact Run.tail_semi k1 (h1 c1 rest ts' e1 ht)
  · simp at h; subst h
    simp only [CSeq, claim_MOREP] at hc ⊢
    subst hc
    intro c rest ts' hk ht
    split_kinds at hk
    subst hk
    exact ht
  · simp at h

theorem step_VALUE (k : Nat) (rhs : List Sym) (w : List Nat) (h : (langGrammar.alts VALUE)[k]? = some rhs)
    (hc : CSeq claim rhs w) : claim VALUE w := by
  rw [alts_VALUE] at h
  rcases k with _ | _ | _ | k
  · simp at h; subst h
    simp only [CSeq, claim_VALUE] at hc ⊢
    obtain ⟨_, rfl, rfl⟩ := hc
    intro c rest hk
    split_kinds at hk
    obtain ⟨t1, _, rfl, k1, rfl⟩ := hk
    exact Run.value_id k1
  · simp at h; subst h
    simp only [CSeq, claim_VALUE] at hc ⊢
    obtain ⟨_, rfl, rfl⟩ := hc
    intro c rest hk
    split_kinds at hk
    obtain ⟨t1, _, rfl, k1, rfl⟩ := hk
    exact Run.value_int k1
  · simp at h; subst h
    simp only [CSeq, claim_VALUE, claim_VARGS] at hc ⊢
    obtain ⟨_, rfl, _, rfl, _, rfl, u1, _, rfl, h1, _, rfl, rfl⟩ := hc
    intro c rest hk
    split_kinds at hk
    obtain ⟨t1, _, rfl, k1, t2, _, rfl, k2, t3, _, rfl, k3, c1, _, rfl, e1, t4, _, rfl, k4, rfl⟩ := hk
    norm_app
    exact h1 t1 t2 t3 c1 t4 rest k1 k2 k3 e1 k4
  · simp at h

theorem step_VARGS (k : Nat) (rhs : List Sym) (w : List Nat) (h : (langGrammar.alts VARGS)[k]? = some rhs)
    (hc : CSeq claim rhs w) : claim VARGS w := by
  rw [alts_VARGS] at h
  rcases k with _ | _ | k
  · simp at h; subst h
    simp only [CSeq, claim_VARGS] at hc ⊢
    subst hc
    intro t1 t2 t3 c t4 rest k1 k2 k3 hk k4
    split_kinds at hk
    subst hk
    exact Run.value_run0 k1 k2 k3 k4
  · simp at h; subst h
    simp only [CSeq, claim_VARGS, claim_VALUE, claim_MVARGS] at hc ⊢
    obtain ⟨u1, _, rfl, h1, u2, _, rfl, h2, rfl⟩ := hc
    intro t1 t2 t3 c t4 rest k1 k2 k3 hk k4
    split_kinds at hk
    obtain ⟨c1, c2, rfl, e1, e2⟩ := hk
    norm_app
    exact Run.value_runargs k1 k2 k3 (h1 c1 _ e1) (h2 c2 (t4 :: rest) e2 (by rw [laT_cons, k4]; decide)) k4
  · simp at h

theorem step_MVARGS (k : Nat) (rhs : List Sym) (w : List Nat) (h : (langGrammar.alts MVARGS)[k]? = some rhs)
    (hc : CSeq claim rhs w) : claim MVARGS w := by
  rw [alts_MVARGS] at h
  rcases k with _ | _ | k
  · simp at h; subst h
    simp only [CSeq, claim_VALUE, claim_MVARGS] at hc ⊢
    obtain ⟨_, rfl, u1, _, rfl, h1, u2, _, rfl, h2, rfl⟩ := hc
    intro c rest hk hr
    split_kinds at hk
    obtain ⟨t1, _, rfl, k1, c1, c2, rfl, e1, e2⟩ := hk
    norm_app
    exact Run.mv_more k1 (h1 c1 _ e1) (h2 c2 rest e2 hr)
  · simp at h; subst h
    simp only [CSeq, claim_MVARGS] at hc ⊢
    subst hc
    intro c rest hk hr
    split_kinds at hk
    subst hk
    exact Run.mv_nil hr
  · simp at h

theorem claim_step (A k : Nat) (rhs : List Sym) (w : List Nat) (h : (langGrammar.alts A)[k]? = some rhs)
    (hc : CSeq claim rhs w) : claim A w := by
  by_cases hA : A < 11
  · have : A = S ∨ A = PORTS ∨ A = OPORTS ∨ A = ARGS ∨ A = MARGS ∨ A = P ∨ A = PID ∨ A = MOREP ∨
        A = VALUE ∨ A = VARGS ∨ A = MVARGS := by
      simp only [S, PORTS, OPORTS, ARGS, MARGS, P, PID, MOREP, VALUE, VARGS, MVARGS]; omega
    rcases this with rfl | rfl | rfl | rfl | rfl | rfl | rfl | rfl | rfl | rfl | rfl
    · exact step_S k rhs w h hc
    · exact step_PORTS k rhs w h hc
    · exact step_OPORTS k rhs w h hc
    · exact step_ARGS k rhs w h hc
    · exact step_MARGS k rhs w h hc
    · exact step_P k rhs w h hc
    · exact step_PID k rhs w h hc
    · exact step_MOREP k rhs w h hc
    · exact step_VALUE k rhs w h hc
    · exact step_VARGS k rhs w h hc
    · exact step_MVARGS k rhs w h hc
  · rw [alts_ge A (by omega)] at h
    simp at h

theorem derives_run {eof : Token} (body : List Token) (he : eof.kind = Tok.T_EOF)
    (hd : D S (kinds body)) : Run .S (body ++ [eof]) [eof] := by
  have := derives_ind langGrammar claim claim_step hd
  rw [claim_S] at this
  exact this body [eof] rfl he
end

/-! ### a run is what the parser does, given enough fuel -/

theorem matchK_ok {t : Token} {r : List Token} {e : List SynErr} {k : Nat} (hk : t.kind = k)
    (hne : k ≠ Tok.T_EOF) : PS.matchK ⟨t :: r, e⟩ k = ⟨r, e⟩ := by
  have h1 : (⟨t :: r, e⟩ : PS).la = k := hk
  unfold PS.matchK
  have h' : ¬ (⟨t :: r, e⟩ : PS).la ≠ k := by simpa using h1
  simp only [if_neg h']
  rw [if_pos (by rw [h1]; exact hne)]
  rfl

theorem pP_id {f : Nat} {ps : PS} (h : ps.la = Tok.ID) : (pP (f+1) ps).2 =
    pEEOS f (pMOREP f
      (if (ps.matchK Tok.ID).la = Tok.ASSIGN then (pVALUE f ((ps.matchK Tok.ID).matchK Tok.ASSIGN)).2
       else if (ps.matchK Tok.ID).la = Tok.LABELDEC then (pP f ((ps.matchK Tok.ID).matchK Tok.LABELDEC)).2
       else (ps.matchK Tok.ID).err .expectedAssign)).2 := by
  rw [pP_succ, if_pos h]
theorem pP_loop {f : Nat} {ps : PS} (h : ps.la = Tok.LOOP) : (pP (f+1) ps).2 =
    pEEOS f (pMOREP f ((pP f (((ps.matchK Tok.LOOP).matchK Tok.ID).matchK Tok.DO)).2.matchK Tok.END)).2 := by
  rw [pP_succ, if_neg (by rw [h]; decide), if_pos (Or.inl h)]
  simp only [h]
  rw [if_neg (by decide)]
theorem pP_while {f : Nat} {ps : PS} (h : ps.la = Tok.WHILE) : (pP (f+1) ps).2 =
    pEEOS f (pMOREP f ((pP f ((((ps.matchK Tok.WHILE).matchK Tok.ID).matchK Tok.NEQ_ZERO).matchK Tok.DO)).2.matchK
      Tok.END)).2 := by
  rw [pP_succ, if_neg (by rw [h]; decide), if_pos (Or.inr h)]
  simp only [h, ↓reduceIte]
theorem pP_goto {f : Nat} {ps : PS} (h : ps.la = Tok.GOTO) : (pP (f+1) ps).2 =
    pEEOS f (pMOREP f ((ps.matchK Tok.GOTO).matchK Tok.ID)).2 := by
  rw [pP_succ, if_neg (by rw [h]; decide), if_neg (by rw [h]; decide), if_pos h]
theorem pP_if {f : Nat} {ps : PS} (h : ps.la = Tok.IF) : (pP (f+1) ps).2 =
    pEEOS f (pMOREP f (((((((ps.matchK Tok.IF).matchK Tok.ID).matchK Tok.EQ).matchK Tok.INT).matchK Tok.THEN).matchK
      Tok.GOTO).matchK Tok.ID)).2 := by
  rw [pP_succ, if_neg (by rw [h]; decide), if_neg (by rw [h]; decide), if_neg (by rw [h]; decide), if_pos h]
theorem pP_stop {f : Nat} {ps : PS} (h : ps.la = Tok.STOP) : (pP (f+1) ps).2 =
    pEEOS f (pMOREP f (ps.matchK Tok.STOP)).2 := by
  rw [pP_succ, if_neg (by rw [h]; decide), if_neg (by rw [h]; decide), if_neg (by rw [h]; decide),
    if_neg (by rw [h]; decide), if_pos h]

/-- the state transformer of each kind of run -/
def st : RK → Nat → PS → PS
  | .S, f, ps => (pS f ps).2
  | .PORTS, f, ps => (pPORTS f ps).2
  | .OPORTS, _, ps => (pOPORTS ps).2
  | .ARGS, f, ps => (pARGS f ps).2
  | .P, f, ps => (pP f ps).2
  | .TAIL, f, ps => pEEOS f (pMOREP f ps).2
  | .VALUE, f, ps => (pVALUE f ps).2
  | .MVARGS, f, ps => (pMVARGS f ps).2

def need : RK → Nat
  | .S => 3
  | _ => 2

local macro "fuel_ok" : tactic => `(tactic| (simp only [need, List.length_cons] at *; omega))

set_option linter.unusedSimpArgs false in
theorem run_parse {k : RK} {ts ts' : List Token} (h : Run k ts ts') :
    ts'.length ≤ ts.length ∧ ∀ f e, ts.length + need k ≤ f → st k f ⟨ts, e⟩ = ⟨ts', e⟩ := by
  induction h with
  | @s_prog t1 t2 t3 t4 r2 r3 r4 r5 k1 k2 _ k3 _ k4 _ ih1 ih2 ih3 =>
    refine ⟨by fuel_ok, ?_⟩
    intro f e hf
    obtain ⟨f, rfl⟩ : ∃ f', f = f' + 1 := ⟨f - 1, by simp only [need, List.length_cons] at hf; omega⟩
    have h1 : (pPORTS f ⟨r2, e⟩).2 = ⟨t3 :: r3, e⟩ := ih1.2 f e (by fuel_ok)
    have h2 : (pP f ⟨r3, e⟩).2 = ⟨t4 :: r4, e⟩ := ih2.2 f e (by fuel_ok)
    have h3 : (pS f ⟨r4, e⟩).2 = ⟨r5, e⟩ := ih3.2 f e (by fuel_ok)
    show (pS (f+1) ⟨t1 :: t2 :: r2, e⟩).2 = ⟨r5, e⟩
    rw [pS_succ, if_pos (show PS.la ⟨t1 :: t2 :: r2, e⟩ = Tok.PROGRAM from k1), matchK_ok k1 (by decide),
      matchK_ok k2 (by decide), h1, matchK_ok k3 (by decide), h2, matchK_ok k4 (by decide), h3]
  | @s_p r r' hne _ ih =>
    refine ⟨ih.1, ?_⟩
    intro f e hf
    obtain ⟨f, rfl⟩ : ∃ f', f = f' + 1 := ⟨f - 1, by simp only [need, List.length_cons] at hf; omega⟩
    have h1 : (pP f ⟨r, e⟩).2 = ⟨r', e⟩ := ih.2 f e (by fuel_ok)
    show (pS (f+1) ⟨r, e⟩).2 = ⟨r', e⟩
    rw [pS_succ, if_neg (show ¬ PS.la ⟨r, e⟩ = Tok.PROGRAM from hne), h1]
  | @ports_nil r hne =>
    refine ⟨Nat.le_refl _, ?_⟩
    intro f e hf
    obtain ⟨f, rfl⟩ : ∃ f', f = f' + 1 := ⟨f - 1, by simp only [need, List.length_cons] at hf; omega⟩
    show (pPORTS (f+1) ⟨r, e⟩).2 = ⟨r, e⟩
    rw [pPORTS_succ, if_neg (show ¬ PS.la ⟨r, e⟩ = Tok.IN from hne)]
  | @ports_in t r r1 r2 k1 _ _ ih1 ih2 =>
    refine ⟨by fuel_ok, ?_⟩
    intro f e hf
    obtain ⟨f, rfl⟩ : ∃ f', f = f' + 1 := ⟨f - 1, by simp only [need, List.length_cons] at hf; omega⟩
    have h1 : (pARGS f ⟨r, e⟩).2 = ⟨r1, e⟩ := ih1.2 f e (by fuel_ok)
    have h2 : (pOPORTS ⟨r1, e⟩).2 = ⟨r2, e⟩ := ih2.2 f e (by fuel_ok)
    show (pPORTS (f+1) ⟨t :: r, e⟩).2 = ⟨r2, e⟩
    rw [pPORTS_succ, if_pos (show PS.la ⟨t :: r, e⟩ = Tok.IN from k1), matchK_ok k1 (by decide), h1, h2]
  | @oports_nil r hne =>
    refine ⟨Nat.le_refl _, ?_⟩
    intro f e hf
    show (pOPORTS ⟨r, e⟩).2 = ⟨r, e⟩
    rw [pOPORTS_eq, if_neg (show ¬ PS.la ⟨r, e⟩ = Tok.OUT from hne)]
  | @oports_out t1 t2 r k1 k2 =>
    refine ⟨by fuel_ok, ?_⟩
    intro f e hf
    show (pOPORTS ⟨t1 :: t2 :: r, e⟩).2 = ⟨r, e⟩
    rw [pOPORTS_eq, if_pos (show PS.la ⟨t1 :: t2 :: r, e⟩ = Tok.OUT from k1), matchK_ok k1 (by decide),
      matchK_ok k2 (by decide)]
  | @args_one t r k1 hne =>
    refine ⟨by fuel_ok, ?_⟩
    intro f e hf
    obtain ⟨f, rfl⟩ : ∃ f', f = f' + 1 := ⟨f - 1, by simp only [need, List.length_cons] at hf; omega⟩
    show (pARGS (f+1) ⟨t :: r, e⟩).2 = ⟨r, e⟩
    rw [pARGS_succ, matchK_ok k1 (by decide), if_pos (show PS.la ⟨r, e⟩ ≠ Tok.ARGSEP from hne)]
  | @args_more t1 t2 r r' k1 k2 _ ih =>
    refine ⟨by fuel_ok, ?_⟩
    intro f e hf
    obtain ⟨f, rfl⟩ : ∃ f', f = f' + 1 := ⟨f - 1, by simp only [need, List.length_cons] at hf; omega⟩
    have h1 : (pARGS f ⟨r, e⟩).2 = ⟨r', e⟩ := ih.2 f e (by fuel_ok)
    show (pARGS (f+1) ⟨t1 :: t2 :: r, e⟩).2 = ⟨r', e⟩
    rw [pARGS_succ, matchK_ok k1 (by decide),
      if_neg (show ¬ PS.la ⟨t2 :: r, e⟩ ≠ Tok.ARGSEP from fun h => h k2), matchK_ok k2 (by decide), h1]
  | @p_assign t1 t2 r r1 r2 k1 k2 _ _ ih1 ih2 =>
    refine ⟨by fuel_ok, ?_⟩
    intro f e hf
    obtain ⟨f, rfl⟩ : ∃ f', f = f' + 1 := ⟨f - 1, by simp only [need, List.length_cons] at hf; omega⟩
    have h1 : (pVALUE f ⟨r, e⟩).2 = ⟨r1, e⟩ := ih1.2 f e (by fuel_ok)
    have h2 : pEEOS f (pMOREP f ⟨r1, e⟩).2 = ⟨r2, e⟩ := ih2.2 f e (by fuel_ok)
    show (pP (f+1) ⟨t1 :: t2 :: r, e⟩).2 = ⟨r2, e⟩
    rw [pP_id (show PS.la ⟨t1 :: t2 :: r, e⟩ = Tok.ID from k1), matchK_ok k1 (by decide),
      if_pos (show PS.la ⟨t2 :: r, e⟩ = Tok.ASSIGN from k2), matchK_ok k2 (by decide), h1, h2]
  | @p_label t1 t2 r r1 r2 k1 k2 _ _ ih1 ih2 =>
    refine ⟨by fuel_ok, ?_⟩
    intro f e hf
    obtain ⟨f, rfl⟩ : ∃ f', f = f' + 1 := ⟨f - 1, by simp only [need, List.length_cons] at hf; omega⟩
    have h1 : (pP f ⟨r, e⟩).2 = ⟨r1, e⟩ := ih1.2 f e (by fuel_ok)
    have h2 : pEEOS f (pMOREP f ⟨r1, e⟩).2 = ⟨r2, e⟩ := ih2.2 f e (by fuel_ok)
    have hl : PS.la ⟨t2 :: r, e⟩ = Tok.LABELDEC := k2
    show (pP (f+1) ⟨t1 :: t2 :: r, e⟩).2 = ⟨r2, e⟩
    rw [pP_id (show PS.la ⟨t1 :: t2 :: r, e⟩ = Tok.ID from k1), matchK_ok k1 (by decide),
      if_neg (by rw [hl]; decide), if_pos hl, matchK_ok k2 (by decide), h1, h2]
  | @p_loop t1 t2 t3 t4 r r1 r2 k1 k2 k3 _ k4 _ ih1 ih2 =>
    refine ⟨by fuel_ok, ?_⟩
    intro f e hf
    obtain ⟨f, rfl⟩ : ∃ f', f = f' + 1 := ⟨f - 1, by simp only [need, List.length_cons] at hf; omega⟩
    have h1 : (pP f ⟨r, e⟩).2 = ⟨t4 :: r1, e⟩ := ih1.2 f e (by fuel_ok)
    have h2 : pEEOS f (pMOREP f ⟨r1, e⟩).2 = ⟨r2, e⟩ := ih2.2 f e (by fuel_ok)
    show (pP (f+1) ⟨t1 :: t2 :: t3 :: r, e⟩).2 = ⟨r2, e⟩
    rw [pP_loop (show PS.la ⟨t1 :: t2 :: t3 :: r, e⟩ = Tok.LOOP from k1), matchK_ok k1 (by decide),
      matchK_ok k2 (by decide), matchK_ok k3 (by decide), h1, matchK_ok k4 (by decide), h2]
  | @p_while t1 t2 t3 t4 t5 r r1 r2 k1 k2 k3 k4 _ k5 _ ih1 ih2 =>
    refine ⟨by fuel_ok, ?_⟩
    intro f e hf
    obtain ⟨f, rfl⟩ : ∃ f', f = f' + 1 := ⟨f - 1, by simp only [need, List.length_cons] at hf; omega⟩
    have h1 : (pP f ⟨r, e⟩).2 = ⟨t5 :: r1, e⟩ := ih1.2 f e (by fuel_ok)
    have h2 : pEEOS f (pMOREP f ⟨r1, e⟩).2 = ⟨r2, e⟩ := ih2.2 f e (by fuel_ok)
    show (pP (f+1) ⟨t1 :: t2 :: t3 :: t4 :: r, e⟩).2 = ⟨r2, e⟩
    rw [pP_while (show PS.la ⟨t1 :: t2 :: t3 :: t4 :: r, e⟩ = Tok.WHILE from k1), matchK_ok k1 (by decide),
      matchK_ok k2 (by decide), matchK_ok k3 (by decide), matchK_ok k4 (by decide), h1,
      matchK_ok k5 (by decide), h2]
  | @p_goto t1 t2 r r2 k1 k2 _ ih =>
    refine ⟨by fuel_ok, ?_⟩
    intro f e hf
    obtain ⟨f, rfl⟩ : ∃ f', f = f' + 1 := ⟨f - 1, by simp only [need, List.length_cons] at hf; omega⟩
    have h2 : pEEOS f (pMOREP f ⟨r, e⟩).2 = ⟨r2, e⟩ := ih.2 f e (by fuel_ok)
    show (pP (f+1) ⟨t1 :: t2 :: r, e⟩).2 = ⟨r2, e⟩
    rw [pP_goto (show PS.la ⟨t1 :: t2 :: r, e⟩ = Tok.GOTO from k1), matchK_ok k1 (by decide),
      matchK_ok k2 (by decide), h2]
  | @p_if t1 t2 t3 t4 t5 t6 t7 r r2 k1 k2 k3 k4 k5 k6 k7 _ ih =>
    refine ⟨by fuel_ok, ?_⟩
    intro f e hf
    obtain ⟨f, rfl⟩ : ∃ f', f = f' + 1 := ⟨f - 1, by simp only [need, List.length_cons] at hf; omega⟩
    have h2 : pEEOS f (pMOREP f ⟨r, e⟩).2 = ⟨r2, e⟩ := ih.2 f e (by fuel_ok)
    show (pP (f+1) ⟨t1 :: t2 :: t3 :: t4 :: t5 :: t6 :: t7 :: r, e⟩).2 = ⟨r2, e⟩
    rw [pP_if (show PS.la ⟨t1 :: t2 :: t3 :: t4 :: t5 :: t6 :: t7 :: r, e⟩ = Tok.IF from k1),
      matchK_ok k1 (by decide), matchK_ok k2 (by decide), matchK_ok k3 (by decide), matchK_ok k4 (by decide),
      matchK_ok k5 (by decide), matchK_ok k6 (by decide), matchK_ok k7 (by decide), h2]
  | @p_stop t1 r r2 k1 _ ih =>
    refine ⟨by fuel_ok, ?_⟩
    intro f e hf
    obtain ⟨f, rfl⟩ : ∃ f', f = f' + 1 := ⟨f - 1, by simp only [need, List.length_cons] at hf; omega⟩
    have h2 : pEEOS f (pMOREP f ⟨r, e⟩).2 = ⟨r2, e⟩ := ih.2 f e (by fuel_ok)
    show (pP (f+1) ⟨t1 :: r, e⟩).2 = ⟨r2, e⟩
    rw [pP_stop (show PS.la ⟨t1 :: r, e⟩ = Tok.STOP from k1), matchK_ok k1 (by decide), h2]
  | @tail_nil r hok =>
    refine ⟨Nat.le_refl _, ?_⟩
    intro f e hf
    obtain ⟨f, rfl⟩ : ∃ f', f = f' + 1 := ⟨f - 1, by simp only [need, List.length_cons] at hf; omega⟩
    show pEEOS (f+1) (pMOREP (f+1) ⟨r, e⟩).2 = ⟨r, e⟩
    rw [pMOREP_succ, if_pos (show PS.la ⟨r, e⟩ ≠ Tok.PROGSEP from hok.2.2), eeos_ok f ⟨r, e⟩ hok]
  | @tail_semi t r r' k1 hp ih =>
    refine ⟨by fuel_ok, ?_⟩
    intro f e hf
    obtain ⟨f, rfl⟩ : ∃ f', f = f' + 1 := ⟨f - 1, by simp only [need, List.length_cons] at hf; omega⟩
    have h1 : (pP f ⟨r, e⟩).2 = ⟨r', e⟩ := ih.2 f e (by fuel_ok)
    have hfirst := run_p_first hp
    show pEEOS (f+1) (pMOREP (f+1) ⟨t :: r, e⟩).2 = ⟨r', e⟩
    rw [pMOREP_succ, if_neg (show ¬ PS.la ⟨t :: r, e⟩ ≠ Tok.PROGSEP from fun h => h k1),
      matchK_ok k1 (by decide), if_neg, h1, eeos_ok _ _ (run_eeosok hp (Or.inl rfl))]
    show ¬ (laT r = Tok.END ∨ laT r = Tok.T_EOF)
    intro hx
    rcases hx with hx | hx <;> rw [hx] at hfirst <;> exact absurd hfirst (by decide)
  | @value_id t r k1 =>
    refine ⟨by fuel_ok, ?_⟩
    intro f e hf
    obtain ⟨f, rfl⟩ : ∃ f', f = f' + 1 := ⟨f - 1, by simp only [need, List.length_cons] at hf; omega⟩
    show (pVALUE (f+1) ⟨t :: r, e⟩).2 = ⟨r, e⟩
    rw [pVALUE_succ, if_pos (show PS.la ⟨t :: r, e⟩ = Tok.ID from k1), matchK_ok k1 (by decide)]
  | @value_int t r k1 =>
    refine ⟨by fuel_ok, ?_⟩
    intro f e hf
    obtain ⟨f, rfl⟩ : ∃ f', f = f' + 1 := ⟨f - 1, by simp only [need, List.length_cons] at hf; omega⟩
    have hl : PS.la ⟨t :: r, e⟩ = Tok.INT := k1
    show (pVALUE (f+1) ⟨t :: r, e⟩).2 = ⟨r, e⟩
    rw [pVALUE_succ, if_neg (by rw [hl]; decide), if_pos hl, matchK_ok k1 (by decide)]
  | @value_run0 t1 t2 t3 t4 r k1 k2 k3 k4 =>
    refine ⟨by fuel_ok, ?_⟩
    intro f e hf
    obtain ⟨f, rfl⟩ : ∃ f', f = f' + 1 := ⟨f - 1, by simp only [need, List.length_cons] at hf; omega⟩
    have hl : PS.la ⟨t1 :: t2 :: t3 :: t4 :: r, e⟩ = Tok.RUN := k1
    have hl4 : PS.la ⟨t4 :: r, e⟩ = Tok.END := k4
    show (pVALUE (f+1) ⟨t1 :: t2 :: t3 :: t4 :: r, e⟩).2 = ⟨r, e⟩
    rw [pVALUE_succ, if_neg (by rw [hl]; decide), if_neg (by rw [hl]; decide), if_pos hl,
      matchK_ok k1 (by decide), matchK_ok k2 (by decide), matchK_ok k3 (by decide),
      if_pos (by rw [hl4]; decide), matchK_ok k4 (by decide)]
  | @value_runargs t1 t2 t3 t4 r r1 r2 k1 k2 k3 hv _ k4 ih1 ih2 =>
    refine ⟨by fuel_ok, ?_⟩
    intro f e hf
    obtain ⟨f, rfl⟩ : ∃ f', f = f' + 1 := ⟨f - 1, by simp only [need, List.length_cons] at hf; omega⟩
    have h1 : (pVALUE f ⟨r, e⟩).2 = ⟨r1, e⟩ := ih1.2 f e (by fuel_ok)
    have h2 : (pMVARGS f ⟨r1, e⟩).2 = ⟨t4 :: r2, e⟩ := ih2.2 f e (by fuel_ok)
    have hl : PS.la ⟨t1 :: t2 :: t3 :: r, e⟩ = Tok.RUN := k1
    have hfirst : PS.la ⟨r, e⟩ = Tok.ID ∨ PS.la ⟨r, e⟩ = Tok.INT ∨ PS.la ⟨r, e⟩ = Tok.RUN := run_value_first hv
    show (pVALUE (f+1) ⟨t1 :: t2 :: t3 :: r, e⟩).2 = ⟨r2, e⟩
    rw [pVALUE_succ, if_neg (by rw [hl]; decide), if_neg (by rw [hl]; decide), if_pos hl,
      matchK_ok k1 (by decide), matchK_ok k2 (by decide), matchK_ok k3 (by decide),
      if_neg, h1, h2, matchK_ok k4 (by decide)]
    rintro ⟨a, b, c⟩
    rcases hfirst with h | h | h
    · exact a h
    · exact b h
    · exact c h
  | @mv_nil r hne =>
    refine ⟨Nat.le_refl _, ?_⟩
    intro f e hf
    obtain ⟨f, rfl⟩ : ∃ f', f = f' + 1 := ⟨f - 1, by simp only [need, List.length_cons] at hf; omega⟩
    show (pMVARGS (f+1) ⟨r, e⟩).2 = ⟨r, e⟩
    rw [pMVARGS_succ, if_pos (show PS.la ⟨r, e⟩ ≠ Tok.ARGSEP from hne)]
  | @mv_more t r r1 r2 k1 _ _ ih1 ih2 =>
    refine ⟨by fuel_ok, ?_⟩
    intro f e hf
    obtain ⟨f, rfl⟩ : ∃ f', f = f' + 1 := ⟨f - 1, by simp only [need, List.length_cons] at hf; omega⟩
    have h1 : (pVALUE f ⟨r, e⟩).2 = ⟨r1, e⟩ := ih1.2 f e (by fuel_ok)
    have h2 : (pMVARGS f ⟨r1, e⟩).2 = ⟨r2, e⟩ := ih2.2 f e (by fuel_ok)
    have hnil : ¬ (pVALUE f ⟨r, e⟩).1 = .nil := by
      intro hx
      have := value_fst_nil f ⟨r, e⟩ hx
      rw [h1] at this
      simp at this
    show (pMVARGS (f+1) ⟨t :: r, e⟩).2 = ⟨r2, e⟩
    rw [pMVARGS_succ, if_neg (show ¬ PS.la ⟨t :: r, e⟩ ≠ Tok.ARGSEP from fun h => h k1),
      matchK_ok k1 (by decide), if_neg hnil, h1, h2]

/-! ### the whole parse -/

theorem parseTokens_snd (ts : List Token) : (parseTokens ts).2 =
    (pTrailing (ts.length + 1) (parseFuel ts.length) (pS (parseFuel ts.length) ⟨ts, []⟩).2).errs := by
  simp only [parseTokens]

theorem pTrailing_le : ∀ (n fuel : Nat) (ps : PS), ps.errs.length ≤ (pTrailing n fuel ps).errs.length
  | 0, _, _ => by rw [pTrailing]; exact Nat.le_refl _
  | n + 1, fuel, ps => by
    rw [pTrailing]
    split
    · exact Nat.le_refl _
    · have h1 := (matchK_adv (ps.err .excessInput) (ps.err .excessInput).la ?_).le
      · dsimp only
        split
        · have h0 := err_errs_length ps .excessInput; omega
        · have h2 := ((ab_all fuel).s ((ps.err .excessInput).matchK (ps.err .excessInput).la)).le
          have h3 := pTrailing_le n fuel (pS fuel ((ps.err .excessInput).matchK (ps.err .excessInput).la)).2
          have h0 := err_errs_length ps .excessInput; omega
      · rename_i h
        intro hx
        exact h (Or.inr hx)

theorem pTrailing_stop (n fuel : Nat) (ps : PS) (h : ps.ts.isEmpty ∨ ps.la = Tok.T_EOF) :
    pTrailing n fuel ps = ps := by
  cases n with
  | zero => rw [pTrailing]
  | succ n => rw [pTrailing, if_pos h]

theorem pTrailing_noerr (n fuel : Nat) (ps : PS)
    (h : (pTrailing (n+1) fuel ps).errs.length ≤ ps.errs.length) : ps.ts.isEmpty ∨ ps.la = Tok.T_EOF := by
  apply Classical.byContradiction
  intro hc
  rw [pTrailing, if_neg hc] at h
  have h1 := (matchK_adv (ps.err .excessInput) (ps.err .excessInput).la (fun hx => hc (Or.inr hx))).le
  dsimp only at h
  split at h
  · have h0 := err_errs_length ps .excessInput; omega
  · have h2 := ((ab_all fuel).s ((ps.err .excessInput).matchK (ps.err .excessInput).la)).le
    have h3 := pTrailing_le n fuel (pS fuel ((ps.err .excessInput).matchK (ps.err .excessInput).la)).2
    have h0 := err_errs_length ps .excessInput; omega

theorem split_unique (eof : Token) (he : eof.kind = Tok.T_EOF) :
    ∀ (body c r : List Token), body ++ [eof] = c ++ r → NoEof c → NoEof body →
      (r.isEmpty ∨ laT r = Tok.T_EOF) → c = body
  | [], c, r, h, hc, _, _ => by
    cases c with
    | nil => rfl
    | cons x c' =>
      simp at h
      exact absurd he (h.1 ▸ hc x (List.mem_cons_self ..))
  | b :: bs, c, r, h, hc, hb, hr => by
    cases c with
    | nil =>
      simp at h
      subst h
      rcases hr with hr | hr
      · simp at hr
      · exact absurd hr (hb b (List.mem_cons_self ..))
    | cons x c' =>
      simp at h
      obtain ⟨rfl, h⟩ := h
      have := split_unique eof he bs c' r (by simpa using h)
        (fun t ht => hc t (List.mem_cons_of_mem _ ht)) (fun t ht => hb t (List.mem_cons_of_mem _ ht)) hr
      rw [this]

theorem bodyKinds_eq (body : List Token) (eof : Token) : bodyKinds (body ++ [eof]) = kinds body := by
  simp [bodyKinds, kinds]

theorem sound_core (body : List Token) (eof : Token) (he : eof.kind = Tok.T_EOF) (hb : NoEof body)
    (herr : (parseTokens (body ++ [eof])).2 = []) : D LangNT.S (kinds body) := by
  rw [parseTokens_snd] at herr
  have h0 := pTrailing_le ((body ++ [eof]).length + 1) (parseFuel (body ++ [eof]).length)
    (pS (parseFuel (body ++ [eof]).length) ⟨body ++ [eof], []⟩).2
  rw [herr] at h0
  rcases (ab_all (parseFuel (body ++ [eof]).length)).s ⟨body ++ [eof], []⟩ with h1 | ⟨h1, hrun⟩
  · exact absurd (Nat.lt_of_lt_of_le h1 h0) (Nat.lt_irrefl _)
  · have h2 := pTrailing_noerr _ _ _ (by rw [herr]; simp)
    obtain ⟨c, hc, hn, hd⟩ := run_derives hrun
    have := split_unique eof he body c _ hc hn hb h2
    rw [this] at hd
    exact hd

theorem complete_core (body : List Token) (eof : Token) (he : eof.kind = Tok.T_EOF)
    (hd : D LangNT.S (kinds body)) : (parseTokens (body ++ [eof])).2 = [] := by
  have hrun := derives_run body he hd
  have h1 : (pS (parseFuel (body ++ [eof]).length) ⟨body ++ [eof], []⟩).2 = ⟨[eof], []⟩ :=
    (run_parse hrun).2 _ [] (by simp only [need, parseFuel]; omega)
  rw [parseTokens_snd, h1, pTrailing_stop _ _ ⟨[eof], []⟩ (Or.inr he)]

theorem parse_sound (ts : List Token) (h : EndMarked ts) (he : (parseTokens ts).2 = []) :
    Derives langGrammar (.n LangNT.S) (bodyKinds ts) := by
  obtain ⟨body, eof, rfl, hk, hb⟩ := h
  rw [bodyKinds_eq]
  exact sound_core body eof hk hb he

theorem parse_complete (ts : List Token) (h : EndMarked ts)
    (hd : Derives langGrammar (.n LangNT.S) (bodyKinds ts)) : (parseTokens ts).2 = [] := by
  obtain ⟨body, eof, rfl, hk, hb⟩ := h
  rw [bodyKinds_eq] at hd
  exact complete_core body eof hk hd

/-! ### the fuel is never exhausted -/

def noFuel (ps : PS) : Prop := ∀ e ∈ ps.errs, e.kind ≠ SynKind.fuel

/-- no `fuel` error is added and the input does not grow -/
def Fok (a b : PS) : Prop := (noFuel a → noFuel b) ∧ b.ts.length ≤ a.ts.length

theorem Fok.refl (a : PS) : Fok a a := ⟨id, Nat.le_refl _⟩
theorem Fok.trans {a b c : PS} (h1 : Fok a b) (h2 : Fok b c) : Fok a c :=
  ⟨fun h => h2.1 (h1.1 h), Nat.le_trans h2.2 h1.2⟩

theorem err_fok (ps : PS) (k : SynKind) (hk : k ≠ .fuel) : Fok ps (ps.err k) := by
  refine ⟨?_, Nat.le_refl _⟩
  intro h e he
  simp only [PS.err, List.mem_append, List.mem_singleton] at he
  rcases he with he | rfl
  · exact h e he
  · exact hk

theorem skipToSep_length : ∀ ts : List Token, (PS.skipToSep ts).length ≤ ts.length
  | [] => by simp [PS.skipToSep]
  | t :: ts => by
    rw [PS.skipToSep]
    split
    · exact Nat.le_refl _
    · have := skipToSep_length ts
      simp; omega

theorem matchK_fok (ps : PS) (k : Nat) : Fok ps (ps.matchK k) := by
  unfold PS.matchK
  have h1 : Fok ps (if ps.la ≠ k then { ps.err .expectedToken with ts := PS.skipToSep ps.ts } else ps) := by
    split
    · exact ⟨(err_fok ps .expectedToken (by decide)).1, skipToSep_length _⟩
    · exact Fok.refl _
  refine h1.trans ?_
  generalize (if ps.la ≠ k then { ps.err .expectedToken with ts := PS.skipToSep ps.ts } else ps) = ps1
  dsimp only
  split
  · exact ⟨id, by simp⟩
  · exact Fok.refl _

theorem matchK_strict (ps : PS) (k : Nat) (h : ps.la = k) (hk : k ≠ Tok.T_EOF) :
    (ps.matchK k).ts.length + 1 = ps.ts.length := by
  obtain ⟨ts, e⟩ := ps
  obtain ⟨t, r, rfl⟩ := laT_ne_eof (ts := ts) (by rw [← la_mk ts e, h]; exact hk)
  rw [matchK_ok (show t.kind = k from h) hk]
  rfl

abbrev Comp (k : Nat) : Prop :=
  k = Tok.ID ∨ k = Tok.LOOP ∨ k = Tok.WHILE ∨ k = Tok.GOTO ∨ k = Tok.IF ∨ k = Tok.STOP

theorem oports_fok (ps : PS) : Fok ps (pOPORTS ps).2 := by
  rw [pOPORTS_eq]
  split
  · exact (matchK_fok _ _).trans (matchK_fok _ _)
  · exact Fok.refl _

/-- the induction hypothesis at one fuel level: with `4·|input| + c` levels left, where the small
    constant `c` depends on the function and on the lookahead -/
structure FB (f : Nat) : Prop where
  s : ∀ ps : PS, 4 * ps.ts.length + (if ps.la = Tok.PROGRAM then 1 else 4) ≤ f →
    Fok ps (pS f ps).2 ∧ (ps.la = Tok.PROGRAM → (pS f ps).2.ts.length < ps.ts.length)
  ports : ∀ ps : PS, 4 * ps.ts.length + 1 ≤ f → Fok ps (pPORTS f ps).2
  args : ∀ ps : PS, 4 * ps.ts.length + 1 ≤ f → Fok ps (pARGS f ps).2
  p : ∀ ps : PS, 4 * ps.ts.length + (if Comp ps.la then 1 else 3) ≤ f →
    Fok ps (pP f ps).2 ∧ (Comp ps.la → (pP f ps).2.ts.length < ps.ts.length)
  eeos : ∀ ps : PS, 4 * ps.ts.length + 2 ≤ f → Fok ps (pEEOS f ps)
  morep : ∀ ps : PS, 4 * ps.ts.length + 1 ≤ f →
    Fok ps (pMOREP f ps).2 ∧ (ps.la = Tok.PROGSEP → (pMOREP f ps).2.ts.length < ps.ts.length)
  value : ∀ ps : PS, 4 * ps.ts.length + 1 ≤ f → Fok ps (pVALUE f ps).2
  mv : ∀ ps : PS, 4 * ps.ts.length + 1 ≤ f → Fok ps (pMVARGS f ps).2

theorem fb_zero : FB 0 where
  s ps h := by split at h <;> omega
  ports ps h := by omega
  args ps h := by omega
  p ps h := by split at h <;> omega
  eeos ps h := by omega
  morep ps h := by omega
  value ps h := by omega
  mv ps h := by omega

theorem fb_p_any {f : Nat} (ih : FB f) (ps : PS) (h : 4 * ps.ts.length + 3 ≤ f) : Fok ps (pP f ps).2 :=
  (ih.p ps (by split <;> omega)).1

theorem fb_s_any {f : Nat} (ih : FB f) (ps : PS) (h : 4 * ps.ts.length + 4 ≤ f) : Fok ps (pS f ps).2 :=
  (ih.s ps (by split <;> omega)).1

theorem fb_tail {f : Nat} (ih : FB f) (ps : PS) (h : 4 * ps.ts.length + 2 ≤ f) :
    Fok ps (pEEOS f (pMOREP f ps).2) := by
  have h1 := (ih.morep ps (by omega)).1
  exact h1.trans (ih.eeos _ (by have := h1.2; omega))

theorem fb_s {f : Nat} (ih : FB f) (ps : PS)
    (hb : 4 * ps.ts.length + (if ps.la = Tok.PROGRAM then 1 else 4) ≤ f + 1) :
    Fok ps (pS (f+1) ps).2 ∧ (ps.la = Tok.PROGRAM → (pS (f+1) ps).2.ts.length < ps.ts.length) := by
  rw [pS_succ]
  split
  · rename_i h
    rw [if_pos h] at hb
    have l1 := matchK_strict ps _ h (by decide)
    have m1 := matchK_fok ps Tok.PROGRAM
    generalize ps.matchK Tok.PROGRAM = s1 at *
    have m2 := matchK_fok s1 Tok.ID
    generalize s1.matchK Tok.ID = s2 at *
    have m3 := ih.ports s2 (by have := m2.2; omega)
    generalize (pPORTS f s2).2 = s3 at *
    have m4 := matchK_fok s3 Tok.DO
    generalize s3.matchK Tok.DO = s4 at *
    have m5 := fb_p_any ih s4 (by have := m2.2; have := m3.2; have := m4.2; omega)
    generalize (pP f s4).2 = s5 at *
    have m6 := matchK_fok s5 Tok.END
    generalize s5.matchK Tok.END = s6 at *
    have m7 := fb_s_any ih s6 (by have := m2.2; have := m3.2; have := m4.2; have := m5.2; have := m6.2; omega)
    refine ⟨m1.trans (m2.trans (m3.trans (m4.trans (m5.trans (m6.trans m7))))), fun _ => ?_⟩
    have := m2.2; have := m3.2; have := m4.2; have := m5.2; have := m6.2; have := m7.2; omega
  · rename_i h
    rw [if_neg h] at hb
    exact ⟨fb_p_any ih ps (by omega), fun hx => absurd hx h⟩

theorem fb_ports {f : Nat} (ih : FB f) (ps : PS) (hb : 4 * ps.ts.length + 1 ≤ f + 1) :
    Fok ps (pPORTS (f+1) ps).2 := by
  rw [pPORTS_succ]
  split
  · rename_i h
    have l1 := matchK_strict ps _ h (by decide)
    have m1 := matchK_fok ps Tok.IN
    generalize ps.matchK Tok.IN = s1 at *
    have m2 := ih.args s1 (by omega)
    exact m1.trans (m2.trans (oports_fok _))
  · exact Fok.refl _

theorem fb_args {f : Nat} (ih : FB f) (ps : PS) (hb : 4 * ps.ts.length + 1 ≤ f + 1) :
    Fok ps (pARGS (f+1) ps).2 := by
  rw [pARGS_succ]
  have m1 := matchK_fok ps Tok.ID
  generalize ps.matchK Tok.ID = s1 at *
  split
  · exact m1
  · rename_i h
    have h' : s1.la = Tok.ARGSEP := Decidable.not_not.mp h
    have l2 := matchK_strict s1 _ h' (by decide)
    have m2 := matchK_fok s1 Tok.ARGSEP
    generalize s1.matchK Tok.ARGSEP = s2 at *
    exact m1.trans (m2.trans (ih.args s2 (by have := m1.2; omega)))

theorem fb_value {f : Nat} (ih : FB f) (ps : PS) (hb : 4 * ps.ts.length + 1 ≤ f + 1) :
    Fok ps (pVALUE (f+1) ps).2 := by
  rw [pVALUE_succ]
  split
  · exact matchK_fok _ _
  · split
    · exact matchK_fok _ _
    · split
      · rename_i h
        have l1 := matchK_strict ps _ h (by decide)
        have m1 := matchK_fok ps Tok.RUN
        generalize ps.matchK Tok.RUN = s1 at *
        have m2 := matchK_fok s1 Tok.ID
        generalize s1.matchK Tok.ID = s2 at *
        have m3 := matchK_fok s2 Tok.WITH
        generalize s2.matchK Tok.WITH = s3 at *
        split
        · exact m1.trans (m2.trans (m3.trans (matchK_fok _ _)))
        · have m4 := ih.value s3 (by have := m2.2; have := m3.2; omega)
          generalize (pVALUE f s3).2 = s4 at *
          have m5 := ih.mv s4 (by have := m2.2; have := m3.2; have := m4.2; omega)
          exact m1.trans (m2.trans (m3.trans (m4.trans (m5.trans (matchK_fok _ _)))))
      · exact err_fok _ _ (by decide)

theorem fb_mv {f : Nat} (ih : FB f) (ps : PS) (hb : 4 * ps.ts.length + 1 ≤ f + 1) :
    Fok ps (pMVARGS (f+1) ps).2 := by
  rw [pMVARGS_succ]
  split
  · exact Fok.refl _
  · rename_i h
    have h' : ps.la = Tok.ARGSEP := Decidable.not_not.mp h
    have l1 := matchK_strict ps _ h' (by decide)
    have m1 := matchK_fok ps Tok.ARGSEP
    generalize ps.matchK Tok.ARGSEP = s1 at *
    have m2 := ih.value s1 (by omega)
    split
    · exact m1.trans m2
    · exact m1.trans (m2.trans (ih.mv _ (by have := m2.2; omega)))

theorem fb_eeos {f : Nat} (ih : FB f) (ps : PS) (hb : 4 * ps.ts.length + 2 ≤ f + 1) :
    Fok ps (pEEOS (f+1) ps) := by
  rw [pEEOS_succ]
  split
  · rename_i h
    have m1 := err_fok ps .missingSemi (by decide)
    have m2 := ih.p (ps.err .missingSemi) (by rw [err_la, if_pos h, err_ts]; omega)
    have l2 := m2.2 h
    rw [err_ts] at l2
    exact m1.trans (m2.1.trans (ih.eeos _ (by omega)))
  · split
    · rename_i h
      have m1 := err_fok ps .progNotAllowed (by decide)
      have m2 := ih.s (ps.err .progNotAllowed) (by rw [err_la, if_pos h, err_ts]; omega)
      have l2 := m2.2 h
      rw [err_ts] at l2
      exact m1.trans (m2.1.trans (ih.eeos _ (by omega)))
    · split
      · rename_i h
        have m2 := ih.morep ps (by omega)
        have l2 := m2.2 h
        exact m2.1.trans (ih.eeos _ (by omega))
      · exact Fok.refl _

theorem fb_morep {f : Nat} (ih : FB f) (ps : PS) (hb : 4 * ps.ts.length + 1 ≤ f + 1) :
    Fok ps (pMOREP (f+1) ps).2 ∧ (ps.la = Tok.PROGSEP → (pMOREP (f+1) ps).2.ts.length < ps.ts.length) := by
  rw [pMOREP_succ]
  split
  · rename_i h
    exact ⟨Fok.refl _, fun hx => absurd hx h⟩
  · rename_i h
    have h' : ps.la = Tok.PROGSEP := Decidable.not_not.mp h
    have l1 := matchK_strict ps _ h' (by decide)
    have m1 := matchK_fok ps Tok.PROGSEP
    generalize ps.matchK Tok.PROGSEP = s1 at *
    have m2 : Fok s1 (if s1.la = Tok.END ∨ s1.la = Tok.T_EOF then s1.err .excessSemi else s1) := by
      split
      · exact err_fok _ _ (by decide)
      · exact Fok.refl _
    generalize (if s1.la = Tok.END ∨ s1.la = Tok.T_EOF then s1.err .excessSemi else s1) = s2 at *
    have m3 := fb_p_any ih s2 (by have := m2.2; omega)
    refine ⟨m1.trans (m2.trans m3), fun _ => ?_⟩
    have := m2.2; have := m3.2; omega

theorem fb_p {f : Nat} (ih : FB f) (ps : PS)
    (hb : 4 * ps.ts.length + (if Comp ps.la then 1 else 3) ≤ f + 1) :
    Fok ps (pP (f+1) ps).2 ∧ (Comp ps.la → (pP (f+1) ps).2.ts.length < ps.ts.length) := by
  rw [pP_succ]
  split
  · rename_i h
    rw [if_pos (Or.inl h)] at hb
    have l1 := matchK_strict ps _ h (by decide)
    have m1 := matchK_fok ps Tok.ID
    generalize ps.matchK Tok.ID = s1 at *
    have m2 : Fok s1 (if s1.la = Tok.ASSIGN then (pVALUE f (s1.matchK Tok.ASSIGN)).2
        else if s1.la = Tok.LABELDEC then (pP f (s1.matchK Tok.LABELDEC)).2
        else s1.err .expectedAssign) := by
      split
      · have m := matchK_fok s1 Tok.ASSIGN
        exact m.trans (ih.value _ (by have := m.2; omega))
      · split
        · have m := matchK_fok s1 Tok.LABELDEC
          exact m.trans (fb_p_any ih _ (by have := m.2; omega))
        · exact err_fok _ _ (by decide)
    generalize (if s1.la = Tok.ASSIGN then (pVALUE f (s1.matchK Tok.ASSIGN)).2
        else if s1.la = Tok.LABELDEC then (pP f (s1.matchK Tok.LABELDEC)).2
        else s1.err .expectedAssign) = s2 at *
    have m3 := fb_tail ih s2 (by have := m2.2; omega)
    refine ⟨m1.trans (m2.trans m3), fun _ => ?_⟩
    have := m2.2; have := m3.2; omega
  · split
    · rename_i h0 h
      have hc : Comp ps.la := by
        rcases h with h | h
        · exact Or.inr (Or.inl h)
        · exact Or.inr (Or.inr (Or.inl h))
      rw [if_pos hc] at hb
      have l1 := matchK_strict ps ps.la rfl (by rcases h with h | h <;> rw [h] <;> decide)
      have m1 := matchK_fok ps ps.la
      generalize ps.matchK ps.la = s1 at *
      have m2 := matchK_fok s1 Tok.ID
      generalize s1.matchK Tok.ID = s2 at *
      have m3 : Fok s2 (if ps.la = Tok.WHILE then s2.matchK Tok.NEQ_ZERO else s2) := by
        split
        · exact matchK_fok _ _
        · exact Fok.refl _
      generalize (if ps.la = Tok.WHILE then s2.matchK Tok.NEQ_ZERO else s2) = s3 at *
      have m4 := matchK_fok s3 Tok.DO
      generalize s3.matchK Tok.DO = s4 at *
      have m5 := fb_p_any ih s4 (by have := m2.2; have := m3.2; have := m4.2; omega)
      generalize (pP f s4).2 = s5 at *
      have m6 := matchK_fok s5 Tok.END
      generalize s5.matchK Tok.END = s6 at *
      have m7 := fb_tail ih s6 (by have := m2.2; have := m3.2; have := m4.2; have := m5.2; have := m6.2; omega)
      refine ⟨m1.trans (m2.trans (m3.trans (m4.trans (m5.trans (m6.trans m7))))), fun _ => ?_⟩
      have := m2.2; have := m3.2; have := m4.2; have := m5.2; have := m6.2; have := m7.2; omega
    · split
      · rename_i h
        rw [if_pos (Or.inr (Or.inr (Or.inr (Or.inl h))))] at hb
        have l1 := matchK_strict ps _ h (by decide)
        have m1 := matchK_fok ps Tok.GOTO
        generalize ps.matchK Tok.GOTO = s1 at *
        have m2 := matchK_fok s1 Tok.ID
        generalize s1.matchK Tok.ID = s2 at *
        have m3 := fb_tail ih s2 (by have := m2.2; omega)
        refine ⟨m1.trans (m2.trans m3), fun _ => ?_⟩
        have := m2.2; have := m3.2; omega
      · split
        · rename_i h
          rw [if_pos (Or.inr (Or.inr (Or.inr (Or.inr (Or.inl h)))))] at hb
          have l1 := matchK_strict ps _ h (by decide)
          have m1 := matchK_fok ps Tok.IF
          generalize ps.matchK Tok.IF = s1 at *
          have m2 := matchK_fok s1 Tok.ID
          generalize s1.matchK Tok.ID = s2 at *
          have m3 := matchK_fok s2 Tok.EQ
          generalize s2.matchK Tok.EQ = s3 at *
          have m4 := matchK_fok s3 Tok.INT
          generalize s3.matchK Tok.INT = s4 at *
          have m5 := matchK_fok s4 Tok.THEN
          generalize s4.matchK Tok.THEN = s5 at *
          have m6 := matchK_fok s5 Tok.GOTO
          generalize s5.matchK Tok.GOTO = s6 at *
          have m7 := matchK_fok s6 Tok.ID
          generalize s6.matchK Tok.ID = s7 at *
          have m8 := fb_tail ih s7 (by
            have := m2.2; have := m3.2; have := m4.2; have := m5.2; have := m6.2; have := m7.2; omega)
          refine ⟨m1.trans (m2.trans (m3.trans (m4.trans (m5.trans (m6.trans (m7.trans m8)))))), fun _ => ?_⟩
          have := m2.2; have := m3.2; have := m4.2; have := m5.2; have := m6.2; have := m7.2; have := m8.2
          omega
        · split
          · rename_i h
            rw [if_pos (Or.inr (Or.inr (Or.inr (Or.inr (Or.inr h)))))] at hb
            have l1 := matchK_strict ps _ h (by decide)
            have m1 := matchK_fok ps Tok.STOP
            generalize ps.matchK Tok.STOP = s1 at *
            have m3 := fb_tail ih s1 (by omega)
            refine ⟨m1.trans m3, fun _ => ?_⟩
            have := m3.2; omega
          · rename_i h1 h2 h3 h4 h5
            have hc : ¬ Comp ps.la := by
              intro hx
              rcases hx with hx | hx | hx | hx | hx | hx
              · exact h1 hx
              · exact h2 (Or.inl hx)
              · exact h2 (Or.inr hx)
              · exact h3 hx
              · exact h4 hx
              · exact h5 hx
            rw [if_neg hc] at hb
            exact ⟨(err_fok ps .expectedComponent (by decide)).trans (ih.eeos _ (by rw [err_ts]; omega)),
              fun hx => absurd hx hc⟩

theorem fb_all : ∀ f, FB f
  | 0 => fb_zero
  | f + 1 =>
    have ih := fb_all f
    { s := fb_s ih, ports := fb_ports ih, args := fb_args ih, p := fb_p ih, eeos := fb_eeos ih,
      morep := fb_morep ih, value := fb_value ih, mv := fb_mv ih }

theorem pTrailing_fok : ∀ (n fuel : Nat) (ps : PS), 4 * ps.ts.length + 4 ≤ fuel →
    Fok ps (pTrailing n fuel ps)
  | 0, _, _, _ => by rw [pTrailing]; exact Fok.refl _
  | n + 1, fuel, ps, hb => by
    rw [pTrailing]
    split
    · exact Fok.refl _
    · have m1 := err_fok ps .excessInput (by decide)
      have m2 := matchK_fok (ps.err .excessInput) (ps.err .excessInput).la
      dsimp only
      split
      · exact m1.trans m2
      · have l2 := m2.2
        rw [err_ts] at l2
        have m3 := fb_s_any (fb_all fuel) ((ps.err .excessInput).matchK (ps.err .excessInput).la) (by omega)
        exact m1.trans (m2.trans (m3.trans (pTrailing_fok n fuel _ (by have := m3.2; omega))))

theorem parse_fuel_ok (ts : List Token) : ∀ e ∈ (parseTokens ts).2, e.kind ≠ SynKind.fuel := by
  rw [parseTokens_snd]
  have m1 := fb_s_any (fb_all (parseFuel ts.length)) ⟨ts, []⟩ (by simp only [parseFuel]; omega)
  have m2 := pTrailing_fok (ts.length + 1) (parseFuel ts.length) (pS (parseFuel ts.length) ⟨ts, []⟩).2
    (by have := m1.2; simp only [parseFuel] at *; omega)
  exact (m1.trans m2).1 (by intro e he; cases he)

/-! ### parse errors reach the compilation result -/

theorem errors_not_lost (files : Files) (main : Bytes) :
    ((parseFiles files main).ast.ok = true ↔ (parseFiles files main).ast.errs = []) ∧
    ((parseFiles files main).ast.ok = false →
      (compile files main).ok = false ∧ (compile files main).errors ≠ []) := by
  have h1 : (parseFiles files main).ast.ok = true ↔ (parseFiles files main).ast.errs = [] := by
    rw [parseFiles_ok_eq, List.isEmpty_iff]
  refine ⟨h1, ?_⟩
  intro hok
  have hne : (parseFiles files main).ast.errs ≠ [] := by
    intro hx
    rw [h1.mpr hx] at hok
    cases hok
  refine ⟨(parse_error_not_passed_on files main hne).2, ?_⟩
  have he : (compile files main).errors = (gen (parseFiles files main).ast).errors := by
    simp only [compile]
  rw [he]
  intro hx
  have h2 := gen_errors_length _ hok
  rw [hx] at h2
  have h3 : 0 < (parseFiles files main).ast.errs.length := List.length_pos_iff.mpr hne
  rw [List.length_nil] at h2
  omega

end C04
end Theo
