/-
  C01 for the generator model, part 15: a whole routine body — the walk succeeds and every jump
  resolves (`body_corr`).
-/
import Theo.Proofs.GenShapeProg

set_option linter.unusedSimpArgs false
set_option linter.unusedVariables false

namespace Theo
namespace GenShape
open GS Sem Static

/-- jump targets are defined at most once in the body (see Props/C01GenShape.lean) -/
def labelsOK (b : Node) : Bool := (refsOf b).all (fun m => decide ((defsOf b).count m ≤ 1))

theorem filter_fst_length {β : Type} (l : List (Bytes × β)) (m : Bytes) :
    (l.filter (fun e => e.1 = m)).length = (l.map (·.1)).count m := by
  induction l with
  | nil => rfl
  | cons x xs ih =>
    by_cases h : x.1 = m
    · simp [List.filter_cons, h, ih]
    · have h' : ¬ (x.1 == m) = true := by simpa using h
      simp [List.filter_cons, h, ih, List.count_cons, h']

theorem body_corr {X : RC} (ok : X.OK) (f : Nat) (g : GS) (r2 : Node) (hf : nodeSize r2 ≤ f)
    (hs : stmtShape r2 = true) (hn : stmtNames r2 = true) (hlab : labelsOK r2 = true)
    (ps : List ProgDef)
    (hst : stmtsOK X.src X.rt (stmtsOf r2 g.loops ps).1 (stmtsOf r2 g.loops ps).1 = true)
    (hm : g.top.marks = []) (hd : Head g)
    (hext : RegsExt (dispatchVoid f g r2).top.regs X.R)
    (hag : Agree X.L (dispatchVoid f g r2).code X.C)
    (hfn : FuncInv X g)
    (hfin : ∀ (l : Nat) (v : Int), (dispatchVoid f g r2).labels[l]? = some v → v ≠ -1 → (X.L[l]?).getD (-1) = v)
    (pc : Nat) (hat : At X pc g) :
    ∃ w, checkStmts X.e (stmtsOf r2 g.loops ps).1 ⟨pc, [], []⟩ = some w ∧ At X w.pc (dispatchVoid f g r2) ∧
      resolveOK X.C w = true := by
  have w0 : MarksWF g := MarksWF.of_nil hm
  have st := step_void f g r2
  have sq := sq_void f g r2 hf hs hn
  have wb : MarksWF (dispatchVoid f g r2) := st.wf w0
  have lk : SLinks X (dispatchVoid f g r2) :=
    ⟨⟨hext, hag, hfn.congr sq.gq.funcAddrs⟩, fun l v h1 h2 _ => hfin l v h1 h2⟩
  obtain ⟨w, cw, sr⟩ := stmt_corr ok f g r2 hf hs hn ps _ hst lk w0 hd ⟨pc, [], []⟩ hat
  refine ⟨w, cw, sr.at_, ?_⟩
  obtain ⟨nm, a1, a2, a3⟩ := sr.marks
  obtain ⟨ng, b1, b2, b3⟩ := sr.gotos
  simp only [List.nil_append] at a1 b1
  -- every jump target is a label of the body
  have hb : bodyOK (arity X.src X.rt) r2 = true := by rw [← body_link X.src X.rt r2 hs g.loops ps]; exact hst
  have hdef := ((bodyOK_iff _ _).1 hb).2
  unfold resolveOK
  rw [List.all_eq_true]
  intro gt hgt
  rw [b1] at hgt
  have hm2 : gt.2.2 ∈ refsOf r2 := by rw [← b2]; exact List.mem_map_of_mem (f := (·.2.2)) hgt
  have hone : (defsOf r2).count gt.2.2 = 1 := by
    have h1 : (defsOf r2).count gt.2.2 ≤ 1 := by
      unfold labelsOK at hlab
      rw [List.all_eq_true] at hlab
      simpa using hlab _ hm2
    have h2 : 0 < (defsOf r2).count gt.2.2 := List.count_pos_iff.2 (hdef _ hm2)
    omega
  have hlen : (w.marks.filter (fun e => e.1 = gt.2.2)).length = 1 := by
    rw [a1, filter_fst_length, a2, hone]
  obtain ⟨lab, k1, k2⟩ := b3 gt hgt
  cases hfl : w.marks.filter (fun e => e.1 = gt.2.2) with
  | nil => rw [hfl] at hlen; cases hlen
  | cons x xs =>
    cases xs with
    | cons y ys => rw [hfl] at hlen; simp at hlen
    | nil =>
      simp only
      have hx1 : x.1 = gt.2.2 := by
        have : x ∈ w.marks.filter (fun e => e.1 = gt.2.2) := by rw [hfl]; exact List.mem_cons_self
        simpa using (List.mem_filter.1 this).2
      have hlast : (nm.filter (fun e => e.1 = gt.2.2)).getLast? = some (gt.2.2, x.2) := by
        rw [← a1, hfl]
        simp only [List.getLast?_singleton]
        rw [← hx1]
      obtain ⟨lab', v, c1, c2, c3, c4⟩ := a3 _ _ hlast
      have hll : lab = lab' := by
        have h1 := mlab_of_mem wb k1
        have h2 := mlab_of_mem wb c1
        rw [h1] at h2
        exact Option.some.inj h2
      subst hll
      have hL := hfin lab v c2 (by omega)
      refine sameAnchor_of (by rw [← k2, hL]; exact c3) ?_
      rw [← k2, hL]
      exact c4

end GenShape
end Theo
