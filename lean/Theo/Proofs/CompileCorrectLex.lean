/-
  C01 (end to end), part 1: the texts of the tokens the scanner produces.
  A token of a buffer is a lexeme matched by the rule whose action gave it its kind
  (`lexBuffer_tok_rule`); hence (closed facts about the regenerated rule table, re-checked by
  kernel evaluation) a token of kind `ID` is identifier-shaped and a token of kind `TEMP_VAL`
  starts with `#`.  The include splice and the final EOF token keep that (`scan_tokOK`).
-/
import Theo.Props.C14Ident
import Theo.Proofs.LocatedProofs1

namespace Theo
namespace CompileCorrect

/-- the text invariant of the front end: an `ID` token is identifier-shaped or starts with `#`
    (a renamed macro temporary); a `TEMP_VAL` token (a macro temporary before renaming) starts
    with `#` -/
def TokOK (t : Token) : Prop :=
  (t.kind = Tok.ID → identShape t.text = true ∨ t.text.head? = some 35) ∧
  (t.kind = Tok.TEMP_VAL → t.text.head? = some 35)

def ToksOK (ts : List Token) : Prop := ∀ t ∈ ts, TokOK t

theorem TokOK.of_other {t : Token} (h1 : t.kind ≠ Tok.ID) (h2 : t.kind ≠ Tok.TEMP_VAL) : TokOK t :=
  ⟨fun h => absurd h h1, fun h => absurd h h2⟩

/-! ### one buffer -/

/-- every token of a buffer is a maximal munch of some suffix, with the kind of the rule's action -/
theorem lexFrom_tok (rules : List (Rx × Option Nat)) :
    ∀ (fuel : Nat) (inp : Bytes) (line : Nat), ∀ t ∈ lexFrom rules fuel inp line,
      ∃ (inp' : Bytes) (i n : Nat), longest (rules.map (·.1)) inp' = some (i, n) ∧
        t.text = inp'.take n ∧ (rules[i]?).bind (·.2) = some t.kind := by
  intro fuel
  induction fuel with
  | zero => intro inp line t ht; simp [lexFrom] at ht
  | succ fuel ih =>
    intro inp line t ht
    cases inp with
    | nil => simp [lexFrom] at ht
    | cons c cs =>
      simp only [lexFrom] at ht
      cases hl : longest (rules.map (·.1)) (c :: cs) with
      | none => rw [hl] at ht; simp at ht
      | some v =>
        obtain ⟨i, n⟩ := v
        rw [hl] at ht
        simp only [] at ht
        split at ht
        · next k hk =>
          rcases List.mem_cons.1 ht with h | h
          · subst h
            exact ⟨c :: cs, i, n, hl, rfl, hk⟩
          · exact ih _ _ t h
        · exact ih _ _ t ht

/-- a token of a buffer is matched by a rule of lexer.l whose action returns the token's kind -/
theorem lexBuffer_tok_rule (content : Bytes) (t : RawTok) (ht : t ∈ lexBuffer content) :
    ∃ (i : Nat) (r : Rx), LexGen.rules[i]? = some (r, some t.kind) ∧ r.Matches t.text := by
  obtain ⟨inp', i, n, hl, htx, hk⟩ := lexFrom_tok LexGen.rules _ _ _ t ht
  obtain ⟨_, _, ⟨r, hr, hm⟩, _⟩ := (longest_match _ _ _ _).1 hl
  rw [List.getElem?_map] at hr
  cases hi : LexGen.rules[i]? with
  | none => rw [hi] at hr; cases hr
  | some e =>
    rw [hi] at hr hk
    simp only [Option.map_some, Option.some.injEq] at hr
    simp only [Option.bind_some] at hk
    obtain ⟨a, b⟩ := e
    simp only at hr hk
    subst hr hk
    exact ⟨i, a, hi, htx ▸ hm⟩

/-- the regex is `[#] …`: a first byte that can only be `#` -/
def hashRx : Rx → Bool
  | .seq (.cls rs) _ => allBytes.all (fun c => !inRanges rs c || c == 35)
  | _ => false

theorem hashRx_matches {r : Rx} (h : hashRx r = true) {w : Bytes} (hm : r.Matches w) :
    w.head? = some 35 := by
  match r, h, hm with
  | .seq (.cls rs) b, h, hm =>
    obtain ⟨s, t, rfl, hs, _⟩ := Rx.matches_seq_iff.1 hm
    obtain ⟨c, rfl, hc⟩ := Rx.matches_cls_iff.1 hs
    have := List.all_eq_true.1 h c (mem_allBytes c)
    simp only [hc, Bool.not_true, Bool.false_or, beq_iff_eq] at this
    simp [this]

/-- closed fact about the regenerated table: every rule with action `TEMP_VAL` is `[#] …` -/
theorem tempRules_hash :
    LexGen.rules.all (fun r => r.2 != some Tok.TEMP_VAL || hashRx r.1) = true := by
  decide +kernel

theorem lexBuffer_id (content : Bytes) (t : RawTok) (ht : t ∈ lexBuffer content)
    (hk : t.kind = Tok.ID) : identShape t.text = true := by
  obtain ⟨i, r, hr, hm⟩ := lexBuffer_tok_rule content t ht
  rw [hk] at hr
  exact C14_identifier_rules_only i r t.text hr hm

theorem lexBuffer_temp (content : Bytes) (t : RawTok) (ht : t ∈ lexBuffer content)
    (hk : t.kind = Tok.TEMP_VAL) : t.text.head? = some 35 := by
  obtain ⟨i, r, hr, hm⟩ := lexBuffer_tok_rule content t ht
  rw [hk] at hr
  have := List.all_eq_true.1 tempRules_hash _ (List.mem_of_getElem? hr)
  simp only [bne_self_eq_false, Bool.false_or] at this
  exact hashRx_matches this hm

/-! ### the include tree -/

theorem scanFile_tokOK (fs : Files) :
    ∀ (d : Nat) (active : List Bytes) (fname content : Bytes),
      ToksOK (scanFile d fs active fname content).toks := by
  intro d
  induction d with
  | zero => intro active fname content t ht; cases ht
  | succ d ih =>
    intro active fname content
    rw [scanFile]
    refine Loc.scanToksWith_ind' (fun o => ToksOK o.toks)
      (fun t => (t.kind = Tok.ID → identShape t.text = true) ∧
        (t.kind = Tok.TEMP_VAL → t.text.head? = some 35))
      _ fs (fname :: active) fname (fun _ h => (by cases h)) ?_ ?_ ?_ ?_ _
      (fun t ht => ⟨lexBuffer_id content t ht, lexBuffer_temp content t ht⟩)
    · intro a b ha hb t ht
      rcases List.mem_append.1 ht with h | h
      · exact ha t h
      · exact hb t h
    · intro t ht x hx
      rw [List.mem_singleton.1 hx]
      exact ⟨fun h => Or.inl (ht.1 h), ht.2⟩
    · intro t _ k r x hx; cases hx
    · intro n c _
      exact ih _ _ _

/-- every token of a scan obeys the text invariant -/
theorem scan_tokOK (fs : Files) (main : Bytes) : ToksOK (scan fs main).toks := by
  intro t ht
  rw [scan_toks] at ht
  rcases List.mem_append.1 ht with h | h
  · unfold scanBody at h
    split at h
    · exact scanFile_tokOK fs _ _ _ _ t h
    · cases h
  · rw [List.mem_singleton.1 h]
    exact TokOK.of_other (by rw [scanEof_kind]; decide) (by rw [scanEof_kind]; decide)

end CompileCorrect
end Theo
